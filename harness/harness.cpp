// Correspondence harness: executes an op script against the real ezc3d classes (compiled from
// /repo/src of the current working tree) and prints, after every op, the outcome and a canonical
// dump of the complete object.  The Lean driver prints the same lines from the model.
// Line protocol: see /verif/DESIGN.md §4.2 and /verif/lean/Driver/Proto.lean.
#include "ezc3d.h"
#include "Header.h"
#include "Parameters.h"
#include "Data.h"
#include <cstdio>
#include <cstdlib>
#include <cstring>
#include <cstdint>
#include <map>
#include <functional>
#include <memory>

using namespace ezc3d;
typedef ParametersNS::GroupNS::Parameter Parameter;
typedef ParametersNS::GroupNS::Group Group;
typedef DataNS::Frame Frame;
typedef DataNS::Points3dNS::Points Points;
typedef DataNS::Points3dNS::Point Point;
typedef DataNS::AnalogsNS::Analogs Analogs;
typedef DataNS::AnalogsNS::SubFrame SubFrame;
typedef DataNS::AnalogsNS::Channel Channel;

// access to the protected codec helpers
struct Open : public ezc3d::c3d {
    Open() : c3d() {}
    Open(const std::string& p) : c3d(p) {}
    unsigned int h2u(const char* v, unsigned int len) { return hex2uint(v, len); }
    int h2i(const char* v, unsigned int len) { return hex2int(v, len); }
};

static thread_local FILE* out = stdout;

// ---- write(2) fault injection (C15): bytes written to any descriptor other than the harness's own
// output are accepted up to g_budget and refused with ENOSPC beyond it.
#include <unistd.h>
#include <sys/syscall.h>
#include <sys/resource.h>
#include <errno.h>
#include <signal.h>
static long g_budget = -1;      // -1: no fault injection
static long g_accepted = 0;     // bytes accepted on faulted descriptors since the last reset
static long g_refused = 0;      // number of write calls refused
static int g_once = 0;          // 1: a TRANSIENT fault - exactly one write call is refused when the budget is used up, later ones are accepted
static int g_ownfd = 1;
extern "C" ssize_t write(int fd, const void* buf, size_t n) {
    if (g_budget < 0 || fd == g_ownfd || fd <= 2) return syscall(SYS_write, fd, buf, n);
    long room = g_budget - g_accepted;
    if (room <= 0) {
        if (g_once && g_refused > 0) { ssize_t r0 = syscall(SYS_write, fd, buf, n); return r0; }     // the fault is over
        ++g_refused; errno = ENOSPC; return -1;
    }
    size_t m = n <= (size_t)room ? n : (size_t)room;
    ssize_t r = syscall(SYS_write, fd, buf, m);
    if (r > 0) g_accepted += r;
    return r;
}
#include <sys/uio.h>
extern "C" ssize_t writev(int fd, const struct iovec* iov, int cnt) {   // libstdc++ uses writev for large xsputn
    if (g_budget < 0 || fd == g_ownfd || fd <= 2) return syscall(SYS_writev, fd, iov, cnt);
    ssize_t total = 0;
    for (int i = 0; i < cnt; ++i) {
        ssize_t r = write(fd, iov[i].iov_base, iov[i].iov_len);
        if (r < 0) return total > 0 ? total : -1;
        total += r;
        if ((size_t)r < iov[i].iov_len) break;
    }
    return total;
}

static std::string xhex(const std::string& s) {
    static const char* d = "0123456789abcdef";
    std::string r = "x";
    for (size_t i = 0; i < s.size(); ++i) { unsigned char c = (unsigned char)s[i]; r += d[c >> 4]; r += d[c & 15]; }
    return r;
}
static std::string hex8(float f) {
    uint32_t u; std::memcpy(&u, &f, 4);
    char b[16]; std::snprintf(b, sizeof b, "%08x", u); return b;
}
static float unhex8(const std::string& s) {
    uint32_t u = (uint32_t)std::strtoul(s.c_str(), nullptr, 16);
    float f; std::memcpy(&f, &u, 4); return f;
}
static int hv(char c) { if (c >= '0' && c <= '9') return c - '0'; if (c >= 'a' && c <= 'f') return c - 'a' + 10; if (c >= 'A' && c <= 'F') return c - 'A' + 10; return -1; }
static std::string unx(const std::string& s) {
    std::string r;
    for (size_t i = 1; i + 1 < s.size(); i += 2) r += (char)(hv(s[i]) * 16 + hv(s[i + 1]));
    return r;
}
static std::vector<std::string> split(const std::string& s, char sep) {
    std::vector<std::string> r; std::string cur;
    for (size_t i = 0; i < s.size(); ++i) { if (s[i] == sep) { r.push_back(cur); cur.clear(); } else cur += s[i]; }
    r.push_back(cur); return r;
}
static std::vector<std::string> splitList(const std::string& s, char sep) {
    if (s == "-" || s == "") return std::vector<std::string>();
    return split(s, sep);
}

static bool showWhat = std::getenv("HARNESS_WHAT") != nullptr;
static std::string classify(const std::function<void()>& fn) {
    try { fn(); return "ok"; }
    catch (std::ios_base::failure& e) { if (showWhat) std::fprintf(stderr, "what: %s\n", e.what()); return "throw ios_failure"; }
    catch (std::out_of_range&) { return "throw out_of_range"; }
    catch (std::invalid_argument&) { return "throw invalid_argument"; }
    catch (std::length_error&) { return "throw length_error"; }
    catch (std::range_error&) { return "throw range_error"; }
    catch (std::runtime_error&) { return "throw runtime_error"; }
    catch (std::bad_alloc&) { return "throw bad_alloc"; }
    catch (std::logic_error&) { return "throw logic_error"; }
    catch (std::exception&) { return "throw other"; }
    catch (...) { return "throw other"; }
}

static std::string natList(const std::vector<size_t>& v) {
    if (v.empty()) return "-"; std::string r;
    for (size_t i = 0; i < v.size(); ++i) { if (i) r += ","; r += std::to_string(v[i]); } return r;
}
static std::string intList(const std::vector<int>& v) {
    if (v.empty()) return "-"; std::string r;
    for (size_t i = 0; i < v.size(); ++i) { if (i) r += ","; r += std::to_string(v[i]); } return r;
}
static std::string f32List(const std::vector<float>& v) {
    if (v.empty()) return "-"; std::string r;
    for (size_t i = 0; i < v.size(); ++i) { if (i) r += ","; r += hex8(v[i]); } return r;
}
static std::string strList(const std::vector<std::string>& v) {
    if (v.empty()) return "-"; std::string r;
    for (size_t i = 0; i < v.size(); ++i) { if (i) r += ","; r += xhex(v[i]); } return r;
}
static const char* typeChar(ezc3d::DATA_TYPE t) {
    switch (t) { case ezc3d::CHAR: return "C"; case ezc3d::BYTE: return "B"; case ezc3d::INT: return "I";
                 case ezc3d::FLOAT: return "F"; default: return "N"; }
}
static std::string paramVals(const Parameter& p) {
    switch (p.type()) {
    case ezc3d::CHAR: return strList(p.valuesAsString());
    case ezc3d::BYTE: return intList(p.valuesAsByte());
    case ezc3d::INT: return intList(p.valuesAsInt());
    case ezc3d::FLOAT: return f32List(p.valuesAsFloat());
    default: return "-";
    }
}
static std::string paramLine(const Parameter& p) {
    return xhex(p.name()) + " " + xhex(p.description()) + " " + (p.isLocked() ? "1" : "0") + " " + typeChar(p.type())
        + " " + natList(p.dimension()) + " " + paramVals(p);
}
static std::string pointStr(const Point& p) {
    return xhex(p.name()) + " " + hex8(p.x()) + " " + hex8(p.y()) + " " + hex8(p.z()) + " " + hex8(p.residual());
}

static thread_local int dumpMode = 2; // 0 none, 1 shape, 2 full

static void dumpHeader(const ezc3d::Header& h) {
    std::fprintf(out, "H %zu %zu %zu %zu %zu %zu %zu %zu %d %zu %zu %s %d %d %d %d %zu %zu %zu %zu\n",
        h.nbOfZerosBeforeHeader(), h.parametersAddress(), h.checksum(), h.nb3dPoints(), h.nbAnalogsMeasurement(),
        h.firstFrame(), h.lastFrame(), h.nbMaxInterpGap(), h.scaleFactor(), h.dataStart(), h.nbAnalogByFrame(),
        hex8(h.frameRate()).c_str(), h.emptyBlock1(), h.emptyBlock2(), h.emptyBlock3(), h.emptyBlock4(),
        h.keyLabelPresent(), h.firstBlockKeyLabel(), h.fourCharPresent(), h.nbEvents());
    std::fprintf(out, "HT %s\n", f32List(h.eventsTime()).c_str());
    std::fprintf(out, "HD %s\n", natList(h.eventsDisplay()).c_str());
    std::fprintf(out, "HL %s\n", strList(h.eventsLabel()).c_str());
}
static void dumpFrame(size_t i, const Frame& f) {
    std::fprintf(out, "FR %zu %zu %zu\n", i, f.points().nbPoints(), f.analogs().nbSubframes());
    for (size_t j = 0; j < f.points().nbPoints(); ++j)
        std::fprintf(out, "PT %s\n", pointStr(f.points().point(j)).c_str());
    for (size_t k = 0; k < f.analogs().nbSubframes(); ++k) {
        const SubFrame& sf = f.analogs().subframe(k);
        std::string r;
        for (size_t c = 0; c < sf.nbChannels(); ++c) { if (c) r += ","; r += xhex(sf.channel(c).name()) + "=" + hex8(sf.channel(c).data()); }
        if (sf.nbChannels() == 0) r = "-";
        std::fprintf(out, "SF %zu %zu %s\n", k, sf.nbChannels(), r.c_str());
    }
}
static void dump(const ezc3d::c3d& c) {
    if (dumpMode == 0) return;
    dumpHeader(c.header());
    const ParametersNS::Parameters& P = c.parameters();
    std::fprintf(out, "PH %zu %zu %zu %zu\n", P.parametersStart(), P.checksum(), P.nbParamBlock(), P.processorType());
    for (size_t g = 0; g < P.nbGroups(); ++g) {
        const Group& G = P.group(g);
        std::fprintf(out, "G %zu %s %s %s %zu\n", g, xhex(G.name()).c_str(), xhex(G.description()).c_str(), G.isLocked() ? "1" : "0", G.nbParameters());
        for (size_t p = 0; p < G.nbParameters(); ++p)
            std::fprintf(out, "P %zu %zu %s\n", g, p, paramLine(G.parameter(p)).c_str());
    }
    std::fprintf(out, "NF %zu\n", c.data().nbFrames());
    if (dumpMode == 2)
        for (size_t i = 0; i < c.data().nbFrames(); ++i) dumpFrame(i, c.data().frame(i));
}

static Point parsePoint(const std::string& s) {
    std::vector<std::string> t = split(s, ':');
    Point p; p.name(unx(t[0])); p.x(unhex8(t[1])); p.y(unhex8(t[2])); p.z(unhex8(t[3])); p.residual(unhex8(t[4]));
    return p;
}
static void buildPA(const std::string& pts, const std::string& subs, Points& P, Analogs& A) {
    // Two equivalent ways of building the same caller-side frame, chosen deterministically from the arguments: appending
    // (push_back), or placing the elements by index from the last to the first (resize + assignment, then replacement).
    // The model knows one frame value; a difference between the two paths shows as a disagreement.
    const bool byIdx = ((pts.size() * 7 + subs.size()) % 3) == 0;
    std::vector<std::string> pl = splitList(pts, ';');
    // ... and, when appending, either a fresh element per entry or ONE Point / Channel object refilled and handed over again
    const bool reuse = ((pts.size() + subs.size()) % 2) == 1;
    if (!byIdx && reuse) { Point one; for (size_t i = 0; i < pl.size(); ++i) { Point q = parsePoint(pl[i]); one.name(q.name()); one.x(q.x()); one.y(q.y()); one.z(q.z()); one.residual(q.residual()); P.point(one); } }
    else if (!byIdx) for (size_t i = 0; i < pl.size(); ++i) P.point(parsePoint(pl[i]));
    else for (size_t i = pl.size(); i-- > 0; ) {
        Point decoy; decoy.name("decoy"); decoy.x(9.f); decoy.residual(-1.f);
        P.point(decoy, i);                 // something else sits at the position first: the indexed setter must REPLACE it
        P.point(parsePoint(pl[i]), i);
    }
    std::vector<std::string> sl = splitList(subs, '|');
    std::vector<SubFrame> sfs;
    for (size_t k = 0; k < sl.size(); ++k) {
        SubFrame sf;
        if (sl[k] != "e") {
            std::vector<std::string> cl = split(sl[k], ';');
            std::vector<Channel> cs;
            Channel one;
            for (size_t i = 0; i < cl.size(); ++i) {
                std::vector<std::string> t = split(cl[i], ':');
                if (reuse) { one.name(unx(t[0])); one.data(unhex8(t[1])); cs.push_back(one); }
                else { Channel c; c.name(unx(t[0])); c.data(unhex8(t[1])); cs.push_back(c); }
            }
            if (!byIdx) for (size_t i = 0; i < cs.size(); ++i) sf.channel(cs[i]);
            else for (size_t i = cs.size(); i-- > 0; ) {
                Channel decoy; decoy.name("decoy"); decoy.data(9.f);
                sf.channel(decoy, i); sf.channel(cs[i], i);
            }
        }
        sfs.push_back(sf);
    }
    if (!byIdx) for (size_t k = 0; k < sfs.size(); ++k) A.subframe(sfs[k]);
    else for (size_t k = sfs.size(); k-- > 0; ) {
        SubFrame decoy = sfs[k];           // a sub-frame with two channels MORE sits at the position first
        Channel extra; extra.name("decoy"); extra.data(9.f); decoy.channel(extra); decoy.channel(extra);
        A.subframe(decoy, k); A.subframe(sfs[k], k);
    }
}

static Frame makeFrame(const std::string& pts, const std::string& subs) {
    Points P; Analogs A; buildPA(pts, subs, P, A);
    Frame f; f.add(P, A);
    return f;
}

static bool setParam(Parameter& p, const std::string& type, const std::string& dims, const std::string& vals, std::string& outcome) {
    std::vector<size_t> d; { std::vector<std::string> dl = splitList(dims, ','); for (size_t i = 0; i < dl.size(); ++i) d.push_back((size_t)std::strtoull(dl[i].c_str(), nullptr, 10)); }
    std::vector<std::string> vl = splitList(vals, ',');
    outcome = classify([&]() {
        if (type == "I") { std::vector<int> v; for (size_t i = 0; i < vl.size(); ++i) v.push_back((int)std::strtol(vl[i].c_str(), nullptr, 10)); if (v.size() == 1 && d.empty()) p.set(v[0]); else p.set(v, d); }
        // a single value without explicit dimensions goes through the scalar overloads set(int) / set(float) / set(string)
        else if (type == "F") { std::vector<float> v; for (size_t i = 0; i < vl.size(); ++i) v.push_back(unhex8(vl[i])); if (v.size() == 1 && d.empty()) p.set(v[0]); else p.set(v, d); }
        else if (type == "C") { std::vector<std::string> v; for (size_t i = 0; i < vl.size(); ++i) v.push_back(unx(vl[i])); if (v.size() == 1 && d.empty()) p.set(v[0]); else p.set(v, d); }
    });
    return outcome == "ok";
}

template <class T> static void getLine(const std::function<std::string()>& fn) {
    std::string v; std::string r = classify([&]() { v = fn(); });
    if (r == "ok") std::fprintf(out, "V %s\n", v.c_str()); else std::fprintf(out, "T %s\n", r.c_str() + 6);
}

#include <thread>
#include <random>
#include <chrono>
static int g_stack_fill = -1;     // >= 0: overwrite the unused stack below the op loop with this byte before every op, so that
                                  // a read of an uninitialised local sees a value that differs between two runs (C14)
static void __attribute__((noinline)) scribble(int b) {
    volatile char buf[32768];
    for (size_t i = 0; i < sizeof buf; ++i) buf[i] = (char)b;
}
static int g_yield_seed = 0;     // > 0: perturb the schedule with random yields/sleeps between ops (C18)

static int runScript(const char* scriptPath, const char* outPath, int tid) {
    std::ifstream in(scriptPath);
    if (outPath) { out = std::fopen(outPath, "w"); if (!out) return 2; }
    if (tid < 0) g_ownfd = fileno(out);
    std::mt19937 rng((unsigned)(g_yield_seed * 7919 + tid));
    std::unique_ptr<Open> cur;
    std::map<std::string, Frame> vars;
    // references into a caller's frame taken when it was built (a caller that keeps `SubFrame&` / `Point&` across hand-overs)
    std::map<std::string, std::vector<SubFrame*> > keptSub; std::map<std::string, std::vector<Point*> > keptPt;
    auto capture = [&](const std::string& v) {
        keptSub[v].clear(); keptPt[v].clear(); Frame& f = vars[v];
        for (size_t k = 0; k < f.analogs().nbSubframes(); ++k) keptSub[v].push_back(&f.analogs_nonConst().subframe_nonConst(k));
        for (size_t i = 0; i < f.points().nbPoints(); ++i) keptPt[v].push_back(&f.points_nonConst().point_nonConst(i));
    };
    Parameter pk("P", "");     // the parameter the pset ops work on (kept across ops; pnew starts a fresh one)
    ParametersNS::Parameters sp; Group sg;      // stand-alone parameter classes (ops `sa ...`)
    std::string line; size_t n = 0;
    while (std::getline(in, line)) {
        ++n;
        if (line.empty() || line[0] == '#') continue;
        std::vector<std::string> t = split(line, ' ');
        const std::string& op = t[0];
        std::fprintf(out, "OP %zu %s\n", n, op.c_str()); std::fflush(out);
        if (g_stack_fill >= 0) scribble(g_stack_fill);
        if (g_yield_seed > 0) { unsigned k = rng() % 8; if (k == 0) std::this_thread::yield(); else if (k == 1) std::this_thread::sleep_for(std::chrono::microseconds(rng() % 300)); }
        std::string res;
        bool mut = true;
        if (op == "dumpmode") { dumpMode = t[1] == "full" ? 2 : t[1] == "shape" ? 1 : 0; continue; }
        else if (op == "new") { res = classify([&]() { cur.reset(new Open()); }); }
        else if (op == "load") { cur.reset(); res = classify([&]() { cur.reset(new Open(t[1])); }); }
        else if (op == "specdecode" || op == "lwcheck") { std::fprintf(out, "R skipped\n"); continue; }
        else if (op == "mkframe") { vars[t[1]] = makeFrame(t[2], t[3]); capture(t[1]); continue; }
        else if (op == "cpframe") {   // cpframe <v> <i>: the caller takes a by-value copy of stored frame i (the copy shares its payload handles)
            if (cur) { size_t i = std::strtoull(t[2].c_str(), 0, 10); if (i < cur->data().nbFrames()) { vars[t[1]] = cur->data().frame(i); keptSub[t[1]].clear(); keptPt[t[1]].clear(); } }
            continue;
        }
        else if (op == "refill") {    // refill <v> <pts> <subs>: the caller re-uses its frame object as a template: add(points, analogs) gives it new content
            Points P; Analogs A; buildPA(t[2], t[3], P, A); vars[t[1]].add(P, A); capture(t[1]); continue;
        }
        else if (op == "cmut") {
            Frame& f = vars[t[1]];
            if (t[2] == "pt") {
                // half of the edits go through a REFERENCE TAKEN WHEN THE FRAME WAS BUILT (before any hand-over), half through a fresh accessor call
                size_t i = std::strtoull(t[3].c_str(), 0, 10);
                std::vector<Point*>& kp = keptPt[t[1]];
                Point& p = (i % 2 == 0 && i < kp.size()) ? *kp[i] : f.points_nonConst().point_nonConst(i);
                p.x(unhex8(t[4])); p.y(unhex8(t[5])); p.z(unhex8(t[6])); p.residual(unhex8(t[7]));
            }
            else if (t[2] == "addpt") { f.points_nonConst().point(parsePoint(t[3])); capture(t[1]); }
            else if (t[2] == "ptname") { size_t i = std::strtoull(t[3].c_str(), 0, 10); try { f.points_nonConst().point_nonConst(i).name(unx(t[4])); } catch (std::exception&) {} }
            else if (t[2] == "chn") { size_t k = std::strtoull(t[3].c_str(), 0, 10); try { f.analogs_nonConst().subframe_nonConst(k).channel_nonConst(unx(t[4])).data(unhex8(t[5])); } catch (std::exception&) {} }
            else if (t[2] == "ptn") { try { f.points_nonConst().point_nonConst(unx(t[3])).x(unhex8(t[4])); } catch (std::exception&) {} }
            else if (t[2] == "ch") {
                size_t k = std::strtoull(t[3].c_str(), 0, 10), i = std::strtoull(t[4].c_str(), 0, 10);
                std::vector<SubFrame*>& ks = keptSub[t[1]];
                SubFrame& sf = ((k + i) % 2 == 0 && k < ks.size()) ? *ks[k] : f.analogs_nonConst().subframe_nonConst(k);
                sf.channel_nonConst(i).data(unhex8(t[5]));
            }
            continue;
        }
        else if (op == "sa") {        // the parameter classes used on their own (not reachable through a c3d object)
            auto dumpG = [&](const char* tag, size_t gi, const Group& G) {
                std::fprintf(out, "%sG %zu %s %s %s %zu\n", tag, gi, xhex(G.name()).c_str(), xhex(G.description()).c_str(), G.isLocked() ? "1" : "0", G.nbParameters());
                for (size_t p = 0; p < G.nbParameters(); ++p) std::fprintf(out, "%sP %zu %zu %s\n", tag, gi, p, paramLine(G.parameter(p)).c_str());
            };
            auto dumpSP = [&]() { for (size_t g = 0; g < sp.nbGroups(); ++g) dumpG("X", g, sp.group(g)); };
            std::string r = "ok";
            if (t[1] == "pnew") { sp = ParametersNS::Parameters(); std::fprintf(out, "R ok\n"); dumpSP(); }
            else if (t[1] == "gnew") {       // constructor arguments or the setters, by parity
                if ((t[2].size() / 2 + t[3].size() / 2) % 2 == 1) { sg = Group(); sg.name(unx(t[2])); sg.description(unx(t[3])); }
                else sg = Group(unx(t[2]), unx(t[3]));
                if (t.size() > 4 && t[4] == "1") sg.lock();
                std::fprintf(out, "R ok\n"); dumpG("Y", 0, sg);
            }
            else if (t[1] == "gparam") {     // sa gparam <name> <desc> <lock> <type|N> <dims> <vals>
                Parameter p(unx(t[2]), unx(t[3])); std::string sres = "ok";
                if (t[5] != "N" && !setParam(p, t[5], t[6], t[7], sres)) { std::fprintf(out, "R set %s\n", sres.c_str()); continue; }
                if (t[4] == "1") p.lock();
                r = classify([&]() { sg.parameter(p); });
                std::fprintf(out, "R %s\n", r.c_str()); dumpG("Y", 0, sg);
            }
            else if (t[1] == "gparamnc") {   // look-up through the non-const accessor of the stand-alone group
                size_t i = std::strtoull(t[2].c_str(), 0, 10);
                std::string v; r = classify([&]() { v = paramLine(sg.parameter_nonConst(i)); });
                if (r == "ok") std::fprintf(out, "V %s\n", v.c_str()); else std::fprintf(out, "T %s\n", r.c_str() + 6);
            }
            else if (t[1] == "pgroup") { r = classify([&]() { sp.group(sg); }); std::fprintf(out, "R %s\n", r.c_str()); dumpSP(); }
            else if (t[1] == "pgroupnc") {
                size_t i = std::strtoull(t[2].c_str(), 0, 10);
                std::string v; r = classify([&]() { const Group& G = sp.group_nonConst(i); v = xhex(G.name()) + " " + std::to_string(G.nbParameters()); });
                if (r == "ok") std::fprintf(out, "V %s\n", v.c_str()); else std::fprintf(out, "T %s\n", r.c_str() + 6);
            }
            else if (t[1] == "prename") {    // rename a stored group in place through the non-const accessor
                size_t i = std::strtoull(t[2].c_str(), 0, 10);
                r = classify([&]() { sp.group_nonConst(i).name(unx(t[3])); });
                std::fprintf(out, "R %s\n", r.c_str()); dumpSP();
            }
            else if (t[1] == "pgroupidx") {
                std::string v; r = classify([&]() { v = std::to_string(sp.groupIdx(unx(t[2]))); });
                if (r == "ok") std::fprintf(out, "V %s\n", v.c_str()); else std::fprintf(out, "T %s\n", r.c_str() + 6);
            }
            else if (t[1] == "pgroupn") {
                std::string v; r = classify([&]() { const Group& G = sp.group_nonConst(unx(t[2])); v = xhex(G.name()) + " " + std::to_string(G.nbParameters()); });
                if (r == "ok") std::fprintf(out, "V %s\n", v.c_str()); else std::fprintf(out, "T %s\n", r.c_str() + 6);
            }
            else std::fprintf(out, "R badop\n");
            continue;
        }
        else if (!cur) { std::fprintf(out, "R nostate\n"); continue; }
        else if (op == "save") {
            res = classify([&]() { cur->write(t[1]); });
        }
        else if (op == "savefault") {    // savefault <path> <k>: the OS accepts k bytes, then ENOSPC
            g_budget = std::strtol(t[2].c_str(), 0, 10); g_accepted = 0; g_refused = 0; g_once = (t.size() > 3 && t[3] == "once");
            res = classify([&]() { cur->write(t[1]); });
            long acc = g_accepted, ref = g_refused; g_budget = -1; g_once = 0;
            std::fprintf(out, "R %s\n", res.c_str());
            if (res != "ok") std::fprintf(out, "W fault\n"); else std::fprintf(out, "W %ld %s\n", acc, ref > 0 ? "fault-fired" : "no-fault");
            std::fflush(out); continue;
        }
        else if (op == "savex") {        // savex <path> [fsize-limit]: a destination fault the OS itself produces
            struct rlimit rl, old; getrlimit(RLIMIT_FSIZE, &old);
            std::fflush(out);
            if (t.size() > 2) { rl = old; rl.rlim_cur = (rlim_t)std::strtol(t[2].c_str(), 0, 10); setrlimit(RLIMIT_FSIZE, &rl); }
            res = classify([&]() { cur->write(t[1]); });
            setrlimit(RLIMIT_FSIZE, &old);
            std::fprintf(out, "R %s\n", res.c_str()); std::fflush(out); continue;
        }
        else if (op == "param") {
            // two equivalent ways of preparing the same parameter (constructor arguments / the name and description setters,
            // lock() alone / lock-unlock-lock), chosen deterministically from the arguments
            const bool viaSetters = (t[2].size() / 2 + t[3].size() / 2) % 2 == 1;   // parity of the number of name + description bytes
            Parameter p = viaSetters ? Parameter() : Parameter(unx(t[2]), unx(t[3]));
            if (viaSetters) { p.name(unx(t[2])); p.description(unx(t[3])); }
            std::string sres = "ok";
            if (t[5] != "N" && !setParam(p, t[5], t[6], t[7], sres)) { std::fprintf(out, "R set %s\n", sres.c_str()); continue; }
            if (t[4] == "1") { p.lock(); if (viaSetters) { p.unlock(); p.lock(); } }
            else if (viaSetters) { p.lock(); p.unlock(); }
            res = classify([&]() { cur->parameter(unx(t[1]), p); });
        }
        else if (op == "paramself") {   // paramself <group> <param> <dstgroup>: hand a STORED parameter of the same object back to it
            res = classify([&]() { cur->parameter(unx(t[3]), static_cast<const ezc3d::c3d&>(*cur).parameters().group(unx(t[1])).parameter(unx(t[2]))); });
        }
        else if (op == "lock") { res = classify([&]() { cur->lockGroup(unx(t[1])); }); }
        else if (op == "unlock") { res = classify([&]() { cur->unlockGroup(unx(t[1])); }); }
        else if (op == "frame") {
            const Frame& f = vars[t[1]];
            if (t.size() > 2) { size_t idx = std::strtoull(t[2].c_str(), 0, 10); res = classify([&]() { cur->frame(f, idx); }); }
            else res = classify([&]() { cur->frame(f); });
        }
        else if (op == "frameself") {   // frameself <src> [idx]: hand a STORED frame of the same object back to it
            size_t src = std::strtoull(t[1].c_str(), 0, 10);
            if (t.size() > 2) { size_t idx = std::strtoull(t[2].c_str(), 0, 10); res = classify([&]() { cur->frame(cur->data().frame(src), idx); }); }
            else res = classify([&]() { cur->frame(cur->data().frame(src)); });
        }
        else if (op == "point") { res = classify([&]() { cur->point(unx(t[1])); }); }
        else if (op == "analog") { res = classify([&]() { cur->analog(unx(t[1])); }); }
        else if (op == "pointcol" || op == "analogcol") {
            std::vector<Frame> fs; for (size_t i = 1; i < t.size(); ++i) fs.push_back(vars[t[i]]);
            if (op == "pointcol") res = classify([&]() { cur->point(fs); }); else res = classify([&]() { cur->analog(fs); });
        }
        else if (op == "smut") {
            size_t fi = std::strtoull(t[1].c_str(), 0, 10);
            res = classify([&]() {
                const Frame& f = cur->data().frame(fi);
                if (t[2] == "pt") { size_t i = std::strtoull(t[3].c_str(), 0, 10); Point& p = f.points_nonConst().point_nonConst(i); p.x(unhex8(t[4])); p.y(unhex8(t[5])); p.z(unhex8(t[6])); p.residual(unhex8(t[7])); }
                else if (t[2] == "ptname") { size_t i = std::strtoull(t[3].c_str(), 0, 10); f.points_nonConst().point_nonConst(i).name(unx(t[4])); }      // rename a stored point
                else if (t[2] == "chname") { size_t k = std::strtoull(t[3].c_str(), 0, 10), i = std::strtoull(t[4].c_str(), 0, 10); f.analogs_nonConst().subframe_nonConst(k).channel_nonConst(i).name(unx(t[5])); }
                else if (t[2] == "chn") { size_t k = std::strtoull(t[3].c_str(), 0, 10); f.analogs_nonConst().subframe_nonConst(k).channel_nonConst(unx(t[4])).data(unhex8(t[5])); }   // write through the BY-NAME accessor
                else if (t[2] == "ptn") { Point& p = f.points_nonConst().point_nonConst(unx(t[3])); p.x(unhex8(t[4])); }                                                             // idem for a point
                else if (t[2] == "ptnname") { f.points_nonConst().point_nonConst(unx(t[3])).name(unx(t[4])); }                                                                        // RENAME through the by-name handle
                else if (t[2] == "chnname") { size_t k = std::strtoull(t[3].c_str(), 0, 10); f.analogs_nonConst().subframe_nonConst(k).channel_nonConst(unx(t[4])).name(unx(t[5])); }
                else { size_t k = std::strtoull(t[3].c_str(), 0, 10), i = std::strtoull(t[4].c_str(), 0, 10); f.analogs_nonConst().subframe_nonConst(k).channel_nonConst(i).data(unhex8(t[5])); }
            });
        }
        else if (op == "print") { // exercises print() (output discarded by redirecting cout)
            std::streambuf* old = std::cout.rdbuf(); std::ostringstream sink; std::cout.rdbuf(sink.rdbuf());
            res = classify([&]() { cur->print(); }); std::cout.rdbuf(old); mut = false;
        }
        else if (op == "dump") { dump(*cur); continue; }
        else if (op == "sep") {      // the separation invariant of lean/Ezc3dVerif/Model/Heap.lean, observed on the real heap:
                                     // no Points/Analogs object is reachable from two stored frames or from a stored and a caller's frame
            std::map<const void*, std::string> seenP, seenA; std::string bad;
            size_t nf = cur->data().nbFrames();
            for (size_t i = 0; i < nf && bad.empty(); ++i) {
                const Frame& f = cur->data().frame(i);
                const void* a = &f.points(); const void* b = &f.analogs();
                std::string me = "s" + std::to_string(i);
                if (seenP.count(a)) bad = "points " + seenP[a] + " " + me; else seenP[a] = me;
                if (bad.empty()) { if (seenA.count(b)) bad = "analogs " + seenA[b] + " " + me; else seenA[b] = me; }
            }
            for (auto& kv : vars) {
                if (!bad.empty()) break;
                const void* a = &kv.second.points(); const void* b = &kv.second.analogs();
                if (seenP.count(a)) bad = "points " + seenP[a] + " " + kv.first;
                else if (seenA.count(b)) bad = "analogs " + seenA[b] + " " + kv.first;
            }
            std::fprintf(out, "V sep %s\n", bad.empty() ? "ok" : ("shared " + bad).c_str());
            continue;
        }
        else if (op == "pload") {    // pload <group> <param>: the caller takes a COPY of a stored parameter (to edit it and hand it back)
            std::string r = classify([&]() { pk = static_cast<const ezc3d::c3d&>(*cur).parameters().group(unx(t[1])).parameter(unx(t[2])); });
            std::fprintf(out, "R %s\n", r.c_str()); std::fprintf(out, "PS %s\n", paramLine(pk).c_str()); continue;
        }
        else if (op == "pput") {     // pput <group>: hand the kept parameter to the object
            res = classify([&]() { cur->parameter(unx(t[1]), pk); });
        }
        else if (op == "pnew") { pk = Parameter("P", ""); std::fprintf(out, "R ok\n"); std::fprintf(out, "PS %s\n", paramLine(pk).c_str()); continue; }
        else if (op == "pset") {
            std::string sres; setParam(pk, t[1], t[2], t[3], sres);
            std::fprintf(out, "R %s\n", sres.c_str());
            std::fprintf(out, "PS %s\n", paramLine(pk).c_str());
            continue;
        }
        else if (op == "hex2int" || op == "hex2uint") {
            std::string b = unx(t[1]);
            if (op == "hex2int") std::fprintf(out, "V %d\n", cur->h2i(b.data(), (unsigned)b.size()));
            else std::fprintf(out, "V %u\n", cur->h2u(b.data(), (unsigned)b.size()));
            continue;
        }
        else if (op == "get") {
            const std::string& k = t[1];
            auto N = [&](size_t i) { return (size_t)std::strtoull(t[i].c_str(), 0, 10); };
            const ezc3d::c3d& c = *cur;
            std::function<std::string()> fn;
            if (k == "frame") fn = [&]() { const Frame& f = c.data().frame(N(2)); return std::to_string(f.points().nbPoints()) + " " + std::to_string(f.analogs().nbSubframes()); };
            else if (k == "point") fn = [&]() { return pointStr(c.data().frame(N(2)).points().point(N(3))); };
            else if (k == "pointn") fn = [&]() { return pointStr(c.data().frame(N(2)).points().point(unx(t[3]))); };
            else if (k == "pointidx") fn = [&]() { return std::to_string(c.data().frame(N(2)).points().pointIdx(unx(t[3]))); };
            else if (k == "sub") fn = [&]() { return std::to_string(c.data().frame(N(2)).analogs().subframe(N(3)).nbChannels()); };
            else if (k == "chan") fn = [&]() { const Channel& ch = c.data().frame(N(2)).analogs().subframe(N(3)).channel(N(4)); return xhex(ch.name()) + "=" + hex8(ch.data()); };
            else if (k == "chann") fn = [&]() { const Channel& ch = c.data().frame(N(2)).analogs().subframe(N(3)).channel(unx(t[4])); return xhex(ch.name()) + "=" + hex8(ch.data()); };
            else if (k == "chanidx") fn = [&]() { return std::to_string(c.data().frame(N(2)).analogs().subframe(N(3)).channelIdx(unx(t[4]))); };
            // the non-const accessors (reached through the const-qualified points_nonConst()/analogs_nonConst()): same contract
            else if (k == "ncpoint") fn = [&]() { return pointStr(c.data().frame(N(2)).points_nonConst().point_nonConst(N(3))); };
            else if (k == "ncpointn") fn = [&]() { return pointStr(c.data().frame(N(2)).points_nonConst().point_nonConst(unx(t[3]))); };
            else if (k == "ncsub") fn = [&]() { return std::to_string(c.data().frame(N(2)).analogs_nonConst().subframe_nonConst(N(3)).nbChannels()); };
            else if (k == "ncchan") fn = [&]() { const Channel& ch = c.data().frame(N(2)).analogs_nonConst().subframe_nonConst(N(3)).channel_nonConst(N(4)); return xhex(ch.name()) + "=" + hex8(ch.data()); };
            else if (k == "ncchann") fn = [&]() { const Channel& ch = c.data().frame(N(2)).analogs_nonConst().subframe_nonConst(N(3)).channel_nonConst(unx(t[4])); return xhex(ch.name()) + "=" + hex8(ch.data()); };
            else if (k == "group") fn = [&]() { const Group& g = c.parameters().group(N(2)); return xhex(g.name()) + " " + std::to_string(g.nbParameters()); };
            else if (k == "groupn") fn = [&]() { const Group& g = c.parameters().group(unx(t[2])); return xhex(g.name()) + " " + std::to_string(g.nbParameters()); };
            else if (k == "groupidx") fn = [&]() { return std::to_string(c.parameters().groupIdx(unx(t[2]))); };
            else if (k == "param") fn = [&]() { return paramLine(c.parameters().group(N(2)).parameter(N(3))); };
            else if (k == "paramn") fn = [&]() { return paramLine(c.parameters().group(unx(t[2])).parameter(unx(t[3]))); };
            else if (k == "paramidx") fn = [&]() { return std::to_string(c.parameters().group(N(2)).parameterIdx(unx(t[3]))); };
            else if (k == "evtime") fn = [&]() { return hex8(c.header().eventsTime(N(2))); };
            else if (k == "evdisplay") fn = [&]() { return std::to_string(c.header().eventsDisplay(N(2))); };
            else if (k == "evlabel") fn = [&]() { return xhex(c.header().eventsLabel(N(2))); };
            else if (k == "vals") fn = [&]() {
                const Parameter& p = c.parameters().group(N(2)).parameter(N(3));
                if (t[4] == "B") return intList(p.valuesAsByte()); if (t[4] == "I") return intList(p.valuesAsInt());
                if (t[4] == "F") return f32List(p.valuesAsFloat()); return strList(p.valuesAsString()); };
            else fn = []() { return std::string("?"); };
            getLine<int>(fn);
            continue;
        }
        else { std::fprintf(out, "R badop\n"); continue; }
        std::fprintf(out, "R %s\n", res.c_str());
        if (cur && mut) dump(*cur);
        std::fflush(out);
    }
    cur.reset(); // destruction is part of the history
    std::fprintf(out, "END\n");
    if (out != stdout) std::fclose(out);
    return 0;
}

int main(int argc, char** argv) {
    if (argc < 2) { std::fprintf(stderr, "usage: harness <script> [out] | harness --threads <yieldseed> <script> <out> [<script> <out>]...\n"); return 2; }
    signal(SIGXFSZ, SIG_IGN);
    if (std::getenv("HARNESS_STACK_FILL")) g_stack_fill = std::atoi(std::getenv("HARNESS_STACK_FILL"));
    if (std::string(argv[1]) == "--threads") {
        g_yield_seed = std::atoi(argv[2]);
        std::vector<std::thread> th;
        std::vector<int> rc((argc - 3) / 2, 0);
        for (int i = 0; 3 + 2 * i + 1 < argc; ++i)
            th.emplace_back([&, i]() { rc[i] = runScript(argv[3 + 2 * i], argv[4 + 2 * i], i); });
        for (size_t i = 0; i < th.size(); ++i) th[i].join();
        return 0;
    }
    return runScript(argv[1], argc > 2 ? argv[2] : nullptr, -1);
}
