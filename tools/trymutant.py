#!/usr/bin/env python3
"""usage: trymutant.py <seeded-dir> <ID> [<ID>...]
Confirms a seeded change (patch.diff + demo.cpp) in a scratch worktree, then applies it to /repo, runs the named
checks, and undoes it. Prints a JSON summary."""
import sys, os, subprocess, json, shutil
sd = os.path.abspath(sys.argv[1]); ids = sys.argv[2:]
WT = "/tmp/mut/_verify"
def sh(cmd, **kw): return subprocess.run(cmd, shell=True, stdout=subprocess.PIPE, stderr=subprocess.STDOUT, text=True, errors="replace", **kw)
DEMOCWD = "/tmp/mut/_democwd"; os.makedirs(DEMOCWD, exist_ok=True)     # demos write scratch files into their working directory
res = {"seeded": sd, "demo_flags": os.environ.get("DEMO_FLAGS", "")}
if not os.path.isdir(WT):
    r = sh("/verif/tools/mkworktree.sh %s" % WT); res["mkworktree"] = r.stdout[-200:]
sh("git -C %s checkout -- src include" % WT)
head = sh("git -C /repo rev-parse HEAD").stdout.strip()
sh("git -C %s checkout -q --detach %s" % (WT, head))
patch = os.path.join(sd, "patch.diff"); demo = os.path.join(sd, "demo.cpp")
# unpatched demo
XF = os.environ.get("DEMO_FLAGS", "")
r = sh("g++ -std=c++11 -w %s -I%s/include %s %s/src/*.cpp -o /tmp/mut/_demo0 && /tmp/mut/_demo0" % (XF, WT, demo, WT), timeout=900, cwd=DEMOCWD)
res["demo_without_change_rc"] = r.returncode
r = sh("git -C %s apply %s" % (WT, patch)); res["apply"] = r.returncode
r = sh("cmake --build %s/_build -j8 > /dev/null 2>&1; cd %s/_build && ctest 2>&1 | tail -3" % (WT, WT), timeout=1200)
res["suite_with_change"] = "100% tests passed" in r.stdout
r = sh("g++ -std=c++11 -w %s -I%s/include %s %s/src/*.cpp -o /tmp/mut/_demo1 && /tmp/mut/_demo1" % (XF, WT, demo, WT), timeout=900, cwd=DEMOCWD)
res["demo_with_change_rc"] = r.returncode; res["demo_output"] = r.stdout[-300:]
sh("git -C %s checkout -- src include" % WT)
res["confirmed"] = res["demo_without_change_rc"] == 0 and res["demo_with_change_rc"] != 0 and res["suite_with_change"] and res["apply"] == 0
# run the checks against /repo with the change applied
assert sh("git -C /repo status --porcelain -- src include").stdout.strip() == "", "/repo has local changes"
r = sh("git -C /repo apply %s" % patch)
res["checks"] = {}
try:
    for pid in ids:
        r = sh("cd /verif && ./check %s" % pid, timeout=3600)
        lines = [l for l in r.stdout.split("\n") if l.startswith("VIOLATION") or l.startswith("PASS") or l.startswith("FAIL")]
        rep = []
        for l in lines:
            if l.startswith("VIOLATION") and "replay=" in l:
                p = l.split("replay=")[1].split(" ")[0]
                try: rep.append(" | ".join(x[2:] for x in open(p).read().split("\n")[:3] if x.startswith("# "))[:400])
                except Exception: pass
        res["checks"][pid] = {"rc": r.returncode, "lines": lines[:6], "replays": rep[:3]}
finally:
    sh("git -C /repo checkout -- src include")
print(json.dumps(res, indent=1))
