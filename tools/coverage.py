#!/usr/bin/env python3
"""usage: coverage.py [ID ...]   -- how much of /repo/src do the correspondence lanes execute?
Builds the harness with --coverage (-O0), runs the quick tier of the named checks (default: all) with that build in
place of the instrumented one (verdicts of these runs are ignored, evidence files are restored afterwards), then runs gcov
and writes /verif/coverage/summary.json + /verif/coverage/uncovered.txt (source lines no lane executed).
A development aid that measures the tie between model and code: a line no lane executes is a line whose behaviour the
correspondence check cannot compare with the model."""
import sys, os, subprocess, json, glob, shutil, re
V = os.path.dirname(os.path.dirname(os.path.abspath(__file__)))
sys.path.insert(0, V)
from vlib import build
ids = sys.argv[1:] or ["C%02d" % i for i in range(1, 20)]
exe, err = build.build_harness("cov")
if not exe: print(err); sys.exit(1)
d = os.path.dirname(exe)
for f in glob.glob(os.path.join(d, "*.gcda")): os.remove(f)
ev = os.path.join(V, "evidence"); bak = os.path.join(V, ".cache", "evidence.bak")
shutil.rmtree(bak, ignore_errors=True); shutil.copytree(ev, bak)
env = dict(os.environ, VERIF_COVERAGE="1")
try:
    for pid in ids:
        r = subprocess.run([os.path.join(V, "check"), pid, "--tier", "quick"], cwd=V, env=env, stdout=subprocess.PIPE, stderr=subprocess.STDOUT, text=True)
        last = [l for l in r.stdout.split("\n") if l.startswith(("PASS", "FAIL"))]
        print(pid, last[-1][:150] if last else r.stdout[-200:])
finally:
    shutil.rmtree(ev); shutil.copytree(bak, ev); shutil.rmtree(bak)
out = os.path.join(V, "coverage"); os.makedirs(out, exist_ok=True)
summary = {}; unc = []
for src in sorted(glob.glob(os.path.join(build.REPO, "src", "*.cpp"))):
    base = os.path.basename(src)
    o = os.path.join(d, base + ".o")
    r = subprocess.run(["gcov", "-b", "-c", "-o", o, src], cwd=d, stdout=subprocess.PIPE, stderr=subprocess.STDOUT, text=True)
    g = os.path.join(d, base + ".gcov")
    if not os.path.exists(g): summary[base] = {"error": r.stdout[-300:]}; continue
    tot = hit = btot = bhit = 0; miss = []
    for line in open(g, errors="replace"):
        m = re.match(r"\s*([^:]+):\s*(\d+):(.*)", line)
        if m:
            c, n, text = m.group(1).strip(), int(m.group(2)), m.group(3)
            if n == 0 or c == "-": continue
            tot += 1
            if c.startswith("#####") or c.startswith("====="): miss.append((n, text.rstrip()))
            else: hit += 1
        elif line.startswith("branch"):
            btot += 1
            if "taken 0" not in line and "never executed" not in line: bhit += 1
    summary[base] = {"lines": tot, "lines_executed": hit, "branches": btot, "branches_taken": bhit}
    for n, text in miss: unc.append("%s:%d: %s" % (base, n, text))
tl = sum(v.get("lines", 0) for v in summary.values()); th = sum(v.get("lines_executed", 0) for v in summary.values())
tb = sum(v.get("branches", 0) for v in summary.values()); tbh = sum(v.get("branches_taken", 0) for v in summary.values())
summary["_total"] = {"lines": tl, "lines_executed": th, "branches": tb, "branches_taken": tbh, "checks_run": ids}
json.dump(summary, open(os.path.join(out, "summary.json"), "w"), indent=1)
open(os.path.join(out, "uncovered.txt"), "w").write("\n".join(unc) + "\n")
print("lines %d/%d (%.1f%%)  branches %d/%d (%.1f%%)  uncovered lines: %d -> coverage/uncovered.txt" % (th, tl, 100.0 * th / max(tl, 1), tbh, tb, 100.0 * tbh / max(tb, 1), len(unc)))
