#!/usr/bin/env python3
"""Writes /verif/MANIFEST.json from the table below (kept next to the checks it describes)."""
import json, os
V = os.path.dirname(os.path.dirname(os.path.abspath(__file__)))
NOTE = ("Trusted: Lean 4.33 kernel + axioms propext/Quot.sound/Classical.choice (audited per theorem on every run; no sorry/native_decide/bv_decide); "
        "the hand-written Lean model of /repo/src and the correspondence check that ties it to the current tree (harness built from /repo's working tree with "
        "ASan/UBSan/_GLIBCXX_ASSERTIONS, Lean driver, canonical dumps); FloatOps instantiated by Lean Float32; libstdc++ container/stream semantics as modelled.")
P = {
 "C01": ("Lean theorem C01.load_write: for EVERY object of a decidable domain (any groups, parameters of every type and shape within the format's capacity, frames of the announced shape, header agreeing with the parameters) load(write s) = reloaded s, with reloaded_* theorems giving the clauses (header counts, upper-cased names, type/dims/values/description/lock, samples bit for bit) and a kernel-checked state inside the domain; tied to the library by per-op correspondence (saved bytes == model bytes, reloaded dump == model dump); the driver evaluates the domain predicate on every saving state (evidence: share of saves inside the theorem's domain); outside the domain: oracle content(saving object) == content(object loaded from the library's file)", "§6 C01"),
 "C03": ("Lean theorems on the model's writer: the parameter section byte for byte (prologue, exact block count, plain records with POINT:DATA_START = block after the section, zero padding for every residue), record offsets, header length and data-start word, data length; the model's own loader walks these bytes to the terminator (C02.records_decoded); bytes of every library save == model bytes; oracle: the independent Lean Spec decoder follows the file's own pointers and is compared clause by clause with the saving object, incl. files loaded from other layouts and saved again; not proved: Spec.decode(write s) = content s as a theorem", "§6 C03"),
 "C02": ("partial: Lean theorems that the loader's readers decode the record formats for every content they can hold (header record, parameter record of each type/shape, group record, record chain with gaps between ids, data section) for the block-2 / no-leading-zeros / group-then-parameters layout; the other declared vendor layouts (leading zeros, zeroed prologue, other block, any record order) rest on correspondence over files from an independent spec-level encoder with the independent Lean Spec decoder as oracle", "§6 C02"),
 "C04": ("Lean theorems: the object load returns for the bytes of a write is written as exactly those bytes again (C04.resave_byte_identical) and loads to itself (generations_stable) - i.e. generations 2, 3, ... are fixed; the first generation (arbitrary vendor layout) rests on correspondence of load -> save -> load -> save -> load -> save on generated and vendor files; oracle: content of generation 1 == generation 2, bytes of generation 3 == generation 4", "§6 C04"),
 "C12": ("Lean theorems: the byte codec is two's complement / unsigned little endian for all 2^8 and 2^16 inputs, writers are inverse to readers; exhaustive correspondence over all one- and two-byte inputs and files carrying every pattern", "§6 C12"),
 "C13": ("partial: Lean theorems that the model never evaluates an unchecked container access out of range on reachable states; every lane of C01-C12 re-run under ASan/UBSan/_GLIBCXX_ASSERTIONS with destruction; cannot exhibit: errors the sanitizers do not see", "§6 C13"),
 "C14": ("partial: the model's writer is a function of the object (purity/repeatability by construction) and bytes(library) == bytes(model) on every save; two-fill-byte differential and valgrind memcheck for definedness; cannot exhibit: indeterminate bytes equal in both runs", "§6 C14"),
 "C15": ("partial: Lean model of the save procedure over a sink that accepts k bytes (theorem: normal return iff every byte accepted) tied to the library by write(2)/writev(2) interposition at every k; real destination faults; cannot exhibit: write-back errors after close()", "§6 C15"),
 "C16": ("partial: the model's loader is total (termination proved, no fuel exhaustion) and never `ub` for any byte string; outcome classes standard; tied to the library by structure-aware corruption under ASan with time limits; the cost bound in the announced size is a known finding", "§6 C16"),
 "C17": ("capacity predicate limit by limit; at/below: round trip (C01 machinery); beyond: save throws or content survives - every limit at L-1, L, L+1, far; beyond-limit silent truncation recorded as known findings per limit", "§6 C17"),
 "C18": ("partial: Lean theorem that any interleaving of two op sequences on disjoint objects gives each its sequential results (hypothesis: no shared mutable state, discharged by a symbol scan of the objects built from the current tree); TSan runs with perturbed schedules; cannot exhibit: unsampled schedules", "§6 C18"),
 "C19": ("partial: the model is a function, so builds that each correspond to it agree; six builds {-O0,-O2,-O3}x{static,shared} compared with each other and the model; arithmetic-UB sites listed by a UBSan build must be exactly the modelled ones", "§6 C19"),
 "C05": ("agreement of header / POINT-ANALOG parameters / stored frames evaluated after every successful call of generated histories on the library and the model", "§6 C05"),
 "C06": ("Lean theorems: append / replace / extend / others-unchanged / column adds for all sizes and indices on the model; per-op correspondence with the library; oracle on frame snapshots before/after each call", "§6 C06"),
 "C07": ("guard ladder of the frame/column mutators in the model + correspondence of outcome classes; three-valued oracle (must-refuse with class / must-accept / free) on the library", "§6 C07"),
 "C08": ("Lean heap-level model (handles for Points/Analogs payloads), separation invariant for every history and refinement to the value model; the `sep` op observes the invariant on the real heap after every call that hands data to the object, incl. objects loaded from point-only / channel-only files; caller-side mutations and re-submission of the same frame object", "§6 C08"),
 "C09": ("Lean theorems on replace-or-append and Parameter::set acceptance + correspondence on edit sequences and on a (type, dims, count) grid", "§6 C09"),
 "C10": ("model: Outcome.throw carries the state left behind; per-op correspondence of the full object dump after every throwing call; oracle: dump after throw == dump before", "§6 C10"),
 "C11": ("Lean theorems for positional/by-name/typed look-ups over all sizes, indices and names + complete grid run on library, model and an independent oracle", "§6 C11"),
}
checks = []
for pid, (text, ref) in sorted(P.items()):
    checks.append({
        "property_id": pid,
        "quick_cmd": "./check %s --tier quick" % pid,
        "thorough_cmd": "./check %s --tier thorough" % pid,
        "evidence_file": "/verif/evidence/%s.json" % pid,
        "replay_cmd_template": "./check %s --replay {path}" % pid,
        "engine": "lean-model+correspondence",
        "level_claimed": {"category": "proof", "text": text, "design_ref": "DESIGN.md " + ref},
        "level_note": NOTE,
        "technique": "Lean 4 theorems about a hand-written model + differential correspondence check against the library",
    })
allp = ["C%02d" % i for i in range(1, 20)]
na = [{"property_id": p, "reason": "check not built yet in this round (planned, see DESIGN.md §6); not a limit of the technique"} for p in allp if p not in P]
m = {
 "version": 1,
 "setup_cmd": "cd /verif && python3 tools/setup.py",
 "hooks": {"guard": "MELUND_EZC3D_VERIF", "enable": "checks compile /repo/src/*.cpp themselves with -DMELUND_EZC3D_VERIF (no source hook exists: protected helpers are reached by subclassing ezc3d::c3d in /verif/harness)",
           "baseline_off_cmd": "/verif/tools/run_baseline.sh", "source_commits": [], "add_only": True},
 "engines": [{"name": "lean-model+correspondence", "path": "/verif/lean", "serves_properties": sorted(P), "kind_free_text": "Lean 4 model + theorems (lake), C++ harness built from /repo, Python orchestrator /verif/check"}],
 "checks": checks,
 "not_applicable": na,
 "notes": "Known findings: /verif/known_findings.json. Replays: /verif/replays. Design: /verif/DESIGN.md.",
}
json.dump(m, open(os.path.join(V, "MANIFEST.json"), "w"), indent=1)
print("wrote MANIFEST.json with", len(checks), "checks")
