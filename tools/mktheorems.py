#!/usr/bin/env python3
"""Collects the theorem names of lean/Ezc3dVerif/Properties/C*.lean into lean/theorems.json and
regenerates lean/Ezc3dVerif.lean (the library root importing every module)."""
import re, os, json, glob
V = os.path.dirname(os.path.dirname(os.path.abspath(__file__)))
out = {}
mods_of = {}
for f in sorted(glob.glob(os.path.join(V, "lean/Ezc3dVerif/Properties/C*.lean"))):
    pid = os.path.basename(f)[:3]          # C03.lean, C03b.lean -> C03
    src = open(f).read()
    ns = re.search(r"^namespace (\S+)", src, re.M).group(1)
    out.setdefault(pid, []).extend("%s.%s" % (ns, m) for m in re.findall(r"^theorem ([\w.?!']+)", src, re.M))
    mods_of.setdefault(pid, []).append("Ezc3dVerif.Properties." + os.path.basename(f)[:-5])
out["_modules"] = mods_of
json.dump(out, open(os.path.join(V, "lean/theorems.json"), "w"), indent=1)
mods = []
for sub in ("Basic", "Model", "Spec", "Proofs", "Properties"):
    for f in sorted(glob.glob(os.path.join(V, "lean/Ezc3dVerif", sub, "*.lean"))):
        mods.append("import Ezc3dVerif.%s.%s" % (sub, os.path.basename(f)[:-5]))
open(os.path.join(V, "lean/Ezc3dVerif.lean"), "w").write("\n".join(mods) + "\n")
print({k: len(v) for k, v in out.items() if k != '_modules'})
