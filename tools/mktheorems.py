#!/usr/bin/env python3
"""Collects the theorem names of lean/Ezc3dVerif/Properties/C*.lean into lean/theorems.json and
regenerates lean/Ezc3dVerif.lean (the library root importing every module)."""
import re, os, json, glob
V = os.path.dirname(os.path.dirname(os.path.abspath(__file__)))
out = {}
mods_of = {}
for f in sorted(glob.glob(os.path.join(V, "lean/Ezc3dVerif/Properties/C*.lean"))):
    pid = os.path.basename(f)[:3]          # C03.lean, C03b.lean -> C03
    src = open(f).read()
    # theorem names qualified by the namespace that is open where they are stated (a file may open several in turn)
    stack = []
    for line in src.split("\n"):
        m = re.match(r"^namespace (\S+)", line)
        if m: stack.append(m.group(1)); continue
        m = re.match(r"^end (\S+)", line)
        if m and stack and stack[-1] == m.group(1): stack.pop(); continue
        m = re.match(r"^theorem ([\w.?!']+)", line)
        if m: out.setdefault(pid, []).append(".".join(stack + [m.group(1)]))
    mods_of.setdefault(pid, []).append("Ezc3dVerif.Properties." + os.path.basename(f)[:-5])
out["_modules"] = mods_of
json.dump(out, open(os.path.join(V, "lean/theorems.json"), "w"), indent=1)
mods = []
for sub in ("Basic", "Model", "Spec", "Proofs", "Properties"):
    for f in sorted(glob.glob(os.path.join(V, "lean/Ezc3dVerif", sub, "*.lean"))):
        mods.append("import Ezc3dVerif.%s.%s" % (sub, os.path.basename(f)[:-5]))
open(os.path.join(V, "lean/Ezc3dVerif.lean"), "w").write("\n".join(mods) + "\n")
print({k: len(v) for k, v in out.items() if k != '_modules'})
