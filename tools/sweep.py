#!/usr/bin/env python3
"""Development aid: run N generated API histories through harness and model, report disagreements."""
import sys, os
sys.path.insert(0, os.path.dirname(os.path.dirname(os.path.abspath(__file__))))
from vlib import gen, run, build
from concurrent.futures import ThreadPoolExecutor
a, b = int(sys.argv[1]), int(sys.argv[2])
exe, err = build.build_harness("asan")
if not exe: print(err); sys.exit(1)
def one(seed):
    L, st = gen.gen_api_history(seed, with_io='@W@/g', caller_mut=0.3 if seed % 3 == 0 else 0.0)
    r = run.run_pair(L, exe)
    bad = []
    if r.crash: bad.append("CRASH " + r.crash[:600])
    if r.disagree is not None: bad.append("DISAGREE " + run.describe_disagreement(r))
    for p, same in r.files:
        if not same: bad.append("FILE " + p)
    reload_fail = [rec["n"] for x, rec in zip(r.hrecs, r.hrecs[1:]) if x["op"] == "save" and x["res"] == "R ok" and rec["op"] == "load" and rec["res"] != "R ok"]
    if reload_fail: bad.append("RELOADFAIL at ops %s" % reload_fail)
    return seed, bad
with ThreadPoolExecutor(16) as ex:
    for seed, bad in ex.map(one, range(a, b)):
        if bad: print("seed", seed, "\n  ".join(bad))
print("done")
