#!/usr/bin/env python3
"""Debug aid: walk the parameter records of a C3D file and print them."""
import sys, struct
b = open(sys.argv[1], 'rb').read()
pa = b[0]
base = 512 * (pa - 1)
print("len", len(b), "paramblock", pa, "prologue", list(b[base:base + 4]), "hdr ds", struct.unpack_from("<H", b, 16)[0])
pos = base + 4
while True:
    start = pos
    n = struct.unpack_from("b", b, pos)[0]
    if n == 0: print("terminator at", pos); break
    gid = struct.unpack_from("b", b, pos + 1)[0]
    name = b[pos + 2:pos + 2 + abs(n)]
    off = struct.unpack_from("<H", b, pos + 2 + abs(n))[0]
    nxt = pos + 2 + abs(n) + off
    if gid < 0:
        print("G", gid, name, "off", off, "next", nxt)
    else:
        q = pos + 2 + abs(n) + 2
        ty = struct.unpack_from("b", b, q)[0]; nd = b[q + 1]; dims = list(b[q + 2:q + 2 + nd])
        print("P", gid, name, "type", ty, "dims", dims, "off", off, "at", start, "next", nxt, "remaining_after_dims", len(b) - (q + 2 + nd))
    if off == 0: break
    pos = nxt
