#!/bin/bash
# usage: seedsweep.sh <tier> <seed>...   -- every check at the given seeds on the current tree; prints one line per (check, seed)
tier=$1; shift
python3 tools/setup.py > /dev/null 2>&1
for seed in "$@"; do
  for i in 01 02 03 04 05 06 07 08 09 10 11 12 13 14 15 16 17 18 19; do
    out=$(./check C$i --tier $tier --seed $seed 2>&1); rc=$?
    echo "seed=$seed C$i rc=$rc $(echo "$out" | grep -E '^(PASS|FAIL)' | tail -1 | cut -c1-160)"
    echo "$out" | grep '^VIOLATION' | head -3
  done
done
