#!/bin/bash
# development aid for `vp run --with-repo`: quick tier at many seeds on a snapshot
cd "$(dirname "$0")/.."
[ -n "$VP_RUN_REPO" ] && export VERIF_REPO=$VP_RUN_REPO
exec tools/seedsweep.sh quick "$@"
