#!/bin/bash
# development aid: every thorough tier once, on a snapshot of /repo when VP_RUN_REPO is set
cd "$(dirname "$0")/.."
[ -n "$VP_RUN_REPO" ] && export VERIF_REPO=$VP_RUN_REPO
python3 tools/setup.py || exit 1
for c in C01 C02 C03 C04 C05 C06 C07 C08 C09 C10 C11 C12 C13 C14 C15 C16 C17 C18 C19; do
  s=$(date +%s); ./check $c --tier thorough > thorough_$c.log 2>&1; rc=$?
  echo "$c rc=$rc $(( $(date +%s)-s ))s $(grep -E '^(PASS|FAIL)' thorough_$c.log | tail -1 | cut -c1-200)"
  grep -E "^VIOLATION" thorough_$c.log | head -5
done
