#!/usr/bin/env python3
"""usage: keepseed.py <seeded-dir> <name> <trymutant-json>  -- stores a confirmed seeded change under /verif/seeded/<name>/"""
import sys, os, json, shutil
sd, name, res = sys.argv[1], sys.argv[2], json.load(open(sys.argv[3]))
assert res["confirmed"], "not confirmed"
d = os.path.join("/verif/seeded", name); os.makedirs(d, exist_ok=True)
shutil.copy(os.path.join(sd, "patch.diff"), d); shutil.copy(os.path.join(sd, "demo.cpp"), d)
meta = json.load(open(os.path.join(sd, "meta.json")))
meta["confirmed_by_me"] = {"scratch_worktree": "/tmp/mut/_verify (git worktree of /repo HEAD)", "suite_passes_with_change": res["suite_with_change"],
    "demo_rc_without_change": res["demo_without_change_rc"], "demo_rc_with_change": res["demo_with_change_rc"], "demo_output": res["demo_output"][:300]}
meta["checks_run_against_it"] = {k: {"exit": v["rc"], "verdict": v["lines"][-1][:200] if v["lines"] else "", "first_replays": v["replays"][:2]} for k, v in res["checks"].items()}
json.dump(meta, open(os.path.join(d, "meta.json"), "w"), indent=1)
print("kept", d)
