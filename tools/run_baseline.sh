#!/bin/bash
# Runs the repository's own test-suite (19 gtest cases behind one ctest entry) with the verification guard OFF.
set -e
cmake --build /repo/_build -j16 > /tmp/.ezc3d_baseline_build.log 2>&1 || { tail -30 /tmp/.ezc3d_baseline_build.log; exit 2; }
cd /repo/_build
ctest --test-dir /repo/_build -j8 --timeout 900 --output-on-failure "$@"
