#!/bin/bash
# usage: mkworktree.sh <dir>  -- scratch git worktree of /repo (HEAD) with its own build of the test-suite
set -e
D=$1
git -C /repo worktree add -q --detach "$D" HEAD
rmdir "$D/external/gtest" 2>/dev/null || true
cp -r /repo/external/gtest "$D/external/gtest"
cmake -G Ninja -S "$D" -B "$D/_build" -DBUILD_TESTS=ON -DCMAKE_BUILD_TYPE=RelWithDebInfo > "$D/_configure.log" 2>&1
cmake --build "$D/_build" -j8 > "$D/_build.log" 2>&1
(cd "$D/_build" && ctest 2>&1 | tail -3)
