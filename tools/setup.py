#!/usr/bin/env python3
"""setup_cmd: build the Lean library + driver and the default harness from files on disk only."""
import sys, os
sys.path.insert(0, os.path.dirname(os.path.dirname(os.path.abspath(__file__))))
from vlib import build
ok, log = build.build_lean()
print("lean build:", "ok" if ok else "FAILED")
if not ok: print(log[-3000:]); sys.exit(1)
exe, err = build.build_harness("asan")
print("harness:", exe or err)
sys.exit(0 if exe else 1)
