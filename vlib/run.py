"""Runs an op script through the C++ harness (real library) and the Lean driver (model),
parses both output streams and reports the first disagreement."""
import os, subprocess, shutil, uuid, resource, time
from . import build

WORKROOT = os.path.join(build.CACHE, "work")

def workdir():
    d = os.path.join(WORKROOT, uuid.uuid4().hex[:12])
    os.makedirs(d, exist_ok=True)
    return d

def cleanup(d):
    shutil.rmtree(d, ignore_errors=True)

ASAN_ENV = "detect_leaks=0:exitcode=66:allocator_may_return_null=0:alloc_dealloc_mismatch=1:malloc_fill_byte=%d:max_malloc_fill_size=1048576:detect_stack_use_after_return=0"
UBSAN_ENV = "print_stacktrace=1:halt_on_error=1:exitcode=67"

def _limits(mem_gb):
    def f():
        if mem_gb:
            try: resource.setrlimit(resource.RLIMIT_AS, (mem_gb << 30, mem_gb << 30))
            except Exception: pass
    return f

def run_harness(exe, script_path, out_path, fill=0xA5, timeout=120, mem_gb=None, env_extra=None):
    env = dict(os.environ)
    env["ASAN_OPTIONS"] = ASAN_ENV % fill
    env["UBSAN_OPTIONS"] = UBSAN_ENV
    env["HARNESS_STACK_FILL"] = str(fill)
    if env_extra: env.update(env_extra)
    t = time.time()
    try:
        r = subprocess.run([exe, script_path, out_path], stdout=subprocess.PIPE, stderr=subprocess.PIPE,
                           env=env, timeout=timeout, preexec_fn=_limits(mem_gb) if mem_gb else None)
        rc, err = r.returncode, r.stderr.decode("latin1")
    except subprocess.TimeoutExpired as e:
        rc, err = -999, "TIMEOUT after %ds" % timeout
    return rc, err, time.time() - t

def run_driver(script_path, out_path, timeout=300):
    try:
        r = subprocess.run([build.driver_path(), script_path, out_path], stdout=subprocess.PIPE, stderr=subprocess.PIPE, timeout=timeout)
        return r.returncode, r.stderr.decode("latin1")
    except subprocess.TimeoutExpired:
        return -999, "TIMEOUT"

def parse_output(path):
    """-> list of records {n, op, res, lines}"""
    recs = []
    cur = None
    ended = False
    try:
        f = open(path, "r", errors="replace")
    except FileNotFoundError:
        return recs, False
    for line in f:
        line = line.rstrip("\n")
        if line.startswith("OP "):
            parts = line.split(" ")
            cur = {"n": int(parts[1]), "op": parts[2], "res": None, "lines": []}
            recs.append(cur)
        elif line == "END":
            ended = True
        elif cur is not None:
            if cur["res"] is None and (line.startswith("R ") or line.startswith("V ") or line.startswith("T ") or line.startswith("U ")):
                cur["res"] = line
            else:
                cur["lines"].append(line)
    f.close()
    return recs, ended

def parse_dump(lines):
    """canonical dump lines -> dict(header, ph, groups, frames); None when there is no dump"""
    d = {"H": None, "HT": None, "HD": None, "HL": None, "PH": None, "groups": [], "NF": None, "frames": []}
    curf = None
    for l in lines:
        t = l.split(" ")
        k = t[0]
        if k == "H": d["H"] = t[1:]
        elif k in ("HT", "HD", "HL"): d[k] = [] if t[1] == "-" else t[1].split(",")
        elif k == "PH": d["PH"] = t[1:]
        elif k == "G": d["groups"].append({"name": t[2], "desc": t[3], "locked": t[4], "params": []})
        elif k == "P":
            d["groups"][int(t[1])]["params"].append({"name": t[3], "desc": t[4], "locked": t[5], "type": t[6],
                "dims": [] if t[7] == "-" else [int(x) for x in t[7].split(",")],
                "vals": [] if t[8] == "-" else t[8].split(",")})
        elif k == "NF": d["NF"] = int(t[1])
        elif k == "FR":
            curf = {"pts": [], "subs": []}; d["frames"].append(curf)
        elif k == "PT": curf["pts"].append(tuple(t[1:6]))
        elif k == "SF":
            curf["subs"].append([] if t[3] == "-" else [tuple(c.split("=")) for c in t[3].split(",")])
    return d if d["H"] is not None else None

HFIELDS = ["zeros", "paramAddr", "checksum", "nbPoints", "nbAnalogsMeas", "firstFrame", "lastFrame", "maxGap", "scale",
           "dataStart", "nbAnalogByFrame", "rate", "e1", "e2", "e3", "e4", "klp", "fbkl", "fcp", "nbEvents"]
def hdr(d): return dict(zip(HFIELDS, d["H"]))

class Result:
    pass

def run_pair(lines, exe, wd=None, name="s", fill=0xA5, timeout=120, mem_gb=None, keep=False):
    """Run script `lines` on both sides. Returns Result with .hrecs .mrecs .disagree (index or None)
    .crash (str or None) .files [(path, same?)]"""
    own = wd is None
    if own: wd = workdir()
    sp = os.path.join(wd, name + ".txt")
    text = "\n".join(lines).replace("@W@", wd) + "\n"
    open(sp, "w").write(text)
    ho, mo = os.path.join(wd, name + ".h"), os.path.join(wd, name + ".m")
    res = Result()
    res.script = text
    res.wd = wd
    rc, err, dt = run_harness(exe, sp, ho, fill=fill, timeout=timeout, mem_gb=mem_gb)
    res.hrc, res.herr, res.htime = rc, err, dt
    mrc, merr = run_driver(sp, mo)
    res.mrc, res.merr = mrc, merr
    res.hrecs, hend = parse_output(ho)
    res.mrecs, mend = parse_output(mo)
    res.crash = None
    if rc != 0 or not hend:
        res.crash = "harness rc=%d at op %s: %s" % (rc, res.hrecs[-1]["n"] if res.hrecs else "?", (err or "")[-1500:])
    res.disagree = None
    for i, (a, b) in enumerate(zip(res.hrecs, res.mrecs)):
        if a["res"] != b["res"] or a["lines"] != b["lines"]:
            res.disagree = i; break
    if res.disagree is None and len(res.hrecs) != len(res.mrecs) and res.crash is None:
        res.disagree = min(len(res.hrecs), len(res.mrecs))
    # saved files
    res.files = []
    for r_ in res.mrecs:
        pass
    for ln in text.split("\n"):
        if ln.startswith("save "):
            p = ln.split(" ")[1]
            if os.path.exists(p) and os.path.exists(p + ".model"):
                same = open(p, "rb").read() == open(p + ".model", "rb").read()
                res.files.append((p, same))
            elif os.path.exists(p) != os.path.exists(p + ".model"):
                res.files.append((p, None))
    if own and not keep: cleanup(wd)
    return res

def describe_disagreement(res):
    i = res.disagree
    if i is None: return None
    a = res.hrecs[i] if i < len(res.hrecs) else None
    b = res.mrecs[i] if i < len(res.mrecs) else None
    out = []
    if a is None or b is None:
        return "stream length differs at record %d (library %d records, model %d)" % (i, len(res.hrecs), len(res.mrecs))
    out.append("op #%d `%s`: library says %r, model says %r" % (a["n"], a["op"], a["res"], b["res"]))
    for x, y in zip(a["lines"], b["lines"]):
        if x != y:
            out.append("  library: " + x[:300]); out.append("  model  : " + y[:300]); break
    if len(a["lines"]) != len(b["lines"]): out.append("  dump lengths %d vs %d" % (len(a["lines"]), len(b["lines"])))
    return "\n".join(out)
