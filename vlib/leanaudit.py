"""Proof obligations: build the Lean library, print the axioms of every theorem listed for a
property, grep for forbidden constructs, optionally re-check the compiled module with leanchecker."""
import os, re, json, subprocess, fcntl, glob, time
from . import build

ALLOWED_AXIOMS = {"propext", "Quot.sound", "Classical.choice"}
FORBIDDEN = [r"\bsorry\b", r"\badmit\b", r"^\s*axiom\s", r"\bnative_decide\b", r"\bbv_decide\b",
             r"\bimplemented_by\b", r"\bunsafe\s", r"maxHeartbeats\s+0\b"]

def _strip_comments(text):
    text = re.sub(r"/-.*?-/", lambda m: "\n" * m.group(0).count("\n"), text, flags=re.S)
    return "\n".join(l.split("--")[0] for l in text.split("\n"))

def forbidden_hits():
    hits = []
    for f in glob.glob(os.path.join(build.LEAN, "Ezc3dVerif", "**", "*.lean"), recursive=True):
        body = _strip_comments(open(f).read())
        for i, line in enumerate(body.split("\n"), 1):
            for pat in FORBIDDEN:
                if re.search(pat, line): hits.append("%s:%d: %s" % (os.path.relpath(f, build.LEAN), i, line.strip()[:120]))
    return hits

def theorems_for(pid):
    m = json.load(open(os.path.join(build.LEAN, "theorems.json")))
    return m.get(pid, [])

class Lock:
    def __enter__(self):
        os.makedirs(build.CACHE, exist_ok=True)
        self.f = open(os.path.join(build.CACHE, "lake.lock"), "w")
        fcntl.flock(self.f, fcntl.LOCK_EX); return self
    def __exit__(self, *a):
        fcntl.flock(self.f, fcntl.LOCK_UN); self.f.close()

def audit(pid, thorough=False):
    """-> dict(ok, obligations, discharged, failures[list of str], axioms{thm:[..]}, build_s)"""
    out = {"ok": True, "obligations": 0, "discharged": 0, "failures": [], "axioms": {}, "checker": []}
    t = time.time()
    with Lock():
        ok, log = build.build_lean()
    out["build_s"] = round(time.time() - t, 1)
    out["obligations"] += 1
    if not ok:
        out["ok"] = False
        errs = [l for l in log.split("\n") if "error" in l][:8]
        out["failures"].append("lake build failed: " + " | ".join(errs))
        # which property modules are broken?
        out["broken_modules"] = sorted(set(re.findall(r"Ezc3dVerif/(?:Properties|Proofs|Model|Spec|Basic)/\w+\.lean", log)))
    else:
        out["discharged"] += 1
    thms = theorems_for(pid)
    out["theorems"] = thms
    # forbidden constructs
    out["obligations"] += 1
    hits = forbidden_hits()
    if hits:
        out["ok"] = False; out["failures"].append("forbidden construct: " + "; ".join(hits[:5]))
    else: out["discharged"] += 1
    if not thms:
        return out
    mods = sorted(set(json.load(open(os.path.join(build.LEAN, "theorems.json"))).get("_modules", {}).get(pid, ["Ezc3dVerif.Properties." + pid])))
    src = "\n".join("import " + m for m in mods) + "\n" + "\n".join("#print axioms %s" % t_ for t_ in thms) + "\n"
    os.makedirs(os.path.join(build.CACHE, "audit"), exist_ok=True)
    fpath = os.path.join(build.CACHE, "audit", "Audit_%s_%d.lean" % (pid, os.getpid()))
    open(fpath, "w").write(src)
    r = subprocess.run(["lake", "env", "lean", fpath], cwd=build.LEAN, stdout=subprocess.PIPE, stderr=subprocess.STDOUT, text=True)
    os.remove(fpath)
    text = r.stdout.replace("\n  ", " ")
    for t_ in thms:
        out["obligations"] += 1
        m = re.search(r"'%s' depends on axioms: \[([^\]]*)\]" % re.escape(t_), text)
        if m:
            ax = [a.strip() for a in m.group(1).split(",") if a.strip()]
        elif re.search(r"'%s' does not depend on any axioms" % re.escape(t_), text):
            ax = []
        else:
            out["ok"] = False; out["failures"].append("theorem %s does not check (missing or its module does not build)" % t_)
            continue
        out["axioms"][t_] = ax
        bad = [a for a in ax if a not in ALLOWED_AXIOMS]
        if bad:
            out["ok"] = False; out["failures"].append("theorem %s depends on non-standard axioms %s" % (t_, bad))
        else:
            out["discharged"] += 1
    if thorough and ok:
        for m_ in mods:
            out["obligations"] += 1
            r = subprocess.run(["lake", "env", "leanchecker", m_], cwd=build.LEAN, stdout=subprocess.PIPE, stderr=subprocess.STDOUT, text=True)
            out["checker"].append("leanchecker %s -> rc %d" % (m_, r.returncode))
            if r.returncode == 0: out["discharged"] += 1
            else:
                out["ok"] = False; out["failures"].append("leanchecker rejects %s: %s" % (m_, r.stdout[-300:]))
    return out
