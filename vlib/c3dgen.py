"""Spec-level C3D encoder (independent of the library and of the Lean model): produces well-formed
little-endian float-format files over layout variants x content shapes, written from the C3D user guide."""
import struct, random

def le16(v): return struct.pack("<H", v & 0xFFFF)
def f32(bits): return struct.pack("<I", bits & 0xFFFFFFFF)

class Layout:
    def __init__(self, r):
        self.lead_zeros = r.choice([0, 0, 0, 1, 3, 512])
        self.zero_prologue = r.random() < 0.2        # Qualisys: first two bytes of the parameter section are 0
        self.param_block = r.choice([2, 2, 2, 3, 5])
        self.order = r.choice(["groups_first", "interleaved", "params_first", "shuffled"])
        self.sparse_ids = r.random() < 0.35
        self.pad_byte = r.choice([0x20, 0x20, 0x00])  # how string cells are padded
        self.extra_blocks = r.choice([0, 0, 1])       # zero blocks between the terminator block and the data
        self.end_offset0 = r.random() < 0.15          # the chain ends with a next-offset of 0 in its last record (still followed by zeros)
    def describe(self):
        return "z%d_%s_pb%d_%s_%s_pad%02x_x%d%s" % (self.lead_zeros, "zp" if self.zero_prologue else "np", self.param_block, self.order,
                                                "sparse" if self.sparse_ids else "dense", self.pad_byte, self.extra_blocks, "_end0" if self.end_offset0 else "")

def enc_param(gid, name, locked, ptype, dims, values, desc, layout, width_pad=None):
    """ptype: 'C','B','I','F'; values: list of bytes (C), ints (B/I), uint32 bit patterns (F); dims as in the file ([] scalar)"""
    tcode = {"C": -1, "B": 1, "I": 2, "F": 4}[ptype]
    body = struct.pack("b", tcode) + bytes([len(dims)]) + bytes(dims)
    if ptype == "C":
        w = dims[0] if dims else 1
        data = b"".join(v + bytes([layout.pad_byte]) * (w - len(v)) for v in values)
    elif ptype == "B": data = b"".join(struct.pack("b", v) for v in values)
    elif ptype == "I": data = b"".join(struct.pack("<h", v) for v in values)
    else: data = b"".join(f32(v) for v in values)
    rest = body + data + bytes([len(desc)]) + desc
    n = len(name)
    return struct.pack("b", -n if locked else n) + struct.pack("b", gid) + name + le16(2 + len(rest)) + rest

def enc_group(gid, name, locked, desc):
    n = len(name)
    return struct.pack("b", -n if locked else n) + struct.pack("b", -gid) + name + le16(3 + len(desc)) + bytes([len(desc)]) + desc

def encode(content, layout, r):
    """content: dict(groups=[(gid,name,locked,desc)], params=[(gid,name,locked,type,dims,values,desc)],
       header=dict(...), frames=[(points [(x,y,z,res)], analogs [[v]*nch]*nsub)])"""
    recs_g = [enc_group(*g) for g in content["groups"]]
    recs_p = [enc_param(*p, layout=layout) for p in content["params"]]
    if layout.order == "groups_first": recs = recs_g + recs_p
    elif layout.order == "params_first": recs = recs_p + recs_g
    elif layout.order == "interleaved":
        recs = []
        for g, rg in zip(content["groups"], recs_g):
            recs.append(rg); recs += [rp for p, rp in zip(content["params"], recs_p) if p[0] == g[0]]
        recs += [rp for p, rp in zip(content["params"], recs_p) if p[0] not in [g[0] for g in content["groups"]]]
    else:
        recs = recs_g + recs_p; r.shuffle(recs)
    if getattr(layout, "end_offset0", False) and recs:
        last = bytearray(recs[-1]); n = last[0] if last[0] < 128 else 256 - last[0]
        last[2 + n:4 + n] = b"\x00\x00"; recs = recs[:-1] + [bytes(last)]
    body = b"".join(recs) + b"\x00"
    plen = 4 + len(body)
    nblocks = (plen + 511) // 512 + layout.extra_blocks
    sec = bytearray(4 + len(body))
    sec[0:4] = bytes([0 if layout.zero_prologue else 1, 0 if layout.zero_prologue else 0x50, nblocks, 84])
    sec[4:] = body
    sec += bytes(512 * nblocks - len(sec))
    h = content["header"]
    data_start = layout.param_block + nblocks
    hdr = bytearray(512)
    hdr[0] = layout.param_block; hdr[1] = 0x50
    hdr[2:4] = le16(h["points"]); hdr[4:6] = le16(h["analog_per_frame"]); hdr[6:8] = le16(h["first"]); hdr[8:10] = le16(h["last"])
    hdr[10:12] = le16(h["gap"]); hdr[12:16] = f32(h["scale"]); hdr[16:18] = le16(data_start); hdr[18:20] = le16(h["subframes"])
    hdr[20:24] = f32(h["rate"])
    hdr[294:296] = le16(h.get("klp", 0)); hdr[296:298] = le16(h.get("fbkl", 0)); hdr[298:300] = le16(0x3039)
    ev = h.get("events", [])
    hdr[300:302] = le16(len(ev))
    for i, (t, disp, label) in enumerate(ev):
        hdr[304 + 4 * i:308 + 4 * i] = f32(t); hdr[376 + 2 * i:378 + 2 * i] = le16(disp); hdr[396 + 4 * i:400 + 4 * i] = (label + b"\0\0\0\0")[:4]
    data = bytearray()
    for pts, an in content["frames"]:
        for p in pts: data += b"".join(f32(v) for v in p)
        for sf in an: data += b"".join(f32(v) for v in sf)
    gapblocks = bytes(512 * (layout.param_block - 2))
    out = bytes(layout.lead_zeros) + bytes(hdr) + gapblocks + bytes(sec) + bytes(data)
    # patch POINT:DATA_START if present (value position is recomputed by searching the record)
    return out, data_start

def rand_name(r, n=None, upper=True):
    if n is None: n = r.randint(1, 8)
    al = b"ABCDEFGHIJKLMNOPQRSTUVWXYZ0123456789_" if upper else b"abcXYZ019_ .-"
    return bytes(r.choice(al) for _ in range(n))

def fbits(r):
    c = r.random()
    if c < 0.5: return struct.unpack("<I", struct.pack("<f", r.choice([0.0, 1.0, -1.0, 0.5, 2.5, 100.0, -1234.5, 1e-3, 1e6])))[0]
    e = r.randint(0, 255); s = r.randint(0, 1); m = r.choice([0, 1, 0x400000, 0x7fffff, r.randint(0, 0x7fffff)])
    return (s << 31) | (e << 23) | m

def gen_content(r, layout, big=False, frac=False):
    """a well-formed content: POINT/ANALOG groups with consistent counts, extra groups/params of every type and shape"""
    np_ = r.choice([0, 1, 2, 3, 5] if not big else [54, 255])
    nch = r.choice([0, 0, 1, 2, 4] if not big else [16, 104, 64, 104])     # 104: unlabeled channels with three-digit indices
    nsub = r.choice([1, 2, 3, 5]) if nch else r.choice([0, 1])
    nfr = r.choice([0, 1, 2, 3, 6] if not big else [50, 300])
    if np_ == 0 and nch == 0: nfr = 0
    first = r.choice([1, 1, 2, 10, 705])
    prate = r.choice([50.0, 100.0, 120.0, 200.0])
    if frac:
        # broadcast-style rates: the 32-bit ANALOG:RATE is POINT:RATE x sub-frames ROUNDED, so the quotient taken in double is
        # just below the whole number for some pairs (29.97 x 7, 59.94 x 13, 119.88 x 15); own stream, the main one is untouched
        r2 = random.Random(r.random())
        prate = r2.choice([29.97, 59.94, 119.88, 23.976])
        if nch: nsub = r2.choice([4, 7, 13, 15])
        if nfr and r2.random() < 0.5: first = 65536 - nfr          # the last frame number is the largest the header word holds
    prate = struct.unpack("<f", struct.pack("<f", prate))[0]
    arate = prate * (nsub if nch else 1)
    used_ids = [1, 2]
    if layout.sparse_ids:
        ids = sorted(r.sample(range(3, 40), 4)); pid, aid = 1, 2
        if r.random() < 0.5: pid, aid = r.sample(range(1, 12), 2)
    else:
        ids = [3, 4, 5, 6]; pid, aid = 1, 2
    ids = [i for i in ids if i not in (pid, aid)]
    groups = [(pid, b"POINT", r.random() < 0.3, b"" if r.random() < 0.5 else rand_name(r, r.choice([3, 20]), False)),
              (aid, b"ANALOG", r.random() < 0.3, b"")]
    F = lambda v: struct.unpack("<I", struct.pack("<f", v))[0]
    # labels fewer or more than the points in use
    nlab = min(255, r.choice([np_, np_, max(np_ - 1, 0), np_ + 2]))
    labw = r.choice([4, 8, 16])
    labels = [rand_name(r, r.randint(1, labw)) for _ in range(nlab)]
    while len(set(labels)) < len(labels): labels = [rand_name(r, r.randint(1, labw)) + bytes([65 + i % 26]) for i in range(nlab)]; labw += 1
    params = [(pid, b"USED", True, "I", [], [np_], b""), (pid, b"SCALE", True, "F", [], [F(-1.0)], b"scale"),
              (pid, b"RATE", True, "F", [], [F(prate)], b""), (pid, b"FRAMES", True, "I", [], [nfr], b""),
              (pid, b"LABELS", False, "C", [labw, nlab], labels, b""),
              (pid, b"UNITS", False, "C", [4], [b"mm"], b"")]      # padded one-dimensional string
    if r.random() < 0.8: params.insert(3, (pid, b"DATA_START", True, "I", [], [0], b""))
    if frac and r2.random() < 0.6:
        # exactly 8 parameters in the POINT group (a vector filled by push_back is then at capacity) and still no DESCRIPTIONS
        for nm, val in ((b"X_SCREEN", b"+X"), (b"Y_SCREEN", b"+Z"), (b"MOVIE_ID", b"m0")):
            if len([p for p in params if p[0] == pid]) < 8: params.append((pid, nm, False, "C", [2], [val], b""))
    analog_empty = (nch == 0 and r.random() < 0.5)
    if not analog_empty:
        nal = r.choice([nch, nch, max(nch - 1, 0), nch + 1]) if nch < 100 else r.choice([3, 3, nch])
        alabels = [b"CH%d" % i for i in range(nal)]
        params += [(aid, b"USED", True, "I", [], [nch], b""), (aid, b"RATE", True, "F", [], [F(arate)], b""),
                   (aid, b"LABELS", False, "C", [5, nal], alabels, b""), (aid, b"SCALE", False, "F", [nch], [F(1.0)] * nch, b""),
                   (aid, b"OFFSET", False, "I", [nch], [r.choice([0, -1, 2048]) for _ in range(nch)], b""),
                   (aid, b"GEN_SCALE", False, "F", [], [F(0.0048828)], b"")]
    # extra groups with parameters of every type / shape / padding
    for gi in ids[:r.randint(0, len(ids))]:
        groups.append((gi, rand_name(r), r.random() < 0.3, rand_name(r, r.choice([0, 1, 30, 128, 200, 255]), False) if r.random() < 0.5 else b""))
        for _ in range(r.randint(0, 4)):
            ty = r.choice("CBIF")
            nd = r.choice([0, 1, 1, 2, 2, 3, 4, 7])
            dims = [r.choice([0, 1, 2, 3, 5]) for _ in range(nd)]
            cnt = 1
            for d in dims: cnt *= d
            # a well-formed record fits its 16-bit next-offset: keep the value part below 60 000 bytes (the limit itself is C17's)
            while cnt * {"C": 1, "B": 1, "I": 2, "F": 4}[ty] > 60000:
                dims[dims.index(max(dims))] = 1
                cnt = 1
                for d in dims: cnt *= d
            if ty == "C":
                w = dims[0] if dims else 1
                nstr = 1
                for d in dims[1:]: nstr *= d
                if nd == 1: nstr = 1 if w else 0
                vals = [rand_name(r, r.randint(0, w), False).rstrip(b" ") if w else b"" for _ in range(nstr)]
                # values ending in white space other than the blank (only blanks are padding)
                vals = [v[:-1] + bytes([r.choice(b"\t\n\r\x0b\x0c")]) if v and r.random() < 0.15 else v for v in vals]
                if nd == 0: vals = [rand_name(r, 1)]
            elif ty == "B": vals = [r.choice([0, 1, -1, 127, -128, r.randint(-128, 127)]) for _ in range(cnt)]
            elif ty == "I": vals = [r.choice([0, 1, -1, 32767, -32768, 255, 256, r.randint(-32768, 32767)]) for _ in range(cnt)]
            else: vals = [fbits(r) for _ in range(cnt)]
            params.append((gi, rand_name(r), r.random() < 0.3, ty, dims, vals, rand_name(r, r.choice([0, 0, 5, 127, 128, 255]), False)))
    # a ladder of descriptions whose lengths grow by one (a reader reusing a buffer sized for the previous string)
    if r.random() < 0.12 and ids:
        gi = max(ids) + 1
        groups.append((gi, b"LADDER", False, rand_name(r, r.choice([127, 128, 129]), False)))
        L0 = r.choice([126, 199, 249])
        for k in range(6):
            params.append((gi, b"L%d" % k, False, "I", [], [k], rand_name(r, min(255, L0 + k), False)))
    ev = [(fbits(r), r.choice([0, 1]), rand_name(r, r.randint(1, 4))) for _ in range(r.choice([0, 0, 1, 3, 18]))]
    header = dict(points=np_, analog_per_frame=nch * nsub, first=first, last=first + nfr - 1 if nfr else first - 1, gap=r.choice([0, 10]),
                  scale=F(-1.0) if r.random() < 0.5 else F(-0.01), subframes=nsub, rate=F(prate), events=ev)
    frames = [([[fbits(r) for _ in range(4)] for _ in range(np_)], [[fbits(r) for _ in range(nch)] for _ in range(nsub)]) for _ in range(nfr)]
    return dict(groups=groups, params=params, header=header, frames=frames)

def make_file(seed, path, big=False, frac=False):
    r = random.Random(seed)
    layout = Layout(r)
    content = gen_content(r, layout, big, frac)
    b, ds = encode(content, layout, r)
    # write DATA_START value if present: find the record and patch
    bb = bytearray(b)
    marker = b"DATA_START"
    i = bb.find(marker)
    if i >= 0:
        p = i + len(marker) + 2 + 2      # offset(2) type(1) ndims(1)
        bb[p:p + 2] = le16(ds)
    open(path, "wb").write(bytes(bb))
    return layout.describe(), content
