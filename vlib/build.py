"""Builds: the C++ harness from /repo's *current working tree* (content-hashed cache under
/verif/.cache, never /tmp) and the Lean library + driver (lake)."""
import hashlib, os, subprocess, sys, glob, shutil, time
from concurrent.futures import ThreadPoolExecutor

VERIF = os.path.dirname(os.path.dirname(os.path.abspath(__file__)))
REPO = os.environ.get("VERIF_REPO", "/repo")
CACHE = os.path.join(VERIF, ".cache")
LEAN = os.path.join(VERIF, "lean")
GUARD = "MELUND_EZC3D_VERIF"

SAN_COMMON = ["-fno-omit-frame-pointer", "-D_GLIBCXX_ASSERTIONS"]
CONFIGS = {
    # default lane: memory errors abort (an abort is a result); the two arithmetic UBSan checks are
    # excluded here (hex2uint executes them on every header, see DESIGN §8 F21) and watched by C19
    "asan": ["-O1", "-g", "-fsanitize=address,undefined", "-fno-sanitize=signed-integer-overflow,float-cast-overflow",
             "-fno-sanitize-recover=all"] + SAN_COMMON,
    "plain": ["-O1", "-g"],
    "ubarith": ["-O1", "-g", "-fsanitize=signed-integer-overflow,float-cast-overflow", "-fsanitize-recover=all"],
    "tsan": ["-O1", "-g", "-fsanitize=thread"],
    "O0": ["-O0"], "O2": ["-O2"], "O3": ["-O3"],
    # line/branch coverage of /repo/src by the correspondence lanes (tools/coverage.py; never used for a verdict)
    "cov": ["-O0", "-g", "--coverage"],
}

def _sources():
    return sorted(glob.glob(os.path.join(REPO, "src", "*.cpp")))

def tree_hash(extra=()):
    h = hashlib.sha256()
    for f in _sources() + sorted(glob.glob(os.path.join(REPO, "include", "*.h"))) + sorted(glob.glob(os.path.join(VERIF, "harness", "*"))):
        h.update(f.encode()); h.update(open(f, "rb").read())
    for e in extra: h.update(str(e).encode())
    return h.hexdigest()[:16]

def _run(cmd, **kw):
    r = subprocess.run(cmd, stdout=subprocess.PIPE, stderr=subprocess.STDOUT, text=True, **kw)
    return r.returncode, r.stdout

def build_harness(config="asan", shared=False, main="harness.cpp", cxx="g++"):
    """Returns (path to the harness binary, None) or (None, compiler output)."""
    flags = CONFIGS[config]
    key = tree_hash([config, shared, main, cxx] + flags)
    d = os.path.join(CACHE, "harness", key)
    exe = os.path.join(d, "harness")
    if os.path.exists(exe):
        try: os.utime(d, None)          # mark the build as in use (prune_cache goes by age)
        except OSError: pass
        return exe, None
    os.makedirs(os.path.join(CACHE, "harness"), exist_ok=True)
    # checks may run in parallel on a cold cache: one builder per key, the others wait for it
    import fcntl
    with open(os.path.join(CACHE, "harness", key + ".lock"), "w") as lk:
        fcntl.flock(lk, fcntl.LOCK_EX)
        try:
            return _build_harness_locked(d, exe, flags, shared, main, cxx)
        finally:
            fcntl.flock(lk, fcntl.LOCK_UN)

def _build_harness_locked(d, exe, flags, shared, main, cxx):
    if os.path.exists(exe): return exe, None
    os.makedirs(d, exist_ok=True)
    inc = ["-I" + os.path.join(REPO, "include"), "-D" + GUARD]
    base = [cxx, "-std=c++11", "-w"] + flags + inc
    objs = []
    jobs = []
    for src in _sources():
        o = os.path.join(d, os.path.basename(src) + ".o")
        objs.append(o)
        jobs.append(base + (["-fPIC"] if shared else []) + ["-c", src, "-o", o])
    ho = os.path.join(d, "main.o")
    jobs.append(base + ["-c", os.path.join(VERIF, "harness", main), "-o", ho])
    with ThreadPoolExecutor(max_workers=16) as ex:
        res = list(ex.map(_run, jobs))
    for rc, outp in res:
        if rc != 0:
            shutil.rmtree(d, ignore_errors=True)
            return None, outp
    link_flags = [f for f in flags if f.startswith("-fsanitize") or f.startswith("-fno-sanitize") or f == "--coverage"]
    if shared:
        so = os.path.join(d, "libezc3d.so")
        rc, outp = _run([cxx, "-shared"] + link_flags + objs + ["-o", so])
        if rc == 0:
            rc, outp = _run([cxx] + link_flags + [ho, "-L" + d, "-lezc3d", "-Wl,-rpath," + d, "-lpthread", "-o", exe])
    else:
        ar = os.path.join(d, "libezc3d.a")
        rc, outp = _run(["ar", "rcs", ar] + objs)
        if rc == 0:
            rc, outp = _run([cxx] + link_flags + [ho, ar, "-lpthread", "-o", exe])
    if rc != 0:
        shutil.rmtree(d, ignore_errors=True)
        return None, outp
    return exe, None

def object_dir(config="plain"):
    """directory holding the per-translation-unit objects of a build (for the C18 symbol scan)"""
    exe, err = build_harness(config)
    return (os.path.dirname(exe) if exe else None), err

def build_lean(targets=("Ezc3dVerif", "driver")):
    """lake build; returns (ok, output)."""
    rc, outp = _run(["lake", "build"] + list(targets), cwd=LEAN)
    return rc == 0, outp

def driver_path():
    return os.path.join(LEAN, ".lake", "build", "bin", "driver")

def prune_cache(keep=16, min_age_s=3600):
    """old builds beyond the `keep` most recent ones are removed - but never one used in the last hour: checks may run in
    parallel (C19 alone uses seven builds), and a build another check is still using must not disappear under it"""
    d = os.path.join(CACHE, "harness")
    if not os.path.isdir(d): return
    ents = sorted((os.path.getmtime(os.path.join(d, e)), e) for e in os.listdir(d) if os.path.isdir(os.path.join(d, e)))
    now = time.time()
    for mt, e in ents[:-keep]:
        if now - mt < min_age_s: continue
        shutil.rmtree(os.path.join(d, e), ignore_errors=True)
        try: os.remove(os.path.join(d, e + ".lock"))
        except OSError: pass

if __name__ == "__main__":
    t = time.time()
    cfg = sys.argv[1] if len(sys.argv) > 1 else "asan"
    exe, err = build_harness(cfg, shared=(len(sys.argv) > 2 and sys.argv[2] == "shared"))
    print(exe if exe else err, "%.1fs" % (time.time() - t))
