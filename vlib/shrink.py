"""Delta debugging on script lines: keep the predicate true while dropping chunks."""
def shrink(lines, pred, max_tests=400):
    tests = [0]
    def ok(ls):
        tests[0] += 1
        try: return pred(ls)
        except Exception: return False
    n = 2
    cur = list(lines)
    while len(cur) >= 2 and tests[0] < max_tests:
        chunk = max(1, len(cur) // n)
        reduced = False
        i = 0
        while i < len(cur) and tests[0] < max_tests:
            cand = cur[:i] + cur[i + chunk:]
            if cand and ok(cand):
                cur = cand; reduced = True
            else:
                i += chunk
        if not reduced:
            if chunk == 1: break
            n = min(len(cur), n * 2)
        else:
            n = max(2, n - 1)
    return cur
