"""Per-property checks: which theorems, which lanes (generators), which oracle."""
import os, json, random, shutil
from . import core, gen, run, oracles, leanaudit, build, shrink as shrinker

def _run_scripts(ctx, scripts, lane, oracle=None, exe=None, scope=None, fill=0xA5, timeout=120):
    """scripts: list of (lines, stats, tag). Runs all in parallel, applies oracle to each result."""
    exe = exe or ctx.exe("asan")
    def one(item):
        lines, st, tag = item
        try:
            res = run.run_pair(lines, exe, fill=fill, timeout=timeout)
        except Exception as e:
            return item, None, repr(e)
        return item, res, None
    for (lines, st, tag), res, err in core.pmap(one, scripts):
        if res is None:
            ctx.notes.append("runner error: " + err); continue
        ctx.merge_stats(st)
        ctx.record_pair(res, [l.replace("@W@", "@W@") for l in lines], lane, scope)
        if len(ctx.samples) < 3: ctx.sample("[%s] " % lane + " ; ".join(lines[:12]))
        if oracle:
            try:
                fails = oracle(res)
            except Exception as e:
                import traceback
                ctx.notes.append("oracle error on %s: %s" % (tag, traceback.format_exc()[-400:])); fails = []
            for clause, where, detail in fails:
                ctx.fail(clause, where, detail, lines)

def _shrink_failures(ctx, oracle, exe=None, budget=3):
    """minimise the scripts of the first few non-known failures so the replay is small"""
    exe = exe or ctx.exe("asan")
    known = core.load_known()
    done = 0
    for f in ctx.failures:
        if core.match_known(ctx.pid, f, known) or done >= budget: continue
        clause = f.clause
        def pred(ls):
            r = run.run_pair(ls, exe)
            return any(c == clause for c, w, d in oracle(r))
        small = shrinker.shrink(f.lines, pred, max_tests=120)
        r = run.run_pair(small, exe)
        for c, w, d in oracle(r):
            if c == clause: f.where, f.detail = w, d; break
        f.lines = small
        done += 1

def api_scripts(ctx, n, nops=30, malformed=0.25, with_io=False, caller_mut=0.0, seed_off=0, long_names=True):
    out = []
    for i in range(n):
        seed = ctx.seed * 100003 + seed_off + i
        L, st = gen.gen_api_history(seed, nops=nops, malformed=malformed, with_io=("@W@/f%d" % i) if with_io else None, caller_mut=caller_mut)
        out.append((L, st, "api-%d" % seed))
    return out

def corpus_scripts(pid):
    d = os.path.join(core.CORPUS, pid)
    out = []
    if os.path.isdir(d):
        for f in sorted(os.listdir(d)):
            if f.endswith(".script"):
                lines = [l.replace("@C@", core.CORPUS) for l in open(os.path.join(d, f)).read().split("\n") if l and not l.startswith("#")]
                out.append((lines, {}, "corpus-" + f))
    return out

API_RULE = ("state-aware API histories (declare points/channels, rates, parameter edits of every type with 0-7 dimensions, "
            "frame append/replace/extend, point/channel columns, lock toggles, direct POINT/ANALOG edits; ~25% deliberately deviating calls) "
            "generated from one PRNG seeded by VERIF_SEED; each run on the sanitizer-instrumented library and on the Lean model, outputs diffed per op; "
            "a case is distinct/non-trivial by (lane, op kind, outcome class, size of the resulting dump)")

# ------------------------------------------------------------------------------------------
def check_api_property(ctx, oracle, n_quick, n_thorough, caller_mut=0.0, malformed=0.25, extra=None, scope=None, with_io=False, nops=30, post=None):
    ctx.audit = leanaudit.audit(ctx.pid, thorough=not ctx.quick)
    n = n_quick if ctx.quick else n_thorough
    scripts = corpus_scripts(ctx.pid) + api_scripts(ctx, n, caller_mut=caller_mut, malformed=malformed, with_io=with_io, nops=nops)
    if extra: scripts += extra(ctx)
    if post: scripts = post(scripts)
    _run_scripts(ctx, scripts, "api", oracle, scope=scope)
    if ctx.failures: _shrink_failures(ctx, oracle)
    return core.finish(ctx, API_RULE)

def ratio_scripts(ctx):
    """C05: sub-frame ratio changes (ANALOG:RATE / POINT:RATE) up and down with 1-4 declared channels, without and with frames"""
    import random
    out = []
    X = gen.xhex; F = gen.f2h
    n = 24 if ctx.quick else 600
    for i in range(n):
        r = random.Random(ctx.seed * 991 + i)
        nch = r.choice([1, 1, 2, 3, 4]); npt = r.choice([0, 1, 2])
        L = ["new"] + ["analog %s" % X(b"C%d" % k) for k in range(nch)] + ["point %s" % X(b"P%d" % k) for k in range(npt)]
        prate = r.choice([10.0, 50.0, 100.0])
        L.append("param x504f494e54 x52415445 x 0 F - %s" % F(prate))
        ratio = r.choice([10, 12, 8, 6])
        L.append("param x414e414c4f47 x52415445 x 0 F - %s" % F(prate * ratio))
        with_frames = i % 3 == 0
        for step in range(r.randint(4, 9)):
            if with_frames and step == 2:
                pts = ";".join("%s:%s:%s:%s:%s" % (X(b"P%d" % k), F(1.0), F(2.0), F(3.0), F(0.0)) for k in range(npt)) or "-"
                sub = ";".join("%s:%s" % (X(b"C%d" % k), F(0.25 * k)) for k in range(nch))
                L.append("mkframe v%d %s %s" % (step, pts, "|".join([sub] * ratio))); L.append("frame v%d" % step)
            ratio = r.choice([ratio - 1, ratio - 2, ratio + 1, ratio // 2, ratio * 2, 1, 3, 9, 8]) or 1
            ratio = max(1, min(ratio, 40))
            if r.random() < 0.2:
                prate = r.choice([10.0, 50.0, 100.0, 25.0]); L.append("param x504f494e54 x52415445 x 0 F - %s" % F(prate))
            L.append("param x414e414c4f47 x52415445 x 0 F - %s" % F(prate * ratio))
            if r.random() < 0.3: L.append("analog %s" % X(b"D%d" % step))
        out.append((L, {"ratio_sweep": 1}, "ratio-%d" % i))
    return out

def column_scripts(ctx):
    """C07/C10: state x deviation product for the column adders: k frames with s sub-frames, then columns that are
    valid or carry exactly one defect at a chosen (frame, sub-frame, column) position"""
    import random
    out = []
    X = gen.xhex; F = gen.f2h
    n = 40 if ctx.quick else 1000
    for i in range(n):
        r = random.Random(ctx.seed * 773 + i); g = gen.G(ctx.seed * 773 + i)
        npt = r.choice([1, 2, 3]); nch = r.choice([1, 2, 3]); nsub = r.choice([1, 2, 3, 4]); nfr = r.choice([1, 2, 3, 4])
        L = ["new"] + ["point %s" % X(b"P%d" % k) for k in range(npt)] + ["analog %s" % X(b"C%d" % k) for k in range(nch)]
        L += ["param x504f494e54 x52415445 x 0 F - %s" % F(100.0), "param x414e414c4f47 x52415445 x 0 F - %s" % F(100.0 * nsub)]
        pts = ";".join("%s:%s:%s:%s:%s" % (X(b"P%d" % k), g.fbits(), g.fbits(), g.fbits(), g.fbits()) for k in range(npt))
        sub = ";".join("%s:%s" % (X(b"C%d" % k), g.fbits()) for k in range(nch))
        L.append("mkframe f %s %s" % (pts, "|".join([sub] * nsub)))
        L += ["frame f"] * nfr
        pnames = [b"P%d" % k for k in range(npt)]; cnames = [b"C%d" % k for k in range(nch)]
        nv = 0
        for step in range(r.randint(3, 7)):
            kind = r.choice(["point", "analog", "analog"])
            ncol = r.choice([1, 2, 3])
            names = [b"N%d_%d" % (step, c) for c in range(ncol)]
            dev = r.choice([None, None, "dup-first", "dup-last", "missing-at", "extra-frame", "fewer-frames", "empty", "sub-count", "dup-among-new"])
            df, dsf, dc = r.randrange(nfr), r.randrange(nsub), r.randrange(ncol)
            if dev == "dup-first": names[0] = r.choice(pnames if kind == "point" else cnames)
            elif dev == "dup-last": names[-1] = r.choice(pnames if kind == "point" else cnames)
            elif dev == "dup-among-new" and ncol > 1: names[-1] = names[0]
            vs = []
            nf = nfr + 1 if dev == "extra-frame" else max(nfr - 1, 0) if dev == "fewer-frames" else nfr
            for f in range(nf):
                nv += 1; v = "c%d" % nv; vs.append(v)
                if kind == "point":
                    nn = list(names)
                    if dev == "missing-at" and f == df: nn = nn[:dc] + nn[dc + 1:] if f > 0 else nn[:-1]
                    if dev == "empty": nn = []
                    L.append("mkframe %s %s -" % (v, ";".join("%s:%s:%s:%s:%s" % (X(x), g.fbits(), g.fbits(), g.fbits(), g.fbits()) for x in nn) or "-"))
                else:
                    subs = []
                    ns = nsub + r.choice([-1, 1]) if dev == "sub-count" else nsub
                    for sf in range(max(ns, 0)):
                        nn = list(names)
                        if dev == "missing-at" and f == df and sf == dsf: nn = nn[:-1]
                        if dev == "empty": nn = []
                        subs.append(";".join("%s:%s" % (X(x), g.fbits()) for x in nn) or "e")
                    L.append("mkframe %s - %s" % (v, "|".join(subs) or "-"))
            L.append(("pointcol " if kind == "point" else "analogcol ") + " ".join(vs))
            ok = dev is None or (dev == "dup-among-new")
            if dev == "missing-at" and kind == "point" and df == 0 and nfr > 0: ok = False
            if ok:
                if kind == "point": pnames += [x for x in names]
                else: cnames += [x for x in names]
            g.count("coldev_%s_%s" % (kind, dev))
        L += ["save @W@/c.c3d", "load @W@/c.c3d"]
        out.append((L, g.stats, "columns-%d" % i))
    return out

def loaded_edit_scripts(ctx):
    """C05: reload-then-edit: a generated file (first frame 1, 2, 10 or 705, events, labels fewer/more than points) is
    loaded and then edited through the API: frames appended / replaced, points and channels declared"""
    import random
    from . import c3dgen
    out = []
    X = gen.xhex
    n = 24 if ctx.quick else 600
    d = os.path.join(run.WORKROOT, "c05files-%d-%d" % (os.getpid(), ctx.seed)); os.makedirs(d, exist_ok=True)
    ctx._tmpdirs = getattr(ctx, "_tmpdirs", []) + [d]
    for i in range(n):
        seed = ctx.seed * 613 + i
        r = random.Random(seed); g = gen.G(seed)
        path = os.path.join(d, "in%d.c3d" % i)
        desc, content = c3dgen.make_file(seed, path)
        h = content["header"]
        np_, nsub = h["points"], h["subframes"]
        nch = h["analog_per_frame"] // nsub if nsub else 0
        lab = [p for p in content["params"] if p[1] == b"LABELS" and p[0] == content["groups"][0][0]]
        alab = [p for p in content["params"] if p[1] == b"LABELS" and p[0] == content["groups"][1][0]]
        pl = lab[0][5] if lab else []; al = alab[0][5] if alab else []
        pnames = [(pl[k].rstrip(b" ") if k < len(pl) else b"unlabeled_point_%d" % k) for k in range(np_)]
        cnames = [(al[k].rstrip(b" ") if k < len(al) else b"unlabeled_analog_%d" % k) for k in range(nch)]
        L = ["load %s" % path]
        if len(pl) == np_ and len(set(pnames)) == len(pnames) and (nch == 0 or len(al) == nch):
            for step in range(r.randint(1, 4)):
                p, s_ = gen.frame_spec(g, pnames, cnames, nsub if nch else 0)
                L.append("mkframe f%d %s %s" % (step, p, s_))
                L.append("frame f%d" % step if r.random() < 0.7 or not content["frames"] else "frame f%d %d" % (step, r.randrange(len(content["frames"]))))
            if r.random() < 0.5: L.append("point %s" % X(b"NEWPT"))
            if nch and r.random() < 0.3: L.append("analog %s" % X(b"NEWCH"))
        else:
            L.append("point %s" % X(b"NEWPT"))
        L += ["save @W@/o.c3d", "load @W@/o.c3d"]
        out.append((L, {"loaded_edit_first_%d" % h["first"]: 1}, "loaded-edit-%d" % i))
    return out

def c06(ctx): return check_api_property(ctx, oracles.c06, 160, 4000, extra=column_scripts)
def c07(ctx): return check_api_property(ctx, oracles.c07, 200, 5000, malformed=0.45, extra=lambda c: column_scripts(c) + own_points_scripts(c) + loaded_declare_scripts(c, 12 if c.quick else 300))
def with_sep(scripts):
    """after every call that hands data to the object, observe the separation invariant of Model/Heap.lean on the real heap"""
    out = []
    for L, st, name in scripts:
        M = []
        for l in L:
            M.append(l)
            if l.split(" ")[0] in ("frame", "frameself", "point", "analog", "pointcol", "analogcol", "load"): M.append("sep")
        st = dict(st); st["op_sep"] = sum(1 for l in M if l == "sep")
        out.append((M, st, name))
    return out
def loaded_column_scripts(ctx):
    """C08: objects LOADED from files that hold points only, channels only or both, then given a new point / channel column
    and edited in place: the loader must not leave frames sharing a payload"""
    import random, struct
    from . import c3dgen
    out = []
    X = gen.xhex
    d = run.workdir(); ctx._tmpdirs = getattr(ctx, "_tmpdirs", []) + [d]
    F = lambda v: struct.unpack("<I", struct.pack("<f", v))[0]
    for i, (np_, nch, nsub, nfr) in enumerate([(0, 2, 2, 4), (3, 0, 0, 4), (0, 1, 1, 3), (2, 0, 1, 3), (2, 2, 2, 3), (1, 0, 0, 5), (0, 3, 5, 2)] * (1 if ctx.quick else 6)):
        r = random.Random(ctx.seed * 977 + i)
        L = c3dgen.Layout(r); L.lead_zeros = 0; L.zero_prologue = False; L.param_block = 2; L.order = "groups_first"; L.sparse_ids = False; L.extra_blocks = 0; L.pad_byte = 0x20
        groups = [(1, b"POINT", False, b""), (2, b"ANALOG", False, b"")]
        params = [(1, b"USED", False, "I", [], [np_], b""), (1, b"SCALE", False, "F", [], [F(-1.0)], b""), (1, b"RATE", False, "F", [], [F(100.0)], b""),
                  (1, b"DATA_START", False, "I", [], [0], b""), (1, b"FRAMES", False, "I", [], [nfr], b""),
                  (1, b"LABELS", False, "C", [2, np_], [b"P%d" % k for k in range(np_)], b""),
                  (1, b"DESCRIPTIONS", False, "C", [1, np_], [b""] * np_, b""), (1, b"UNITS", False, "C", [2, np_], [b"mm"] * np_, b""),
                  (2, b"USED", False, "I", [], [nch], b""), (2, b"RATE", False, "F", [], [F(100.0 * max(nsub, 1))], b""),
                  (2, b"LABELS", False, "C", [2, nch], [b"C%d" % k for k in range(nch)], b""), (2, b"DESCRIPTIONS", False, "C", [1, nch], [b""] * nch, b""),
                  (2, b"SCALE", False, "F", [nch], [F(1.0)] * nch, b""), (2, b"OFFSET", False, "I", [nch], [0] * nch, b""), (2, b"UNITS", False, "C", [1, nch], [b"V"] * nch, b""),
                  (2, b"GEN_SCALE", False, "F", [], [F(1.0)], b"")]
        header = dict(points=np_, analog_per_frame=nch * nsub, first=1, last=nfr, gap=0, scale=F(-1.0), subframes=nsub, rate=F(100.0), events=[])
        frames = [([[c3dgen.fbits(r) for _ in range(4)] for _ in range(np_)], [[c3dgen.fbits(r) for _ in range(nch)] for _ in range(nsub if nch else 0)]) for _ in range(nfr)]
        path = os.path.join(d, "lc%d.c3d" % i)
        b_, ds_ = c3dgen.encode(dict(groups=groups, params=params, header=header, frames=frames), L, r)
        bb = bytearray(b_); k_ = bb.find(b"DATA_START"); bb[k_ + 14:k_ + 16] = struct.pack("<H", ds_); open(path, "wb").write(bytes(bb))
        S = ["load %s" % path, "point %s" % X(b"NEWPT")]
        S += ["smut 0 pt %d 42280000 42280000 42280000 00000000" % np_, "dump"]
        if nch and nsub: S += ["analog %s" % X(b"NEWCH"), "smut 1 ch 0 %d 42280000" % nch, "dump"]
        S += ["point %s" % X(b"NEWPT2"), "smut %d pt 0 3f800000 3f800000 3f800000 3f800000" % (nfr - 1), "dump"]
        # the column declared by name came from ONE dummy point / channel copied into every frame: renaming it in one stored frame
        # must not rename it anywhere else
        S += ["smut 0 ptname %d %s" % (np_, X(b"RENAMED")), "dump"]
        if nch and nsub: S += ["smut 1 chname 0 %d %s" % (nch, X(b"RENAMEDC")), "dump"]
        S += ["save @W@/lc.c3d", "load @W@/lc.c3d"]
        out.append((S, {"loaded_column_%dp_%dc" % (min(np_, 1), min(nch, 1)): 1}, "loaded-column-%d" % i))
    return out

def c08(ctx): return check_api_property(ctx, oracles.c08, 160, 3000, caller_mut=0.6, post=with_sep, extra=loaded_column_scripts)
def own_points_scripts(ctx):
    """C10 / C07: the FIRST frame of an object on which no point was declared by name brings its own points (allowed: the frame
    then defines them) while something else about it is wrong or right: a channel too few / too many, a missing rate, a
    sub-frame too many; refused calls must leave no trace, matching ones must be accepted"""
    out = []
    X = gen.xhex; F = gen.f2h
    k = 0
    for nch in (1, 2, 3):
        for dch in (-1, 0, 1):
            for rates in ("both", "nopoint", "noanalog"):
                for npts in (1, 3):
                    g = gen.G(ctx.seed * 17 + k); k += 1
                    L = ["new"] + ["analog %s" % X(b"C%d" % i) for i in range(nch)]
                    if rates != "nopoint": L.append("param x504f494e54 x52415445 x 0 F - %s" % F(100.0))
                    if rates != "noanalog": L.append("param x414e414c4f47 x52415445 x 0 F - %s" % F(200.0))
                    nsub = 2 if rates == "both" else 1
                    pts = ";".join(gen.point_str(g, b"OWN%d" % i) for i in range(npts))
                    sub = ";".join("%s:%s" % (X(b"C%d" % i), g.fbits()) for i in range(nch + dch)) or "e"
                    L.append("mkframe v %s %s" % (pts, "|".join([sub] * nsub)))
                    L += ["frame v", "dump", "frame v", "point %s" % X(b"LATER"), "dump"]
                    out.append((L, {"own_points": 1}, "own-points-%d" % k))
    return out

def limit_column_scripts(ctx):
    """C10 at the format's capacity: a data set that already stores frames with 255 points (channels) gets a 256th column -
    whatever the call does (the unchanged library accepts it: a recorded C17 finding), a refusal must leave no trace in the frames"""
    X = gen.xhex; F = gen.f2h
    out = []
    for kind in ("points", "channels"):
        g = gen.G(ctx.seed * 29 + len(out))
        L = ["new", "dumpmode shape"]
        if kind == "points":
            L += ["point %s" % X(b"P%03d" % i) for i in range(255)] + ["param x504f494e54 x52415445 x 0 F - %s" % F(100.0)]
            L.append("mkframe v %s -" % ";".join(gen.point_str(g, b"P%03d" % i) for i in range(255)))
            L += ["frame v", "frame v", "dumpmode full", "dump", "point %s" % X(b"P255"), "dump", "point %s" % X(b"P256"), "dump"]
        else:
            L += ["analog %s" % X(b"C%03d" % i) for i in range(255)] + ["param x504f494e54 x52415445 x 0 F - %s" % F(100.0), "param x414e414c4f47 x52415445 x 0 F - %s" % F(100.0)]
            L.append("mkframe v - %s" % ";".join("%s:%s" % (X(b"C%03d" % i), g.fbits()) for i in range(255)))
            L += ["frame v", "frame v", "dumpmode full", "dump", "analog %s" % X(b"C255"), "dump", "analog %s" % X(b"C256"), "dump"]
        out.append((L, {"limit_column": 1}, "limit-column-" + kind))
    return out

def frame_limit_scripts(ctx):
    """C10 around the 16-bit frame count: frames stored at explicit indexes 65533 .. 65536 and appended after them; whatever the
    call does there (the unchanged library accepts them), a refusal must not have stored the frame first"""
    X = gen.xhex; F = gen.f2h
    L = ["new", "dumpmode shape", "point x50", "param x504f494e54 x52415445 x 0 F - %s" % F(100.0), "mkframe v x50:3f800000:40000000:40400000:00000000 -", "frame v"]
    for idx in (65533, 65534, 65535, 65536): L += ["frame v %d" % idx, "dump"]
    L += ["frame v", "dump", "frame v 65535", "dump"]
    return [(L, {"frame_limit": 1}, "frame-limit")]

def loaded_declare_scripts(ctx, n):
    """by-name declarations (`c3d::point(name)`, `c3d::analog(name)`) and a frame on objects LOADED from generated files: their
    POINT / ANALOG groups lack the optional DESCRIPTIONS / UNITS parameters, hold 4 to 9 parameters, labels fewer or more than used"""
    from . import c3dgen
    d = run.workdir(); ctx._tmpdirs = getattr(ctx, "_tmpdirs", []) + [d]
    out = []
    for i in range(n):
        seed = ctx.seed * 4409 + 300000 + i
        path = os.path.join(d, "decl%d.c3d" % i)
        desc, content = c3dgen.make_file(seed, path, frac=(i % 4 == 1))
        # a POINTS-ONLY frame carrying exactly the file's labels (no sub-frame at all: nothing of it concerns the ANALOG group)
        pid_ = content["groups"][0][0]
        labs = [p_[5] for p_ in content["params"] if p_[0] == pid_ and p_[1] == b"LABELS"]
        used = [p_[5][0] for p_ in content["params"] if p_[0] == pid_ and p_[1] == b"USED"]
        ponly = []
        if labs and used and 0 < used[0] <= len(labs[0]):
            ponly = ["mkframe w %s -" % ";".join("%s:3f800000:40000000:40400000:00000000" % gen.xhex(bytes(n).rstrip(b" ")) for n in labs[0][:used[0]]), "frame w", "dump"]
        L = ["# input: python3 -c \"from vlib import c3dgen; c3dgen.make_file(%d, '%s', frac=%s)\"" % (seed, path, i % 4 == 1),
             "dumpmode full", "load %s" % path, "cpframe v 0", "frame v", "dump"] + ponly + ["point x4e4557", "dump", "analog x4e45574348", "dump", "point x4e4557", "save @W@/d.c3d", "load @W@/d.c3d"]
        out.append((L, {"loaded_declare": 1}, "loaded-declare-%d-%s" % (seed, desc)))
    return out

def c10(ctx): return check_api_property(ctx, oracles.c10, 200, 5000, malformed=0.5, extra=lambda c: column_scripts(c) + pset_scripts(c) + own_points_scripts(c) + limit_column_scripts(c) + frame_limit_scripts(c) + loaded_declare_scripts(c, 12 if c.quick else 300))
def c05(ctx): return check_api_property(ctx, oracles.c05, 200, 5000, with_io=True, extra=lambda c: ratio_scripts(c) + column_scripts(c) + loaded_edit_scripts(c))

def pset_scripts(ctx):
    r = random.Random(ctx.seed + 77)
    g = gen.G(ctx.seed + 78)
    L = ["new"]
    sizes = [0, 1, 2, 3, 5, 128, 255]
    n = 400 if ctx.quick else 6000
    for i in range(n):
        ty = r.choice("IFC")
        nd = r.choice([0, 1, 1, 2, 2, 3, 4, 5, 6, 7])
        dims = [r.choice(sizes if nd <= 2 else [0, 1, 2, 3]) for _ in range(nd)]
        prod = 1
        for d in dims: prod *= d
        k = r.random()
        if nd == 0: cnt = r.choice([0, 1, 2, 5])
        elif k < 0.6: cnt = prod
        elif k < 0.8: cnt = max(0, prod + r.choice([-1, 1]))
        else: cnt = r.choice([0, 1, prod * 2 + 1])
        if cnt > 700: cnt = prod = 0; dims = dims[:1] + [0]
        if ty == "I": vals = ",".join(str(g.int32()) for _ in range(cnt)) or "-"
        elif ty == "F": vals = ",".join(g.fbits() for _ in range(cnt)) or "-"
        else: vals = ",".join(gen.xhex(g.name(0)) for _ in range(cnt)) or "-"
        if r.random() < 0.25: L.append("pnew")          # else the set works on the parameter left by the previous ones
        L.append("pset %s %s %s" % (ty, ",".join(map(str, dims)) or "-", vals))
        g.count("pset_%s_%dd_%s" % (ty, nd, "match" if cnt == prod else "mismatch"))
    # small shapes x EVERY count from 0 to twice the product + 2 (a count between the product and its double that every
    # dimension divides is where a division-based consistency test goes wrong)
    for dims in ([2, 2], [3, 3], [2, 4], [2, 2, 2], [2, 3], [4], [1, 5], [2, 0], [3, 1, 2], [6, 2], [2, 2, 3]):
        prod = 1
        for d in dims: prod *= d
        for cnt in range(0, 2 * prod + 3):
            for ty in ("I", "F", "C") if cnt % 3 == 0 or not ctx.quick else (("I", "F", "C")[cnt % 3],):
                if ty == "I": vals = ",".join(str((7 * k) % 100) for k in range(cnt)) or "-"
                elif ty == "F": vals = ",".join("3f800000" for _ in range(cnt)) or "-"
                else: vals = ",".join(gen.xhex(b"s%d" % k) for k in range(cnt)) or "-"
                L.append("pnew"); L.append("pset %s %s %s" % (ty, ",".join(map(str, dims)), vals))
                g.count("pset_sweep_%s" % ("match" if cnt == prod else "mismatch"))
    # overflow shapes (size_t product wraps only beyond 2^64: must be refused when the count differs)
    for dims in ("128,128,128,128,128", "65536,65536", "4294967296,4294967296", "255,255,255,255,255,255,255"):
        L.append("pset I %s -" % dims); L.append("pset F %s 3f800000" % dims)
    return [(L, g.stats, "pset")]

def standalone_scripts(ctx):
    """C09: the parameter classes used on their own: groups built through Group::parameter (incl. refused untyped parameters),
    merged into a Parameters object through Parameters::group (new names, existing names, duplicate names: the LAST one takes
    the merge), the non-const accessors at and beyond the size"""
    out = []
    X = gen.xhex
    n = 12 if ctx.quick else 300
    for i in range(n):
        r = random.Random(ctx.seed * 389 + i); g = gen.G(ctx.seed * 389 + i)
        L = ["sa pnew"]
        names = [b"POINT", b"ANALOG", b"EXTRA", b"extra", b"NEW1", b"FORCE_PLATFORM", b"E2"]
        for k in range(r.randint(2, 6)):
            gname = r.choice(names)
            L.append("sa gnew %s %s %s" % (X(gname), X(g.simple_name(b"d") if r.random() < 0.5 else b""), r.choice("01")))
            for _ in range(r.randint(0, 4)):
                ty = r.choice("IFCN" if r.random() < 0.15 else "IFC")
                pname = r.choice([b"USED", b"RATE", b"LABELS", b"A", b"B", b"a"])
                if ty == "N": L.append("sa gparam %s x 0 N - -" % X(pname))
                elif ty == "I": L.append("sa gparam %s %s %s I - %s" % (X(pname), X(b"dd"), r.choice("01"), ",".join(str(r.randint(-5, 5)) for _ in range(r.randint(1, 3)))))
                elif ty == "F": L.append("sa gparam %s x 0 F - %s" % (X(pname), ",".join(g.fbits() for _ in range(r.randint(1, 2)))))
                else: L.append("sa gparam %s x 0 C - %s" % (X(pname), ",".join(X(g.simple_name(b"s")) for _ in range(r.randint(1, 2)))))
            for idx in (0, 1, 5, 2**32, 2**64 - 1): L.append("sa gparamnc %d" % idx)
            L.append("sa pgroup")
            for idx in (0, 2, 3, 9, 2**64 - 1): L.append("sa pgroupnc %d" % idx)
        # look-ups by name interleaved with in-place renames (a name moving to an EARLIER group, duplicates, a name vanishing)
        for nm in (b"EXTRA", b"POINT", b"FORCE_PLATFORM", b"nope"):
            L.append("sa pgroupidx %s" % X(nm)); L.append("sa pgroupn %s" % X(nm))
        L += ["sa prename 0 %s" % X(b"FORCE_PLATFORM"), "sa pgroupidx %s" % X(b"FORCE_PLATFORM"), "sa pgroupn %s" % X(b"FORCE_PLATFORM"),
              "sa pgroupidx %s" % X(b"POINT"), "sa prename 2 %s" % X(b"MOVED"), "sa pgroupidx %s" % X(b"FORCE_PLATFORM"), "sa pgroupidx %s" % X(b"MOVED"),
              "sa prename 1 %s" % X(b"MOVED"), "sa pgroupidx %s" % X(b"MOVED"), "sa pgroupn %s" % X(b"MOVED"), "sa prename 99 %s" % X(b"x"),
              "sa gnew %s x" % X(b"MOVED"), "sa gparam %s x 0 I - 7" % X(b"Z"), "sa pgroup", "sa pgroupidx %s" % X(b"MOVED")]
        out.append((L, {"standalone": 1}, "standalone-%d" % i))
    return out

def loaded_param_scripts(ctx):
    """C09 on objects that come from a FILE (sparse group ids leave unnamed placeholder groups in the table; byte-typed
    parameters only exist there): a parameter added to a group that does not exist yet, to an existing group, and stored
    parameters copied, re-typed through the setters and handed back"""
    from . import c3dgen
    out = []
    X = gen.xhex
    n = 16 if ctx.quick else 400
    d = os.path.join(run.WORKROOT, "c09files-%d-%d" % (os.getpid(), ctx.seed)); os.makedirs(d, exist_ok=True)
    ctx._tmpdirs = getattr(ctx, "_tmpdirs", []) + [d]
    for i in range(n):
        seed = ctx.seed * 431 + i
        r = random.Random(seed); g = gen.G(seed)
        path = os.path.join(d, "in%d.c3d" % i)
        desc, content = c3dgen.make_file(seed, path)
        gname = {gid: nm for gid, nm, lk, ds in content["groups"]}
        L = ["load %s" % path, "dump"]
        L.append("param %s %s x 0 I - 1,2,3" % (X(b"BRANDNEW"), X(b"first")))              # a group that does not exist yet
        L.append("param %s %s x 1 F - %s" % (X(b"BRANDNEW"), X(b"second"), g.fbits()))
        extra = [p for p in content["params"] if gname.get(p[0]) not in (b"POINT", b"ANALOG")]
        r.shuffle(extra)
        for p in extra[:4]:
            gid, pname, lk, ty, dims, vals, pdesc = p
            L.append("pload %s %s" % (X(gname[gid]), X(pname)))
            newty = r.choice("IFC")
            if newty == "I": L.append("pset I - %s" % ",".join(str(r.randint(-9, 9)) for _ in range(r.randint(1, 3))))
            elif newty == "F": L.append("pset F - %s" % g.fbits())
            else: L.append("pset C - %s" % X(g.simple_name(b"s")))
            L.append("pput %s" % X(gname[gid]))
            L.append("get paramn %s %s" % (X(gname[gid]), X(pname)))
        if extra:
            gid = extra[0][0]
            L.append("param %s %s x 0 C - %s" % (X(gname[gid]), X(b"ADDED"), X(b"v")))     # an existing (possibly high-id) group
        out.append((L, {"loaded_param": 1}, "loaded-param-%d" % i))
    return out

def c09(ctx):
    orc = lambda res: oracles.c09(res) + oracles.c09_standalone(res)
    return check_api_property(ctx, orc, 160, 4000, extra=lambda c: pset_scripts(c) + standalone_scripts(c) + loaded_param_scripts(c))

def get_scripts(ctx):
    """C11: every container at sizes 0..6, indices {0..size-1,size,size+1,2^32,2^64-1}, names present/absent/case/space variants"""
    out = []
    r = random.Random(ctx.seed + 5)
    big = [2**32, 2**64 - 1]
    sizes = range(0, 5) if ctx.quick else range(0, 7)
    for np_ in sizes:
        for nc in ([0, 2] if ctx.quick else [0, 1, 3]):
            for nf in ([0, 1, 3] if ctx.quick else [0, 1, 2, 4]):
                g = gen.G(ctx.seed * 31 + np_ * 7 + nc * 3 + nf)
                L = ["new"]
                pn = [b"P%d" % i + (b"x" if i % 2 else b"Y") for i in range(np_)]
                cn = [b"c%d" % i for i in range(nc)]
                for n_ in pn: L.append("point " + gen.xhex(n_ + b"  "))     # declared with trailing spaces
                for n_ in cn: L.append("analog " + gen.xhex(n_))
                L.append("param %s %s x 0 F - %s" % (gen.xhex(b"POINT"), gen.xhex(b"RATE"), gen.f2h(100.0)))
                nsub = 2
                L.append("param %s %s x 0 F - %s" % (gen.xhex(b"ANALOG"), gen.xhex(b"RATE"), gen.f2h(200.0)))
                L.append("param %s %s %s 1 C 2 %s" % (gen.xhex(b"GRP"), gen.xhex(b"Strs"), gen.xhex(b"d"), "x6161,x62"))
                L.append("param %s %s x 0 I 3 1,-2,3" % (gen.xhex(b"GRP"), gen.xhex(b"ints")))
                for f in range(nf):
                    p, s = gen.frame_spec(g, [n_ + b" " for n_ in pn], cn, nsub if cn else 0)
                    L.append("mkframe v%d %s %s" % (f, p, s)); L.append("frame v%d" % f)
                L.append("dump")
                idxs = lambda n: list(range(n)) + [n, n + 1] + big
                for i in idxs(nf):
                    L.append("get frame %d" % i)
                for fi in ([0, nf] if nf else [0]):
                    for i in idxs(np_): L.append("get point %d %d" % (fi, i)); L.append("get ncpoint %d %d" % (fi, i))
                    for key in pn[:2] + [b"nope", b"p0y", b"P0Y ", b""]:
                        L.append("get pointn %d %s" % (fi, gen.xhex(key))); L.append("get pointidx %d %s" % (fi, gen.xhex(key)))
                        L.append("get ncpointn %d %s" % (fi, gen.xhex(key)))
                    for k in idxs(nsub if (cn and nf) else 0):
                        L.append("get sub %d %d" % (fi, k)); L.append("get ncsub %d %d" % (fi, k))
                    for i in idxs(nc):
                        L.append("get chan %d 0 %d" % (fi, i)); L.append("get ncchan %d 0 %d" % (fi, i))
                    for key in cn[:2] + [b"C0", b"zz"]:
                        L.append("get chann %d 0 %s" % (fi, gen.xhex(key))); L.append("get chanidx %d 1 %s" % (fi, gen.xhex(key)))
                        L.append("get ncchann %d 0 %s" % (fi, gen.xhex(key)))
                # look-ups interleaved with renames of stored elements (a name moving to an EARLIER position, duplicates, a name vanishing)
                if nf and np_ >= 2:
                    X_ = gen.xhex
                    last = pn[np_ - 1]
                    L += ["get pointidx 0 %s" % X_(last), "get pointn 0 %s" % X_(last), "smut 0 ptname 0 %s" % X_(last + b"  "),
                          "get pointidx 0 %s" % X_(last), "get pointn 0 %s" % X_(last), "get pointidx 0 %s" % X_(pn[0]),
                          "smut 0 ptname %d %s" % (np_ - 1, X_(b"moved")), "get pointidx 0 %s" % X_(last), "get pointidx 0 %s" % X_(b"moved"),
                          "smut 0 ptname 0 %s" % X_(b"gone"), "get pointidx 0 %s" % X_(last), "get pointn 0 %s" % X_(last)]
                    # ... and renames THROUGH THE BY-NAME HANDLE (`point_nonConst(name).name(new)`) between by-name look-ups of both names
                    a = pn[1] if np_ > 2 else b"moved"
                    L += ["get pointidx 0 %s" % X_(a), "get pointn 0 %s" % X_(a), "smut 0 ptnname %s %s" % (X_(a), X_(b"byname")),
                          "get pointidx 0 %s" % X_(a), "get pointn 0 %s" % X_(a), "get pointidx 0 %s" % X_(b"byname"), "get pointn 0 %s" % X_(b"byname"),
                          "smut 0 ptnname %s %s" % (X_(b"byname"), X_(b"gone")), "get pointidx 0 %s" % X_(b"gone"), "get pointidx 0 %s" % X_(b"byname"),
                          "smut 0 ptnname %s %s" % (X_(b"nosuch"), X_(b"x"))]
                if nf and nc >= 2:
                    X_ = gen.xhex
                    last = cn[nc - 1]
                    L += ["get chanidx 0 1 %s" % X_(last), "get chann 0 1 %s" % X_(last), "smut 0 chname 1 0 %s" % X_(last),
                          "get chanidx 0 1 %s" % X_(last), "get chann 0 1 %s" % X_(last), "get chanidx 0 0 %s" % X_(last),
                          "smut 0 chname 1 %d %s" % (nc - 1, X_(b"moved")), "get chanidx 0 1 %s" % X_(last), "smut 0 chname 1 0 %s" % X_(b"gone"),
                          "get chanidx 0 1 %s" % X_(last), "get chann 0 1 %s" % X_(last)]
                    a = cn[1] if nc > 2 else b"moved"
                    L += ["get chanidx 0 1 %s" % X_(a), "smut 0 chnname 1 %s %s" % (X_(a), X_(b"byname")), "get chanidx 0 1 %s" % X_(a), "get chann 0 1 %s" % X_(a),
                          "get chanidx 0 1 %s" % X_(b"byname"), "get chann 0 1 %s" % X_(b"byname"), "smut 0 chnname 1 %s %s" % (X_(b"byname"), X_(b"gone")),
                          "get chanidx 0 1 %s" % X_(b"gone"), "get chanidx 0 1 %s" % X_(b"byname")]
                for i in idxs(4): L.append("get group %d" % i)
                for key in [b"POINT", b"point", b"GRP", b"GRP ", b"ANALOG", b"none"]:
                    L.append("get groupn %s" % gen.xhex(key)); L.append("get groupidx %s" % gen.xhex(key))
                for gi in (0, 3, 4, 2**64 - 1):
                    for i in idxs(2 if gi == 3 else 8): L.append("get param %d %d" % (gi, i))
                    for key in [b"USED", b"used", b"Strs", b"STRS", b"ints", b""]: L.append("get paramidx %d %s" % (gi, gen.xhex(key)))
                for key in [(b"POINT", b"USED"), (b"POINT", b"NOPE"), (b"NOPE", b"USED"), (b"GRP", b"ints")]:
                    L.append("get paramn %s %s" % (gen.xhex(key[0]), gen.xhex(key[1])))
                for gi, pi in ((0, 0), (0, 1), (0, 5), (3, 0), (3, 1), (1, 4)):
                    for ty in "BIFC": L.append("get vals %d %d %s" % (gi, pi, ty))
                for i in idxs(18): L.append("get evtime %d" % i); L.append("get evlabel %d" % i)
                for i in idxs(9): L.append("get evdisplay %d" % i)
                out.append((L, {"grid_np%d_nc%d_nf%d" % (np_, nc, nf): 1}, "get-%d-%d-%d" % (np_, nc, nf)))
    return out

def c11(ctx):
    ctx.audit = leanaudit.audit(ctx.pid, thorough=not ctx.quick)
    scripts = corpus_scripts(ctx.pid) + get_scripts(ctx) + standalone_scripts(ctx)     # look-ups on the stand-alone parameter classes too
    _run_scripts(ctx, scripts, "get", lambda res: oracles.c11(res) + oracles.c09_standalone(res))
    # loaded vendor file: containers filled by the reader (byte-typed values, events)
    L = ["dumpmode shape", "load /repo/test/c3dFiles/Vicon.c3d", "dumpmode full"]
    for i in [0, 1, 579, 580, 581, 2**32, 2**64 - 1]: L.append("get frame %d" % i)
    for i in [0, 50, 51, 52, 2**64 - 1]: L.append("get point 0 %d" % i); L.append("get chan 0 0 %d" % i)
    _run_scripts(ctx, [(L, {}, "vicon")], "get-file", None)
    # containers filled by the reader: byte-typed parameters, padded strings, sparse groups - every typed getter on every parameter
    from . import c3dgen
    def onef(i):
        wd = run.workdir(); pth = os.path.join(wd, "in.c3d")
        desc, _ = c3dgen.make_file(ctx.seed * 17 + i, pth)
        S = ["dumpmode full", "load %s" % pth]
        for g in range(0, 42):
            for pi in range(0, 8):
                for ty in "BIFC": S.append("get vals %d %d %s" % (g, pi, ty))
            S.append("get group %d" % g)
        # header events exist only in files (0, 1, 3 or all 18 slots used): every slot of the three tables, and beyond
        for i_ in list(range(19)) + [2**32, 2**64 - 1]:
            S.append("get evtime %d" % i_); S.append("get evlabel %d" % i_)
            if i_ < 10 or i_ > 18: S.append("get evdisplay %d" % i_)
        res = run.run_pair(S, ctx.exe("asan"), wd=wd)
        fails = oracles.c11(res)
        run.cleanup(wd)
        return desc, S, res, fails
    for desc, S, res, fails in core.pmap(onef, range(12 if ctx.quick else 300)):
        ctx.record_pair(res, ["# generated file %s" % desc] + S[:2] + ["# ... get vals <g> <p> <B|I|F|C> for g < 42, p < 8"], "get-loaded")
        for clause, where, detail in fails: ctx.fail(clause, where, detail, ["# generated file (c3dgen seed %s)" % desc] + S)
    ctx.exhaustive = True
    if ctx.failures: _shrink_failures(ctx, oracles.c11, budget=1)
    return core.finish(ctx, "complete grid: container sizes x indices {0..size-1,size,size+1,2^32,2^64-1} x names {present, absent, case variant, space padded, empty} "
                       "for frames, points, sub-frames, channels, groups, parameters, header events, and every type x every value getter; "
                       "each look-up on the instrumented library, on the Lean model, and against the container content (oracle)")

CHECKS = {"C05": c05, "C06": c06, "C07": c07, "C08": c08, "C09": c09, "C10": c10, "C11": c11}

# ------------------------------------------------------------------------------------------ file properties
def _spec_after_saves(lines):
    """insert `specdecode` ops after every save so the Spec decoder's view is in the model stream"""
    out = []
    for l in lines:
        if l.startswith("save "): out.append("lwcheck")     # is the saving object inside the domain of the theorem load_write?
        out.append(l)
        if l.startswith("save "):
            p = l.split(" ")[1]
            out.append("specdecode %s float" % p); out.append("specdecode %s" % p)
    return out

def _file_oracle(kinds):
    """oracle over a run: C03 clauses at each save, C01 content equality across save->load, C04 generations"""
    def orc(res):
        out = []
        lines = res.script.split("\n")
        mem_at_save = {}
        last = None
        recs = list(oracles.Walk(res))
        mrec = {r_["n"]: r_ for r_ in res.mrecs}
        saved_dump = {}      # path -> dump of the object that saved it
        for i, (rec, t, prev, d, vars_) in enumerate(recs):
            if rec["op"] == "save" and rec["res"] == "R ok" and d is not None:
                path = t[1].replace("@W@", res.wd)
                saved_dump[t[1]] = d
                lw = mrec.get(rec["n"] - 1)
                if "C01" in kinds and lw and lw["op"] == "lwcheck":
                    v = (lw["res"] or "") + " " + " ".join(lw["lines"])
                    if " hyps=true" in v:
                        out.append(("_c01_saves_inside_load_write_domain", {}, ""))
                        if "frames_identical=true" in v: out.append(("_c01_saves_inside_domain_frames_identical", {}, ""))
                        if "concl=true" not in v: out.append(("theorem_instance", {"op": rec["n"]}, "the model state meets the hypotheses of load_write but not its conclusion: " + v))
                    elif " hyps=false" in v: out.append(("_c01_saves_outside_load_write_domain", {}, ""))
                if "C03" in kinds and lw and lw["op"] == "lwcheck":
                    v = (lw["res"] or "") + " " + " ".join(lw["lines"])
                    if "sd_hyps=true" in v:
                        out.append(("_c03_saves_inside_spec_decode_domain", {}, ""))
                        if "sd_concl=true" not in v: out.append(("theorem_instance", {"op": rec["n"]}, "the model state meets the hypotheses of spec_decode_write but Spec.decode of the model's bytes is not specContent: " + v))
                    elif "sd_hyps=false" in v: out.append(("_c03_saves_outside_spec_decode_domain", {}, ""))
                if "C03" in kinds:
                    sf = mrec.get(rec["n"] + 1); ss = mrec.get(rec["n"] + 2)
                    specf = oracles.parse_spec(sf["lines"]) if sf and sf["res"] == "R ok" else None
                    spec = oracles.parse_spec(ss["lines"]) if ss and ss["res"] == "R ok" else None
                    try: fb = open(path, "rb").read()
                    except Exception: fb = b""
                    out.append(("_c03_files_decoded", {}, ""))
                    for clause, where, detail in oracles.c03_clauses(d, spec, specf, fb):
                        where = dict(where); where["op"] = rec["n"]
                        out.append((clause, where, detail))
            elif rec["op"] == "load" and t[1] in saved_dump and "C01" in kinds:
                before = saved_dump[t[1]]
                if rec["res"] != "R ok":
                    out.append(("reload", {"op": rec["n"], "got": rec["res"]}, "a file the library saved cannot be loaded back: %s" % rec["res"]))
                elif d is not None:
                    if not oracles.complete_frames(before):
                        out.append(("_c01_outside_domain_incomplete_frames", {}, "")); continue
                    out.append(("_c01_roundtrips_compared", {}, ""))
                    if before["NF"] > 0: out.append(("_c01_roundtrips_with_frames", {}, ""))
                    df = oracles.diff_content(oracles.content_view(before), oracles.content_view(d))
                    if df:
                        w = dict(df[2]); w["op"] = rec["n"]
                        out.append((df[0], w, df[1]))
        return out
    return orc

VALID_RULE = ("histories of valid calls only (declared points/channels, rates, parameters of every type with 0-7 dimensions incl. empty "
              "ones, descriptions 0-255, names <= 127, string values without trailing blanks/NUL, complete frames, lock toggles, appends and "
              "replacements) ending in save -> load -> save; the saved bytes are compared with the model's bytes, the reloaded object with the "
              "saving object, and the file is decoded by the independent Spec decoder (Lean) following only its own pointers")

def valid_scripts(ctx, n, nops=25, seed_off=0):
    out = []
    for i in range(n):
        seed = ctx.seed * 100003 + seed_off + i
        L, st = gen.gen_api_history(seed, nops=nops, malformed=0.0, with_io="@W@/f%d" % i, within_capacity=True, rep=True)
        out.append((_spec_after_saves(L), st, "valid-%d" % seed))
    return out

def residue_scripts(ctx, residues):
    """C03: sweep the parameter-section length through residues mod 512 by growing one description"""
    out = []
    base = 0
    for k in residues:
        L = ["new", "point x5031", "analog x4331", "param x504f494e54 x52415445 x 0 F - 42c80000", "param x414e414c4f47 x52415445 x 0 F - 43480000",
             "mkframe v x5031:3f8ccccd:40000000:40400000:3e800000 x4331:3f000000|x4331:bf000000", "frame v", "frame v",
             "param x4747 x5050 %s 0 I - 7" % gen.xhex(bytes([65 + (j % 26) for j in range(k % 256)])),
             "param x4747 x5151 %s 0 I - 8" % gen.xhex(bytes([97 + (j % 26) for j in range(255 if k >= 256 else 0)])),
             "save @W@/r.c3d", "load @W@/r.c3d", "save @W@/r2.c3d"]
        out.append((_spec_after_saves(L), {"residue_sweep": 1}, "residue-%d" % k))
    return out

def check_file_property(ctx, kinds, n_quick, n_thorough, extra=None):
    ctx.audit = leanaudit.audit(ctx.pid, thorough=not ctx.quick)
    n = n_quick if ctx.quick else n_thorough
    scripts = corpus_scripts(ctx.pid) + valid_scripts(ctx, n)
    if extra: scripts += extra(ctx)
    orc = _file_oracle(kinds)
    exe = ctx.exe("asan")
    def one(item):
        lines, st, tag = item
        res = run.run_pair(lines, exe, keep=True)
        try: fails = orc(res)
        except Exception:
            import traceback; fails = []; ctx.notes.append("oracle error %s: %s" % (tag, traceback.format_exc()[-500:]))
        run.cleanup(res.wd)
        return item, res, fails
    for (lines, st, tag), res, fails in core.pmap(one, scripts):
        ctx.merge_stats(st)
        ctx.record_pair(res, lines, "file")
        if len(ctx.samples) < 3: ctx.sample("[file] " + " ; ".join(l[:80] for l in lines[:10]))
        for clause, where, detail in fails:
            if clause.startswith("_"): ctx.count("oracle" + clause)
            else: ctx.fail(clause, where, detail, lines)
    return core.finish(ctx, VALID_RULE)

def big_record_scripts(ctx):
    """parameter records between 32 KB and 64 KB (the 16-bit next-record offset above its sign bit), large label tables"""
    X = gen.xhex; F = gen.f2h
    out = []
    for name, body in (("float-100x90", "param x4747 x42 x 0 F 100,90 %s" % ",".join(["3f8ccccd"] * 9000)),
                       ("int-128x128", "param x4747 x42 x 0 I 128,128 %s" % ",".join(str((i * 7) % 30000 - 15000) for i in range(16384))),
                       ("str-255x200", "param x4747 x42 x 0 C 255 %s" % ",".join(X(bytes(65 + (i + j) % 26 for j in range(200))) for i in range(255)))):
        L = ["new", "point x5031", "param x504f494e54 x52415445 x 0 F - %s" % F(100.0), "mkframe v x5031:3f8ccccd:40000000:40400000:3e800000 -", "frame v", "frame v",
             body, "param x4747 x43 x6465736372 1 I - 7", "save @W@/b.c3d", "load @W@/b.c3d", "save @W@/b2.c3d"]
        out.append((_spec_after_saves(L), {"big_record": 1}, "big-" + name))
    return out

def c01(ctx): return check_file_property(ctx, {"C01"}, 150, 4000, extra=lambda c: residue_scripts(c, list(range(512))) + big_record_scripts(c))
def loaded_resave_scripts(ctx, n):
    """C03 speaks of EVERY file the library saves: objects loaded from files of other layouts (parameter section not in
    block 2, leading zeros, sparse ids, extra blocks ...) and from the vendor files, saved again and decoded by the Spec"""
    from . import c3dgen
    d = run.workdir(); ctx._tmpdirs = getattr(ctx, "_tmpdirs", []) + [d]
    out = []
    for i in range(n):
        seed = ctx.seed * 7919 + 500000 + i
        path = os.path.join(d, "in%d.c3d" % i)
        desc, _ = c3dgen.make_file(seed, path, big=(i % 41 == 40))
        out.append((_spec_after_saves(["load %s" % path, "save @W@/s.c3d", "load @W@/s.c3d", "save @W@/s2.c3d"]), {"loaded_resave": 1, "layout_" + desc.split("_pad")[0]: 1}, "resave-%d-%s" % (seed, desc)))
    for v in ("Vicon.c3d", "Qualisys.c3d"):
        out.append((_spec_after_saves(["dumpmode full", "load /repo/test/c3dFiles/%s" % v, "save @W@/s.c3d"]), {"loaded_resave_vendor": 1}, "resave-" + v))
    return out

def c03(ctx):
    def extra(c):
        ratio = [(_spec_after_saves(L + ["save @W@/ratio.c3d"]), st, name) for L, st, name in ratio_scripts(c)]   # header words after sub-frame ratio changes
        return residue_scripts(c, list(range(512))) + loaded_resave_scripts(c, 60 if c.quick else 1500) + ratio
    return check_file_property(ctx, {"C03"}, 100, 2500, extra=extra)

CHECKS.update({"C01": c01, "C03": c03})

# ------------------------------------------------------------------------------------------ C02 / C04
FILE_RULE = ("well-formed little-endian float-format files written by an independent spec-level encoder (vlib/c3dgen.py) over layout variants "
             "{leading zeros 0/1/3/512, zeroed parameter prologue, parameter block 2/3/5, records groups-first/params-first/interleaved/shuffled, "
             "dense or sparse group ids, NUL or blank padded strings, extra zero blocks, labels fewer/more than points, empty ANALOG group, first frame >= 1, "
             "0-18 events} x content shapes (all four parameter types, 0-7 dimensions incl. empty, descriptions 0-255), plus the three vendor files of the test-suite; "
             "distinct = (layout description, outcome)")

def file_scripts(ctx, n, wd_tag="@W@"):
    out = []
    for i in range(n):
        seed = ctx.seed * 7919 + i
        out.append((seed, i))
    return out

def check_c02_c04(ctx, which, n_quick, n_thorough):
    from . import c3dgen
    ctx.audit = leanaudit.audit(ctx.pid, thorough=not ctx.quick)
    n = n_quick if ctx.quick else n_thorough
    exe = ctx.exe("asan")
    vendor = ["/repo/test/c3dFiles/Vicon.c3d", "/repo/test/c3dFiles/Qualisys.c3d"]
    jobs = [("gen", ctx.seed * 7919 + i) for i in range(n)] + [("vendor", v) for v in vendor]
    if which == "C04": jobs += [("sweep", j) for j in range(512)]      # every residue of the re-serialised parameter section
    def one(job):
        wd = run.workdir()
        kind, arg = job
        if kind == "gen":
            path = os.path.join(wd, "in.c3d"); desc, content = c3dgen.make_file(arg, path, big=(arg % 37 == 0), frac=(arg % 5 == 2))
            if arg % 5 == 2: desc += "_edge"      # broadcast rates (29.97 x 7 ...), last frame number 65535
        elif kind == "sweep":
            import random, struct
            r_ = random.Random(7)
            Ff = lambda v: struct.unpack("<I", struct.pack("<f", v))[0]
            L_ = c3dgen.Layout(r_); L_.lead_zeros = 0; L_.zero_prologue = False; L_.param_block = 2; L_.order = "groups_first"; L_.sparse_ids = False; L_.extra_blocks = 0; L_.pad_byte = 0x20
            groups = [(1, b"POINT", False, b""), (2, b"ANALOG", False, b""), (3, b"SWEEP", False, b"")]
            params = [(1, b"USED", False, "I", [], [1], b""), (1, b"SCALE", False, "F", [], [Ff(-1.0)], b""), (1, b"RATE", False, "F", [], [Ff(100.0)], b""),
                      (1, b"DATA_START", False, "I", [], [0], b""), (1, b"FRAMES", False, "I", [], [2], b""), (1, b"LABELS", False, "C", [2, 1], [b"P1"], b""),
                      (2, b"USED", False, "I", [], [0], b""), (2, b"RATE", False, "F", [], [Ff(100.0)], b""),
                      (3, b"A", False, "I", [], [7], bytes(65 + i % 26 for i in range(min(arg, 255)))), (3, b"B", False, "I", [], [8], bytes(97 + i % 26 for i in range(min(max(arg - 255, 0), 255)))),
                      (3, b"C", False, "I", [], [9], bytes(48 + i % 10 for i in range(max(arg - 510, 0))))]
            header = dict(points=1, analog_per_frame=0, first=1, last=2, gap=0, scale=Ff(-1.0), subframes=1, rate=Ff(100.0), events=[])
            frames = [([[Ff(1.1), Ff(2.2), Ff(3.3), Ff(0.5)]], [[]]), ([[Ff(4.4), Ff(5.5), Ff(6.6), Ff(0.25)]], [[]])]
            path = os.path.join(wd, "in.c3d"); b_, ds_ = c3dgen.encode(dict(groups=groups, params=params, header=header, frames=frames), L_, r_)
            bb = bytearray(b_); i_ = bb.find(b"DATA_START"); bb[i_ + 14:i_ + 16] = struct.pack("<H", ds_); open(path, "wb").write(bytes(bb))
            desc = "sweep-%d" % arg
        else:
            path = arg; desc = os.path.basename(arg)
        big = kind == "vendor"
        L = ["dumpmode full", "load %s" % path, "specdecode %s" % path, "save @W@/g2.c3d", "load @W@/g2.c3d", "save @W@/g3.c3d", "load @W@/g3.c3d", "save @W@/g4.c3d"]
        # C04: is the object the FIRST load returned inside the domain of the theorems C01.load_write / C04.resave_byte_identical
        # (the first generation as a theorem instance)? `lwcheck` goes last so that the op numbers above stay as they are
        if which == "C04": L = L[:2] + L[2:] ; L2 = ["dumpmode none", "load %s" % path, "lwcheck"]
        res = run.run_pair(L, exe, wd=wd, timeout=300)
        fails = []
        recs = res.hrecs; m = {r_["n"]: r_ for r_ in res.mrecs}
        if which == "C04" and len(recs) > 1 and recs[1]["res"] == "R ok":
            r2 = run.run_pair(L2, exe, wd=wd, timeout=300)
            lw = [x for x in r2.mrecs if x["op"] == "lwcheck"]
            v = ((lw[0]["res"] or "") + " " + " ".join(lw[0]["lines"])) if lw else ""
            if " hyps=true" in v:
                fails.append(("_c04_first_generation_inside_load_write_domain", {}, ""))
                if "concl=true" not in v: fails.append(("theorem_instance", {"layout": desc}, "the loaded object meets the hypotheses of load_write but not its conclusion: " + v))
            elif " hyps=false" in v: fails.append(("_c04_first_generation_outside_load_write_domain", {}, ""))
        try:
            d1 = run.parse_dump(recs[1]["lines"]) if len(recs) > 1 and recs[1]["res"] == "R ok" else None
            if which == "C02":
                sp = m.get(3)
                if d1 is None: fails.append(("load", {"layout": desc, "got": recs[1]["res"] if len(recs) > 1 else "?"}, "a well-formed file was refused: %s" % (recs[1]["res"] if len(recs) > 1 else "?")))
                elif sp is None or sp["res"] != "R ok": fails.append(("_spec_undecodable", {}, ""))
                else:
                    for clause, where, detail in oracles.c02_compare(d1, oracles.parse_spec(sp["lines"])):
                        where["layout"] = desc; fails.append((clause, where, detail))
            else:
                if d1 is None: fails.append(("_input_refused", {}, ""))
                else:
                    d2 = run.parse_dump(recs[4]["lines"]) if len(recs) > 4 and recs[4]["res"] == "R ok" else None
                    if recs[3]["res"] != "R ok": fails.append(("resave", {"got": recs[3]["res"]}, "saving a loaded file failed: %s" % recs[3]["res"]))
                    elif d2 is None: fails.append(("reload", {"got": recs[4]["res"], "layout": desc}, "the re-saved file cannot be loaded: %s" % recs[4]["res"]))
                    else:
                        df = oracles.diff_content(oracles.content_view(d1), oracles.content_view(d2))
                        if df: w = dict(df[2]); w["layout"] = desc; fails.append((df[0], w, df[1]))
                        ev1 = oracles.content_view(d1)["events"]; ev2 = oracles.content_view(d2)["events"]
                        if ev1 != ev2: fails.append(("events", {"layout": desc}, "header events changed across load -> save -> load"))
                        try:
                            b2 = open(os.path.join(wd, "g2.c3d"), "rb").read(); b3 = open(os.path.join(wd, "g3.c3d"), "rb").read(); b4 = open(os.path.join(wd, "g4.c3d"), "rb").read()
                            if b3 != b4: fails.append(("generation_bytes", {"layout": desc}, "generation 2 -> 3 saves are not byte-identical (first difference at offset %d)" % next((i for i, (x, y) in enumerate(zip(b3, b4)) if x != y), min(len(b3), len(b4)))))
                        except Exception as e: fails.append(("generation_bytes", {"layout": desc}, "missing generation file: %r" % e))
        except Exception:
            import traceback; ctx.notes.append("oracle error: " + traceback.format_exc()[-400:])
        run.cleanup(wd)
        return job, desc, L, res, fails
    for job, desc, L, res, fails in core.pmap(one, jobs):
        ctx.count("layout_" + desc.split("_pad")[0] if job[0] == "gen" else "vendor")
        ctx.distinct_key("layout", desc)
        ctx.record_pair(res, ["# input: %s %s (python3 -c \"from vlib import c3dgen; c3dgen.make_file(%s, 'in.c3d')\")" % (job[0], job[1], job[1])] + L, "file")
        if len(ctx.samples) < 3: ctx.sample("[%s] %s : %s" % (job[0], desc, " ; ".join(L)))
        for clause, where, detail in fails:
            if clause.startswith("_"): ctx.count("oracle" + clause)
            else: ctx.fail(clause, where, detail, ["# input file: seed %s layout %s" % (job[1], desc)] + L)
    return core.finish(ctx, FILE_RULE)

def c02(ctx): return check_c02_c04(ctx, "C02", 200, 6000)
def c04(ctx): return check_c02_c04(ctx, "C04", 200, 6000)
CHECKS.update({"C02": c02, "C04": c04})

# ------------------------------------------------------------------------------------------ C12
def c12_pattern_file(path, part, r):
    """files that carry every 8-bit value, every 16-bit value (3 parts) and a float grid in every float position"""
    import struct
    from . import c3dgen
    F = lambda v: struct.unpack("<I", struct.pack("<f", v))[0]
    grid = [(s << 31) | (e << 23) | m for e in range(256) for s in (0, 1) for m in (0, 1, 0x400000, 0x7fffff)]   # 2048 patterns
    L = c3dgen.Layout(r); L.lead_zeros = 0; L.zero_prologue = False; L.param_block = 2; L.order = "groups_first"; L.sparse_ids = False; L.extra_blocks = 0
    np_, nch, nsub = 4, 4, 2
    # every pattern of the grid in a POINT slot and in an ANALOG slot (two independent walks over the grid: a value that only
    # the channel storage alters - a signalling NaN quieted - must not hide in a point position)
    import itertools
    nfr = (len(grid) + nch * nsub - 1) // (nch * nsub)      # 256 frames: the analog walk covers the grid once, the point walk twice
    itp = itertools.cycle(grid); ita = itertools.cycle(grid)
    frames = [([[next(itp) for _ in range(4)] for _ in range(np_)], [[next(ita) for _ in range(nch)] for _ in range(nsub)]) for _ in range(nfr)]
    ints = list(range(-32768, 32768))
    chunk = ints[part * 22000:(part + 1) * 22000]
    first = [1, 2, 0x7F, 0x80, 0xFF, 0x100, 0x7FFF, 0x8000, 0xFFFE - nfr][part % 9] if part < 9 else 1
    groups = [(1, b"POINT", False, b""), (2, b"ANALOG", False, b""), (3, b"PAT", False, b"")]
    params = [(1, b"USED", False, "I", [], [np_], b""), (1, b"SCALE", False, "F", [], [F(-1.0)], b""), (1, b"RATE", False, "F", [], [F(100.0)], b""),
              (1, b"FRAMES", False, "I", [], [nfr], b""), (1, b"LABELS", False, "C", [2, np_], [b"P%d" % i for i in range(np_)], b""),
              (2, b"USED", False, "I", [], [nch], b""), (2, b"RATE", False, "F", [], [F(200.0)], b""), (2, b"LABELS", False, "C", [2, nch], [b"C%d" % i for i in range(nch)], b""),
              (3, b"BYTES", False, "B", [128, 2], list(range(-128, 128)), b""),
              (3, b"INTS", False, "I", [220, 100], chunk + [0] * (22000 - len(chunk)), b""),
              (3, b"FLOATS", False, "F", [64, 32], grid, b""),
              (3, b"ONEBYTE", False, "B", [], [[-128, -1, 0, 1, 127, 0x55 - 256 if 0x55 > 127 else 0x55][part % 6]], b""),
              (3, b"ONEINT", False, "I", [], [[-32768, -1, 0, 1, 32767, 256, 255, -256, -255][part % 9]], b"")]
    ev = [(grid[(part * 18 + i) * 7 % len(grid)], i % 2, b"E%d" % i) for i in range(18)]
    gap = [0, 1, 2, 0x7F, 0x80, 0xFF, 0x100, 0x7FFF, 0x8000, 0xFFFE, 0xFFFF][part % 11]
    header = dict(points=np_, analog_per_frame=nch * nsub, first=first, last=first + nfr - 1, gap=gap, scale=F(-1.0), subframes=nsub, rate=F(100.0), events=ev)
    b, ds = c3dgen.encode(dict(groups=groups, params=params, header=header, frames=frames), L, r)
    open(path, "wb").write(b)
    return "patterns-part%d" % part

def c12(ctx):
    ctx.audit = leanaudit.audit(ctx.pid, thorough=not ctx.quick)
    exe = ctx.exe("asan")
    # (1) the codec helpers on every 1- and 2-byte input (and boundary 3/4-byte inputs)
    L = ["new"]
    for v in range(256): L.append("hex2int x%02x" % v); L.append("hex2uint x%02x" % v)
    step = 1 if not ctx.quick else 1
    for v in range(0, 65536, step): L.append("hex2int x%02x%02x" % (v & 255, v >> 8)); L.append("hex2uint x%02x%02x" % (v & 255, v >> 8))
    for b4 in ("x00000000", "xffffff7f", "x00000080", "xffffffff", "x0000803f", "x000080bf", "x01000000", "xffff0000", "x000000", "xffffff", "x000080"):
        L.append("hex2int " + b4); L.append("hex2uint " + b4)
    res = run.run_pair(L, exe, timeout=300)
    ctx.record_pair(res, L[:5] + ["... (%d codec ops)" % (len(L) - 1)], "codec")
    ctx.sample("[codec] new ; hex2int x00 ; hex2uint x00 ; ... ; hex2int xffff ; hex2uint xffff (every 1- and 2-byte input)")
    # independent oracle: two's complement / unsigned little endian
    import struct
    lines = res.script.split("\n")
    bad = 0
    for rec in res.hrecs:
        if rec["op"] not in ("hex2int", "hex2uint"): continue
        t = lines[rec["n"] - 1].split(" ")
        raw = bytes.fromhex(t[1][1:])
        if len(raw) > 2 and rec["op"] == "hex2int" and len(raw) == 3: continue
        u = int.from_bytes(raw, "little")
        want = u if rec["op"] == "hex2uint" else (u - (1 << (8 * len(raw))) if u >= (1 << (8 * len(raw) - 1)) else u)
        ctx.distinct_key("codec", rec["op"], t[1])
        if rec["res"] != "V %d" % want:
            bad += 1
            if bad <= 3: ctx.fail("codec_" + rec["op"], {"bytes": t[1]}, "%s(%s) returned %s, the bytes encode %d" % (rec["op"], t[1], rec["res"], want), ["new", lines[rec["n"] - 1]])
    ctx.count("codec_inputs", len(L) - 1)
    # (2) files that carry every pattern: load, compare with the Spec decoder, re-save, compare again
    parts = range(3) if ctx.quick else range(12)
    def one(part):
        import random
        wd = run.workdir()
        path = os.path.join(wd, "pat.c3d")
        desc = c12_pattern_file(path, part % 3 if part < 3 else part, random.Random(ctx.seed + part)) if part < 3 else c12_pattern_file(path, part, random.Random(ctx.seed + part))
        S = ["dumpmode full", "load %s" % path, "specdecode %s" % path, "save @W@/p2.c3d", "specdecode @W@/p2.c3d", "load @W@/p2.c3d"]
        r_ = run.run_pair(S, exe, wd=wd, timeout=300)
        fails = []
        m = {x["n"]: x for x in r_.mrecs}
        try:
            d1 = run.parse_dump(r_.hrecs[1]["lines"]); sp1 = oracles.parse_spec(m[3]["lines"])
            for c, w, dt in oracles.c02_compare(d1, sp1): fails.append(("load_" + c, w, dt))
            sp2 = oracles.parse_spec(m[5]["lines"])
            pv = lambda sp: [(p["gid"], p["name"], p["type"], p["dims"], p["vals"]) for p in sp["params"] if p["name"] != "x" + b"DATA_START".hex()]
            if pv(sp1) != pv(sp2): fails.append(("resave_params", {}, "parameter values of the re-saved file differ from the original file"))
            if sp1["frames"] != sp2["frames"]: fails.append(("resave_frames", {}, "float patterns in the data section changed through load -> save"))
            hv = lambda sp: (sp["H"]["first"], sp["H"]["last"], sp["H"]["gap"], sp["H"]["rate"], sp["evTimes"], sp["evDisplay"])
            if hv(sp1) != hv(sp2): fails.append(("resave_header", {}, "header words changed through load -> save: %s vs %s" % (hv(sp1)[:4], hv(sp2)[:4])))
            d3 = run.parse_dump(r_.hrecs[5]["lines"])
            df = oracles.diff_content(oracles.content_view(d1), oracles.content_view(d3))
            if df: fails.append(("reload_" + df[0], df[2], df[1]))
        except Exception:
            import traceback; fails.append(("_oracle_error", {}, traceback.format_exc()[-300:]))
        run.cleanup(wd)
        return part, S, r_, fails
    for part, S, r_, fails in core.pmap(one, parts):
        ctx.record_pair(r_, ["# pattern file part %d (props.c12_pattern_file)" % part] + S, "patterns")
        for c, w, dt in fails:
            if c.startswith("_"): ctx.notes.append(dt)
            else: ctx.fail(c, w, dt, ["# pattern file part %d" % part] + S)
    ctx.exhaustive = True
    ctx.sample("[patterns] file with BYTES[128,2] = -128..127, INTS[220,100] = one third of -32768..32767, FLOATS[64,32] = exponent x sign x {0,1,0x400000,0x7fffff} mantissa grid, the same grid as points/residuals/analog samples/event times")
    return core.finish(ctx, "exhaustive: hex2int/hex2uint on all 2^8 one-byte and all 2^16 two-byte inputs (library, model and a two's-complement oracle); "
                       "files carrying every 8-bit value as byte parameter, every 16-bit value as integer parameter, and 2048 float patterns "
                       "(every exponent x both signs x mantissas 0, 1, 0x400000, 0x7fffff: zeros, denormals, infinities, quiet/signalling NaNs) as float parameter, "
                       "point coordinates, residuals, analog samples and event times; header words at boundary values; each loaded, compared with the Spec decode, re-saved and compared again")

CHECKS.update({"C12": c12})

# ------------------------------------------------------------------------------------------ C17
def c17_cases(ctx):
    """(name, limit_kind, relation in {'below','at','beyond'}, script lines)"""
    X = gen.xhex; F = gen.f2h
    cases = []
    def build(name, kind, rel, body, pre=()):
        L = ["new"] + list(pre) + body + ["save @W@/l.c3d", "load @W@/l.c3d"]
        cases.append((name, kind, rel, L))
    def rel(v, lim): return "below" if v < lim else "at" if v == lim else "beyond"
    for n in (254, 255, 256, 300, 511):
        build("param-desc-%d" % n, "description", rel(n, 255), ["param x4747 x5050 %s 0 I - 7" % X(bytes(65 + i % 26 for i in range(n)))])
        build("group-desc-via-load-%d" % n, "description", rel(n, 255), [])   # groups get descriptions only from files; see file cases
    for n in (126, 127, 128, 200, 255, 256):
        build("param-name-%d" % n, "name", rel(n, 127), ["param x4747 %s x 0 I - 7" % X(bytes(65 + i % 26 for i in range(n)))])
        build("group-name-%d" % n, "name", rel(n, 127), ["param %s x5050 x 0 I - 7" % X(bytes(65 + i % 26 for i in range(n)))])
    for n in (254, 255, 256, 257, 600):
        build("dim-entry-int-%d" % n, "dimension", rel(n, 255), ["param x4747 x5050 x 0 I %d %s" % (n, ",".join(str(i % 100) for i in range(n)))])
        build("dim-entry-str-%d" % n, "dimension", rel(n, 255), ["param x4747 x5353 x 0 C - %s" % X(bytes(66 + i % 20 for i in range(n)))])   # string length = first dimension
    for n in (7, 8, 20):
        build("ndims-%d" % n, "ndims", "at" if n <= 7 else "beyond-spec", ["param x4747 x5050 x 0 F %s 3f800000" % ",".join(["1"] * n)])
    for v in (32766, 32767, 32768, -32768, -32769, 65535, 65536, 100000):
        build("int-value-%d" % v, "int16", "beyond" if (v > 32767 or v < -32768) else "at" if v in (32767, -32768) else "below", ["param x4747 x5050 x 0 I - 1,%d,2" % v])
    for n in (254, 255, 256):
        pre = ["point %s" % X(b"P%03d" % i) for i in range(n)] + ["param x504f494e54 x52415445 x 0 F - %s" % F(100.0)]
        fr = "mkframe v %s -" % ";".join("%s:%s:%s:%s:%s" % (X(b"P%03d" % i), F(float(i)), F(1.0), F(2.0), F(0.5)) for i in range(n))
        build("points-%d" % n, "points", rel(n, 255), [fr, "frame v", "frame v"], pre)
        pre = ["analog %s" % X(b"C%03d" % i) for i in range(n)] + ["param x504f494e54 x52415445 x 0 F - %s" % F(100.0), "param x414e414c4f47 x52415445 x 0 F - %s" % F(100.0)]
        fr = "mkframe v - %s" % ";".join("%s:%s" % (X(b"C%03d" % i), F(float(i))) for i in range(n))
        build("channels-%d" % n, "channels", rel(n, 255), [fr, "frame v", "frame v"], pre)
    # record size (16-bit next offset) and parameter block count (8 bit)
    for d0, d1, r_ in ((127, 128, "below"), (127, 129, "beyond"), (200, 200, "beyond")):   # 4 bytes each + 8 bytes of record overhead after the offset
        build("record-bytes-%d" % (d0 * d1 * 4 + 8), "record", r_, ["param x4747 x5050 x 0 F %d,%d %s" % (d0, d1, ",".join(["3f800000"] * (d0 * d1)))])
    pre = ["point x50", "param x504f494e54 x52415445 x 0 F - %s" % F(100.0), "mkframe v x50:3f800000:40000000:40400000:00000000 -", "frame v", "frame v"]
    for nparams, r_ in ((1, "below"), (2, "at"), (3, "beyond"), (5, "beyond")):        # 64 KB each: 2 -> 254 blocks, 3 -> 379 blocks
        body = ["param x4747 %s x 0 F 127,128 %s" % (X(b"Q%d" % i), ",".join(["3f800000"] * 16256)) for i in range(nparams)]
        build("param-blocks-%dx64k" % nparams, "blocks", r_, body, pre)
    if True:
        for n in ((32767, 32768) if ctx.quick else (32766, 32767, 32768, 40000)):
            pre = ["point x50", "param x504f494e54 x52415445 x 0 F - %s" % F(100.0), "dumpmode none", "mkframe v x50:3f800000:40000000:40400000:00000000 -"]
            build("frames-%d" % n, "frames", rel(n, 32767), ["frame v"] * n + ["dumpmode full", "dump"], pre)
    return [c for c in cases if c[3][1:-2] or True]

def c17(ctx):
    from . import c3dgen
    ctx.audit = leanaudit.audit(ctx.pid, thorough=not ctx.quick)
    exe = ctx.exe("asan")
    cases = [c for c in c17_cases(ctx) if "via-load" not in c[0]]
    def one(case):
        name, kind, rel, L = case
        res = run.run_pair(L, exe, keep=False, timeout=600)
        recs = res.hrecs
        fails = []
        try:
            walk = list(oracles.Walk(res))
            sv = [(rec, d) for rec, t, prev, d, vars_ in walk if rec["op"] == "save"]
            ld = [(rec, d) for rec, t, prev, d, vars_ in walk if rec["op"] == "load"]
            before = None
            for rec, t, prev, d, vars_ in walk:
                if rec["op"] == "save": before = prev if d is None else d
            if not sv: return case, res, [("_nosave", {}, "")]
            srec = sv[-1][0]; lrec = ld[-1][0] if ld else None
            if srec["res"] != "R ok":
                if rel in ("below", "at"): fails.append(("at_limit_refused", {"case": name, "kind": kind}, "content at or below the limit was refused by save: %s" % srec["res"]))
                return case, res, fails            # beyond the limit and refused: fine
            after = ld[-1][1] if ld else None
            same = None
            if lrec is None or lrec["res"] != "R ok" or after is None: same = False; why = "the saved file does not load (%s)" % (lrec["res"] if lrec else "?")
            else:
                df = oracles.diff_content(oracles.content_view(before), oracles.content_view(after))
                same = df is None; why = df[1] if df else ""
            if not same:
                clause = "at_limit_roundtrip" if rel in ("below", "at") else "beyond_limit_silent"
                outcome = "unreadable" if (lrec is None or lrec["res"] != "R ok" or after is None) else "differs"
                fails.append((clause, {"case": name, "kind": kind, "rel": rel, "outcome": outcome}, "%s content (%s) was saved without error but %s" % (rel, name, why)))
        except Exception:
            import traceback; fails.append(("_oracle_error", {}, traceback.format_exc()[-400:]))
        return case, res, fails
    for case, res, fails in core.pmap(one, cases, workers=8):
        name, kind, rel, L = case
        ctx.count("limit_%s_%s" % (kind, rel))
        ctx.distinct_key("limit", name)
        ctx.record_pair(res, L if len(L) < 400 else L[:6] + ["# ... %d lines ..." % len(L)] + L[-4:], "limits")
        if len(ctx.samples) < 4: ctx.sample("[%s %s] %s" % (kind, rel, " ; ".join(l[:60] for l in L[:4]) + " ; ... ; save ; load"))
        for c, w, dt in fails:
            if c.startswith("_"): ctx.notes.append("%s: %s" % (name, dt)) if dt else None
            else: ctx.fail(c, w, dt, L)
    # limits reachable only through a loaded file: last frame number 65535, 255-character group description, 32767 frames
    def filecase(spec):
        import random, struct
        tag, first, nfr, gdesc = spec
        r = random.Random(ctx.seed)
        wd = run.workdir(); path = os.path.join(wd, "in.c3d")
        Ff = lambda v: struct.unpack("<I", struct.pack("<f", v))[0]
        L_ = c3dgen.Layout(r); L_.lead_zeros = 0; L_.zero_prologue = False; L_.param_block = 2; L_.order = "groups_first"; L_.sparse_ids = False; L_.extra_blocks = 0
        groups = [(1, b"POINT", False, bytes(65 + i % 26 for i in range(gdesc))), (2, b"ANALOG", False, b"")]
        params = [(1, b"USED", False, "I", [], [1], b""), (1, b"SCALE", False, "F", [], [Ff(-1.0)], b""), (1, b"RATE", False, "F", [], [Ff(100.0)], b""),
                  (1, b"FRAMES", False, "I", [], [nfr if nfr < 32768 else nfr - 65536], b""), (1, b"LABELS", False, "C", [1, 1], [b"P"], b""),
                  (2, b"USED", False, "I", [], [0], b""), (2, b"RATE", False, "F", [], [Ff(100.0)], b""), (2, b"LABELS", False, "C", [1, 0], [], b"")]
        header = dict(points=1, analog_per_frame=0, first=first, last=first + nfr - 1, gap=0, scale=Ff(-1.0), subframes=1, rate=Ff(100.0), events=[])
        frames = [([[Ff(float(i % 1000)), 1, 2, 3]], [[]]) for i in range(nfr)]
        b, ds = c3dgen.encode(dict(groups=groups, params=params, header=header, frames=frames), L_, r)
        open(path, "wb").write(b)
        S = ["dumpmode full", "load %s" % path, "save @W@/o.c3d", "load @W@/o.c3d", "specdecode %s" % path]
        res = run.run_pair(S, exe, wd=wd, timeout=600)
        fails = []
        try:
            d1 = run.parse_dump(res.hrecs[1]["lines"]) if res.hrecs[1]["res"] == "R ok" else None
            # what was loaded is what the file says (frame numbers included): both generations renumbered alike would compare equal below
            sp = [x for x in res.mrecs if x["op"] == "specdecode"]
            if d1 is not None and sp and sp[0]["res"] == "R ok":
                for c_, w_, dt_ in oracles.c02_compare(d1, oracles.parse_spec(sp[0]["lines"])):
                    fails.append(("at_limit_load", dict(w_, case=tag, kind="file", clause=c_), "%s: %s" % (tag, dt_)))
            d2 = run.parse_dump(res.hrecs[3]["lines"]) if len(res.hrecs) > 3 and res.hrecs[3]["res"] == "R ok" else None
            if d1 is None: fails.append(("_input_refused", {}, res.hrecs[1]["res"]))
            elif res.hrecs[2]["res"] == "R ok":
                df = ("reload", "re-saved file does not load", {}) if d2 is None else oracles.diff_content(oracles.content_view(d1), oracles.content_view(d2))
                if df: fails.append(("at_limit_roundtrip", {"case": tag, "kind": "file"}, "%s: %s" % (tag, df[1])))
        except Exception:
            import traceback; fails.append(("_oracle_error", {}, traceback.format_exc()[-300:]))
        run.cleanup(wd)
        return spec, S, res, fails
    fcases = [("last-frame-65535", 65535 - 9, 10, 0), ("group-desc-255", 1, 2, 255), ("group-desc-254", 1, 2, 254), ("frames-32767-file", 1, 32767, 0), ("frames-32766-file", 1, 32766, 0)]
    for spec, S, res, fails in core.pmap(filecase, fcases, workers=5):
        ctx.count("limit_file_" + spec[0]); ctx.distinct_key("limit", spec[0])
        ctx.record_pair(res, ["# generated file %s (first frame %d, %d frames, group description %d chars)" % spec] + S, "limits-file")
        for c, w, dt in fails:
            if c.startswith("_"): ctx.notes.append("%s: %s" % (spec[0], dt))
            else: ctx.fail(c, w, dt, ["# generated file %s" % (spec,)] + S)
    return core.finish(ctx, "for each capacity limit L of the format (description 255, name 127, dimension entry 255, dimensions 7, 16-bit integer values, 255 points, 255 channels, "
                       "record 65535 bytes, 255 parameter blocks, 32767 frames, last frame number 65535): content at L-1, L, L+1 and far beyond, built through the API (or a generated file where "
                       "the API cannot produce it), saved, reloaded and compared; at/below the limit the content must survive; beyond it save must throw or the file must still load to the same content")

CHECKS.update({"C17": c17})

# ------------------------------------------------------------------------------------------ C15
def c15(ctx):
    ctx.audit = leanaudit.audit(ctx.pid, thorough=not ctx.quick)
    exe = ctx.exe("asan")
    X = gen.xhex; F = gen.f2h
    def obj(npts, nch, nfr, extra_params):
        L = ["new"] + ["point %s" % X(b"P%d" % i) for i in range(npts)] + ["analog %s" % X(b"C%d" % i) for i in range(nch)]
        L += ["param x504f494e54 x52415445 x 0 F - %s" % F(100.0), "param x414e414c4f47 x52415445 x 0 F - %s" % F(200.0)]
        for i in range(extra_params): L.append("param x4747 %s %s 0 F 10,10 %s" % (X(b"Q%d" % i), X(b"d" * (i * 37 % 200)), ",".join(["3f800000"] * 100)))
        if nfr:
            pts = ";".join("%s:%s:%s:%s:%s" % (X(b"P%d" % i), F(1.0 + i), F(2.0), F(3.0), F(0.0)) for i in range(npts)) or "-"
            sub = ";".join("%s:%s" % (X(b"C%d" % i), F(0.5 * i)) for i in range(nch))
            L.append("mkframe v %s %s" % (pts, "|".join([sub] * 2) if nch else "-"))
            L += ["frame v"] * nfr
        return L + ["dumpmode none"]
    # "wide": frames of more than 1 KB (a block that size handed to the stream buffer goes straight to write(2)), points only / channels only
    objects = [("tiny", obj(0, 0, 0, 0)), ("small", obj(2, 1, 3, 1)), ("medium", obj(5, 3, 40, 6)), ("large", obj(20, 8, 400, 30)),
               ("wide-points", obj(80, 0, 12, 0)), ("wide-analogs", obj(0, 300, 6, 0))]
    jobs = []
    for name, L in objects:
        jobs.append((name, L))
    def one(job):
        name, L = job
        # first learn the total with an unlimited budget
        r0 = run.run_pair(L + ["savefault @W@/p.c3d 100000000"], exe)
        tot = None
        for rec in r0.hrecs:
            if rec["op"] == "savefault" and rec["res"] == "R ok":
                for l in rec["lines"]:
                    if l.startswith("W "): tot = int(l.split(" ")[1])
        if tot is None: return job, None, r0, [("_nototal", {}, "")], []
        if tot <= 4200 or not ctx.quick and tot <= 20000: ks = list(range(0, tot + 3))
        else:
            n = 256 if ctx.quick else 2048
            ks = sorted(set([0, 1, 511, 512, 513, 1023, 1024, 1025, tot - 2, tot - 1, tot, tot + 1] + [tot * i // n for i in range(n)] + [8191 * i + d for i in range(1, tot // 8191 + 1) for d in (-1, 0, 1)]))
        # transient faults: ONE write call refused at offset k, everything after it accepted (the failure must still be reported)
        once = ["savefault @W@/q.c3d %d once" % k for k in ks[::5] + [0, 1, 600, tot - 1]]
        S = L + ["savefault @W@/q.c3d %d" % k for k in ks] + once + ["save @W@/full.c3d", "savex /nonexistent-dir-verif/x.c3d", "savex /dev/full", "savex @W@/lim.c3d %d" % max(tot // 2, 1),
                 "savex @W@/lim0.c3d 0", "savex /proc/version", "savex @W@"]
        res = run.run_pair(S, exe, timeout=900)
        fails = []
        lines = res.script.split("\n")
        fired = 0
        for rec in res.hrecs:
            t = lines[rec["n"] - 1].split(" ")
            if rec["op"] == "savefault":
                k = int(t[2])
                w = [l for l in rec["lines"] if l.startswith("W ")]
                if rec["res"] == "R ok":
                    if k < tot or (w and "fault-fired" in w[0]):
                        fails.append(("returns_normally_on_fault", {"object": name, "k": k, "total": tot}, "save returned normally although the OS accepted only %d of %d bytes" % (k, tot)))
                else:
                    fired += 1
                    if rec["res"] != "R throw ios_failure": fails.append(("fault_class", {"object": name, "k": k, "got": rec["res"]}, "a failed save threw %s instead of an I/O failure" % rec["res"]))
                    if k >= tot: fails.append(("false_failure", {"object": name, "k": k}, "save reported a failure although every byte was accepted"))
            elif rec["op"] == "savex":
                if rec["res"] != "R throw ios_failure":
                    fails.append(("destination_fault", {"object": name, "dest": t[1].replace(res.wd, "@W@"), "got": rec["res"]}, "save to %s returned %s" % (t[1], rec["res"])))
        return job, (tot, len(ks), fired), res, fails, S
    for item in core.pmap(one, jobs, workers=4):
        job, info, res, fails = item[0], item[1], item[2], item[3]
        S = item[4] if len(item) > 4 else []
        name = job[0]
        if info:
            ctx.count("object_%s_bytes" % name, info[0]); ctx.count("fault_offsets_%s" % name, info[1]); ctx.count("faults_fired_%s" % name, info[2])
            for k in range(info[1]): ctx.distinct_key("fault", name, k)
        ctx.record_pair(res, S if len(S) < 300 else S[:len(job[1])] + ["# ... %d savefault lines ..." % (len(S) - len(job[1]) - 7)] + S[-7:], "faults")
        ctx.sample("[%s] ... ; savefault @W@/q.c3d 0 ; savefault @W@/q.c3d 1 ; ... ; savex /dev/full ; savex <path> <RLIMIT_FSIZE>" % name)
        for c, w, dt in fails:
            if c.startswith("_"): ctx.notes.append(name + ": could not learn the output size")
            else: ctx.fail(c, w, dt, S if len(S) < 3000 else job[1] + ["savefault @W@/q.c3d %s" % w.get("k", 0)])
    return core.finish(ctx, "fault enumeration under the proof-level model of the save procedure: for 6 object shapes (incl. frames above 1 KB, points only and channels only), write(2)/writev(2) of the instrumented library are interposed so that the OS "
                       "accepts exactly k bytes then answers ENOSPC, for every k in 0..total+2 (files <= 4 KB; 256 stratified k incl. buffer boundaries above; all/2048 in the thorough tier), plus real "
                       "destinations: missing directory, /dev/full, RLIMIT_FSIZE at half the size and at 0, an unwritable /proc file, a directory; "
                       "expected: I/O failure iff k < total; distinct = (object, k)", level="proof")

CHECKS.update({"C15": c15})

# ------------------------------------------------------------------------------------------ C16
def c16_bases(ctx, wd):
    """valid files to damage: one saved by the library through the API, generated layout variants"""
    from . import c3dgen
    exe = ctx.exe("asan")
    bases = []
    L, st = gen.gen_api_history(ctx.seed * 13 + 1, nops=25, malformed=0.0, with_io=None, within_capacity=True, rep=True)
    p = os.path.join(wd, "api.c3d")
    run.run_pair(L + ["save %s" % p], exe, wd=wd, name="mk")
    if os.path.exists(p): bases.append(("api", p))
    for i in range(3 if ctx.quick else 12):
        q = os.path.join(wd, "gen%d.c3d" % i)
        desc, _ = c3dgen.make_file(ctx.seed * 101 + i, q)
        bases.append(("gen-" + desc, q))
    if not ctx.quick: bases.append(("optotrak", "/repo/test/c3dFiles/Optotrak.c3d"))
    # files with exactly 4 and 8 analog samples per frame: a point count of -1 / -2 then makes the byte size of a frame wrap to 0
    import random, struct
    F = lambda v: struct.unpack("<I", struct.pack("<f", v))[0]
    for np_, nch, nsub, nfr in ((1, 2, 2, 2), (2, 4, 2, 2)):
        r = random.Random(ctx.seed * 31 + nch)
        L_ = c3dgen.Layout(r); L_.lead_zeros = 0; L_.zero_prologue = False; L_.param_block = 2; L_.order = "groups_first"; L_.sparse_ids = False; L_.extra_blocks = 0; L_.pad_byte = 0x20
        groups = [(1, b"POINT", False, b""), (2, b"ANALOG", False, b"")]
        params = [(1, b"USED", False, "I", [], [np_], b""), (1, b"SCALE", False, "F", [], [F(-1.0)], b""), (1, b"RATE", False, "F", [], [F(100.0)], b""),
                  (1, b"DATA_START", False, "I", [], [0], b""), (1, b"FRAMES", False, "I", [], [nfr], b""),
                  (1, b"LABELS", False, "C", [2, np_], [b"P%d" % k for k in range(np_)], b""),
                  (2, b"USED", False, "I", [], [nch], b""), (2, b"RATE", False, "F", [], [F(100.0 * nsub)], b""),
                  (2, b"LABELS", False, "C", [2, nch], [b"C%d" % k for k in range(nch)], b""),
                  (2, b"SCALE", False, "F", [nch], [F(1.0)] * nch, b""), (2, b"OFFSET", False, "I", [nch], [0] * nch, b""), (2, b"GEN_SCALE", False, "F", [], [F(1.0)], b"")]
        header = dict(points=np_, analog_per_frame=nch * nsub, first=1, last=nfr, gap=0, scale=F(-1.0), subframes=nsub, rate=F(100.0), events=[])
        frames = [([[c3dgen.fbits(r) for _ in range(4)] for _ in range(np_)], [[c3dgen.fbits(r) for _ in range(nch)] for _ in range(nsub)]) for _ in range(nfr)]
        q = os.path.join(wd, "samples%d.c3d" % (nch * nsub))
        b_, ds_ = c3dgen.encode(dict(groups=groups, params=params, header=header, frames=frames), L_, r)
        bb = bytearray(b_); k_ = bb.find(b"DATA_START"); bb[k_ + 14:k_ + 16] = struct.pack("<H", ds_); open(q, "wb").write(bytes(bb))
        bases.append(("samples%d" % (nch * nsub), q))
    return bases

def c16_field_positions(b):
    """byte offsets of structural fields: header words, prologue, every record's name length, id, offset, type, ndims, dims, desc length"""
    import struct
    pos = set(range(0, 24)) | set(range(294, 304))
    try:
        z = 0
        while z < len(b) and b[z] == 0: z += 1
        base = z + 512 * (b[z] - 1)
        pos |= set(range(base, base + 4))
        p = base + 4
        for _ in range(500):
            n = struct.unpack_from("b", b, p)[0]
            pos.add(p)
            if n == 0: break
            pos.add(p + 1)
            gid = struct.unpack_from("b", b, p + 1)[0]
            o = p + 2 + abs(n); pos |= {o, o + 1}
            off = struct.unpack_from("<H", b, o)[0]
            if gid > 0:
                q = o + 2; pos |= {q, q + 1}
                nd = b[q + 1]; pos |= set(range(q + 2, q + 2 + nd))
                # the value bytes of scalars: the count and rate parameters (POINT:USED, FRAMES, ANALOG:USED ...) steer allocations
                if nd == 0: pos |= set(range(q + 2, q + 2 + min(abs(struct.unpack_from("b", b, q)[0]), 4)))
            pos.add(o + off - 1 if off else o)
            if off == 0: break
            p = o + off
    except Exception: pass
    return sorted(x for x in pos if x < len(b))

def c16(ctx):
    import random
    ctx.audit = leanaudit.audit(ctx.pid, thorough=not ctx.quick)
    exe = ctx.exe("asan")
    r = random.Random(ctx.seed)
    top = run.workdir()
    bases = c16_bases(ctx, top)
    mutants = []     # (tag, path)
    VALS = [0, 1, 0x7F, 0x80, 0xFF]
    k = 0
    for tag, path in bases:
        b = open(path, "rb").read()
        struct_pos = c16_field_positions(b)
        hdr_end = min(len(b), 2048 if ctx.quick else len(b))
        # truncations
        if len(b) <= 3000 or not ctx.quick: tl = list(range(0, min(len(b), 6000))) if not ctx.quick else list(range(0, len(b), 1)) if len(b) <= 1600 else sorted(set(range(0, len(b), 7)) | set(struct_pos))
        else: tl = sorted(set(range(0, len(b), 37)) | set(struct_pos) | set(x + 1 for x in struct_pos))
        if tag == "optotrak": tl = sorted(set(range(0, 1024, 3)) | set(range(1024, len(b), 997)))
        for n in tl: mutants.append(("%s-trunc-%d" % (tag, n), b[:n]))
        # single overwrites of structural fields with boundary values + random
        poss = struct_pos if (ctx.quick or tag == "optotrak") else sorted(set(struct_pos) | set(range(0, min(len(b), 1536))))
        for p in poss:
            for v in VALS + [r.randrange(256)]:
                if b[p] != v: mutants.append(("%s-set-%d-%02x" % (tag, p, v), b[:p] + bytes([v]) + b[p + 1:]))
        # pairs
        for _ in range(150 if ctx.quick else 3000):
            p1, p2 = r.choice(struct_pos), r.choice(struct_pos)
            bb = bytearray(b); bb[p1] = r.choice(VALS + [r.randrange(256)]); bb[p2] = r.choice(VALS + [r.randrange(256)])
            mutants.append(("%s-pair-%d-%d" % (tag, p1, p2), bytes(bb)))
        # random garbage and zero files
    if ctx.quick and len(mutants) > 6000:
        keep = set(r.sample(range(len(mutants)), 6000)); mutants = [m for i, m in enumerate(mutants) if i in keep]
    # whole 16-bit words at once: header words 2..10 and the value of every integer scalar (POINT:USED = -1, -2, -4: counts that
    # wrap a byte size to exactly 0, or turn negative) - single-byte overwrites never produce them
    import struct as _st2
    for tag, path in bases:
        b = open(path, "rb").read()
        wpos = []
        try:
            z = 0
            while b[z] == 0: z += 1
            wpos += [z + 2 * w for w in range(1, 10)]
            p_ = z + 512 * (b[z] - 1) + 4
            for _ in range(400):
                n_ = _st2.unpack_from("b", b, p_)[0]
                if n_ == 0: break
                gid = _st2.unpack_from("b", b, p_ + 1)[0]
                o = p_ + 2 + abs(n_); off = _st2.unpack_from("<H", b, o)[0]
                if gid > 0 and _st2.unpack_from("b", b, o + 2)[0] == 2 and b[o + 3] == 0: wpos.append(o + 4)
                if off == 0: break
                p_ = o + off
        except Exception: pass
        for wp in wpos:
            for v in (0xFFFF, 0xFFFE, 0xFFFC, 0x8000, 0x7FFF):
                if wp + 2 <= len(b): mutants.append(("%s-word-%d-%04x" % (tag, wp, v), b[:wp] + _st2.pack("<H", v) + b[wp + 2:]))
    # dimension blasts: every record's dimension bytes set to 0xFF (all / all but the first / first 0 and the rest 0xFF)
    import struct as _st
    for tag, path in bases:
        b = open(path, "rb").read()
        try:
            z = 0
            while b[z] == 0: z += 1
            p_ = z + 512 * (b[z] - 1) + 4
            for _ in range(400):
                n_ = _st.unpack_from("b", b, p_)[0]
                if n_ == 0: break
                gid = _st.unpack_from("b", b, p_ + 1)[0]
                o = p_ + 2 + abs(n_); off = _st.unpack_from("<H", b, o)[0]
                if gid > 0:
                    q = o + 2; nd = b[q + 1]
                    if nd >= 2:
                        for mode in ("all", "tail", "zero-first"):
                            bb = bytearray(b)
                            for j in range(nd): bb[q + 2 + j] = 0xFF
                            if mode == "tail": bb[q + 2] = b[q + 2]
                            if mode == "zero-first": bb[q + 2] = 0
                            mutants.append(("%s-dimblast-%s-%d" % (tag, mode, q), bytes(bb)))
                    # scalar turned into an empty / wrong-typed parameter with a consistent record
                    if nd == 0 and off >= 5:
                        ty = _st.unpack_from("b", b, q)[0]; w = abs(ty)
                        bb = bytearray(b[:q + 1] + bytes([1, 0]) + b[q + 2 + w:])      # dims [0], no data
                        bb[o:o + 2] = _st.pack("<H", off - w + 1)
                        mutants.append(("%s-emptied-%d" % (tag, q), bytes(bb)))
                        if w in (2, 4):
                            bb = bytearray(b); bb[q] = 4 if w == 2 else 2
                            mutants.append(("%s-retyped-%d" % (tag, q), bytes(bb)))
                if off == 0: break
                p_ = o + off
        except Exception: pass
    # announced counts far beyond the file size (the cost finding): FRAMES = 32767 and USED = 255 in the library-saved file
    for tag, path in bases[:1]:
        b = bytearray(open(path, "rb").read())
        i = b.find(b"FRAMES"); j = b.find(b"USED")
        if i > 0 and j > 0:
            b[i + 6 + 4:i + 6 + 6] = b"\xff\x7f"; b[j + 4 + 4:j + 4 + 6] = b"\xff\x00"
            mutants.append(("api-claim-32767x255", bytes(b)))
    for n in (0, 1, 2, 511, 512, 513, 1024):
        mutants.append(("zeros-%d" % n, bytes(n))); mutants.append(("ones-%d" % n, b"\x01\x50" + bytes([255]) * max(n - 2, 0)))
        mutants.append(("rand-%d" % n, bytes(r.randrange(256) for _ in range(n))))
    # write mutants, batch them
    BATCH = 40
    batches = []
    for i in range(0, len(mutants), BATCH):
        chunk = mutants[i:i + BATCH]
        d = os.path.join(top, "b%d" % (i // BATCH)); os.makedirs(d)
        S = ["dumpmode shape"]
        for j, (tag, data) in enumerate(chunk):
            fp = os.path.join(d, "m%d.c3d" % j); open(fp, "wb").write(data); S.append("load %s" % fp)
        batches.append((chunk, S, d))
    STD = {"ios_failure", "out_of_range", "invalid_argument", "length_error", "range_error", "runtime_error", "bad_alloc", "logic_error"}
    def one(batch):
        chunk, S, d = batch
        # pre-pass with the model only: files whose announced data size is huge are not given to the library here
        sp = os.path.join(d, "pre.txt"); open(sp, "w").write("\n".join(S) + "\n")
        run.run_driver(sp, os.path.join(d, "pre.m"))
        pre, _ = run.parse_output(os.path.join(d, "pre.m"))
        claimed = {x["n"]: x["res"] for x in pre if x["res"] and x["res"].startswith("R claimed")}
        S2 = [("# " + l if (i + 1) in claimed else l) for i, l in enumerate(S)]
        res = run.run_pair(S2, exe, wd=d, timeout=240)
        for n, rr in claimed.items():
            res.mrecs.append({"n": n, "op": "load", "res": rr, "lines": []})
        out = []      # (tag, lib result, model result, problem or None)
        hm = {x["n"]: x for x in res.hrecs}; mm = {x["n"]: x for x in res.mrecs}
        crashed_at = None
        if res.crash:
            crashed_at = res.hrecs[-1]["n"] if res.hrecs else 2
        for j, (tag, data) in enumerate(chunk):
            n = j + 2
            h, m = hm.get(n), mm.get(n)
            hr = h["res"] if h else None; mr = m["res"] if m else None
            out.append((tag, hr, mr, h["lines"] if h else None, m["lines"] if m else None))
        return batch, res, out, crashed_at
    results = core.pmap(one, batches)
    redo = []
    nlarge = 0
    for (chunk, S, d), res, out, crashed_at in results:
        ctx.evaluations += len(chunk)
        for j, (tag, hr, mr, hl, ml) in enumerate(out):
            n = j + 2
            kind = tag.split("-")[-3] if "-pair-" in tag else (tag.split("-")[-2] if ("-trunc-" in tag) else (tag.split("-")[-3] if "-set-" in tag else tag.split("-")[0]))
            ctx.count("mutant_" + kind)
            if crashed_at is not None and n >= crashed_at:
                redo.append((tag, os.path.join(d, "m%d.c3d" % j))); continue
            ctx.count("outcome_" + (hr or "none").replace("R ", "").replace(" ", "_"))
            ctx.distinct_key("c16", kind, hr, len(hl or []))
            if mr and mr.startswith("R claimed"):
                nlarge += 1
                ctx.fail("cost_follows_announced_size", {"claimed": "large"}, "%s: the header/parameters announce %s floats of data: the loader allocates and loops over the announced counts whatever the file size (library: %s)" % (tag, mr.split(" ")[2], hr), ["dumpmode shape", "load <%s>" % tag])
                continue
            if hr is None: redo.append((tag, os.path.join(d, "m%d.c3d" % j))); continue
            if hr.startswith("R throw") and hr.split(" ")[2] not in STD:
                ctx.fail("non_standard_exception", {"tag": tag, "got": hr}, "loading %s threw something that is not a standard exception" % tag, ["load <%s>" % tag])
            if hr != mr or hl != ml:
                fp = os.path.join(d, "m%d.c3d" % j)
                keep = os.path.join(core.REPLAYS, "C16-%s.c3d" % tag[:60]); os.makedirs(core.REPLAYS, exist_ok=True)
                try:
                    import shutil; shutil.copy(fp, keep)
                except Exception: pass
                ctx.disagreements.append(("damaged", "file %s: library %s, model %s%s" % (tag, hr, mr, "" if hr != mr else " (dumps differ)"), ["dumpmode shape", "load %s" % keep]))
    # re-run the crashed / unreached ones one per process: the crash itself is the violation
    def single(item):
        tag, fp = item
        S = ["dumpmode shape", "load %s" % fp]
        res = run.run_pair(S, exe, timeout=120)
        return item, res
    for (tag, fp), res in core.pmap(single, redo):
        if res.crash:
            keep = os.path.join(core.REPLAYS, "C16-%s.c3d" % tag[:60]); os.makedirs(core.REPLAYS, exist_ok=True)
            import shutil; shutil.copy(fp, keep)
            ctx.crashes.append(("damaged", "loading the damaged file %s: %s" % (tag, res.crash[-1200:]), ["dumpmode shape", "load %s" % keep]))
        else:
            ctx.record_pair(res, ["dumpmode shape", "load <%s>" % tag], "damaged-single")
    ctx.lane_counts["damaged"] = len(mutants)
    ctx.sample("[damaged] base files: %s" % ", ".join(t for t, p in bases))
    ctx.sample("[damaged] mutants like: " + ", ".join(m[0] for m in mutants[:3] + mutants[len(mutants) // 2: len(mutants) // 2 + 3] + mutants[-3:]))
    run.cleanup(top)
    return core.finish(ctx, "structure-aware corruption of valid files (one saved by the library, generated layout variants, thorough: the truncated Optotrak fixture): every truncation length "
                       "(stratified for larger files), every structural byte (header words, prologue, each record's name length / id / next offset / type / dimension count / dimensions / "
                       "description length) set to 0, 1, 0x7F, 0x80, 0xFF and a random value, random pairs of such overwrites, all-zero / garbage files; each loaded by the ASan+UBSan library "
                       "(abort or time-out = violation) and by the Lean model (outcome class and loaded shape must agree); distinct = (mutation kind, outcome, shape size)")

CHECKS.update({"C16": c16})

# ------------------------------------------------------------------------------------------ C13
def c13(ctx):
    from . import c3dgen
    ctx.audit = leanaudit.audit(ctx.pid, thorough=not ctx.quick)
    exe = ctx.exe("asan")
    q = ctx.quick
    scripts = corpus_scripts("C13")
    scripts += api_scripts(ctx, 120 if q else 3000, malformed=0.35, caller_mut=0.3, with_io=True)
    scripts += [(x[0] + ["print"], x[1], x[2]) for x in valid_scripts(ctx, 60 if q else 1500, seed_off=5000)]
    scripts += pset_scripts(ctx) + get_scripts(ctx)[: (10 if q else 1000)] + loaded_declare_scripts(ctx, 16 if q else 400)
    # destruction after refused calls, print on loaded vendor files
    scripts.append((["dumpmode none", "load /repo/test/c3dFiles/Vicon.c3d", "print", "save @W@/v.c3d", "load @W@/v.c3d", "print"], {}, "vicon-print"))
    scripts.append((["dumpmode none", "load /repo/test/c3dFiles/Qualisys.c3d", "print", "load /repo/test/c3dFiles/Optotrak.c3d", "print", "save @W@/o.c3d"], {}, "qualisys-optotrak"))
    # string tables whose entries differ a lot in length (the padding of the short ones is longer than any one-byte length),
    # entries at and just beyond 255, many entries: saved, loaded back where the format can hold them
    X = gen.xhex
    for k, (la, lb) in enumerate([(300, 1), (1, 300), (255, 0), (256, 1), (1000, 2), (255, 255), (129, 1)]):
        vals = ",".join([X(bytes(65 + (i % 26) for i in range(la))) if la else "x", X(bytes(97 + (i % 26) for i in range(lb))) if lb else "x", X(b"m")])
        scripts.append((["new", "param %s %s x 0 C - %s" % (X(b"LONG"), X(b"TABLE"), vals), "save @W@/t.c3d", "print",
                         "param %s %s x 0 C - %s" % (X(b"POINT"), X(b"DESCRIPTIONS"), vals), "save @W@/t2.c3d"], {"long_short_strings": 1}, "long-short-%d" % k))
    _run_scripts(ctx, scripts, "histories", None, timeout=300)
    # generated well-formed files: load, print, save, destroy
    n = 60 if q else 1500
    def one(i):
        wd = run.workdir(); p = os.path.join(wd, "in.c3d")
        desc, _ = c3dgen.make_file(ctx.seed * 977 + i, p, big=(i % 29 == 0))
        S = ["dumpmode shape", "load %s" % p, "print", "save @W@/o.c3d", "load @W@/o.c3d", "get frame 0", "get point 0 0", "get chan 0 0 0", "new"]
        res = run.run_pair(S, exe, wd=wd, timeout=300)
        run.cleanup(wd)
        return desc, S, res
    for desc, S, res in core.pmap(one, range(n)):
        ctx.record_pair(res, ["# generated file %s" % desc] + S, "files")
    # any `ub` predicted by the model on these valid histories is a violation as well
    # (the harness normally aborts there too; this catches UB the sanitizers happen not to see)
    # LeakSanitizer: informational only (the statement does not cover leaks)
    leak_exe = exe
    L, st = gen.gen_api_history(ctx.seed, with_io="@W@/leak")
    wd = run.workdir(); sp = os.path.join(wd, "l.txt"); open(sp, "w").write("\n".join(L).replace("@W@", wd) + "\nload /nonexistent.c3d\nload %s/leak.1.c3d\n" % wd)
    rc, err, dt = run.run_harness(leak_exe, sp, os.path.join(wd, "l.h"), env_extra={"ASAN_OPTIONS": "detect_leaks=1:exitcode=0"})
    import re
    m = re.search(r"SUMMARY: AddressSanitizer: (\d+) byte\(s\) leaked in (\d+) allocation", err or "")
    ctx.notes.append("LeakSanitizer (information only, leaks are not in the statement): " + (m.group(0) if m else "no leak reported"))
    run.cleanup(wd)
    return core.finish(ctx, "every history and file generated for C01-C12 (API histories with ~35% refused calls, caller-side mutation, save/reload, print, look-up grids, Parameter::set grid, "
                       "generated well-formed files over all layout variants, the vendor files) run on the library built with AddressSanitizer (alloc_dealloc_mismatch=1), UndefinedBehaviorSanitizer and "
                       "_GLIBCXX_ASSERTIONS, one process per script including object destruction; a sanitizer report or assertion abort is a violation with that script as replay; "
                       "the Lean model must not evaluate to `ub` on them")

CHECKS.update({"C13": c13})

# ------------------------------------------------------------------------------------------ C14
def c14(ctx):
    from . import c3dgen
    import subprocess
    ctx.audit = leanaudit.audit(ctx.pid, thorough=not ctx.quick)
    exe = ctx.exe("asan")
    q = ctx.quick
    def mk(i):
        seed = ctx.seed * 100003 + 9000 + i
        L, st = gen.gen_api_history(seed, nops=25, malformed=0.15, with_io=None, within_capacity=True)
        # event-free objects built through the API, then saved twice; reload; save twice again
        L += ["save @W@/a1.c3d", "save @W@/a2.c3d", "load @W@/a1.c3d", "save @W@/b1.c3d", "save @W@/b2.c3d"]
        # the same (small) object saved over an existing, longer file and to a fresh path: nothing of the old file may remain
        L += ["save @W@/o1.c3d", "new", "save @W@/o1.c3d", "save @W@/o2.c3d"]
        return (L, st, "c14-%d" % seed)
    scripts = corpus_scripts("C14") + [mk(i) for i in range(80 if q else 2000)]
    def one(item):
        lines, st, tag = item
        out = []
        files = {}
        for fill in (0xA5, 0x5A):
            res = run.run_pair(lines, exe, fill=fill, keep=True)
            fs = {}
            for ln in res.script.split("\n"):
                if ln.startswith("save "):
                    p = ln.split(" ")[1]
                    try: fs[os.path.basename(p)] = open(p, "rb").read()
                    except Exception: fs[os.path.basename(p)] = None
            files[fill] = (res, fs)
            run.cleanup(res.wd)
        resA, fA = files[0xA5]; resB, fB = files[0x5A]
        # (ii) saving does not change the object
        for rec, t, prev, d, vars_ in oracles.Walk(resA):
            if rec["op"] == "save" and rec["res"] == "R ok" and prev is not None and d is not None and d != prev:
                out.append(("save_changes_object", {"op": rec["n"]}, "the object dump after save differs from the dump before"))
        # (iv) repeated saves are byte-identical
        for a, b in (("a1.c3d", "a2.c3d"), ("b1.c3d", "b2.c3d"), ("o1.c3d", "o2.c3d")):
            if fA.get(a) is not None and fA.get(b) is not None and fA[a] != fA[b]:
                i = next((i for i, (x, y) in enumerate(zip(fA[a], fA[b])) if x != y), -1)
                out.append(("repeat_differs", {"files": a + "/" + b}, "two saves of the same object differ (first difference at byte %d)" % i))
        # (iii) bytes do not depend on what uninitialised heap memory contains
        for name in fA:
            if fA[name] is not None and fB.get(name) is not None and fA[name] != fB[name]:
                i = next((i for i, (x, y) in enumerate(zip(fA[name], fB[name])) if x != y), -1)
                out.append(("undefined_bytes", {"file": name, "offset_class": "header" if i < 512 else "parameters_or_data"}, "byte %d of %s depends on the content of uninitialised memory (malloc fill 0xA5 vs 0x5A: %02x vs %02x)" % (i, name, fA[name][i] if i >= 0 else 0, fB[name][i] if i >= 0 else 0)))
        return item, resA, out
    for (lines, st, tag), res, fails in core.pmap(one, scripts):
        ctx.merge_stats(st)
        ctx.record_pair(res, lines, "save")
        if len(ctx.samples) < 2: ctx.sample("[save] " + " ; ".join(l[:70] for l in lines[:8]) + " ; ... ; save a1 ; save a2 ; load a1 ; save b1 ; save b2   (run twice: malloc fill 0xA5 and 0x5A)")
        for c, w, dt in fails: ctx.fail(c, w, dt, lines)
    # loaded files (events, reserved words, byte-typed values) saved under both fills
    plain_exe = ctx.exe("plain")
    def onef(i):
        outs = {}
        for fill in (0xA5, 0x5A, 0x11):
            wd = run.workdir(); p = os.path.join(wd, "in.c3d")
            desc, _ = c3dgen.make_file(ctx.seed * 31 + i, p)
            S = ["dumpmode shape", "load %s" % p, "save @W@/o.c3d", "save @W@/o2.c3d"]
            # third run: the uninstrumented build (other stack/heap layout): equal objects in different processes
            res = run.run_pair(S, exe if fill != 0x11 else plain_exe, wd=wd, fill=fill)
            try: outs[fill] = (open(os.path.join(wd, "o.c3d"), "rb").read(), open(os.path.join(wd, "o2.c3d"), "rb").read())
            except Exception: outs[fill] = (None, None)
            run.cleanup(wd)
        return i, desc, S, res, outs
    for i, desc, S, res, outs in core.pmap(onef, range(40 if q else 1000)):
        ctx.record_pair(res, ["# generated file seed %d (%s)" % (ctx.seed * 31 + i, desc)] + S, "save-loaded")
        a, b = outs[0xA5], outs[0x5A]
        c = outs[0x11]
        if a[0] is not None and c[0] is not None and a[0] != c[0]:
            j = next((k for k, (x, y) in enumerate(zip(a[0], c[0])) if x != y), -1)
            ctx.fail("undefined_bytes", {"file": "loaded", "between": "instrumented/uninstrumented process"}, "the same loaded object saved by two differently built processes differs at byte %d (%02x vs %02x): that byte is not determined by the object's content" % (j, a[0][j] if j >= 0 else 0, c[0][j] if j >= 0 else 0), ["# generated file seed %d (c3dgen.make_file)" % (ctx.seed * 31 + i)] + S)
        if a[0] is not None and (a[0] != a[1] or a[0] != b[0]):
            ctx.fail("undefined_bytes" if a[0] != b[0] else "repeat_differs", {"file": "loaded-" + desc}, "saves of a loaded object differ between runs or repetitions", ["# generated file seed %d" % (ctx.seed * 31 + i)] + S)
    # memcheck: definedness of every buffer handed to write(2)
    vg = 0
    plain = ctx.exe("plain")
    vscripts = [mk(1000 + i)[0] for i in range(3 if q else 40)] + [["dumpmode none", "load /repo/test/c3dFiles/Qualisys.c3d", "save @W@/q.c3d"]] + [["new", "save @W@/n.c3d"]]
    gdir = run.workdir()
    for i in range(3 if q else 40):
        gp = os.path.join(gdir, "g%d.c3d" % i); c3dgen.make_file(ctx.seed * 41 + i, gp)
        vscripts.append(["dumpmode none", "load %s" % gp, "save @W@/o.c3d", "load @W@/o.c3d", "save @W@/o2.c3d"])
    def onev(lines):
        wd = run.workdir(); sp = os.path.join(wd, "s.txt"); open(sp, "w").write("\n".join(lines).replace("@W@", wd) + "\n")
        r = subprocess.run(["valgrind", "--quiet", "--error-exitcode=9", "--track-origins=no", plain, sp, os.path.join(wd, "s.h")], stdout=subprocess.PIPE, stderr=subprocess.PIPE, text=True, timeout=900)
        run.cleanup(wd)
        return lines, r.returncode, r.stderr
    for lines, rc, err in core.pmap(onev, vscripts, workers=8):
        vg += 1
        ctx.evaluations += 1
        if "uninitialised" in err or rc == 9:
            what = [l for l in err.split("\n") if "uninitialised" in l or "Invalid" in l][:2]
            ctx.fail("memcheck", {"kind": "write-uninitialised" if "write(buf)" in err else "other"}, "valgrind memcheck: " + " | ".join(what), lines)
    ctx.count("valgrind_runs", vg)
    run.cleanup(gdir)
    return core.finish(ctx, "saves of API-built and of loaded objects: library bytes == model bytes (the model's writer is a function of the object only); object dump before == after each save; "
                       "two saves of one object byte-identical; every script run in two processes whose allocator fills fresh memory with 0xA5 resp. 0x5A - any byte taken from uninitialised heap differs "
                       "between the two files; uninstrumented build under valgrind memcheck (definedness of every buffer passed to write(2)); distinct = (op, outcome, dump size)")

CHECKS.update({"C14": c14})

# ------------------------------------------------------------------------------------------ C18
def shared_state_scan(ctx):
    """writable static-storage symbols defined by the library's translation units (nm on the objects of a
    build of the current tree) and references to non-reentrant libc functions"""
    import subprocess, glob as g
    exe = ctx.exe("plain")
    d = os.path.dirname(exe)
    bad = []
    NONREENTRANT = {"strtok", "rand", "srand", "localtime", "gmtime", "asctime", "ctime", "setlocale", "getenv", "strerror", "tmpnam", "readdir"}
    nobj = 0
    for o in sorted(g.glob(os.path.join(d, "*.cpp.o"))):
        nobj += 1
        r = subprocess.run(["nm", "-C", o], stdout=subprocess.PIPE, text=True)
        for line in r.stdout.split("\n"):
            parts = line.split(None, 2)
            if len(parts) == 3 and parts[1] in ("B", "b", "D", "d"):
                sym = parts[2]
                if sym.startswith("std::__ioinit") or sym.startswith("guard variable for std::") or sym.startswith("__"): continue
                bad.append("%s: writable static storage `%s` (section %s)" % (os.path.basename(o), sym, parts[1]))
            elif len(parts) == 2 and parts[0] == "U" and parts[1].split("@")[0] in NONREENTRANT:
                bad.append("%s: calls non-reentrant %s" % (os.path.basename(o), parts[1]))
    return bad, nobj

def c18(ctx):
    import subprocess
    ctx.audit = leanaudit.audit(ctx.pid, thorough=not ctx.quick)
    q = ctx.quick
    bad, nobj = shared_state_scan(ctx)
    ctx.count("translation_units_scanned", nobj)
    if bad:
        ctx.audit["ok"] = False
        ctx.audit["failures"].append("hypothesis `the library has no shared mutable state` of the interleaving theorem no longer checks: " + "; ".join(bad[:5]))
    tsan = ctx.exe("tsan"); asan = ctx.exe("asan")
    rounds = 6 if q else 60
    def one(rnd):
        import random
        r = random.Random(ctx.seed * 1000 + rnd)
        nthreads = r.choice([2, 3, 4, 8] if q else [2, 3, 4, 8, 16])
        wd = run.workdir()
        scripts = []
        for t in range(nthreads):
            seed = ctx.seed * 100003 + rnd * 64 + t
            kind = r.choice(["api", "api", "file"])
            if kind == "api":
                L, st = gen.gen_api_history(seed, nops=20, malformed=0.2, with_io=os.path.join(wd, "t%d" % t))
                L = [l for l in L if l != "print"]            # print() shares std::cout: outside "share no data"
            else:
                from . import c3dgen
                p = os.path.join(wd, "in%d.c3d" % t); c3dgen.make_file(seed, p)
                L = ["dumpmode full", "load %s" % p, "save %s/o%d.c3d" % (wd, t), "load %s/o%d.c3d" % (wd, t), "point x5a5a", "save %s/o%d_2.c3d" % (wd, t)]
            sp = os.path.join(wd, "s%d.txt" % t); open(sp, "w").write("\n".join(L) + "\n")
            scripts.append((sp, L))
        # sequential reference (each script alone) + model
        seq = []
        for t, (sp, L) in enumerate(scripts):
            ho = os.path.join(wd, "seq%d.h" % t); run.run_harness(asan, sp, ho)
            mo = os.path.join(wd, "seq%d.m" % t); run.run_driver(sp, mo)
            seq.append((open(ho).read() if os.path.exists(ho) else None, open(mo).read() if os.path.exists(mo) else None))
            for f in os.listdir(wd):       # saved files of the sequential run must not be seen as left-overs by the threaded run
                if f.endswith(".c3d") and not f.startswith("in"): os.remove(os.path.join(wd, f))
        args = [tsan, "--threads", str(rnd + 1 + ctx.seed)]
        for t, (sp, L) in enumerate(scripts): args += [sp, os.path.join(wd, "mt%d.h" % t)]
        env = dict(os.environ); env["TSAN_OPTIONS"] = "halt_on_error=1:exitcode=66:second_deadlock_stack=1"
        cpu = r.choice([None, "0", "0-1", "0-3"])
        if cpu: args = ["taskset", "-c", cpu] + args
        try:
            pr = subprocess.run(args, stdout=subprocess.PIPE, stderr=subprocess.PIPE, env=env, timeout=600)
            rc, err = pr.returncode, pr.stderr.decode("latin1")
        except subprocess.TimeoutExpired: rc, err = -999, "TIMEOUT"
        fails = []
        if rc != 0 or "ThreadSanitizer" in err:
            fails.append(("data_race", {"threads": nthreads}, "ThreadSanitizer / abnormal exit (rc %s): %s" % (rc, err[-900:])))
        for t in range(nthreads):
            mt = os.path.join(wd, "mt%d.h" % t)
            got = open(mt).read() if os.path.exists(mt) else None
            if got != seq[t][0]: fails.append(("thread_result_differs", {"thread": t, "threads": nthreads}, "thread %d observed other results than the same script run alone" % t))
            if seq[t][0] != seq[t][1]: fails.append(("_model_disagrees", {"thread": t}, "sequential run differs from the model"))
        allL = []
        for t, (sp, L) in enumerate(scripts): allL += ["# --- thread %d ---" % t] + L
        run.cleanup(wd)
        return rnd, nthreads, cpu, allL, fails
    for rnd, nthreads, cpu, allL, fails in core.pmap(one, range(rounds), workers=4):
        ctx.evaluations += 1
        ctx.count("rounds_threads_%d" % nthreads); ctx.count("affinity_%s" % (cpu or "free"))
        ctx.distinct_key("mt", rnd, nthreads, cpu)
        if len(ctx.samples) < 2: ctx.sample("[threads=%d affinity=%s] " % (nthreads, cpu) + " ; ".join(l[:50] for l in allL[:10]))
        for c, w, dt in fails:
            if c == "_model_disagrees": ctx.disagreements.append(("threads", dt, allL))
            else: ctx.fail(c, w, dt, allL)
    return core.finish(ctx, "symbol scan (nm on every translation unit of a build of the current tree: no writable static-storage symbol, no non-reentrant libc call) discharging the hypothesis of the "
                       "interleaving theorem; then rounds of 2-16 threads, each running its own generated history (API construction, load, edit, save to its own path, destruction) on its own object in "
                       "a ThreadSanitizer build with randomly perturbed schedules (yield/sleep injection per op, CPU affinity 1/2/4/all); every thread's output stream must equal that of the same script run "
                       "alone (and the model's); distinct = (round, thread count, affinity)")

# ------------------------------------------------------------------------------------------ C19
def c19(ctx):
    import subprocess
    from . import c3dgen
    ctx.audit = leanaudit.audit(ctx.pid, thorough=not ctx.quick)
    q = ctx.quick
    builds = [(o, sh) for o in ("O0", "O2", "O3") for sh in (False, True)]
    exes = core.pmap(lambda b: (b, ctx.exe(b[0], shared=b[1])), builds, workers=6)
    n = 40 if q else 800
    jobs = []
    for i in range(n):
        seed = ctx.seed * 100003 + 70000 + i
        L, st = gen.gen_api_history(seed, nops=25, malformed=0.2, with_io="@W@/f")
        jobs.append((L, "api-%d" % seed, None))
    # the reproducers of the recorded findings and fixes (refused calls that leave a partial state, retyped mandatory parameters,
    # missing parameters ...): paths on which an exception is - or used to be - in flight are where an uninitialised local shows
    for pid_ in ("C05", "C10", "C03", "C01", "C13"):
        for L_, st_, tag_ in corpus_scripts(pid_):
            L_ = [l for l in L_ if l.split(" ")[0] not in ("specdecode", "lwcheck", "savex", "savefault", "sep")]     # ops only one side answers
            jobs.append((L_, "corpus-%s-%s" % (pid_, tag_), None))
    # Parameter::set over the shape grid (every build must accept / refuse the same shapes: empty shapes whose partial products
    # pass INT_MAX before the 0 are where an overflow test is folded away by the optimiser), and frames / declarations on objects
    # whose LABELS parameter was retyped (a missing table must be refused by every build)
    for L_, st_, tag_ in pset_scripts(ctx)[:1]:
        jobs.append((L_, "pset-grid", None))
    Xh = gen.xhex
    for k, shape in enumerate(["255,255,255,255,0", "255,255,255,255,255,0", "128,255,255,255,0,3", "255,255,255,129,0", "0,255,255,255,255", "255,255,255,255,1,0"]):
        jobs.append((["new", "pnew", "pset I %s -" % shape, "pset F %s -" % shape, "pset C %s -" % shape, "param x4747 x51 x 0 I %s -" % shape, "save @W@/e.c3d", "load @W@/e.c3d"], "empty-shape-%d" % k, None))
    for grp, oth in ((b"POINT", b"ANALOG"), (b"ANALOG", b"POINT")):
        pre = ["new", "dumpmode full", "param x504f494e54 x52415445 x 0 F - 42c80000", "param x414e414c4f47 x52415445 x 0 F - 42c80000"]
        body = ["param %s %s x 0 I - 1,2" % (Xh(grp), Xh(b"LABELS")), "mkframe v x41:3f800000:40000000:40400000:00000000 x43:3f800000", "frame v", "dump", "point x42", "dump", "analog x44", "dump",
                "mkframe w - x43:3f800000", "frame w", "dump", "save @W@/r.c3d"]
        jobs.append((pre + body, "retyped-labels-" + grp.decode(), None))
        jobs.append((pre + ["point x41", "analog x43"] + body, "retyped-labels-declared-" + grp.decode(), None))
    for i in range(n // 2):
        jobs.append((["dumpmode full", "load @W@/in.c3d", "save @W@/o.c3d", "load @W@/o.c3d", "save @W@/o2.c3d"], "file-%d" % i, ctx.seed * 53 + i))
    # files whose reserved header words are not zero: they pass through the multi-byte integer reader (270 and 44 bytes at a time)
    for i in range(n // 4):
        jobs.append((["dumpmode full", "load @W@/in.c3d", "save @W@/o.c3d", "load @W@/o.c3d", "save @W@/o2.c3d"], "dirtyhdr-%d" % i, -(ctx.seed * 59 + i + 1)))
    jobs.append((["dumpmode shape", "load /repo/test/c3dFiles/Vicon.c3d", "save @W@/v.c3d", "load /repo/test/c3dFiles/Qualisys.c3d", "save @W@/q.c3d", "load /repo/test/c3dFiles/Optotrak.c3d", "save @W@/o.c3d"], "vendor", None))
    def mkinput(fseed, path):
        c3dgen.make_file(abs(fseed), path)
        if fseed < 0:
            import random
            r = random.Random(fseed)
            b = bytearray(open(path, "rb").read())
            z = 0
            while z < len(b) and b[z] == 0: z += 1       # leading zero bytes of the layout variant
            for lo, hi in ((24, 294), (468, 512)):
                for k in range(r.randint(1, 6)):
                    b[z + r.randrange(lo, hi)] = r.choice([1, 2, 0x7f, 0x80, 0xff, r.randrange(256)])
            open(path, "wb").write(bytes(b))
    def one(job):
        L, tag, fseed = job
        outs = []
        wd = run.workdir()
        if fseed is not None: mkinput(fseed, os.path.join(wd, "in.c3d"))
        text = "\n".join(L).replace("@W@", wd) + "\n"
        sp = os.path.join(wd, "s.txt"); open(sp, "w").write(text)
        saves = [l.split(" ")[1] for l in text.split("\n") if l.startswith("save ")]
        ref = None; fails = []
        for (b, exe) in exes:
            ho = os.path.join(wd, "out-%s-%s.h" % (b[0], "so" if b[1] else "a"))
            rc, err, dt = run.run_harness(exe, sp, ho)
            stream = open(ho).read() if os.path.exists(ho) else ""
            files = []
            for p in saves:
                try: files.append(open(p, "rb").read())
                except Exception: files.append(None)
            cur = (rc, stream, files)
            if ref is None:
                ref = (b, cur)
                mo = os.path.join(wd, "m.txt"); run.run_driver(sp, mo)      # the model reads the files the reference build wrote
            for p in saves:
                try: os.remove(p)
                except Exception: pass
            if ref[0] == b: pass
            elif cur != ref[1]:
                what = "exit status" if cur[0] != ref[1][0] else "values / exception classes" if cur[1] != ref[1][1] else "saved bytes"
                fails.append(("builds_differ", {"build": "%s-%s" % (b[0], "shared" if b[1] else "static"), "what": what}, "build %s-%s differs from %s-%s in %s" % (b[0], "shared" if b[1] else "static", ref[0][0], "shared" if ref[0][1] else "static", what)))
        # the model against the reference build
        mo = os.path.join(wd, "m.txt")
        ms = open(mo).read() if os.path.exists(mo) else ""
        mfiles = []
        for p in saves:
            try: mfiles.append(open(p + ".model", "rb").read())
            except Exception: mfiles.append(None)
        if ref and (ms != ref[1][1]): fails.append(("_model", {}, "model stream differs from the -O0 static build"))
        elif ref and [f for f in mfiles] != ref[1][2] and all(f is not None for f in ref[1][2]): fails.append(("_model", {}, "model bytes differ from the -O0 static build"))
        if fails and fseed is not None and any(c != "_model" for c, w, dt in fails):
            os.makedirs(core.REPLAYS, exist_ok=True)
            keep = os.path.join(core.REPLAYS, "C19-%s.c3d" % tag)
            shutil.copy(os.path.join(wd, "in.c3d"), keep)
            L[:] = [l.replace("@W@/in.c3d", keep) for l in L]
        run.cleanup(wd)
        return job, fails
    for (L, tag, fseed), fails in core.pmap(one, jobs, workers=12):
        ctx.evaluations += 1
        ctx.distinct_key("c19", tag)
        ctx.count("inputs_" + tag.split("-")[0])
        if len(ctx.samples) < 2: ctx.sample("[%s] " % tag + " ; ".join(l[:60] for l in L[:8]))
        for c, w, dt in fails:
            if c == "_model": ctx.disagreements.append(("builds", dt, L))
            else: ctx.fail(c, w, dt, L)
    ctx.count("builds", len(exes))
    # arithmetic UB actually executed (the licence a compiler would need to differ): UBSan in recover mode, reports by source line
    ub = ctx.exe("ubarith")
    sites = {}
    def oneub(job):
        L, tag, fseed = job
        wd = run.workdir()
        if fseed is not None: mkinput(fseed, os.path.join(wd, "in.c3d"))
        sp = os.path.join(wd, "s.txt"); open(sp, "w").write("\n".join(L).replace("@W@", wd) + "\n")
        pr = subprocess.run([ub, sp, os.path.join(wd, "u.h")], stdout=subprocess.PIPE, stderr=subprocess.PIPE, env=dict(os.environ, UBSAN_OPTIONS="halt_on_error=0:print_stacktrace=0"), timeout=600)
        run.cleanup(wd)
        import re
        return [("/repo/src/" + a, b) for a, b in re.findall(r"/src/(\w+\.cpp:\d+):\d+: runtime error: ([^\n]{0,60})", pr.stderr.decode("latin1"))]
    for found in core.pmap(oneub, jobs[: (20 if q else 200)] + jobs[-1:], workers=12):
        for site, msg in found: sites[site] = sites.get(site, 0) + 1
    EXPECTED = {"hex2uint", "hex2int"}     # the (int)pow(0x100,i) idiom
    def func_at(site):
        import re
        f, ln = site.rsplit(":", 1)
        name = "?"
        try:
            for i, l in enumerate(open(f, errors="replace").read().split("\n")[:int(ln)]):
                m = re.match(r"^\S.*?(\w+)\s*\([^;]*$", l)
                if m and not l.startswith(" ") and "::" in l: name = m.group(1)
        except Exception: pass
        return name
    for site, cnt in sites.items():
        fn = func_at(site)
        ctx.count("arith_ub_in_" + fn, cnt)
        if fn not in EXPECTED:
            ctx.fail("arith_ub_new_site", {"function": fn}, "arithmetic undefined behaviour executed in a function the model does not list: %s in %s (%d reports)" % (site, fn, cnt), ["# see evidence: UBSan signed-integer-overflow / float-cast-overflow report"])
    ctx.assumptions.append("hex2uint/hex2int (ezc3d.cpp:101-115) execute float->int conversions out of range and signed overflow on every header read (4-byte and 270-byte fields); "
                           "the model takes the x86-64 results (INT_MIN, wrap-around); the six-build comparison watches that gcc keeps producing them")
    return core.finish(ctx, "six uninstrumented builds of the current tree {-O0,-O2,-O3} x {static archive, shared object} run the same API histories (incl. refused calls and save/reload), "
                       "generated input files and the vendor files; exit status, every returned value / exception class (full dump stream) and every saved byte must be identical across the builds "
                       "and equal to the model; a UBSan (signed-integer-overflow, float-cast-overflow) build in recover mode lists the source lines where arithmetic UB is executed, which must be "
                       "exactly the known hex2uint/hex2int lines; distinct = input")

CHECKS.update({"C18": c18, "C19": c19})


# ------------------------------------------------------------------------------------------ replay
def replay(pid, path):
    """./check <ID> --replay <file>: run one replay file (an op script, or a damaged .c3d for the loader properties) again on the
    instrumented library and on the model, with the property's oracle. Exit 1 (and a VIOLATION line naming the file) if it
    still fails, KNOWN-FINDING lines for recorded findings, exit 0 otherwise. Writes no evidence."""
    path = os.path.abspath(path)
    if not os.path.exists(path): print("no such replay file:", path); return 2
    if path.endswith(".c3d"):
        lines = ["dumpmode shape", "load %s" % path]
    else:
        lines = [l for l in open(path, errors="replace").read().split("\n") if l.strip() and not l.startswith("#")]
    ctx = core.Ctx(pid, "replay", 0)
    ctx.audit = None
    api = {"C05": oracles.c05, "C06": oracles.c06, "C07": oracles.c07, "C08": oracles.c08, "C09": oracles.c09, "C10": oracles.c10, "C11": oracles.c11}
    if pid in api: oracle = api[pid]
    elif pid in ("C01", "C03", "C04"): oracle = _file_oracle({pid})
    else: oracle = None          # C02, C12-C19: an abort, a time-out or a disagreement with the model is the failure
    if pid in ("C01", "C03", "C04"):
        # the file oracles read the saved files: keep the work directory until the oracle has run
        res = run.run_pair(lines, ctx.exe("asan"), keep=True, timeout=300)
        ctx.record_pair(res, lines, "replay")
        try:
            for clause, where, detail in oracle(res):
                if clause.startswith("_"): ctx.count("oracle" + clause)
                else: ctx.fail(clause, where, detail, lines)
        finally:
            run.cleanup(res.wd)
    else:
        _run_scripts(ctx, [(lines, {}, "replay")], "replay", oracle, timeout=300)
    return core.finish(ctx, "replay of %s" % path, replay_of=path)
