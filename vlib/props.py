"""Per-property checks: which theorems, which lanes (generators), which oracle."""
import os, json, random
from . import core, gen, run, oracles, leanaudit, build, shrink as shrinker

def _run_scripts(ctx, scripts, lane, oracle=None, exe=None, scope=None, fill=0xA5, timeout=120):
    """scripts: list of (lines, stats, tag). Runs all in parallel, applies oracle to each result."""
    exe = exe or ctx.exe("asan")
    def one(item):
        lines, st, tag = item
        try:
            res = run.run_pair(lines, exe, fill=fill, timeout=timeout)
        except Exception as e:
            return item, None, repr(e)
        return item, res, None
    for (lines, st, tag), res, err in core.pmap(one, scripts):
        if res is None:
            ctx.notes.append("runner error: " + err); continue
        ctx.merge_stats(st)
        ctx.record_pair(res, [l.replace("@W@", "@W@") for l in lines], lane, scope)
        if len(ctx.samples) < 3: ctx.sample("[%s] " % lane + " ; ".join(lines[:12]))
        if oracle:
            try:
                fails = oracle(res)
            except Exception as e:
                import traceback
                ctx.notes.append("oracle error on %s: %s" % (tag, traceback.format_exc()[-400:])); fails = []
            for clause, where, detail in fails:
                ctx.fail(clause, where, detail, lines)

def _shrink_failures(ctx, oracle, exe=None, budget=3):
    """minimise the scripts of the first few non-known failures so the replay is small"""
    exe = exe or ctx.exe("asan")
    known = core.load_known()
    done = 0
    for f in ctx.failures:
        if core.match_known(ctx.pid, f, known) or done >= budget: continue
        clause = f.clause
        def pred(ls):
            r = run.run_pair(ls, exe)
            return any(c == clause for c, w, d in oracle(r))
        small = shrinker.shrink(f.lines, pred, max_tests=120)
        r = run.run_pair(small, exe)
        for c, w, d in oracle(r):
            if c == clause: f.where, f.detail = w, d; break
        f.lines = small
        done += 1

def api_scripts(ctx, n, nops=30, malformed=0.25, with_io=False, caller_mut=0.0, seed_off=0, long_names=True):
    out = []
    for i in range(n):
        seed = ctx.seed * 100003 + seed_off + i
        L, st = gen.gen_api_history(seed, nops=nops, malformed=malformed, with_io=("@W@/f%d" % i) if with_io else None, caller_mut=caller_mut)
        out.append((L, st, "api-%d" % seed))
    return out

def corpus_scripts(pid):
    d = os.path.join(core.CORPUS, pid)
    out = []
    if os.path.isdir(d):
        for f in sorted(os.listdir(d)):
            if f.endswith(".script"):
                lines = [l for l in open(os.path.join(d, f)).read().split("\n") if l and not l.startswith("#")]
                out.append((lines, {}, "corpus-" + f))
    return out

API_RULE = ("state-aware API histories (declare points/channels, rates, parameter edits of every type with 0-7 dimensions, "
            "frame append/replace/extend, point/channel columns, lock toggles, direct POINT/ANALOG edits; ~25% deliberately deviating calls) "
            "generated from one PRNG seeded by VERIF_SEED; each run on the sanitizer-instrumented library and on the Lean model, outputs diffed per op; "
            "a case is distinct/non-trivial by (lane, op kind, outcome class, size of the resulting dump)")

# ------------------------------------------------------------------------------------------
def check_api_property(ctx, oracle, n_quick, n_thorough, caller_mut=0.0, malformed=0.25, extra=None, scope=None, with_io=False, nops=30):
    ctx.audit = leanaudit.audit(ctx.pid, thorough=not ctx.quick)
    n = n_quick if ctx.quick else n_thorough
    scripts = corpus_scripts(ctx.pid) + api_scripts(ctx, n, caller_mut=caller_mut, malformed=malformed, with_io=with_io, nops=nops)
    if extra: scripts += extra(ctx)
    _run_scripts(ctx, scripts, "api", oracle, scope=scope)
    if ctx.failures: _shrink_failures(ctx, oracle)
    return core.finish(ctx, API_RULE)

def c06(ctx): return check_api_property(ctx, oracles.c06, 160, 4000)
def c07(ctx): return check_api_property(ctx, oracles.c07, 200, 5000, malformed=0.45)
def c08(ctx): return check_api_property(ctx, oracles.c08, 160, 3000, caller_mut=0.6)
def c10(ctx): return check_api_property(ctx, oracles.c10, 200, 5000, malformed=0.5)
def c05(ctx): return check_api_property(ctx, oracles.c05, 200, 5000, with_io=True)

def pset_scripts(ctx):
    r = random.Random(ctx.seed + 77)
    g = gen.G(ctx.seed + 78)
    L = ["new"]
    sizes = [0, 1, 2, 3, 5, 128, 255]
    n = 400 if ctx.quick else 6000
    for i in range(n):
        ty = r.choice("IFC")
        nd = r.choice([0, 1, 1, 2, 2, 3, 4, 5, 6, 7])
        dims = [r.choice(sizes if nd <= 2 else [0, 1, 2, 3]) for _ in range(nd)]
        prod = 1
        for d in dims: prod *= d
        k = r.random()
        if nd == 0: cnt = r.choice([0, 1, 2, 5])
        elif k < 0.6: cnt = prod
        elif k < 0.8: cnt = max(0, prod + r.choice([-1, 1]))
        else: cnt = r.choice([0, 1, prod * 2 + 1])
        if cnt > 700: cnt = prod = 0; dims = dims[:1] + [0]
        if ty == "I": vals = ",".join(str(g.int32()) for _ in range(cnt)) or "-"
        elif ty == "F": vals = ",".join(g.fbits() for _ in range(cnt)) or "-"
        else: vals = ",".join(gen.xhex(g.name(0)) for _ in range(cnt)) or "-"
        L.append("pset %s %s %s" % (ty, ",".join(map(str, dims)) or "-", vals))
        g.count("pset_%s_%dd_%s" % (ty, nd, "match" if cnt == prod else "mismatch"))
    # overflow shapes (size_t product wraps only beyond 2^64: must be refused when the count differs)
    for dims in ("128,128,128,128,128", "65536,65536", "4294967296,4294967296", "255,255,255,255,255,255,255"):
        L.append("pset I %s -" % dims); L.append("pset F %s 3f800000" % dims)
    return [(L, g.stats, "pset")]

def c09(ctx): return check_api_property(ctx, oracles.c09, 160, 4000, extra=pset_scripts)

def get_scripts(ctx):
    """C11: every container at sizes 0..6, indices {0..size-1,size,size+1,2^32,2^64-1}, names present/absent/case/space variants"""
    out = []
    r = random.Random(ctx.seed + 5)
    big = [2**32, 2**64 - 1]
    sizes = range(0, 5) if ctx.quick else range(0, 7)
    for np_ in sizes:
        for nc in ([0, 2] if ctx.quick else [0, 1, 3]):
            for nf in ([0, 1, 3] if ctx.quick else [0, 1, 2, 4]):
                g = gen.G(ctx.seed * 31 + np_ * 7 + nc * 3 + nf)
                L = ["new"]
                pn = [b"P%d" % i + (b"x" if i % 2 else b"Y") for i in range(np_)]
                cn = [b"c%d" % i for i in range(nc)]
                for n_ in pn: L.append("point " + gen.xhex(n_ + b"  "))     # declared with trailing spaces
                for n_ in cn: L.append("analog " + gen.xhex(n_))
                L.append("param %s %s x 0 F - %s" % (gen.xhex(b"POINT"), gen.xhex(b"RATE"), gen.f2h(100.0)))
                nsub = 2
                L.append("param %s %s x 0 F - %s" % (gen.xhex(b"ANALOG"), gen.xhex(b"RATE"), gen.f2h(200.0)))
                L.append("param %s %s %s 1 C 2 %s" % (gen.xhex(b"GRP"), gen.xhex(b"Strs"), gen.xhex(b"d"), "x6161,x62"))
                L.append("param %s %s x 0 I 3 1,-2,3" % (gen.xhex(b"GRP"), gen.xhex(b"ints")))
                for f in range(nf):
                    p, s = gen.frame_spec(g, [n_ + b" " for n_ in pn], cn, nsub if cn else 0)
                    L.append("mkframe v%d %s %s" % (f, p, s)); L.append("frame v%d" % f)
                L.append("dump")
                idxs = lambda n: list(range(n)) + [n, n + 1] + big
                for i in idxs(nf):
                    L.append("get frame %d" % i)
                for fi in ([0, nf] if nf else [0]):
                    for i in idxs(np_): L.append("get point %d %d" % (fi, i))
                    for key in pn[:2] + [b"nope", b"p0y", b"P0Y ", b""]:
                        L.append("get pointn %d %s" % (fi, gen.xhex(key))); L.append("get pointidx %d %s" % (fi, gen.xhex(key)))
                    for k in idxs(nsub if (cn and nf) else 0):
                        L.append("get sub %d %d" % (fi, k))
                    for i in idxs(nc):
                        L.append("get chan %d 0 %d" % (fi, i))
                    for key in cn[:2] + [b"C0", b"zz"]:
                        L.append("get chann %d 0 %s" % (fi, gen.xhex(key))); L.append("get chanidx %d 1 %s" % (fi, gen.xhex(key)))
                for i in idxs(4): L.append("get group %d" % i)
                for key in [b"POINT", b"point", b"GRP", b"GRP ", b"ANALOG", b"none"]:
                    L.append("get groupn %s" % gen.xhex(key)); L.append("get groupidx %s" % gen.xhex(key))
                for gi in (0, 3, 4, 2**64 - 1):
                    for i in idxs(2 if gi == 3 else 8): L.append("get param %d %d" % (gi, i))
                    for key in [b"USED", b"used", b"Strs", b"STRS", b"ints", b""]: L.append("get paramidx %d %s" % (gi, gen.xhex(key)))
                for key in [(b"POINT", b"USED"), (b"POINT", b"NOPE"), (b"NOPE", b"USED"), (b"GRP", b"ints")]:
                    L.append("get paramn %s %s" % (gen.xhex(key[0]), gen.xhex(key[1])))
                for gi, pi in ((0, 0), (0, 1), (0, 5), (3, 0), (3, 1), (1, 4)):
                    for ty in "BIFC": L.append("get vals %d %d %s" % (gi, pi, ty))
                for i in idxs(18): L.append("get evtime %d" % i); L.append("get evlabel %d" % i)
                for i in idxs(9): L.append("get evdisplay %d" % i)
                out.append((L, {"grid_np%d_nc%d_nf%d" % (np_, nc, nf): 1}, "get-%d-%d-%d" % (np_, nc, nf)))
    return out

def c11(ctx):
    ctx.audit = leanaudit.audit(ctx.pid, thorough=not ctx.quick)
    scripts = corpus_scripts(ctx.pid) + get_scripts(ctx)
    _run_scripts(ctx, scripts, "get", oracles.c11)
    # loaded vendor file: containers filled by the reader (byte-typed values, events)
    L = ["dumpmode shape", "load /repo/test/c3dFiles/Vicon.c3d", "dumpmode full"]
    for i in [0, 1, 579, 580, 581, 2**32, 2**64 - 1]: L.append("get frame %d" % i)
    for i in [0, 50, 51, 52, 2**64 - 1]: L.append("get point 0 %d" % i); L.append("get chan 0 0 %d" % i)
    _run_scripts(ctx, [(L, {}, "vicon")], "get-file", None)
    ctx.exhaustive = True
    if ctx.failures: _shrink_failures(ctx, oracles.c11, budget=1)
    return core.finish(ctx, "complete grid: container sizes x indices {0..size-1,size,size+1,2^32,2^64-1} x names {present, absent, case variant, space padded, empty} "
                       "for frames, points, sub-frames, channels, groups, parameters, header events, and every type x every value getter; "
                       "each look-up on the instrumented library, on the Lean model, and against the container content (oracle)")

CHECKS = {"C05": c05, "C06": c06, "C07": c07, "C08": c08, "C09": c09, "C10": c10, "C11": c11}
