"""Script generators. Every random choice derives from one PRNG (random.Random(seed)) so a
disagreement replays exactly; a script is a plain text file (one op per line)."""
import random, struct

SPECIAL = [0x00, 0x09, 0x1f, 0x20, 0x21, 0x40, 0x41, 0x5a, 0x5b, 0x60, 0x61, 0x7a, 0x7b, 0x7f, 0x80, 0xff]
ORD = list(b"ABCXYZabcxyz0189_")
LENS = [0, 1, 2, 3, 4, 5, 15, 16, 17]
LONGLENS = [127, 128, 255]

def xhex(b): return "x" + bytes(b).hex()
def f2h(f): return struct.pack(">f", f).hex()

class G:
    def __init__(self, seed, within_capacity=False, rep=False):
        self.r = random.Random(seed)
        self.stats = {}
        self.within_capacity = within_capacity   # names <= 127, no beyond-limit content
        self.rep = rep                           # string values the space-padded cell format can hold
    def count(self, k, n=1): self.stats[k] = self.stats.get(k, 0) + n
    def byte(self, special=0.15, nul=True):
        if self.r.random() < special:
            b = self.r.choice(SPECIAL)
            if b == 0 and not nul: b = 0x20
            return b
        return self.r.choice(ORD)
    def name(self, minlen=1, special=0.15, long_=0.02, nul=False):
        if self.r.random() < long_: n = self.r.choice([127] if self.within_capacity else LONGLENS)
        else: n = self.r.choice([l for l in LENS if l >= minlen])
        return bytes(self.byte(special, nul) for _ in range(n))
    def simple_name(self, prefix=b"p"):
        return prefix + bytes(self.r.choice(b"abcdefgh0123") for _ in range(self.r.randint(1, 4)))
    def fbits(self):
        """float bit pattern: exponent x sign x mantissa grid + ordinary values"""
        c = self.r.random()
        if c < 0.5:
            return f2h(self.r.choice([0.0, 1.0, -1.0, 0.5, 2.0, 100.0, 3.14159, -1234.5, 1e-3, 1e6]))
        e = self.r.randint(0, 255); s = self.r.randint(0, 1)
        m = self.r.choice([0, 1, 0x400000, 0x7fffff, self.r.randint(0, 0x7fffff)])
        return "%08x" % ((s << 31) | (e << 23) | m)
    def rate_bits(self):
        return f2h(self.r.choice([1.0, 10.0, 50.0, 100.0, 120.0, 29.97, 1000.0, 0.5, 2000.0]))
    def int16(self):
        return self.r.choice([0, 1, 2, -1, 127, 128, 255, 256, 32767, -32768, -2, self.r.randint(-32768, 32767)])
    def int32(self):
        return self.r.choice([0, 1, -1, 32767, 32768, -32768, -32769, 65535, 65536, 2**31 - 1, -2**31, self.r.randint(-2**31, 2**31 - 1)])

def point_str(g, name):
    return "%s:%s:%s:%s:%s" % (xhex(name), g.fbits(), g.fbits(), g.fbits(), g.fbits())

def frame_spec(g, pnames, cnames, nsub):
    pts = ";".join(point_str(g, n) for n in pnames) or "-"
    if nsub == 0 or (not cnames and g.r.random() < 0.7): subs = "-"
    else:
        sfs = []
        for _ in range(nsub):
            sfs.append(";".join("%s:%s" % (xhex(n), g.fbits()) for n in cnames) or "e")
        subs = "|".join(sfs)
    return pts, subs

def param_line(g, group, name, ptype=None, valid=True, dims_n=None, desc=None, locked=None, vals16=True):
    """a `param` op line with a random shape; valid=False makes data/shape disagree"""
    r = g.r
    ptype = ptype or r.choice("IFC")
    nd = r.choice([0, 0, 1, 1, 2, 2, 3, 4, 7]) if dims_n is None else dims_n
    sizes = [0, 1, 1, 2, 2, 3, 5]
    dims = [r.choice(sizes) for _ in range(nd)]
    n = 1
    for d in dims: n *= d
    if nd == 0: n = r.choice([0, 1, 2, 3, 5]); dimstr = "-"
    else: dimstr = ",".join(map(str, dims))
    if not valid:
        n = n + r.choice([1, 2]) if (n == 0 or r.random() < 0.5) else n - 1
    n = min(n, 400)
    if ptype == "I": vals = ",".join(str(g.int16() if vals16 else g.int32()) for _ in range(n)) or "-"
    elif ptype == "F": vals = ",".join(g.fbits() for _ in range(n)) or "-"
    else: vals = ",".join(xhex(g.name(0, nul=False).rstrip(b" ") if g.rep else g.name(0, nul=False)) for _ in range(n)) or "-"
    if desc is None: desc = (g.name(0, special=0.1, long_=0.0, nul=False) + (bytes(g.byte(0.1, False) for _ in range(r.choice([0, 100, 111, 128, 238]))) if r.random() < 0.1 else b"")) if r.random() < 0.5 else b""
    if locked is None: locked = r.random() < 0.3
    g.count("param_%s_%dd" % (ptype, nd))
    return "param %s %s %s %d %s %s %s" % (xhex(group), xhex(name), xhex(desc), int(locked), ptype, dimstr, vals)

class Shadow:
    """approximate mirror of the object's shape so that most generated calls are valid"""
    def __init__(self):
        self.pts, self.chs = [], []
        self.prate = self.arate = 0.0
        self.frames = []          # list of (npts, nsubs) per stored frame
        self.desync = False
    def nabf(self):
        if self.frames and self.frames[0][1]: return self.frames[0][1]
        if not self.prate: return 1
        import math, struct
        q = struct.unpack("<f", struct.pack("<f", self.arate / self.prate))[0]     # the library rounds the 32-bit quotient (fix fd58235)
        return int(math.floor(q + 0.5))
    def frame_ok(self, pn, cn, ns):
        pn = [n.rstrip(b" ") for n in pn]
        if self.pts and len(pn) != len(self.pts): return False
        if any(l not in pn for l in self.pts): return False
        if pn and not self.prate: return False
        if ns and not self.arate: return False
        if ns and not (len(self.chs) == 0 and self.nabf() == 0) and len(cn) != len(self.chs): return False
        return True
    def store(self, pn, cn, ns, idx):
        ent = (len(pn), ns if True else 0)
        first = not self.frames
        if idx is None: self.frames.append(ent)
        else:
            while len(self.frames) <= idx: self.frames.append((0, 0))
            self.frames[idx] = ent
        # parameters follow frame 0
        if self.frames[0][0] != len(self.pts) and (first or idx == 0):
            self.pts = [n.rstrip(b" ") for n in pn]
        if (first or idx == 0):
            if ns and len(cn) != len(self.chs): self.chs = [n.rstrip(b" ") for n in cn]
            if not ns and self.chs: self.chs = []

def gen_api_history(seed, nops=30, malformed=0.25, with_io=None, caller_mut=0.0, big=False, within_capacity=False, rep=False):
    """state-aware history over the full op alphabet; returns (lines, stats).
    with_io: None, or a path prefix for save/reload ops."""
    g = G(seed, within_capacity, rep); r = g.r
    L = ["new"]
    S = Shadow()
    nsub = 1
    groups = [b"POINT", b"ANALOG", b"FORCE_PLATFORM"]
    nvar = 0
    nsave = [0]
    def savepath():
        nsave[0] += 1; return "%s.%d.c3d" % (with_io, nsave[0])
    def newvar():
        nonlocal nvar; nvar += 1; return "v%d" % nvar
    def set_prate(v):
        S.prate = v; L.append("param %s %s x 0 F - %s" % (xhex(b"POINT"), xhex(b"RATE"), f2h(v)))
    def set_arate(v):
        S.arate = v; L.append("param %s %s x 0 F - %s" % (xhex(b"ANALOG"), xhex(b"RATE"), f2h(v)))
    # a typical prefix most of the time so that histories reach interesting states
    if r.random() < 0.9:
        for _ in range(r.choice([0, 1, 2, 3, 3, 5] if not big else [8, 20])):
            n = g.simple_name(b"P")
            if n not in S.pts: S.pts.append(n); L.append("point " + xhex(n))
        for _ in range(r.choice([0, 0, 1, 2, 3] if not big else [6, 12])):
            n = g.simple_name(b"C")
            if n not in S.chs: S.chs.append(n); L.append("analog " + xhex(n))
        if r.random() < 0.95: set_prate(r.choice([50.0, 100.0, 120.0, 10.0, 2.5, 1.5, 12.5, 0.5, 0.25]))     # fractional rates: the sub-frame count is a float quotient; rates below 1 Hz truncate to 0 but are not 0
        if S.prate and r.random() < 0.9:
            # below 1 Hz the library takes ONE sub-frame per frame whatever the ratio (static_cast<size_t>(rate) == 0): keep the histories valid
            nsub = 1 if S.prate < 1.0 else r.choice([1, 1, 2, 3, 5, 4] + ([80] if S.prate == 12.5 else [])); set_arate(S.prate * nsub)
    for _ in range(nops):
        c = r.random()
        bad = r.random() < malformed
        nframes = len(S.frames)
        if c < 0.30:   # frame
            v = newvar()
            pn = list(S.pts); cn = list(S.chs)
            ns = (S.nabf() if S.arate else 0) if S.chs else r.choice([0, 0, S.nabf() if S.arate else 0])
            if not S.chs and ns and (r.random() < 0.7 or malformed == 0.0): ns = 0
            if bad:
                # one deviation, sometimes two at once (e.g. an undeclared point AND a channel too many: the call is refused by a
                # LATER guard than the one the first deviation passes)
                kinds = ["fewpt", "morept", "rename", "dup", "empty", "fewch", "morech", "nsub", "swap"]
                devs = [r.choice(kinds)] + ([r.choice(kinds)] if r.random() < 0.3 else [])
                for dev in devs:
                    g.count("dev_" + dev)
                    if dev == "fewpt" and pn: pn.pop(r.randrange(len(pn)))
                    elif dev == "morept": pn.append(g.simple_name(b"Q"))
                    elif dev == "rename" and pn: pn[r.randrange(len(pn))] = g.simple_name(b"R")
                    elif dev == "dup" and pn: pn[r.randrange(len(pn))] = pn[0]
                    elif dev == "empty": pn, cn, ns = [], [], 0
                    elif dev == "fewch" and cn: cn.pop()
                    elif dev == "morech": cn.append(g.simple_name(b"D")); ns = max(ns, 1)
                    elif dev == "nsub": ns = r.choice([0, ns + 1, max(ns - 1, 0)])
                    elif dev == "swap" and len(pn) > 1: pn[0], pn[1] = pn[1], pn[0]
            if ns == 0: cn_eff = []
            else: cn_eff = cn
            p, s_ = frame_spec(g, pn, cn_eff, ns)
            if s_ == "-": ns = 0
            L.append("mkframe %s %s %s" % (v, p, s_))
            k = r.random()
            if nframes > 0 and r.random() < 0.08:      # hand a stored frame of the object back to it (self-aliasing argument)
                src = r.randrange(nframes)
                tgt = r.choice([None, 0, nframes - 1, nframes, nframes + 1, nframes + 3] if malformed > 0 else [None, 0, nframes - 1, nframes])
                L.append("frameself %d" % src if tgt is None else "frameself %d %d" % (src, tgt)); g.count("op_frameself")
                if S.frames[src][0] == len(S.pts):
                    if tgt is None: S.frames.append(S.frames[src])
                    else:
                        while len(S.frames) <= tgt: S.frames.append((0, 0))
                        S.frames[tgt] = S.frames[src]
                continue
            if k < 0.6 or nframes == 0: L.append("frame %s" % v); idx = None
            else:
                idx = r.choice([0, max(nframes - 1, 0), nframes, nframes + 1, nframes + r.randint(2, 4), r.randrange(nframes)] if malformed > 0
                               else [0, nframes - 1, nframes, r.randrange(nframes)])
                L.append("frame %s %d" % (v, idx))
            g.count("op_frame")
            ok = S.frame_ok(pn, cn_eff, ns)
            if ok: S.store(pn, cn_eff, ns, idx)
            if caller_mut and r.random() < caller_mut:
                # mutate / re-submit the caller's object
                if pn: L.append("cmut %s pt %d %s %s %s %s" % (v, r.randrange(len(pn)), g.fbits(), g.fbits(), g.fbits(), g.fbits()))
                if ns and cn_eff and r.random() < 0.5: L.append("cmut %s ch %d %d %s" % (v, r.randrange(ns), r.randrange(len(cn_eff)), g.fbits()))
                # writes through the BY-NAME accessors (a container that shares storage between copies must detach on these too)
                if ns and cn_eff and r.random() < 0.5: L.append("cmut %s chn %d %s %s" % (v, r.randrange(ns), xhex(r.choice(cn_eff).rstrip(b" ")), g.fbits()))
                if pn and r.random() < 0.3: L.append("cmut %s ptn %s %s" % (v, xhex(r.choice(pn).rstrip(b" ")), g.fbits()))
                L.append("dump")
                if r.random() < 0.6:
                    L.append("frame %s" % v)
                    if S.frame_ok(pn, cn_eff, ns): S.store(pn, cn_eff, ns, None)
                    if pn: L.append("cmut %s pt 0 %s %s %s %s" % (v, g.fbits(), g.fbits(), g.fbits(), g.fbits()))
                    L.append("dump")
                if S.frames and r.random() < 0.6:
                    fi = r.randrange(len(S.frames))
                    if S.frames[fi][0]: L.append("smut %d pt %d %s %s %s %s" % (fi, r.randrange(S.frames[fi][0]), g.fbits(), g.fbits(), g.fbits(), g.fbits()))
                    if S.frames[fi][1] and S.chs and r.random() < 0.6: L.append("smut %d chn %d %s %s" % (fi, r.randrange(S.frames[fi][1]), xhex(r.choice(S.chs).rstrip(b" ")), g.fbits()))
                    if S.frames[fi][0] and S.pts and r.random() < 0.3: L.append("smut %d ptn %s %s" % (fi, xhex(r.choice(S.pts).rstrip(b" ")), g.fbits()))
                if r.random() < 0.3:
                    L.append("cmut %s addpt %s" % (v, point_str(g, g.simple_name(b"Z")))); L.append("dump")
                if S.frames and r.random() < 0.5:
                    # a by-value copy of a stored frame used as a template: refilled through Frame::add, then (sometimes) appended
                    fi = r.randrange(len(S.frames)); tv = "t%d" % len(L)
                    p2, s2 = frame_spec(g, pn, cn_eff, ns)
                    L.append("cpframe %s %d" % (tv, fi)); L.append("refill %s %s %s" % (tv, p2, s2)); L.append("dump")
                    if r.random() < 0.5:
                        L.append("frame %s" % tv)
                        if S.frame_ok(pn, cn_eff, ns): S.store(pn, cn_eff, ns, None)
                        L.append("refill %s %s %s" % (tv, p, s_)); L.append("dump")
        elif c < 0.40:  # point by name
            n = g.simple_name(b"P") if not bad else (r.choice(S.pts) if S.pts and r.random() < 0.6 else g.name(0, special=0.3))
            L.append("point " + xhex(n)); g.count("op_point")
            if nframes == 0: S.pts.append(n)
            elif n.rstrip(b" ") not in S.pts:
                S.pts.append(n.rstrip(b" ")); S.frames = [(a + 1, b) for a, b in S.frames]
        elif c < 0.48:  # analog by name
            n = g.simple_name(b"C") if not bad else (r.choice(S.chs) if S.chs and r.random() < 0.6 else g.name(0, special=0.3))
            L.append("analog " + xhex(n)); g.count("op_analog")
            if nframes == 0: S.chs.append(n)
            elif n.rstrip(b" ") not in S.chs and S.nabf() > 0 and all(b == S.nabf() for a, b in S.frames):
                S.chs.append(n.rstrip(b" "))
        elif c < 0.56:  # point columns
            k = r.choice([1, 1, 2, 3]); names = [g.simple_name(b"K") for _ in range(k)]
            nf = nframes; dev = None
            if bad:
                dev = r.choice(["dup2", "nframes", "none", "short", "empty"]); g.count("cdev_" + dev)
                if dev == "dup2" and S.pts: names[-1] = r.choice(S.pts)
                elif dev == "nframes": nf = max(0, nframes + r.choice([-1, 1]))
                elif dev == "none": nf = 0
            vs = []
            for f in range(min(nf, 40)):
                v = newvar(); vs.append(v)
                nn = names if not (dev == "short" and f == nf - 1) else names[:-1]
                if dev == "empty": nn = []
                L.append("mkframe %s %s -" % (v, ";".join(point_str(g, n) for n in nn) or "-"))
            L.append("pointcol " + " ".join(vs) if vs else "pointcol"); g.count("op_pointcol")
            if nf == nframes and nf > 0 and dev in (None, "nframes") and len(set(names)) == len(names) and not any(n in S.pts for n in names):
                S.pts.extend(names); S.frames = [(a + len(names), b) for a, b in S.frames]
        elif c < 0.64:  # analog columns
            k = r.choice([1, 1, 2]); names = [g.simple_name(b"A") for _ in range(k)]
            nf = nframes; ns = S.nabf(); dev = None
            if bad:
                dev = r.choice(["dup2", "nframes", "none", "nsub", "empty", "short"]); g.count("cdev_" + dev)
                if dev == "dup2" and S.chs: names[-1] = r.choice(S.chs)
                elif dev == "nframes": nf = max(0, nframes + r.choice([-1, 1]))
                elif dev == "none": nf = 0
                elif dev == "nsub": ns = r.choice([0, ns + 1, max(ns - 1, 0)])
            vs = []
            for f in range(min(nf, 40)):
                v = newvar(); vs.append(v)
                nn = names if not (dev == "short" and f == nf - 1) else names[:-1]
                if dev == "empty": nn = []
                sub = ";".join("%s:%s" % (xhex(n), g.fbits()) for n in nn) or "e"
                L.append("mkframe %s - %s" % (v, "|".join([sub] * ns) or "-"))
            L.append("analogcol " + " ".join(vs) if vs else "analogcol"); g.count("op_analogcol")
            if nf == nframes and nf > 0 and dev in (None, "nframes") and ns == S.nabf() and ns > 0 and len(set(names)) == len(names) \
               and not any(n in S.chs for n in names) and all(b == ns for a, b in S.frames):
                S.chs.extend(names)
        elif c < 0.84 and r.random() < 0.07:   # hand a parameter STORED in the object back to it, into a new or an existing group
            sg, sp = r.choice([(b"POINT", b"RATE"), (b"POINT", b"LABELS"), (b"ANALOG", b"USED"), (b"FORCE_PLATFORM", b"ZERO"), (b"ANALOG", b"SCALE")] if not bad
                              else [(b"POINT", b"NOPE"), (b"NOGROUP", b"RATE"), (b"POINT", b"UNITS")])
            others = [x for x in groups if x.strip().upper() not in (b"POINT", b"ANALOG")]    # never onto the parameters the object derives its shape from
            dg = r.choice(others) if others and r.random() < 0.3 else g.simple_name(b"G")
            if dg not in groups: groups.append(dg)
            L.append("paramself %s %s %s" % (xhex(sg), xhex(sp), xhex(dg))); g.count("op_paramself")
        elif c < 0.84:  # parameter edits
            k = r.random()
            if k < 0.5:
                grp = r.choice(groups)
            elif k < 0.8:
                grp = g.name(1, special=0.1); groups.append(grp)
            else:
                grp = r.choice([b"point", b"POINT ", b"Point", b""] if not g.within_capacity else [b"point", b"POINT ", b"Point"])
            if bad and r.random() < 0.3:
                nm = b"" if r.random() < 0.5 else g.name(1)
                ty = "N" if nm else r.choice("IFC")
                L.append("param %s %s x 0 %s - -" % (xhex(grp), xhex(nm), ty)); g.count("op_param_refused")
            else:
                nm = r.choice([b"A", b"B", b"a", b"LONGNAME", g.name(1, special=0.1)])
                # names the writer treats specially, outside the group where they are special
                if grp.strip().upper() != b"POINT" and r.random() < 0.12: nm = b"DATA_START"; g.count("param_named_DATA_START")
                L.append(param_line(g, grp, nm, valid=not (bad and r.random() < 0.5)))
            g.count("op_param")
        elif c < 0.90:
            grp = r.choice(groups) if not bad else g.name(0)
            L.append(("lock " if r.random() < 0.5 else "unlock ") + xhex(grp)); g.count("op_lock")
        elif c < 0.94:  # rate / count edits through parameter()
            which = r.choice(["prate", "arate", "prate", "arate", "used", "frames", "aused"]) if bad else r.choice(["prate", "arate"])
            g.count("op_edit_" + which)
            if which == "prate": set_prate(r.choice([50.0, 100.0, 0.0, 25.0] if bad else [50.0, 100.0, 25.0]))
            elif which == "arate": set_arate(r.choice([S.prate * 2, S.prate, 0.0, 1000.0] if bad else [S.prate * 2, S.prate, S.prate * 3]))
            elif which == "used": L.append("param %s %s x 1 I - %d" % (xhex(b"POINT"), xhex(b"USED"), r.choice([0, len(S.pts), len(S.pts) + 1, 1])))
            elif which == "aused": L.append("param %s %s x 1 I - %d" % (xhex(b"ANALOG"), xhex(b"USED"), r.choice([0, len(S.chs), len(S.chs) + 1, 1])))
            else: L.append("param %s %s x 1 I - %d" % (xhex(b"POINT"), xhex(b"FRAMES"), r.choice([0, nframes, nframes + 1])))
        else:
            if with_io and r.random() < 0.7:
                sp = savepath(); L.append("save %s" % sp); L.append("load %s" % sp); g.count("op_reload")
            else:
                L.append("print"); g.count("op_print")
    if with_io:
        sp = savepath(); L.append("save %s" % sp); L.append("load %s" % sp); L.append("save %s" % savepath())
    return L, g.stats
