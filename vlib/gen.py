"""Script generators. Every random choice derives from one PRNG (random.Random(seed)) so a
disagreement replays exactly; a script is a plain text file (one op per line)."""
import random, struct

SPECIAL = [0x00, 0x09, 0x1f, 0x20, 0x21, 0x40, 0x41, 0x5a, 0x5b, 0x60, 0x61, 0x7a, 0x7b, 0x7f, 0x80, 0xff]
ORD = list(b"ABCXYZabcxyz0189_")
LENS = [0, 1, 2, 3, 4, 5, 15, 16, 17]
LONGLENS = [127, 128, 255]

def xhex(b): return "x" + bytes(b).hex()
def f2h(f): return struct.pack(">f", f).hex()

class G:
    def __init__(self, seed):
        self.r = random.Random(seed)
        self.stats = {}
    def count(self, k, n=1): self.stats[k] = self.stats.get(k, 0) + n
    def byte(self, special=0.15, nul=True):
        if self.r.random() < special:
            b = self.r.choice(SPECIAL)
            if b == 0 and not nul: b = 0x20
            return b
        return self.r.choice(ORD)
    def name(self, minlen=1, special=0.15, long_=0.02, nul=False):
        if self.r.random() < long_: n = self.r.choice(LONGLENS)
        else: n = self.r.choice([l for l in LENS if l >= minlen])
        return bytes(self.byte(special, nul) for _ in range(n))
    def simple_name(self, prefix=b"p"):
        return prefix + bytes(self.r.choice(b"abcdefgh0123") for _ in range(self.r.randint(1, 4)))
    def fbits(self):
        """float bit pattern: exponent x sign x mantissa grid + ordinary values"""
        c = self.r.random()
        if c < 0.5:
            return f2h(self.r.choice([0.0, 1.0, -1.0, 0.5, 2.0, 100.0, 3.14159, -1234.5, 1e-3, 1e6]))
        e = self.r.randint(0, 255); s = self.r.randint(0, 1)
        m = self.r.choice([0, 1, 0x400000, 0x7fffff, self.r.randint(0, 0x7fffff)])
        return "%08x" % ((s << 31) | (e << 23) | m)
    def rate_bits(self):
        return f2h(self.r.choice([1.0, 10.0, 50.0, 100.0, 120.0, 29.97, 1000.0, 0.5, 2000.0]))
    def int16(self):
        return self.r.choice([0, 1, 2, -1, 127, 128, 255, 256, 32767, -32768, -2, self.r.randint(-32768, 32767)])
    def int32(self):
        return self.r.choice([0, 1, -1, 32767, 32768, -32768, -32769, 65535, 65536, 2**31 - 1, -2**31, self.r.randint(-2**31, 2**31 - 1)])

def point_str(g, name):
    return "%s:%s:%s:%s:%s" % (xhex(name), g.fbits(), g.fbits(), g.fbits(), g.fbits())

def frame_spec(g, pnames, cnames, nsub):
    pts = ";".join(point_str(g, n) for n in pnames) or "-"
    if nsub == 0 or (not cnames and g.r.random() < 0.7): subs = "-"
    else:
        sfs = []
        for _ in range(nsub):
            sfs.append(";".join("%s:%s" % (xhex(n), g.fbits()) for n in cnames) or "e")
        subs = "|".join(sfs)
    return pts, subs

def param_line(g, group, name, ptype=None, valid=True, dims_n=None, desc=None, locked=None, vals16=True):
    """a `param` op line with a random shape; valid=False makes data/shape disagree"""
    r = g.r
    ptype = ptype or r.choice("IFC")
    nd = r.choice([0, 0, 1, 1, 2, 2, 3, 4, 7]) if dims_n is None else dims_n
    sizes = [0, 1, 1, 2, 2, 3, 5]
    dims = [r.choice(sizes) for _ in range(nd)]
    n = 1
    for d in dims: n *= d
    if nd == 0: n = r.choice([0, 1, 2, 3, 5]); dimstr = "-"
    else: dimstr = ",".join(map(str, dims))
    if not valid:
        n = n + r.choice([1, 2]) if (n == 0 or r.random() < 0.5) else n - 1
    n = min(n, 400)
    if ptype == "I": vals = ",".join(str(g.int16() if vals16 else g.int32()) for _ in range(n)) or "-"
    elif ptype == "F": vals = ",".join(g.fbits() for _ in range(n)) or "-"
    else: vals = ",".join(xhex(g.name(0, nul=False)) for _ in range(n)) or "-"
    if desc is None: desc = g.name(0, special=0.1, long_=0.05, nul=False) if r.random() < 0.5 else b""
    if locked is None: locked = r.random() < 0.3
    g.count("param_%s_%dd" % (ptype, nd))
    return "param %s %s %s %d %s %s %s" % (xhex(group), xhex(name), xhex(desc), int(locked), ptype, dimstr, vals)

def gen_api_history(seed, nops=30, malformed=0.25, with_io=None, caller_mut=0.0, big=False):
    """state-aware history over the full op alphabet; returns list of lines.
    with_io: None, or a path prefix for save/reload ops."""
    g = G(seed); r = g.r
    L = ["new"]
    pts, chs = [], []          # declared names (upper/lower mixed)
    prate = arate = 0.0
    nsub = 1
    nframes = 0
    groups = [b"POINT", b"ANALOG", b"FORCE_PLATFORM"]
    nvar = 0
    nsave = [0]
    def savepath():
        nsave[0] += 1; return "%s.%d.c3d" % (with_io, nsave[0])
    def newvar():
        nonlocal nvar; nvar += 1; return "v%d" % nvar
    # a typical prefix most of the time so that histories reach interesting states
    if r.random() < 0.85:
        for _ in range(r.choice([0, 1, 2, 3, 3, 5] if not big else [8, 20])):
            n = g.simple_name(b"P")
            if n not in pts: pts.append(n); L.append("point " + xhex(n))
        for _ in range(r.choice([0, 0, 1, 2, 3] if not big else [6, 12])):
            n = g.simple_name(b"C")
            if n not in chs: chs.append(n); L.append("analog " + xhex(n))
        if r.random() < 0.9:
            prate = r.choice([50.0, 100.0, 120.0, 10.0]); L.append("param %s %s x 0 F - %s" % (xhex(b"POINT"), xhex(b"RATE"), f2h(prate)))
        if r.random() < 0.8:
            nsub = r.choice([1, 1, 2, 3, 5]); arate = prate * nsub
            L.append("param %s %s x 0 F - %s" % (xhex(b"ANALOG"), xhex(b"RATE"), f2h(arate)))
    for _ in range(nops):
        c = r.random()
        bad = r.random() < malformed
        if c < 0.30:   # frame
            v = newvar()
            pn = list(pts); cn = list(chs); ns = nsub if chs else r.choice([0, 0, nsub])
            if bad:
                dev = r.choice(["fewpt", "morept", "rename", "dup", "empty", "fewch", "morech", "nsub", "swap"])
                g.count("dev_" + dev)
                if dev == "fewpt" and pn: pn.pop(r.randrange(len(pn)))
                elif dev == "morept": pn.append(g.simple_name(b"Q"))
                elif dev == "rename" and pn: pn[r.randrange(len(pn))] = g.simple_name(b"R")
                elif dev == "dup" and pn: pn[r.randrange(len(pn))] = pn[0]
                elif dev == "empty": pn, cn, ns = [], [], 0
                elif dev == "fewch" and cn: cn.pop()
                elif dev == "morech": cn.append(g.simple_name(b"D")); ns = max(ns, 1)
                elif dev == "nsub": ns = r.choice([0, ns + 1, max(ns - 1, 0)])
                elif dev == "swap" and len(pn) > 1: pn[0], pn[1] = pn[1], pn[0]
            p, s = frame_spec(g, pn, cn, ns)
            L.append("mkframe %s %s %s" % (v, p, s))
            k = r.random()
            if k < 0.6 or nframes == 0: L.append("frame %s" % v); idx = None
            else:
                idx = r.choice([0, max(nframes - 1, 0), nframes, nframes + 1, nframes + r.randint(2, 4), r.randrange(nframes)])
                L.append("frame %s %d" % (v, idx))
            g.count("op_frame")
            if not bad:
                nframes = nframes + 1 if idx is None else max(nframes, idx + 1)
            if caller_mut and r.random() < caller_mut:
                # mutate / re-submit the caller's object
                if pn: L.append("cmut %s pt %d %s %s %s %s" % (v, r.randrange(len(pn)), g.fbits(), g.fbits(), g.fbits(), g.fbits()))
                if r.random() < 0.5: L.append("frame %s" % v); nframes += 0 if bad else 1
                if pn and r.random() < 0.5: L.append("cmut %s pt 0 %s %s %s %s" % (v, g.fbits(), g.fbits(), g.fbits(), g.fbits()))
                if nframes and pn and r.random() < 0.5: L.append("smut %d pt 0 %s %s %s %s" % (r.randrange(max(nframes, 1)), g.fbits(), g.fbits(), g.fbits(), g.fbits()))
                L.append("dump")
        elif c < 0.40:  # point by name
            n = g.simple_name(b"P") if not bad else (r.choice(pts) if pts and r.random() < 0.6 else g.name(0, special=0.3))
            L.append("point " + xhex(n)); g.count("op_point")
            if n not in pts and not bad: pts.append(n)
        elif c < 0.48:  # analog by name
            n = g.simple_name(b"C") if not bad else (r.choice(chs) if chs and r.random() < 0.6 else g.name(0, special=0.3))
            L.append("analog " + xhex(n)); g.count("op_analog")
            if n not in chs and not bad: chs.append(n)
        elif c < 0.56:  # point columns
            k = r.choice([1, 1, 2, 3]); names = [g.simple_name(b"K") for _ in range(k)]
            nf = nframes
            if bad:
                dev = r.choice(["dup2", "nframes", "none", "short", "empty"]); g.count("cdev_" + dev)
                if dev == "dup2" and pts: names[-1] = r.choice(pts)
                elif dev == "nframes": nf = max(0, nframes + r.choice([-1, 1]))
                elif dev == "none": nf = 0
            vs = []
            for f in range(nf):
                v = newvar(); vs.append(v)
                nn = names if not (bad and dev == "short" and f == nf - 1) else names[:-1]
                if bad and dev == "empty": nn = []
                L.append("mkframe %s %s -" % (v, ";".join(point_str(g, n) for n in nn) or "-"))
            L.append("pointcol " + " ".join(vs) if vs else "pointcol"); g.count("op_pointcol")
        elif c < 0.64:  # analog columns
            k = r.choice([1, 1, 2]); names = [g.simple_name(b"A") for _ in range(k)]
            nf = nframes; ns = nsub
            if bad:
                dev = r.choice(["dup2", "nframes", "none", "nsub", "empty", "short"]); g.count("cdev_" + dev)
                if dev == "dup2" and chs: names[-1] = r.choice(chs)
                elif dev == "nframes": nf = max(0, nframes + r.choice([-1, 1]))
                elif dev == "none": nf = 0
                elif dev == "nsub": ns = r.choice([0, nsub + 1, max(nsub - 1, 0)])
            vs = []
            for f in range(nf):
                v = newvar(); vs.append(v)
                nn = names if not (bad and dev == "short" and f == nf - 1) else names[:-1]
                if bad and dev == "empty": nn = []
                sub = ";".join("%s:%s" % (xhex(n), g.fbits()) for n in nn) or "e"
                L.append("mkframe %s - %s" % (v, "|".join([sub] * ns) or "-"))
            L.append("analogcol " + " ".join(vs) if vs else "analogcol"); g.count("op_analogcol")
        elif c < 0.84:  # parameter edits
            k = r.random()
            if k < 0.5:
                grp = r.choice(groups)
            elif k < 0.8:
                grp = g.name(1, special=0.1); groups.append(grp)
            else:
                grp = r.choice([b"point", b"POINT ", b"Point", b""])
            if bad and r.random() < 0.3:
                nm = b"" if r.random() < 0.5 else g.name(1)
                ty = "N" if nm else r.choice("IFC")
                L.append("param %s %s x 0 %s - -" % (xhex(grp), xhex(nm), ty)); g.count("op_param_refused")
            else:
                nm = r.choice([b"A", b"B", b"a", b"LONGNAME", g.name(1, special=0.1)])
                L.append(param_line(g, grp, nm, valid=not (bad and r.random() < 0.5)))
            g.count("op_param")
        elif c < 0.90:
            grp = r.choice(groups) if not bad else g.name(0)
            L.append(("lock " if r.random() < 0.5 else "unlock ") + xhex(grp)); g.count("op_lock")
        elif c < 0.95:  # rate / count edits through parameter()
            which = r.choice(["prate", "arate", "used", "frames", "aused"])
            g.count("op_edit_" + which)
            if which == "prate":
                prate = r.choice([50.0, 100.0, 0.0, 25.0]); L.append("param %s %s x 0 F - %s" % (xhex(b"POINT"), xhex(b"RATE"), f2h(prate)))
            elif which == "arate":
                arate = r.choice([prate * 2, prate, 0.0, 1000.0]); L.append("param %s %s x 0 F - %s" % (xhex(b"ANALOG"), xhex(b"RATE"), f2h(arate)))
                if prate: nsub = int(arate / prate) if arate else nsub
            elif which == "used": L.append("param %s %s x 1 I - %d" % (xhex(b"POINT"), xhex(b"USED"), r.choice([0, len(pts), len(pts) + 1, 1])))
            elif which == "aused": L.append("param %s %s x 1 I - %d" % (xhex(b"ANALOG"), xhex(b"USED"), r.choice([0, len(chs), len(chs) + 1, 1])))
            else: L.append("param %s %s x 1 I - %d" % (xhex(b"POINT"), xhex(b"FRAMES"), r.choice([0, nframes, nframes + 1])))
        else:
            if with_io and r.random() < 0.7:
                sp = savepath(); L.append("save %s" % sp); L.append("load %s" % sp); g.count("op_reload")
            else:
                L.append("print"); g.count("op_print")
    if with_io:
        sp = savepath(); L.append("save %s" % sp); L.append("load %s" % sp); L.append("save %s" % savepath())
    return L, g.stats
