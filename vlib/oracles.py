"""Property oracles evaluated on the LIBRARY's own outputs (harness dumps), independent of the
Lean model. Each returns a list of (clause, where-dict, detail)."""
from . import run

SIZE_MAX = 2**64 - 1
def unx(s): return bytes.fromhex(s[1:])
def rtrim(b): return b.rstrip(b" ")

def parse_mkframe(t):
    """tokens of a mkframe line -> (pts [(namehex, x,y,z,r)], subs [[(namehex, v)]]) with names trimmed"""
    def nm(x): return "x" + rtrim(unx(x)).hex()
    pts = [] if t[2] in ("-", "") else [tuple([nm(p.split(":")[0])] + p.split(":")[1:]) for p in t[2].split(";")]
    subs = []
    if t[3] not in ("-", ""):
        for sf in t[3].split("|"):
            subs.append([] if sf == "e" else [(nm(c.split(":")[0]), c.split(":")[1]) for c in sf.split(";")])
    return {"pts": pts, "subs": subs}

def getp(d, g, p):
    for G in d["groups"]:
        if G["name"] == "x" + g.hex():
            for P in G["params"]:
                if P["name"] == "x" + p.hex(): return P
            return None
    return None

def f_is_zero(h8): return (int(h8, 16) & 0x7fffffff) == 0

EMPTY = {"pts": [], "subs": []}

class Walk:
    """iterate over the library's records together with the script line and the previous dump"""
    def __init__(self, res):
        self.res = res
        self.lines = res.script.split("\n")
    def __iter__(self):
        prev = None
        vars_ = {}
        for rec in self.res.hrecs:
            line = self.lines[rec["n"] - 1]
            t = line.split(" ")
            if rec["op"] in ("mkframe", "refill"): vars_[t[1]] = parse_mkframe(t)
            elif rec["op"] == "cpframe":
                if prev is not None and int(t[2]) < len(prev["frames"]): vars_[t[1]] = frames_of(prev)[int(t[2])]
            elif rec["op"] == "cmut":
                v = vars_.get(t[1], {"pts": [], "subs": []})
                if t[2] == "pt":
                    i = int(t[3]); p = v["pts"][i]; v["pts"][i] = (p[0], t[4], t[5], t[6], t[7])
                elif t[2] == "addpt":
                    q = t[3].split(":"); v["pts"].append(tuple(["x" + rtrim(unx(q[0])).hex()] + q[1:]))
                elif t[2] == "ch":
                    k, i = int(t[3]), int(t[4]); c = v["subs"][k][i]; v["subs"][k][i] = (c[0], t[5])
                elif t[2] == "ptname":
                    i = int(t[3])
                    if i < len(v["pts"]): p = v["pts"][i]; v["pts"][i] = tuple(["x" + rtrim(unx(t[4])).hex()] + list(p[1:]))
                elif t[2] == "chn":
                    k = int(t[3])
                    if k < len(v["subs"]):
                        for i, c in enumerate(v["subs"][k]):
                            if c[0] == t[4]: v["subs"][k][i] = (c[0], t[5]); break
                elif t[2] == "ptn":
                    for i, p in enumerate(v["pts"]):
                        if p[0] == t[3]: v["pts"][i] = (p[0], t[4]) + tuple(p[2:]); break
            d = run.parse_dump(rec["lines"]) if rec["lines"] else None
            yield rec, t, prev, d, vars_
            if d is not None: prev = d
            if rec["op"] == "load" and rec["res"] != "R ok": prev = None

def frames_of(d): return [{"pts": [tuple(p) for p in f["pts"]], "subs": [[tuple(c) for c in sf] for sf in f["subs"]]} for f in d["frames"]]

# ---------------------------------------------------------------- C06
def c06(res):
    out = []
    for rec, t, prev, d, vars_ in Walk(res):
        if rec["res"] != "R ok" or prev is None or d is None: continue
        if rec["op"] == "frame":
            f = vars_.get(t[1], EMPTY)
            before, after = frames_of(prev), frames_of(d)
            idx = int(t[2]) if len(t) > 2 else SIZE_MAX
            fv = {"pts": [tuple(p) for p in f["pts"]], "subs": [[tuple(c) for c in sf] for sf in f["subs"]]}
            if idx == SIZE_MAX: exp = before + [fv]; mode = "append"
            elif idx < len(before): exp = before[:idx] + [fv] + before[idx + 1:]; mode = "replace"
            else: exp = before + [EMPTY] * (idx - len(before)) + [fv]; mode = "extend"
            if after != exp:
                out.append(("frame_" + mode, {"op": rec["n"], "mode": mode}, "frames after the call are not old frames with the documented change (size %d -> %d, expected %d)" % (len(before), len(after), len(exp))))
        elif rec["op"] in ("point", "pointcol", "analog", "analogcol"):
            before, after = frames_of(prev), frames_of(d)
            if not before: continue
            if len(before) != len(after):
                out.append(("column_framecount", {"op": rec["n"]}, "frame count changed by a column add")); continue
            if rec["op"] == "point": cols = [[("x" + rtrim(unx(t[1])).hex(), "00000000", "00000000", "00000000", "00000000")]] * len(before)
            elif rec["op"] == "pointcol":
                n0 = len(vars_[t[1]]["pts"]); cols = [[tuple(p) for p in vars_[v]["pts"][:n0]] for v in t[1:]]
            else: cols = None
            for i, (b, a) in enumerate(zip(before, after)):
                if cols is not None:
                    if a["pts"] != b["pts"] + cols[i] or a["subs"] != b["subs"]:
                        out.append(("point_column", {"op": rec["n"], "frame": i}, "frame %d is not the old frame plus exactly the new point column(s)" % i)); break
                else:
                    nsf = int(run.hdr(prev)["nbAnalogByFrame"])
                    if rec["op"] == "analog": new = [[("x" + rtrim(unx(t[1])).hex(), "00000000")]] * nsf
                    else:
                        n0 = len(vars_[t[1]]["subs"][0]); new = [[tuple(c) for c in sf[:n0]] for sf in vars_[t[1 + i]]["subs"][:nsf]]
                    exp = [bs + ns for bs, ns in zip(b["subs"][:nsf], new)] + b["subs"][nsf:]
                    if a["pts"] != b["pts"] or a["subs"] != exp:
                        out.append(("analog_column", {"op": rec["n"], "frame": i}, "frame %d is not the old frame plus exactly the new channel column(s)" % i)); break
    return out

# ---------------------------------------------------------------- C07
def c07_expect_frame(prev, f):
    """-> ('refuse', {classes}) | ('accept',) | ('free',)"""
    used = getp(prev, b"POINT", b"USED"); labels = getp(prev, b"POINT", b"LABELS")
    prate = getp(prev, b"POINT", b"RATE"); arate = getp(prev, b"ANALOG", b"RATE"); aused = getp(prev, b"ANALOG", b"USED")
    alabels = getp(prev, b"ANALOG", b"LABELS")
    try:
        nused = int(used["vals"][0]) if used["type"] == "I" else None
        naused = int(aused["vals"][0]) if aused["type"] == "I" else None
        lab = labels["vals"] if labels["type"] == "C" else None
        alab = alabels["vals"] if alabels["type"] == "C" else None
        pr = prate["vals"][0] if prate["type"] == "F" else None
        ar = arate["vals"][0] if arate["type"] == "F" else None
    except Exception:
        return ("free",)
    if None in (nused, naused, lab, alab, pr, ar): return ("free",)
    classes = set()
    names = [p[0] for p in f["pts"]]
    if nused != 0 and len(names) != nused: classes.add("runtime_error")
    if any(l not in names for l in lab): classes.add("invalid_argument")
    if names and f_is_zero(pr): classes.add("runtime_error")
    if f["subs"] and f_is_zero(ar): classes.add("runtime_error")
    if f["subs"] and naused != 0 and len(f["subs"][0]) != naused: classes.add("runtime_error")
    if classes: return ("refuse", classes)
    # must-accept: matches declared names, counts, rates and sub-frame ratio
    nabf = int(run.hdr(prev)["nbAnalogByFrame"])
    ok = names == lab and len(names) == nused
    if naused > 0:
        ok = ok and len(f["subs"]) == nabf and nabf > 0 and all([c[0] for c in sf] == alab for sf in f["subs"])
    else:
        ok = ok and not f["subs"]
    if ok: return ("accept",)
    return ("free",)

def c07(res):
    out = []
    for rec, t, prev, d, vars_ in Walk(res):
        if prev is None or not rec["res"]: continue
        got = rec["res"][2:]
        if rec["op"] == "frame":
            idx = int(t[2]) if len(t) > 2 else SIZE_MAX
            if idx != SIZE_MAX and idx >= 2**40: continue
            e = c07_expect_frame(prev, vars_.get(t[1], EMPTY))
            if e[0] == "refuse":
                if got == "ok": out.append(("frame_must_refuse", {"op": rec["n"], "expected": sorted(e[1])}, "frame accepted although a documented precondition is violated"))
                elif got.replace("throw ", "") not in e[1]: out.append(("frame_refusal_class", {"op": rec["n"], "expected": sorted(e[1]), "got": got}, "frame refused with the wrong exception class"))
            elif e[0] == "accept" and got != "ok":
                out.append(("frame_must_accept", {"op": rec["n"], "got": got}, "a frame matching the declared shape was refused"))
        elif rec["op"] in ("pointcol", "analogcol"):
            vs = t[1:]
            nf = prev["NF"]
            isp = rec["op"] == "pointcol"
            labels = getp(prev, b"POINT" if isp else b"ANALOG", b"LABELS")
            if labels is None or labels["type"] != "C": continue
            must_refuse = False
            if len(vs) == 0 or len(vs) != nf: must_refuse = True
            else:
                fs = [vars_.get(v, EMPTY) for v in vs]
                if isp:
                    if not fs[0]["pts"]: must_refuse = True
                    elif any(p[0] in labels["vals"] for p in fs[0]["pts"]): must_refuse = True
                else:
                    nabf = int(run.hdr(prev)["nbAnalogByFrame"])
                    if len(fs[0]["subs"]) != nabf: must_refuse = True
                    elif nabf == 0 or not fs[0]["subs"][0]: must_refuse = True
                    elif any(c[0] in labels["vals"] for c in fs[0]["subs"][0]): must_refuse = True
            if must_refuse:
                if got != "throw invalid_argument":
                    out.append(("column_must_refuse", {"op": rec["n"], "got": got}, "column add with a documented defect was not refused with invalid_argument"))
            else:
                # must accept when every frame supplies the same new names and the stored frames are uniform
                fs = [vars_.get(v, EMPTY) for v in vs]
                if isp:
                    n0 = [p[0] for p in fs[0]["pts"]]
                    uniform = all([p[0] for p in f["pts"]] == n0 for f in fs) and len(set(n0)) == len(n0)
                else:
                    n0 = [c[0] for c in fs[0]["subs"][0]]; nabf = int(run.hdr(prev)["nbAnalogByFrame"])
                    uniform = all(len(f["subs"]) == nabf and all([c[0] for c in sf] == n0 for sf in f["subs"]) for f in fs) and len(set(n0)) == len(n0)
                    uniform = uniform and all(len(f["subs"]) == nabf for f in prev["frames"])
                if uniform and got != "ok":
                    out.append(("column_must_accept", {"op": rec["n"], "got": got}, "a matching column was refused"))
    return out

# ---------------------------------------------------------------- C10
def c10(res):
    out = []
    last_ps = "PS x50 x 0 N - -"
    for rec, t, prev, d, vars_ in Walk(res):
        if rec["op"] in ("pset", "pnew"):      # Parameter::set refused (inconsistent dimensions) leaves the parameter as it was
            ps = [l for l in rec["lines"] if l.startswith("PS ")]
            if rec["op"] == "pset" and rec["res"].startswith("R throw") and ps and ps[0] != last_ps:
                out.append(("unchanged_after_throw", {"op": rec["n"], "call": "Parameter::set", "type": t[1], "dims": t[2]},
                            "a refused Parameter::set changed the parameter: %s -> %s" % (last_ps, ps[0])))
            if ps: last_ps = ps[0]
            continue
        if prev is None or not rec["res"] or not rec["res"].startswith("R throw"): continue
        if rec["op"] in ("load", "new", "save"): continue
        if d is not None and d != prev:
            what = "header" if d["H"] != prev["H"] else "parameters" if d["groups"] != prev["groups"] else "frames"
            where = {"op": rec["n"], "call": rec["op"], "changed": what}
            if rec["op"] == "param":
                where["group"] = t[1]; where["name"] = t[2]
            else:
                # which of the text / scaling parameters that updateParameters rewrites does the object lack (they are optional in a file)
                lacks = []
                for gname, names in ((b"POINT", (b"DESCRIPTIONS", b"UNITS")), (b"ANALOG", (b"DESCRIPTIONS", b"SCALE", b"OFFSET", b"UNITS"))):
                    G = [x for x in prev["groups"] if x["name"] == "x" + gname.hex()]
                    if G:
                        have = [P["name"] for P in G[0]["params"]]
                        lacks += [(gname + b":" + n).decode() for n in names if "x" + n.hex() not in have]
                where["lacks"] = ",".join(x.split(":")[0] for x in lacks[:1]) if lacks else "-"
                GA = [x for x in prev["groups"] if x["name"] == "x" + b"ANALOG".hex()]
                if GA and not GA[0]["params"]: where["lacks"] = "ANALOG-group-empty"       # an ANALOG group without any parameter (Optotrak style)
            out.append(("unchanged_after_throw", where, "a refused %s call changed the object's %s" % (rec["op"], what)))
    return out

# ---------------------------------------------------------------- C05
def c05_agree(d, gaps=()):
    """-> list of (clause, detail) disagreements between header / parameters / data"""
    bad = []
    h = run.hdr(d)
    used = getp(d, b"POINT", b"USED"); frames = getp(d, b"POINT", b"FRAMES"); prate = getp(d, b"POINT", b"RATE")
    aused = getp(d, b"ANALOG", b"USED")
    def i0(p):
        try: return int(p["vals"][0]) % 2**64 if p["type"] == "I" else None
        except Exception: return None
    nb = int(h["nbPoints"]); nabf = int(h["nbAnalogByFrame"]); meas = int(h["nbAnalogsMeas"])
    first, last = int(h["firstFrame"]), int(h["lastFrame"])
    nanalogs = meas // nabf if nabf else 0
    hframes = 0 if (nb == 0 and nanalogs == 0) else (last - first + 1) % 2**64
    fr = d["frames"]
    filled = [f for i, f in enumerate(fr) if (f["pts"] or f["subs"]) and i not in gaps]
    u = i0(used)
    if u is None: return [("mandatory_missing", "POINT:USED is not an integer parameter")]
    if nb != u: bad.append(("points_header_param", "header points %d != POINT:USED %d" % (nb, u)))
    for f in filled:
        if len(f["pts"]) != u: bad.append(("points_param_data", "POINT:USED %d != %d points in a filled frame" % (u, len(f["pts"])))); break
    nf = i0(frames)
    if nf is None: return bad + [("mandatory_missing", "POINT:FRAMES is not an integer parameter")]
    if nf != d["NF"]: bad.append(("frames_param_data", "POINT:FRAMES %d != %d stored frames" % (nf, d["NF"])))
    if hframes != d["NF"]: bad.append(("frames_header_data", "header frame count %d != %d stored frames" % (hframes, d["NF"])))
    for f in filled:
        if f["subs"] or nabf:
            if len(f["subs"]) != nabf and f["subs"]: bad.append(("subframes_header_data", "header sub-frames %d != %d in a filled frame" % (nabf, len(f["subs"])))); break
    au = i0(aused)
    if au is not None and nabf >= 1:
        if nanalogs != au: bad.append(("channels_header_param", "header channels %d != ANALOG:USED %d" % (nanalogs, au)))
        if meas != au * nabf: bad.append(("samples_per_frame", "analog samples per frame %d != %d x %d" % (meas, au, nabf)))
        for f in filled:
            for sf in f["subs"]:
                if len(sf) != au: bad.append(("channels_param_data", "ANALOG:USED %d != %d channels in a sub-frame" % (au, len(sf)))); break
    if prate and prate["type"] == "F" and prate["vals"]:
        import struct
        a = struct.unpack(">f", bytes.fromhex(prate["vals"][0]))[0]; b = struct.unpack(">f", bytes.fromhex(h["rate"]))[0]
        if a == a and b == b and abs(a - b) > 1e-4 * max(1.0, abs(a)) and abs(a) < 2e5: bad.append(("rate", "header rate %r != POINT:RATE %r" % (b, a)))
    # label-like lists: one entry per point/channel in data order when declared by name
    if filled and fr and fr[0]["pts"]:
        lab = getp(d, b"POINT", b"LABELS")
        names = [p[0] for p in fr[0]["pts"]]
        if lab and lab["type"] == "C" and lab["vals"] and len(lab["vals"]) == len(names) and lab["vals"] != names:
            bad.append(("labels_order", "POINT:LABELS differ from the point names of frame 0"))
    for g, ps, n in ((b"POINT", (b"LABELS", b"DESCRIPTIONS", b"UNITS"), u), (b"ANALOG", (b"LABELS", b"DESCRIPTIONS", b"SCALE", b"OFFSET", b"UNITS"), au)):
        lab = getp(d, g, b"LABELS")
        if lab is None or lab["type"] != "C" or n is None: continue
        if len(lab["vals"]) == n and n > 0:   # declared by name
            for pn in ps:
                q = getp(d, g, pn)
                if q is not None and len(q["vals"]) != n:
                    bad.append(("labellike_count", "%s:%s has %d entries for %d declared" % (g.decode(), pn.decode(), len(q["vals"]), n)))
    return bad

def subframes_from_rates(a_, p_):
    """what c3d::updateHeader derives: static_cast<size_t>(std::round(ANALOG:RATE / POINT:RATE)) on the two 32-bit values
    (fix fd58235: rounded, no longer truncated); the double quotient rounded to 32 bits IS the 32-bit quotient"""
    import struct, math
    q = struct.unpack("<f", struct.pack("<f", a_ / p_))[0]
    return int(math.floor(abs(q) + 0.5)) if q >= 0 else -int(math.floor(abs(q) + 0.5))

def ratio_matches_data(d):
    """the stored sub-frame count is what the reader will derive from ANALOG:RATE / POINT:RATE"""
    h = run.hdr(d)
    nabf, meas = int(h["nbAnalogByFrame"]), int(h["nbAnalogsMeas"])
    if not d["frames"] or not nabf or not meas // nabf: return True
    pr = getp(d, b"POINT", b"RATE"); ar = getp(d, b"ANALOG", b"RATE")
    try:
        p_, a_ = fval(pr["vals"][0]), fval(ar["vals"][0])
        return p_ > 0 and subframes_from_rates(a_, p_) == nabf
    except Exception: return False

def c05(res):
    out = []
    gaps = set()
    loaded = False
    saved_ratio_ok = {}
    for rec, t, prev, d, vars_ in Walk(res):
        if rec["op"] in ("new", "load"): gaps = set(); loaded = rec["op"] == "load"
        if rec["op"] == "save" and d is not None: saved_ratio_ok[t[1]] = ratio_matches_data(d)

        if d is None or rec["res"] != "R ok": continue
        if rec["op"] in ("frame", "frameself") and prev is not None:
            idx = int(t[2]) if len(t) > 2 else None
            if idx is not None:
                if idx > prev["NF"]: gaps |= set(range(prev["NF"], idx))
                gaps.discard(idx)
        if rec["op"] in ("save", "dump", "smut"): continue
        # domain of C05: accepted frames carry a uniform sub-frame count
        nsubs = set(len(f["subs"]) for i, f in enumerate(d["frames"]) if i not in gaps)
        if len(nsubs) > 1: return out
        for clause, detail in c05_agree(d, gaps):
            if clause == "labellike_count" and loaded: continue     # a file may store e.g. UNITS as one string: not declared by name
            where = {"op": rec["n"], "call": rec["op"], "frame0_gap": 0 in gaps}
            if rec["op"] == "param": where["group"] = t[1]; where["name"] = t[2]
            if rec["op"] == "frame":
                # a frame that carries no point and no channel (no sub-frame, or only empty sub-frames)
                where["emptyframe"] = not (vars_.get(t[1], EMPTY)["pts"] or any(sf for sf in vars_.get(t[1], EMPTY)["subs"]))
                pu = getp(prev, b"POINT", b"USED") if prev is not None else None
                # the frame brings points to an object that already stores frames while POINT:USED is 0
                where["points_onto_pointless_frames"] = bool(prev is not None and prev["NF"] > 0 and pu and pu["type"] == "I" and pu["vals"] and int(pu["vals"][0]) == 0
                                                             and vars_.get(t[1], EMPTY)["pts"] and not any(f["pts"] for f in prev["frames"]))
            if rec["op"] == "load": where["saved_ratio_matches_data"] = saved_ratio_ok.get(t[1], True)
            out.append((clause, where, detail))
            return out     # the first op that breaks the agreement; later states inherit it
    return out

# ---------------------------------------------------------------- C09
def c09(res):
    out = []
    last_ps = "PS x50 x 0 N - -"      # the fresh parameter every script starts with
    for rec, t, prev, d, vars_ in Walk(res):
        if rec["op"] == "pset":
            if rec["res"] == "R nostate": continue
            ty, dims, vals = t[1], t[2], t[3]
            dl = [] if dims in ("-", "") else [int(x) for x in dims.split(",")]
            vl = [] if vals in ("-", "") else vals.split(",")
            prod = 1
            for x in dl: prod *= x
            eff = dl if dl else [len(vl)]
            if len(vl) == 0: accept = (len(eff) == 0) or (prod == 0 if dl else True)
            else: accept = (len(vl) == (prod if dl else len(vl)))
            ps = [l for l in rec["lines"] if l.startswith("PS ")]
            got_ok = rec["res"] == "R ok"
            if accept != got_ok:
                out.append(("set_accepts_iff", {"op": rec["n"], "type": ty, "dims": dims, "n": len(vl)}, "Parameter::set %s although count %d vs dims %s" % ("accepted" if got_ok else "refused", len(vl), dims)))
            elif not got_ok and rec["res"] != "R throw range_error":
                out.append(("set_refusal_class", {"op": rec["n"], "got": rec["res"]}, "refused with the wrong class"))
            elif got_ok and ps:
                q = ps[0].split(" ")
                gdims = [] if q[5] == "-" else [int(x) for x in q[5].split(",")]
                gvals = [] if q[6] == "-" else q[6].split(",")
                exp_dims = ([max([len(unx(v)) for v in vl] + [0])] if ty == "C" else []) + eff
                if gdims != exp_dims or gvals != ([str(int(v)) for v in vl] if ty == "I" else vl) or q[4] != ty:
                    out.append(("set_stores", {"op": rec["n"]}, "stored type/dims/values differ from what was given: %s" % ps[0]))
            elif not got_ok and ps and last_ps is not None and ps[0] != last_ps:
                out.append(("set_refused_unchanged", {"op": rec["n"], "type": ty, "dims": dims}, "refused set changed the parameter: %s -> %s" % (last_ps, ps[0])))
            if ps: last_ps = ps[0]
            continue
        if rec["op"] == "pnew":
            ps = [l for l in rec["lines"] if l.startswith("PS ")]
            last_ps = ps[0] if ps else None
            continue
        if prev is None or d is None or rec["res"] != "R ok": continue
        if rec["op"] == "param":
            g, nm, desc, lk = t[1], t[2], t[3], t[4]
            bg = [G["name"] for G in prev["groups"]]; ag = [G["name"] for G in d["groups"]]
            if g in bg:
                gi = bg.index(g)
                if ag != bg: out.append(("groups_unchanged", {"op": rec["n"]}, "group list changed although the group existed")); continue
            else:
                gi = len(bg)
                if ag != bg + [g]: out.append(("group_created", {"op": rec["n"]}, "absent group was not appended")); continue
            bp = prev["groups"][gi]["params"] if gi < len(prev["groups"]) else []
            ap = d["groups"][gi]["params"]
            names = [p["name"] for p in bp]
            if nm in names:
                pi = names.index(nm)
                if [p for i, p in enumerate(ap) if i != pi] != [p for i, p in enumerate(bp) if i != pi] or len(ap) != len(bp):
                    out.append(("replace_in_place", {"op": rec["n"]}, "replacing changed another parameter or the order")); continue
            else:
                pi = len(bp)
                if ap[:-1] != bp or len(ap) != len(bp) + 1:
                    out.append(("append", {"op": rec["n"]}, "new parameter not appended at the end")); continue
            P = ap[pi]
            if P["name"] != nm or P["desc"] != desc or P["locked"] != lk or P["type"] != t[5]:
                out.append(("lookup_returns", {"op": rec["n"]}, "stored name/description/lock/type differ from the given parameter"))
            # every other group unchanged (mandatory POINT/ANALOG values may not change through this call either)
            for i, (a, b) in enumerate(zip(d["groups"], prev["groups"])):
                if i != gi and a != b: out.append(("other_groups_unchanged", {"op": rec["n"], "group": i}, "another group changed")); break
        elif rec["op"] == "paramself":
            # a STORED parameter handed back by reference: stored into <dst> like any other parameter, and nothing else moves
            sg, sp, dg = t[1], t[2], t[3]
            names = [G["name"] for G in prev["groups"]]
            src = [P for P in prev["groups"][names.index(sg)]["params"] if P["name"] == sp] if sg in names else []
            if not src: continue
            exp = [dict(G, params=list(G["params"])) for G in prev["groups"]]
            if dg in names:
                tgt = exp[names.index(dg)]; pn = [q["name"] for q in tgt["params"]]
                if sp in pn: tgt["params"][pn.index(sp)] = src[0]
                else: tgt["params"].append(src[0])
                if exp != d["groups"]:
                    out.append(("stored_parameter_handed_back", {"op": rec["n"], "same_group": sg == dg}, "c3d::parameter(%s, <the stored %s:%s>) changed more than that one parameter (or lost it)" % (unx(dg), unx(sg), unx(sp))))
            elif [G["name"] for G in d["groups"]] != names + [dg] or d["groups"][:-1] != prev["groups"] or d["groups"][-1]["params"] != [src[0]]:
                out.append(("stored_parameter_handed_back", {"op": rec["n"], "same_group": False}, "c3d::parameter(<new group>, <a stored parameter>) did not append a group holding exactly that parameter"))
        elif rec["op"] in ("lock", "unlock"):
            exp = [dict(G) for G in prev["groups"]]
            names = [G["name"] for G in exp]
            if t[1] in names:
                i = names.index(t[1]); exp[i] = dict(exp[i]); exp[i]["locked"] = "1" if rec["op"] == "lock" else "0"
            if exp != d["groups"] or d["H"] != prev["H"] or d["frames"] != prev["frames"]:
                out.append(("lock_only_flag", {"op": rec["n"]}, "lock/unlock changed something else than that flag"))
    return out

def c09_standalone(res):
    """Parameters::group(const Group&) on stand-alone objects (ops `sa ...`): a group of a new name is appended; otherwise its
    parameters are stored one by one (replace the first of that name in place, else append) into the LAST stored group of that
    name; nothing else moves. Independent mirror over the harness' own dumps (X lines = the Parameters object, Y = the Group)."""
    out = []
    def parse(lines, tag):
        gs = []
        for l in lines:
            t = l.split(" ")
            if t[0] == tag + "G": gs.append({"name": t[2], "desc": t[3], "locked": t[4], "params": []})
            elif t[0] == tag + "P": gs[int(t[1])]["params"].append(tuple(t[3:]))
        return gs
    sp = None; sg = None
    lines = res.script.split("\n")
    for rec in res.hrecs:
        t = lines[rec["n"] - 1].split(" ")
        if rec["op"] != "sa": continue
        if t[1] in ("pnew", "prename"): sp = parse(rec["lines"], "X")
        elif t[1] in ("gnew", "gparam"):
            g = parse(rec["lines"], "Y")
            if g: sg = g[0]
        elif t[1] in ("pgroupidx", "pgroupn") and sp is not None:
            idx = [i for i, g in enumerate(sp) if g["name"] == t[2]]
            exp = ("T invalid_argument" if not idx else
                   "V %d" % idx[0] if t[1] == "pgroupidx" else "V %s %d" % (sp[idx[0]]["name"], len(sp[idx[0]]["params"])))
            out.append(("_c09_standalone_lookups_checked", {}, ""))
            if rec["res"] != exp:
                out.append(("group_lookup", {"op": rec["n"], "kind": t[1]}, "look-up `%s` on the stand-alone Parameters returned %r, the first group of that name says %r" % (" ".join(t[1:]), rec["res"], exp)))
        elif t[1] == "pgroup" and sp is not None and sg is not None:
            got = parse(rec["lines"], "X")
            idx = [i for i, g in enumerate(sp) if g["name"] == sg["name"]]
            exp = [dict(g, params=list(g["params"])) for g in sp]
            if not idx: exp.append(dict(sg, params=list(sg["params"])))
            else:
                tgt = exp[idx[-1]]
                for p in sg["params"]:
                    names = [q[0] for q in tgt["params"]]
                    if p[0] in names: tgt["params"][names.index(p[0])] = p
                    else: tgt["params"].append(p)
            out.append(("_c09_standalone_merges_checked", {}, ""))
            if rec["res"] != "R ok" or got != exp:
                out.append(("group_merge", {"op": rec["n"], "existing": bool(idx)}, "Parameters::group(g) did not append / merge as documented (%s)" % rec["res"]))
            sp = got
    return out

# ---------------------------------------------------------------- C11
def c11(res):
    out = []
    last = None
    for rec, t, prev, d, vars_ in Walk(res):
        if rec["op"] != "get" or prev is None: continue
        k = t[1]; a = t[2:]
        if k.startswith("nc"): k = k[2:]        # non-const accessors: same contract as the const ones
        D = prev
        def oor(): return ("T", "out_of_range")
        def inv(): return ("T", "invalid_argument")
        def at(l, i): return ("V", l[i]) if 0 <= i < len(l) else oor()
        def byname(l, key, name): 
            for x in l:
                if name(x) == key: return ("V", x)
            return inv()
        def idxname(l, key, name):
            for i, x in enumerate(l):
                if name(x) == key: return ("V", i)
            return inv()
        exp = None
        try:
            if k == "frame":
                r = at(D["frames"], int(a[0])); exp = r if r[0] == "T" else ("V", "%d %d" % (len(r[1]["pts"]), len(r[1]["subs"])))
            elif k in ("point", "pointn", "pointidx"):
                r = at(D["frames"], int(a[0]))
                if r[0] == "V":
                    pts = r[1]["pts"]
                    if k == "point": r = at(pts, int(a[1])); r = r if r[0] == "T" else ("V", " ".join(r[1]))
                    elif k == "pointn": r = byname(pts, a[1], lambda p: p[0]); r = r if r[0] == "T" else ("V", " ".join(r[1]))
                    else: r = idxname(pts, a[1], lambda p: p[0]); r = r if r[0] == "T" else ("V", str(r[1]))
                exp = r
            elif k in ("sub", "chan", "chann", "chanidx"):
                r = at(D["frames"], int(a[0]))
                if r[0] == "V": r = at(r[1]["subs"], int(a[1]))
                if r[0] == "V":
                    sf = r[1]
                    if k == "sub": r = ("V", str(len(sf)))
                    elif k == "chan": r = at(sf, int(a[2])); r = r if r[0] == "T" else ("V", "%s=%s" % tuple(r[1]))
                    elif k == "chann": r = byname(sf, a[2], lambda c: c[0]); r = r if r[0] == "T" else ("V", "%s=%s" % tuple(r[1]))
                    else: r = idxname(sf, a[2], lambda c: c[0]); r = r if r[0] == "T" else ("V", str(r[1]))
                exp = r
            elif k == "group": r = at(D["groups"], int(a[0])); exp = r if r[0] == "T" else ("V", "%s %d" % (r[1]["name"], len(r[1]["params"])))
            elif k == "groupn": r = byname(D["groups"], a[0], lambda g: g["name"]); exp = r if r[0] == "T" else ("V", "%s %d" % (r[1]["name"], len(r[1]["params"])))
            elif k == "groupidx": r = idxname(D["groups"], a[0], lambda g: g["name"]); exp = r if r[0] == "T" else ("V", str(r[1]))
            elif k in ("param", "paramidx", "vals"):
                r = at(D["groups"], int(a[0]))
                if r[0] == "V":
                    ps = r[1]["params"]
                    if k == "paramidx": r = idxname(ps, a[1], lambda p: p["name"]); r = r if r[0] == "T" else ("V", str(r[1]))
                    else:
                        r = at(ps, int(a[1]))
                        if r[0] == "V" and k == "vals":
                            p = r[1]; r = ("V", ",".join(p["vals"]) or "-") if p["type"] == a[2] else inv()
                        elif r[0] == "V": r = None
                exp = r
            elif k == "paramn":
                r = byname(D["groups"], a[0], lambda g: g["name"])
                if r[0] == "V": r = byname(r[1]["params"], a[1], lambda p: p["name"]); r = None if r[0] == "V" else r
                exp = r
            elif k == "evtime": r = at(D["HT"], int(a[0])); exp = r
            elif k == "evdisplay": r = at(D["HD"], int(a[0])); exp = r
            elif k == "evlabel": r = at(D["HL"], int(a[0])); exp = r
        except Exception as e:
            exp = None
        if exp is None: continue
        got = rec["res"]
        want = "%s %s" % exp
        out.append(("_c11_lookups_checked_against_container", {}, ""))
        if got != want:
            out.append(("lookup", {"op": rec["n"], "kind": k}, "look-up `%s` returned %r, the container content says %r" % (" ".join(t[1:])[:80], got, want)))
    return out

# ---------------------------------------------------------------- C08
def c08(res):
    """caller-side mutations never change the store; re-submitted frames are independent"""
    out = []
    last_dump = None; dirty = False
    for rec, t, prev, d, vars_ in Walk(res):
        if rec["op"] in ("cmut", "refill"): dirty = True; continue
        if rec["op"] == "cpframe": continue
        if rec["op"] == "dump" and d is not None and prev is not None and dirty:
            if d != prev:
                out.append(("caller_mutation", {"op": rec["n"]}, "the stored data changed after the caller mutated its own frame object"))
            dirty = False
        elif rec["op"] == "smut" and rec["res"] == "R ok" and prev is not None and d is not None:
            fi = int(t[1])
            for j, (a, b) in enumerate(zip(d["frames"], prev["frames"])):
                if j != fi and a != b:
                    out.append(("stored_frames_independent", {"op": rec["n"], "edited": fi, "changed": j}, "editing stored frame %d changed stored frame %d" % (fi, j))); break
            dirty = False
        elif rec["op"] not in ("mkframe", "cpframe"): 
            if d is not None: dirty = False
    return out

# ================================================================ file-level oracles (C01 C03 C04 C02)
def parse_spec(lines):
    s = {"groups": [], "params": [], "frames": [], "assembled": []}
    curf = None
    for l in lines:
        t = l.split(" ")
        k = t[0]
        if k == "SZ": s["zeros"] = int(t[1])
        elif k == "SH": s["H"] = dict(zip(["paramBlock", "nPoints", "analogPerFrame", "first", "last", "gap", "scale", "dataStart", "subframes", "rate", "nEvents"], t[1:]))
        elif k == "ST": s["evTimes"] = [] if t[1] == "-" else t[1].split(",")
        elif k == "SD": s["evDisplay"] = [] if t[1] == "-" else t[1].split(",")
        elif k == "SL": s["evLabels"] = [] if t[1] == "-" else t[1].split(",")
        elif k == "SP": s["prologue"] = [int(x) for x in t[1].split(",")]; s["terminated"] = t[2] == "1"; s["paramEnd"] = int(t[3])
        elif k == "SG": s["groups"].append({"gid": int(t[1]), "name": t[2], "locked": t[3], "desc": t[4]})
        elif k == "SQ": s["params"].append({"gid": int(t[1]), "name": t[2], "locked": t[3], "type": t[4],
                                            "dims": [] if t[5] == "-" else [int(x) for x in t[5].split(",")],
                                            "vals": [] if t[6] == "-" else t[6].split(","), "desc": t[7]})
        elif k == "AG": s["assembled"].append({"name": t[2], "locked": t[3], "desc": t[4], "params": []})
        elif k == "AQ": s["assembled"][int(t[1])]["params"].append({"name": t[2], "locked": t[3], "type": t[4],
                                            "dims": [] if t[5] == "-" else [int(x) for x in t[5].split(",")],
                                            "vals": [] if t[6] == "-" else t[6].split(","), "desc": t[7]})
        elif k == "SN": s["nframes"] = int(t[1]); s["left"] = int(t[2])
        elif k == "FR": curf = {"pts": [], "subs": []}; s["frames"].append(curf)
        elif k == "PT": curf["pts"].append(tuple(t[2:6]))
        elif k == "SF": curf["subs"].append([] if t[3] == "-" else t[3].split(","))
    return s

def upper(xh): return "x" + bytes(c - 32 if 97 <= c <= 122 else c for c in unx(xh)).hex()
def is_neg_float(h8):
    v = int(h8, 16); return v >= 0x80000000 and (v & 0x7fffffff) <= 0x7f800000
def fval(h8):
    import struct
    return struct.unpack(">f", bytes.fromhex(h8))[0]

def norm_param_mem(P):
    """in-memory parameter -> what the file should say (scalar special case, names upper-case)"""
    dims = [] if P["dims"] == [1] else P["dims"]
    return {"name": upper(P["name"]), "locked": P["locked"], "type": P["type"], "dims": dims, "vals": P["vals"], "desc": P["desc"]}

def c03_clauses(mem, spec, specf, fbytes):
    """mem: dump of the saving object, spec: strict decode (or None), specf: decode assuming float data"""
    out = []
    def F(clause, detail, **w): out.append((clause, dict(w), detail))
    frames_spec = specf
    if specf is None: specf = spec      # the data section does not decode; the records may still do
    if specf is None:
        F("decodable", "the saved file cannot be decoded by following its own pointers (header, record chain, offsets or terminator inconsistent)")
        return out
    H = specf["H"]; hm = run.hdr(mem)
    if int(H["paramBlock"]) != 2 or specf["prologue"][1] != 80:
        F("param_block_addr", "header parameter block %s / key %d" % (H["paramBlock"], specf["prologue"][1]))
    pbase = 512 * (int(H["paramBlock"]) - 1)
    secend = specf["paramEnd"]
    blocks = (secend - pbase + 511) // 512
    real_data = pbase + 512 * blocks
    if not specf["terminated"]: F("terminator", "record chain does not end with a zero name length")
    if specf["prologue"][2] != blocks: F("block_count", "parameter block count %d, section really spans %d" % (specf["prologue"][2], blocks))
    if any(fbytes[secend:real_data]): F("padding", "non-zero bytes between the terminator and the block boundary")
    if len(fbytes) < real_data: F("padding", "file ends before the block boundary after the parameters")
    if (int(H["dataStart"]) - 1) * 512 != real_data:
        F("header_data_start", "header data start block %s, data really start at block %d" % (H["dataStart"], real_data // 512 + 1))
    pg = [g["gid"] for g in specf["groups"] if g["name"] == "x" + b"POINT".hex()]
    ds = [p for p in specf["params"] if p["name"] == "x" + b"DATA_START".hex() and pg and p["gid"] == pg[0]]
    if ds and ds[0]["type"] == "I" and ds[0]["vals"] and int(ds[0]["vals"][0]) != real_data // 512 + 1:
        F("point_data_start", "POINT:DATA_START %s, data really start at block %d" % (ds[0]["vals"][0], real_data // 512 + 1))
    # header counts vs parameters (as decoded from the file)
    def gp(gname, pname):
        g = [x for x in specf["groups"] if x["name"] == "x" + gname.hex()]
        if not g: return None
        q = [p for p in specf["params"] if p["gid"] == g[0]["gid"] and p["name"] == "x" + pname.hex()]
        return q[0] if q else None
    used, frames, rate, pscale = gp(b"POINT", b"USED"), gp(b"POINT", b"FRAMES"), gp(b"POINT", b"RATE"), gp(b"POINT", b"SCALE")
    aused, arate = gp(b"ANALOG", b"USED"), gp(b"ANALOG", b"RATE")
    try:
        if used and int(used["vals"][0]) % 65536 != int(H["nPoints"]): F("header_counts_agree", "header points %s != POINT:USED %s" % (H["nPoints"], used["vals"][0]), field="points")
        nfh = (int(H["last"]) - int(H["first"]) + 1) % 65536
        if frames and int(frames["vals"][0]) % 65536 != nfh: F("header_counts_agree", "header frames %d != POINT:FRAMES %s" % (nfh, frames["vals"][0]), field="frames", noshape=(int(H["nPoints"]) == 0 and int(H["analogPerFrame"]) == 0))
        if rate and rate["vals"] and abs(fval(rate["vals"][0]) - fval(H["rate"])) > 1e-4 * max(1, abs(fval(H["rate"]))): F("header_counts_agree", "header rate != POINT:RATE", field="rate")
        if aused and int(H["subframes"]) >= 1 and int(H["analogPerFrame"]) != int(aused["vals"][0]) * int(H["subframes"]): F("header_counts_agree", "analog samples per frame %s != ANALOG:USED %s x %s" % (H["analogPerFrame"], aused["vals"][0], H["subframes"]), field="analogs")
    except Exception as e:
        F("header_counts_agree", "count parameters not decodable: %r" % e, field="decode")
    if pscale and pscale["type"] == "F" and pscale["vals"]:
        if is_neg_float(pscale["vals"][0]) != is_neg_float(H["scale"]):
            F("float_marker", "header scale word %s is %s as a float while POINT:SCALE is %s" % (H["scale"], "negative" if is_neg_float(H["scale"]) else "not negative", pscale["vals"][0]), scale=H["scale"])
    # data section length
    nf = mem["NF"]
    np_ = int(hm["nbPoints"]); nabf = int(hm["nbAnalogByFrame"]); meas = int(hm["nbAnalogsMeas"])
    want = nf * (4 * np_ + meas) * 4
    have = len(fbytes) - real_data
    if have != want:
        gaps = any((not f["pts"] and not f["subs"]) for f in mem["frames"])
        # analogless: the header announces analog samples although NO stored frame holds a sub-frame (frames loaded from a file whose rate ratio truncates to 0)
        analogless = meas > 0 and bool(mem["frames"]) and all(not f["subs"] for f in mem["frames"])
        F("data_length", "data section holds %d bytes, frames x (4 x points + channels x sub-frames) floats = %d" % (have, want), gapframes=gaps, uniform=len(set((len(f["pts"]), tuple(len(x) for x in f["subs"])) for f in mem["frames"])) <= 1, analogless=analogless)
    # names upper-case, lock flags
    for x in specf["groups"] + specf["params"]:
        if upper(x["name"]) != x["name"]: F("names_upper", "name %s stored with lower-case letters" % x["name"]); break
    # content: groups and parameters decode to what memory holds
    mg = [(i + 1, G) for i, G in enumerate(mem["groups"]) if G["name"] != "x"]
    sg = specf["groups"]
    if [(i, upper(G["name"]), G["locked"], G["desc"]) for i, G in mg] != [(g["gid"], g["name"], g["locked"], g["desc"]) for g in sg]:
        F("groups_content", "groups in the file differ from the groups in memory (id, upper-cased name, lock, description)", ngroups=len(mg))
    else:
        for i, G in mg:
            want_p = [norm_param_mem(P) for P in G["params"]]
            got_p = [{k: p[k] for k in ("name", "locked", "type", "dims", "vals", "desc")} for p in specf["params"] if p["gid"] == i]
            for a, b in zip(want_p, got_p):
                if a["name"] == "x" + b"DATA_START".hex() and a["type"] != "C": a = dict(a); b = dict(b); a["vals"] = b["vals"] = []
                if a != b:
                    F("params_content", "parameter %s of group %d decodes to type %s dims %s (%d values), memory holds type %s dims %s (%d values)" % (b["name"], i, b["type"], b["dims"], len(b["vals"]), a["type"], a["dims"], len(a["vals"])),
                      type=a["type"], ndims=len(a["dims"]), trailing=any(v != "x" and unx(v)[-1:] in (b" ", b"\0") or b"\0" in unx(v) for v in a["vals"]) if a["type"] == "C" else False)
                    break
            if len(want_p) != len(got_p): F("params_content", "group %d has %d parameters in the file, %d in memory" % (i, len(got_p), len(want_p)), count=True)
    # frames
    if have == want and frames_spec is not None and frames_spec.get("nframes") == nf and frames_spec["frames"]:
        for i, (a, b) in enumerate(zip(mem["frames"], frames_spec["frames"])):
            if [p[1:5] for p in a["pts"]] != [tuple(p) for p in b["pts"]] or [[c[1] for c in sf] for sf in a["subs"] if sf] != [sf for sf in b["subs"] if sf]:
                F("frames_content", "frame %d decodes to other values than memory holds" % i); break
    return out

def complete_frames(d):
    """C01's domain: every stored frame carries the declared shape (points, sub-frames, channels)"""
    h = run.hdr(d)
    np_, nabf, meas = int(h["nbPoints"]), int(h["nbAnalogByFrame"]), int(h["nbAnalogsMeas"])
    nch = meas // nabf if nabf else 0
    for f in d["frames"]:
        if len(f["pts"]) != np_: return False
        if nch == 0:
            if any(sf for sf in f["subs"]): return False
        else:
            if len(f["subs"]) != nabf or any(len(sf) != nch for sf in f["subs"]): return False
    lab = getp(d, b"POINT", b"LABELS"); alab = getp(d, b"ANALOG", b"LABELS")
    pr = getp(d, b"POINT", b"RATE"); ar = getp(d, b"ANALOG", b"RATE")
    if nch and d["frames"]:
        # the sub-frame count must be the declared rate ratio (the reader derives it from the rates)
        try:
            p_, a_ = fval(pr["vals"][0]), fval(ar["vals"][0])
            if p_ < 1 or subframes_from_rates(a_, p_) != nabf: return False
        except Exception: return False
    for f in d["frames"]:
        if lab and lab["type"] == "C" and [p[0] for p in f["pts"]] != lab["vals"][:len(f["pts"])] : return False
        for sf in f["subs"]:
            if alab and alab["type"] == "C" and sf and [c[0] for c in sf] != alab["vals"][:len(sf)]: return False
    return True

def content_view(d, trim=False):
    """what C01/C04 compare between two objects"""
    groups = []
    for G in d["groups"]:
        if G["name"] == "x" and not G["params"]: continue
        ps = []
        for P in G["params"]:
            vals = P["vals"]
            if P["name"].lower() == "x" + b"DATA_START".hex() and P["type"] != "C": vals = ["*"]
            ps.append((upper(P["name"]), P["type"], tuple(P["dims"]), tuple(vals), P["desc"], P["locked"]))
        groups.append((upper(G["name"]), G["desc"], G["locked"], tuple(ps)))
    h = run.hdr(d)
    # sub-frames per frame is only meaningful when there are analog samples
    hv = (h["nbPoints"], h["nbAnalogsMeas"], h["nbAnalogByFrame"] if h["nbAnalogsMeas"] != "0" else "-", h["firstFrame"], h["lastFrame"], h["rate"])
    ev = (h["nbEvents"], tuple(d["HT"]), tuple(d["HD"]), tuple(d["HL"]))
    fr = frames_of(d)
    for f in fr:
        if all(not sf for sf in f["subs"]): f["subs"] = []     # sub-frames without any sample carry no content
    return {"groups": groups, "frames": fr, "hdr": hv, "events": ev}

def diff_content(a, b):
    """-> (clause, detail, extra) or None"""
    if a["groups"] != b["groups"]:
        ga, gb = a["groups"], b["groups"]
        if [g[0] for g in ga] != [g[0] for g in gb]: return ("groups", "group names/order differ: %d vs %d groups" % (len(ga), len(gb)), {})
        for x, y in zip(ga, gb):
            if x[:3] != y[:3]: return ("groups", "group %s description/lock differ" % x[0], {})
            if x[3] != y[3]:
                na, nb = [p[0] for p in x[3]], [p[0] for p in y[3]]
                if na != nb:
                    return ("parameters", "parameter list of group %s differs (%d vs %d)" % (x[0], len(na), len(nb)), {"collision": len(set(na)) < len(na)})
                for p, q in zip(x[3], y[3]):
                    if p != q:
                        what = [n for n, u, v in zip(("name", "type", "dims", "values", "description", "lock"), p, q) if u != v]
                        return ("parameters", "parameter %s:%s differs in %s" % (x[0], p[0], what), {"what": ",".join(what), "type": p[1]})
    if len(a["frames"]) != len(b["frames"]): return ("frames", "frame count %d vs %d" % (len(a["frames"]), len(b["frames"])), {"count": True, "hdrpoints": a["hdr"][0], "hdrmeas": a["hdr"][1]})
    for i, (x, y) in enumerate(zip(a["frames"], b["frames"])):
        if x != y:
            if [p[0] for p in x["pts"]] != [p[0] for p in y["pts"]]: w = "point names"
            elif x["pts"] != y["pts"]: w = "point values"
            elif [[c[0] for c in sf] for sf in x["subs"]] != [[c[0] for c in sf] for sf in y["subs"]]: w = "channel names"
            else: w = "analog values"
            return ("frames", "frame %d differs in %s" % (i, w), {"what": w, "gap": (not x["pts"] and not x["subs"]) or (not y["pts"] and not y["subs"])})
    if a["hdr"] != b["hdr"]: return ("header", "header counts/range/rate differ: %s vs %s" % (a["hdr"], b["hdr"]), {})
    return None

# ---------------------------------------------------------------- C02: loaded object vs independent decode of the same bytes
def c02_compare(d, spec):
    out = []
    def F(clause, detail, **w): out.append((clause, dict(w), detail))
    H = spec["H"]; h = run.hdr(d)
    def gp(gname, pname):
        g = [x for x in spec["groups"] if x["name"] == "x" + gname.hex()]
        if not g: return None
        q = [p for p in spec["params"] if p["gid"] == g[0]["gid"] and p["name"] == "x" + pname.hex()]
        return q[-1] if q else None
    if int(h["zeros"]) != spec["zeros"]: F("leading_zeros", "library counts %s zero bytes before the header, the file has %d" % (h["zeros"], spec["zeros"]))
    pairs = [("nbPoints", "nPoints"), ("nbAnalogsMeas", "analogPerFrame"), ("maxGap", "gap"), ("dataStart", "dataStart"), ("nbAnalogByFrame", "subframes"), ("rate", "rate"), ("nbEvents", "nEvents"), ("paramAddr", "paramBlock")]
    for a, b in pairs:
        if a == "nbAnalogByFrame" and int(H["analogPerFrame"]) == 0 and int(h["nbAnalogsMeas"]) == 0: continue   # no analog sample: the ratio is moot
        if str(h[a]) != str(H[b]): F("header_" + a, "header %s: library %s, file %s" % (a, h[a], H[b]))
    nfr = max(int(H["last"]) + 1 - int(H["first"]), 0)
    if nfr > 0 or (int(H["nPoints"]) or int(H["analogPerFrame"])):
        if (int(h["firstFrame"]) + 1) % 2**64 != int(H["first"]) or (int(h["lastFrame"]) + 1) % 2**64 != int(H["last"]):
            F("header_frame_range", "frame range: library %s..%s (0-based), file %s..%s (1-based)" % (h["firstFrame"], h["lastFrame"], H["first"], H["last"]))
    if d["HT"] != spec["evTimes"] or [str(x) for x in d["HD"]] != [str(x) for x in spec["evDisplay"]] or d["HL"] != spec["evLabels"]:
        F("header_events", "event times/display flags/labels differ")
    # the group table: `Spec.assemble` of the decoder's flat record lists (Lean, Spec/Assemble.lean; C02.loaded_table_is_assembled
    # proves the model's loader builds exactly this) against the library's table, position by position
    A = spec["assembled"]
    if len(A) != len(d["groups"]): F("groups", "the library holds %d groups, the file's records present %d (ids 1..%d)" % (len(d["groups"]), len(A), len(A)))
    for i, (G, a) in enumerate(zip(d["groups"], A)):
        if (G["name"], G["locked"], G["desc"]) != (a["name"], a["locked"], a["desc"]):
            F("groups", "group id %d: library (%s,%s,%s) file (%s,%s,%s)" % (i + 1, G["name"], G["locked"], G["desc"], a["name"], a["locked"], a["desc"])); break
        want = [{"name": p["name"], "locked": p["locked"], "type": p["type"], "dims": p["dims"] if p["dims"] else [1], "vals": p["vals"], "desc": p["desc"]} for p in a["params"]]
        got = [{k: P[k] for k in ("name", "locked", "type", "dims", "vals", "desc")} for P in G["params"]]
        if want != got:
            for x, y in zip(want, got):
                if x != y:
                    what = [k for k in x if x[k] != y[k]]
                    F("parameters", "parameter %s of group id %d differs in %s: file %s / library %s" % (x["name"], i + 1, what, {k: x[k] for k in what}, {k: y[k] for k in what}), what=",".join(what), type=x["type"], ndims=len(x["dims"]))
                    break
            else: F("parameters", "group id %d: %d parameters in the file, %d in the library" % (i + 1, len(want), len(got)))
            break
    # frames: values, positional names with the unlabeled fall-back
    lab = gp(b"POINT", b"LABELS"); alab = gp(b"ANALOG", b"LABELS")
    lab = lab["vals"] if lab and lab["type"] == "C" else []
    alab = alab["vals"] if alab and alab["type"] == "C" else []
    if spec.get("nframes") != d["NF"]: F("frame_count", "library holds %d frames, the file %s" % (d["NF"], spec.get("nframes")))
    else:
        for i, (a, b) in enumerate(zip(d["frames"], spec["frames"])):
            wantp = [((lab[j] if j < len(lab) else "x" + (b"unlabeled_point_%d" % j).hex()),) + tuple(p) for j, p in enumerate(b["pts"])]
            if [tuple(p) for p in a["pts"]] != wantp: F("points", "frame %d: points differ from the file (value, residual or positional name)" % i); break
            wants = [[((alab[j] if j < len(alab) else "x" + (b"unlabeled_analog_%d" % j).hex()), v) for j, v in enumerate(sf)] for sf in b["subs"]]
            if [[tuple(c) for c in sf] for sf in a["subs"] if sf] != [sf for sf in wants if sf]: F("analogs", "frame %d: analog samples differ from the file" % i); break
    return out
