"""Property oracles evaluated on the LIBRARY's own outputs (harness dumps), independent of the
Lean model. Each returns a list of (clause, where-dict, detail)."""
from . import run

SIZE_MAX = 2**64 - 1
def unx(s): return bytes.fromhex(s[1:])
def rtrim(b): return b.rstrip(b" ")

def parse_mkframe(t):
    """tokens of a mkframe line -> (pts [(namehex, x,y,z,r)], subs [[(namehex, v)]]) with names trimmed"""
    def nm(x): return "x" + rtrim(unx(x)).hex()
    pts = [] if t[2] in ("-", "") else [tuple([nm(p.split(":")[0])] + p.split(":")[1:]) for p in t[2].split(";")]
    subs = []
    if t[3] not in ("-", ""):
        for sf in t[3].split("|"):
            subs.append([] if sf == "e" else [(nm(c.split(":")[0]), c.split(":")[1]) for c in sf.split(";")])
    return {"pts": pts, "subs": subs}

def getp(d, g, p):
    for G in d["groups"]:
        if G["name"] == "x" + g.hex():
            for P in G["params"]:
                if P["name"] == "x" + p.hex(): return P
            return None
    return None

def f_is_zero(h8): return (int(h8, 16) & 0x7fffffff) == 0

EMPTY = {"pts": [], "subs": []}

class Walk:
    """iterate over the library's records together with the script line and the previous dump"""
    def __init__(self, res):
        self.res = res
        self.lines = res.script.split("\n")
    def __iter__(self):
        prev = None
        vars_ = {}
        for rec in self.res.hrecs:
            line = self.lines[rec["n"] - 1]
            t = line.split(" ")
            if rec["op"] == "mkframe": vars_[t[1]] = parse_mkframe(t)
            elif rec["op"] == "cmut":
                v = vars_.get(t[1], {"pts": [], "subs": []})
                if t[2] == "pt":
                    i = int(t[3]); p = v["pts"][i]; v["pts"][i] = (p[0], t[4], t[5], t[6], t[7])
                elif t[2] == "addpt":
                    q = t[3].split(":"); v["pts"].append(tuple(["x" + rtrim(unx(q[0])).hex()] + q[1:]))
                elif t[2] == "ch":
                    k, i = int(t[3]), int(t[4]); c = v["subs"][k][i]; v["subs"][k][i] = (c[0], t[5])
            d = run.parse_dump(rec["lines"]) if rec["lines"] else None
            yield rec, t, prev, d, vars_
            if d is not None: prev = d
            if rec["op"] == "load" and rec["res"] != "R ok": prev = None

def frames_of(d): return [{"pts": [tuple(p) for p in f["pts"]], "subs": [[tuple(c) for c in sf] for sf in f["subs"]]} for f in d["frames"]]

# ---------------------------------------------------------------- C06
def c06(res):
    out = []
    for rec, t, prev, d, vars_ in Walk(res):
        if rec["res"] != "R ok" or prev is None or d is None: continue
        if rec["op"] == "frame":
            f = vars_.get(t[1], EMPTY)
            before, after = frames_of(prev), frames_of(d)
            idx = int(t[2]) if len(t) > 2 else SIZE_MAX
            fv = {"pts": [tuple(p) for p in f["pts"]], "subs": [[tuple(c) for c in sf] for sf in f["subs"]]}
            if idx == SIZE_MAX: exp = before + [fv]; mode = "append"
            elif idx < len(before): exp = before[:idx] + [fv] + before[idx + 1:]; mode = "replace"
            else: exp = before + [EMPTY] * (idx - len(before)) + [fv]; mode = "extend"
            if after != exp:
                out.append(("frame_" + mode, {"op": rec["n"], "mode": mode}, "frames after the call are not old frames with the documented change (size %d -> %d, expected %d)" % (len(before), len(after), len(exp))))
        elif rec["op"] in ("point", "pointcol", "analog", "analogcol"):
            before, after = frames_of(prev), frames_of(d)
            if not before: continue
            if len(before) != len(after):
                out.append(("column_framecount", {"op": rec["n"]}, "frame count changed by a column add")); continue
            if rec["op"] == "point": cols = [[("x" + rtrim(unx(t[1])).hex(), "00000000", "00000000", "00000000", "00000000")]] * len(before)
            elif rec["op"] == "pointcol":
                n0 = len(vars_[t[1]]["pts"]); cols = [[tuple(p) for p in vars_[v]["pts"][:n0]] for v in t[1:]]
            else: cols = None
            for i, (b, a) in enumerate(zip(before, after)):
                if cols is not None:
                    if a["pts"] != b["pts"] + cols[i] or a["subs"] != b["subs"]:
                        out.append(("point_column", {"op": rec["n"], "frame": i}, "frame %d is not the old frame plus exactly the new point column(s)" % i)); break
                else:
                    nsf = int(run.hdr(prev)["nbAnalogByFrame"])
                    if rec["op"] == "analog": new = [[("x" + rtrim(unx(t[1])).hex(), "00000000")]] * nsf
                    else:
                        n0 = len(vars_[t[1]]["subs"][0]); new = [[tuple(c) for c in sf[:n0]] for sf in vars_[t[1 + i]]["subs"][:nsf]]
                    exp = [bs + ns for bs, ns in zip(b["subs"][:nsf], new)] + b["subs"][nsf:]
                    if a["pts"] != b["pts"] or a["subs"] != exp:
                        out.append(("analog_column", {"op": rec["n"], "frame": i}, "frame %d is not the old frame plus exactly the new channel column(s)" % i)); break
    return out

# ---------------------------------------------------------------- C07
def c07_expect_frame(prev, f):
    """-> ('refuse', {classes}) | ('accept',) | ('free',)"""
    used = getp(prev, b"POINT", b"USED"); labels = getp(prev, b"POINT", b"LABELS")
    prate = getp(prev, b"POINT", b"RATE"); arate = getp(prev, b"ANALOG", b"RATE"); aused = getp(prev, b"ANALOG", b"USED")
    alabels = getp(prev, b"ANALOG", b"LABELS")
    try:
        nused = int(used["vals"][0]) if used["type"] == "I" else None
        naused = int(aused["vals"][0]) if aused["type"] == "I" else None
        lab = labels["vals"] if labels["type"] == "C" else None
        alab = alabels["vals"] if alabels["type"] == "C" else None
        pr = prate["vals"][0] if prate["type"] == "F" else None
        ar = arate["vals"][0] if arate["type"] == "F" else None
    except Exception:
        return ("free",)
    if None in (nused, naused, lab, alab, pr, ar): return ("free",)
    classes = set()
    names = [p[0] for p in f["pts"]]
    if nused != 0 and len(names) != nused: classes.add("runtime_error")
    if any(l not in names for l in lab): classes.add("invalid_argument")
    if names and f_is_zero(pr): classes.add("runtime_error")
    if f["subs"] and f_is_zero(ar): classes.add("runtime_error")
    if f["subs"] and naused != 0 and len(f["subs"][0]) != naused: classes.add("runtime_error")
    if classes: return ("refuse", classes)
    # must-accept: matches declared names, counts, rates and sub-frame ratio
    nabf = int(run.hdr(prev)["nbAnalogByFrame"])
    ok = names == lab and len(names) == nused
    if naused > 0:
        ok = ok and len(f["subs"]) == nabf and nabf > 0 and all([c[0] for c in sf] == alab for sf in f["subs"])
    else:
        ok = ok and not f["subs"]
    if ok: return ("accept",)
    return ("free",)

def c07(res):
    out = []
    for rec, t, prev, d, vars_ in Walk(res):
        if prev is None or not rec["res"]: continue
        got = rec["res"][2:]
        if rec["op"] == "frame":
            idx = int(t[2]) if len(t) > 2 else SIZE_MAX
            if idx != SIZE_MAX and idx >= 2**40: continue
            e = c07_expect_frame(prev, vars_.get(t[1], EMPTY))
            if e[0] == "refuse":
                if got == "ok": out.append(("frame_must_refuse", {"op": rec["n"], "expected": sorted(e[1])}, "frame accepted although a documented precondition is violated"))
                elif got.replace("throw ", "") not in e[1]: out.append(("frame_refusal_class", {"op": rec["n"], "expected": sorted(e[1]), "got": got}, "frame refused with the wrong exception class"))
            elif e[0] == "accept" and got != "ok":
                out.append(("frame_must_accept", {"op": rec["n"], "got": got}, "a frame matching the declared shape was refused"))
        elif rec["op"] in ("pointcol", "analogcol"):
            vs = t[1:]
            nf = prev["NF"]
            isp = rec["op"] == "pointcol"
            labels = getp(prev, b"POINT" if isp else b"ANALOG", b"LABELS")
            if labels is None or labels["type"] != "C": continue
            must_refuse = False
            if len(vs) == 0 or len(vs) != nf: must_refuse = True
            else:
                fs = [vars_.get(v, EMPTY) for v in vs]
                if isp:
                    if not fs[0]["pts"]: must_refuse = True
                    elif any(p[0] in labels["vals"] for p in fs[0]["pts"]): must_refuse = True
                else:
                    nabf = int(run.hdr(prev)["nbAnalogByFrame"])
                    if len(fs[0]["subs"]) != nabf: must_refuse = True
                    elif nabf == 0 or not fs[0]["subs"][0]: must_refuse = True
                    elif any(c[0] in labels["vals"] for c in fs[0]["subs"][0]): must_refuse = True
            if must_refuse:
                if got != "throw invalid_argument":
                    out.append(("column_must_refuse", {"op": rec["n"], "got": got}, "column add with a documented defect was not refused with invalid_argument"))
            else:
                # must accept when every frame supplies the same new names and the stored frames are uniform
                fs = [vars_.get(v, EMPTY) for v in vs]
                if isp:
                    n0 = [p[0] for p in fs[0]["pts"]]
                    uniform = all([p[0] for p in f["pts"]] == n0 for f in fs) and len(set(n0)) == len(n0)
                else:
                    n0 = [c[0] for c in fs[0]["subs"][0]]; nabf = int(run.hdr(prev)["nbAnalogByFrame"])
                    uniform = all(len(f["subs"]) == nabf and all([c[0] for c in sf] == n0 for sf in f["subs"]) for f in fs) and len(set(n0)) == len(n0)
                    uniform = uniform and all(len(f["subs"]) == nabf for f in prev["frames"])
                if uniform and got != "ok":
                    out.append(("column_must_accept", {"op": rec["n"], "got": got}, "a matching column was refused"))
    return out

# ---------------------------------------------------------------- C10
def c10(res):
    out = []
    for rec, t, prev, d, vars_ in Walk(res):
        if prev is None or not rec["res"] or not rec["res"].startswith("R throw"): continue
        if rec["op"] in ("load", "new", "save"): continue
        if d is not None and d != prev:
            what = "header" if d["H"] != prev["H"] else "parameters" if d["groups"] != prev["groups"] else "frames"
            where = {"op": rec["n"], "call": rec["op"], "changed": what}
            if rec["op"] == "param":
                where["group"] = t[1]; where["name"] = t[2]
            out.append(("unchanged_after_throw", where, "a refused %s call changed the object's %s" % (rec["op"], what)))
    return out

# ---------------------------------------------------------------- C05
def c05_agree(d, gaps=()):
    """-> list of (clause, detail) disagreements between header / parameters / data"""
    bad = []
    h = run.hdr(d)
    used = getp(d, b"POINT", b"USED"); frames = getp(d, b"POINT", b"FRAMES"); prate = getp(d, b"POINT", b"RATE")
    aused = getp(d, b"ANALOG", b"USED")
    def i0(p):
        try: return int(p["vals"][0]) % 2**64 if p["type"] == "I" else None
        except Exception: return None
    nb = int(h["nbPoints"]); nabf = int(h["nbAnalogByFrame"]); meas = int(h["nbAnalogsMeas"])
    first, last = int(h["firstFrame"]), int(h["lastFrame"])
    nanalogs = meas // nabf if nabf else 0
    hframes = 0 if (nb == 0 and nanalogs == 0) else (last - first + 1) % 2**64
    fr = d["frames"]
    filled = [f for i, f in enumerate(fr) if (f["pts"] or f["subs"]) and i not in gaps]
    u = i0(used)
    if u is None: return [("mandatory_missing", "POINT:USED is not an integer parameter")]
    if nb != u: bad.append(("points_header_param", "header points %d != POINT:USED %d" % (nb, u)))
    for f in filled:
        if len(f["pts"]) != u: bad.append(("points_param_data", "POINT:USED %d != %d points in a filled frame" % (u, len(f["pts"])))); break
    nf = i0(frames)
    if nf is None: return bad + [("mandatory_missing", "POINT:FRAMES is not an integer parameter")]
    if nf != d["NF"]: bad.append(("frames_param_data", "POINT:FRAMES %d != %d stored frames" % (nf, d["NF"])))
    if hframes != d["NF"]: bad.append(("frames_header_data", "header frame count %d != %d stored frames" % (hframes, d["NF"])))
    for f in filled:
        if f["subs"] or nabf:
            if len(f["subs"]) != nabf and f["subs"]: bad.append(("subframes_header_data", "header sub-frames %d != %d in a filled frame" % (nabf, len(f["subs"])))); break
    au = i0(aused)
    if au is not None and nabf >= 1:
        if nanalogs != au: bad.append(("channels_header_param", "header channels %d != ANALOG:USED %d" % (nanalogs, au)))
        if meas != au * nabf: bad.append(("samples_per_frame", "analog samples per frame %d != %d x %d" % (meas, au, nabf)))
        for f in filled:
            for sf in f["subs"]:
                if len(sf) != au: bad.append(("channels_param_data", "ANALOG:USED %d != %d channels in a sub-frame" % (au, len(sf)))); break
    if prate and prate["type"] == "F" and prate["vals"]:
        import struct
        a = struct.unpack(">f", bytes.fromhex(prate["vals"][0]))[0]; b = struct.unpack(">f", bytes.fromhex(h["rate"]))[0]
        if a == a and b == b and abs(a - b) > 1e-4 * max(1.0, abs(a)) and abs(a) < 2e5: bad.append(("rate", "header rate %r != POINT:RATE %r" % (b, a)))
    # label-like lists: one entry per point/channel in data order when declared by name
    if filled and fr and fr[0]["pts"]:
        lab = getp(d, b"POINT", b"LABELS")
        names = [p[0] for p in fr[0]["pts"]]
        if lab and lab["type"] == "C" and lab["vals"] and len(lab["vals"]) == len(names) and lab["vals"] != names:
            bad.append(("labels_order", "POINT:LABELS differ from the point names of frame 0"))
    for g, ps, n in ((b"POINT", (b"LABELS", b"DESCRIPTIONS", b"UNITS"), u), (b"ANALOG", (b"LABELS", b"DESCRIPTIONS", b"SCALE", b"OFFSET", b"UNITS"), au)):
        lab = getp(d, g, b"LABELS")
        if lab is None or lab["type"] != "C" or n is None: continue
        if len(lab["vals"]) == n and n > 0:   # declared by name
            for pn in ps:
                q = getp(d, g, pn)
                if q is not None and len(q["vals"]) != n:
                    bad.append(("labellike_count", "%s:%s has %d entries for %d declared" % (g.decode(), pn.decode(), len(q["vals"]), n)))
    return bad

def c05(res):
    out = []
    gaps = set()
    for rec, t, prev, d, vars_ in Walk(res):
        if rec["op"] in ("new", "load"): gaps = set()
        if d is None or rec["res"] != "R ok": continue
        if rec["op"] == "frame" and prev is not None:
            idx = int(t[2]) if len(t) > 2 else None
            if idx is not None:
                if idx > prev["NF"]: gaps |= set(range(prev["NF"], idx))
                gaps.discard(idx)
        if rec["op"] in ("save", "dump", "smut"): continue
        # domain of C05: accepted frames carry a uniform sub-frame count
        nsubs = set(len(f["subs"]) for i, f in enumerate(d["frames"]) if i not in gaps)
        if len(nsubs) > 1: return out
        for clause, detail in c05_agree(d, gaps):
            where = {"op": rec["n"], "call": rec["op"], "frame0_gap": 0 in gaps}
            if rec["op"] == "param": where["group"] = t[1]; where["name"] = t[2]
            if rec["op"] == "frame": where["emptyframe"] = not (vars_.get(t[1], EMPTY)["pts"] or vars_.get(t[1], EMPTY)["subs"])
            out.append((clause, where, detail))
            return out     # the first op that breaks the agreement; later states inherit it
    return out

# ---------------------------------------------------------------- C09
def c09(res):
    out = []
    for rec, t, prev, d, vars_ in Walk(res):
        if rec["op"] == "pset":
            if rec["res"] == "R nostate": continue
            ty, dims, vals = t[1], t[2], t[3]
            dl = [] if dims in ("-", "") else [int(x) for x in dims.split(",")]
            vl = [] if vals in ("-", "") else vals.split(",")
            prod = 1
            for x in dl: prod *= x
            eff = dl if dl else [len(vl)]
            if len(vl) == 0: accept = (len(eff) == 0) or (prod == 0 if dl else True)
            else: accept = (len(vl) == (prod if dl else len(vl)))
            ps = [l for l in rec["lines"] if l.startswith("PS ")]
            got_ok = rec["res"] == "R ok"
            if accept != got_ok:
                out.append(("set_accepts_iff", {"op": rec["n"], "type": ty, "dims": dims, "n": len(vl)}, "Parameter::set %s although count %d vs dims %s" % ("accepted" if got_ok else "refused", len(vl), dims)))
            elif not got_ok and rec["res"] != "R throw range_error":
                out.append(("set_refusal_class", {"op": rec["n"], "got": rec["res"]}, "refused with the wrong class"))
            elif got_ok and ps:
                q = ps[0].split(" ")
                gdims = [] if q[5] == "-" else [int(x) for x in q[5].split(",")]
                gvals = [] if q[6] == "-" else q[6].split(",")
                exp_dims = ([max([len(unx(v)) for v in vl] + [0])] if ty == "C" else []) + eff
                if gdims != exp_dims or gvals != ([str(int(v)) for v in vl] if ty == "I" else vl) or q[4] != ty:
                    out.append(("set_stores", {"op": rec["n"]}, "stored type/dims/values differ from what was given: %s" % ps[0]))
            elif not got_ok and ps and ps[0].split(" ")[4] != "N":
                out.append(("set_refused_unchanged", {"op": rec["n"]}, "refused set changed the parameter"))
            continue
        if prev is None or d is None or rec["res"] != "R ok": continue
        if rec["op"] == "param":
            g, nm, desc, lk = t[1], t[2], t[3], t[4]
            bg = [G["name"] for G in prev["groups"]]; ag = [G["name"] for G in d["groups"]]
            if g in bg:
                gi = bg.index(g)
                if ag != bg: out.append(("groups_unchanged", {"op": rec["n"]}, "group list changed although the group existed")); continue
            else:
                gi = len(bg)
                if ag != bg + [g]: out.append(("group_created", {"op": rec["n"]}, "absent group was not appended")); continue
            bp = prev["groups"][gi]["params"] if gi < len(prev["groups"]) else []
            ap = d["groups"][gi]["params"]
            names = [p["name"] for p in bp]
            if nm in names:
                pi = names.index(nm)
                if [p for i, p in enumerate(ap) if i != pi] != [p for i, p in enumerate(bp) if i != pi] or len(ap) != len(bp):
                    out.append(("replace_in_place", {"op": rec["n"]}, "replacing changed another parameter or the order")); continue
            else:
                pi = len(bp)
                if ap[:-1] != bp or len(ap) != len(bp) + 1:
                    out.append(("append", {"op": rec["n"]}, "new parameter not appended at the end")); continue
            P = ap[pi]
            if P["name"] != nm or P["desc"] != desc or P["locked"] != lk or P["type"] != t[5]:
                out.append(("lookup_returns", {"op": rec["n"]}, "stored name/description/lock/type differ from the given parameter"))
            # every other group unchanged (mandatory POINT/ANALOG values may not change through this call either)
            for i, (a, b) in enumerate(zip(d["groups"], prev["groups"])):
                if i != gi and a != b: out.append(("other_groups_unchanged", {"op": rec["n"], "group": i}, "another group changed")); break
        elif rec["op"] in ("lock", "unlock"):
            exp = [dict(G) for G in prev["groups"]]
            names = [G["name"] for G in exp]
            if t[1] in names:
                i = names.index(t[1]); exp[i] = dict(exp[i]); exp[i]["locked"] = "1" if rec["op"] == "lock" else "0"
            if exp != d["groups"] or d["H"] != prev["H"] or d["frames"] != prev["frames"]:
                out.append(("lock_only_flag", {"op": rec["n"]}, "lock/unlock changed something else than that flag"))
    return out

# ---------------------------------------------------------------- C11
def c11(res):
    out = []
    last = None
    for rec, t, prev, d, vars_ in Walk(res):
        if rec["op"] != "get" or prev is None: continue
        k = t[2]; a = t[3:]
        D = prev
        def oor(): return ("T", "out_of_range")
        def inv(): return ("T", "invalid_argument")
        def at(l, i): return ("V", l[i]) if 0 <= i < len(l) else oor()
        def byname(l, key, name): 
            for x in l:
                if name(x) == key: return ("V", x)
            return inv()
        def idxname(l, key, name):
            for i, x in enumerate(l):
                if name(x) == key: return ("V", i)
            return inv()
        exp = None
        try:
            if k == "frame":
                r = at(D["frames"], int(a[0])); exp = r if r[0] == "T" else ("V", "%d %d" % (len(r[1]["pts"]), len(r[1]["subs"])))
            elif k in ("point", "pointn", "pointidx"):
                r = at(D["frames"], int(a[0]))
                if r[0] == "V":
                    pts = r[1]["pts"]
                    if k == "point": r = at(pts, int(a[1])); r = r if r[0] == "T" else ("V", " ".join(r[1]))
                    elif k == "pointn": r = byname(pts, a[1], lambda p: p[0]); r = r if r[0] == "T" else ("V", " ".join(r[1]))
                    else: r = idxname(pts, a[1], lambda p: p[0]); r = r if r[0] == "T" else ("V", str(r[1]))
                exp = r
            elif k in ("sub", "chan", "chann", "chanidx"):
                r = at(D["frames"], int(a[0]))
                if r[0] == "V": r = at(r[1]["subs"], int(a[1]))
                if r[0] == "V":
                    sf = r[1]
                    if k == "sub": r = ("V", str(len(sf)))
                    elif k == "chan": r = at(sf, int(a[2])); r = r if r[0] == "T" else ("V", "%s=%s" % tuple(r[1]))
                    elif k == "chann": r = byname(sf, a[2], lambda c: c[0]); r = r if r[0] == "T" else ("V", "%s=%s" % tuple(r[1]))
                    else: r = idxname(sf, a[2], lambda c: c[0]); r = r if r[0] == "T" else ("V", str(r[1]))
                exp = r
            elif k == "group": r = at(D["groups"], int(a[0])); exp = r if r[0] == "T" else ("V", "%s %d" % (r[1]["name"], len(r[1]["params"])))
            elif k == "groupn": r = byname(D["groups"], a[0], lambda g: g["name"]); exp = r if r[0] == "T" else ("V", "%s %d" % (r[1]["name"], len(r[1]["params"])))
            elif k == "groupidx": r = idxname(D["groups"], a[0], lambda g: g["name"]); exp = r if r[0] == "T" else ("V", str(r[1]))
            elif k in ("param", "paramidx", "vals"):
                r = at(D["groups"], int(a[0]))
                if r[0] == "V":
                    ps = r[1]["params"]
                    if k == "paramidx": r = idxname(ps, a[1], lambda p: p["name"]); r = r if r[0] == "T" else ("V", str(r[1]))
                    else:
                        r = at(ps, int(a[1]))
                        if r[0] == "V" and k == "vals":
                            p = r[1]; r = ("V", ",".join(p["vals"]) or "-") if p["type"] == a[2] else inv()
                        elif r[0] == "V": r = None
                exp = r
            elif k == "paramn":
                r = byname(D["groups"], a[0], lambda g: g["name"])
                if r[0] == "V": r = byname(r[1]["params"], a[1], lambda p: p["name"]); r = None if r[0] == "V" else r
                exp = r
            elif k == "evtime": r = at(D["HT"], int(a[0])); exp = r
            elif k == "evdisplay": r = at(D["HD"], int(a[0])); exp = r
            elif k == "evlabel": r = at(D["HL"], int(a[0])); exp = r
        except Exception as e:
            exp = None
        if exp is None: continue
        got = rec["res"]
        want = "%s %s" % exp
        if got != want:
            out.append(("lookup", {"op": rec["n"], "kind": k}, "look-up `%s` returned %r, the container content says %r" % (" ".join(t[1:])[:80], got, want)))
    return out

# ---------------------------------------------------------------- C08
def c08(res):
    """caller-side mutations never change the store; re-submitted frames are independent"""
    out = []
    last_dump = None; dirty = False
    for rec, t, prev, d, vars_ in Walk(res):
        if rec["op"] == "cmut": dirty = True; continue
        if rec["op"] == "dump" and d is not None and prev is not None and dirty:
            if d != prev:
                out.append(("caller_mutation", {"op": rec["n"]}, "the stored data changed after the caller mutated its own frame object"))
            dirty = False
        elif rec["op"] == "smut" and rec["res"] == "R ok" and prev is not None and d is not None:
            fi = int(t[1])
            for j, (a, b) in enumerate(zip(d["frames"], prev["frames"])):
                if j != fi and a != b:
                    out.append(("stored_frames_independent", {"op": rec["n"], "edited": fi, "changed": j}, "editing stored frame %d changed stored frame %d" % (fi, j))); break
            dirty = False
        elif rec["op"] not in ("mkframe",): 
            if d is not None: dirty = False
    return out
