"""Check driver: proof obligations -> harness build -> correspondence lanes + property oracles ->
verdict (known findings, violations with replay, no-failing-input-found) -> evidence file."""
import os, sys, json, time, hashlib, traceback
from concurrent.futures import ThreadPoolExecutor
from . import build, run, leanaudit, shrink as shrinker

VERIF = build.VERIF
EVID = os.path.join(VERIF, "evidence")
REPLAYS = os.path.join(VERIF, "replays")
CORPUS = os.path.join(VERIF, "corpus")

TRUSTED_BASE = [
    "Lean 4.33.0 kernel (theorems listed under axioms_per_theorem; allowed axioms: propext, Quot.sound, Classical.choice; no sorry/admit/axiom/native_decide/bv_decide/implemented_by/unsafe, enforced by grep + #print axioms on every run)",
    "hand-written Lean model /verif/lean/Ezc3dVerif/Model/* of /repo/src (tied to the code only by the correspondence check of this run)",
    "correspondence machinery: /verif/harness/harness.cpp (built from /repo's current working tree), /verif/lean/Driver/*.lean, /verif/vlib/*.py, canonical dump format",
    "FloatOps (rate*10000 truncation, float->size_t casts) instantiated in the driver by Lean Float32 with x86-64 cvtt semantics; floats are otherwise opaque 32-bit patterns",
    "libstdc++ fstream/vector/string/shared_ptr semantics as modelled (sticky failbit, short read, .at() throws out_of_range, resize default-constructs)",
    "gcc 12 / x86-64: int<->size_t conversions modular; (int)pow(256,i) exact for i<=3 and INT_MIN beyond (UB in C++, watched by C19)",
]

class Failure:
    def __init__(self, clause, where, detail, lines, kind="oracle"):
        self.clause, self.where, self.detail, self.lines, self.kind = clause, where, detail, lines, kind

class Ctx:
    def __init__(self, pid, tier, seed):
        self.pid, self.tier, self.seed = pid, tier, seed
        self.t0 = time.time()
        self.evaluations = 0
        self.distinct = set()
        self.samples = []
        self.dist = {}
        self.failures = []        # oracle failures (property violated on the implementation)
        self.disagreements = []   # model vs library
        self.crashes = []
        self.notes = []
        self.exes = {}
        self.audit = None
        self.lane_counts = {}
        self.assumptions = []
        self.exhaustive = None
        import glob
        if tier != "replay":      # a new run replaces the replay files of the previous one; replaying one of them keeps them
            for f in glob.glob(os.path.join(REPLAYS, "%s-*" % pid)): os.remove(f)
    quick = property(lambda self: self.tier == "quick")
    def count(self, k, n=1): self.dist[k] = self.dist.get(k, 0) + n
    def merge_stats(self, st):
        for k, v in (st or {}).items(): self.count(k, v)
    def exe(self, config="asan", shared=False, main="harness.cpp"):
        if config == "asan" and os.environ.get("VERIF_COVERAGE") == "1": config = "cov"    # tools/coverage.py: measure, verdict ignored
        key = (config, shared, main)
        if key not in self.exes:
            e, err = build.build_harness(config, shared, main)
            if not e: raise RuntimeError("harness build failed (%s): %s" % (config, (err or "")[-2000:]))
            self.exes[key] = e
        return self.exes[key]
    def sample(self, s):
        if len(self.samples) < 4: self.samples.append(s if len(s) < 1500 else s[:1500] + "…")
    def distinct_key(self, *k): self.distinct.add(k)
    def fail(self, clause, where, detail, lines, kind="oracle"):
        if clause.startswith("_"):            # oracle statistics, not failures
            self.count("oracle" + clause); return
        self.failures.append(Failure(clause, where, detail, list(lines), kind))
    def record_pair(self, res, lines, lane, scope=None):
        """bookkeeping common to every script run: counts, crash and disagreement collection.
        scope: function(record) -> bool selecting the records compared for this property."""
        self.evaluations += 1
        self.lane_counts[lane] = self.lane_counts.get(lane, 0) + 1
        for rec in res.hrecs:
            self.count("op_%s:%s" % (rec["op"], (rec["res"] or "?").replace("R ", "").replace(" ", "_")[:40]))
            self.distinct_key(lane, rec["op"], rec["res"], len(rec["lines"]))
        if res.crash:
            self.crashes.append((lane, res.crash, list(lines)))
        if res.mrc != 0:
            self.notes.append("model driver rc=%s: %s" % (res.mrc, res.merr[-300:]))
        d = None
        for i, (a, b) in enumerate(zip(res.hrecs, res.mrecs)):
            if a["op"] in ("specdecode", "savex", "lwcheck") or (scope and not scope(a)): continue
            if a["res"] != b["res"] or a["lines"] != b["lines"]:
                d = i; break
        if d is None and not res.crash and len(res.hrecs) != len(res.mrecs):
            d = min(len(res.hrecs), len(res.mrecs))
        if d is not None:
            res.disagree = d
            self.disagreements.append((lane, run.describe_disagreement(res), list(lines)))
        for p, same in res.files:
            if same is not True:
                self.disagreements.append((lane, "saved file %s differs from the model's bytes" % os.path.basename(p), list(lines)))
        return d

def load_known():
    p = os.path.join(VERIF, "known_findings.json")
    if not os.path.exists(p): return []
    return json.load(open(p)).get("findings", [])

def match_known(pid, f, known):
    for k in known:
        if k["property"] != pid or k["clause"] != f.clause: continue
        m = k.get("match", {})
        if all(str(f.where.get(a)) == str(b) for a, b in m.items()):
            return k
    return None

def write_replay(pid, seed, n, header, lines):
    os.makedirs(REPLAYS, exist_ok=True)
    p = os.path.join(REPLAYS, "%s-%s-%d.script" % (pid, seed, n))
    with open(p, "w") as f:
        for h in header: f.write("# " + h.replace("\n", "\n# ") + "\n")
        f.write("\n".join(lines) + "\n")
    return p

def finish(ctx, rule, extra_cov=None, level="proof", replay_of=None):
    """verdict + evidence; returns the process exit code. `replay_of`: re-run of one replay file - nothing is written,
    the VIOLATION lines name that file"""
    known = load_known()
    if replay_of:
        global write_replay
        _wr = write_replay
        write_replay = lambda pid, seed, n, header, lines: replay_of
    rc = 0
    out = []
    n = 0
    seen_known = {}
    violations = 0
    # 1. oracle failures
    reported = set()
    for f in ctx.failures:
        k = match_known(ctx.pid, f, known)
        if k:
            seen_known[k["id"]] = k
            continue
        key = (f.clause, json.dumps(f.where, sort_keys=True)[:200])
        if key in reported: continue
        if len(reported) >= 5: continue
        reported.add(key)
        n += 1; violations += 1
        p = write_replay(ctx.pid, ctx.seed, n, ["property %s clause %s" % (ctx.pid, f.clause), "where: %s" % json.dumps(f.where), "detail: %s" % f.detail], f.lines)
        out.append("VIOLATION property=%s replay=%s" % (ctx.pid, p))
        rc = 1
    for k in seen_known.values():
        out.append("KNOWN-FINDING: property=%s %s" % (ctx.pid, k["what"]))
    # 2. crashes = memory errors / aborts of the real library on a script
    for lane, crash, lines in ctx.crashes[:3]:
        n += 1; violations += 1
        p = write_replay(ctx.pid, ctx.seed, n, ["property %s: the instrumented library aborted (lane %s)" % (ctx.pid, lane), crash], lines)
        out.append("VIOLATION property=%s replay=%s" % (ctx.pid, p))
        rc = 1
    # 3. proof obligations / correspondence without an oracle failure
    if rc == 0:
        broken = []
        if ctx.audit and not ctx.audit["ok"]:
            broken += ["proof obligation: " + x for x in ctx.audit["failures"]]
        for lane, desc, lines in ctx.disagreements[:3]:
            broken.append("correspondence (lane %s): %s" % (lane, desc))
        if broken:
            n += 1; violations += 1
            lines = ctx.disagreements[0][2] if ctx.disagreements else []
            p = write_replay(ctx.pid, ctx.seed, n, ["property %s is no longer shown to hold: no failing input was found by the targeted search" % ctx.pid] + broken, lines)
            out.append("VIOLATION property=%s replay=%s no-failing-input-found" % (ctx.pid, p))
            rc = 1
    wall = time.time() - ctx.t0
    a = ctx.audit or {"obligations": 0, "discharged": 0, "axioms": {}, "failures": [], "checker": []}
    cov = {
        "obligations": a["obligations"], "discharged": a["discharged"],
        "checker_cmd": "cd /verif/lean && lake build && lake env lean <#print axioms of each theorem>" + ("; lake env leanchecker Ezc3dVerif.Properties.%s" % ctx.pid if ctx.tier == "thorough" else ""),
        "trusted_base": TRUSTED_BASE,
        "axioms_per_theorem": a.get("axioms", {}),
        "proof_failures": a.get("failures", []),
        "evaluations": ctx.evaluations,
        "distinct_nontrivial": len(ctx.distinct),
        "rule": rule,
        "samples": ctx.samples or ["(no script was generated)"],
        "lanes": ctx.lane_counts,
        "distribution": dict(sorted(ctx.dist.items(), key=lambda kv: -kv[1])[:80]),
        "correspondence_disagreements": len(ctx.disagreements),
        "oracle_failures": len(ctx.failures),
        "known_findings_seen": sorted(seen_known.keys()),
        "library_aborts": len(ctx.crashes),
        "notes": ctx.notes[:10],
    }
    if ctx.exhaustive is not None: cov["exhaustive"] = ctx.exhaustive
    if extra_cov: cov.update(extra_cov)
    ev = {"property_id": ctx.pid, "tier": ctx.tier, "seed": ctx.seed, "level": level, "coverage": cov,
          "assumptions": ctx.assumptions, "wall_s": round(wall, 2), "violations": violations}
    if replay_of:
        write_replay = _wr
        for f in ctx.failures[:5]: print("  oracle: %s %s %s" % (f.clause, json.dumps(f.where), f.detail[:300]))
        for lane, crash, lines in ctx.crashes[:2]: print("  abort: %s" % crash[:600])
        for lane, desc, lines in ctx.disagreements[:2]: print("  disagreement: %s" % desc[:600])
    else:
        os.makedirs(EVID, exist_ok=True)
        json.dump(ev, open(os.path.join(EVID, ctx.pid + ".json"), "w"), indent=1)
    for l in out: print(l)
    print("%s %s tier=%s seed=%s: %d scripts, %d distinct cases, %d/%d proof obligations, %d disagreements, %d oracle failures (%d known findings), %.1fs" %
          ("FAIL" if rc else "PASS", ctx.pid, ctx.tier, ctx.seed, ctx.evaluations, len(ctx.distinct), a["discharged"], a["obligations"],
           len(ctx.disagreements), len(ctx.failures), len(seen_known), wall))
    return rc

def pmap(fn, items, workers=16):
    with ThreadPoolExecutor(workers) as ex:
        return list(ex.map(fn, items))
