import Ezc3dVerif.Basic.Core
import Ezc3dVerif.Model.Types
import Ezc3dVerif.Model.Names
import Ezc3dVerif.Model.Containers
import Ezc3dVerif.Model.Api
import Ezc3dVerif.Model.Codec
import Ezc3dVerif.Model.Write
import Ezc3dVerif.Model.Read
