import Driver.Proto
import Ezc3dVerif.Model.Read
import Ezc3dVerif.Model.Write
import Ezc3dVerif.Model.SaveIO
import Ezc3dVerif.Proofs.LoadWriteDec
import Ezc3dVerif.Properties.C03b
import Ezc3dVerif.Model.Standalone
/-
  Line-protocol driver: runs the model on an op script and prints the same lines as the C++
  harness (/verif/harness/harness.cpp).
-/
open Ezc3d Ezc3d.Proto

/-- x86-64 `cvttss2si` semantics for `static_cast<int>(float)` -/
def castI32 (f : Float32) : Int :=
  if f.isNaN || f >= 2147483648.0 || f < -2147483648.0 then -2147483648 else f.toInt32.toInt

/-- gcc x86-64 code for `static_cast<size_t>(float)` -/
def castU64 (f : Float32) : Nat :=
  if f.isNaN then 9223372036854775808
  else if f < 0 then
    (if f > -9223372036854775808.0 then (18446744073709551616 - (-f).toUInt64.toNat) % 18446744073709551616
     else 9223372036854775808)
  else if f < 18446744073709551616.0 then f.toUInt64.toNat
  else 0

def fops : FloatOps where
  rateKey b := castI32 (Float32.ofBits b * 10000.0)
  truncNat b := castU64 (Float32.ofBits b)
  ratioNat a b := castU64 (Float32.round (Float32.ofBits a / Float32.ofBits b))

/-- announced size of the data section (frames x floats per frame): beyond 4M floats a load is not
    replayed in the model (known finding: cost follows the announced counts, not the file size) -/
def claimedOf (b : Bytes) : Nat :=
  match Header.read (InStream.open_ b) with
  | .ok (h, s1) =>
    match readParameters s1 h with
    | .ok ((ph, gs), _) =>
      match updateHeader fops { hdr := h, ph := ph, groups := gs, frames := [] } with
      | .ok c1 =>
        -- counts the data reader refuses at once (length_error before anything is allocated or read) cost nothing: those files
        -- ARE replayed on the library; only counts it would really iterate over are "claimed"
        if c1.hdr.nbFrames > maxFrames then 0
        else if c1.hdr.nbFrames = 0 then 0
        else if ¬ (c1.hdr.scale < 0) then 0
        else if c1.hdr.nbPoints > maxPoints then 0
        else if c1.hdr.nbAnalogByFrame > maxSubframes then 0
        else if c1.hdr.nbAnalogByFrame > 0 ∧ c1.hdr.nbAnalogs > maxChannels then 0
        -- every frame gets `nbAnalogByFrame` sub-frame objects even when there is no channel (`Analogs(nbAnalogByFrame)`): they count
        else c1.hdr.nbFrames * (4 * c1.hdr.nbPoints + c1.hdr.nbAnalogByFrame * (c1.hdr.nbAnalogs + 1) + 1)
      | _ => 0
    | _ => 0
  | _ => 0

structure DState where
  cur : Option C3D := none
  vars : List (String × Frame) := []
  mode : DumpMode := .full
  pk : Param := { name := ofAscii "P" }     -- the parameter the pset ops work on
  sp : List Group := defaultGroups           -- a stand-alone `Parameters` object (ops `sa ...`)
  sg : Group := {}                           -- a stand-alone `Group` object

def DState.getVar (d : DState) (v : String) : Frame :=
  match d.vars.find? (·.1 == v) with | some (_, f) => f | none => {}

def DState.setVar (d : DState) (v : String) (f : Frame) : DState :=
  { d with vars := (v, f) :: d.vars.filter (·.1 != v) }

def outcomeStr : Outcome C3D → String
  | .ok _ => "ok" | .throw e _ => s!"throw {e}" | .ub k => s!"ub {k.toString}"

def resStr (f : α → String) : Res α → String
  | .ok a => "V " ++ f a | .throw e => s!"T {e}" | .ub k => s!"U {k.toString}"

def parseNat! (s : String) : Nat := s.toNat?.getD 0

def applyOutcome (d : DState) (o : Outcome C3D) : DState × List String :=
  match o with
  | .ok s => ({ d with cur := some s }, s!"R ok" :: dumpLines d.mode s)
  | .throw e l => ({ d with cur := some l }, s!"R throw {e}" :: dumpLines d.mode l)
  | .ub k => (d, [s!"R ub {k.toString}"])

def setParamFromScript (p : Param) (ty dims vals : String) : Res Param :=
  let d := (splitList dims ",").map parseNat!
  let vl := splitList vals ","
  match ty with
  | "I" => p.setInts (vl.map fun s => s.toInt?.getD 0) d
  | "F" => p.setFloats (vl.map fun s => (parseF s).getD 0) d
  | "C" => p.setStrs (vl.map fun s => (parseX s).getD []) d
  | _ => .ok p

def updPoint (p : Point) (t : List String) : Point :=
  match t with
  | [x, y, z, r] => { p with x := (parseF x).getD 0, y := (parseF y).getD 0, z := (parseF z).getD 0, r := (parseF r).getD 0 }
  | _ => p

def getOp (s : C3D) (t : List String) : String :=
  let N (x : String) := parseNat! x
  let X (x : String) := (parseX x).getD []
  let chanS (c : Channel) := chanStr c
  match t with
  | ["frame", i] => resStr (fun (f : Frame) => s!"{f.pts.length} {f.subs.length}") (atIdx s.frames (N i))
  | ["point", f, i] => resStr pointStr ((atIdx s.frames (N f)).bind fun fr => atIdx fr.pts (N i))
  | ["pointn", f, n] => resStr pointStr ((atIdx s.frames (N f)).bind fun fr => byName Point.name fr.pts (X n))
  | ["pointidx", f, n] => resStr toString ((atIdx s.frames (N f)).bind fun fr => nameIdx Point.name fr.pts (X n))
  | ["sub", f, k] => resStr (fun (sf : SubFrame) => toString sf.length) ((atIdx s.frames (N f)).bind fun fr => atIdx fr.subs (N k))
  | ["chan", f, k, i] => resStr chanS ((atIdx s.frames (N f)).bind fun fr => (atIdx fr.subs (N k)).bind fun sf => atIdx sf (N i))
  | ["chann", f, k, n] => resStr chanS ((atIdx s.frames (N f)).bind fun fr => (atIdx fr.subs (N k)).bind fun sf => byName Channel.name sf (X n))
  | ["chanidx", f, k, n] => resStr toString ((atIdx s.frames (N f)).bind fun fr => (atIdx fr.subs (N k)).bind fun sf => nameIdx Channel.name sf (X n))
  -- the non-const accessors have the contract of the const ones
  | ["ncpoint", f, i] => resStr pointStr ((atIdx s.frames (N f)).bind fun fr => atIdx fr.pts (N i))
  | ["ncpointn", f, n] => resStr pointStr ((atIdx s.frames (N f)).bind fun fr => byName Point.name fr.pts (X n))
  | ["ncsub", f, k] => resStr (fun (sf : SubFrame) => toString sf.length) ((atIdx s.frames (N f)).bind fun fr => atIdx fr.subs (N k))
  | ["ncchan", f, k, i] => resStr chanS ((atIdx s.frames (N f)).bind fun fr => (atIdx fr.subs (N k)).bind fun sf => atIdx sf (N i))
  | ["ncchann", f, k, n] => resStr chanS ((atIdx s.frames (N f)).bind fun fr => (atIdx fr.subs (N k)).bind fun sf => byName Channel.name sf (X n))
  | ["group", i] => resStr (fun (g : Group) => s!"{xhex g.name} {g.params.length}") (atIdx s.groups (N i))
  | ["groupn", n] => resStr (fun (g : Group) => s!"{xhex g.name} {g.params.length}") (byName Group.name s.groups (X n))
  | ["groupidx", n] => resStr toString (groupIdx s.groups (X n))
  | ["param", g, p] => resStr paramLine ((atIdx s.groups (N g)).bind fun grp => atIdx grp.params (N p))
  | ["paramn", g, p] => resStr paramLine (getParam s.groups (X g) (X p))
  | ["paramidx", g, n] => resStr toString ((atIdx s.groups (N g)).bind fun grp => grp.paramIdx (X n))
  | ["evtime", i] => resStr hex8 (atIdx s.hdr.evTimes (N i))
  | ["evdisplay", i] => resStr toString (atIdx s.hdr.evDisplay (N i))
  | ["evlabel", i] => resStr xhex (atIdx s.hdr.evLabels (N i))
  | ["vals", g, p, ty] =>
    let q := (atIdx s.groups (N g)).bind fun grp => atIdx grp.params (N p)
    match ty with
    | "B" => resStr intList (q.bind Param.asByte)
    | "I" => resStr intList (q.bind Param.asInt)
    | "F" => resStr f32List (q.bind Param.asFloat)
    | _ => resStr strList (q.bind Param.asString)
  | _ => "V ?"

def stepLine (d : DState) (n : Nat) (line : String) : IO (DState × List String) := do
  let t := line.splitOn " "
  let op := t.headD ""
  let hd := s!"OP {n} {op}"
  let X (x : String) := (parseX x).getD []
  match t with
  | ["dumpmode", m] =>
    return ({ d with mode := if m == "full" then .full else if m == "shape" then .shape else .none }, [hd])
  | ["new"] => return ({ d with cur := some C3D.init }, hd :: "R ok" :: dumpLines d.mode C3D.init)
  | ["load", path] =>
    let bytes? ← (do let b ← IO.FS.readBinFile path; pure (some b)) <|> pure none
    match bytes? with
    | none => return ({ d with cur := none }, [hd, "R throw ios_failure"])
    | some b =>
      let claimed : Nat := claimedOf b.toList
      if claimed > 4000000 then return ({ d with cur := none }, [hd, s!"R claimed {claimed}"]) else
      match C3D.load fops b.toList with
      | .ok s => return ({ d with cur := some s }, hd :: "R ok" :: dumpLines d.mode s)
      | .throw e => return ({ d with cur := none }, [hd, s!"R throw {e}"])
      | .ub k => return ({ d with cur := none }, [hd, s!"R ub {k.toString}"])
  | "specdecode" :: path :: opts =>
    let bytes? ← (do let b ← IO.FS.readBinFile path; pure (some b)) <|> pure none
    match bytes? with
    | none => return (d, [hd, "R nofile"])
    | some b =>
      match Spec.decode b.toList (opts.contains "float") with
      | none => return (d, [hd, "R undecodable"])
      | some c => return (d, hd :: "R ok" :: specLines c (d.mode == .full))
  | "savex" :: _ => return (d, [hd, "R skipped"])
  | ["mkframe", v, pts, subs] =>
    let f : Frame := { pts := (parsePts pts).getD [], subs := (parseSubs subs).getD [] }
    return (d.setVar v f, [hd])
  | "sa" :: rest =>
    -- the parameter classes on their own (Model/Standalone.lean)
    let gLines (tag : String) (gi : Nat) (g : Group) : List String :=
      s!"{tag}G {gi} {xhex g.name} {xhex g.desc} {b01 g.locked} {g.params.length}" ::
      ((enum g.params).map fun (pi, p) => s!"{tag}P {gi} {pi} {paramLine p}")
    let spLines (gs : List Group) : List String := (enum gs).foldr (fun (gi, g) acc => gLines "X" gi g ++ acc) []
    match rest with
    | ["pnew"] => return ({ d with sp := defaultGroups }, hd :: "R ok" :: spLines defaultGroups)
    | "gnew" :: nm :: ds :: lk =>
      let g : Group := { name := X nm, desc := X ds, locked := lk == ["1"] }
      return ({ d with sg := g }, hd :: "R ok" :: gLines "Y" 0 g)
    | ["gparam", nm, ds, lk, ty, dims, vals] =>
      let p0 : Param := { name := X nm, desc := X ds }
      match (if ty == "N" then Res.ok p0 else setParamFromScript p0 ty dims vals) with
      | .throw e => return (d, [hd, s!"R set throw {e}"])
      | .ub k => return (d, [hd, s!"R set ub {k.toString}"])
      | .ok p1 =>
        let p := { p1 with locked := lk == "1" }
        match d.sg.addParam p with
        | .ok g' => return ({ d with sg := g' }, hd :: "R ok" :: gLines "Y" 0 g')
        | .throw e => return (d, hd :: s!"R throw {e}" :: gLines "Y" 0 d.sg)
        | .ub k => return (d, [hd, s!"R ub {k.toString}"])
    | ["gparamnc", i] => return (d, [hd, resStr paramLine (atIdx d.sg.params (parseNat! i))])
    | ["pgroup"] =>
      match Parameters.addGroup d.sp d.sg with
      | .ok gs' => return ({ d with sp := gs' }, hd :: "R ok" :: spLines gs')
      | .throw e gs' => return ({ d with sp := gs' }, hd :: s!"R throw {e}" :: spLines gs')
      | .ub k => return (d, [hd, s!"R ub {k.toString}"])
    | ["pgroupnc", i] => return (d, [hd, resStr (fun (g : Group) => s!"{xhex g.name} {g.params.length}") (atIdx d.sp (parseNat! i))])
    | ["prename", i, nm] =>
      match atIdx d.sp (parseNat! i) with
      | .ok _ =>
        let gs' := d.sp.modify (parseNat! i) fun g => { g with name := X nm }
        return ({ d with sp := gs' }, hd :: "R ok" :: spLines gs')
      | .throw e => return (d, hd :: s!"R throw {e}" :: spLines d.sp)
      | .ub k => return (d, [hd, s!"R ub {k.toString}"])
    | ["pgroupidx", nm] => return (d, [hd, resStr toString (groupIdx d.sp (X nm))])
    | ["pgroupn", nm] => return (d, [hd, resStr (fun (g : Group) => s!"{xhex g.name} {g.params.length}") (byName Group.name d.sp (X nm))])
    | _ => return (d, [hd, "R badop"])
  | ["cpframe", v, i] =>
    -- a by-value copy of a stored frame: as a value, the frame itself
    match d.cur with
    | some s => (match s.frames[parseNat! i]? with
        | some f => return (d.setVar v f, [hd])
        | none => return (d, [hd]))
    | none => return (d, [hd])
  | ["refill", v, pts, subs] =>
    -- Frame::add(points, analogs) on the caller's object: new content, nothing of the old one is kept or touched
    let f : Frame := { pts := (parsePts pts).getD [], subs := (parseSubs subs).getD [] }
    return (d.setVar v f, [hd])
  | "cmut" :: v :: rest =>
    let f := d.getVar v
    let f' : Frame := match rest with
      | "pt" :: i :: xs => { f with pts := f.pts.modify (parseNat! i) (updPoint · xs) }
      | ["addpt", p] => { f with pts := f.pts ++ [(parsePoint p).getD {}] }
      | ["ptname", i, nm] => { f with pts := f.pts.modify (parseNat! i) (·.setName (X nm)) }
      | ["chn", k, nm, x] =>
        -- the first channel of that name in sub-frame k (nothing happens when there is none: the harness swallows the exception)
        { f with subs := f.subs.modify (parseNat! k) fun sf =>
            match sf.findIdx? (fun c => c.name == X nm) with
            | some j => sf.modify j fun c => { c with v := (parseF x).getD 0 }
            | none => sf }
      | ["ptn", nm, x] =>
        match f.pts.findIdx? (fun p => p.name == X nm) with
        | some j => { f with pts := f.pts.modify j fun p => { p with x := (parseF x).getD 0 } }
        | none => f
      | ["ch", k, i, x] => { f with subs := f.subs.modify (parseNat! k) fun sf => sf.modify (parseNat! i) fun c => { c with v := (parseF x).getD 0 } }
      | _ => f
    return (d.setVar v f', [hd])
  | _ =>
  match d.cur with
  | none => return (d, [hd, "R nostate"])
  | some s =>
    match t with
    | ["param", g, nm, ds, lk, ty, dims, vals] =>
      let p0 : Param := { name := X nm, desc := X ds }
      match (if ty == "N" then Res.ok p0 else setParamFromScript p0 ty dims vals) with
      | .throw e => return (d, [hd, s!"R set throw {e}"])
      | .ub k => return (d, [hd, s!"R set ub {k.toString}"])
      | .ok p1 =>
        let p := { p1 with locked := lk == "1" }
        let (d', ls) := applyOutcome d (s.parameter fops (X g) p)
        return (d', hd :: ls)
    | ["paramself", sg, sp, dg] =>
      match getParam s.groups (X sg) (X sp) with
      | .ok p => let (d', ls) := applyOutcome d (s.parameter fops (X dg) p); return (d', hd :: ls)
      | .throw e => let (d', ls) := applyOutcome d (.throw e s); return (d', hd :: ls)
      | .ub k => let (d', ls) := applyOutcome d (.ub k); return (d', hd :: ls)
    | ["lock", g] => let (d', ls) := applyOutcome d (s.setGroupLock (X g) true); return (d', hd :: ls)
    | ["unlock", g] => let (d', ls) := applyOutcome d (s.setGroupLock (X g) false); return (d', hd :: ls)
    | ["frame", v] => let (d', ls) := applyOutcome d (s.frame fops (d.getVar v)); return (d', hd :: ls)
    | ["frame", v, idx] => let (d', ls) := applyOutcome d (s.frame fops (d.getVar v) (parseNat! idx)); return (d', hd :: ls)
    | "frameself" :: src :: rest =>
      let o : Outcome C3D := match atIdx s.frames (parseNat! src) with
        | .ok f => (match rest with
          | [idx] => s.frame fops f (parseNat! idx)
          | _ => s.frame fops f)
        | .throw e => .throw e s
        | .ub k => .ub k
      let (d', ls) := applyOutcome d o
      return (d', hd :: ls)
    | ["point", nm] => let (d', ls) := applyOutcome d (s.point fops (X nm)); return (d', hd :: ls)
    | ["analog", nm] => let (d', ls) := applyOutcome d (s.analog fops (X nm)); return (d', hd :: ls)
    | "pointcol" :: vs => let (d', ls) := applyOutcome d (s.pointCols fops (vs.map d.getVar)); return (d', hd :: ls)
    | "analogcol" :: vs => let (d', ls) := applyOutcome d (s.analogCols fops (vs.map d.getVar)); return (d', hd :: ls)
    | "smut" :: fi :: rest =>
      let i := parseNat! fi
      let o : Outcome C3D := match atIdx s.frames i with
        | .ok f => (match rest with
          | "pt" :: j :: xs =>
            (match atIdx f.pts (parseNat! j) with
             | .ok p => .ok { s with frames := s.frames.set i { f with pts := f.pts.set (parseNat! j) (updPoint p xs) } }
             | .throw e => .throw e s | .ub k => .ub k)
          | ["ptname", j, nm] =>
            (match atIdx f.pts (parseNat! j) with
             | .ok p => .ok { s with frames := s.frames.set i { f with pts := f.pts.set (parseNat! j) (p.setName (X nm)) } }
             | .throw e => .throw e s | .ub k => .ub k)
          | ["chname", k, j, nm] =>
            (match (atIdx f.subs (parseNat! k)).bind fun sf => (atIdx sf (parseNat! j)).bind fun c => .ok (sf, c) with
             | .ok (sf, c) => .ok { s with frames := s.frames.set i { f with subs := f.subs.set (parseNat! k) (sf.set (parseNat! j) (c.setName (X nm))) } }
             | .throw e => .throw e s | .ub k => .ub k)
          | ["chn", k, nm, x] =>
            (match (atIdx f.subs (parseNat! k)).bind fun sf => (nameIdx Channel.name sf (X nm)).bind fun j => (atIdx sf j).bind fun c => .ok (sf, j, c) with
             | .ok (sf, j, c) => .ok { s with frames := s.frames.set i { f with subs := f.subs.set (parseNat! k) (sf.set j { c with v := (parseF x).getD 0 }) } }
             | .throw e => .throw e s | .ub k => .ub k)
          | ["ptn", nm, x] =>
            (match (nameIdx Point.name f.pts (X nm)).bind fun j => (atIdx f.pts j).bind fun p => .ok (j, p) with
             | .ok (j, p) => .ok { s with frames := s.frames.set i { f with pts := f.pts.set j { p with x := (parseF x).getD 0 } } }
             | .throw e => .throw e s | .ub k => .ub k)
          | ["ptnname", old, nm] =>
            (match (nameIdx Point.name f.pts (X old)).bind fun j => (atIdx f.pts j).bind fun p => .ok (j, p) with
             | .ok (j, p) => .ok { s with frames := s.frames.set i { f with pts := f.pts.set j (p.setName (X nm)) } }
             | .throw e => .throw e s | .ub k => .ub k)
          | ["chnname", k, old, nm] =>
            (match (atIdx f.subs (parseNat! k)).bind fun sf => (nameIdx Channel.name sf (X old)).bind fun j => (atIdx sf j).bind fun c => .ok (sf, j, c) with
             | .ok (sf, j, c) => .ok { s with frames := s.frames.set i { f with subs := f.subs.set (parseNat! k) (sf.set j (c.setName (X nm))) } }
             | .throw e => .throw e s | .ub k => .ub k)
          | ["ch", k, j, x] =>
            (match (atIdx f.subs (parseNat! k)).bind fun sf => (atIdx sf (parseNat! j)).bind fun c => .ok (sf, c) with
             | .ok (sf, c) => .ok { s with frames := s.frames.set i { f with subs := f.subs.set (parseNat! k) (sf.set (parseNat! j) { c with v := (parseF x).getD 0 }) } }
             | .throw e => .throw e s | .ub k => .ub k)
          | _ => .ok s)
        | .throw e => .throw e s
        | .ub k => .ub k
      let (d', ls) := applyOutcome d o
      return (d', hd :: ls)
    | ["save", path] =>
      match s.write with
      | .ok b =>
        IO.FS.writeBinFile (path ++ ".model") (ByteArray.mk b.toArray)
        return (d, hd :: "R ok" :: dumpLines d.mode s)
      | .throw e => return (d, hd :: s!"R throw {e}" :: dumpLines d.mode s)
      | .ub k => return (d, [hd, s!"R ub {k.toString}"])
    | "savefault" :: _path :: k :: _once =>
      -- a transient fault (`once`: one write call refused, later ones accepted) is reported like a persistent one: the stream
      -- keeps its failed state, so the outcome depends only on whether the refusal fired, i.e. on k against the bytes written
      match s.saveTo (.accepts (parseNat! k)) with
      | .ok _ =>
        let n := match s.write with | .ok b => writeCallBytes s b | _ => 0
        return (d, [hd, "R ok", s!"W {n} no-fault"])
      | .throw e => return (d, [hd, s!"R throw {e}", "W fault"])
      | .ub k => return (d, [hd, s!"R ub {k.toString}"])
    | ["lwcheck"] =>
      -- is the current object inside the domain of the theorem `load_write` (Proofs/LoadWrite.lean)? and does the conclusion hold (it must)?
      match writeParamSection s.ph s.groups 512, s.write with
      | .ok ps, .ok b =>
        let gs' := (s.reloaded ps.length [] []).groups
        let pl := match (if s.hdr.nbPoints > 0 then strsOf gs' N.POINT N.LABELS else .ok []) with | .ok l => l | _ => []
        let al := match (if s.hdr.nbAnalogs > 0 then strsOf gs' N.ANALOG N.LABELS else .ok []) with | .ok l => l | _ => []
        let hyps := decide (LoadWriteHyps fops s b ps pl al)
        let concl := decide (C3D.load fops b = .ok (s.reloaded ps.length pl al))
        let sameFrames := decide ((s.reloaded ps.length pl al).frames = s.frames)
        -- the same for `C03.spec_decode_write`: the independent decoder on the model's bytes
        let sdh := decide (C03.SpecDecodeHyps s b ps)
        let sdc := match Spec.decode b true with
          | some c => decide (c = C03.specContent s ps.length (c.paramEnd - 512)) && decide (c.paramEnd - 512 ≤ ps.length)
          | none => false
        return (d, [hd, s!"V lw hyps={hyps} concl={concl} frames_identical={sameFrames} sd_hyps={sdh} sd_concl={sdc}"])
      | _, _ => return (d, [hd, "V lw nowrite"])
    | ["print"] => return (d, [hd, "R ok"])
    | ["dump"] => return (d, hd :: dumpLines d.mode s)
    | ["sep"] => return (d, [hd, "V sep ok"])    -- C08.reach_sep: separation holds in every reachable state of Model/Heap
    | ["pload", g, pn] =>
      -- the caller's copy of a stored parameter
      match getParam s.groups (X g) (X pn) with
      | .ok q => return ({ d with pk := q }, [hd, "R ok", "PS " ++ paramLine q])
      | .throw e => return (d, [hd, s!"R throw {e}", "PS " ++ paramLine d.pk])
      | .ub k => return (d, [hd, s!"R ub {k.toString}"])
    | ["pput", g] =>
      let (d', ls) := applyOutcome d (s.parameter fops (X g) d.pk)
      return (d', hd :: ls)
    | ["pnew"] => let p0 : Param := { name := ofAscii "P" }; return ({ d with pk := p0 }, [hd, "R ok", "PS " ++ paramLine p0])
    | ["pset", ty, dims, vals] =>
      match setParamFromScript d.pk ty dims vals with
      | .ok p => return ({ d with pk := p }, [hd, "R ok", "PS " ++ paramLine p])
      | .throw e => return (d, [hd, s!"R throw {e}", "PS " ++ paramLine d.pk])
      | .ub k => return (d, [hd, s!"R ub {k.toString}"])
    | "get" :: rest => return (d, [hd, getOp s rest])
    | ["hex2int", x] => return (d, [hd, s!"V {hex2int (X x)}"])
    | ["hex2uint", x] => return (d, [hd, s!"V {hex2uint (X x)}"])
    | _ => return (d, [hd, "R badop"])

partial def loop (h : IO.FS.Stream) (out : IO.FS.Stream) (d : DState) (n : Nat) : IO Unit := do
  let line ← h.getLine
  if line.isEmpty then
    out.putStrLn "END"
    return ()
  let l := (line.dropEndWhile (fun c => c == '\n' || c == '\r')).toString
  if l.isEmpty || l.front == '#' then loop h out d (n + 1)
  else
    let (d', ls) ← stepLine d (n + 1) l
    for x in ls do out.putStrLn x
    loop h out d' (n + 1)

def main (args : List String) : IO UInt32 := do
  match args with
  | script :: rest =>
    let h ← IO.FS.Handle.mk script .read
    let out ← match rest with
      | o :: _ => do let ho ← IO.FS.Handle.mk o .write; pure (IO.FS.Stream.ofHandle ho)
      | [] => IO.getStdout
    loop (IO.FS.Stream.ofHandle h) out {} 0
    out.flush
    return 0
  | [] =>
    IO.eprintln "usage: driver <script> [out]"
    return 2
