import Ezc3dVerif.Model.Api
import Ezc3dVerif.Spec.Format
import Ezc3dVerif.Spec.Assemble
/-
  Line protocol shared with the C++ harness: hex helpers, parsers, canonical dump.
  Not part of the proved model; it is the glue whose faithfulness the correspondence check tests.
-/
namespace Ezc3d.Proto
open Ezc3d

def hexDigit (n : Nat) : Char :=
  if n < 10 then Char.ofNat (48 + n) else Char.ofNat (87 + n)

def hexByte (b : UInt8) : String :=
  String.singleton (hexDigit (b.toNat / 16)) ++ String.singleton (hexDigit (b.toNat % 16))

/-- byte string as `x` followed by hex digits (so that the empty string is the token `x`) -/
def xhex (s : Bytes) : String := s.foldl (fun acc b => acc ++ hexByte b) "x"

def hex8 (v : UInt32) : String :=
  let n := v.toNat
  String.ofList ((List.range 8).map fun i => hexDigit ((n / 16 ^ (7 - i)) % 16))

def hexVal (c : Char) : Option Nat :=
  if '0' ≤ c ∧ c ≤ '9' then some (c.toNat - 48)
  else if 'a' ≤ c ∧ c ≤ 'f' then some (c.toNat - 87)
  else if 'A' ≤ c ∧ c ≤ 'F' then some (c.toNat - 55)
  else none

def parseHexNat (s : String) : Option Nat :=
  s.toList.foldl (fun acc c => match acc, hexVal c with
    | some a, some v => some (a * 16 + v) | _, _ => none) (some 0)

def parseHexBytesL : List Char → Option Bytes
  | [] => some []
  | [_] => none
  | a :: b :: rest => match hexVal a, hexVal b, parseHexBytesL rest with
    | some x, some y, some r => some (UInt8.ofNat (x * 16 + y) :: r)
    | _, _, _ => none

/-- parse `x4142` -/
def parseX (s : String) : Option Bytes :=
  match s.toList with
  | 'x' :: rest => parseHexBytesL rest
  | _ => none

def parseF (s : String) : Option UInt32 := (parseHexNat s).map UInt32.ofNat

def splitList (s : String) (sep : String) : List String :=
  if s == "-" || s == "" then [] else s.splitOn sep

def parseAll (f : String → Option α) (l : List String) : Option (List α) :=
  l.foldr (fun s acc => match f s, acc with | some a, some r => some (a :: r) | _, _ => none) (some [])

def natList (l : List Nat) : String := if l.isEmpty then "-" else ",".intercalate (l.map toString)
def intList (l : List Int) : String := if l.isEmpty then "-" else ",".intercalate (l.map toString)
def f32List (l : List UInt32) : String := if l.isEmpty then "-" else ",".intercalate (l.map hex8)
def strList (l : List Bytes) : String := if l.isEmpty then "-" else ",".intercalate (l.map xhex)

def ptypeChar : PType → String
  | .char => "C" | .byte => "B" | .int => "I" | .float => "F" | .none => "N"

def b01 (b : Bool) : String := if b then "1" else "0"

def paramVals (p : Param) : String :=
  match p.type with
  | .char => strList p.strs
  | .byte | .int => intList p.ints
  | .float => f32List p.floats
  | .none => "-"

def paramLine (p : Param) : String :=
  s!"{xhex p.name} {xhex p.desc} {b01 p.locked} {ptypeChar p.type} {natList p.dims} {paramVals p}"

def pointStr (p : Point) : String := s!"{xhex p.name} {hex8 p.x} {hex8 p.y} {hex8 p.z} {hex8 p.r}"
def chanStr (c : Channel) : String := s!"{xhex c.name}={hex8 c.v}"

def headerLines (h : Header) : List String :=
  [ s!"H {h.zeros} {h.paramAddr} {h.checksum} {h.nbPoints} {h.nbAnalogsMeas} {h.firstFrame} {h.lastFrame} {h.maxGap} {h.scale} {h.dataStart} {h.nbAnalogByFrame} {hex8 h.rate} {h.empty1} {h.empty2} {h.empty3} {h.empty4} {h.keyLabelPresent} {h.firstBlockKeyLabel} {h.fourCharPresent} {h.nbEvents}",
    s!"HT {f32List h.evTimes}",
    s!"HD {natList h.evDisplay}",
    s!"HL {strList h.evLabels}" ]

def groupLines (gs : List Group) : List String :=
  (enum gs).foldr (fun (gi, g) acc =>
    s!"G {gi} {xhex g.name} {xhex g.desc} {b01 g.locked} {g.params.length}" ::
    ((enum g.params).map fun (pi, p) => s!"P {gi} {pi} {paramLine p}") ++ acc) []

def frameLines (i : Nat) (f : Frame) : List String :=
  s!"FR {i} {f.pts.length} {f.subs.length}" ::
  (f.pts.map fun p => "PT " ++ pointStr p) ++
  ((enum f.subs).map fun (k, sf) =>
    s!"SF {k} {sf.length} " ++ (if sf.isEmpty then "-" else ",".intercalate (sf.map chanStr)))

inductive DumpMode | full | shape | none
  deriving DecidableEq

def dumpLines (m : DumpMode) (s : C3D) : List String :=
  match m with
  | .none => []
  | .shape => headerLines s.hdr ++ [s!"PH {s.ph.start} {s.ph.checksum} {s.ph.nbBlocks} {s.ph.processor}"]
      ++ groupLines s.groups ++ [s!"NF {s.frames.length}"]
  | .full => headerLines s.hdr ++ [s!"PH {s.ph.start} {s.ph.checksum} {s.ph.nbBlocks} {s.ph.processor}"]
      ++ groupLines s.groups ++ [s!"NF {s.frames.length}"]
      ++ ((enum s.frames).foldr (fun (i, f) acc => frameLines i f ++ acc) [])

/-! ### parsing frames from the script -/

def parsePoint (s : String) : Option Point :=
  match s.splitOn ":" with
  | [n, x, y, z, r] => match parseX n, parseF x, parseF y, parseF z, parseF r with
    | some n, some x, some y, some z, some r => some { name := rtrim n, x := x, y := y, z := z, r := r }
    | _, _, _, _, _ => none
  | _ => none

def parseChan (s : String) : Option Channel :=
  match s.splitOn ":" with
  | [n, v] => match parseX n, parseF v with
    | some n, some v => some { name := rtrim n, v := v }
    | _, _ => none
  | _ => none

def parseSub (s : String) : Option SubFrame :=
  if s == "e" then some [] else parseAll parseChan (s.splitOn ";")

def parsePts (s : String) : Option (List Point) := parseAll parsePoint (splitList s ";")
def parseSubs (s : String) : Option (List SubFrame) := parseAll parseSub (splitList s "|")


/-! ### the Spec decoder's view of a file, for the property oracles -/

def pdataStr : Spec.PData → String × String
  | .chars c => ("C", strList c)
  | .bytes v => ("B", intList v)
  | .ints v => ("I", intList v)
  | .floats v => ("F", f32List v)

def specLines (c : Spec.Content) (full : Bool) : List String :=
  let h := c.header
  [ s!"SZ {c.leadingZeros}",
    s!"SH {h.paramBlock} {h.nPoints} {h.analogPerFrame} {h.firstFrame} {h.lastFrame} {h.maxGap} {hex8 h.scale} {h.dataStart} {h.subframes} {hex8 h.rate} {h.nEvents}",
    s!"ST {f32List h.evTimes}", s!"SD {natList h.evDisplay}", s!"SL {strList h.evLabels}",
    s!"SP {natList c.prologue} {b01 c.terminated} {c.paramEnd}" ]
  ++ c.groups.map (fun g => s!"SG {g.gid} {xhex g.name} {b01 g.locked} {xhex g.desc}")
  ++ c.params.map (fun p => let (t, v) := pdataStr p.data
        s!"SQ {p.gid} {xhex p.name} {b01 p.locked} {t} {natList p.dims} {v} {xhex p.desc}")
  -- the group table as `Spec.assemble` presents it (Properties/C02c.lean: the loader's table IS this presentation)
  ++ ((enum (Spec.assemble c.groups c.params)).foldr (fun (i, a) acc =>
        (s!"AG {i} {xhex a.name} {b01 a.locked} {xhex a.desc} {a.params.length}" ::
          a.params.map (fun p => let (t, v) := pdataStr p.data
            s!"AQ {i} {xhex p.name} {b01 p.locked} {t} {natList p.dims} {v} {xhex p.desc}")) ++ acc) [])
  ++ [s!"SN {c.frames.length} {c.dataBytesLeft}"]
  ++ (if full then (enum c.frames).foldr (fun (i, f) acc =>
        (s!"FR {i} {f.points.length} {f.analogs.length}" ::
          (f.points.map fun p => s!"PT x {hex8 p.x} {hex8 p.y} {hex8 p.z} {hex8 p.residual}") ++
          ((enum f.analogs).map fun (k, sf) => s!"SF {k} {sf.length} {f32List sf}")) ++ acc) [] else [])

end Ezc3d.Proto
