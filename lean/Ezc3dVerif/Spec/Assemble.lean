import Ezc3dVerif.Spec.Format
/-
  What a reader of the C3D format PRESENTS from the flat record lists of `Spec.decode`: the table of groups by id. Written
  declaratively (no replace-or-append loop): a group's header comes from the last group record carrying its id, its
  parameters are one per name, in the order in which the names first appear among the records of that id, each with the
  content of the LAST record of that name. Nothing here mentions the library.
-/
namespace Ezc3d.Spec

/-- one group as presented to a user of the file -/
structure AGroup where
  name : Bytes := []
  locked : Bool := false
  desc : Bytes := []
  params : List SParam := []
  deriving DecidableEq, Repr

/-- the distinct names of a list, in order of first appearance -/
def firstOcc : List Bytes → List Bytes
  | [] => []
  | a :: t => a :: (firstOcc t).filter (fun x => x != a)

/-- the last record of that name -/
def lastNamed (l : List SParam) (n : Bytes) : Option SParam := l.reverse.find? (fun p => p.name == n)

/-- the parameters of group id `g` -/
def paramsOf (ps : List SParam) (g : Nat) : List SParam :=
  let mine := ps.filter (fun p => p.gid == g)
  (firstOcc (mine.map (·.name))).filterMap (lastNamed mine)

/-- name and lock flag of the last group record with id `g`; the description of the last such record that has one
    (a record without description text does not erase an earlier one); a blank placeholder when no record carries the id -/
def headerOf (gs : List SGroup) (g : Nat) : AGroup :=
  let mine := gs.filter (fun r => r.gid == g)
  match mine.getLast? with
  | none => {}
  | some h => { name := h.name, locked := h.locked,
                desc := (((mine.filter (fun r => r.desc != [])).getLast?).map (·.desc)).getD [] }

/-- ids run from 1 to the largest id any record carries -/
def maxId (gs : List SGroup) (ps : List SParam) : Nat := (gs.map (·.gid) ++ ps.map (·.gid)).foldl max 0

def assemble (gs : List SGroup) (ps : List SParam) : List AGroup :=
  (List.range (maxId gs ps)).map fun i => { headerOf gs (i + 1) with params := paramsOf ps (i + 1) }

/-- what a reader finds under (group name, parameter name): the first group of the table with that name, and in it the last
    record of that parameter name -/
def lookup (gs : List SGroup) (ps : List SParam) (g p : Bytes) : Option SParam :=
  match (assemble gs ps).findIdx? (fun a => a.name == g) with
  | none => none
  | some i => lastNamed (ps.filter (fun q => q.gid == i + 1)) p

end Ezc3d.Spec
