import Ezc3dVerif.Basic.Core
/-
  An independent reading of the C3D file format (doc/c3dformat_ug.pdf: header words 1–256, parameter
  section header, group and parameter records, 3D/analog data section in floating-point format).
  Nothing here mentions streams, patched offsets or the library's classes: `Spec.decode` follows only
  the file's own pointers. Little-endian ("Intel", processor type 84) files with float data.
-/
namespace Ezc3d.Spec

/-- one value of a parameter as the format stores it -/
inductive PData where
  | chars (cells : List Bytes)      -- type -1: cells of `dims[0]` characters, trailing blanks removed, NULs dropped
  | bytes (v : List Int)            -- type 1: signed bytes
  | ints (v : List Int)             -- type 2: signed 16-bit integers
  | floats (v : List UInt32)        -- type 4: IEEE single precision bit patterns
  deriving DecidableEq, Repr

structure SParam where
  gid : Nat                 -- id of the owning group (1..127)
  name : Bytes
  locked : Bool
  dims : List Nat           -- [] for a scalar
  data : PData
  desc : Bytes
  deriving DecidableEq, Repr

structure SGroup where
  gid : Nat
  name : Bytes
  locked : Bool
  desc : Bytes
  deriving DecidableEq, Repr

structure SHeader where
  paramBlock : Nat
  nPoints : Nat
  analogPerFrame : Nat      -- word 3: analog measurements per 3D frame (channels × sub-frames)
  firstFrame : Nat          -- 1-based
  lastFrame : Nat
  maxGap : Nat
  scale : UInt32            -- words 7–8 as a float; negative ⇒ floating-point data
  dataStart : Nat           -- word 9: 1-based block of the data section
  subframes : Nat           -- word 10
  rate : UInt32
  nEvents : Nat
  evTimes : List UInt32
  evDisplay : List Nat
  evLabels : List Bytes
  deriving DecidableEq, Repr

structure SPoint where
  x : UInt32
  y : UInt32
  z : UInt32
  residual : UInt32
  deriving DecidableEq, Repr

structure SFrame where
  points : List SPoint
  analogs : List (List UInt32)     -- sub-frame major: analogs[k][c]
  deriving DecidableEq, Repr

structure Content where
  leadingZeros : Nat
  header : SHeader
  prologue : List Nat              -- the 4 bytes heading the parameter section
  groups : List SGroup             -- in file order
  params : List SParam             -- in file order
  terminated : Bool                -- the record chain ends with a zero name length (not a zero offset)
  paramEnd : Nat                   -- byte position just after the terminator
  frames : List SFrame
  dataBytesLeft : Nat              -- bytes after the last frame
  deriving DecidableEq, Repr

/-! ### little-endian field access -/

def byteAt (b : Bytes) (i : Nat) : Option Nat := (b[i]?).map UInt8.toNat

def u16At (b : Bytes) (i : Nat) : Option Nat :=
  match b[i]?, b[i+1]? with
  | some lo, some hi => some (lo.toNat + 256 * hi.toNat)
  | _, _ => none

def u32At (b : Bytes) (i : Nat) : Option UInt32 :=
  match b[i]?, b[i+1]?, b[i+2]?, b[i+3]? with
  | some a, some c, some d, some e => some (UInt32.ofNat (a.toNat + 256 * c.toNat + 65536 * d.toNat + 16777216 * e.toNat))
  | _, _, _, _ => none

def s8 (n : Nat) : Int := if n < 128 then n else (n : Int) - 256
def s16 (n : Nat) : Int := if n < 32768 then n else (n : Int) - 65536

def isNegF (v : UInt32) : Bool := v.toNat ≥ 2147483648 && (v.toNat % 2147483648) ≤ 2139095040   -- sign bit set, not a NaN

def slice (b : Bytes) (i n : Nat) : Option Bytes :=
  let s := (b.drop i).take n
  if s.length = n then some s else none

def trimBlank (s : Bytes) : Bytes := ((s.filter (· != 0)).reverse.dropWhile (· == 32)).reverse

def cells (w : Nat) : Nat → Bytes → List Bytes
  | 0, _ => []
  | n + 1, b => trimBlank (b.take w) :: cells w n (b.drop w)

def listAt (f : Bytes → Nat → Option α) (b : Bytes) (i step : Nat) : Nat → Option (List α)
  | 0 => some []
  | n + 1 => match f b i, listAt f b (i + step) step n with
    | some a, some r => some (a :: r)
    | _, _ => none

/-- header record at byte offset `z` (the number of zero bytes some vendors put before it) -/
def decodeHeader (b : Bytes) (z : Nat) : Option SHeader :=
  match byteAt b z, byteAt b (z+1), u16At b (z+2), u16At b (z+4), u16At b (z+6), u16At b (z+8), u16At b (z+10),
        u32At b (z+12), u16At b (z+16), u16At b (z+18), u32At b (z+20), u16At b (z+300),
        listAt u32At b (z+304) 4 18, listAt u16At b (z+376) 2 9, listAt (fun b i => slice b i 4) b (z+396) 4 18 with
  | some pb, some key, some np, some am, some ff, some lf, some gap, some sc, some ds, some sub, some rate, some nev,
    some times, some disp, some labels =>
    if key ≠ 0x50 then none else
    some { paramBlock := pb, nPoints := np, analogPerFrame := am, firstFrame := ff, lastFrame := lf, maxGap := gap,
           scale := sc, dataStart := ds, subframes := sub, rate := rate, nEvents := nev, evTimes := times,
           evDisplay := disp, evLabels := labels.map fun l => l.takeWhile (· != 0) }
  | _, _, _, _, _, _, _, _, _, _, _, _, _, _, _ => none

def countZeros : Bytes → Nat
  | 0 :: rest => countZeros rest + 1
  | _ => 0

/-- value part of a parameter record: `count` elements of `size` bytes starting at `pos` -/
def decodeData (b : Bytes) (pos : Nat) (ty : Int) (dims : List Nat) : Option (PData × Nat) :=
  let count := dims.prod     -- [] (scalar) has product 1
  if ty = -1 then
    match dims with
    | [] => (slice b pos 1).map fun s => (.chars [trimBlank s], pos + 1)
    | [w] => (slice b pos w).map fun s => (.chars (if w = 0 then [] else [trimBlank s]), pos + w)
    | w :: rest => (slice b pos count).map fun s => (.chars (cells w rest.prod s), pos + count)
  else if ty = 1 then (listAt byteAt b pos 1 count).map fun v => (.bytes (v.map s8), pos + count)
  else if ty = 2 then (listAt u16At b pos 2 count).map fun v => (.ints (v.map s16), pos + 2 * count)
  else if ty = 4 then (listAt u32At b pos 4 count).map fun v => (.floats v, pos + 4 * count)
  else none

structure Records where
  groups : List SGroup := []
  params : List SParam := []
  terminated : Bool := false
  endPos : Nat := 0

/-- walk the record chain starting at `pos`; `fuel` bounds the number of records -/
def decodeRecords (b : Bytes) : Nat → Nat → Records → Option Records
  | 0, _, _ => none
  | fuel + 1, pos, acc =>
    match byteAt b pos with
    | none => none
    | some 0 => some { acc with terminated := true, endPos := pos + 1 }
    | some nl =>
      let n := (s8 nl).natAbs
      match byteAt b (pos + 1), slice b (pos + 2) n, u16At b (pos + 2 + n) with
      | some idb, some name, some off =>
        let id := s8 idb
        let body := pos + 2 + n + 2
        let next := pos + 2 + n + off
        if id < 0 then
          match byteAt b body with
          | none => none
          | some dl =>
            match slice b (body + 1) dl with
            | none => none
            | some desc =>
              let g : SGroup := { gid := id.natAbs, name := name, locked := s8 nl < 0, desc := desc }
              let acc' := { acc with groups := acc.groups ++ [g] }
              if off = 0 then some { acc' with endPos := body + 1 + dl }
              else if next ≠ body + 1 + dl then none     -- the offset must point just after the record
              else decodeRecords b fuel next acc'
        else
          match byteAt b body, byteAt b (body + 1) with
          | some tyb, some nd =>
            match listAt byteAt b (body + 2) 1 nd with
            | none => none
            | some dims =>
              match decodeData b (body + 2 + nd) (s8 tyb) dims with
              | none => none
              | some (data, p2) =>
                match byteAt b p2 with
                | none => none
                | some dl =>
                  match slice b (p2 + 1) dl with
                  | none => none
                  | some desc =>
                    let p : SParam := { gid := id.natAbs, name := name, locked := s8 nl < 0, dims := dims, data := data, desc := desc }
                    let acc' := { acc with params := acc.params ++ [p] }
                    if off = 0 then some { acc' with endPos := p2 + 1 + dl }
                    else if next ≠ p2 + 1 + dl then none
                    else decodeRecords b fuel next acc'
          | _, _ => none
      | _, _, _ => none

/-- `n` consecutive little-endian 32-bit words from the front of `b` -/
def takeWords : Nat → Bytes → Option (List UInt32 × Bytes)
  | 0, b => some ([], b)
  | n + 1, a :: c :: d :: e :: rest =>
    (takeWords n rest).map fun (ws, r) =>
      (UInt32.ofNat (a.toNat + 256 * c.toNat + 65536 * d.toNat + 16777216 * e.toNat) :: ws, r)
  | _ + 1, _ => none

def toPoints : List UInt32 → List SPoint
  | x :: y :: z :: r :: rest => SPoint.mk x y z r :: toPoints rest
  | _ => []

def splitEvery (k : Nat) : Nat → List α → List (List α)
  | 0, _ => []
  | n + 1, l => l.take k :: splitEvery k n (l.drop k)

/-- one frame: 4 words per point, then sub-frame major analog samples -/
def decodeFrame (b : Bytes) (np nsub nch : Nat) : Option (SFrame × Bytes) :=
  match takeWords (4 * np) b with
  | none => none
  | some (pw, r1) =>
    match takeWords (nsub * nch) r1 with
    | none => none
    | some (aw, r2) => some ({ points := toPoints pw, analogs := splitEvery nch nsub aw }, r2)

def decodeFrames (np nsub nch : Nat) : Nat → Bytes → Option (List SFrame × Bytes)
  | 0, b => some ([], b)
  | n + 1, b =>
    match decodeFrame b np nsub nch with
    | none => none
    | some (f, r1) => match decodeFrames np nsub nch n r1 with
      | none => none
      | some (fs, r2) => some (f :: fs, r2)

/-- decode a whole file following its own pointers. `assumeFloat` skips the float-format test on
    the header scale word (used to examine the data section of files whose marker is wrong). -/
def decode (b : Bytes) (assumeFloat : Bool := false) : Option Content :=
  let z := countZeros b
  match decodeHeader b z with
  | none => none
  | some h =>
    if h.paramBlock = 0 then none else
    let pbase := z + 512 * (h.paramBlock - 1)
    match listAt byteAt b pbase 1 4 with
    | none => none
    | some pro =>
      match decodeRecords b (b.length + 1) (pbase + 4) {} with
      | none => none
      | some recs =>
        if ¬ (isNegF h.scale || assumeFloat) then
          some { leadingZeros := z, header := h, prologue := pro, groups := recs.groups, params := recs.params,
                 terminated := recs.terminated, paramEnd := recs.endPos, frames := [], dataBytesLeft := 0 }
        else
          let nframes := if h.lastFrame + 1 ≥ h.firstFrame then h.lastFrame + 1 - h.firstFrame else 0
          let nch := if h.subframes = 0 then 0 else h.analogPerFrame / h.subframes
          if h.dataStart = 0 then none else
          let dbase := z + 512 * (h.dataStart - 1)
          match decodeFrames h.nPoints h.subframes nch nframes (b.drop dbase) with
          | none => none
          | some (frames, rest) =>
            some { leadingZeros := z, header := h, prologue := pro, groups := recs.groups, params := recs.params,
                   terminated := recs.terminated, paramEnd := recs.endPos, frames := frames,
                   dataBytesLeft := rest.length }

end Ezc3d.Spec
