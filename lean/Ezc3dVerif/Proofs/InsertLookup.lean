import Ezc3dVerif.Proofs.Post
import Ezc3dVerif.Proofs.AnyOrder
import Ezc3dVerif.Proofs.NoUB
/-
  `c3d::parameter(group, p)` and the look-ups: storing a parameter changes what is found under (group, p.name) and nothing
  else — every other (group, name) pair resolves to the parameter it resolved to before.
-/
namespace Ezc3d
open N

theorem findIdx?_set_samepred {α} (l : List α) (i : Nat) (a x : α) (pred : α → Bool) (hx : l[i]? = some x) (hp : pred a = pred x) :
    (l.set i a).findIdx? pred = l.findIdx? pred := by
  induction l generalizing i with
  | nil => simp
  | cons y t ih =>
    cases i with
    | zero =>
      simp only [List.getElem?_cons_zero, Option.some.injEq] at hx
      subst hx
      simp only [List.set_cons_zero, List.findIdx?_cons, hp]
    | succ j =>
      simp only [List.getElem?_cons_succ] at hx
      simp only [List.set_cons_succ, List.findIdx?_cons, ih j hx]

theorem getElem?_set_other {α} (l : List α) (i j : Nat) (a : α) (h : i ≠ j) : (l.set i a)[j]? = l[j]? := by
  rw [List.getElem?_set_ne h]

theorem nameIdx_found_pred {α} (name : α → Bytes) (l : List α) (key : Bytes) (i : Nat) (h : l.findIdx? (fun a => name a == key) = some i) :
    ∃ a, l[i]? = some a ∧ name a = key := by
  rw [List.findIdx?_eq_some_iff_getElem] at h
  obtain ⟨hlt, hpk, _⟩ := h
  exact ⟨l[i], by simp [hlt], by simpa using hpk⟩

/-- a parameter stored into a group: every other name of that group resolves as before -/
theorem byName_addParam_other (g g' : Group) (p : Param) (key : Bytes) (hne : key ≠ p.name) (h : g.addParam p = .ok g') :
    byName Param.name g'.params key = byName Param.name g.params key := by
  unfold Group.addParam at h
  split at h
  · cases h
  · split at h
    · rename_i i hi
      cases h
      simp only
      obtain ⟨x, hx, hxn⟩ := nameIdx_found_pred Param.name g.params p.name i hi
      unfold byName nameIdx
      have hpred : (fun a : Param => a.name == key) p = (fun a : Param => a.name == key) x := by
        simp only [hxn]
      rw [findIdx?_set_samepred g.params i p x _ hx hpred]
      cases hk : g.params.findIdx? (fun a => a.name == key) with
      | none => rfl
      | some k =>
        simp only [Res.bind_ok]
        have hki : i ≠ k := by
          intro hc; subst hc
          obtain ⟨y, hy, hyn⟩ := nameIdx_found_pred Param.name g.params key i hk
          rw [hx] at hy; cases hy
          exact hne (by rw [← hyn, hxn])
        unfold atIdx
        rw [getElem?_set_other _ _ _ _ hki]
    · rename_i hi
      cases h
      simp only
      unfold byName nameIdx
      rw [List.findIdx?_append]
      cases hk : g.params.findIdx? (fun a => a.name == key) with
      | some k =>
        simp only [Option.some_or, Res.bind_ok]
        obtain ⟨y, hy, _⟩ := nameIdx_found_pred Param.name g.params key k hk
        unfold atIdx
        have hlt : k < g.params.length := by
          rcases Nat.lt_or_ge k g.params.length with h1 | h1
          · exact h1
          · rw [List.getElem?_eq_none h1] at hy; cases hy
        rw [List.getElem?_append_left hlt]
      | none =>
        have : ([p] : List Param).findIdx? (fun a => a.name == key) = none := by
          simp only [List.findIdx?_cons, List.findIdx?_nil]
          have : (p.name == key) = false := by
            simp only [beq_eq_false_iff_ne, ne_eq]; exact fun hc => hne hc.symm
          simp [this]
        simp [this]


theorem addParam_name (g g' : Group) (p : Param) (h : g.addParam p = .ok g') : g'.name = g.name := by
  unfold Group.addParam at h
  split at h
  · cases h
  · split at h <;> (cases h; rfl)

/-- into an existing group -/
theorem getParam_insertInto (gs : List Group) (gi : Nat) (grp grp' : Group) (g : Bytes) (p : Param) (g1 p1 : Bytes)
    (hgi : groupIdx gs g = .ok gi) (hgrp : atIdx gs gi = .ok grp) (hadd : grp.addParam p = .ok grp')
    (hne : ¬ (g1 = g ∧ p1 = p.name)) :
    getParam (gs.set gi grp') g1 p1 = getParam gs g1 p1 := by
  have hgrp? : gs[gi]? = some grp := by
    unfold atIdx at hgrp; split at hgrp
    · rename_i a ha; cases hgrp; exact ha
    · cases hgrp
  unfold getParam byName nameIdx
  have hpred : (fun a : Group => a.name == g1) grp' = (fun a : Group => a.name == g1) grp := by
    simp only [addParam_name grp grp' p hadd]
  rw [findIdx?_set_samepred gs gi grp' grp _ hgrp? hpred]
  cases hj : gs.findIdx? (fun a => a.name == g1) with
  | none => rfl
  | some j =>
    simp only [Res.bind_ok]
    unfold atIdx
    by_cases hij : gi = j
    · subst hij
      have hlt : gi < gs.length := by
        rcases Nat.lt_or_ge gi gs.length with h1 | h1
        · exact h1
        · rw [List.getElem?_eq_none h1] at hgrp?; cases hgrp?
      rw [List.getElem?_set_self hlt, hgrp?]
      simp only [Res.bind_ok]
      have hg1 : g1 = g := by
        have h1 : groupIdx gs g1 = .ok gi := by unfold groupIdx nameIdx; rw [hj]
        exact groupIdx_inj h1 hgi
      have hp1 : p1 ≠ p.name := fun hc => hne ⟨hg1, hc⟩
      have := byName_addParam_other grp grp' p p1 hp1 hadd
      unfold byName nameIdx atIdx at this
      exact this
    · rw [getElem?_set_other _ _ _ _ hij]

theorem findIdx?_none_append_self {α} (l : List α) (a : α) (pred : α → Bool) (hl : l.findIdx? pred = none) (ha : pred a = true) :
    (l ++ [a]).findIdx? pred = some l.length := by
  rw [List.findIdx?_append, hl]
  simp [List.findIdx?_cons, ha]

/-- STORING A PARAMETER CHANGES ONLY WHAT IS FOUND UNDER ITS OWN (group, name) -/
theorem getParam_insertParam_other (gs gs' : List Group) (g : Bytes) (p : Param) (g1 p1 : Bytes)
    (h : insertParam gs g p = .ok gs') (hne : ¬ (g1 = g ∧ p1 = p.name)) :
    getParam gs' g1 p1 = getParam gs g1 p1 := by
  unfold insertParam at h
  cases hgi : groupIdx gs g with
  | ok gi =>
    rw [hgi] at h
    simp only at h
    rw [hgi] at h
    simp only [Res.bind_ok] at h
    obtain ⟨grp, hgrp, h⟩ := Res.bind_ok_iff.mp h
    obtain ⟨grp', hadd, h⟩ := Res.bind_ok_iff.mp h
    cases h
    exact getParam_insertInto gs gi grp grp' g p g1 p1 hgi hgrp hadd hne
  | throw e =>
    rw [hgi] at h
    simp only at h
    -- the group is appended, empty, at the end; it is the first (and only) group of that name
    have hnone : gs.findIdx? (fun a => a.name == g) = none := by
      unfold groupIdx nameIdx at hgi
      split at hgi
      · cases hgi
      · rename_i hn; exact hn
    have hgi1 : groupIdx (gs ++ [({ name := g } : Group)]) g = .ok gs.length := by
      unfold groupIdx nameIdx
      rw [findIdx?_none_append_self gs _ _ hnone (by simp)]
    rw [hgi1] at h
    simp only [Res.bind_ok] at h
    obtain ⟨grp, hgrp, h⟩ := Res.bind_ok_iff.mp h
    obtain ⟨grp', hadd, h⟩ := Res.bind_ok_iff.mp h
    cases h
    rw [getParam_insertInto (gs ++ [({ name := g } : Group)]) gs.length grp grp' g p g1 p1 hgi1 hgrp hadd hne]
    -- an empty group at the end finds nothing new
    unfold getParam byName nameIdx
    rw [List.findIdx?_append]
    cases hj : gs.findIdx? (fun a => a.name == g1) with
    | some j =>
      simp only [Option.some_or, Res.bind_ok]
      obtain ⟨y, hy, _⟩ := nameIdx_found_pred Group.name gs g1 j hj
      have hlt : j < gs.length := by
        rcases Nat.lt_or_ge j gs.length with h1 | h1
        · exact h1
        · rw [List.getElem?_eq_none h1] at hy; cases hy
      unfold atIdx
      rw [List.getElem?_append_left hlt]
    | none =>
      by_cases hg1 : g = g1
      · subst hg1
        simp only [List.findIdx?_cons, beq_self_eq_true, List.length_nil]
        simp [atIdx]
      · have : (g == g1) = false := by simpa using hg1
        simp [List.findIdx?_cons, this]
  | ub k =>
    exact absurd hgi (groupIdx_noUB gs g k)

end Ezc3d
