import Ezc3dVerif.Proofs.ParamRT2
namespace Ezc3d
open C12 N

theorem toUpper_nz (s : Bytes) (h : ∀ x ∈ s, x ≠ 0) : ∀ x ∈ toUpper s, x ≠ 0 := by
  intro x hx
  unfold toUpper at hx
  rw [List.mem_map] at hx
  obtain ⟨a, ha, rfl⟩ := hx
  have := h a ha
  unfold upperByte
  split
  · rename_i hc
    intro h0
    have ha1 : 97 ≤ a.toNat := by simpa using UInt8.le_iff_toNat_le.mp hc.1
    have h32 : (32 : UInt8) ≤ a := UInt8.le_iff_toNat_le.mpr (by simp; omega)
    have e : (a - 32).toNat = a.toNat - 32 := by rw [UInt8.toNat_sub_of_le _ _ h32]; rfl
    rw [h0] at e; simp at e; omega
  · exact this

theorem valBytes_length (p : Param) (h : RecOK p) : (valBytes p).length = p.type.size * p.dims.prod := by
  have hv := h.values
  unfold ValuesOK at hv
  unfold valBytes
  cases ht : p.type <;> simp only [ht, PType.size] at hv ⊢
  · -- char
    cases hd : p.dims with
    | nil => exact absurd hd h.dims_ne
    | cons w t =>
      rw [hd] at hv
      simp only [List.length_cons, List.headD_cons, List.prod_cons, List.drop_succ_cons, List.drop_zero] at hv ⊢
      cases t with
      | nil =>
        simp only [List.length_nil, Nat.zero_add, if_true, List.prod_nil, Nat.mul_one] at hv ⊢
        by_cases h0 : w = 0
        · simp only [h0, if_true] at hv; simp [hv, h0]
        · simp only [h0, if_false] at hv
          obtain ⟨s0, hs0, hok⟩ := hv
          simp [hs0, strCell_length w s0 hok.1]
      | cons d2 t2 =>
        have hne1 : ¬ ((d2 :: t2).length + 1 = 1) := by simp
        simp only [hne1, if_false] at hv
        rw [cells_length w p.strs (fun x hx => (hv.2 x hx).1), hv.1]; simp
  · simp [hv.1]
  · rw [C03.flatten_map_len le16 2 (fun _ => rfl), hv.1]
  · rw [C03.flatten_map_len f32le 4 (fun _ => rfl), hv]

theorem ptypeOf_code (t : PType) (h : t ≠ .none) : ptypeOf t.code = some t := by
  cases t <;> first | rfl | exact absurd rfl h

theorem code_natAbs (t : PType) (h : t ≠ .none) : t.code.natAbs = t.size := by
  cases t <;> first | rfl | exact absurd rfl h

theorem code_range (t : PType) (h : t ≠ .none) : -128 ≤ t.code ∧ t.code < 128 := by
  cases t <;> first | (constructor <;> decide) | exact absurd rfl h

theorem type_ne_none (p : Param) (h : ValuesOK p) : p.type ≠ .none := by
  intro hn; unfold ValuesOK at h; simp [hn] at h

theorem nValues_small (p : Param) (h : RecOK p) : p.nValues ≤ 30000 := by
  unfold Param.nValues
  rw [countedProd_eq_prod_countedDims]
  unfold countedDims
  split
  · exact h.count_small
  · exact prod_small p h

theorem SR.bind_of_ok {α β} (m : SR α) (f : α → SR β) (s s' : InStream) (a : α) (h : m s = .ok (a, s')) :
    SR.bind m f s = f a s' := by unfold SR.bind; rw [h]

/-- the dimension bytes read back (continuation style: whatever follows receives the dimensions) -/
theorem dims_rt {β} (dims : List Nat) (hne : dims ≠ []) (hl : dims.length ≤ 255) (hs : ∀ d ∈ dims, d ≤ 255)
    (s : InStream) (b : Bytes) (hf : s.failed = false) (hr : s.rest = dimBytes dims ++ b) (f : List Nat → SR β) :
    (SR.bind (SR.lift fun s => s.readUint 1) fun nDim =>
      SR.bind (if nDim = 0 then SR.pure [1] else SR.lift (readMany (fun s => s.readUint 1) nDim)) f) s
      = f dims (s.adv b (dimBytes dims).length) := by
  unfold dimBytes at hr ⊢
  by_cases h1 : dims = [1]
  · simp only [h1, if_true, List.cons_append, List.nil_append] at hr ⊢
    simp only [SR.bind_lift]
    rw [readUint1_adv s 0 b (by decide) hf (by simpa [low8N, low8] using hr)]
    simp
  · simp only [h1, if_false, List.cons_append] at hr ⊢
    simp only [SR.bind_lift]
    rw [readUint1_adv s dims.length _ (by omega) hf hr]
    have hn : dims.length ≠ 0 := by intro h0; exact hne (List.length_eq_zero_iff.mp h0)
    simp only [hn, if_false, SR.bind_lift]
    rw [readMany_uint1 dims (s.adv _ 1) b (fun d hd => by have := hs d hd; omega) (by simpa) (by simp)]
    simp only [adv_adv, List.length_cons, List.length_map]
    congr 2; omega

end Ezc3d
