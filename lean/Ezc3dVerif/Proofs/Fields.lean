import Ezc3dVerif.Proofs.ReadAppend
import Ezc3dVerif.Properties.C12
/-
  Field-level read-back lemmas: what each typed read of the loader returns when the unread suffix
  starts with the bytes the corresponding writer produced; and the plumbing of the `SR` reader steps.
-/
namespace Ezc3d
open C12

/-! ### stream bookkeeping -/

/-- the stream knows where it is: `len - pos` is the number of unread bytes -/
def InStream.Sync (s : InStream) : Prop := s.len = s.pos + s.rest.length

theorem adv_sync (s : InStream) (a b : Bytes) (hs : s.Sync) (hr : s.rest = a ++ b) : (s.adv b a.length).Sync := by
  unfold InStream.Sync InStream.adv at *
  simp only
  rw [hs, hr, List.length_append]; omega

theorem remaining_of_sync (s : InStream) (hf : s.failed = false) (hs : s.Sync) : s.remaining = s.rest.length := by
  unfold InStream.remaining; unfold InStream.Sync at hs; simp [hf]; omega

@[simp] theorem adv_pos (s : InStream) (b k) : (s.adv b k).pos = s.pos + k := rfl
@[simp] theorem adv_len (s : InStream) (b k) : (s.adv b k).len = s.len := rfl
@[simp] theorem adv_file (s : InStream) (b k) : (s.adv b k).file = s.file := rfl
@[simp] theorem adv_eof (s : InStream) (b k) : (s.adv b k).eof = s.eof := rfl

theorem tell_live (s : InStream) (hf : s.failed = false) : s.tell = s.pos := by
  unfold InStream.tell; simp [hf]

/-! ### typed reads -/

theorem read_adv (s : InStream) (a b : Bytes) (hf : s.failed = false) (hr : s.rest = a ++ b) :
    s.read a.length = (a, s.adv b a.length) := read_append s a b hf hr

theorem read_adv' (s : InStream) (n : Nat) (a b : Bytes) (hn : a.length = n) (hf : s.failed = false) (hr : s.rest = a ++ b) :
    s.read n = (a, s.adv b n) := by subst hn; exact read_adv s a b hf hr

theorem readUint1_adv (s : InStream) (n : Nat) (b : Bytes) (hn : n < 256) (hf : s.failed = false)
    (hr : s.rest = low8N n :: b) : s.readUint 1 = (n, s.adv b 1) := by
  unfold InStream.readUint
  rw [read_adv' s 1 [low8N n] b rfl hf (by simpa using hr)]
  simp only [low8N_read n hn]

theorem readUint2_adv (s : InStream) (n : Nat) (b : Bytes) (hn : n < 65536) (hf : s.failed = false)
    (hr : s.rest = le16N n ++ b) : s.readUint 2 = (n, s.adv b 2) := by
  unfold InStream.readUint
  rw [read_adv' s 2 (le16N n) b rfl hf hr]
  simp only [le16N_read n hn]

theorem readInt1_adv (s : InStream) (v : Int) (b : Bytes) (h1 : -128 ≤ v) (h2 : v < 128) (hf : s.failed = false)
    (hr : s.rest = low8 v :: b) : s.readInt 1 = (v, s.adv b 1) := by
  unfold InStream.readInt
  rw [read_adv' s 1 [low8 v] b rfl hf (by simpa using hr)]
  simp only [low8_read v h1 h2]

theorem readInt2_adv (s : InStream) (v : Int) (b : Bytes) (h1 : -32768 ≤ v) (h2 : v < 32768) (hf : s.failed = false)
    (hr : s.rest = le16 v ++ b) : s.readInt 2 = (v, s.adv b 2) := by
  unfold InStream.readInt
  rw [read_adv' s 2 (le16 v) b rfl hf hr]
  simp only [le16_read v h1 h2]

theorem cstr_noNul (a : Bytes) (h : ∀ x ∈ a, x ≠ 0) : cstr a = a := by
  unfold cstr
  induction a with
  | nil => rfl
  | cons x t ih =>
    have hx : x ≠ 0 := h x (by simp)
    simp only [List.takeWhile_cons, bne_iff_ne, ne_eq, hx, not_false_eq_true, if_true]
    rw [ih (fun y hy => h y (by simp [hy]))]

theorem readString_adv (s : InStream) (a b : Bytes) (hz : ∀ x ∈ a, x ≠ 0) (hf : s.failed = false)
    (hr : s.rest = a ++ b) : s.readString a.length = (a, s.adv b a.length) := by
  unfold InStream.readString
  rw [read_adv s a b hf hr]
  simp only [cstr_noNul a hz]

theorem readString_adv' (s : InStream) (n : Nat) (a b : Bytes) (hn : a.length = n) (hz : ∀ x ∈ a, x ≠ 0)
    (hf : s.failed = false) (hr : s.rest = a ++ b) : s.readString n = (a, s.adv b n) := by
  subst hn; exact readString_adv s a b hz hf hr

/-! ### `SR` plumbing -/

@[simp] theorem SR.bind_lift {α β} (r : InStream → α × InStream) (f : α → SR β) (s : InStream) :
    SR.bind (SR.lift r) f s = f (r s).1 (r s).2 := rfl
@[simp] theorem SR.bind_pure {α β} (a : α) (f : α → SR β) (s : InStream) : SR.bind (SR.pure a) f s = f a s := rfl
@[simp] theorem SR.bind_get {β} (f : InStream → SR β) (s : InStream) : SR.bind SR.get f s = f s s := rfl
@[simp] theorem SR.pure_apply {α} (a : α) (s : InStream) : SR.pure a s = .ok (a, s) := rfl
@[simp] theorem SR.lift_apply {α} (r : InStream → α × InStream) (s : InStream) : SR.lift r s = .ok (r s) := rfl

/-! ### lists of fields -/

/-- `n` single-byte unsigned reads give back a list of small numbers written byte by byte -/
theorem readMany_uint1 (l : List Nat) : ∀ (s : InStream) (b : Bytes), (∀ d ∈ l, d < 256) → s.failed = false →
    s.rest = l.map low8N ++ b →
    readMany (fun s => s.readUint 1) l.length s = (l, s.adv b l.length) := by
  induction l with
  | nil => intro s b _ _ hr; simp at hr; simp [readMany, ← hr, adv_zero]
  | cons d t ih =>
    intro s b hd hf hr
    simp only [List.map_cons, List.cons_append] at hr
    simp only [List.length_cons, readMany]
    rw [readUint1_adv s d _ (hd d (by simp)) hf hr]
    simp only
    rw [ih (s.adv _ 1) b (fun x hx => hd x (by simp [hx])) (by simpa) (by simp)]
    simp only [adv_adv]; congr 2; omega

theorem readMany_int1 (l : List Int) : ∀ (s : InStream) (b : Bytes), (∀ v ∈ l, -128 ≤ v ∧ v < 128) → s.failed = false →
    s.rest = l.map low8 ++ b →
    readMany (fun s => s.readInt 1) l.length s = (l, s.adv b l.length) := by
  induction l with
  | nil => intro s b _ _ hr; simp at hr; simp [readMany, ← hr, adv_zero]
  | cons d t ih =>
    intro s b hd hf hr
    simp only [List.map_cons, List.cons_append] at hr
    simp only [List.length_cons, readMany]
    rw [readInt1_adv s d _ (hd d (by simp)).1 (hd d (by simp)).2 hf hr]
    simp only
    rw [ih (s.adv _ 1) b (fun x hx => hd x (by simp [hx])) (by simpa) (by simp)]
    simp only [adv_adv]; congr 2; omega

theorem readMany_int2 (l : List Int) : ∀ (s : InStream) (b : Bytes), (∀ v ∈ l, -32768 ≤ v ∧ v < 32768) → s.failed = false →
    s.rest = (l.map le16).flatten ++ b →
    readMany (fun s => s.readInt 2) l.length s = (l, s.adv b (2 * l.length)) := by
  induction l with
  | nil => intro s b _ _ hr; simp at hr; simp [readMany, ← hr, adv_zero]
  | cons d t ih =>
    intro s b hd hf hr
    simp only [List.map_cons, List.flatten_cons, List.append_assoc] at hr
    simp only [List.length_cons, readMany]
    rw [readInt2_adv s d _ (hd d (by simp)).1 (hd d (by simp)).2 hf hr]
    simp only
    rw [ih (s.adv _ 2) b (fun x hx => hd x (by simp [hx])) (by simpa) (by simp)]
    simp only [adv_adv]; congr 2; omega

theorem readMany_float (l : List UInt32) : ∀ (s : InStream) (b : Bytes), s.failed = false →
    s.rest = (l.map f32le).flatten ++ b →
    readMany InStream.readFloat l.length s = (l, s.adv b (4 * l.length)) := by
  induction l with
  | nil => intro s b _ hr; simp at hr; simp [readMany, ← hr, adv_zero]
  | cons d t ih =>
    intro s b hf hr
    simp only [List.map_cons, List.flatten_cons, List.append_assoc] at hr
    simp only [List.length_cons, readMany]
    rw [readFloat_adv s d _ hf hr]
    simp only
    rw [ih (s.adv _ 4) b (by simpa) (by simp)]
    simp only [adv_adv]; congr 2; omega

end Ezc3d
