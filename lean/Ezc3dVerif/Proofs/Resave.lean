import Ezc3dVerif.Proofs.LoadWriteDec
/-
  Saving the object that `load` returned for the bytes of `write s` produces those very bytes again:
  the writer looks at nothing that normalisation changed.
-/
namespace Ezc3d
open C12 N

theorem toUpper_idem' (s : Bytes) : toUpper (toUpper s) = toUpper s := C03.toUpper_idem s

theorem writeValues_norm (p : Param) (n : Nat) : p.norm.writeValues n = p.writeValues n := by
  unfold Param.writeValues Param.norm
  cases ht : p.type <;> simp [ht]

theorem writeData_norm (p : Param) (ip : Bool) (hn : toUpper p.name = DATA_START ↔ p.name = DATA_START) :
    p.norm.writeData ip = p.writeData ip := by
  unfold Param.writeData
  rw [writeValues_norm, writeValues_norm]
  have h1 : p.norm.dims = p.dims := rfl
  have h2 : p.norm.type = p.type := rfl
  have h3 : p.norm.name = toUpper p.name := rfl
  have h4 : p.norm.strs = if p.type = .char then p.strs else [] := rfl
  rw [h1, h2, h3]
  by_cases hc : p.type = .char
  · simp only [hc, if_true, h4]
  · simp only [hc, if_false, hn]

theorem Param.write_norm (p : Param) (gid : Int) (ip : Bool) (hn : toUpper p.name = DATA_START ↔ p.name = DATA_START) :
    p.norm.write gid ip = p.write gid ip := by
  unfold Param.write
  rw [writeData_norm p ip hn]
  have h1 : p.norm.dims = p.dims := rfl
  have h2 : p.norm.type = p.type := rfl
  have h3 : p.norm.name = toUpper p.name := rfl
  have h4 : p.norm.desc = p.desc := rfl
  have h5 : p.norm.locked = p.locked := rfl
  rw [h1, h2, h3, h4, h5, toUpper_idem', C03.toUpper_length]

/-- is the parameter left blank by the writer when its group is POINT? (a statement about names as stored) -/
def NameStable (p : Param) : Prop := toUpper p.name = DATA_START ↔ p.name = DATA_START

instance (p : Param) : Decidable (NameStable p) := by unfold NameStable; infer_instance

theorem writeParamList_norm (gid : Int) (ip : Bool) (ps : List Param) (h : ∀ p ∈ ps, NameStable p) :
    writeParamList gid ip (ps.map Param.norm) = writeParamList gid ip ps := by
  induction ps with
  | nil => rfl
  | cons p t ih =>
    simp only [List.map_cons, writeParamList]
    rw [Param.write_norm p gid ip (h p (by simp)), ih (fun q hq => h q (by simp [hq]))]

/-- inside POINT the value of the blank parameter is not looked at -/
theorem Param.write_setDSp (v : Int) (p : Param) (gid : Int) : (setDSp v p).write gid true = p.write gid true := by
  unfold setDSp
  split
  · rename_i hd
    unfold Param.write Param.writeData
    have hs : hasSize p.dims > 0 := by rw [hd.2.2]; decide
    simp only [if_pos hs, hd.2.1, if_neg (show ¬ (PType.int = PType.char) by decide)]
    have hc : (p.name = DATA_START ∧ True ∧ hasSize p.dims = 1 ∧ True) := ⟨hd.1, trivial, hd.2.2, trivial⟩
    simp only [if_pos hc]
  · rfl

theorem writeParamList_setDSp (v : Int) (gid : Int) (ps : List Param) :
    writeParamList gid true (ps.map (setDSp v)) = writeParamList gid true ps := by
  induction ps with
  | nil => rfl
  | cons p t ih =>
    simp only [List.map_cons, writeParamList]
    rw [Param.write_setDSp, ih]

/-! ### groups, section, file -/

def GroupNameStable (g : Group) : Prop := (toUpper g.name = POINT ↔ g.name = POINT) ∧ ∀ p ∈ g.params, NameStable p

instance (g : Group) : Decidable (GroupNameStable g) := by unfold GroupNameStable; infer_instance

theorem toUpper_eq_nil (s : Bytes) : toUpper s = [] ↔ s = [] := by
  unfold toUpper; simp

theorem setDSp_stable (v : Int) (p : Param) (h : NameStable p) : NameStable (setDSp v p) := by
  unfold NameStable; rw [setDSp_name]; exact h

theorem Group.write_reloaded (v : Int) (g : Group) (i : Nat) (h : GroupNameStable g) :
    ((setDSg v g).normG).write i = g.write i := by
  unfold Group.write Group.normG
  simp only []
  have hname : (setDSg v g).name = g.name := setDSg_name v g
  have hdesc : (setDSg v g).desc = g.desc := by unfold setDSg; split <;> rfl
  have hlock : (setDSg v g).locked = g.locked := by unfold setDSg; split <;> rfl
  rw [hname, hdesc, hlock, toUpper_idem', C03.toUpper_length]
  have hb : (toUpper g.name == POINT) = (g.name == POINT) := by
    by_cases hp : g.name = POINT
    · have h1 : (g.name == POINT) = true := by rw [hp]; exact beq_self_eq_true _
      have h2 : (toUpper g.name == POINT) = true := by rw [h.1.mpr hp]; exact beq_self_eq_true _
      rw [h1, h2]
    · have hne : toUpper g.name ≠ POINT := fun hh => hp (h.1.mp hh)
      have h1 : (g.name == POINT) = false := by exact beq_eq_false_iff_ne.mpr hp
      have h2 : (toUpper g.name == POINT) = false := by exact beq_eq_false_iff_ne.mpr hne
      rw [h1, h2]
  rw [hb]
  by_cases hp : g.name = POINT
  · have hparams : (setDSg v g).params = g.params.map (setDSp v) := by unfold setDSg; rw [if_pos hp]
    rw [hparams, writeParamList_norm _ _ _ (by
      intro p hpm
      simp only [List.mem_map] at hpm
      obtain ⟨q, hq, rfl⟩ := hpm
      exact setDSp_stable v q (h.2 q hq))]
    have : (g.name == POINT) = true := by rw [hp]; exact beq_self_eq_true _
    rw [this, writeParamList_setDSp]
  · rw [setDSg_not v g hp, writeParamList_norm _ _ _ h.2]

theorem writeGroupList_reloaded (v : Int) (gs : List Group) : ∀ i, (∀ g ∈ gs, GroupNameStable g) →
    writeGroupList ((gs.map (setDSg v)).map Group.normG) i = writeGroupList gs i := by
  induction gs with
  | nil => intro i _; rfl
  | cons g rest ih =>
    intro i h
    simp only [List.map_cons, writeGroupList]
    rw [ih (i + 1) (fun x hx => h x (by simp [hx])), Group.write_reloaded v g i (h g (by simp))]
    have : ((setDSg v g).normG.name = []) ↔ (g.name = []) := by
      show toUpper (setDSg v g).name = [] ↔ _
      rw [setDSg_name, toUpper_eq_nil]
    by_cases hn : g.name = []
    · rw [if_pos hn, if_pos (this.mpr hn)]
    · rw [if_neg hn, if_neg (fun hh => hn (this.mp hh))]

theorem Header.write_loaded (h : Header) (ds : Nat) (x : Int) : (h.loaded ds).write x = h.write x := rfl

theorem Frame.write_relabel (pl al : List Bytes) (f : Frame) : (relabelFrame pl al f).write = f.write := by
  unfold Frame.write relabelFrame
  simp only
  congr 1
  · have : ∀ (l : List Point) (i : Nat), ((relabelPts pl i l).map Point.write) = l.map Point.write := by
      intro l
      induction l with
      | nil => intro i; rfl
      | cons p t ih => intro i; simp only [relabelPts, List.map_cons, ih]; rfl
    rw [this]
  · have : ∀ (l : List Channel) (i : Nat), ((relabelChs al i l).map fun c => f32le c.v) = l.map fun c => f32le c.v := by
      intro l
      induction l with
      | nil => intro i; rfl
      | cons c t ih => intro i; simp only [relabelChs, List.map_cons, ih]
    rw [List.map_map]
    congr 1
    apply List.map_congr_left
    intro sf _
    simp only [Function.comp, this]

theorem writeData_relabel (pl al : List Bytes) (frames : List Frame) :
    writeData (frames.map (relabelFrame pl al)) = writeData frames := by
  unfold writeData
  rw [List.map_map]
  congr 1
  apply List.map_congr_left
  intro f _
  exact Frame.write_relabel pl al f

/-- SAVING WHAT WAS LOADED GIVES THE SAME BYTES: the object `load` returns for the bytes of `write s`
    (`C3D.reloaded`) is written as exactly those bytes -/
theorem write_reloaded (s : C3D) (n : Nat) (pl al : List Bytes) (hstart : s.ph.start = 1)
    (hst : ∀ g ∈ s.groups, GroupNameStable g) :
    (s.reloaded n pl al).write = s.write := by
  unfold C3D.write C3D.reloaded
  simp only
  have hsec : writeParamSection { start := 1, checksum := 0x50, nbBlocks := n / 512, processor := 84 }
      ((s.groups.map (setDSg (((n / 512 + 2 : Nat) : Int) % 256))).map Group.normG) 512 = writeParamSection s.ph s.groups 512 := by
    unfold writeParamSection
    rw [writeGroupList_reloaded _ s.groups 0 hst, hstart]
  rw [hsec, writeData_relabel]
  rfl

end Ezc3d
