import Ezc3dVerif.Proofs.Updaters
import Ezc3dVerif.Proofs.All
/-
  What the updaters ESTABLISH (post-conditions), for C05: after a completed `updateParameters` the POINT / ANALOG
  count parameters are what the stored data say, and the header is what those parameters say.
-/
namespace Ezc3d
open N

/-! ### look-ups through an in-place rewrite -/

/-- a rewrite inside group `gi` does not change what is found under a name that resolves to another group -/
theorem getParam_modParam_other (gs : List Group) (gi pi : Nat) (f : Param → Param) (g p : Bytes)
    (hg : groupIdx gs g ≠ .ok gi) : getParam (modParam gs gi pi f) g p = getParam gs g p := by
  unfold getParam byName
  rw [show nameIdx Group.name (modParam gs gi pi f) g = nameIdx Group.name gs g from groupIdx_modParam gs gi pi f g]
  cases hj : nameIdx Group.name gs g with
  | throw e => rfl
  | ub k => rfl
  | ok j =>
    simp only [Res.bind_ok]
    unfold modParam
    rw [atIdx_modify]
    have : gi ≠ j := by intro h; subst h; exact hg hj
    simp [this]

theorem int0_congr {gs gs' : List Group} {g p : Bytes} (h : getParam gs' g p = getParam gs g p) : int0 gs' g p = int0 gs g p := by
  unfold int0; rw [h]
theorem float0_congr {gs gs' : List Group} {g p : Bytes} (h : getParam gs' g p = getParam gs g p) : float0 gs' g p = float0 gs g p := by
  unfold float0; rw [h]
theorem strsOf_congr {gs gs' : List Group} {g p : Bytes} (h : getParam gs' g p = getParam gs g p) : strsOf gs' g p = strsOf gs g p := by
  unfold strsOf; rw [h]

/-- the slot just rewritten by `setInts! [v]` reads `v` -/
theorem int0_modParam_set (gs : List Group) (g0 p0 : Bytes) (gi pi : Nat) (v : Int) (hidx : gpIdx gs g0 p0 = .ok (gi, pi)) :
    int0 (modParam gs gi pi (·.setInts! [v])) g0 p0 = .ok v := by
  obtain ⟨q, hq⟩ := gpIdx_ok_getParam hidx
  unfold int0
  rw [getParam_modParam gs g0 p0 gi pi _ (setInts!_name _) hidx, if_pos ⟨rfl, rfl⟩, hq]
  rfl

theorem strsOf_modParam_set (gs : List Group) (g0 p0 : Bytes) (gi pi : Nat) (v : List Bytes) (hidx : gpIdx gs g0 p0 = .ok (gi, pi)) :
    strsOf (modParam gs gi pi (·.setStrs! v)) g0 p0 = .ok v := by
  obtain ⟨q, hq⟩ := gpIdx_ok_getParam hidx
  unfold strsOf
  rw [getParam_modParam gs g0 p0 gi pi _ (setStrs!_name _) hidx, if_pos ⟨rfl, rfl⟩, hq]
  rfl

/-- another slot than the one rewritten is found unchanged -/
theorem getParam_modParam_ne (gs : List Group) (g0 p0 : Bytes) (gi pi : Nat) (f : Param → Param) (hn : ∀ q, (f q).name = q.name)
    (hidx : gpIdx gs g0 p0 = .ok (gi, pi)) (g p : Bytes) (hne : ¬ (g = g0 ∧ p = p0)) :
    getParam (modParam gs gi pi f) g p = getParam gs g p := by
  rw [getParam_modParam gs g0 p0 gi pi f hn hidx, if_neg hne]

theorem intToU64_u64ToI32 (n : Nat) (h : n < two31) : intToU64 (u64ToI32 n) = n := by
  unfold intToU64 u64ToI32 two32 two31 two64 at *
  simp only
  rw [Nat.mod_eq_of_lt (by omega), if_pos h]
  omega

/-- the group index a slot look-up reports is the index of the group -/
theorem gpIdx_fst {gs : List Group} {g p : Bytes} {gi gi' pi : Nat} (h : gpIdx gs g p = .ok (gi', pi)) (hg : groupIdx gs g = .ok gi) :
    gi' = gi := by
  have := gpIdx_group h; rw [hg] at this; cases this; rfl

/-! ### POINT half of `updateParameters` -/

theorem labelsFor_eq {gs : List Group} {g : Bytes} {ol : List Bytes} (h : strsOf gs g LABELS = .ok ol) (frames : List Frame) :
    labelsFor frames gs g = .ok (match frames with | [] => ol | _ :: _ => []) := by
  unfold labelsFor; cases frames with
  | nil => exact h
  | cons _ _ => rfl

@[simp] theorem pointNames_lazy (frames : List Frame) (ol np : List Bytes) :
    pointNames frames (match frames with | [] => ol | _ :: _ => []) np = pointNames frames ol np := by
  cases frames <;> rfl

@[simp] theorem channelNames_lazy (frames : List Frame) (ol na : List Bytes) :
    channelNames frames (match frames with | [] => ol | _ :: _ => []) na = channelNames frames ol na := by
  cases frames <;> rfl

/-! ### `modIfPresent`: an optional parameter rewritten in place -/

theorem groupIdx_modIfPresent (gs : List Group) (G P : Bytes) (gi : Nat) (f : Param → Param) (g : Bytes) :
    groupIdx (modIfPresent gs G P gi f) g = groupIdx gs g := by
  unfold modIfPresent; split
  · exact groupIdx_modParam _ _ _ _ _
  · rfl

theorem getParam_modIfPresent_ne (gs : List Group) (G P : Bytes) (gi : Nat) (f : Param → Param) (hn : ∀ q, (f q).name = q.name)
    (hgi : groupIdx gs G = .ok gi) (g p : Bytes) (hne : ¬ (g = G ∧ p = P)) :
    getParam (modIfPresent gs G P gi f) g p = getParam gs g p := by
  unfold modIfPresent
  cases h : gpIdx gs G P with
  | ok a =>
    obtain ⟨a1, i⟩ := a
    have e := gpIdx_fst h hgi
    rw [e] at h
    exact getParam_modParam_ne gs G P gi i f hn h g p hne
  | throw e => rfl
  | ub k => rfl

/-- what the POINT updater establishes: POINT:FRAMES counts the stored frames, POINT:USED counts the point names (those of
    the first frame when there are data, else the declared labels followed by the new declarations), POINT:LABELS lists them
    whenever the count had to change; nothing outside the group POINT is touched -/
theorem updatePointParams_post (gs : List Group) (frames : List Frame) (np : List Bytes) (ol : List Bytes)
    (hol : strsOf gs POINT LABELS = .ok ol)
    (hfl : frames.length < two31) (hpn : (pointNames frames ol np).length < two31) :
    (updatePointParams gs frames np).Ok fun g' =>
      (∃ fr, int0 g' POINT FRAMES = .ok fr ∧ intToU64 fr = frames.length) ∧
      (∃ u, int0 g' POINT USED = .ok u ∧ intToU64 u = (pointNames frames ol np).length) ∧
      (∃ l, strsOf g' POINT LABELS = .ok l ∧ (l = pointNames frames ol np ∨ l = ol)) ∧
      (∀ g p, groupIdx gs g ≠ groupIdx gs POINT → getParam g' g p = getParam gs g p) ∧
      (∀ g, groupIdx g' g = groupIdx gs g) := by
  unfold updatePointParams
  refine Outcome.ok_andThen fun ⟨gP, iF⟩ hiF => ?_
  refine Outcome.ok_andThen fun fr hfr => ?_
  have hgP : groupIdx gs POINT = .ok gP := gpIdx_group hiF
  simp only
  -- after the FRAMES rewrite
  generalize hg1 : (if frames.length ≠ intToU64 fr then modParam gs gP iF (·.setInts! [u64ToI32 frames.length]) else gs) = g1
  have hF1 : ∃ fr1, int0 g1 POINT FRAMES = .ok fr1 ∧ intToU64 fr1 = frames.length := by
    rw [← hg1]; split
    · exact ⟨_, int0_modParam_set gs POINT FRAMES gP iF _ hiF, intToU64_u64ToI32 _ hfl⟩
    · rename_i hc; exact ⟨fr, hfr, by simp at hc; exact hc.symm⟩
  have hG1 : ∀ g, groupIdx g1 g = groupIdx gs g := by
    intro g; rw [← hg1]; split
    · exact groupIdx_modParam _ _ _ _ _
    · rfl
  have hO1 : ∀ g p, ¬ (g = POINT ∧ p = FRAMES) → getParam g1 g p = getParam gs g p := by
    intro g p hne; rw [← hg1]; split
    · exact getParam_modParam_ne gs POINT FRAMES gP iF _ (setInts!_name _) hiF g p hne
    · rfl
  have hL1 : strsOf g1 POINT LABELS = .ok ol := by
    rw [strsOf_congr (hO1 POINT LABELS (by decide))]; exact hol
  rw [labelsFor_eq hL1 frames]
  simp only [Res.andThen_ok, pointNames_lazy]
  refine Outcome.ok_andThen fun used hused => ?_
  refine Outcome.ok_ite _ (fun hc => ?_) (fun hc => ?_)
  · refine Outcome.ok_andThen fun ⟨gU, iUsed⟩ hiU => ?_
    have eU := gpIdx_fst hiU (by rw [hG1]; exact hgP)
    rw [eU] at hiU
    simp only
    generalize hg2 : modParam g1 gP iUsed (·.setInts! [u64ToI32 (pointNames frames ol np).length]) = g2
    have hG2 : ∀ g, groupIdx g2 g = groupIdx gs g := by intro g; rw [← hg2, groupIdx_modParam]; exact hG1 g
    have hO2 : ∀ g p, ¬ (g = POINT ∧ p = USED) → getParam g2 g p = getParam g1 g p := by
      intro g p hne; rw [← hg2]; exact getParam_modParam_ne g1 POINT USED gP iUsed _ (setInts!_name _) hiU g p hne
    have hU2 : int0 g2 POINT USED = .ok (u64ToI32 (pointNames frames ol np).length) := by
      rw [← hg2]; exact int0_modParam_set g1 POINT USED gP iUsed _ hiU
    refine Outcome.ok_andThen fun ⟨gL, iL⟩ hiL => ?_
    have eL := gpIdx_fst hiL (by rw [hG2]; exact hgP)
    rw [eL] at hiL
    simp only
    generalize hg3 : modParam g2 gP iL (·.setStrs! (pointNames frames ol np)) = g3
    have hG3 : groupIdx g3 POINT = .ok gP := by rw [← hg3, groupIdx_modParam, hG2]; exact hgP
    generalize hg4 : modIfPresent g3 POINT DESCRIPTIONS gP (·.setStrs! ((pointNames frames ol np).map fun _ => [])) = g4
    have hG4 : groupIdx g4 POINT = .ok gP := by rw [← hg4, groupIdx_modIfPresent]; exact hG3
    apply Outcome.ok_ok
    have hO3 : ∀ g p, ¬ (g = POINT ∧ p = LABELS) → getParam g3 g p = getParam g2 g p := by
      intro g p hne; rw [← hg3]; exact getParam_modParam_ne g2 POINT LABELS gP iL _ (setStrs!_name _) hiL g p hne
    have hO4 : ∀ g p, ¬ (g = POINT ∧ p = DESCRIPTIONS) → getParam g4 g p = getParam g3 g p := by
      intro g p hne; rw [← hg4]; exact getParam_modIfPresent_ne g3 POINT DESCRIPTIONS gP _ (setStrs!_name _) hG3 g p hne
    have hO5 : ∀ g p, ¬ (g = POINT ∧ p = UNITS) →
        getParam (modIfPresent g4 POINT UNITS gP (·.setStrs! ((pointNames frames ol np).map fun _ => mm))) g p = getParam g4 g p := by
      intro g p hne; exact getParam_modIfPresent_ne g4 POINT UNITS gP _ (setStrs!_name _) hG4 g p hne
    refine ⟨?_, ?_, ?_, ?_, ?_⟩
    · obtain ⟨fr1, h1, h2⟩ := hF1
      refine ⟨fr1, ?_, h2⟩
      rw [int0_congr (hO5 POINT FRAMES (by decide)), int0_congr (hO4 POINT FRAMES (by decide)), int0_congr (hO3 POINT FRAMES (by decide)),
        int0_congr (hO2 POINT FRAMES (by decide))]
      exact h1
    · refine ⟨_, ?_, intToU64_u64ToI32 _ hpn⟩
      rw [int0_congr (hO5 POINT USED (by decide)), int0_congr (hO4 POINT USED (by decide)), int0_congr (hO3 POINT USED (by decide))]
      exact hU2
    · refine ⟨pointNames frames ol np, ?_, Or.inl rfl⟩
      rw [strsOf_congr (hO5 POINT LABELS (by decide)), strsOf_congr (hO4 POINT LABELS (by decide)), ← hg3]
      exact strsOf_modParam_set g2 POINT LABELS gP iL _ hiL
    · intro g p hg
      have hne : ∀ x, ¬ (g = POINT ∧ p = x) := by intro x ⟨h1, _⟩; subst h1; exact hg rfl
      rw [hO5 g p (hne _), hO4 g p (hne _), hO3 g p (hne _), hO2 g p (hne _), hO1 g p (hne _)]
    · intro g
      rw [groupIdx_modIfPresent, ← hg4, groupIdx_modIfPresent, ← hg3, groupIdx_modParam]; exact hG2 g
  · apply Outcome.ok_ok
    refine ⟨hF1, ⟨used, hused, ?_⟩, ⟨ol, hL1, Or.inr rfl⟩, ?_, hG1⟩
    · simp at hc; exact hc.symm
    · intro g p hg
      exact hO1 g p (by intro ⟨h1, _⟩; subst h1; exact hg rfl)

/-! ### ANALOG half of `updateParameters` -/

theorem updateAnalogParams_post (gs : List Group) (frames : List Frame) (na : List Bytes) (oa : List Bytes)
    (hoa : strsOf gs ANALOG LABELS = .ok oa) (hcn : (channelNames frames oa na).length < two31) :
    (updateAnalogParams gs frames na).Ok fun g' =>
      (∃ u, int0 g' ANALOG USED = .ok u ∧ intToU64 u = (channelNames frames oa na).length) ∧
      (∃ l, strsOf g' ANALOG LABELS = .ok l ∧ (l = channelNames frames oa na ∨ l = oa)) ∧
      (∀ g p, groupIdx gs g ≠ groupIdx gs ANALOG → getParam g' g p = getParam gs g p) ∧
      (∀ p, p ≠ USED → p ≠ LABELS → p ≠ DESCRIPTIONS → p ≠ SCALE → p ≠ OFFSET → p ≠ UNITS → getParam g' ANALOG p = getParam gs ANALOG p) ∧
      (∀ g, groupIdx g' g = groupIdx gs g) := by
  unfold updateAnalogParams
  refine Outcome.ok_andThen fun gA hgA => ?_
  rw [labelsFor_eq hoa frames]
  simp only [Res.andThen_ok, channelNames_lazy]
  refine Outcome.ok_andThen fun aused haused => ?_
  refine Outcome.ok_ite _ (fun hc => ?_) (fun hc => ?_)
  · refine Outcome.ok_andThen fun ⟨gU, iUsed⟩ hiU => ?_
    have eU := gpIdx_fst hiU hgA
    rw [eU] at hiU
    simp only
    generalize hg1 : modParam gs gA iUsed (·.setInts! [u64ToI32 (channelNames frames oa na).length]) = a1
    have hG1 : ∀ g, groupIdx a1 g = groupIdx gs g := by intro g; rw [← hg1, groupIdx_modParam]
    have hO1 : ∀ g p, ¬ (g = ANALOG ∧ p = USED) → getParam a1 g p = getParam gs g p := by
      intro g p hne; rw [← hg1]; exact getParam_modParam_ne gs ANALOG USED gA iUsed _ (setInts!_name _) hiU g p hne
    have hU1 : int0 a1 ANALOG USED = .ok (u64ToI32 (channelNames frames oa na).length) := by
      rw [← hg1]; exact int0_modParam_set gs ANALOG USED gA iUsed _ hiU
    refine Outcome.ok_andThen fun ⟨gL, iL⟩ hiL => ?_
    have eL := gpIdx_fst hiL (by rw [hG1]; exact hgA)
    rw [eL] at hiL
    simp only
    generalize hg2 : modParam a1 gA iL (·.setStrs! (channelNames frames oa na)) = a2
    have hG2 : ∀ g, groupIdx a2 g = groupIdx gs g := by intro g; rw [← hg2, groupIdx_modParam]; exact hG1 g
    have hO2 : ∀ g p, ¬ (g = ANALOG ∧ p = LABELS) → getParam a2 g p = getParam a1 g p := by
      intro g p hne; rw [← hg2]; exact getParam_modParam_ne a1 ANALOG LABELS gA iL _ (setStrs!_name _) hiL g p hne
    have hL2 : strsOf a2 ANALOG LABELS = .ok (channelNames frames oa na) := by
      rw [← hg2]; exact strsOf_modParam_set a1 ANALOG LABELS gA iL _ hiL
    generalize hg3 : modIfPresent a2 ANALOG DESCRIPTIONS gA (·.setStrs! ((channelNames frames oa na).map fun _ => [])) = a3
    have hG3 : ∀ g, groupIdx a3 g = groupIdx gs g := by intro g; rw [← hg3, groupIdx_modIfPresent]; exact hG2 g
    have hO3 : ∀ g p, ¬ (g = ANALOG ∧ p = DESCRIPTIONS) → getParam a3 g p = getParam a2 g p := by
      intro g p hne; rw [← hg3]; exact getParam_modIfPresent_ne a2 ANALOG DESCRIPTIONS gA _ (setStrs!_name _) (by rw [hG2]; exact hgA) g p hne
    refine Outcome.ok_andThen fun ⟨gS, iS⟩ hiS => ?_
    have eS := gpIdx_fst hiS (by rw [hG3]; exact hgA)
    rw [eS] at hiS
    refine Outcome.ok_andThen fun scales _ => ?_
    simp only
    generalize hg4 : modParam a3 gA iS (·.setFloats! (scales ++ List.replicate ((channelNames frames oa na).length - scales.length) 0x3F800000)) = a4
    have hG4 : ∀ g, groupIdx a4 g = groupIdx gs g := by intro g; rw [← hg4, groupIdx_modParam]; exact hG3 g
    have hO4 : ∀ g p, ¬ (g = ANALOG ∧ p = SCALE) → getParam a4 g p = getParam a3 g p := by
      intro g p hne; rw [← hg4]; exact getParam_modParam_ne a3 ANALOG SCALE gA iS _ (setFloats!_name _) hiS g p hne
    refine Outcome.ok_andThen fun ⟨gO, iO⟩ hiO => ?_
    have eO := gpIdx_fst hiO (by rw [hG4]; exact hgA)
    rw [eO] at hiO
    refine Outcome.ok_andThen fun offs _ => ?_
    simp only
    generalize hg5 : modParam a4 gA iO (·.setInts! (offs ++ List.replicate ((channelNames frames oa na).length - offs.length) 0)) = a5
    have hG5 : ∀ g, groupIdx a5 g = groupIdx gs g := by intro g; rw [← hg5, groupIdx_modParam]; exact hG4 g
    have hO5 : ∀ g p, ¬ (g = ANALOG ∧ p = OFFSET) → getParam a5 g p = getParam a4 g p := by
      intro g p hne; rw [← hg5]; exact getParam_modParam_ne a4 ANALOG OFFSET gA iO _ (setInts!_name _) hiO g p hne
    -- whatever the UNITS step does (rewrite the parameter, or nothing when the group has none), it touches ANALOG:UNITS only
    have tail : ∀ a6 : List Group, (∀ g p, ¬ (g = ANALOG ∧ p = UNITS) → getParam a6 g p = getParam a5 g p) → (∀ g, groupIdx a6 g = groupIdx a5 g) →
        (∃ u, int0 a6 ANALOG USED = .ok u ∧ intToU64 u = (channelNames frames oa na).length) ∧
        (∃ l, strsOf a6 ANALOG LABELS = .ok l ∧ (l = channelNames frames oa na ∨ l = oa)) ∧
        (∀ g p, groupIdx gs g ≠ groupIdx gs ANALOG → getParam a6 g p = getParam gs g p) ∧
        (∀ p, p ≠ USED → p ≠ LABELS → p ≠ DESCRIPTIONS → p ≠ SCALE → p ≠ OFFSET → p ≠ UNITS → getParam a6 ANALOG p = getParam gs ANALOG p) ∧
        (∀ g, groupIdx a6 g = groupIdx gs g) := by
      intro a6 hO6 hG6
      refine ⟨⟨_, ?_, intToU64_u64ToI32 _ hcn⟩, ⟨_, ?_, Or.inl rfl⟩, ?_, ?_, ?_⟩
      · rw [int0_congr (hO6 ANALOG USED (by decide)), int0_congr (hO5 ANALOG USED (by decide)), int0_congr (hO4 ANALOG USED (by decide)),
          int0_congr (hO3 ANALOG USED (by decide)), int0_congr (hO2 ANALOG USED (by decide))]
        exact hU1
      · rw [strsOf_congr (hO6 ANALOG LABELS (by decide)), strsOf_congr (hO5 ANALOG LABELS (by decide)), strsOf_congr (hO4 ANALOG LABELS (by decide)),
          strsOf_congr (hO3 ANALOG LABELS (by decide))]
        exact hL2
      · intro g p hg
        have hne : ∀ x, ¬ (g = ANALOG ∧ p = x) := by intro x ⟨h1, _⟩; subst h1; exact hg rfl
        rw [hO6 g p (hne _), hO5 g p (hne _), hO4 g p (hne _), hO3 g p (hne _), hO2 g p (hne _), hO1 g p (hne _)]
      · intro p h1 h2 h3 h4 h5 h6
        rw [hO6 ANALOG p (fun h => h6 h.2), hO5 ANALOG p (fun h => h5 h.2), hO4 ANALOG p (fun h => h4 h.2), hO3 ANALOG p (fun h => h3 h.2),
          hO2 ANALOG p (fun h => h2 h.2), hO1 ANALOG p (fun h => h1 h.2)]
      · intro g; rw [hG6]; exact hG5 g
    cases hiN : gpIdx a5 ANALOG UNITS with
    | ok a =>
      obtain ⟨gN, iN⟩ := a
      have eN := gpIdx_fst hiN (by rw [hG5]; exact hgA)
      rw [eN] at hiN
      simp only
      refine Outcome.ok_andThen fun units _ => ?_
      apply Outcome.ok_ok
      exact tail _ (fun g p hne => getParam_modParam_ne a5 ANALOG UNITS gA iN _ (setStrs!_name _) hiN g p hne) (fun g => groupIdx_modParam _ _ _ _ _)
    | throw e => simp only; apply Outcome.ok_ok; exact tail a5 (fun _ _ _ => rfl) (fun _ => rfl)
    | ub k => simp only; apply Outcome.ok_ok; exact tail a5 (fun _ _ _ => rfl) (fun _ => rfl)
  · apply Outcome.ok_ok
    refine ⟨⟨aused, haused, ?_⟩, ⟨oa, hoa, Or.inr rfl⟩, fun _ _ _ => rfl, fun _ _ _ _ _ _ _ => rfl, fun _ => rfl⟩
    simp at hc; exact hc.symm

end Ezc3d

/-! ### header half: what a completed `updateHeader` establishes -/

namespace Ezc3d
open N

/-- the header's analog words are exact (samples per frame = channels x sub-frames) and within the range where the
    library's `size_t` products do not wrap -/
structure HdrInv (h : Header) : Prop where
  exact : h.nbAnalogsMeas = h.nbAnalogs * h.nbAnalogByFrame
  small : h.nbAnalogs < two31
  abf : h.nbAnalogByFrame < two32

theorem mul_small {a b : Nat} (ha : a < two31) (hb : b < two32) : a * b < two64 := by
  have : a * b < two31 * two32 := Nat.mul_lt_mul'' ha hb
  unfold two31 two32 two64 at *; omega

theorem setABF_inv (h : Header) (n : Nat) (hi : HdrInv h) (hn : n < two32) :
    HdrInv (h.setNbAnalogByFrame n) ∧ (h.setNbAnalogByFrame n).nbAnalogByFrame = n ∧
    (h.setNbAnalogByFrame n).nbPoints = h.nbPoints ∧ (h.setNbAnalogByFrame n).rate = h.rate ∧
    (h.setNbAnalogByFrame n).firstFrame = h.firstFrame ∧ (h.setNbAnalogByFrame n).lastFrame = h.lastFrame := by
  have hm := mul_small hi.small hn
  have e1 : (h.setNbAnalogByFrame n).nbAnalogsMeas = h.nbAnalogs * n := by
    simp only [Header.setNbAnalogByFrame, Header.setNbAnalogs, u64]; exact Nat.mod_eq_of_lt hm
  have e2 : (h.setNbAnalogByFrame n).nbAnalogByFrame = n := rfl
  have e3 : (h.setNbAnalogByFrame n).nbAnalogs = if n = 0 then 0 else h.nbAnalogs := by
    unfold Header.nbAnalogs at *
    rw [e2, e1]
    split
    · rfl
    · rename_i hne; exact Nat.mul_div_cancel _ (Nat.pos_of_ne_zero hne)
  refine ⟨⟨?_, ?_, ?_⟩, e2, rfl, rfl, rfl, rfl⟩
  · rw [e1, e2, e3]; split
    · rename_i h0; rw [h0]; simp
    · rfl
  · rw [e3]; split
    · unfold two31; omega
    · exact hi.small
  · rw [e2]; exact hn

theorem setA_inv (h : Header) (a : Nat) (hi : HdrInv h) (ha : a < two31) :
    HdrInv (h.setNbAnalogs a) ∧ (h.setNbAnalogs a).nbAnalogByFrame = h.nbAnalogByFrame ∧
    (h.nbAnalogByFrame ≠ 0 → (h.setNbAnalogs a).nbAnalogs = a) ∧
    (h.setNbAnalogs a).nbPoints = h.nbPoints ∧ (h.setNbAnalogs a).rate = h.rate ∧
    (h.setNbAnalogs a).firstFrame = h.firstFrame ∧ (h.setNbAnalogs a).lastFrame = h.lastFrame := by
  have hm := mul_small ha hi.abf
  have e1 : (h.setNbAnalogs a).nbAnalogsMeas = a * h.nbAnalogByFrame := by
    simp only [Header.setNbAnalogs, u64]; exact Nat.mod_eq_of_lt hm
  have e2 : (h.setNbAnalogs a).nbAnalogByFrame = h.nbAnalogByFrame := rfl
  have e3 : (h.setNbAnalogs a).nbAnalogs = if h.nbAnalogByFrame = 0 then 0 else a := by
    unfold Header.nbAnalogs
    rw [e2, e1]
    split
    · rfl
    · rename_i hne; exact Nat.mul_div_cancel _ (Nat.pos_of_ne_zero hne)
  refine ⟨⟨?_, ?_, ?_⟩, e2, ?_, rfl, rfl, rfl, rfl⟩
  · rw [e1, e2, e3]; split
    · rename_i h0; rw [h0]; simp
    · rfl
  · rw [e3]; split
    · unfold two31; omega
    · exact ha
  · rw [e2]; exact hi.abf
  · intro hne; rw [e3, if_neg hne]

/-- header and parameters agree (and the header agrees with the first stored frame on the sub-frame count) -/
structure HP (F : FloatOps) (gs : List Group) (frames : List Frame) (h : Header) : Prop where
  points : ∃ u, int0 gs POINT USED = .ok u ∧ h.nbPoints = intToU64 u
  rate : ∃ r, float0 gs POINT RATE = .ok r ∧ F.rateKey h.rate = F.rateKey r
  analogs : h.nbAnalogByFrame ≠ 0 → ∃ au, int0 gs ANALOG USED = .ok au ∧ h.nbAnalogs = intToU64 au ∧
              h.nbAnalogsMeas = intToU64 au * h.nbAnalogByFrame
  nframes : ¬ (h.nbPoints = 0 ∧ h.nbAnalogs = 0) → ∃ fr, int0 gs POINT FRAMES = .ok fr ∧ h.nbFrames = intToU64 fr
  subs : ∀ f0 t, frames = f0 :: t → f0.subs.length ≠ 0 → h.nbAnalogByFrame = f0.subs.length

theorem subFromRates_inv (F : FloatOps) (gs : List Group) (r : UInt32) (h h' : Header) (hi : HdrInv h)
    (hF : ∀ a b, F.ratioNat a b < two32) (hs : subFromRates F gs r h = .ok h') :
    HdrInv h' ∧ h'.nbPoints = h.nbPoints ∧ h'.rate = h.rate ∧ h'.firstFrame = h.firstFrame ∧ h'.lastFrame = h.lastFrame := by
  unfold subFromRates at hs
  obtain ⟨ga, _, hs⟩ := Res.andThen_ok_iff.mp hs
  split at hs
  · split at hs
    · cases hs; split
      · obtain ⟨a, _, b, c, d, e⟩ := setABF_inv h 1 hi (by unfold two32; omega); exact ⟨a, b, c, d, e⟩
      · exact ⟨hi, rfl, rfl, rfl, rfl⟩
    · obtain ⟨ar, _, hs⟩ := Res.andThen_ok_iff.mp hs
      cases hs; split
      · obtain ⟨a, _, b, c, d, e⟩ := setABF_inv h _ hi (hF ar r); exact ⟨a, b, c, d, e⟩
      · exact ⟨hi, rfl, rfl, rfl, rfl⟩
  · cases hs; exact ⟨hi, rfl, rfl, rfl, rfl⟩

theorem nbFrames_set (h : Header) (n : Nat) (hn : n < two64) (hne : ¬ (h.nbPoints = 0 ∧ h.nbAnalogs = 0)) :
    ({ h with firstFrame := 0, lastFrame := subU64 n 1 } : Header).nbFrames = n := by
  have e : ({ h with firstFrame := 0, lastFrame := subU64 n 1 } : Header).nbAnalogs = h.nbAnalogs := rfl
  unfold Header.nbFrames
  rw [e]
  simp only
  rw [if_neg hne]
  unfold subU64 u64 two64 at *
  omega

/-- WHAT `updateHeader` ESTABLISHES: for every parameter tree, every stored data and every previous header with exact
    analog words, a completed `updateHeader` leaves a header that agrees with the parameters on the point count, the rate,
    the channel count and samples per frame (whenever there is at least one sub-frame), the frame count (whenever there
    is a point or a channel) and with the first stored frame on the sub-frame count; and its analog words are exact again -/
theorem updateHeaderH_post (F : FloatOps) (gs : List Group) (frames : List Frame) (h h' : Header)
    (hi : HdrInv h) (hF : ∀ a b, F.ratioNat a b < two32)
    (hsub : ∀ f0 t, frames = f0 :: t → f0.subs.length < two32)
    (hau : ∀ au, int0 gs ANALOG USED = .ok au → intToU64 au < two31)
    (hgne : ∀ ga, byName Group.name gs ANALOG = .ok ga → ga.params.length ≠ 0)
    (hok : updateHeaderH F gs frames h = .ok h') : HP F gs frames h' ∧ HdrInv h' := by
  unfold updateHeaderH at hok
  obtain ⟨rate, hr, hok⟩ := Res.andThen_ok_iff.mp hok
  obtain ⟨used, hu, hok⟩ := Res.andThen_ok_iff.mp hok
  obtain ⟨h3, hsb, hok⟩ := Outcome.bind_ok_iff.mp hok
  obtain ⟨ga, hga, hok⟩ := Res.andThen_ok_iff.mp hok
  obtain ⟨h4, h4e, hok⟩ := Outcome.bind_ok_iff.mp hok
  obtain ⟨fr, hfr, hok⟩ := Res.andThen_ok_iff.mp hok
  generalize hh1 : (if F.rateKey rate ≠ F.rateKey h.rate then { h with rate := rate } else h) = h1 at hsb
  generalize hh2 : (if intToU64 used ≠ h1.nbPoints then { h1 with nbPoints := intToU64 used } else h1) = h2 at hsb
  have i1 : HdrInv h1 ∧ F.rateKey h1.rate = F.rateKey rate := by
    rw [← hh1]; split
    · exact ⟨⟨hi.exact, hi.small, hi.abf⟩, rfl⟩
    · rename_i hne; simp at hne; exact ⟨hi, hne.symm⟩
  have i2 : HdrInv h2 ∧ h2.nbPoints = intToU64 used ∧ h2.rate = h1.rate := by
    rw [← hh2]; split
    · exact ⟨⟨i1.1.exact, i1.1.small, i1.1.abf⟩, rfl, rfl⟩
    · rename_i hne; simp at hne; exact ⟨i1.1, hne.symm, rfl⟩
  have i3 : HdrInv h3 ∧ h3.nbPoints = h2.nbPoints ∧ h3.rate = h2.rate ∧
      (∀ f0 t, frames = f0 :: t → f0.subs.length ≠ 0 → h3.nbAnalogByFrame = f0.subs.length) := by
    cases frames with
    | nil =>
      obtain ⟨a, b, c, _, _⟩ := subFromRates_inv F gs rate h2 h3 i2.1 hF hsb
      exact ⟨a, b, c, by intro f0 t hc; cases hc⟩
    | cons f0 t =>
      simp only at hsb
      split at hsb
      · rename_i hne
        cases hsb
        split
        · obtain ⟨a, a2, b, c, _, _⟩ := setABF_inv h2 f0.subs.length i2.1 (hsub f0 t rfl)
          exact ⟨a, b, c, by intro f0' t' hc _; cases hc; exact a2⟩
        · rename_i heq; simp at heq
          exact ⟨i2.1, rfl, rfl, by intro f0' t' hc _; cases hc; exact heq.symm⟩
      · rename_i h0; simp at h0
        obtain ⟨a, b, c, _, _⟩ := subFromRates_inv F gs rate h2 h3 i2.1 hF hsb
        exact ⟨a, b, c, by intro f0' t' hc hne; cases hc; exact absurd (by simp [h0]) hne⟩
  have i4 : HdrInv h4 ∧ h4.nbPoints = h3.nbPoints ∧ h4.rate = h3.rate ∧ h4.nbAnalogByFrame = h3.nbAnalogByFrame ∧
      (h4.nbAnalogByFrame ≠ 0 → ∃ au, int0 gs ANALOG USED = .ok au ∧ h4.nbAnalogs = intToU64 au) := by
    split at h4e
    · obtain ⟨au, hau', h4e⟩ := Res.andThen_ok_iff.mp h4e
      have hlt : intToU64 au < two31 := hau au hau'
      cases h4e
      split
      · obtain ⟨a, b, c, d, e, _, _⟩ := setA_inv h3 (intToU64 au) i3.1 hlt
        exact ⟨a, d, e, b, fun hne => ⟨au, hau', c (by rw [← b]; exact hne)⟩⟩
      · rename_i heq; simp at heq
        exact ⟨i3.1, rfl, rfl, rfl, fun _ => ⟨au, hau', heq.symm⟩⟩
    · rename_i hlen
      exact absurd hlen (by simpa using hgne ga hga)
  have hnb : h'.nbPoints = h4.nbPoints ∧ h'.rate = h4.rate ∧ h'.nbAnalogByFrame = h4.nbAnalogByFrame ∧ h'.nbAnalogs = h4.nbAnalogs ∧
      h'.nbAnalogsMeas = h4.nbAnalogsMeas := by
    split at hok <;> cases hok <;> exact ⟨rfl, rfl, rfl, rfl, rfl⟩
  have hinv' : HdrInv h' := ⟨by rw [hnb.2.2.2.2, hnb.2.2.2.1, hnb.2.2.1]; exact i4.1.exact, by rw [hnb.2.2.2.1]; exact i4.1.small,
    by rw [hnb.2.2.1]; exact i4.1.abf⟩
  refine ⟨⟨⟨used, hu, ?_⟩, ⟨rate, hr, ?_⟩, ?_, ?_, ?_⟩, hinv'⟩
  · rw [hnb.1, i4.2.1, i3.2.1, i2.2.1]
  · rw [hnb.2.1, i4.2.2.1, i3.2.2.1, i2.2.2, i1.2]
  · intro hne
    rw [hnb.2.2.1] at hne
    obtain ⟨au, h1, h2⟩ := i4.2.2.2.2 hne
    refine ⟨au, h1, by rw [hnb.2.2.2.1]; exact h2, ?_⟩
    rw [hinv'.exact, hnb.2.2.2.1, h2]
  · intro hne
    refine ⟨fr, hfr, ?_⟩
    split at hok
    · cases hok
      have hfr64 : intToU64 fr < two64 := by unfold intToU64 two64; omega
      exact nbFrames_set h4 _ hfr64 (by rw [← hnb.1, ← hnb.2.2.2.1]; exact hne)
    · rename_i heq; simp at heq; cases hok; exact heq.symm
  · intro f0 t hft hne
    rw [hnb.2.2.1, i4.2.2.2.1]
    exact i3.2.2.2 f0 t hft hne


/-! ### the whole of `updateParameters` -/

theorem nameIdx_name {α} (name : α → Bytes) (l : List α) (key : Bytes) (i : Nat) (h : nameIdx name l key = .ok i) :
    ∃ a, l[i]? = some a ∧ name a = key := by
  unfold nameIdx at h
  split at h
  · rename_i j hj
    cases h
    rw [List.findIdx?_eq_some_iff_getElem] at hj
    obtain ⟨hlt, hpk, _⟩ := hj
    exact ⟨l[i], by simp [hlt], by simpa using hpk⟩
  · cases h

/-- two names that resolve to the same group index are the same name -/
theorem groupIdx_inj {gs : List Group} {a b : Bytes} {i : Nat} (ha : groupIdx gs a = .ok i) (hb : groupIdx gs b = .ok i) : a = b := by
  obtain ⟨x, hx, hxa⟩ := nameIdx_name Group.name gs a i ha
  obtain ⟨y, hy, hyb⟩ := nameIdx_name Group.name gs b i hb
  rw [hx] at hy; cases hy; rw [← hxa, ← hyb]

theorem getParam_groupIdx {gs : List Group} {g p : Bytes} {q : Param} (h : getParam gs g p = .ok q) : ∃ gi, groupIdx gs g = .ok gi := by
  obtain ⟨gi, _, _, _, hg, _, _⟩ := getParam_ok_gpIdx h; exact ⟨gi, hg⟩

theorem int0_getParam {gs : List Group} {g p : Bytes} {v : Int} (h : int0 gs g p = .ok v) : ∃ q, getParam gs g p = .ok q := by
  unfold int0 at h; obtain ⟨q, hq, _⟩ := Res.bind_ok_iff.mp h; exact ⟨q, hq⟩
theorem strsOf_getParam {gs : List Group} {g p : Bytes} {v : List Bytes} (h : strsOf gs g p = .ok v) : ∃ q, getParam gs g p = .ok q := by
  unfold strsOf at h; obtain ⟨q, hq, _⟩ := Res.bind_ok_iff.mp h; exact ⟨q, hq⟩

theorem getParam_nonempty {gs : List Group} {g p : Bytes} {q : Param} (h : getParam gs g p = .ok q) :
    ∀ ga, byName Group.name gs g = .ok ga → ga.params.length ≠ 0 := by
  intro ga hga
  unfold getParam at h
  rw [hga] at h
  simp only [Res.bind_ok] at h
  unfold byName at h
  obtain ⟨i, hi, hq⟩ := Res.bind_ok_iff.mp h
  intro h0
  have : ga.params = [] := List.eq_nil_of_length_eq_zero h0
  rw [this] at hq
  simp [atIdx] at hq

theorem POINT_ne_ANALOG : POINT ≠ ANALOG := by decide

/-- the counts the stored data give -/
def nPointNames (frames : List Frame) (ol np : List Bytes) : Nat := (pointNames frames ol np).length
def nChannelNames (frames : List Frame) (oa na : List Bytes) : Nat := (channelNames frames oa na).length

/-- WHAT `updateParameters` ESTABLISHES. Every frame / point / channel mutator ends with it. When it completes, the count
    parameters are what the stored data say (POINT:FRAMES = stored frames, POINT:USED = the point names, ANALOG:USED = the
    channel names: those of the first frame when there are data, else the declared ones), the header agrees with these
    parameters (`HP`) and its analog words are exact (`HdrInv`). -/
theorem updateParameters_post (F : FloatOps) (s s' : C3D) (np na : List Bytes) (ol oa : List Bytes)
    (hol : strsOf s.groups POINT LABELS = .ok ol) (hoa : strsOf s.groups ANALOG LABELS = .ok oa)
    (hi : HdrInv s.hdr) (hF : ∀ a b, F.ratioNat a b < two32)
    (hfl : s.frames.length < two31) (hpn : nPointNames s.frames ol np < two31) (hcn : nChannelNames s.frames oa na < two31)
    (hsub : ∀ f0 t, s.frames = f0 :: t → f0.subs.length < two32)
    (h : updateParameters F s np na = .ok s') :
    s'.frames = s.frames ∧ HP F s'.groups s'.frames s'.hdr ∧ HdrInv s'.hdr ∧
    (∃ fr, int0 s'.groups POINT FRAMES = .ok fr ∧ intToU64 fr = s.frames.length) ∧
    (∃ u, int0 s'.groups POINT USED = .ok u ∧ intToU64 u = nPointNames s.frames ol np) ∧
    (∃ u, int0 s'.groups ANALOG USED = .ok u ∧ intToU64 u = nChannelNames s.frames oa na) := by
  unfold updateParameters at h
  split at h; · cases h
  split at h; · cases h
  obtain ⟨s1, h1, h2⟩ := Outcome.bind_ok_iff.mp h
  obtain ⟨g2, hg2, rfl⟩ := Outcome.lift_ok_iff.mp h1
  obtain ⟨g1, hg1, hg2⟩ := Outcome.bind_ok_iff.mp hg2
  -- POINT half
  obtain ⟨⟨fr, hfr, hfrv⟩, ⟨u, hu, huv⟩, _, hother1, hidx1⟩ := updatePointParams_post s.groups s.frames np ol hol hfl hpn g1 hg1
  -- the two groups are different groups
  obtain ⟨qP, hqP⟩ := strsOf_getParam hol
  obtain ⟨qA, hqA⟩ := strsOf_getParam hoa
  obtain ⟨gP, hgP⟩ := getParam_groupIdx hqP
  obtain ⟨gA, hgA⟩ := getParam_groupIdx hqA
  have hPA : groupIdx s.groups ANALOG ≠ groupIdx s.groups POINT := by
    intro hc; rw [hgP] at hc; exact POINT_ne_ANALOG (groupIdx_inj hgP hc)
  have hoa1 : strsOf g1 ANALOG LABELS = .ok oa := by rw [strsOf_congr (hother1 ANALOG LABELS hPA)]; exact hoa
  -- ANALOG half
  obtain ⟨⟨au, hau, hauv⟩, _, hother2, _, hidx2⟩ := updateAnalogParams_post g1 s.frames na oa hoa1 hcn g2 hg2
  have hPA1 : groupIdx g1 POINT ≠ groupIdx g1 ANALOG := by rw [hidx1, hidx1]; exact fun hc => hPA hc.symm
  have hfr2 : int0 g2 POINT FRAMES = .ok fr := by rw [int0_congr (hother2 POINT FRAMES hPA1)]; exact hfr
  have hu2 : int0 g2 POINT USED = .ok u := by rw [int0_congr (hother2 POINT USED hPA1)]; exact hu
  -- header
  unfold updateHeader at h2
  obtain ⟨hd, hhd, rfl⟩ := Outcome.lift_ok_iff.mp h2
  simp only at hhd
  obtain ⟨qU, hqU⟩ := int0_getParam hau
  obtain ⟨hp, hinv⟩ := updateHeaderH_post F g2 s.frames s.hdr hd hi hF hsub
    (by intro au' hau'; rw [hau] at hau'; cases hau'; rw [hauv]; exact hcn)
    (getParam_nonempty hqU) hhd
  exact ⟨rfl, hp, hinv, ⟨fr, hfr2, hfrv⟩, ⟨u, hu2, huv⟩, ⟨au, hau, hauv⟩⟩

end Ezc3d
