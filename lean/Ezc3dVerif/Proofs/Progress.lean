import Ezc3dVerif.Model.Read
/-
  Readers only move forward: the unread suffix never grows and a failed stream stays failed; a read of
  at least one byte from a live stream strictly decreases the measure `mu`.
-/
namespace Ezc3d

/-- `s'` is at or after `s` -/
def Fwd (s s' : InStream) : Prop := s'.rest.length ≤ s.rest.length ∧ (s.failed = true → s'.failed = true)

theorem Fwd.refl (s : InStream) : Fwd s s := ⟨Nat.le_refl _, id⟩
theorem Fwd.trans {a b c : InStream} (h1 : Fwd a b) (h2 : Fwd b c) : Fwd a c :=
  ⟨Nat.le_trans h2.1 h1.1, fun h => h2.2 (h1.2 h)⟩

/-- measure: twice the unread bytes, plus one while the stream is alive -/
def mu (s : InStream) : Nat := 2 * s.rest.length + (if s.failed then 0 else 1)

theorem mu_le_of_Fwd {s s' : InStream} (h : Fwd s s') : mu s' ≤ mu s := by
  unfold mu
  obtain ⟨h1, h2⟩ := h
  by_cases hf : s.failed = true
  · have := h2 hf; simp [hf, this]; omega
  · simp only [hf]
    split <;> simp <;> omega

theorem takePad_spec (n : Nat) (l x r : Bytes) (k : Nat) (h : takePad n l = (x, r, k)) :
    r.length ≤ l.length ∧ x.length = n ∧ (k = n → r.length + n = l.length) ∧ k ≤ n := by
  induction n generalizing l x r k with
  | zero => simp [takePad] at h; obtain ⟨rfl, rfl, rfl⟩ := h; simp
  | succ m ih =>
    cases l with
    | nil => simp [takePad] at h; obtain ⟨rfl, rfl, rfl⟩ := h; simp
    | cons a t =>
      simp only [takePad] at h
      cases ht : takePad m t with
      | mk x' rk =>
        obtain ⟨r', k'⟩ := rk
        rw [ht] at h
        simp only [Prod.mk.injEq] at h
        obtain ⟨rfl, rfl, rfl⟩ := h
        obtain ⟨h1, h2, h3, h4⟩ := ih t x' r' k' ht
        simp only [List.length_cons]
        refine ⟨by omega, by omega, ?_, by omega⟩
        intro hk; have := h3 (by omega); omega

theorem Fwd_read (s : InStream) (n : Nat) : Fwd s (s.read n).2 := by
  unfold InStream.read
  split
  · exact Fwd.refl s
  · rename_i hf
    cases ht : takePad n s.rest with
    | mk x rk =>
      obtain ⟨r, k⟩ := rk
      obtain ⟨h1, _, _, _⟩ := takePad_spec n s.rest x r k ht
      simp only
      split
      · exact ⟨h1, fun h => absurd h hf⟩
      · exact ⟨by simp, fun _ => rfl⟩

/-- a read of ≥ 1 byte from a live stream makes progress -/
theorem mu_read_lt (s : InStream) (n : Nat) (hn : 1 ≤ n) (hf : s.failed = false) : mu (s.read n).2 < mu s := by
  unfold InStream.read mu
  simp only [hf, Bool.false_eq_true, if_false]
  cases ht : takePad n s.rest with
  | mk x rk =>
    obtain ⟨r, k⟩ := rk
    obtain ⟨h1, _, h3, _⟩ := takePad_spec n s.rest x r k ht
    simp only
    split
    · rename_i hk
      have := h3 hk
      simp only [hf, Bool.false_eq_true, if_false]
      omega
    · simp

/-- reading from a failed stream yields zeros and leaves it as it is -/
theorem read_failed (s : InStream) (n : Nat) (hf : s.failed = true) : s.read n = (List.replicate n 0, s) := by
  unfold InStream.read; simp [hf]

theorem Fwd_readUint (s : InStream) (n : Nat) : Fwd s (s.readUint n).2 := Fwd_read s n
theorem Fwd_readInt (s : InStream) (n : Nat) : Fwd s (s.readInt n).2 := Fwd_read s n
theorem Fwd_readFloat (s : InStream) : Fwd s s.readFloat.2 := Fwd_read s 4
theorem Fwd_readString (s : InStream) (n : Nat) : Fwd s (s.readString n).2 := Fwd_read s n

theorem Fwd_readMany {α} (f : InStream → α × InStream) (hf : ∀ s, Fwd s (f s).2) (n : Nat) (s : InStream) :
    Fwd s (readMany f n s).2 := by
  induction n generalizing s with
  | zero => exact Fwd.refl s
  | succ m ih =>
    simp only [readMany]
    exact Fwd.trans (hf s) (ih (f s).2)

/-! ### composable steps -/

def SR.Mono {α} (m : SR α) : Prop := ∀ s a s', m s = .ok (a, s') → Fwd s s'
/-- a step never reports anything but a thrown exception as its error -/
def SR.Throws {α} (m : SR α) : Prop := ∀ s e, m s = .error e → ∃ x, e = .inl x

theorem SR.mono_pure {α} (a : α) : (SR.pure a).Mono := by
  intro s a' s' h; cases h; exact Fwd.refl s
theorem SR.mono_get : SR.get.Mono := by
  intro s a' s' h; cases h; exact Fwd.refl s
theorem SR.mono_throw {α} (e : Exc) : (SR.throw e : SR α).Mono := by
  intro s a s' h; cases h
theorem SR.mono_lift {α} (r : InStream → α × InStream) (h : ∀ s, Fwd s (r s).2) : (SR.lift r).Mono := by
  intro s a s' hh
  simp only [SR.lift] at hh
  have : (r s).2 = s' := by injection hh with hh; rw [hh]
  rw [← this]; exact h s
theorem SR.mono_bind {α β} (m : SR α) (f : α → SR β) (hm : m.Mono) (hf : ∀ a, (f a).Mono) : (m.bind f).Mono := by
  intro s b s'' h
  unfold SR.bind at h
  cases hms : m s with
  | error e => rw [hms] at h; cases h
  | ok r =>
    obtain ⟨a, s'⟩ := r
    rw [hms] at h
    exact Fwd.trans (hm s a s' hms) (hf a s' b s'' h)
theorem SR.mono_ite {α} (c : Prop) [Decidable c] (a b : SR α) (ha : a.Mono) (hb : b.Mono) : (if c then a else b).Mono := by
  split <;> assumption

theorem SR.throws_pure {α} (a : α) : (SR.pure a).Throws := by intro s e h; cases h
theorem SR.throws_get : SR.get.Throws := by intro s e h; cases h
theorem SR.throws_throw {α} (x : Exc) : (SR.throw x : SR α).Throws := by
  intro s e h; simp only [SR.throw, rthrow] at h; cases h; exact ⟨x, rfl⟩
theorem SR.throws_lift {α} (r : InStream → α × InStream) : (SR.lift r).Throws := by intro s e h; cases h
theorem SR.throws_bind {α β} (m : SR α) (f : α → SR β) (hm : m.Throws) (hf : ∀ a, (f a).Throws) : (m.bind f).Throws := by
  intro s e h
  unfold SR.bind at h
  cases hms : m s with
  | error e' => rw [hms] at h; injection h with h; subst h; exact hm s e' hms
  | ok r => obtain ⟨a, s'⟩ := r; rw [hms] at h; exact hf a s' e h
theorem SR.throws_ite {α} (c : Prop) [Decidable c] (a b : SR α) (ha : a.Throws) (hb : b.Throws) : (if c then a else b).Throws := by
  split <;> assumption

theorem mono_readValues (ty : PType) (dims : List Nat) (p0 : Param) : (readValues ty dims p0).Mono := by
  unfold readValues
  cases ty with
  | char => apply SR.mono_lift; intro s; simp only; split <;> exact Fwd_read s _
  | byte => apply SR.mono_lift; intro s; exact Fwd_readMany _ (fun s => Fwd_readInt s 1) _ s
  | int => apply SR.mono_lift; intro s; exact Fwd_readMany _ (fun s => Fwd_readInt s 2) _ s
  | float => apply SR.mono_lift; intro s; exact Fwd_readMany _ Fwd_readFloat _ s
  | none => exact SR.mono_pure _

theorem throws_readValues (ty : PType) (dims : List Nat) (p0 : Param) : (readValues ty dims p0).Throws := by
  unfold readValues
  cases ty <;> first | exact SR.throws_lift _ | exact SR.throws_pure _

theorem mono_Param_read (n : Int) : (Param.read n).Mono := by
  unfold Param.read
  apply SR.mono_bind _ _ (SR.mono_lift _ (fun s => Fwd_readString s _)); intro name
  apply SR.mono_bind _ _ (SR.mono_lift _ (fun s => Fwd_readUint s _)); intro off
  apply SR.mono_bind _ _ SR.mono_get; intro s2
  apply SR.mono_bind _ _ (SR.mono_lift _ (fun s => Fwd_readInt s _)); intro len
  split
  · exact SR.mono_throw _
  · apply SR.mono_bind _ _ (SR.mono_lift _ (fun s => Fwd_readUint s _)); intro nDim
    apply SR.mono_bind
    · exact SR.mono_ite _ _ _ (SR.mono_pure _) (SR.mono_lift _ (fun s => Fwd_readMany _ (fun s => Fwd_readUint s 1) _ s))
    intro dims
    apply SR.mono_bind _ _ SR.mono_get; intro s5
    dsimp only
    split
    · exact SR.mono_throw _
    · apply SR.mono_bind
      · exact SR.mono_ite _ _ _ (SR.mono_pure _) (mono_readValues _ _ _)
      intro p1
      apply SR.mono_bind _ _ (SR.mono_lift _ (fun s => Fwd_readUint s _)); intro dl
      apply SR.mono_bind
      · exact SR.mono_ite _ _ _ (SR.mono_lift _ (fun s => Fwd_readString s _)) (SR.mono_pure _)
      intro p2
      exact SR.mono_pure _

theorem throws_Param_read (n : Int) : (Param.read n).Throws := by
  unfold Param.read
  apply SR.throws_bind _ _ (SR.throws_lift _); intro name
  apply SR.throws_bind _ _ (SR.throws_lift _); intro off
  apply SR.throws_bind _ _ SR.throws_get; intro s2
  apply SR.throws_bind _ _ (SR.throws_lift _); intro len
  split
  · exact SR.throws_throw _
  · apply SR.throws_bind _ _ (SR.throws_lift _); intro nDim
    apply SR.throws_bind
    · exact SR.throws_ite _ _ _ (SR.throws_pure _) (SR.throws_lift _)
    intro dims
    apply SR.throws_bind _ _ SR.throws_get; intro s5
    dsimp only
    split
    · exact SR.throws_throw _
    · apply SR.throws_bind
      · exact SR.throws_ite _ _ _ (SR.throws_pure _) (throws_readValues _ _ _)
      intro p1
      apply SR.throws_bind _ _ (SR.throws_lift _); intro dl
      apply SR.throws_bind
      · exact SR.throws_ite _ _ _ (SR.throws_lift _) (SR.throws_pure _)
      intro p2
      exact SR.throws_pure _

theorem mono_Group_read (g : Group) (n : Int) : (g.read n).Mono := by
  unfold Group.read
  apply SR.mono_bind _ _ (SR.mono_lift _ (fun s => Fwd_readString s _)); intro name
  apply SR.mono_bind _ _ (SR.mono_lift _ (fun s => Fwd_readUint s _)); intro off
  apply SR.mono_bind _ _ SR.mono_get; intro s2
  apply SR.mono_bind _ _ (SR.mono_lift _ (fun s => Fwd_readUint s _)); intro dl
  dsimp only
  apply SR.mono_bind
  · exact SR.mono_ite _ _ _ (SR.mono_lift _ (fun s => Fwd_readString s _)) (SR.mono_pure _)
  intro g2
  exact SR.mono_pure _

theorem throws_Group_read (g : Group) (n : Int) : (g.read n).Throws := by
  unfold Group.read
  apply SR.throws_bind _ _ (SR.throws_lift _); intro name
  apply SR.throws_bind _ _ (SR.throws_lift _); intro off
  apply SR.throws_bind _ _ SR.throws_get; intro s2
  apply SR.throws_bind _ _ (SR.throws_lift _); intro dl
  dsimp only
  apply SR.throws_bind
  · exact SR.throws_ite _ _ _ (SR.throws_lift _) (SR.throws_pure _)
  intro g2
  exact SR.throws_pure _

end Ezc3d
