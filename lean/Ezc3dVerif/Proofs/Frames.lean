import Ezc3dVerif.Proofs.Outcome
/- The updaters never touch the stored frames (neither on success nor in the state a throw leaves). -/
namespace Ezc3d

theorem updateHeader_ok {F : FloatOps} {s s' : C3D} (h : updateHeader F s = .ok s') :
    ∃ hd, s' = { s with hdr := hd } := by
  unfold updateHeader at h
  obtain ⟨a, _, rfl⟩ := Outcome.lift_ok_iff.mp h
  exact ⟨a, rfl⟩

theorem updateHeader_throw {F : FloatOps} {s l : C3D} {e : Exc} (h : updateHeader F s = .throw e l) :
    ∃ hd, l = { s with hdr := hd } := by
  unfold updateHeader at h
  obtain ⟨a, _, rfl⟩ := Outcome.lift_throw_iff.mp h
  exact ⟨a, rfl⟩

theorem updateParameters_ok {F : FloatOps} {s s' : C3D} {np na : List Bytes}
    (h : updateParameters F s np na = .ok s') :
    ∃ g hd, s' = { s with groups := g, hdr := hd } := by
  unfold updateParameters at h
  split at h; · cases h
  split at h; · cases h
  obtain ⟨s1, h1, h2⟩ := Outcome.bind_ok_iff.mp h
  obtain ⟨g, _, rfl⟩ := Outcome.lift_ok_iff.mp h1
  obtain ⟨hd, rfl⟩ := updateHeader_ok h2
  exact ⟨g, hd, rfl⟩

theorem updateParameters_throw {F : FloatOps} {s l : C3D} {np na : List Bytes} {e : Exc}
    (h : updateParameters F s np na = .throw e l) :
    ∃ g hd, l = { s with groups := g, hdr := hd } := by
  unfold updateParameters at h
  split at h; · cases h; exact ⟨_, _, rfl⟩
  split at h; · cases h; exact ⟨_, _, rfl⟩
  rcases Outcome.bind_throw_iff.mp h with h1 | ⟨s1, h1, h2⟩
  · obtain ⟨g, _, rfl⟩ := Outcome.lift_throw_iff.mp h1
    exact ⟨g, _, rfl⟩
  · obtain ⟨g, _, rfl⟩ := Outcome.lift_ok_iff.mp h1
    obtain ⟨hd, rfl⟩ := updateHeader_throw h2
    exact ⟨g, hd, rfl⟩

theorem updateParameters_frames {F : FloatOps} {s s' : C3D} {np na : List Bytes}
    (h : updateParameters F s np na = .ok s') : s'.frames = s.frames := by
  obtain ⟨g, hd, rfl⟩ := updateParameters_ok h; rfl

theorem updateParameters_frames_throw {F : FloatOps} {s l : C3D} {np na : List Bytes} {e : Exc}
    (h : updateParameters F s np na = .throw e l) : l.frames = s.frames := by
  obtain ⟨g, hd, rfl⟩ := updateParameters_throw h; rfl


/-- shape of a successful `c3d::frame`: every guard passed, `Data::frame` produced the new frame list,
    and `updateParameters` ran on it -/
theorem frame_ok_inv {F : FloatOps} {s s' : C3D} {f : Frame} {idx : Nat}
    (h : s.frame F f idx = .ok s') :
    ∃ fr, dataFrame s.frames f idx = .ok fr ∧ updateParameters F { s with frames := fr } = .ok s' := by
  unfold C3D.frame at h
  repeat (first
    | (rw [Res.andThen_ok_iff] at h; obtain ⟨_, _, h⟩ := h)
    | (split at h <;> first | (cases h; done) | skip))
  exact ⟨_, ‹dataFrame s.frames f idx = .ok _›, h⟩

end Ezc3d
