import Ezc3dVerif.Model.Api
/- Inversion lemmas for the Res / Outcome plumbing. -/
namespace Ezc3d

theorem Outcome.lift_ok_iff {o : Outcome α} {f : α → σ} {b : σ} :
    o.lift f = .ok b ↔ ∃ a, o = .ok a ∧ f a = b := by
  cases o <;> simp [Outcome.lift]

theorem Outcome.lift_throw_iff {o : Outcome α} {f : α → σ} {e : Exc} {b : σ} :
    o.lift f = .throw e b ↔ ∃ a, o = .throw e a ∧ f a = b := by
  cases o <;> simp [Outcome.lift]
  constructor
  · rintro ⟨h1, h2⟩; exact ⟨_, ⟨h1, rfl⟩, h2⟩
  · rintro ⟨a, ⟨h1, h2⟩, h3⟩; subst h2; exact ⟨h1, h3⟩

theorem Outcome.bind_ok_iff {o : Outcome σ} {k : σ → Outcome σ} {b : σ} :
    o.bind k = .ok b ↔ ∃ a, o = .ok a ∧ k a = .ok b := by
  cases o <;> simp [Outcome.bind]

theorem Outcome.bind_throw_iff {o : Outcome σ} {k : σ → Outcome σ} {e : Exc} {l : σ} :
    o.bind k = .throw e l ↔ o = .throw e l ∨ ∃ a, o = .ok a ∧ k a = .throw e l := by
  cases o <;> simp [Outcome.bind]

theorem Res.andThen_ok_iff {r : Res α} {l : σ} {k : α → Outcome σ} {b : σ} :
    r.andThen l k = .ok b ↔ ∃ a, r = .ok a ∧ k a = .ok b := by
  cases r <;> simp [Res.andThen]

theorem Res.andThen_throw_iff {r : Res α} {l : σ} {k : α → Outcome σ} {e : Exc} {b : σ} :
    r.andThen l k = .throw e b ↔ (r = .throw e ∧ l = b) ∨ ∃ a, r = .ok a ∧ k a = .throw e b := by
  cases r <;> simp [Res.andThen]

theorem Res.bind_ok_iff {r : Res α} {k : α → Res β} {b : β} :
    r.bind k = .ok b ↔ ∃ a, r = .ok a ∧ k a = .ok b := by
  cases r <;> simp [Res.bind]

end Ezc3d
