import Ezc3dVerif.Proofs.SpecHeader
import Ezc3dVerif.Proofs.SpecFrames
import Ezc3dVerif.Proofs.SpecRecords
import Ezc3dVerif.Proofs.Layout
/-
  The independent decoder (Spec/Format.lean) on a file of ANY declared layout: leading zero bytes, the parameter section in
  any block, records in any order. Same constructive description of the file as `load_layout` (C02), so that both decoders
  are proved against the same bytes.
-/
namespace Ezc3d
open C12 N Spec

/-- the header as an independent reader of the format sees it -/
def specHeaderP (h : Header) (pa ds : Nat) : SHeader :=
  { paramBlock := pa, nPoints := h.nbPoints, analogPerFrame := h.nbAnalogsMeas, firstFrame := u64 (h.firstFrame + 1),
    lastFrame := u64 (h.lastFrame + 1), maxGap := h.maxGap, scale := scaleBits h.scale, dataStart := ds,
    subframes := h.nbAnalogByFrame, rate := h.rate, nEvents := h.nbEvents, evTimes := h.evTimes,
    evDisplay := h.evDisplay, evLabels := h.evLabels }

/-- THE HEADER RECORD behind `Z` zero bytes, announcing parameter block `pa`, as the independent decoder reads it -/
theorem decodeHeader_layout (h : Header) (Z pa ds : Nat) (rest : Bytes) (hk : HdrOK h) (hds : ds < 65536) (hpa : pa < 256) :
    decodeHeader (List.replicate Z 0 ++ h.bytesP pa ds rest) Z = some (specHeaderP h pa ds) := by
  generalize hb : List.replicate Z (0 : UInt8) ++ h.bytesP pa ds rest = b
  unfold Header.bytesP at hb
  let t21 := List.replicate 44 0 ++ rest
  let t20 := (h.evLabels.map label4).flatten ++ t21
  let t19 := List.replicate 2 0 ++ t20
  let t18 := (h.evDisplay.map le16N).flatten ++ t19
  let t17 := (h.evTimes.map f32le).flatten ++ t18
  let t16 := List.replicate 2 0 ++ t17
  let t15 := le16N h.nbEvents ++ t16
  let t14 := le16N h.fourCharPresent ++ t15
  let t13 := le16N h.firstBlockKeyLabel ++ t14
  let t12 := le16N h.keyLabelPresent ++ t13
  let t11 := List.replicate 270 0 ++ t12
  let t10 := f32le h.rate ++ t11
  let t9 := le16N h.nbAnalogByFrame ++ t10
  let t8 := le16N ds ++ t9
  let t7 := le32 h.scale ++ t8
  let t6 := le16N h.maxGap ++ t7
  let t5 := le16N (u64 (h.lastFrame + 1)) ++ t6
  let t4 := le16N (u64 (h.firstFrame + 1)) ++ t5
  let t3 := le16N h.nbAnalogsMeas ++ t4
  let t2 := le16N h.nbPoints ++ t3
  have d0 : b.drop (Z + 0) = low8N pa :: (0x50 :: t2) := by
    rw [← hb, Nat.add_zero]
    exact List.drop_left' (by simp)
  have d1 : b.drop (Z + 1) = 0x50 :: t2 := by have := drop_step b [low8N pa] (0x50 :: t2) (Z + 0) 1 d0 rfl; simpa using this
  have d2 : b.drop (Z + 2) = le16N h.nbPoints ++ t3 := by have := drop_step b [0x50] t2 (Z + 1) 1 d1 rfl; simpa [Nat.add_assoc] using this
  have d4 : b.drop (Z + 4) = le16N h.nbAnalogsMeas ++ t4 := by
    have := drop_step b _ t3 (Z + 2) 2 d2 rfl
    rwa [show Z + 2 + 2 = Z + 4 from by omega] at this
  have d6 : b.drop (Z + 6) = le16N (u64 (h.firstFrame + 1)) ++ t5 := by
    have := drop_step b _ t4 (Z + 4) 2 d4 rfl
    rwa [show Z + 4 + 2 = Z + 6 from by omega] at this
  have d8 : b.drop (Z + 8) = le16N (u64 (h.lastFrame + 1)) ++ t6 := by
    have := drop_step b _ t5 (Z + 6) 2 d6 rfl
    rwa [show Z + 6 + 2 = Z + 8 from by omega] at this
  have d10 : b.drop (Z + 10) = le16N h.maxGap ++ t7 := by
    have := drop_step b _ t6 (Z + 8) 2 d8 rfl
    rwa [show Z + 8 + 2 = Z + 10 from by omega] at this
  have d12 : b.drop (Z + 12) = le32 h.scale ++ t8 := by
    have := drop_step b _ t7 (Z + 10) 2 d10 rfl
    rwa [show Z + 10 + 2 = Z + 12 from by omega] at this
  have d16 : b.drop (Z + 16) = le16N ds ++ t9 := by
    have := drop_step b _ t8 (Z + 12) 4 d12 rfl
    rwa [show Z + 12 + 4 = Z + 16 from by omega] at this
  have d18 : b.drop (Z + 18) = le16N h.nbAnalogByFrame ++ t10 := by
    have := drop_step b _ t9 (Z + 16) 2 d16 rfl
    rwa [show Z + 16 + 2 = Z + 18 from by omega] at this
  have d20 : b.drop (Z + 20) = f32le h.rate ++ t11 := by
    have := drop_step b _ t10 (Z + 18) 2 d18 rfl
    rwa [show Z + 18 + 2 = Z + 20 from by omega] at this
  have d24 : b.drop (Z + 24) = List.replicate 270 0 ++ t12 := by
    have := drop_step b _ t11 (Z + 20) 4 d20 rfl
    rwa [show Z + 20 + 4 = Z + 24 from by omega] at this
  have d294 : b.drop (Z + 294) = le16N h.keyLabelPresent ++ t13 := by
    have := drop_step b _ t12 (Z + 24) 270 d24 (List.length_replicate ..)
    rwa [show Z + 24 + 270 = Z + 294 from by omega] at this
  have d296 : b.drop (Z + 296) = le16N h.firstBlockKeyLabel ++ t14 := by
    have := drop_step b _ t13 (Z + 294) 2 d294 rfl
    rwa [show Z + 294 + 2 = Z + 296 from by omega] at this
  have d298 : b.drop (Z + 298) = le16N h.fourCharPresent ++ t15 := by
    have := drop_step b _ t14 (Z + 296) 2 d296 rfl
    rwa [show Z + 296 + 2 = Z + 298 from by omega] at this
  have d300 : b.drop (Z + 300) = le16N h.nbEvents ++ t16 := by
    have := drop_step b _ t15 (Z + 298) 2 d298 rfl
    rwa [show Z + 298 + 2 = Z + 300 from by omega] at this
  have d302 : b.drop (Z + 302) = List.replicate 2 0 ++ t17 := by
    have := drop_step b _ t16 (Z + 300) 2 d300 rfl
    rwa [show Z + 300 + 2 = Z + 302 from by omega] at this
  have d304 : b.drop (Z + 304) = (h.evTimes.map f32le).flatten ++ t18 := by
    have := drop_step b _ t17 (Z + 302) 2 d302 (List.length_replicate ..)
    rwa [show Z + 302 + 2 = Z + 304 from by omega] at this
  have d376 : b.drop (Z + 376) = (h.evDisplay.map le16N).flatten ++ t19 := by
    have := drop_step b _ t18 (Z + 304) 72 d304 (by rw [C03.flatten_map_len f32le 4 (fun _ => rfl), hk.times])
    rwa [show Z + 304 + 72 = Z + 376 from by omega] at this
  have d394 : b.drop (Z + 394) = List.replicate 2 0 ++ t20 := by
    have := drop_step b _ t19 (Z + 376) 18 d376 (by rw [C03.flatten_map_len le16N 2 (fun _ => rfl), hk.displen])
    rwa [show Z + 376 + 18 = Z + 394 from by omega] at this
  have d396 : b.drop (Z + 396) = (h.evLabels.map label4).flatten ++ t21 := by
    have := drop_step b _ t20 (Z + 394) 2 d394 (List.length_replicate ..)
    rwa [show Z + 394 + 2 = Z + 396 from by omega] at this
  have hne18 : ∀ {α} (l : List α), l.length = 18 → l ≠ [] := by intro α l h0 h1; rw [h1] at h0; simp at h0
  have hne9 : ∀ {α} (l : List α), l.length = 9 → l ≠ [] := by intro α l h0 h1; rw [h1] at h0; simp at h0
  unfold decodeHeader
  rw [← Nat.add_zero Z] at d0 ⊢
  rw [byteAt_of_drop b _ _ (Z + 0) d0, byteAt_of_drop b _ _ (Z + 1) d1, u16At_of_drop b _ _ (Z + 2) hk.np d2, u16At_of_drop b _ _ (Z + 4) hk.nam d4,
    u16At_of_drop b _ _ (Z + 6) (by have := hk.ff; unfold u64 two64; omega) d6, u16At_of_drop b _ _ (Z + 8) hk.lf d8,
    u16At_of_drop b _ _ (Z + 10) hk.gap d10, u32At_of_drop_le32 b _ _ (Z + 12) d12, u16At_of_drop b _ _ (Z + 16) hds d16,
    u16At_of_drop b _ _ (Z + 18) hk.abf d18, u32At_of_drop_f32 b _ _ (Z + 20) d20, u16At_of_drop b _ _ (Z + 300) hk.nev d300,
    listAt_u32_of_drop b _ _ (Z + 304) 18 hk.times (hne18 _ hk.times) d304,
    listAt_u16_of_drop b _ _ (Z + 376) 9 hk.displen (hne9 _ hk.displen) hk.disp d376]
  have hlab := listAt_labels_of_drop b _ _ (Z + 396) 18 hk.lablen (hne18 _ hk.lablen) hk.labels d396
  cases hq : listAt (fun b i => slice b i 4) b (Z + 396) 4 18 with
  | none => rw [hq] at hlab; simp at hlab
  | some ls =>
    rw [hq] at hlab
    simp only [Option.map_some, Option.some.injEq] at hlab
    simp only
    have h50 : ((0x50 : UInt8)).toNat = 0x50 := by decide
    rw [h50]
    simp only [ne_eq, not_true_eq_false, if_false, hlab]
    rw [low8N_toNat pa hpa]
    rfl



/-! ### leading zeros -/

theorem countZeros_replicate (Z : Nat) (x : UInt8) (rest : Bytes) (hx : x ≠ 0) :
    countZeros (List.replicate Z 0 ++ x :: rest) = Z := by
  induction Z with
  | zero => simpa using countZeros_cons_ne x rest hx
  | succ k ih =>
    rw [List.replicate_succ, List.cons_append]
    have : countZeros ((0 : UInt8) :: (List.replicate k 0 ++ x :: rest)) = countZeros (List.replicate k 0 ++ x :: rest) + 1 := by
      rw [countZeros]
    rw [this, ih]

/-! ### records in any order -/

def specGroupsR : List Rec → List SGroup
  | [] => []
  | .group i g :: rest => specGroup i g :: specGroupsR rest
  | .param _ _ :: rest => specGroupsR rest

def specParamsR : List Rec → List SParam
  | [] => []
  | .group _ _ :: rest => specParamsR rest
  | .param i p :: rest => specParam i p :: specParamsR rest

/-- THE RECORD CHAIN IN ANY ORDER, as the independent decoder walks it: every record's offset leads exactly to the next
    record; groups and parameters are collected in file order with the group id each record carries -/
theorem decodeRecords_recs (rs : List Rec) : ∀ (fuel : Nat) (b pre post : Bytes) (acc : Records),
    (∀ r ∈ rs, r.Valid) → b = pre ++ (recsBytes rs ++ post) →
    decodeRecords b (fuel + rs.length) pre.length acc
      = decodeRecords b fuel (pre.length + (recsBytes rs).length)
          { acc with groups := acc.groups ++ specGroupsR rs, params := acc.params ++ specParamsR rs } := by
  induction rs with
  | nil => intro fuel b pre post acc _ _; simp [recsBytes, specGroupsR, specParamsR]
  | cons r t ih =>
    intro fuel b pre post acc hv hb
    have hvr := hv r (by simp)
    have e : fuel + (r :: t).length = (fuel + t.length) + 1 := by simp; omega
    have hb1 : b = pre ++ (r.bytes ++ (recsBytes t ++ post)) := by
      rw [hb]; simp [recsBytes]
    have hb2 : b = (pre ++ r.bytes) ++ (recsBytes t ++ post) := by rw [hb1]; simp
    have hl : pre.length + r.bytes.length = (pre ++ r.bytes).length := by simp
    have hlen : (recsBytes (r :: t)).length = r.bytes.length + (recsBytes t).length := by simp [recsBytes]
    rw [e, hlen, ← Nat.add_assoc, hl]
    cases r with
    | group i g =>
      obtain ⟨hi, hg⟩ := hvr
      have hrl : (Rec.group i g).bytes.length = 2 + g.recLen := by simp [Rec.bytes, Group.recTail_length]; omega
      conv => lhs; rw [hb1]
      simp only [Rec.bytes] at hb1 ⊢
      rw [decodeRecords_group _ pre _ i g acc hi hg, ← hb1]
      have hl' : pre.length + (2 + g.recLen) = (pre ++ (low8 g.nameLen :: low8 (-((i : Int) + 1)) :: g.recTail [])).length := by
        have := hrl; simp only [Rec.bytes] at this; simp only [List.length_append]; omega
      rw [hl', ih fuel b _ post _ (fun x hx => hv x (by simp [hx])) (by simpa [Rec.bytes] using hb2)]
      simp [specGroupsR, specParamsR]
    | param i p =>
      obtain ⟨hi, hp⟩ := hvr
      conv => lhs; rw [hb1]
      simp only [Rec.bytes] at hb1 ⊢
      rw [decodeRecords_param _ pre _ i p acc hi hp, ← hb1]
      have hl' : pre.length + (p.recBytes ((i : Int) + 1)).length = (pre ++ p.recBytes ((i : Int) + 1)).length := by simp
      rw [hl', ih fuel b _ post _ (fun x hx => hv x (by simp [hx])) (by simpa [Rec.bytes] using hb2)]
      simp [specGroupsR, specParamsR]


/-! ### the whole file -/

theorem listAt4' (H : Bytes) (a b c d : UInt8) (rest : Bytes) :
    Spec.listAt Spec.byteAt (H ++ (a :: b :: c :: d :: rest)) H.length 1 4 = some [a.toNat, b.toNat, c.toNat, d.toNat] := by
  simp only [Spec.listAt]
  have a0 := byteAt_shift H (a :: b :: c :: d :: rest)
  have h0 := a0 0
  have h1 := a0 1
  have h2 := a0 2
  have h3 := a0 3
  rw [Nat.add_zero] at h0
  rw [h0, h1, show H.length + 1 + 1 = H.length + 2 by omega, h2, show H.length + 2 + 1 = H.length + 3 by omega, h3]
  rfl

/-- what an independent reader of the format must find in a file of the declared layouts -/
def layoutContent (h : Header) (Z pa ds nb : Nat) (p0 p1 : UInt8) (rs : List Rec) (frames : List Frame) : Spec.Content :=
  { leadingZeros := Z, header := specHeaderP h pa ds, prologue := [p0.toNat, p1.toNat, (low8N nb).toNat, 84],
    groups := specGroupsR rs, params := specParamsR rs, terminated := true,
    paramEnd := Z + 512 * (pa - 1) + 4 + (recsBytes rs).length + 1, frames := frames.map specFrame, dataBytesLeft := 0 }

/-- THE INDEPENDENT DECODER ON A FILE OF ANY DECLARED LAYOUT: `Z` zero bytes, the header announcing parameter block `pa` and
    data block `ds = pa + nb`, any gap, a parameter section of `nb` blocks with any two leading bytes, valid records in ANY
    order, the terminator, padding, then the frames. `Spec.decode` finds exactly the header, the records in file order and the
    frames the file was built from, and nothing is left after the last frame. -/
theorem spec_decode_layout_file (h : Header) (Z pa ds nb : Nat) (p0 p1 : UInt8) (gap pad : Bytes) (rs : List Rec) (frames : List Frame)
    (hk : HdrOK h) (hds : ds < 65536) (hpa1 : 2 ≤ pa) (hpa2 : pa < 256) (hdsv : ds = pa + nb)
    (hgap : gap.length = 512 * (pa - 2)) (hv : ∀ r ∈ rs, r.Valid)
    (hsec : 4 + (recsBytes rs).length + 1 + pad.length = 512 * nb)
    (hne : ¬ (h.nbPoints = 0 ∧ h.nbAnalogs = 0)) (hnf : h.nbFrames = frames.length) (hnfs : frames.length ≤ 65536)
    (hshape : ∀ f ∈ frames, f.hasShape h.nbPoints h.nbAnalogByFrame h.nbAnalogs) :
    Spec.decode (List.replicate Z 0 ++ h.bytesP pa ds [] ++ gap ++ (p0 :: p1 :: low8N nb :: 84 :: (recsBytes rs ++ 0 :: pad)) ++ writeData frames) true
      = some (layoutContent h Z pa ds nb p0 p1 rs frames) := by
  have hhb : (h.bytesP pa ds []).length = 512 := by rw [Header.bytesP_length h pa ds [] hk]; simp
  generalize hpre : (List.replicate Z (0 : UInt8) ++ h.bytesP pa ds [] ++ gap) = pre
  have hprel : pre.length = Z + 512 * (pa - 1) := by
    rw [← hpre]; simp only [List.length_append, List.length_replicate, hhb, hgap]; omega
  generalize hfile : pre ++ (p0 :: p1 :: low8N nb :: 84 :: (recsBytes rs ++ 0 :: pad)) ++ writeData frames = b
  -- leading zeros and header
  have hbz : b = List.replicate Z 0 ++ h.bytesP pa ds (gap ++ (p0 :: p1 :: low8N nb :: 84 :: (recsBytes rs ++ 0 :: pad)) ++ writeData frames) := by
    rw [← hfile, ← hpre, Header.bytesP_split h pa ds (gap ++ (p0 :: p1 :: low8N nb :: 84 :: (recsBytes rs ++ 0 :: pad)) ++ writeData frames)]
    simp only [List.append_assoc]
  have hz : Spec.countZeros b = Z := by
    rw [hbz]; unfold Header.bytesP
    apply countZeros_replicate
    intro hc
    have := congrArg UInt8.toNat hc
    rw [low8N_toNat pa hpa2] at this
    simp at this; omega
  have hdh : decodeHeader b Z = some (specHeaderP h pa ds) := by
    rw [hbz]; exact decodeHeader_layout h Z pa ds _ hk hds hpa2
  -- prologue
  have hpro : Spec.listAt Spec.byteAt b pre.length 1 4 = some [p0.toNat, p1.toNat, (low8N nb).toNat, 84] := by
    have e : b = pre ++ (p0 :: p1 :: low8N nb :: 84 :: (recsBytes rs ++ 0 :: pad ++ writeData frames)) := by
      rw [← hfile]; simp
    rw [e]; exact listAt4' pre p0 p1 (low8N nb) 84 _
  -- records
  have hrec : decodeRecords b (b.length + 1) (pre.length + 4) {}
      = some { groups := specGroupsR rs, params := specParamsR rs, terminated := true,
               endPos := pre.length + 4 + (recsBytes rs).length + 1 } := by
    have e : b = (pre ++ [p0, p1, low8N nb, 84]) ++ (recsBytes rs ++ (0 :: (pad ++ writeData frames))) := by
      rw [← hfile]; simp
    have hpl : pre.length + 4 = (pre ++ [p0, p1, low8N nb, 84]).length := by simp
    have hcount := recs_count_le rs
    have hblen : (recsBytes rs).length + 1 ≤ b.length := by rw [e]; simp only [List.length_append, List.length_cons]; omega
    obtain ⟨f0, hf0⟩ := Nat.exists_eq_add_of_le (show rs.length + 1 ≤ b.length by omega)
    have hfuel : b.length + 1 = ((f0 + 1) + 1) + rs.length := by omega
    rw [hfuel, hpl, decodeRecords_recs rs _ b _ _ {} hv e]
    have e2 : b = ((pre ++ [p0, p1, low8N nb, 84]) ++ recsBytes rs) ++ (0 :: (pad ++ writeData frames)) := by rw [e]; simp
    have hl2 : (pre ++ [p0, p1, low8N nb, 84]).length + (recsBytes rs).length = ((pre ++ [p0, p1, low8N nb, 84]) ++ recsBytes rs).length := by
      simp only [List.length_append]
    rw [hl2, decodeRecords_end _ b _ _ _ e2]
    simp only [List.length_append, List.length_cons, List.length_nil, List.nil_append]
  -- data
  have hdrop : b.drop (pre.length + 512 * nb) = writeData frames := by
    have : pre.length + 512 * nb = (pre ++ (p0 :: p1 :: low8N nb :: 84 :: (recsBytes rs ++ 0 :: pad))).length := by
      simp only [List.length_append, List.length_cons]; omega
    rw [this, ← hfile, List.drop_left]
  have hfr := decodeFrames_written h.nbPoints h.nbAnalogByFrame h.nbAnalogs frames [] hshape
  rw [List.append_nil] at hfr
  have hN := spec_nframes h frames.length hk hne hnf hnfs
  unfold Spec.decode
  simp only [hz, hdh]
  have e2 : (specHeaderP h pa ds).paramBlock = pa := rfl
  have e3 : (specHeaderP h pa ds).dataStart = ds := rfl
  have e4 : (specHeaderP h pa ds).firstFrame = u64 (h.firstFrame + 1) := rfl
  have e5 : (specHeaderP h pa ds).lastFrame = u64 (h.lastFrame + 1) := rfl
  have e6 : (specHeaderP h pa ds).subframes = h.nbAnalogByFrame := rfl
  have e7 : (specHeaderP h pa ds).analogPerFrame = h.nbAnalogsMeas := rfl
  have e8 : (specHeaderP h pa ds).nPoints = h.nbPoints := rfl
  rw [e2, e3, e4, e5, e6, e7, e8]
  have hp512 : Z + 512 * (pa - 1) = pre.length := hprel.symm
  have hd512 : Z + 512 * (ds - 1) = pre.length + 512 * nb := by rw [hprel, hdsv]; omega
  rw [hp512, hd512, hpro]
  simp only [if_neg (show ¬ (pa = 0) by omega)]
  rw [hrec]
  simp only [Bool.or_true, not_true_eq_false, if_false, if_neg (show ¬ (ds = 0) by omega)]
  rw [hN, hdrop]
  have hnch : (if h.nbAnalogByFrame = 0 then 0 else h.nbAnalogsMeas / h.nbAnalogByFrame) = h.nbAnalogs := rfl
  rw [hnch, hfr]
  simp only [layoutContent, hprel]
  rfl

end Ezc3d
