import Ezc3dVerif.Proofs.PatchRT
/-
  The header record reads back.
-/
namespace Ezc3d
open C12 N

/-! ### the codec on the header's wider fields -/

theorem hex2uintAux_zeros (n i acc : Nat) : hex2uintAux (List.replicate n 0) i acc = acc := by
  induction n generalizing i acc with
  | zero => rfl
  | succ k ih =>
    simp only [List.replicate_succ, hex2uintAux]
    rw [ih]
    simp [wrapU32]

theorem hex2int_zeros (n : Nat) : hex2int (List.replicate n 0) = 0 := by
  unfold hex2int hex2uint
  rw [hex2uintAux_zeros]
  simp only [Nat.not_lt_zero, if_false, gt_iff_lt]
  decide

theorem or_shift16 (x y : Nat) (hx : x < 65536) : x ||| y * 65536 = x + y * 65536 := by
  have hx16 : x < 2 ^ 16 := by
    have : (2:Nat) ^ 16 = 65536 := by decide
    rw [this]; exact hx
  have h := Nat.shiftLeft_add_eq_or_of_lt hx16 y
  have e : y <<< 16 = y * 65536 := by rw [Nat.shiftLeft_eq]
  rw [e] at h
  rw [Nat.or_comm, ← h]; exact Nat.add_comm _ _

theorem or_shift24 (x y : Nat) (hx : x < 16777216) : x ||| y * 16777216 = x + y * 16777216 := by
  have hx24 : x < 2 ^ 24 := by
    have : (2:Nat) ^ 24 = 16777216 := by decide
    rw [this]; exact hx
  have h := Nat.shiftLeft_add_eq_or_of_lt hx24 y
  have e : y <<< 24 = y * 16777216 := by rw [Nat.shiftLeft_eq]
  rw [e] at h
  rw [Nat.or_comm, ← h]; exact Nat.add_comm _ _

theorem powTerm_2 : powTerm (1 + 1) = 65536 := by decide
theorem powTerm_3 : powTerm (1 + 1 + 1) = 16777216 := by decide

/-- four bytes, unsigned little endian -/
theorem hex2uint_4 (a b c d : UInt8) :
    hex2uint [a, b, c, d] = a.toNat + 256 * b.toNat + 65536 * c.toNat + 16777216 * d.toNat := by
  have ha : a.toNat < 256 := UInt8.toNat_lt a
  have hb : b.toNat < 256 := UInt8.toNat_lt b
  have hc : c.toNat < 256 := UInt8.toNat_lt c
  have hd : d.toNat < 256 := UInt8.toNat_lt d
  simp only [hex2uint, hex2uintAux, powTerm_0, powTerm_1, powTerm_2, powTerm_3, Int.mul_one, Nat.zero_or, Nat.zero_add]
  have h1 : wrapU32 (a.toNat : Int) = a.toNat := wrapU32_small _ (by omega)
  have h2 : wrapU32 ((b.toNat : Int) * 256) = b.toNat * 256 := by unfold wrapU32 two32; omega
  have h3 : wrapU32 ((c.toNat : Int) * 65536) = c.toNat * 65536 := by unfold wrapU32 two32; omega
  have h4 : wrapU32 ((d.toNat : Int) * 16777216) = d.toNat * 16777216 := by unfold wrapU32 two32; omega
  rw [h1, h2, h3, h4, or_shift _ _ ha, or_shift16 _ _ (by omega), or_shift24 _ _ (by omega)]
  omega

/-- a 32-bit integer written on four bytes reads back (the header's scale word) -/
theorem le32_read (v : Int) (h1 : -2147483648 ≤ v) (h2 : v < 2147483648) : hex2int (le32 v) = v := by
  unfold le32 hex2int
  rw [hex2uint_4]
  have e0 : (v % 256).toNat < 256 := by omega
  have e1 : ((v / 256) % 256).toNat < 256 := by omega
  have e2 : ((v / 65536) % 256).toNat < 256 := by omega
  have e3 : ((v / 16777216) % 256).toNat < 256 := by omega
  rw [ofNat_toNat _ e0, ofNat_toNat _ e1, ofNat_toNat _ e2, ofNat_toNat _ e3]
  simp only [List.length_cons, List.length_nil, hexMax]
  unfold u64ToI32 two32 two31
  simp only [show (0 + 1 + 1 + 1 + 1 : Nat) ≠ 0 from by decide, show (0 + 1 + 1 + 1 + 1 : Nat) ≠ 1 from by decide,
    show (0 + 1 + 1 + 1 + 1 : Nat) ≠ 2 from by decide, show (0 + 1 + 1 + 1 + 1 : Nat) ≠ 3 from by decide, if_false]
  split <;> split <;> omega

theorem readInt4_adv (s : InStream) (v : Int) (b : Bytes) (h1 : -2147483648 ≤ v) (h2 : v < 2147483648)
    (hf : s.failed = false) (hr : s.rest = le32 v ++ b) : s.readInt 4 = (v, s.adv b 4) := by
  unfold InStream.readInt
  rw [read_adv' s 4 (le32 v) b rfl hf hr]
  simp only [le32_read v h1 h2]

theorem readIntZeros_adv (s : InStream) (n : Nat) (b : Bytes) (hf : s.failed = false)
    (hr : s.rest = List.replicate n 0 ++ b) : s.readInt n = (0, s.adv b n) := by
  unfold InStream.readInt
  rw [read_adv' s n (List.replicate n 0) b (by simp) hf hr]
  simp only [hex2int_zeros]

theorem readMany_uint2 (l : List Nat) : ∀ (s : InStream) (b : Bytes), (∀ d ∈ l, d < 65536) → s.failed = false →
    s.rest = (l.map le16N).flatten ++ b →
    readMany (fun s => s.readUint 2) l.length s = (l, s.adv b (2 * l.length)) := by
  induction l with
  | nil => intro s b _ _ hr; simp at hr; simp [readMany, ← hr, adv_zero]
  | cons d t ih =>
    intro s b hd hf hr
    simp only [List.map_cons, List.flatten_cons, List.append_assoc] at hr
    simp only [List.length_cons, readMany]
    rw [readUint2_adv s d _ (hd d (by simp)) hf hr]
    simp only
    rw [ih (s.adv _ 2) b (fun x hx => hd x (by simp [hx])) (by simpa) (by simp)]
    simp only [adv_adv]; congr 2; omega

/-- an event label: at most four characters, no NUL -/
def LabelOK (s : Bytes) : Prop := s.length ≤ 4 ∧ ∀ x ∈ s, x ≠ 0

theorem cstr_padded (s : Bytes) (k : Nat) (h : ∀ x ∈ s, x ≠ 0) : cstr (s ++ List.replicate k 0) = s := by
  unfold cstr
  induction s with
  | nil => cases k <;> simp [List.replicate_succ]
  | cons x t ih =>
    have hx : x ≠ 0 := h x (by simp)
    simp only [List.cons_append, List.takeWhile_cons, bne_iff_ne, ne_eq, hx, not_false_eq_true, if_true]
    rw [ih (fun y hy => h y (by simp [hy]))]

theorem label4_ok (s : Bytes) (h : LabelOK s) : (label4 s).length = 4 ∧ cstr (label4 s) = s := by
  unfold label4
  have : s.take 4 = s := List.take_of_length_le h.1
  rw [this]
  exact ⟨by have := h.1; simp; omega, cstr_padded s _ h.2⟩

theorem readMany_labels (l : List Bytes) : ∀ (s : InStream) (b : Bytes), (∀ x ∈ l, LabelOK x) → s.failed = false →
    s.rest = (l.map label4).flatten ++ b →
    readMany (fun s => s.readString 4) l.length s = (l, s.adv b (4 * l.length)) := by
  induction l with
  | nil => intro s b _ _ hr; simp at hr; simp [readMany, ← hr, adv_zero]
  | cons d t ih =>
    intro s b hd hf hr
    simp only [List.map_cons, List.flatten_cons, List.append_assoc] at hr
    simp only [List.length_cons, readMany]
    obtain ⟨hl4, hc⟩ := label4_ok d (hd d (by simp))
    have : s.readString 4 = (d, s.adv ((t.map label4).flatten ++ b) 4) := by
      unfold InStream.readString
      rw [read_adv' s 4 (label4 d) _ hl4 hf hr]
      simp only [hc]
    rw [this]
    simp only
    rw [ih (s.adv _ 4) b (fun x hx => hd x (by simp [hx])) (by simpa) (by simp)]
    simp only [adv_adv]; congr 2; omega

/-! ### the header record -/

structure HdrOK (h : Header) : Prop where
  np : h.nbPoints < 65536
  nam : h.nbAnalogsMeas < 65536
  ff : h.firstFrame + 1 < 65536
  lf : u64 (h.lastFrame + 1) < 65536
  lf64 : h.lastFrame < two64
  gap : h.maxGap < 65536
  scale1 : -2147483648 ≤ h.scale
  scale2 : h.scale < 2147483648
  abf : h.nbAnalogByFrame < 65536
  e1 : h.empty1 = 0
  e2 : h.empty2 = 0
  e3 : h.empty3 = 0
  e4 : h.empty4 = 0
  klp : h.keyLabelPresent < 65536
  fbk : h.firstBlockKeyLabel < 65536
  fcp : h.fourCharPresent < 65536
  nev : h.nbEvents < 65536
  times : h.evTimes.length = 18
  displen : h.evDisplay.length = 9
  disp : ∀ d ∈ h.evDisplay, d < 65536
  lablen : h.evLabels.length = 18
  labels : ∀ x ∈ h.evLabels, LabelOK x

/-- the header bytes, right-nested, followed by `rest` -/
def Header.bytesR (h : Header) (ds : Nat) (rest : Bytes) : Bytes :=
  low8N 2 :: 0x50 :: (le16N h.nbPoints ++ (le16N h.nbAnalogsMeas ++ (le16N (u64 (h.firstFrame + 1)) ++ (le16N (u64 (h.lastFrame + 1)) ++
    (le16N h.maxGap ++ (le32 h.scale ++ (le16N ds ++ (le16N h.nbAnalogByFrame ++ (f32le h.rate ++ (List.replicate 270 0 ++
    (le16N h.keyLabelPresent ++ (le16N h.firstBlockKeyLabel ++ (le16N h.fourCharPresent ++ (le16N h.nbEvents ++ (List.replicate 2 0 ++
    ((h.evTimes.map f32le).flatten ++ ((h.evDisplay.map le16N).flatten ++ (List.replicate 2 0 ++ ((h.evLabels.map label4).flatten ++
    (List.replicate 44 0 ++ rest))))))))))))))))))))

theorem flatten_replicate_zeros (n : Nat) : (List.replicate n (le16 0)).flatten = List.replicate (2 * n) 0 := by
  induction n with
  | zero => rfl
  | succ k ih =>
    rw [List.replicate_succ, List.flatten_cons, ih, Nat.mul_succ]
    have : le16 0 = List.replicate 2 0 := by decide
    rw [this, List.replicate_append_replicate, Nat.add_comm]

theorem Header.write_bytesR (h : Header) (ds : Nat) (rest : Bytes) (hk : HdrOK h) :
    h.write (ds : Int) ++ rest = h.bytesR ds rest := by
  unfold Header.write Header.bytesR
  rw [hk.e1, hk.e2, hk.e3, hk.e4, flatten_replicate_zeros 135, flatten_replicate_zeros 22]
  have : le16 0 = List.replicate 2 0 := by decide
  rw [this]
  simp only [List.append_assoc, List.cons_append, List.nil_append, le16N]
  rfl

theorem subU64_succ (x : Nat) (h : x < two64) : subU64 (u64 (x + 1)) 1 = x := by
  unfold subU64 u64 two64 at *; omega

/-- the header as the loader holds it: position facts reset, data start as written -/
def Header.loaded (h : Header) (ds : Nat) : Header := { h with zeros := 0, paramAddr := 2, checksum := 0x50, dataStart := ds }

theorem hex2uint_2byte : hex2uint [(2 : UInt8)] = 2 := by decide

/-- THE HEADER READS BACK -/
theorem Header_read_written (h : Header) (ds : Nat) (rest file : Bytes) (s0 : InStream) (hk : HdrOK h) (hds : ds < 65536)
    (hfile : OnFile s0 file) (hfe : file = h.write (ds : Int) ++ rest) :
    Header.read s0 = .ok (h.loaded ds, ({ s0 with rest := file, pos := 0, eof := false } : InStream).adv rest 512) := by
  unfold Header.read
  have hseek := seekBeg_onFile s0 file hfile 0
  simp only [List.drop_zero] at hseek
  rw [show ((0 : Int)) = ((0 : Nat) : Int) from rfl, hseek]
  generalize hs1 : ({ s0 with rest := file, pos := 0, eof := false } : InStream) = s
  have hf : s.failed = false := by rw [← hs1]; exact hfile.live
  have hr : s.rest = h.bytesR ds rest := by rw [← hs1, ← Header.write_bytesR h ds rest hk]; exact hfe
  unfold Header.bytesR at hr
  -- the tails, from the end
  let t21 := List.replicate 44 0 ++ rest
  let t20 := (h.evLabels.map label4).flatten ++ t21
  let t19 := List.replicate 2 0 ++ t20
  let t18 := (h.evDisplay.map le16N).flatten ++ t19
  let t17 := (h.evTimes.map f32le).flatten ++ t18
  let t16 := List.replicate 2 0 ++ t17
  let t15 := le16N h.nbEvents ++ t16
  let t14 := le16N h.fourCharPresent ++ t15
  let t13 := le16N h.firstBlockKeyLabel ++ t14
  let t12 := le16N h.keyLabelPresent ++ t13
  let t11 := List.replicate 270 0 ++ t12
  let t10 := f32le h.rate ++ t11
  let t9 := le16N h.nbAnalogByFrame ++ t10
  let t8 := le16N ds ++ t9
  let t7 := le32 h.scale ++ t8
  let t6 := le16N h.maxGap ++ t7
  let t5 := le16N (u64 (h.lastFrame + 1)) ++ t6
  let t4 := le16N (u64 (h.firstFrame + 1)) ++ t5
  let t3 := le16N h.nbAnalogsMeas ++ t4
  let t2 := le16N h.nbPoints ++ t3
  let t1 : Bytes := 0x50 :: t2
  have hr0 : s.rest = low8N 2 :: t1 := hr
  have A : ∀ (t : Bytes) (k : Nat), (s.adv t k).failed = false := fun t k => by simpa
  have r0 : s.readUint 1 = (2, s.adv t1 1) := readUint1_adv s 2 t1 (by decide) hf hr0
  have r1 : (s.adv t1 1).readUint 1 = (0x50, s.adv t2 2) := by
    unfold InStream.readUint
    have := read_adv' (s.adv t1 1) 1 [0x50] t2 rfl (A _ _) rfl
    rw [this]; simp [hex80]
  have r2 : (s.adv t2 2).readUint 2 = (h.nbPoints, s.adv t3 4) := by
    rw [readUint2_adv _ _ t3 hk.np (A _ _) rfl]; simp only [adv_adv]
  have r3 : (s.adv t3 4).readUint 2 = (h.nbAnalogsMeas, s.adv t4 6) := by
    rw [readUint2_adv _ _ t4 hk.nam (A _ _) rfl]; simp only [adv_adv]
  have r4 : (s.adv t4 6).readUint 2 = (u64 (h.firstFrame + 1), s.adv t5 8) := by
    rw [readUint2_adv _ _ t5 (by have := hk.ff; unfold u64 two64; omega) (A _ _) rfl]; simp only [adv_adv]
  have r5 : (s.adv t5 8).readUint 2 = (u64 (h.lastFrame + 1), s.adv t6 10) := by
    rw [readUint2_adv _ _ t6 hk.lf (A _ _) rfl]; simp only [adv_adv]
  have r6 : (s.adv t6 10).readUint 2 = (h.maxGap, s.adv t7 12) := by
    rw [readUint2_adv _ _ t7 hk.gap (A _ _) rfl]; simp only [adv_adv]
  have r7 : (s.adv t7 12).readInt 4 = (h.scale, s.adv t8 16) := by
    rw [readInt4_adv _ _ t8 hk.scale1 hk.scale2 (A _ _) rfl]; simp only [adv_adv]
  have r8 : (s.adv t8 16).readUint 2 = (ds, s.adv t9 18) := by
    rw [readUint2_adv _ _ t9 hds (A _ _) rfl]; simp only [adv_adv]
  have r9 : (s.adv t9 18).readUint 2 = (h.nbAnalogByFrame, s.adv t10 20) := by
    rw [readUint2_adv _ _ t10 hk.abf (A _ _) rfl]; simp only [adv_adv]
  have r10 : (s.adv t10 20).readFloat = (h.rate, s.adv t11 24) := by
    rw [readFloat_adv _ _ t11 (A _ _) rfl]; simp only [adv_adv]
  have r11 : (s.adv t11 24).readInt 270 = (0, s.adv t12 294) := by
    rw [readIntZeros_adv _ 270 t12 (A _ _) rfl]; simp only [adv_adv]
  have r12 : (s.adv t12 294).readUint 2 = (h.keyLabelPresent, s.adv t13 296) := by
    rw [readUint2_adv _ _ t13 hk.klp (A _ _) rfl]; simp only [adv_adv]
  have r13 : (s.adv t13 296).readUint 2 = (h.firstBlockKeyLabel, s.adv t14 298) := by
    rw [readUint2_adv _ _ t14 hk.fbk (A _ _) rfl]; simp only [adv_adv]
  have r14 : (s.adv t14 298).readUint 2 = (h.fourCharPresent, s.adv t15 300) := by
    rw [readUint2_adv _ _ t15 hk.fcp (A _ _) rfl]; simp only [adv_adv]
  have r15 : (s.adv t15 300).readUint 2 = (h.nbEvents, s.adv t16 302) := by
    rw [readUint2_adv _ _ t16 hk.nev (A _ _) rfl]; simp only [adv_adv]
  have r16 : (s.adv t16 302).readInt 2 = (0, s.adv t17 304) := by
    rw [readIntZeros_adv _ 2 t17 (A _ _) rfl]; simp only [adv_adv]
  have r17 : readMany InStream.readFloat 18 (s.adv t17 304) = (h.evTimes, s.adv t18 376) := by
    have := readMany_float h.evTimes (s.adv t17 304) t18 (A _ _) rfl
    rw [hk.times] at this; rw [this]; simp only [adv_adv]
  have r18 : readMany (fun s => s.readUint 2) 9 (s.adv t18 376) = (h.evDisplay, s.adv t19 394) := by
    have := readMany_uint2 h.evDisplay (s.adv t18 376) t19 hk.disp (A _ _) rfl
    rw [hk.displen] at this; rw [this]; simp only [adv_adv]
  have r19 : (s.adv t19 394).readInt 2 = (0, s.adv t20 396) := by
    rw [readIntZeros_adv _ 2 t20 (A _ _) rfl]; simp only [adv_adv]
  have r20 : readMany (fun s => s.readString 4) 18 (s.adv t20 396) = (h.evLabels, s.adv t21 468) := by
    have := readMany_labels h.evLabels (s.adv t20 396) t21 hk.labels (A _ _) rfl
    rw [hk.lablen] at this; rw [this]; simp only [adv_adv]
  have r21 : (s.adv t21 468).readInt 44 = (0, s.adv rest 512) := by
    rw [readIntZeros_adv _ 44 rest (A _ _) rfl]; simp only [adv_adv]
  simp only [r0, r1, r2, r3, r4, r5, r6, r7, r8, r9, r10, r11, r12, r13, r14, r15, r16, r17, r18, r19, r20, r21,
    show (2 : Nat) ≠ 0 from by decide, ne_eq, not_false_eq_true, if_true, not_true_eq_false, if_false]
  rw [subU64_succ h.firstFrame (by have := hk.ff; unfold two64; omega), subU64_succ h.lastFrame hk.lf64]
  congr 2
  unfold Header.loaded
  cases h
  simp only [Header.mk.injEq, true_and]
  have e1 := hk.e1; have e2 := hk.e2; have e3 := hk.e3; have e4 := hk.e4
  simp only at e1 e2 e3 e4
  simp [e1, e2, e3, e4]

end Ezc3d
