import Ezc3dVerif.Proofs.LoadWrite
import Ezc3dVerif.Spec.Format
/-
  The independent Spec decoder applied to the writer's bytes: positional access lemmas.
-/
namespace Ezc3d
open C12 N Spec

/-! ### access relative to a prefix -/

theorem byteAt_shift (pre b : Bytes) (i : Nat) : byteAt (pre ++ b) (pre.length + i) = byteAt b i := by
  unfold byteAt; rw [List.getElem?_append_right (by omega)]; congr 2; omega

theorem byteAt_cons_zero (x : UInt8) (b : Bytes) : byteAt (x :: b) 0 = some x.toNat := rfl
theorem byteAt_cons_succ (x : UInt8) (b : Bytes) (i : Nat) : byteAt (x :: b) (i + 1) = byteAt b i := rfl

theorem byteAt_append_left (a b : Bytes) (i : Nat) (h : i < a.length) : byteAt (a ++ b) i = byteAt a i := by
  unfold byteAt; rw [List.getElem?_append_left h]

theorem byteAt_append_right (a b : Bytes) (i : Nat) : byteAt (a ++ b) (a.length + i) = byteAt b i := byteAt_shift a b i

theorem slice_shift (pre b : Bytes) (i n : Nat) : slice (pre ++ b) (pre.length + i) n = slice b i n := by
  unfold slice
  have : (pre ++ b).drop (pre.length + i) = b.drop i := by
    rw [← List.drop_drop, List.drop_left]
  rw [this]

theorem slice_prefix (a b : Bytes) : slice (a ++ b) 0 a.length = some a := by
  unfold slice; simp

theorem slice_at (pre a b : Bytes) : slice (pre ++ (a ++ b)) pre.length a.length = some a := by
  have := slice_shift pre (a ++ b) 0 a.length
  rw [Nat.add_zero] at this
  rw [this, slice_prefix]

theorem u16At_shift (pre b : Bytes) (i : Nat) : u16At (pre ++ b) (pre.length + i) = u16At b i := by
  unfold u16At
  rw [List.getElem?_append_right (by omega), List.getElem?_append_right (by omega)]
  have e1 : pre.length + i - pre.length = i := by omega
  have e2 : pre.length + i + 1 - pre.length = i + 1 := by omega
  rw [e1, e2]

theorem u32At_shift (pre b : Bytes) (i : Nat) : u32At (pre ++ b) (pre.length + i) = u32At b i := by
  unfold u32At
  rw [List.getElem?_append_right (by omega), List.getElem?_append_right (by omega), List.getElem?_append_right (by omega),
    List.getElem?_append_right (by omega)]
  have e1 : pre.length + i - pre.length = i := by omega
  have e2 : pre.length + i + 1 - pre.length = i + 1 := by omega
  have e3 : pre.length + i + 2 - pre.length = i + 2 := by omega
  have e4 : pre.length + i + 3 - pre.length = i + 3 := by omega
  rw [e1, e2, e3, e4]

/-- the 16-bit word at the front -/
theorem u16At_le16N (n : Nat) (h : n < 65536) (b : Bytes) : u16At (le16N n ++ b) 0 = some n := by
  unfold u16At le16N le16
  simp only [List.cons_append, List.nil_append, List.getElem?_cons_zero, List.getElem?_cons_succ]
  have h1 : ((n : Int) % 256).toNat = n % 256 := by omega
  have h2 : (((n : Int) / 256) % 256).toNat = n / 256 := by omega
  rw [h1, h2, ofNat_toNat _ (by omega), ofNat_toNat _ (by omega)]
  congr 1; omega

theorem u32At_f32le (v : UInt32) (b : Bytes) : u32At (f32le v ++ b) 0 = some v := by
  unfold u32At f32le
  simp only [List.cons_append, List.nil_append, List.getElem?_cons_zero, List.getElem?_cons_succ]
  have hv : v.toNat < 4294967296 := UInt32.toNat_lt v
  rw [ofNat_toNat _ (by omega), ofNat_toNat _ (by omega), ofNat_toNat _ (by omega), ofNat_toNat _ (by omega)]
  have : v.toNat % 256 + 256 * (v.toNat / 256 % 256) + 65536 * (v.toNat / 65536 % 256) + 16777216 * (v.toNat / 16777216 % 256) = v.toNat := by omega
  rw [this]; simp

theorem s8_low8 (v : Int) (h1 : -128 ≤ v) (h2 : v < 128) : s8 (low8 v).toNat = v := by
  unfold s8 low8
  rw [ofNat_toNat _ (by omega)]
  split <;> omega

theorem low8N_toNat (n : Nat) (h : n < 256) : (low8N n).toNat = n := by
  unfold low8N low8
  have : ((n : Int) % 256).toNat = n := by omega
  rw [this, ofNat_toNat _ h]

end Ezc3d
