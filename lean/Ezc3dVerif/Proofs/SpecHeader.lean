import Ezc3dVerif.Proofs.SpecRecords
/-
  The Spec decoder on the header record and on the data section.
-/
namespace Ezc3d
open C12 N Spec

/-! ### access through `drop` -/

theorem split_at_drop (b t : Bytes) (o : Nat) (h : b.drop o = t) (ho : o ≤ b.length) :
    b = b.take o ++ t ∧ (b.take o).length = o := by
  constructor
  · rw [← h, List.take_append_drop]
  · rw [List.length_take]; omega

theorem prefix_of_drop (b t : Bytes) (o : Nat) (h : b.drop o = t) (hne : t ≠ []) : ∃ pre, b = pre ++ t ∧ pre.length = o := by
  have ho : o ≤ b.length := by
    by_cases hh : o ≤ b.length
    · exact hh
    · have : b.drop o = [] := List.drop_eq_nil_of_le (by omega)
      rw [this] at h; exact absurd h.symm hne
  exact ⟨b.take o, (split_at_drop b t o h ho).1, (split_at_drop b t o h ho).2⟩

theorem drop_step (b seg t : Bytes) (o n : Nat) (h : b.drop o = seg ++ t) (hn : seg.length = n) : b.drop (o + n) = t := by
  rw [← List.drop_drop, h, ← hn, List.drop_left]

theorem drop_le (b t : Bytes) (o : Nat) (h : b.drop o = t) (hne : t ≠ []) : o ≤ b.length := by
  by_cases hh : o ≤ b.length
  · exact hh
  · have : b.drop o = [] := List.drop_eq_nil_of_le (by omega)
    rw [this] at h; exact absurd h.symm hne

theorem byteAt_of_drop (b t : Bytes) (x : UInt8) (o : Nat) (h : b.drop o = x :: t) : byteAt b o = some x.toNat := by
  obtain ⟨pre, rfl, rfl⟩ := prefix_of_drop b _ o h (by simp)
  rw [byteAt_at]

theorem u16At_of_drop (b t : Bytes) (n o : Nat) (hn : n < 65536) (h : b.drop o = le16N n ++ t) : u16At b o = some n := by
  obtain ⟨pre, rfl, rfl⟩ := prefix_of_drop b _ o h (by simp [le16N, le16])
  rw [u16At_at _ _ _ hn]

theorem u32At_of_drop_f32 (b t : Bytes) (v : UInt32) (o : Nat) (h : b.drop o = f32le v ++ t) : u32At b o = some v := by
  obtain ⟨pre, rfl, rfl⟩ := prefix_of_drop b _ o h (by simp [f32le])
  have := u32At_shift pre (f32le v ++ t) 0
  rw [Nat.add_zero] at this; rw [this, u32At_f32le]

/-- the scale word as the 32-bit pattern a reader of the format sees -/
def scaleBits (v : Int) : UInt32 :=
  UInt32.ofNat ((v % 256).toNat + 256 * ((v / 256) % 256).toNat + 65536 * ((v / 65536) % 256).toNat + 16777216 * ((v / 16777216) % 256).toNat)

theorem u32At_of_drop_le32 (b t : Bytes) (v : Int) (o : Nat) (h : b.drop o = le32 v ++ t) : u32At b o = some (scaleBits v) := by
  obtain ⟨pre, rfl, rfl⟩ := prefix_of_drop b _ o h (by simp [le32])
  have := u32At_shift pre (le32 v ++ t) 0
  rw [Nat.add_zero] at this; rw [this]
  unfold u32At le32 scaleBits
  simp only [List.cons_append, List.nil_append, List.getElem?_cons_zero, List.getElem?_cons_succ]
  rw [ofNat_toNat _ (by omega), ofNat_toNat _ (by omega), ofNat_toNat _ (by omega), ofNat_toNat _ (by omega)]

theorem listAt_u32_of_drop (b t : Bytes) (l : List UInt32) (o n : Nat) (hn : l.length = n) (hne : l ≠ [])
    (h : b.drop o = (l.map f32le).flatten ++ t) : listAt u32At b o 4 n = some l := by
  obtain ⟨pre, rfl, rfl⟩ := prefix_of_drop b _ o h (by
    cases l with
    | nil => exact absurd rfl hne
    | cons x r => simp [f32le])
  rw [← hn]; exact listAt_u32 l pre t

theorem listAt_u16N (l : List Nat) (hr : ∀ v ∈ l, v < 65536) : ∀ (pre post : Bytes),
    listAt u16At (pre ++ ((l.map le16N).flatten ++ post)) pre.length 2 l.length = some l := by
  induction l with
  | nil => intro pre post; rfl
  | cons x t ih =>
    intro pre post
    simp only [List.length_cons, listAt, List.map_cons, List.flatten_cons, List.append_assoc]
    rw [u16At_at pre _ x (hr x (by simp))]
    have h1 := ih (fun v hv => hr v (by simp [hv])) (pre ++ le16N x) post
    simp only [List.length_append, le16N, le16_length, List.append_assoc] at h1
    simp only [le16N]
    rw [h1]

theorem listAt_u16_of_drop (b t : Bytes) (l : List Nat) (o n : Nat) (hn : l.length = n) (hne : l ≠ []) (hr : ∀ v ∈ l, v < 65536)
    (h : b.drop o = (l.map le16N).flatten ++ t) : listAt u16At b o 2 n = some l := by
  obtain ⟨pre, rfl, rfl⟩ := prefix_of_drop b _ o h (by
    cases l with
    | nil => exact absurd rfl hne
    | cons x r => simp [le16N, le16])
  rw [← hn]; exact listAt_u16N l hr pre t

theorem listAt_labels (l : List Bytes) (hr : ∀ x ∈ l, LabelOK x) : ∀ (pre post : Bytes),
    (listAt (fun b i => slice b i 4) (pre ++ ((l.map label4).flatten ++ post)) pre.length 4 l.length).map
      (fun ls => ls.map fun s => s.takeWhile (· != 0)) = some l := by
  induction l with
  | nil => intro pre post; rfl
  | cons x t ih =>
    intro pre post
    simp only [List.length_cons, listAt, List.map_cons, List.flatten_cons, List.append_assoc]
    obtain ⟨hl4, hc⟩ := label4_ok x (hr x (by simp))
    have hs := slice_at pre (label4 x) ((t.map label4).flatten ++ post)
    rw [hl4] at hs
    rw [hs]
    have h1 := ih (fun v hv => hr v (by simp [hv])) (pre ++ label4 x) post
    simp only [List.length_append, hl4, List.append_assoc] at h1
    cases hq : listAt (fun b i => slice b i 4) (pre ++ (label4 x ++ ((t.map label4).flatten ++ post))) (pre.length + 4) 4 t.length with
    | none => rw [hq] at h1; simp at h1
    | some r =>
      rw [hq] at h1
      simp only [Option.map_some, Option.some.injEq] at h1 ⊢
      rw [List.map_cons, h1]
      congr 1

theorem listAt_labels_of_drop (b t : Bytes) (l : List Bytes) (o n : Nat) (hn : l.length = n) (hne : l ≠ []) (hr : ∀ x ∈ l, LabelOK x)
    (h : b.drop o = (l.map label4).flatten ++ t) :
    (listAt (fun b i => slice b i 4) b o 4 n).map (fun ls => ls.map fun s => s.takeWhile (· != 0)) = some l := by
  obtain ⟨pre, rfl, rfl⟩ := prefix_of_drop b _ o h (by
    cases l with
    | nil => exact absurd rfl hne
    | cons x r =>
      have := (label4_ok x (hr x (by simp))).1
      intro hh
      simp only [List.map_cons, List.flatten_cons, List.append_assoc] at hh
      have := congrArg List.length hh
      simp only [List.length_append, List.length_nil] at this
      omega)
  rw [← hn]; exact listAt_labels l hr pre t

/-- the header as an independent reader of the format sees it -/
def specHeader (h : Header) (ds : Nat) : SHeader :=
  { paramBlock := 2, nPoints := h.nbPoints, analogPerFrame := h.nbAnalogsMeas, firstFrame := u64 (h.firstFrame + 1),
    lastFrame := u64 (h.lastFrame + 1), maxGap := h.maxGap, scale := scaleBits h.scale, dataStart := ds,
    subframes := h.nbAnalogByFrame, rate := h.rate, nEvents := h.nbEvents, evTimes := h.evTimes,
    evDisplay := h.evDisplay, evLabels := h.evLabels }

/-- THE HEADER RECORD, as the independent decoder reads it (no leading zeros) -/
theorem decodeHeader_written (h : Header) (ds : Nat) (rest : Bytes) (hk : HdrOK h) (hds : ds < 65536) :
    decodeHeader (h.bytesR ds rest) 0 = some (specHeader h ds) := by
  generalize hb : h.bytesR ds rest = b
  unfold Header.bytesR at hb
  let t21 := List.replicate 44 0 ++ rest
  let t20 := (h.evLabels.map label4).flatten ++ t21
  let t19 := List.replicate 2 0 ++ t20
  let t18 := (h.evDisplay.map le16N).flatten ++ t19
  let t17 := (h.evTimes.map f32le).flatten ++ t18
  let t16 := List.replicate 2 0 ++ t17
  let t15 := le16N h.nbEvents ++ t16
  let t14 := le16N h.fourCharPresent ++ t15
  let t13 := le16N h.firstBlockKeyLabel ++ t14
  let t12 := le16N h.keyLabelPresent ++ t13
  let t11 := List.replicate 270 0 ++ t12
  let t10 := f32le h.rate ++ t11
  let t9 := le16N h.nbAnalogByFrame ++ t10
  let t8 := le16N ds ++ t9
  let t7 := le32 h.scale ++ t8
  let t6 := le16N h.maxGap ++ t7
  let t5 := le16N (u64 (h.lastFrame + 1)) ++ t6
  let t4 := le16N (u64 (h.firstFrame + 1)) ++ t5
  let t3 := le16N h.nbAnalogsMeas ++ t4
  let t2 := le16N h.nbPoints ++ t3
  have d0 : b.drop 0 = low8N 2 :: (0x50 :: t2) := by rw [← hb]; rfl
  have d1 : b.drop 1 = 0x50 :: t2 := by have := drop_step b [low8N 2] (0x50 :: t2) 0 1 d0 rfl; simpa using this
  have d2 : b.drop 2 = le16N h.nbPoints ++ t3 := by have := drop_step b [0x50] t2 1 1 d1 rfl; simpa using this
  have d4 : b.drop 4 = le16N h.nbAnalogsMeas ++ t4 := drop_step b _ t3 2 2 d2 rfl
  have d6 : b.drop 6 = le16N (u64 (h.firstFrame + 1)) ++ t5 := drop_step b _ t4 4 2 d4 rfl
  have d8 : b.drop 8 = le16N (u64 (h.lastFrame + 1)) ++ t6 := drop_step b _ t5 6 2 d6 rfl
  have d10 : b.drop 10 = le16N h.maxGap ++ t7 := drop_step b _ t6 8 2 d8 rfl
  have d12 : b.drop 12 = le32 h.scale ++ t8 := drop_step b _ t7 10 2 d10 rfl
  have d16 : b.drop 16 = le16N ds ++ t9 := drop_step b _ t8 12 4 d12 rfl
  have d18 : b.drop 18 = le16N h.nbAnalogByFrame ++ t10 := drop_step b _ t9 16 2 d16 rfl
  have d20 : b.drop 20 = f32le h.rate ++ t11 := drop_step b _ t10 18 2 d18 rfl
  have d24 : b.drop 24 = List.replicate 270 0 ++ t12 := drop_step b _ t11 20 4 d20 rfl
  have d294 : b.drop 294 = le16N h.keyLabelPresent ++ t13 := drop_step b _ t12 24 270 d24 (List.length_replicate ..)
  have d296 : b.drop 296 = le16N h.firstBlockKeyLabel ++ t14 := drop_step b _ t13 294 2 d294 rfl
  have d298 : b.drop 298 = le16N h.fourCharPresent ++ t15 := drop_step b _ t14 296 2 d296 rfl
  have d300 : b.drop 300 = le16N h.nbEvents ++ t16 := drop_step b _ t15 298 2 d298 rfl
  have d302 : b.drop 302 = List.replicate 2 0 ++ t17 := drop_step b _ t16 300 2 d300 rfl
  have d304 : b.drop 304 = (h.evTimes.map f32le).flatten ++ t18 := drop_step b _ t17 302 2 d302 (List.length_replicate ..)
  have d376 : b.drop 376 = (h.evDisplay.map le16N).flatten ++ t19 :=
    drop_step b _ t18 304 72 d304 (by rw [C03.flatten_map_len f32le 4 (fun _ => rfl), hk.times])
  have d394 : b.drop 394 = List.replicate 2 0 ++ t20 :=
    drop_step b _ t19 376 18 d376 (by rw [C03.flatten_map_len le16N 2 (fun _ => rfl), hk.displen])
  have d396 : b.drop 396 = (h.evLabels.map label4).flatten ++ t21 := drop_step b _ t20 394 2 d394 (List.length_replicate ..)
  have hne18 : ∀ {α} (l : List α), l.length = 18 → l ≠ [] := by intro α l h0 h1; rw [h1] at h0; simp at h0
  have hne9 : ∀ {α} (l : List α), l.length = 9 → l ≠ [] := by intro α l h0 h1; rw [h1] at h0; simp at h0
  unfold decodeHeader
  simp only [Nat.zero_add]
  rw [byteAt_of_drop b _ _ 0 d0, byteAt_of_drop b _ _ 1 d1, u16At_of_drop b _ _ 2 hk.np d2, u16At_of_drop b _ _ 4 hk.nam d4,
    u16At_of_drop b _ _ 6 (by have := hk.ff; unfold u64 two64; omega) d6, u16At_of_drop b _ _ 8 hk.lf d8,
    u16At_of_drop b _ _ 10 hk.gap d10, u32At_of_drop_le32 b _ _ 12 d12, u16At_of_drop b _ _ 16 hds d16,
    u16At_of_drop b _ _ 18 hk.abf d18, u32At_of_drop_f32 b _ _ 20 d20, u16At_of_drop b _ _ 300 hk.nev d300,
    listAt_u32_of_drop b _ _ 304 18 hk.times (hne18 _ hk.times) d304,
    listAt_u16_of_drop b _ _ 376 9 hk.displen (hne9 _ hk.displen) hk.disp d376]
  have hlab := listAt_labels_of_drop b _ _ 396 18 hk.lablen (hne18 _ hk.lablen) hk.labels d396
  cases hq : listAt (fun b i => slice b i 4) b 396 4 18 with
  | none => rw [hq] at hlab; simp at hlab
  | some ls =>
    rw [hq] at hlab
    simp only [Option.map_some, Option.some.injEq] at hlab
    simp only
    have h50 : ((0x50 : UInt8)).toNat = 0x50 := by decide
    rw [h50]
    simp only [ne_eq, not_true_eq_false, if_false, hlab]
    rw [low8N_toNat 2 (by decide)]
    rfl

end Ezc3d
