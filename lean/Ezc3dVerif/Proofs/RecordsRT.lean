import Ezc3dVerif.Proofs.ParamRT4
/-
  The record chain reads back: one step of the loop of `Parameters::Parameters(c3d&)` on a parameter
  record, on a group record, then whole groups, then the list of groups and the terminator.
-/
namespace Ezc3d
open C12 N

/-- a group the record format can hold -/
structure GroupOK (g : Group) : Prop where
  name_pos : 1 ≤ g.name.length
  name_len : g.name.length ≤ 127
  name_nz : ∀ x ∈ g.name, x ≠ 0
  desc_len : g.desc.length ≤ 255
  desc_nz : ∀ x ∈ g.desc, x ≠ 0

def Group.nameLen (g : Group) : Int := if g.locked then -(g.name.length : Int) else g.name.length
def Group.offN (g : Group) : Nat := 3 + g.desc.length
/-- bytes of a group record after its first two -/
def Group.recTail (g : Group) (b : Bytes) : Bytes :=
  toUpper g.name ++ (le16N g.offN ++ (low8N g.desc.length :: (g.desc ++ b)))
def Group.recLen (g : Group) : Nat := g.name.length + g.offN

/-- the group header as the reader rebuilds it on a fresh placeholder -/
def Group.head (g : Group) : Group := { name := toUpper g.name, desc := g.desc, locked := g.locked, params := [] }

theorem Group_read_written (g : Group) (h : GroupOK g) (s : InStream) (b : Bytes)
    (hf : s.failed = false) (hs : s.Sync) (hlen : s.len + 2 < two31) (hr : s.rest = g.recTail b) :
    Group.read {} g.nameLen s = .ok ((g.head, ((s.pos + g.recLen : Nat) : Int)), s.adv b g.recLen) := by
  have hnabs : g.nameLen.natAbs = (toUpper g.name).length := by
    unfold Group.nameLen; rw [C03.toUpper_length]; split <;> omega
  have hlock : decide (g.nameLen < 0) = g.locked := by
    unfold Group.nameLen; have := h.name_pos; cases g.locked <;> simp <;> omega
  unfold Group.recTail at hr
  let t2 := g.desc ++ b
  let t1 := low8N g.desc.length :: t2
  let t0 := le16N g.offN ++ t1
  have hr0 : s.rest = toUpper g.name ++ t0 := hr
  have hoffs : g.offN < 65536 := by unfold Group.offN; have := h.desc_len; omega
  unfold Group.read
  simp only [SR.bind_lift]
  rw [hnabs, readString_adv s (toUpper g.name) t0 (toUpper_nz g.name h.name_nz) hf hr0]
  simp only [SR.bind_lift]
  rw [readUint2_adv (s.adv t0 _) g.offN t1 hoffs (by simpa) rfl]
  simp only [SR.bind_get, SR.bind_lift, adv_adv]
  rw [readUint1_adv (s.adv t1 _) g.desc.length t2 (by have := h.desc_len; omega) (by simpa) rfl]
  simp only [adv_adv]
  have hrl : s.rest.length = (toUpper g.name).length + 2 + 1 + g.desc.length + b.length := by
    rw [hr0]; simp only [t0, t1, t2, List.length_append, List.length_cons, le16N, le16_length]; omega
  have hfinal : nextPos (s.adv t1 ((toUpper g.name).length + 2)).tell g.offN = ((s.pos + g.recLen : Nat) : Int) := by
    rw [tell_live _ (by simpa)]
    simp only [adv_pos]
    have : s.pos + ((toUpper g.name).length + 2) + g.offN < two31 := by
      unfold InStream.Sync at hs; unfold Group.offN; omega
    rw [nextPos_small _ _ (by unfold Group.offN; omega) this]
    unfold Group.recLen Group.offN; rw [C03.toUpper_length]; congr 1; omega
  rw [hfinal, hlock]
  by_cases hd0 : g.desc.length = 0
  · have hde : g.desc = [] := List.length_eq_zero_iff.mp hd0
    simp only [hd0, ne_eq, not_true_eq_false, if_false, SR.bind_pure, SR.pure_apply]
    have hb : t2 = b := by simp [t2, hde]
    rw [hb]
    have hk : (toUpper g.name).length + 2 + 1 = g.recLen := by
      unfold Group.recLen Group.offN; rw [C03.toUpper_length, hd0]
    rw [hk]
    simp [Group.head, hde]
  · simp only [hd0, ne_eq, not_false_eq_true, if_true, SR.bind_lift, SR.pure_apply]
    rw [readString_adv _ g.desc b h.desc_nz (by simpa) rfl]
    simp only [adv_adv]
    have hk : (toUpper g.name).length + 2 + 1 + g.desc.length = g.recLen := by
      unfold Group.recLen Group.offN; rw [C03.toUpper_length]; omega
    rw [hk]
    simp [Group.head]

/-! ### one iteration of the record loop -/

theorem nameLen_range (p : Param) (h : RecOK p) : -128 ≤ p.nameLen ∧ p.nameLen < 128 ∧ p.nameLen ≠ 0 := by
  unfold Param.nameLen; have := h.name_pos; have := h.name_len; split <;> omega

theorem gnameLen_range (g : Group) (h : GroupOK g) : -128 ≤ g.nameLen ∧ g.nameLen < 128 ∧ g.nameLen ≠ 0 := by
  unfold Group.nameLen; have := h.name_pos; have := h.name_len; split <;> omega

theorem ensureGroups_ge (gs : List Group) (n : Nat) (h : n ≤ gs.length) : ensureGroups gs n = gs := by
  unfold ensureGroups
  have : n - gs.length = 0 := by omega
  simp [this]

theorem norm_type (p : Param) : p.norm.type = p.type := rfl
theorem norm_name (p : Param) : p.norm.name = toUpper p.name := rfl

/-- a parameter record whose group exists and holds no parameter of that (upper-cased) name -/
theorem readRecords_param_step (fuel : Nat) (s : InStream) (gs : List Group) (i : Nat) (g : Group) (p : Param) (b : Bytes)
    (hgi : gs[i]? = some g) (hi : i + 1 ≤ 127) (hp : RecOK p)
    (hfresh : g.params.findIdx? (fun q => q.name == toUpper p.name) = none)
    (hf : s.failed = false) (hs : s.Sync) (hlen : s.len + 2 < two31) (hpos : 0 < s.pos)
    (hr : s.rest = low8 p.nameLen :: low8 ((i : Int) + 1) :: p.recTail b) :
    readRecords (fuel + 1) s (s.pos : Int) gs
      = readRecords fuel (s.adv b (2 + p.recLen)) ((s.pos + (2 + p.recLen) : Nat) : Int)
          (gs.set i { g with params := g.params ++ [p.norm] }) := by
  obtain ⟨hn1, hn2, hn0⟩ := nameLen_range p hp
  have hil : i < gs.length := by
    rcases List.getElem?_eq_some_iff.mp hgi with ⟨h, _⟩; exact h
  rw [readRecords]
  rw [if_neg (by omega), tell_live s hf, if_neg (by simp)]
  rw [readInt1_adv s p.nameLen _ hn1 hn2 hf hr]
  simp only
  rw [if_neg hn0]
  rw [readInt1_adv (s.adv _ 1) ((i : Int) + 1) (p.recTail b) (by omega) (by omega) (by simpa) rfl]
  simp only [adv_adv]
  have hnat : ((i : Int) + 1).natAbs = i + 1 := by omega
  rw [hnat, ensureGroups_ge gs (i + 1) (by omega)]
  rw [if_neg (by omega)]
  simp only [if_neg (show ¬ ((i : Int) + 1 = 0) by omega), Nat.add_sub_cancel, hgi]
  have hs2 : (s.adv (p.recTail b) (1 + 1)).Sync := by
    have := adv_sync s [low8 p.nameLen, low8 ((i : Int) + 1)] (p.recTail b) hs (by simpa using hr)
    simpa using this
  rw [Param_read_written p hp (s.adv (p.recTail b) (1 + 1)) b (by simpa) hs2 (by simpa) rfl]
  simp only
  unfold Group.addParam
  rw [norm_type, if_neg (type_ne_none p hp.values), norm_name, hfresh]
  simp only [adv_adv, adv_pos]
  congr 2 <;> omega

theorem ensureGroups_lt (gs : List Group) (i : Nat) (h : gs.length ≤ i) :
    ensureGroups gs (i + 1) = (gs ++ List.replicate (i - gs.length) ({} : Group)) ++ [({} : Group)] := by
  unfold ensureGroups
  have : i + 1 - gs.length = (i - gs.length) + 1 := by omega
  rw [this, List.replicate_succ', List.append_assoc]

/-- a group record with an id beyond the groups seen so far: placeholders for the ids skipped, then the group -/
theorem readRecords_group_step (fuel : Nat) (s : InStream) (gs : List Group) (i : Nat) (g : Group) (b : Bytes)
    (hgs : gs.length ≤ i) (hi : i + 1 ≤ 127) (hg : GroupOK g)
    (hf : s.failed = false) (hs : s.Sync) (hlen : s.len + 2 < two31) (hpos : 0 < s.pos)
    (hr : s.rest = low8 g.nameLen :: low8 (-((i : Int) + 1)) :: g.recTail b) :
    readRecords (fuel + 1) s (s.pos : Int) gs
      = readRecords fuel (s.adv b (2 + g.recLen)) ((s.pos + (2 + g.recLen) : Nat) : Int)
          ((gs ++ List.replicate (i - gs.length) ({} : Group)) ++ [g.head]) := by
  obtain ⟨hn1, hn2, hn0⟩ := gnameLen_range g hg
  rw [readRecords]
  rw [if_neg (by omega), tell_live s hf, if_neg (by simp)]
  rw [readInt1_adv s g.nameLen _ hn1 hn2 hf hr]
  simp only
  rw [if_neg hn0]
  rw [readInt1_adv (s.adv _ 1) (-((i : Int) + 1)) (g.recTail b) (by omega) (by omega) (by simpa) rfl]
  simp only [adv_adv]
  have hnat : (-((i : Int) + 1)).natAbs = i + 1 := by omega
  rw [hnat, ensureGroups_lt gs i hgs]
  rw [if_pos (by omega)]
  have hlenpre : (gs ++ List.replicate (i - gs.length) ({} : Group)).length = i := by simp; omega
  have hget : ((gs ++ List.replicate (i - gs.length) ({} : Group)) ++ [({} : Group)])[i + 1 - 1]? = some {} := by
    rw [Nat.add_sub_cancel, List.getElem?_append_right (by omega), hlenpre]; simp
  rw [hget]
  simp only
  have hs2 : (s.adv (g.recTail b) (1 + 1)).Sync := by
    have := adv_sync s [low8 g.nameLen, low8 (-((i : Int) + 1))] (g.recTail b) hs (by simpa using hr)
    simpa using this
  rw [Group_read_written g hg (s.adv (g.recTail b) (1 + 1)) b (by simpa) hs2 (by simpa) rfl]
  simp only [adv_adv, adv_pos, Nat.add_sub_cancel]
  have hset : ((gs ++ List.replicate (i - gs.length) ({} : Group)) ++ [({} : Group)]).set i g.head
      = (gs ++ List.replicate (i - gs.length) ({} : Group)) ++ [g.head] := by
    rw [List.set_append_right _ _ (by omega), hlenpre]; simp
  rw [hset]
  congr 2 <;> omega

/-! ### the writer's bytes, record by record -/

def Param.recBytes (p : Param) (gid : Int) : Bytes := low8 p.nameLen :: low8 gid :: p.recTail []

theorem recTail_append (p : Param) (b : Bytes) : p.recTail [] ++ b = p.recTail b := by
  unfold Param.recTail; simp

theorem Param.recBytes_length (p : Param) (gid : Int) : (p.recBytes gid).length = 2 + p.recLen := by
  unfold Param.recBytes Param.recTail Param.recLen Param.offN
  simp only [List.length_cons, List.length_append, C03.toUpper_length, List.length_nil, le16N, le16_length]
  omega

theorem Param.write_plain (p : Param) (h : RecOK p) (gid : Int) : p.write gid false = .ok (p.recBytes gid, none) := by
  unfold Param.write
  rw [writeData_plain p h]
  simp only [Res.bind_ok, Option.map_none]
  congr 2
  unfold Param.recBytes Param.recTail Param.nameLen le16N Param.offN
  simp only [List.length_append, List.length_cons, List.length_nil, List.append_assoc, List.cons_append, List.nil_append,
    List.append_nil]
  have e : (2 : Int) + ((List.length (dimBytes p.dims) + 1 : Nat) : Int) + ((List.length (valBytes p) + (List.length p.desc + 1) : Nat) : Int)
      = ((2 + (1 + List.length (dimBytes p.dims)) + (List.length (valBytes p) + 1 + List.length p.desc) : Nat) : Int) := by
    push_cast; omega
  rw [e]

def paramsBytes (gid : Int) (ps : List Param) : Bytes := (ps.map (fun p => p.recBytes gid)).flatten

theorem writeParamList_plain (gid : Int) (ps : List Param) (h : ∀ p ∈ ps, RecOK p) :
    writeParamList gid false ps = .ok (paramsBytes gid ps, none) := by
  induction ps with
  | nil => rfl
  | cons p t ih =>
    unfold writeParamList
    rw [Param.write_plain p (h p (by simp)) gid, ih (fun q hq => h q (by simp [hq]))]
    simp [paramsBytes]

/-! ### stream conditions carried along the chain -/

structure StreamOK (s : InStream) : Prop where
  live : s.failed = false
  sync : s.Sync
  small : s.len + 2 < two31
  pos : 0 < s.pos

theorem StreamOK.adv {s : InStream} (h : StreamOK s) (a b : Bytes) (hr : s.rest = a ++ b) : StreamOK (s.adv b a.length) :=
  ⟨by simpa using h.live, adv_sync s a b h.sync hr, by simpa using h.small, by have := h.pos; simp; omega⟩

/-- all the parameter records of one group -/
theorem readRecords_params (i : Nat) (hi : i + 1 ≤ 127) (ps : List Param) :
    ∀ (fuel : Nat) (s : InStream) (gs : List Group) (g : Group) (b : Bytes),
    gs[i]? = some g → (∀ p ∈ ps, RecOK p) →
    (ps.map fun p => toUpper p.name).Pairwise (· ≠ ·) →
    (∀ p ∈ ps, ∀ q ∈ g.params, q.name ≠ toUpper p.name) →
    StreamOK s → s.rest = paramsBytes ((i : Int) + 1) ps ++ b →
    readRecords (fuel + ps.length) s (s.pos : Int) gs
      = readRecords fuel (s.adv b (paramsBytes ((i : Int) + 1) ps).length)
          ((s.pos + (paramsBytes ((i : Int) + 1) ps).length : Nat) : Int)
          (gs.set i { g with params := g.params ++ ps.map Param.norm }) := by
  induction ps with
  | nil =>
    intro fuel s gs g b hgi _ _ _ _ hr
    simp only [paramsBytes, List.map_nil, List.flatten_nil, List.nil_append, List.length_nil, Nat.add_zero, List.append_nil] at hr ⊢
    rw [← hr, adv_zero]
    have : gs.set i { g with params := g.params } = gs := by
      apply List.ext_getElem?
      intro j
      by_cases hj : j = i
      · subst hj; rw [List.getElem?_set_self (by rcases List.getElem?_eq_some_iff.mp hgi with ⟨h, _⟩; exact h), hgi]
      · rw [List.getElem?_set_ne (Ne.symm hj)]
    rw [this]
  | cons p t ih =>
    intro fuel s gs g b hgi hok hd1 hd2 hso hr
    have hp := hok p (by simp)
    simp only [paramsBytes, List.map_cons, List.flatten_cons, List.append_assoc] at hr
    have hr' : s.rest = low8 p.nameLen :: low8 ((i : Int) + 1) :: p.recTail (paramsBytes ((i : Int) + 1) t ++ b) := by
      rw [hr]; unfold Param.recBytes; simp only [List.cons_append]; rw [recTail_append]; rfl
    have hfresh : g.params.findIdx? (fun q => q.name == toUpper p.name) = none := by
      rw [List.findIdx?_eq_none_iff]
      intro q hq; simpa using hd2 p (by simp) q hq
    have e : fuel + (p :: t).length = (fuel + t.length) + 1 := by simp; omega
    rw [e, readRecords_param_step (fuel + t.length) s gs i g p _ hgi hi hp hfresh hso.live hso.sync hso.small hso.pos hr']
    have hil : i < gs.length := by rcases List.getElem?_eq_some_iff.mp hgi with ⟨h, _⟩; exact h
    have hso' : StreamOK (s.adv (paramsBytes ((i : Int) + 1) t ++ b) (2 + p.recLen)) := by
      have := hso.adv (p.recBytes ((i : Int) + 1)) (paramsBytes ((i : Int) + 1) t ++ b) (by rw [hr]; rfl)
      rwa [Param.recBytes_length] at this
    have hpos' : ((s.pos + (2 + p.recLen) : Nat) : Int) = ((s.adv (paramsBytes ((i : Int) + 1) t ++ b) (2 + p.recLen)).pos : Int) := by simp
    rw [hpos']
    rw [ih fuel _ (gs.set i { g with params := g.params ++ [p.norm] }) { g with params := g.params ++ [p.norm] } b
      (by rw [List.getElem?_set_self hil]) (fun q hq => hok q (by simp [hq]))
      (by simp only [List.map_cons, List.pairwise_cons] at hd1; exact hd1.2)
      (by
        intro q hq r hr2
        simp only [List.mem_append, List.mem_singleton] at hr2
        rcases hr2 with hr2 | hr2
        · exact hd2 q (by simp [hq]) r hr2
        · subst hr2
          simp only [List.map_cons, List.pairwise_cons] at hd1
          rw [norm_name]
          exact hd1.1 _ (List.mem_map.mpr ⟨q, hq, rfl⟩))
      hso' rfl]
    simp only [adv_adv, adv_pos, List.set_set, List.map_cons, List.append_assoc, List.cons_append, List.nil_append]
    have hl : (paramsBytes ((i : Int) + 1) (p :: t)).length = 2 + p.recLen + (paramsBytes ((i : Int) + 1) t).length := by
      simp only [paramsBytes, List.map_cons, List.flatten_cons, List.length_append, Param.recBytes_length]
    rw [hl]
    congr 2 <;> omega

/-! ### whole groups -/

def Group.normG (g : Group) : Group := { name := toUpper g.name, desc := g.desc, locked := g.locked, params := g.params.map Param.norm }

def groupBytes (g : Group) (i : Nat) : Bytes :=
  low8 g.nameLen :: low8 (-((i : Int) + 1)) :: g.recTail [] ++ paramsBytes ((i : Int) + 1) g.params

/-- the records of the named groups, in order; position in the list = group id - 1 -/
def groupsBytes : List Group → Nat → Bytes
  | [], _ => []
  | g :: rest, i => (if g.name = [] then [] else groupBytes g i) ++ groupsBytes rest (i + 1)

/-- what the loader holds after these records: placeholders for the ids skipped -/
def readBack : List Group → Nat → List Group → List Group
  | [], _, acc => acc
  | g :: rest, i, acc =>
    if g.name = [] then readBack rest (i + 1) acc
    else readBack rest (i + 1) ((acc ++ List.replicate (i - acc.length) ({} : Group)) ++ [g.normG])

def recCount : List Group → Nat
  | [] => 0
  | g :: rest => (if g.name = [] then 0 else 1 + g.params.length) + recCount rest

/-- a group whose records the format can hold and the loader rebuilds faithfully -/
structure GroupRecsOK (g : Group) : Prop where
  head : GroupOK g
  params : ∀ p ∈ g.params, RecOK p
  distinct : (g.params.map fun p => toUpper p.name).Pairwise (· ≠ ·)

theorem gRecTail_append (g : Group) (b : Bytes) : g.recTail [] ++ b = g.recTail b := by
  unfold Group.recTail; simp

theorem Group.recTail_length (g : Group) : (g.recTail []).length = g.recLen := by
  unfold Group.recTail Group.recLen Group.offN
  simp only [List.length_append, List.length_cons, C03.toUpper_length, List.length_nil, le16N, le16_length]; omega

theorem readRecords_group (fuel : Nat) (s : InStream) (acc : List Group) (i : Nat) (g : Group) (b : Bytes)
    (hacc : acc.length ≤ i) (hi : i + 1 ≤ 127) (hg : GroupRecsOK g) (hso : StreamOK s)
    (hr : s.rest = groupBytes g i ++ b) :
    readRecords (fuel + (1 + g.params.length)) s (s.pos : Int) acc
      = readRecords fuel (s.adv b (groupBytes g i).length) ((s.pos + (groupBytes g i).length : Nat) : Int)
          ((acc ++ List.replicate (i - acc.length) ({} : Group)) ++ [g.normG]) := by
  unfold groupBytes at hr
  simp only [List.cons_append, List.append_assoc] at hr
  have hr' : s.rest = low8 g.nameLen :: low8 (-((i : Int) + 1)) :: g.recTail (paramsBytes ((i : Int) + 1) g.params ++ b) := by
    rw [hr, gRecTail_append]
  have e : fuel + (1 + g.params.length) = (fuel + g.params.length) + 1 := by omega
  rw [e, readRecords_group_step (fuel + g.params.length) s acc i g _ hacc hi hg.head hso.live hso.sync hso.small hso.pos hr']
  let pre := acc ++ List.replicate (i - acc.length) ({} : Group)
  have hlenpre : pre.length = i := by simp [pre]; omega
  have hso' : StreamOK (s.adv (paramsBytes ((i : Int) + 1) g.params ++ b) (2 + g.recLen)) := by
    have := hso.adv (low8 g.nameLen :: low8 (-((i : Int) + 1)) :: g.recTail []) (paramsBytes ((i : Int) + 1) g.params ++ b)
      (by rw [hr]; simp)
    simp only [List.length_cons, Group.recTail_length] at this
    have e2 : g.recLen + 1 + 1 = 2 + g.recLen := by omega
    rwa [e2] at this
  have hpos' : ((s.pos + (2 + g.recLen) : Nat) : Int) = ((s.adv (paramsBytes ((i : Int) + 1) g.params ++ b) (2 + g.recLen)).pos : Int) := by simp
  rw [hpos']
  rw [readRecords_params i hi g.params fuel _ (pre ++ [g.head]) g.head b
    (by rw [List.getElem?_append_right (by omega), hlenpre]; simp) hg.params hg.distinct
    (by intro p _ q hq; simp [Group.head] at hq) hso' rfl]
  have hset : (pre ++ [g.head]).set i { g.head with params := g.head.params ++ g.params.map Param.norm } = pre ++ [g.normG] := by
    rw [List.set_append_right _ _ (by omega), hlenpre]; simp [Group.head, Group.normG]
  rw [hset]
  simp only [adv_adv, adv_pos]
  have hl : (groupBytes g i).length = 2 + g.recLen + (paramsBytes ((i : Int) + 1) g.params).length := by
    unfold groupBytes; simp only [List.length_cons, List.length_append, Group.recTail_length]; omega
  rw [hl]
  congr 2 <;> omega

theorem readRecords_groups (gs : List Group) : ∀ (fuel i : Nat) (s : InStream) (acc : List Group) (b : Bytes),
    acc.length ≤ i → i + gs.length ≤ 127 → (∀ g ∈ gs, g.name ≠ [] → GroupRecsOK g) → StreamOK s →
    s.rest = groupsBytes gs i ++ b →
    readRecords (fuel + recCount gs) s (s.pos : Int) acc
      = readRecords fuel (s.adv b (groupsBytes gs i).length) ((s.pos + (groupsBytes gs i).length : Nat) : Int)
          (readBack gs i acc) := by
  induction gs with
  | nil =>
    intro fuel i s acc b _ _ _ _ hr
    simp only [groupsBytes, List.nil_append, List.length_nil, Nat.add_zero, recCount, readBack] at hr ⊢
    rw [← hr, adv_zero]
  | cons g rest ih =>
    intro fuel i s acc b hacc hi hok hso hr
    simp only [List.length_cons] at hi
    by_cases hn : g.name = []
    · simp only [groupsBytes, hn, if_true, List.nil_append, recCount, Nat.zero_add, readBack] at hr ⊢
      exact ih fuel (i + 1) s acc b (by omega) (by omega) (fun x hx => hok x (by simp [hx])) hso hr
    · simp only [groupsBytes, hn, if_false, recCount, readBack, List.append_assoc] at hr ⊢
      have e : fuel + (1 + g.params.length + recCount rest) = (fuel + recCount rest) + (1 + g.params.length) := by omega
      rw [e, readRecords_group (fuel + recCount rest) s acc i g _ hacc (by omega) (hok g (by simp) hn) hso hr]
      have hso' := hso.adv (groupBytes g i) (groupsBytes rest (i + 1) ++ b) hr
      have hpos' : ((s.pos + (groupBytes g i).length : Nat) : Int) = ((s.adv (groupsBytes rest (i + 1) ++ b) (groupBytes g i).length).pos : Int) := by simp
      rw [hpos']
      rw [ih fuel (i + 1) _ _ b (by simp; omega) (by omega) (fun x hx => hok x (by simp [hx])) hso' rfl]
      simp only [adv_adv, adv_pos, List.length_append, List.append_assoc]
      congr 2 <;> omega

/-! ### terminator, prologue, the whole section -/

theorem readRecords_terminator (fuel : Nat) (s : InStream) (gs : List Group) (b : Bytes)
    (hso : StreamOK s) (hr : s.rest = 0 :: b) :
    readRecords (fuel + 1) s (s.pos : Int) gs = .ok (gs, s.adv b 1) := by
  rw [readRecords]
  have := hso.pos
  rw [if_neg (by omega), tell_live s hso.live, if_neg (by simp)]
  rw [readInt1_adv s 0 b (by decide) (by decide) hso.live (by simpa [low8] using hr)]
  simp

theorem Param.recBytes_pos (p : Param) (gid : Int) : 1 ≤ (p.recBytes gid).length := by
  rw [Param.recBytes_length]; omega

theorem paramsBytes_count (gid : Int) (ps : List Param) : ps.length ≤ (paramsBytes gid ps).length := by
  induction ps with
  | nil => simp [paramsBytes]
  | cons p t ih =>
    simp only [paramsBytes, List.map_cons, List.flatten_cons, List.length_append, List.length_cons] at ih ⊢
    have := Param.recBytes_pos p gid; omega

theorem recCount_le (gs : List Group) : ∀ i, recCount gs ≤ (groupsBytes gs i).length := by
  induction gs with
  | nil => intro i; simp [recCount, groupsBytes]
  | cons g rest ih =>
    intro i
    simp only [recCount, groupsBytes, List.length_append]
    have := ih (i + 1)
    split
    · simp; omega
    · unfold groupBytes
      simp only [List.length_cons, List.length_append]
      have := paramsBytes_count ((i : Int) + 1) g.params
      omega

/-- a stream on `file`, not failed, whatever its position -/
structure OnFile (s : InStream) (file : Bytes) : Prop where
  live : s.failed = false
  file_eq : s.file = file
  len_eq : s.len = file.length

theorem seekBeg_onFile (s : InStream) (file : Bytes) (h : OnFile s file) (n : Nat) :
    s.seekBeg (n : Int) = { s with rest := file.drop n, pos := n, eof := false } := by
  unfold InStream.seekBeg
  rw [if_neg (by simp [h.live]), if_neg (by omega), h.file_eq]
  simp

theorem hex80 : hex2uint [(0x50 : UInt8)] = 0x50 := by decide
theorem hex84 : hex2uint [(84 : UInt8)] = 84 := by decide

/-- the four bytes heading the section, for a header that says "block 2, no leading zeros" -/
theorem readPrologue_written (hdr : Header) (s0 : InStream) (file H t0 : Bytes) (nb : Nat)
    (hH : H.length = 512) (hpa : hdr.paramAddr = 2) (hz : hdr.zeros = 0) (hnb : nb < 256)
    (hfile : OnFile s0 file) (hfe : file = H ++ (low8N 1 :: 0x50 :: low8N nb :: 84 :: t0)) :
    readPrologue s0 hdr = ({ start := 1, checksum := 0x50, nbBlocks := nb, processor := 84 },
      ({ s0 with rest := file.drop 512, pos := 512, eof := false } : InStream).adv t0 4) := by
  unfold readPrologue
  have hseek : u64ToI32 (u64 (512 * subU64 hdr.paramAddr 1 + hdr.zeros)) = ((512 : Nat) : Int) := by
    rw [hpa, hz]; decide
  rw [hseek, seekBeg_onFile s0 file hfile 512]
  have hdrop : file.drop 512 = low8N 1 :: 0x50 :: low8N nb :: 84 :: t0 := by
    rw [hfe, List.drop_left' hH]
  generalize hs1 : ({ s0 with rest := file.drop 512, pos := 512, eof := false } : InStream) = s1
  have hs1f : s1.failed = false := by rw [← hs1]; exact hfile.live
  have hs1r : s1.rest = low8N 1 :: 0x50 :: low8N nb :: 84 :: t0 := by rw [← hs1]; exact hdrop
  dsimp only
  rw [readUint1_adv s1 1 _ (by decide) hs1f hs1r]
  simp only
  have r2 : (s1.adv (0x50 :: low8N nb :: 84 :: t0) 1).readUint 1 = (0x50, s1.adv (low8N nb :: 84 :: t0) 2) := by
    unfold InStream.readUint
    rw [read_adv' _ 1 [0x50] (low8N nb :: 84 :: t0) rfl (by simpa) rfl]
    simp [hex80]
  rw [r2]
  simp only
  rw [readUint1_adv (s1.adv _ 2) nb (84 :: t0) hnb (by simpa) rfl]
  simp only [adv_adv]
  have r4 : (s1.adv (84 :: t0) (2 + 1)).readUint 1 = (84, s1.adv t0 4) := by
    unfold InStream.readUint
    rw [read_adv' _ 1 [84] t0 rfl (by simpa) rfl]
    simp [hex84]
  rw [r4]
  simp

/-- THE PARAMETER SECTION READS BACK: after a 512-byte header, a section made of the prologue
    (start 1, key 0x50), the records of the groups, a zero byte and anything else, `readParameters`
    returns the prologue and the groups as `readBack` lists them -/
theorem readParameters_written (hdr : Header) (s0 : InStream) (file H pad : Bytes) (nb : Nat) (gs : List Group)
    (hH : H.length = 512) (hpa : hdr.paramAddr = 2) (hz : hdr.zeros = 0) (hnb : nb < 256)
    (hgs : gs.length ≤ 127) (hok : ∀ g ∈ gs, g.name ≠ [] → GroupRecsOK g)
    (hfile : OnFile s0 file) (hfe : file = H ++ (low8N 1 :: 0x50 :: low8N nb :: 84 :: (groupsBytes gs 0 ++ 0 :: pad)))
    (hsmall : file.length + 2 < two31) :
    ∃ s', readParameters s0 hdr = .ok (({ start := 1, checksum := 0x50, nbBlocks := nb, processor := 84 }, readBack gs 0 []), s')
      ∧ OnFile s' file := by
  unfold readParameters
  rw [readPrologue_written hdr s0 file H (groupsBytes gs 0 ++ 0 :: pad) nb hH hpa hz hnb hfile hfe]
  have hdrop : file.drop 512 = low8N 1 :: 0x50 :: low8N nb :: 84 :: (groupsBytes gs 0 ++ 0 :: pad) := by
    rw [hfe, List.drop_left' hH]
  generalize hs1 : ({ s0 with rest := file.drop 512, pos := 512, eof := false } : InStream) = s1
  have hs1f : s1.failed = false := by rw [← hs1]; exact hfile.live
  have hs1r : s1.rest = low8N 1 :: 0x50 :: low8N nb :: 84 :: (groupsBytes gs 0 ++ 0 :: pad) := by rw [← hs1]; exact hdrop
  have hs1p : s1.pos = 512 := by rw [← hs1]
  have hs1l : s1.len = file.length := by rw [← hs1]; exact hfile.len_eq
  have hfl : file.length = 512 + (4 + ((groupsBytes gs 0).length + (1 + pad.length))) := by
    rw [hfe]; simp only [List.length_append, List.length_cons, hH]; omega
  have hso : StreamOK (s1.adv (groupsBytes gs 0 ++ 0 :: pad) 4) := by
    refine ⟨by simpa, ?_, by simpa [hs1l] using hsmall, by simp [hs1p]⟩
    unfold InStream.Sync
    simp only [adv_len, adv_pos, adv_rest, hs1l, hs1p, hfl, List.length_append, List.length_cons]; omega
  simp only
  rw [if_neg (by decide)]
  have hnext : (s1.adv (groupsBytes gs 0 ++ 0 :: pad) 4).tell + u64ToI32 1 - 1 = (((s1.adv (groupsBytes gs 0 ++ 0 :: pad) 4).pos : Nat) : Int) := by
    rw [tell_live _ hso.live]; have : u64ToI32 1 = 1 := by decide
    rw [this]; omega
  rw [hnext]
  -- enough fuel: one unit per record, plus the terminator
  have hcount := recCount_le gs 0
  have hfuel : 2 * (s1.adv (groupsBytes gs 0 ++ 0 :: pad) 4).rest.length + 2
      = (((2 * (s1.adv (groupsBytes gs 0 ++ 0 :: pad) 4).rest.length + 2) - recCount gs - 1) + 1) + recCount gs := by
    simp only [adv_rest, List.length_append, List.length_cons]; omega
  rw [hfuel]
  rw [readRecords_groups gs _ 0 _ [] (0 :: pad) (by simp) (by omega) hok hso rfl]
  have hso2 := hso.adv (groupsBytes gs 0) (0 :: pad) rfl
  have hpos2 : (((s1.adv (groupsBytes gs 0 ++ 0 :: pad) 4).pos + (groupsBytes gs 0).length : Nat) : Int)
      = (((s1.adv (groupsBytes gs 0 ++ 0 :: pad) 4).adv (0 :: pad) (groupsBytes gs 0).length).pos : Int) := by simp; omega
  rw [hpos2, readRecords_terminator _ _ _ pad hso2 rfl]
  refine ⟨_, rfl, ⟨by simpa using hs1f, ?_, ?_⟩⟩
  · simp only [adv_file]; rw [← hs1]; exact hfile.file_eq
  · simp only [adv_len]; exact hs1l

end Ezc3d
