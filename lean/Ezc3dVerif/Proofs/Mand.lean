import Ezc3dVerif.Proofs.Lookup
/-
  The structural invariant the updaters rely on: the mandatory POINT / ANALOG parameters exist and
  have the type (and non-emptiness) the unchecked `valuesAsX()[0]` reads assume. Under it the updaters
  never throw, never evaluate an unchecked access out of range, and they preserve it.
-/
namespace Ezc3d
open N

inductive Kind | intNE | floatNE | str | any | floats | ints
  deriving DecidableEq

def Kind.ok : Kind → Param → Prop
  | .intNE, q => q.type = .int ∧ q.ints ≠ []
  | .floatNE, q => q.type = .float ∧ q.floats ≠ []
  | .str, q => q.type = .char
  | .any, _ => True
  | .floats, q => q.type = .float
  | .ints, q => q.type = .int

/-- the parameters `updateHeader` / `updateParameters` read or rewrite, with what they need of them -/
def slots : List (Bytes × Bytes × Kind) :=
  [ (POINT, USED, .intNE), (POINT, FRAMES, .intNE), (POINT, RATE, .floatNE), (POINT, LABELS, .str),
    (POINT, DESCRIPTIONS, .any), (POINT, UNITS, .any),
    (ANALOG, USED, .intNE), (ANALOG, RATE, .floatNE), (ANALOG, LABELS, .str), (ANALOG, DESCRIPTIONS, .any),
    (ANALOG, SCALE, .floats), (ANALOG, OFFSET, .ints), (ANALOG, UNITS, .str) ]

def Mand (gs : List Group) : Prop :=
  ∀ s ∈ slots, ∃ q, getParam gs s.1 s.2.1 = .ok q ∧ s.2.2.ok q

theorem Mand.get {gs : List Group} (h : Mand gs) (g p : Bytes) (k : Kind) (hm : (g, p, k) ∈ slots) :
    ∃ q, getParam gs g p = .ok q ∧ k.ok q := h (g, p, k) hm

/-! ### what a successful `getParam` means in terms of indices -/

theorem nameIdx_ok_atIdx {α} (name : α → Bytes) (l : List α) (key : Bytes) (i : Nat)
    (h : nameIdx name l key = .ok i) : ∃ a, atIdx l i = .ok a := by
  unfold nameIdx at h
  split at h
  · rename_i j hj
    cases h
    rw [List.findIdx?_eq_some_iff_getElem] at hj
    obtain ⟨hlt, _, _⟩ := hj
    exact ⟨l[i], by simp [atIdx, hlt]⟩
  · cases h

theorem getParam_ok_gpIdx {gs : List Group} {g p : Bytes} {q : Param} (h : getParam gs g p = .ok q) :
    ∃ gi pi grp, gpIdx gs g p = .ok (gi, pi) ∧ groupIdx gs g = .ok gi ∧ atIdx gs gi = .ok grp ∧ atIdx grp.params pi = .ok q := by
  unfold getParam byName at h
  obtain ⟨grp, hg, hp⟩ := Res.bind_ok_iff.mp h
  obtain ⟨gi, hgi, hgrp⟩ := Res.bind_ok_iff.mp hg
  obtain ⟨pi, hpi, hq⟩ := Res.bind_ok_iff.mp hp
  refine ⟨gi, pi, grp, ?_, hgi, hgrp, hq⟩
  unfold gpIdx groupIdx Group.paramIdx
  simp [hgi, hgrp, hpi]

theorem gpIdx_ok_getParam {gs : List Group} {g p : Bytes} {gi pi : Nat} (h : gpIdx gs g p = .ok (gi, pi)) :
    ∃ q, getParam gs g p = .ok q := by
  unfold gpIdx at h
  obtain ⟨gi', hgi, h⟩ := Res.bind_ok_iff.mp h
  obtain ⟨grp, hgrp, h⟩ := Res.bind_ok_iff.mp h
  obtain ⟨pi', hpi, h⟩ := Res.bind_ok_iff.mp h
  cases h
  obtain ⟨q, hq⟩ := nameIdx_ok_atIdx Param.name grp.params p pi hpi
  refine ⟨q, ?_⟩
  unfold getParam byName
  have : nameIdx Group.name gs g = .ok gi := hgi
  simp [this, hgrp, show nameIdx Param.name grp.params p = .ok pi from hpi, hq]

/-! ### the typed first-element reads succeed under the invariant -/

theorem int0_of_kind {gs : List Group} {g p : Bytes} {q : Param} (h : getParam gs g p = .ok q)
    (hk : Kind.intNE.ok q) : ∃ v, int0 gs g p = .ok v := by
  obtain ⟨ht, hne⟩ := hk
  unfold int0
  simp only [h, Res.bind_ok, Param.asInt, ht, if_true]
  cases hi : q.ints with
  | nil => exact absurd hi hne
  | cons a t => exact ⟨a, by simp [atIdx]⟩

theorem float0_of_kind {gs : List Group} {g p : Bytes} {q : Param} (h : getParam gs g p = .ok q)
    (hk : Kind.floatNE.ok q) : ∃ v, float0 gs g p = .ok v := by
  obtain ⟨ht, hne⟩ := hk
  unfold float0
  simp only [h, Res.bind_ok, Param.asFloat, ht, if_true]
  cases hi : q.floats with
  | nil => exact absurd hi hne
  | cons a t => exact ⟨a, by simp [atIdx]⟩

theorem strsOf_of_kind {gs : List Group} {g p : Bytes} {q : Param} (h : getParam gs g p = .ok q)
    (hk : Kind.str.ok q) : strsOf gs g p = .ok q.strs := by
  unfold strsOf
  have : q.type = .char := hk
  simp [h, Param.asString, this]

theorem Mand.int0 {gs : List Group} (h : Mand gs) (g p : Bytes) (hm : (g, p, Kind.intNE) ∈ slots) :
    ∃ v, Ezc3d.int0 gs g p = .ok v := by
  obtain ⟨q, hq, hk⟩ := h.get g p _ hm; exact int0_of_kind hq hk

theorem Mand.float0 {gs : List Group} (h : Mand gs) (g p : Bytes) (hm : (g, p, Kind.floatNE) ∈ slots) :
    ∃ v, Ezc3d.float0 gs g p = .ok v := by
  obtain ⟨q, hq, hk⟩ := h.get g p _ hm; exact float0_of_kind hq hk

theorem Mand.strs {gs : List Group} (h : Mand gs) (g p : Bytes) (hm : (g, p, Kind.str) ∈ slots) :
    ∃ v, strsOf gs g p = .ok v := by
  obtain ⟨q, hq, hk⟩ := h.get g p _ hm; exact ⟨_, strsOf_of_kind hq hk⟩

theorem Mand.gpIdx {gs : List Group} (h : Mand gs) (g p : Bytes) (k : Kind) (hm : (g, p, k) ∈ slots) :
    ∃ gi pi, Ezc3d.gpIdx gs g p = .ok (gi, pi) := by
  obtain ⟨q, hq, _⟩ := h.get g p k hm
  obtain ⟨gi, pi, _, hidx, _⟩ := getParam_ok_gpIdx hq
  exact ⟨gi, pi, hidx⟩

theorem Mand.group {gs : List Group} (h : Mand gs) (g p : Bytes) (k : Kind) (hm : (g, p, k) ∈ slots) :
    ∃ gi grp, groupIdx gs g = .ok gi ∧ byName Group.name gs g = .ok grp ∧ grp.params.length ≠ 0 := by
  obtain ⟨q, hq, _⟩ := h.get g p k hm
  obtain ⟨gi, pi, grp, _, hgi, hgrp, hq'⟩ := getParam_ok_gpIdx hq
  refine ⟨gi, grp, hgi, ?_, ?_⟩
  · unfold byName; have : nameIdx Group.name gs g = .ok gi := hgi; simp [this, hgrp]
  · intro h0
    unfold atIdx at hq'
    have : grp.params = [] := List.eq_nil_of_length_eq_zero h0
    simp [this] at hq'

/-! ### preservation by an in-place, name-preserving rewrite of one slot -/

theorem Mand_modParam {gs : List Group} (h : Mand gs) (g0 p0 : Bytes) (gi pi : Nat) (f : Param → Param)
    (hidx : Ezc3d.gpIdx gs g0 p0 = .ok (gi, pi)) (hn : ∀ q, (f q).name = q.name)
    (hkeep : ∀ k, (g0, p0, k) ∈ slots → ∀ q, k.ok q → k.ok (f q)) :
    Mand (modParam gs gi pi f) := by
  intro s hs
  obtain ⟨q, hq, hk⟩ := h s hs
  rw [getParam_modParam gs g0 p0 gi pi f hn hidx]
  by_cases hc : s.1 = g0 ∧ s.2.1 = p0
  · simp only [hc, and_self, if_true]
    refine ⟨f q, ?_, ?_⟩
    · obtain ⟨h1, h2⟩ := hc
      rw [← h1, ← h2, hq]; rfl
    · apply hkeep s.2.2 _ q hk
      obtain ⟨h1, h2⟩ := hc
      rw [← h1, ← h2]; exact hs
  · simp only [hc, if_false]
    exact ⟨q, hq, hk⟩

/-- which kind a mandatory slot has (the slot names are pairwise distinct) -/
theorem slot_kind (g p : Bytes) (k k' : Kind) (h : (g, p, k) ∈ slots) (h' : (g, p, k') ∈ slots) : k = k' := by
  unfold slots at h h'
  simp only [List.mem_cons, Prod.mk.injEq, List.mem_nil_iff, or_false] at h h'
  rcases h with ⟨rfl, rfl, rfl⟩ | ⟨rfl, rfl, rfl⟩ | ⟨rfl, rfl, rfl⟩ | ⟨rfl, rfl, rfl⟩ | ⟨rfl, rfl, rfl⟩ | ⟨rfl, rfl, rfl⟩ | ⟨rfl, rfl, rfl⟩ | ⟨rfl, rfl, rfl⟩ | ⟨rfl, rfl, rfl⟩ | ⟨rfl, rfl, rfl⟩ | ⟨rfl, rfl, rfl⟩ | ⟨rfl, rfl, rfl⟩ | ⟨rfl, rfl, rfl⟩ <;>
  (simp [N.POINT, N.ANALOG, N.USED, N.FRAMES, N.RATE, N.LABELS, N.DESCRIPTIONS, N.UNITS, N.SCALE, N.OFFSET] at h'
   exact h'.symm)

end Ezc3d
