import Ezc3dVerif.Proofs.Outcome
/-
  Look-ups by name after an in-place modification (`modParam`) that keeps names: the group and
  parameter indices found are the same; the parameter found is the modified one exactly when it is
  the target.
-/
namespace Ezc3d

theorem findIdx?_modify {α} (l : List α) (i : Nat) (f : α → α) (p : α → Bool)
    (hp : ∀ x, p (f x) = p x) : (l.modify i f).findIdx? p = l.findIdx? p := by
  induction l generalizing i with
  | nil => simp
  | cons a t ih =>
    cases i with
    | zero => simp [List.modify, List.findIdx?_cons, hp]
    | succ n =>
      simp only [List.modify_succ_cons, List.findIdx?_cons]
      rw [ih n]

theorem nameIdx_modify {α} (name : α → Bytes) (l : List α) (i : Nat) (f : α → α) (key : Bytes)
    (hn : ∀ x, name (f x) = name x) : nameIdx name (l.modify i f) key = nameIdx name l key := by
  unfold nameIdx
  rw [findIdx?_modify l i f (fun a => name a == key) (by intro x; simp [hn])]

theorem atIdx_modify {α} (l : List α) (i j : Nat) (f : α → α) :
    atIdx (l.modify i f) j = if i = j then (atIdx l j).map f else atIdx l j := by
  unfold atIdx Res.map
  rw [List.getElem?_modify]
  by_cases h : i = j
  · subst h; simp; cases l[i]? <;> simp [Res.bind]
  · simp [h]

/-- `Group.paramIdx` after modifying one parameter by a name-preserving function -/
theorem paramIdx_modify (g : Group) (pi : Nat) (f : Param → Param) (key : Bytes)
    (hn : ∀ q, (f q).name = q.name) :
    ({ g with params := g.params.modify pi f } : Group).paramIdx key = g.paramIdx key := by
  unfold Group.paramIdx
  exact nameIdx_modify Param.name g.params pi f key hn

theorem groupIdx_modParam (gs : List Group) (gi pi : Nat) (f : Param → Param) (key : Bytes) :
    groupIdx (modParam gs gi pi f) key = groupIdx gs key := by
  unfold groupIdx modParam
  exact nameIdx_modify Group.name gs gi _ key (by intro x; rfl)

/-- the parameter found under `(g, p)` after `modParam gs gi pi f`, where `(gi, pi)` is what the
    look-up of `(g0, p0)` finds: the modified one if `(g, p) = (g0, p0)`, otherwise the old one -/
theorem getParam_modParam (gs : List Group) (g0 p0 : Bytes) (gi pi : Nat) (f : Param → Param)
    (hn : ∀ q, (f q).name = q.name) (hidx : gpIdx gs g0 p0 = .ok (gi, pi)) (g p : Bytes) :
    getParam (modParam gs gi pi f) g p =
      if g = g0 ∧ p = p0 then (getParam gs g p).map f else getParam gs g p := by
  -- unpack what the index look-up found
  unfold gpIdx at hidx
  obtain ⟨gi', hgi, hidx⟩ := Res.bind_ok_iff.mp hidx
  obtain ⟨grp, hgrp, hidx⟩ := Res.bind_ok_iff.mp hidx
  obtain ⟨pi', hpi, hidx⟩ := Res.bind_ok_iff.mp hidx
  cases hidx
  unfold getParam byName
  rw [show nameIdx Group.name (modParam gs gi pi f) g = nameIdx Group.name gs g from groupIdx_modParam gs gi pi f g]
  cases hg : nameIdx Group.name gs g with
  | throw e => simp [Res.map]
  | ub k => simp [Res.map]
  | ok j =>
    simp only [Res.bind_ok]
    unfold modParam
    rw [atIdx_modify]
    by_cases hij : gi = j
    · subst hij
      simp only [if_true]
      have hgrp' : atIdx gs gi = .ok grp := hgrp
      rw [hgrp']
      simp only [Res.map, Res.bind_ok]
      -- same group: g must be g0's name-equal? the first match of g is index gi, the first match of g0 is gi as well
      rw [show nameIdx Param.name (grp.params.modify pi f) p = nameIdx Param.name grp.params p from
            nameIdx_modify Param.name grp.params pi f p hn]
      cases hp : nameIdx Param.name grp.params p with
      | throw e => simp
      | ub k => simp
      | ok k =>
        simp only [Res.bind_ok]
        rw [atIdx_modify]
        by_cases hk : pi = k
        · subst hk
          simp only [if_true]
          -- then p = p0 (both are the name of params[pi]) and g = g0 (both the name of gs[gi])
          have hp0 : grp.paramIdx p0 = .ok pi := hpi
          have hgn : ∀ key, nameIdx Group.name gs key = .ok gi → key = grp.name := by
            intro key hk
            unfold nameIdx at hk
            split at hk
            · rename_i i hi
              cases hk
              rw [List.findIdx?_eq_some_iff_getElem] at hi
              obtain ⟨hlt, hpk, _⟩ := hi
              unfold atIdx at hgrp
              simp [hlt] at hgrp
              subst hgrp
              have := hpk; simp at this; exact this.symm
            · cases hk
          have hpn : ∀ key, nameIdx Param.name grp.params key = .ok pi → ∃ q, grp.params[pi]? = some q ∧ key = q.name := by
            intro key hk
            unfold nameIdx at hk
            split at hk
            · rename_i i hi
              cases hk
              rw [List.findIdx?_eq_some_iff_getElem] at hi
              obtain ⟨hlt, hpk, _⟩ := hi
              refine ⟨grp.params[pi], by simp [hlt], ?_⟩
              have := hpk; simp at this; exact this.symm
            · cases hk
          have e1 : g = g0 := by rw [hgn g hg, hgn g0 hgi]
          obtain ⟨q1, hq1, e2⟩ := hpn p hp
          obtain ⟨q2, hq2, e3⟩ := hpn p0 hp0
          have : q1 = q2 := by rw [hq1] at hq2; exact Option.some.inj hq2
          have e4 : p = p0 := by rw [e2, e3, this]
          simp [e1, e4, Res.map]
        · simp only [hk, if_false]
          -- a different parameter of the same group: (g, p) ≠ (g0, p0) because p finds index k ≠ pi
          have : ¬ (g = g0 ∧ p = p0) := by
            rintro ⟨_, hpp⟩
            subst hpp
            have hp0 : nameIdx Param.name grp.params p = .ok pi := hpi
            rw [hp0] at hp; cases hp; exact hk rfl
          simp [this]
    · simp only [hij, if_false]
      have : ¬ (g = g0 ∧ p = p0) := by
        rintro ⟨hgg, _⟩
        subst hgg
        have : nameIdx Group.name gs g = .ok gi := hgi
        rw [this] at hg; cases hg; exact hij rfl
      simp [this]


/-- indices found by name are unaffected by a name-preserving in-place rewrite -/
theorem gpIdx_modParam (gs : List Group) (gi pi : Nat) (f : Param → Param) (hn : ∀ q, (f q).name = q.name)
    (g p : Bytes) : gpIdx (modParam gs gi pi f) g p = gpIdx gs g p := by
  unfold gpIdx
  rw [groupIdx_modParam]
  cases hg : groupIdx gs g with
  | throw e => rfl
  | ub k => rfl
  | ok j =>
    simp only [Res.bind_ok]
    unfold modParam
    rw [atIdx_modify]
    by_cases hij : gi = j
    · subst hij
      simp only [if_true]
      cases ha : atIdx gs gi with
      | throw e => rfl
      | ub k => rfl
      | ok grp =>
        simp only [Res.map, Res.bind_ok]
        rw [paramIdx_modify grp pi f p hn]
    · simp [hij]

end Ezc3d
