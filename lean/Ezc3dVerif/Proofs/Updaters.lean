import Ezc3dVerif.Proofs.Mand
import Ezc3dVerif.Proofs.Frames
/-
  Under the invariant `Mand` the two updaters complete normally (no exception, no unchecked access out
  of range) and re-establish the invariant.
-/
namespace Ezc3d
open N

theorem mem_slots_PU : (POINT, USED, Kind.intNE) ∈ slots := by decide
theorem mem_slots_PF : (POINT, FRAMES, Kind.intNE) ∈ slots := by decide
theorem mem_slots_PR : (POINT, RATE, Kind.floatNE) ∈ slots := by decide
theorem mem_slots_PL : (POINT, LABELS, Kind.str) ∈ slots := by decide
theorem mem_slots_PD : (POINT, DESCRIPTIONS, Kind.any) ∈ slots := by decide
theorem mem_slots_PN : (POINT, UNITS, Kind.any) ∈ slots := by decide
theorem mem_slots_AU : (ANALOG, USED, Kind.intNE) ∈ slots := by decide
theorem mem_slots_AR : (ANALOG, RATE, Kind.floatNE) ∈ slots := by decide
theorem mem_slots_AL : (ANALOG, LABELS, Kind.str) ∈ slots := by decide
theorem mem_slots_AD : (ANALOG, DESCRIPTIONS, Kind.any) ∈ slots := by decide
theorem mem_slots_AS : (ANALOG, SCALE, Kind.floats) ∈ slots := by decide
theorem mem_slots_AO : (ANALOG, OFFSET, Kind.ints) ∈ slots := by decide
theorem mem_slots_AN : (ANALOG, UNITS, Kind.str) ∈ slots := by decide

theorem andThen_ok_of {α σ} {r : Res α} {a : α} {l : σ} {k : α → Outcome σ} (hr : r = .ok a)
    (hk : ∃ b, k a = .ok b) : ∃ b, r.andThen l k = .ok b := by
  subst hr; simpa using hk

theorem bind_ok_of {σ} {o : Outcome σ} {k : σ → Outcome σ} (ho : ∃ a, o = .ok a)
    (hk : ∀ a, ∃ b, k a = .ok b) : ∃ b, o.bind k = .ok b := by
  obtain ⟨a, rfl⟩ := ho; simpa using hk a

/-- `updateHeader` never throws and never reads out of range when the mandatory parameters are there -/
theorem updateHeaderH_ok (F : FloatOps) {gs : List Group} (hM : Mand gs) (frames : List Frame) (h : Header) :
    ∃ h', updateHeaderH F gs frames h = .ok h' := by
  obtain ⟨pr, hpr⟩ := hM.float0 POINT RATE mem_slots_PR
  obtain ⟨pu, hpu⟩ := hM.int0 POINT USED mem_slots_PU
  obtain ⟨pf, hpf⟩ := hM.int0 POINT FRAMES mem_slots_PF
  obtain ⟨au, hau⟩ := hM.int0 ANALOG USED mem_slots_AU
  obtain ⟨ar, har⟩ := hM.float0 ANALOG RATE mem_slots_AR
  obtain ⟨_, ga, _, hga, hgan⟩ := hM.group ANALOG USED _ mem_slots_AU
  have hsub : ∀ h2 : Header, ∃ h3, subFromRates F gs pr h2 = .ok h3 := by
    intro h2
    unfold subFromRates
    apply andThen_ok_of hga
    simp only [hgan, ne_eq, not_false_eq_true, if_true]
    split
    · exact ⟨_, rfl⟩
    · exact andThen_ok_of har ⟨_, rfl⟩
  unfold updateHeaderH
  apply andThen_ok_of hpr
  apply andThen_ok_of hpu
  apply bind_ok_of
  · cases frames with
    | nil => exact hsub _
    | cons f0 t =>
      simp only
      split
      · exact ⟨_, rfl⟩
      · exact hsub _
  · intro h3
    apply andThen_ok_of hga
    apply bind_ok_of
    · simp only [hgan, ne_eq, not_false_eq_true, if_true]
      exact andThen_ok_of hau ⟨_, rfl⟩
    · intro h4
      apply andThen_ok_of hpf
      split <;> exact ⟨_, rfl⟩

theorem updateHeader_ok_of_Mand (F : FloatOps) {s : C3D} (hM : Mand s.groups) :
    ∃ hd, updateHeader F s = .ok { s with hdr := hd } := by
  obtain ⟨h', hh⟩ := updateHeaderH_ok F hM s.frames s.hdr
  exact ⟨h', by simp [updateHeader, hh, Outcome.lift]⟩

/-! ### the internal setters keep names and give the slot the kind it needs -/

theorem setInts!_name (v : List Int) (q : Param) : (q.setInts! v).name = q.name := rfl
theorem setFloats!_name (v : List UInt32) (q : Param) : (q.setFloats! v).name = q.name := rfl
theorem setStrs!_name (v : List Bytes) (q : Param) : (q.setStrs! v).name = q.name := rfl

theorem keep_intNE (g p : Bytes) (hm : (g, p, Kind.intNE) ∈ slots) (a : Int) :
    ∀ k, (g, p, k) ∈ slots → ∀ q, k.ok q → k.ok (q.setInts! [a]) := by
  intro k hk q _
  rw [← slot_kind g p _ _ hm hk]
  exact ⟨rfl, by simp [Param.setInts!]⟩

theorem keep_str (g p : Bytes) (hm : (g, p, Kind.str) ∈ slots) (v : List Bytes) :
    ∀ k, (g, p, k) ∈ slots → ∀ q, k.ok q → k.ok (q.setStrs! v) := by
  intro k hk q _
  rw [← slot_kind g p _ _ hm hk]; rfl

theorem keep_any (g p : Bytes) (hm : (g, p, Kind.any) ∈ slots) (f : Param → Param) :
    ∀ k, (g, p, k) ∈ slots → ∀ q, k.ok q → k.ok (f q) := by
  intro k hk q _
  rw [← slot_kind g p _ _ hm hk]; trivial

theorem keep_floats (g p : Bytes) (hm : (g, p, Kind.floats) ∈ slots) (v : List UInt32) :
    ∀ k, (g, p, k) ∈ slots → ∀ q, k.ok q → k.ok (q.setFloats! v) := by
  intro k hk q _
  rw [← slot_kind g p _ _ hm hk]; rfl

theorem keep_ints (g p : Bytes) (hm : (g, p, Kind.ints) ∈ slots) (v : List Int) :
    ∀ k, (g, p, k) ∈ slots → ∀ q, k.ok q → k.ok (q.setInts! v) := by
  intro k hk q _
  rw [← slot_kind g p _ _ hm hk]; rfl

/-- the group index found by `gpIdx` is the one `groupIdx` finds -/
theorem gpIdx_group {gs : List Group} {g p : Bytes} {gi pi : Nat} (h : gpIdx gs g p = .ok (gi, pi)) :
    groupIdx gs g = .ok gi := by
  unfold gpIdx at h
  obtain ⟨gi', hgi, h⟩ := Res.bind_ok_iff.mp h
  obtain ⟨grp, _, h⟩ := Res.bind_ok_iff.mp h
  obtain ⟨pi', _, h⟩ := Res.bind_ok_iff.mp h
  cases h; exact hgi

/-- POINT part of `updateParameters`: completes and keeps the invariant -/
theorem labelsFor_ok {gs : List Group} {g : Bytes} {ol : List Bytes} (h : strsOf gs g LABELS = .ok ol) (frames : List Frame) :
    ∃ ol', labelsFor frames gs g = .ok ol' := by
  unfold labelsFor; split
  · exact ⟨ol, h⟩
  · exact ⟨[], rfl⟩

theorem updatePointParams_ok {gs : List Group} (hM : Mand gs) (frames : List Frame) (np : List Bytes) :
    ∃ g', updatePointParams gs frames np = .ok g' ∧ Mand g' := by
  obtain ⟨gP, iF, hiF⟩ := hM.gpIdx POINT FRAMES _ mem_slots_PF
  obtain ⟨fr, hfr⟩ := hM.int0 POINT FRAMES mem_slots_PF
  have hgP : groupIdx gs POINT = .ok gP := gpIdx_group hiF
  unfold updatePointParams
  simp only [hiF, hfr, Res.andThen_ok]
  -- after the FRAMES rewrite
  have hM1 : Mand (if frames.length ≠ intToU64 fr then modParam gs gP iF (·.setInts! [u64ToI32 frames.length]) else gs) := by
    split
    · exact Mand_modParam hM POINT FRAMES gP iF _ hiF (setInts!_name _) (keep_intNE _ _ mem_slots_PF _)
    · exact hM
  have hG1 : groupIdx (if frames.length ≠ intToU64 fr then modParam gs gP iF (·.setInts! [u64ToI32 frames.length]) else gs) POINT = .ok gP := by
    split
    · rw [groupIdx_modParam]; exact hgP
    · exact hgP
  generalize (if frames.length ≠ intToU64 fr then modParam gs gP iF (·.setInts! [u64ToI32 frames.length]) else gs) = g1 at hM1 hG1 ⊢
  obtain ⟨ol0, hol0⟩ := hM1.strs POINT LABELS mem_slots_PL
  obtain ⟨ol, hol⟩ := labelsFor_ok hol0 frames
  obtain ⟨us, hus⟩ := hM1.int0 POINT USED mem_slots_PU
  simp only [hol, hus, Res.andThen_ok]
  split
  · obtain ⟨gP', iU, hiU⟩ := hM1.gpIdx POINT USED _ mem_slots_PU
    have e1 : gP' = gP := by have := gpIdx_group hiU; rw [hG1] at this; cases this; rfl
    rw [e1] at hiU
    simp only [hiU, Res.andThen_ok]
    generalize hf2 : (fun q : Param => q.setInts! [u64ToI32 (pointNames frames ol np).length]) = f2
    have hn2 : ∀ q, (f2 q).name = q.name := by subst hf2; intro q; rfl
    have hM2 : Mand (modParam g1 gP iU f2) :=
      Mand_modParam hM1 POINT USED gP iU _ hiU hn2 (by subst hf2; exact keep_intNE _ _ mem_slots_PU _)
    obtain ⟨gL, iL, hiL⟩ := hM2.gpIdx POINT LABELS _ mem_slots_PL
    obtain ⟨gD, iD, hiD⟩ := hM2.gpIdx POINT DESCRIPTIONS _ mem_slots_PD
    obtain ⟨gN, iN, hiN⟩ := hM2.gpIdx POINT UNITS _ mem_slots_PN
    have hG2 : groupIdx (modParam g1 gP iU f2) POINT = .ok gP := by rw [groupIdx_modParam]; exact hG1
    have eL : gL = gP := by have := gpIdx_group hiL; rw [hG2] at this; cases this; rfl
    have eD : gD = gP := by have := gpIdx_group hiD; rw [hG2] at this; cases this; rfl
    have eN : gN = gP := by have := gpIdx_group hiN; rw [hG2] at this; cases this; rfl
    rw [eL] at hiL; rw [eD] at hiD; rw [eN] at hiN
    simp only [hiL, Res.andThen_ok]
    refine ⟨_, rfl, ?_⟩
    have hM3 := Mand_modParam hM2 POINT LABELS gP iL (·.setStrs! (pointNames frames ol np)) hiL (setStrs!_name _) (keep_str _ _ mem_slots_PL _)
    have hiD3 : gpIdx (modParam (modParam g1 gP iU f2) gP iL (·.setStrs! (pointNames frames ol np))) POINT DESCRIPTIONS = .ok (gP, iD) := by
      rw [gpIdx_modParam _ _ _ _ (setStrs!_name _)]; exact hiD
    have hM4 := Mand_modParam hM3 POINT DESCRIPTIONS gP iD (·.setStrs! ((pointNames frames ol np).map fun _ => [])) hiD3 (setStrs!_name _) (keep_any _ _ mem_slots_PD _)
    have hiN4 : gpIdx (modParam (modParam (modParam g1 gP iU f2) gP iL (·.setStrs! (pointNames frames ol np))) gP iD (·.setStrs! ((pointNames frames ol np).map fun _ => []))) POINT UNITS = .ok (gP, iN) := by
      rw [gpIdx_modParam _ _ _ _ (setStrs!_name _), gpIdx_modParam _ _ _ _ (setStrs!_name _)]; exact hiN
    simp only [modIfPresent, hiD3, hiN4]
    exact Mand_modParam hM4 POINT UNITS gP iN (·.setStrs! ((pointNames frames ol np).map fun _ => mm)) hiN4 (setStrs!_name _) (keep_any _ _ mem_slots_PN _)
  · exact ⟨g1, rfl, hM1⟩


/-- reading a slot through the indices `gpIdx` found gives the parameter `getParam` finds -/
theorem Mand.read {gs : List Group} (h : Mand gs) (g p : Bytes) (k : Kind) (hm : (g, p, k) ∈ slots)
    {gi pi : Nat} (hidx : Ezc3d.gpIdx gs g p = .ok (gi, pi)) :
    ∃ grp q, atIdx gs gi = .ok grp ∧ atIdx grp.params pi = .ok q ∧ k.ok q := by
  obtain ⟨q, hq, hk⟩ := h.get g p k hm
  obtain ⟨gi', pi', grp, hidx', _, hgrp, hq'⟩ := getParam_ok_gpIdx hq
  rw [hidx] at hidx'; cases hidx'
  exact ⟨grp, q, hgrp, hq', hk⟩

/-- ANALOG part of `updateParameters`: completes and keeps the invariant -/
theorem updateAnalogParams_ok {gs : List Group} (hM : Mand gs) (frames : List Frame) (na : List Bytes) :
    ∃ g', updateAnalogParams gs frames na = .ok g' ∧ Mand g' := by
  obtain ⟨gA, _, hgA, _, _⟩ := hM.group ANALOG USED _ mem_slots_AU
  obtain ⟨ol0, hol0⟩ := hM.strs ANALOG LABELS mem_slots_AL
  obtain ⟨ol, hol⟩ := labelsFor_ok hol0 frames
  obtain ⟨us, hus⟩ := hM.int0 ANALOG USED mem_slots_AU
  unfold updateAnalogParams
  simp only [hgA, hol, hus, Res.andThen_ok]
  split
  · generalize channelNames frames ol na = names
    obtain ⟨g1, iU, hiU⟩ := hM.gpIdx ANALOG USED _ mem_slots_AU
    have e1 : g1 = gA := by have := gpIdx_group hiU; rw [hgA] at this; cases this; rfl
    rw [e1] at hiU
    simp only [hiU, Res.andThen_ok]
    have hM1 := Mand_modParam hM ANALOG USED gA iU (·.setInts! [u64ToI32 names.length]) hiU (setInts!_name _) (keep_intNE _ _ mem_slots_AU _)
    have hG1 : groupIdx (modParam gs gA iU (·.setInts! [u64ToI32 names.length])) ANALOG = .ok gA := by rw [groupIdx_modParam]; exact hgA
    generalize modParam gs gA iU (·.setInts! [u64ToI32 names.length]) = a1 at hM1 hG1 ⊢
    obtain ⟨gL, iL, hiL⟩ := hM1.gpIdx ANALOG LABELS _ mem_slots_AL
    obtain ⟨gD, iD, hiD⟩ := hM1.gpIdx ANALOG DESCRIPTIONS _ mem_slots_AD
    have eL : gL = gA := by have := gpIdx_group hiL; rw [hG1] at this; cases this; rfl
    have eD : gD = gA := by have := gpIdx_group hiD; rw [hG1] at this; cases this; rfl
    rw [eL] at hiL; rw [eD] at hiD
    simp only [hiL, Res.andThen_ok]
    have hM2 := Mand_modParam hM1 ANALOG LABELS gA iL (·.setStrs! names) hiL (setStrs!_name _) (keep_str _ _ mem_slots_AL _)
    have hiD2 : gpIdx (modParam a1 gA iL (·.setStrs! names)) ANALOG DESCRIPTIONS = .ok (gA, iD) := by
      rw [gpIdx_modParam _ _ _ _ (setStrs!_name _)]; exact hiD
    simp only [modIfPresent, hiD2]
    have hM3 := Mand_modParam hM2 ANALOG DESCRIPTIONS gA iD (·.setStrs! (names.map fun _ => [])) hiD2 (setStrs!_name _) (keep_any _ _ mem_slots_AD _)
    have hG3 : groupIdx (modParam (modParam a1 gA iL (·.setStrs! names)) gA iD (·.setStrs! (names.map fun _ => []))) ANALOG = .ok gA := by
      rw [groupIdx_modParam, groupIdx_modParam]; exact hG1
    generalize modParam (modParam a1 gA iL (·.setStrs! names)) gA iD (·.setStrs! (names.map fun _ => [])) = a3 at hM3 hG3 ⊢
    -- SCALE
    obtain ⟨gS, iS, hiS⟩ := hM3.gpIdx ANALOG SCALE _ mem_slots_AS
    have eS : gS = gA := by have := gpIdx_group hiS; rw [hG3] at this; cases this; rfl
    rw [eS] at hiS
    obtain ⟨grpS, qS, hgS, hqS, hkS⟩ := hM3.read ANALOG SCALE _ mem_slots_AS hiS
    have htS : qS.type = .float := hkS
    simp only [hiS, Res.andThen_ok, hgS, hqS, Res.bind_ok, Param.asFloat, htS, if_true]
    have hM4 := Mand_modParam hM3 ANALOG SCALE gA iS (·.setFloats! (qS.floats ++ List.replicate (names.length - qS.floats.length) 0x3F800000)) hiS (setFloats!_name _) (keep_floats _ _ mem_slots_AS _)
    have hG4 : groupIdx (modParam a3 gA iS (·.setFloats! (qS.floats ++ List.replicate (names.length - qS.floats.length) 0x3F800000))) ANALOG = .ok gA := by
      rw [groupIdx_modParam]; exact hG3
    generalize modParam a3 gA iS (·.setFloats! (qS.floats ++ List.replicate (names.length - qS.floats.length) 0x3F800000)) = a4 at hM4 hG4 ⊢
    -- OFFSET
    obtain ⟨gO, iO, hiO⟩ := hM4.gpIdx ANALOG OFFSET _ mem_slots_AO
    have eO : gO = gA := by have := gpIdx_group hiO; rw [hG4] at this; cases this; rfl
    rw [eO] at hiO
    obtain ⟨grpO, qO, hgO, hqO, hkO⟩ := hM4.read ANALOG OFFSET _ mem_slots_AO hiO
    have htO : qO.type = .int := hkO
    simp only [hiO, Res.andThen_ok, hgO, hqO, Res.bind_ok, Param.asInt, htO, if_true]
    have hM5 := Mand_modParam hM4 ANALOG OFFSET gA iO (·.setInts! (qO.ints ++ List.replicate (names.length - qO.ints.length) 0)) hiO (setInts!_name _) (keep_ints _ _ mem_slots_AO _)
    have hG5 : groupIdx (modParam a4 gA iO (·.setInts! (qO.ints ++ List.replicate (names.length - qO.ints.length) 0))) ANALOG = .ok gA := by
      rw [groupIdx_modParam]; exact hG4
    generalize modParam a4 gA iO (·.setInts! (qO.ints ++ List.replicate (names.length - qO.ints.length) 0)) = a5 at hM5 hG5 ⊢
    -- UNITS
    obtain ⟨gN, iN, hiN⟩ := hM5.gpIdx ANALOG UNITS _ mem_slots_AN
    have eN : gN = gA := by have := gpIdx_group hiN; rw [hG5] at this; cases this; rfl
    rw [eN] at hiN
    obtain ⟨grpN, qN, hgN, hqN, hkN⟩ := hM5.read ANALOG UNITS _ mem_slots_AN hiN
    have htN : qN.type = .char := hkN
    simp only [hiN, Res.andThen_ok, hgN, hqN, Res.bind_ok, Param.asString, htN, if_true]
    exact ⟨_, rfl, Mand_modParam hM5 ANALOG UNITS gA iN _ hiN (setStrs!_name _) (keep_str _ _ mem_slots_AN _)⟩
  · exact ⟨gs, rfl, hM⟩

/-- `updateParameters` on an object whose mandatory parameters are in place: it completes (unless its
    own documented guard on pending declarations fires), touches only parameters and header, and
    re-establishes the invariant -/
theorem updateParameters_ok_of_Mand (F : FloatOps) {s : C3D} (hM : Mand s.groups) (np na : List Bytes)
    (hg : ¬ (s.frames.length ≠ 0 ∧ (np.length > 0 ∨ na.length > 0))) :
    ∃ g hd, updateParameters F s np na = .ok { s with groups := g, hdr := hd } ∧ Mand g := by
  obtain ⟨g1, h1, hM1⟩ := updatePointParams_ok hM s.frames np
  obtain ⟨g2, h2, hM2⟩ := updateAnalogParams_ok hM1 s.frames na
  unfold updateParameters
  rw [if_neg (by intro h; exact hg ⟨h.1, Or.inl h.2⟩), if_neg (by intro h; exact hg ⟨h.1, Or.inr h.2⟩)]
  simp only [h1, Outcome.bind_ok, h2, Outcome.lift]
  obtain ⟨hd, hh⟩ := updateHeader_ok_of_Mand F (s := { s with groups := g2 }) hM2
  exact ⟨g2, hd, by simp [hh], hM2⟩

end Ezc3d
