import Ezc3dVerif.Proofs.AnyOrder
/-
  The vendor layouts: Z zero bytes before the header, the parameter section in block `pa` (not
  necessarily 2), a zeroed prologue (Qualisys), records in any order.
-/
namespace Ezc3d
open C12 N

/-- the header record with an arbitrary parameter-block byte, right-nested, followed by `rest` -/
def Header.bytesP (h : Header) (pa ds : Nat) (rest : Bytes) : Bytes :=
  low8N pa :: 0x50 :: (le16N h.nbPoints ++ (le16N h.nbAnalogsMeas ++ (le16N (u64 (h.firstFrame + 1)) ++ (le16N (u64 (h.lastFrame + 1)) ++
    (le16N h.maxGap ++ (le32 h.scale ++ (le16N ds ++ (le16N h.nbAnalogByFrame ++ (f32le h.rate ++ (List.replicate 270 0 ++
    (le16N h.keyLabelPresent ++ (le16N h.firstBlockKeyLabel ++ (le16N h.fourCharPresent ++ (le16N h.nbEvents ++ (List.replicate 2 0 ++
    ((h.evTimes.map f32le).flatten ++ ((h.evDisplay.map le16N).flatten ++ (List.replicate 2 0 ++ ((h.evLabels.map label4).flatten ++
    (List.replicate 44 0 ++ rest))))))))))))))))))))

theorem Header.bytesP_two (h : Header) (ds : Nat) (rest : Bytes) : h.bytesP 2 ds rest = h.bytesR ds rest := rfl

theorem Header.bytesP_length (h : Header) (pa ds : Nat) (rest : Bytes) (hk : HdrOK h) :
    (h.bytesP pa ds rest).length = 512 + rest.length := by
  unfold Header.bytesP
  simp only [List.length_cons, List.length_append, List.length_replicate, le16N, le16_length, f32le_length]
  rw [C03.flatten_map_len f32le 4 (fun _ => rfl), C03.flatten_map_len le16N 2 (fun _ => rfl),
    C03.flatten_map_len label4 4 C03.label4_length, hk.times, hk.displen, hk.lablen]
  have : (le32 h.scale).length = 4 := rfl
  omega

/-- the leading-zero loop: `k` more zeros, then the non-zero parameter-block byte -/
theorem skipZeros_zeros (pa : Nat) (hpa1 : 1 ≤ pa) (hpa2 : pa < 256) (t : Bytes) : ∀ (k fuel : Nat) (s : InStream) (z : Nat),
    k < fuel → s.failed = false → s.eof = false → s.rest = List.replicate k 0 ++ (low8N pa :: t) →
    skipZeros fuel s z = .ok ((pa, z + k + 1), s.adv t (k + 1)) := by
  intro k
  induction k with
  | zero =>
    intro fuel s z hfu hf he hr
    cases fuel with
    | zero => omega
    | succ f =>
      simp only [List.replicate_zero, List.nil_append] at hr
      unfold skipZeros
      rw [readUint1_adv s pa t hpa2 hf hr]
      simp only [adv_eof, he, Bool.false_eq_true, if_false]
      rw [if_neg (by omega)]
  | succ n ih =>
    intro fuel s z hfu hf he hr
    cases fuel with
    | zero => omega
    | succ f =>
      simp only [List.replicate_succ, List.cons_append] at hr
      unfold skipZeros
      rw [readUint1_adv s 0 (List.replicate n 0 ++ low8N pa :: t) (by decide) hf (by rw [hr]; rfl)]
      simp only [adv_eof, he, Bool.false_eq_true, if_false, if_true]
      rw [ih f _ (z + 1) (by omega) (by simpa) (by simpa) rfl]
      simp only [adv_adv]
      congr 2
      · congr 1; omega
      · congr 1; omega

/-- the header as loaded from a file with `Z` leading zeros and the parameters in block `pa` -/
def Header.loadedAt (h : Header) (Z pa ds : Nat) : Header := { h with zeros := Z, paramAddr := pa, checksum := 0x50, dataStart := ds }

/-- THE HEADER READS BACK, any number of zero bytes before it, any parameter block -/
theorem Header_read_layout (h : Header) (Z pa ds : Nat) (rest file : Bytes) (s0 : InStream) (hk : HdrOK h) (hds : ds < 65536)
    (hpa1 : 1 ≤ pa) (hpa2 : pa < 256)
    (hfile : OnFile s0 file) (hfe : file = List.replicate Z 0 ++ h.bytesP pa ds rest) :
    Header.read s0 = .ok (h.loadedAt Z pa ds, ({ s0 with rest := file, pos := 0, eof := false } : InStream).adv rest (Z + 512)) := by
  unfold Header.read
  have hseek := seekBeg_onFile s0 file hfile 0
  simp only [List.drop_zero] at hseek
  rw [show ((0 : Int)) = ((0 : Nat) : Int) from rfl, hseek]
  generalize hs1 : ({ s0 with rest := file, pos := 0, eof := false } : InStream) = s
  have hf : s.failed = false := by rw [← hs1]; exact hfile.live
  have he : s.eof = false := by rw [← hs1]
  have hr : s.rest = List.replicate Z 0 ++ h.bytesP pa ds rest := by rw [← hs1]; exact hfe
  unfold Header.bytesP at hr
  let t21 := List.replicate 44 0 ++ rest
  let t20 := (h.evLabels.map label4).flatten ++ t21
  let t19 := List.replicate 2 0 ++ t20
  let t18 := (h.evDisplay.map le16N).flatten ++ t19
  let t17 := (h.evTimes.map f32le).flatten ++ t18
  let t16 := List.replicate 2 0 ++ t17
  let t15 := le16N h.nbEvents ++ t16
  let t14 := le16N h.fourCharPresent ++ t15
  let t13 := le16N h.firstBlockKeyLabel ++ t14
  let t12 := le16N h.keyLabelPresent ++ t13
  let t11 := List.replicate 270 0 ++ t12
  let t10 := f32le h.rate ++ t11
  let t9 := le16N h.nbAnalogByFrame ++ t10
  let t8 := le16N ds ++ t9
  let t7 := le32 h.scale ++ t8
  let t6 := le16N h.maxGap ++ t7
  let t5 := le16N (u64 (h.lastFrame + 1)) ++ t6
  let t4 := le16N (u64 (h.firstFrame + 1)) ++ t5
  let t3 := le16N h.nbAnalogsMeas ++ t4
  let t2 := le16N h.nbPoints ++ t3
  let t1 : Bytes := 0x50 :: t2
  have hr0 : s.rest = List.replicate Z 0 ++ (low8N pa :: t1) := hr
  have A : ∀ (t : Bytes) (k : Nat), (s.adv t k).failed = false := fun t k => by simpa
  -- the first non-zero byte
  have hfirst : (let (pa0, s1) := s.readUint 1
                 (if pa0 ≠ 0 then (.ok ((pa0, 0), s1) : RRes (Nat × Nat)) else skipZeros (s1.rest.length + 1) s1 0))
      = .ok ((pa, Z), s.adv t1 (Z + 1)) := by
    cases Z with
    | zero =>
      simp only [List.replicate_zero, List.nil_append] at hr0
      rw [readUint1_adv s pa t1 hpa2 hf hr0]
      simp only
      rw [if_pos (by omega)]
    | succ k =>
      simp only [List.replicate_succ, List.cons_append] at hr0
      rw [readUint1_adv s 0 (List.replicate k 0 ++ low8N pa :: t1) (by decide) hf (by rw [hr0]; rfl)]
      simp only [ne_eq, not_true_eq_false, if_false]
      rw [skipZeros_zeros pa hpa1 hpa2 t1 k _ _ 0 (by simp; omega) (A _ _) (by simpa) rfl]
      simp only [adv_adv]
      congr 2
      · congr 1; omega
      · congr 1; omega
  have r1 : (s.adv t1 (Z + 1)).readUint 1 = (0x50, s.adv t2 (Z + 2)) := by
    unfold InStream.readUint
    have := read_adv' (s.adv t1 (Z + 1)) 1 [0x50] t2 rfl (A _ _) rfl
    rw [this]; simp [hex80]
  have r2 : (s.adv t2 (Z + 2)).readUint 2 = (h.nbPoints, s.adv t3 (Z + 4)) := by
    rw [readUint2_adv _ _ t3 hk.np (A _ _) rfl]; simp only [adv_adv]
  have r3 : (s.adv t3 (Z + 4)).readUint 2 = (h.nbAnalogsMeas, s.adv t4 (Z + 6)) := by
    rw [readUint2_adv _ _ t4 hk.nam (A _ _) rfl]; simp only [adv_adv]
  have r4 : (s.adv t4 (Z + 6)).readUint 2 = (u64 (h.firstFrame + 1), s.adv t5 (Z + 8)) := by
    rw [readUint2_adv _ _ t5 (by have := hk.ff; unfold u64 two64; omega) (A _ _) rfl]; simp only [adv_adv]
  have r5 : (s.adv t5 (Z + 8)).readUint 2 = (u64 (h.lastFrame + 1), s.adv t6 (Z + 10)) := by
    rw [readUint2_adv _ _ t6 hk.lf (A _ _) rfl]; simp only [adv_adv]
  have r6 : (s.adv t6 (Z + 10)).readUint 2 = (h.maxGap, s.adv t7 (Z + 12)) := by
    rw [readUint2_adv _ _ t7 hk.gap (A _ _) rfl]; simp only [adv_adv]
  have r7 : (s.adv t7 (Z + 12)).readInt 4 = (h.scale, s.adv t8 (Z + 16)) := by
    rw [readInt4_adv _ _ t8 hk.scale1 hk.scale2 (A _ _) rfl]; simp only [adv_adv]
  have r8 : (s.adv t8 (Z + 16)).readUint 2 = (ds, s.adv t9 (Z + 18)) := by
    rw [readUint2_adv _ _ t9 hds (A _ _) rfl]; simp only [adv_adv]
  have r9 : (s.adv t9 (Z + 18)).readUint 2 = (h.nbAnalogByFrame, s.adv t10 (Z + 20)) := by
    rw [readUint2_adv _ _ t10 hk.abf (A _ _) rfl]; simp only [adv_adv]
  have r10 : (s.adv t10 (Z + 20)).readFloat = (h.rate, s.adv t11 (Z + 24)) := by
    rw [readFloat_adv _ _ t11 (A _ _) rfl]; simp only [adv_adv]
  have r11 : (s.adv t11 (Z + 24)).readInt 270 = (0, s.adv t12 (Z + 294)) := by
    rw [readIntZeros_adv _ 270 t12 (A _ _) rfl]; simp only [adv_adv]
  have r12 : (s.adv t12 (Z + 294)).readUint 2 = (h.keyLabelPresent, s.adv t13 (Z + 296)) := by
    rw [readUint2_adv _ _ t13 hk.klp (A _ _) rfl]; simp only [adv_adv]
  have r13 : (s.adv t13 (Z + 296)).readUint 2 = (h.firstBlockKeyLabel, s.adv t14 (Z + 298)) := by
    rw [readUint2_adv _ _ t14 hk.fbk (A _ _) rfl]; simp only [adv_adv]
  have r14 : (s.adv t14 (Z + 298)).readUint 2 = (h.fourCharPresent, s.adv t15 (Z + 300)) := by
    rw [readUint2_adv _ _ t15 hk.fcp (A _ _) rfl]; simp only [adv_adv]
  have r15 : (s.adv t15 (Z + 300)).readUint 2 = (h.nbEvents, s.adv t16 (Z + 302)) := by
    rw [readUint2_adv _ _ t16 hk.nev (A _ _) rfl]; simp only [adv_adv]
  have r16 : (s.adv t16 (Z + 302)).readInt 2 = (0, s.adv t17 (Z + 304)) := by
    rw [readIntZeros_adv _ 2 t17 (A _ _) rfl]; simp only [adv_adv]
  have r17 : readMany InStream.readFloat 18 (s.adv t17 (Z + 304)) = (h.evTimes, s.adv t18 (Z + 376)) := by
    have := readMany_float h.evTimes (s.adv t17 (Z + 304)) t18 (A _ _) rfl
    rw [hk.times] at this; rw [this]; simp only [adv_adv]
  have r18 : readMany (fun s => s.readUint 2) 9 (s.adv t18 (Z + 376)) = (h.evDisplay, s.adv t19 (Z + 394)) := by
    have := readMany_uint2 h.evDisplay (s.adv t18 (Z + 376)) t19 hk.disp (A _ _) rfl
    rw [hk.displen] at this; rw [this]; simp only [adv_adv]
  have r19 : (s.adv t19 (Z + 394)).readInt 2 = (0, s.adv t20 (Z + 396)) := by
    rw [readIntZeros_adv _ 2 t20 (A _ _) rfl]; simp only [adv_adv]
  have r20 : readMany (fun s => s.readString 4) 18 (s.adv t20 (Z + 396)) = (h.evLabels, s.adv t21 (Z + 468)) := by
    have := readMany_labels h.evLabels (s.adv t20 (Z + 396)) t21 hk.labels (A _ _) rfl
    rw [hk.lablen] at this; rw [this]; simp only [adv_adv]
  have r21 : (s.adv t21 (Z + 468)).readInt 44 = (0, s.adv rest (Z + 512)) := by
    rw [readIntZeros_adv _ 44 rest (A _ _) rfl]; simp only [adv_adv]
  dsimp only at hfirst ⊢
  rw [hfirst]
  simp only [r1, r2, r3, r4, r5, r6, r7, r8, r9, r10, r11, r12, r13, r14, r15, r16, r17, r18, r19, r20, r21,
    ne_eq, not_true_eq_false, if_false]
  rw [subU64_succ h.firstFrame (by have := hk.ff; unfold two64; omega), subU64_succ h.lastFrame hk.lf64]
  congr 2
  unfold Header.loadedAt
  cases h
  simp only [Header.mk.injEq, true_and]
  have e1 := hk.e1; have e2 := hk.e2; have e3 := hk.e3; have e4 := hk.e4
  simp only at e1 e2 e3 e4
  simp [e1, e2, e3, e4]

/-! ### the parameter section anywhere, with a plain or a zeroed prologue -/

theorem hex0 : hex2uint [(0 : UInt8)] = 0 := by decide

/-- the four bytes heading the section; `zp`: the first two bytes are zero (Qualisys) and the loader patches them -/
theorem readPrologue_layout (hdr : Header) (s0 : InStream) (file pre t0 : Bytes) (nb : Nat) (zp : Bool)
    (hpre : pre.length = 512 * (hdr.paramAddr - 1) + hdr.zeros) (hpa : 1 ≤ hdr.paramAddr) (hsmall : file.length + 2 < two31)
    (hnb : nb < 256) (hfile : OnFile s0 file)
    (hfe : file = pre ++ ((if zp then 0 else low8N 1) :: (if zp then 0 else 0x50) :: low8N nb :: 84 :: t0)) :
    readPrologue s0 hdr = ({ start := 1, checksum := 0x50, nbBlocks := nb, processor := 84 },
      ({ s0 with rest := file.drop pre.length, pos := pre.length, eof := false } : InStream).adv t0 4) := by
  unfold readPrologue
  have hfl : pre.length ≤ file.length := by rw [hfe]; simp
  have hseek : u64ToI32 (u64 (512 * subU64 hdr.paramAddr 1 + hdr.zeros)) = ((pre.length : Nat) : Int) := by
    have e1 : subU64 hdr.paramAddr 1 = hdr.paramAddr - 1 := by unfold subU64 two64 two31 at *; omega
    rw [e1, ← hpre]
    unfold u64ToI32 u64 two64 two32 two31 at *
    simp only
    rw [Nat.mod_eq_of_lt (by omega), Nat.mod_eq_of_lt (by omega), if_pos (by omega)]
  rw [hseek, seekBeg_onFile s0 file hfile pre.length]
  have hdrop : file.drop pre.length = (if zp then 0 else low8N 1) :: (if zp then 0 else 0x50) :: low8N nb :: 84 :: t0 := by
    rw [hfe, List.drop_left]
  generalize hs1 : ({ s0 with rest := file.drop pre.length, pos := pre.length, eof := false } : InStream) = s1
  have hs1f : s1.failed = false := by rw [← hs1]; exact hfile.live
  have hs1r : s1.rest = (if zp then 0 else low8N 1) :: (if zp then 0 else 0x50) :: low8N nb :: 84 :: t0 := by rw [← hs1]; exact hdrop
  have A : ∀ (t : Bytes) (k : Nat), (s1.adv t k).failed = false := fun t k => by simpa
  dsimp only
  have r1 : s1.readUint 1 = ((if zp then 0 else 1), s1.adv ((if zp then 0 else 0x50) :: low8N nb :: 84 :: t0) 1) := by
    unfold InStream.readUint
    rw [read_adv' s1 1 [(if zp then 0 else low8N 1)] _ rfl hs1f (by simpa using hs1r)]
    cases zp <;> simp [hex0, low8N_read]
  have r2 : (s1.adv ((if zp then 0 else 0x50) :: low8N nb :: 84 :: t0) 1).readUint 1 = ((if zp then 0 else 0x50), s1.adv (low8N nb :: 84 :: t0) 2) := by
    unfold InStream.readUint
    have := read_adv' (s1.adv ((if zp then 0 else 0x50) :: low8N nb :: 84 :: t0) 1) 1 [(if zp then (0 : UInt8) else 0x50)] (low8N nb :: 84 :: t0) rfl (A _ _) rfl
    rw [this]
    cases zp <;> simp [hex0, hex80]
  have r3 : (s1.adv (low8N nb :: 84 :: t0) 2).readUint 1 = (nb, s1.adv (84 :: t0) 3) := by
    rw [readUint1_adv _ nb (84 :: t0) hnb (A _ _) rfl]; simp only [adv_adv]
  have r4 : (s1.adv (84 :: t0) 3).readUint 1 = (84, s1.adv t0 4) := by
    unfold InStream.readUint
    have := read_adv' (s1.adv (84 :: t0) 3) 1 [84] t0 rfl (A _ _) rfl
    rw [this]
    simp [hex84]
  rw [r1]; simp only
  rw [r2]; simp only
  rw [r3]; simp only
  rw [r4]; simp only
  cases zp <;> simp

theorem recs_count_le (rs : List Rec) : rs.length ≤ (recsBytes rs).length := by
  unfold recsBytes
  induction rs with
  | nil => simp
  | cons r t ih =>
    simp only [List.map_cons, List.flatten_cons, List.length_append, List.length_cons]
    have := Rec.bytes_length_pos r
    omega

/-- THE PARAMETER SECTION, any records in any order, anywhere in the file -/
theorem readParameters_layout (hdr : Header) (s0 : InStream) (file pre pad : Bytes) (nb : Nat) (zp : Bool) (rs : List Rec)
    (hpre : pre.length = 512 * (hdr.paramAddr - 1) + hdr.zeros) (hpa : 2 ≤ hdr.paramAddr) (hnb : nb < 256)
    (hv : ∀ r ∈ rs, r.Valid) (hfile : OnFile s0 file)
    (hfe : file = pre ++ ((if zp then 0 else low8N 1) :: (if zp then 0 else 0x50) :: low8N nb :: 84 :: (recsBytes rs ++ 0 :: pad)))
    (hsmall : file.length + 2 < two31) :
    ∃ s', readParameters s0 hdr = .ok (({ start := 1, checksum := 0x50, nbBlocks := nb, processor := 84 }, rs.foldl applyRec []), s')
      ∧ OnFile s' file := by
  unfold readParameters
  rw [readPrologue_layout hdr s0 file pre (recsBytes rs ++ 0 :: pad) nb zp hpre (by omega) hsmall hnb hfile hfe]
  have hdrop : file.drop pre.length = (if zp then 0 else low8N 1) :: (if zp then 0 else 0x50) :: low8N nb :: 84 :: (recsBytes rs ++ 0 :: pad) := by
    rw [hfe, List.drop_left]
  generalize hs1 : ({ s0 with rest := file.drop pre.length, pos := pre.length, eof := false } : InStream) = s1
  have hs1f : s1.failed = false := by rw [← hs1]; exact hfile.live
  have hs1r : s1.rest = (if zp then 0 else low8N 1) :: (if zp then 0 else 0x50) :: low8N nb :: 84 :: (recsBytes rs ++ 0 :: pad) := by rw [← hs1]; exact hdrop
  have hs1p : s1.pos = pre.length := by rw [← hs1]
  have hs1l : s1.len = file.length := by rw [← hs1]; exact hfile.len_eq
  have hfl : file.length = pre.length + (4 + ((recsBytes rs).length + (1 + pad.length))) := by
    rw [hfe]; simp only [List.length_append, List.length_cons]; omega
  have hso : StreamOK (s1.adv (recsBytes rs ++ 0 :: pad) 4) := by
    refine ⟨by simpa, ?_, by simpa [hs1l] using hsmall, by simp [hs1p]⟩
    unfold InStream.Sync
    simp only [adv_len, adv_pos, adv_rest, hs1l, hs1p, hfl, List.length_append, List.length_cons]; omega
  simp only
  rw [if_neg (by decide)]
  have hnext : (s1.adv (recsBytes rs ++ 0 :: pad) 4).tell + u64ToI32 1 - 1 = (((s1.adv (recsBytes rs ++ 0 :: pad) 4).pos : Nat) : Int) := by
    rw [tell_live _ hso.live]; have : u64ToI32 1 = 1 := by decide
    rw [this]; omega
  rw [hnext]
  have hcount := recs_count_le rs
  have hfuel : 2 * (s1.adv (recsBytes rs ++ 0 :: pad) 4).rest.length + 2
      = (((2 * (s1.adv (recsBytes rs ++ 0 :: pad) 4).rest.length + 2) - rs.length - 1) + 1) + rs.length := by
    simp only [adv_rest, List.length_append, List.length_cons]; omega
  rw [hfuel]
  rw [readRecords_any rs _ _ [] (0 :: pad) hv hso rfl]
  have hso2 := hso.adv (recsBytes rs) (0 :: pad) rfl
  have hpos2 : (((s1.adv (recsBytes rs ++ 0 :: pad) 4).pos + (recsBytes rs).length : Nat) : Int)
      = (((s1.adv (recsBytes rs ++ 0 :: pad) 4).adv (0 :: pad) (recsBytes rs).length).pos : Int) := by simp; omega
  rw [hpos2, readRecords_terminator _ _ _ pad hso2 rfl]
  refine ⟨_, rfl, ⟨by simpa using hs1f, ?_, ?_⟩⟩
  · simp only [adv_file]; rw [← hs1]; exact hfile.file_eq
  · simp only [adv_len]; exact hs1l

/-- the data section, wherever the parameter section was -/
theorem readData_layout (s2 : InStream) (file pre sec : Bytes) (frames : List Frame) (h : Header) (ph : PHeader) (gs : List Group)
    (pl al : List Bytes)
    (hfile : OnFile s2 file) (hfe : file = pre ++ sec ++ writeData frames)
    (hpre : pre.length = 512 * (h.paramAddr - 1) + h.zeros) (hpa : 1 ≤ h.paramAddr)
    (hsec : sec.length = 512 * ph.nbBlocks) (hnb : 1 ≤ ph.nbBlocks) (hsmall : file.length + 2 < two31)
    (hnf : h.nbFrames = frames.length) (hnfs : frames.length ≤ 65536)
    (hpl : (if h.nbPoints > 0 then strsOf gs POINT LABELS else .ok []) = .ok pl)
    (hal : (if h.nbAnalogs > 0 then strsOf gs ANALOG LABELS else .ok []) = .ok al)
    (hscale : h.scale < 0) (hnp : h.nbPoints < 65536) (habf : h.nbAnalogByFrame < 65536) (hna : h.nbAnalogs < 65536)
    (hshape : ∀ f ∈ frames, f.hasShape h.nbPoints h.nbAnalogByFrame h.nbAnalogs) :
    ∃ s', readData s2 h ph gs = .ok (frames.map (relabelFrame pl al), s') := by
  unfold readData
  have hsl : sec.length ≥ 512 := by omega
  have hfl : file.length = pre.length + sec.length + (writeData frames).length := by
    rw [hfe]; simp only [List.length_append]
  have hoff : u64ToI32 (u64 (512 * subU64 h.paramAddr 1 + h.zeros + 512 * ph.nbBlocks + two64 - 1)) = ((pre.length + sec.length - 1 : Nat) : Int) := by
    have e1 : subU64 h.paramAddr 1 = h.paramAddr - 1 := by unfold subU64 two64 two31 at *; omega
    rw [e1]
    have e2 : u64 (512 * (h.paramAddr - 1) + h.zeros + 512 * ph.nbBlocks + two64 - 1) = pre.length + sec.length - 1 := by
      unfold u64 two64 two31 at *; omega
    rw [e2]
    unfold u64ToI32 two32 two31 at *
    simp only
    rw [Nat.mod_eq_of_lt (by omega), if_pos (by omega)]
  rw [hoff]
  dsimp only
  rw [seekBeg_onFile s2 file hfile (pre.length + sec.length - 1)]
  have hlast : ∃ x, ∃ p2 : Bytes, sec = p2 ++ [x] ∧ p2.length = sec.length - 1 := by
    have hne : sec ≠ [] := by intro h0; rw [h0] at hsl; simp at hsl
    exact ⟨sec.getLast hne, sec.dropLast, (List.dropLast_concat_getLast hne).symm, by simp⟩
  obtain ⟨x, p2, hp2, hp2l⟩ := hlast
  have hdrop : file.drop (pre.length + sec.length - 1) = x :: writeData frames := by
    have hk : pre.length + sec.length - 1 = (pre ++ p2).length := by simp only [List.length_append, hp2l]; omega
    have hf2 : file = (pre ++ p2) ++ (x :: writeData frames) := by rw [hfe, hp2]; simp
    rw [hk, hf2, List.drop_left]
  generalize hs : ({ s2 with rest := file.drop (pre.length + sec.length - 1), pos := pre.length + sec.length - 1, eof := false } : InStream) = s
  have hsf : s.failed = false := by rw [← hs]; exact hfile.live
  have hsr : s.rest = x :: writeData frames := by rw [← hs]; exact hdrop
  rw [readInt1_any s x (writeData frames) hsf hsr]
  simp only
  rw [hnf, if_neg (by unfold maxFrames; omega), hpl]
  simp only
  rw [hal]
  simp only
  by_cases h0 : frames.length = 0
  · rw [if_pos h0]
    have : frames = [] := List.length_eq_zero_iff.mp h0
    subst this
    exact ⟨_, rfl⟩
  · rw [if_neg h0, if_neg (by omega), if_neg (by unfold maxPoints; omega), if_neg (by unfold maxSubframes; omega),
      if_neg (by unfold maxChannels; omega)]
    have := readData_written h.nbPoints h.nbAnalogByFrame h.nbAnalogs pl al frames (s.adv (writeData frames) 1) []
      hshape (by simpa) (by simp)
    rw [this]
    exact ⟨_, rfl⟩

theorem Header.bytesP_split (h : Header) (pa ds : Nat) (rest : Bytes) : h.bytesP pa ds rest = h.bytesP pa ds [] ++ rest := by
  unfold Header.bytesP; simp only [List.append_assoc, List.cons_append, List.append_nil]

/-- `C3D.load` from its four stages -/
theorem load_of_parts (F : FloatOps) (file : Bytes) (h : Header) (s1 s2 s3 : InStream) (ph : PHeader) (gs : List Group) (c1 : C3D)
    (frames : List Frame)
    (h1 : Header.read (InStream.open_ file) = .ok (h, s1)) (h2 : readParameters s1 h = .ok ((ph, gs), s2))
    (h3 : updateHeader F { hdr := h, ph := ph, groups := gs, frames := [] } = .ok c1)
    (h4 : readData s2 c1.hdr ph gs = .ok (frames, s3)) : C3D.load F file = .ok { c1 with frames := frames } := by
  unfold C3D.load
  rw [h1]; simp only
  rw [h2]; simp only
  rw [h3]; simp only
  rw [h4]

/-- A WELL-FORMED FILE OF ANY DECLARED LAYOUT LOADS TO WHAT IT ENCODES:
    `Z` zero bytes, the header record (parameter block `pa`, data start `ds`), the blocks up to the
    parameter section, its prologue (plain or zeroed), records in any order, terminator and padding up to
    `nb` blocks, then the frames. The loaded object holds the header fields, the groups the records
    describe (`applyRec` folded over them) and the frames, bit for bit. -/
theorem load_layout (F : FloatOps) (h : Header) (Z pa ds nb : Nat) (zp : Bool) (gap pad : Bytes) (rs : List Rec) (frames : List Frame)
    (pl al : List Bytes)
    (hk : HdrOK h) (hds : ds < 65536) (hpa : 2 ≤ pa) (hpa2 : pa < 256) (hnb1 : 1 ≤ nb) (hnb : nb < 256)
    (hgap : gap.length = 512 * (pa - 2)) (hv : ∀ r ∈ rs, r.Valid)
    (hseclen : 4 + (recsBytes rs).length + 1 + pad.length = 512 * nb)
    (hsmall : Z + 512 + gap.length + 512 * nb + (writeData frames).length + 2 < two31)
    (hstable : updateHeaderH F (rs.foldl applyRec []) [] (h.loadedAt Z pa ds) = .ok (h.loadedAt Z pa ds))
    (hnf : h.nbFrames = frames.length) (hnfs : frames.length ≤ 65536)
    (hpl : (if h.nbPoints > 0 then strsOf (rs.foldl applyRec []) POINT LABELS else .ok []) = .ok pl)
    (hal : (if h.nbAnalogs > 0 then strsOf (rs.foldl applyRec []) ANALOG LABELS else .ok []) = .ok al)
    (hscale : h.scale < 0) (hna : h.nbAnalogs < 65536)
    (hshape : ∀ f ∈ frames, f.hasShape h.nbPoints h.nbAnalogByFrame h.nbAnalogs) :
    C3D.load F (List.replicate Z 0 ++ h.bytesP pa ds [] ++ gap ++ ((if zp then 0 else low8N 1) :: (if zp then 0 else 0x50) :: low8N nb :: 84 ::
        (recsBytes rs ++ 0 :: pad)) ++ writeData frames)
      = .ok { hdr := h.loadedAt Z pa ds, ph := { start := 1, checksum := 0x50, nbBlocks := nb, processor := 84 },
              groups := rs.foldl applyRec [], frames := frames.map (relabelFrame pl al) } := by
  generalize hsec : ((if zp then (0 : UInt8) else low8N 1) :: (if zp then 0 else 0x50) :: low8N nb :: 84 :: (recsBytes rs ++ 0 :: pad)) = sec
  have hsecl : sec.length = 512 * nb := by rw [← hsec]; simp only [List.length_cons, List.length_append]; omega
  have hhb : (h.bytesP pa ds []).length = 512 := by rw [Header.bytesP_length h pa ds [] hk]; simp
  generalize hpre : (List.replicate Z (0 : UInt8) ++ h.bytesP pa ds [] ++ gap) = pre
  have hprel : pre.length = 512 * (pa - 1) + Z := by
    rw [← hpre]; simp only [List.length_append, List.length_replicate, hhb, hgap]; omega
  generalize hfile : pre ++ sec ++ writeData frames = file
  have hflen : file.length + 2 < two31 := by
    rw [← hfile]; simp only [List.length_append, hprel, hsecl]; omega
  have hopen : OnFile (InStream.open_ file) file := ⟨rfl, rfl, rfl⟩
  have h1 := Header_read_layout h Z pa ds (gap ++ sec ++ writeData frames) file (InStream.open_ file) hk hds (by omega) hpa2 hopen
    (by rw [← hfile, ← hpre, Header.bytesP_split h pa ds (gap ++ sec ++ writeData frames)]; simp only [List.append_assoc])
  generalize hs1 : (({ InStream.open_ file with rest := file, pos := 0, eof := false } : InStream).adv (gap ++ sec ++ writeData frames) (Z + 512)) = s1 at h1
  have hs1file : OnFile s1 file := by rw [← hs1]; exact ⟨rfl, rfl, rfl⟩
  have hp' : pre.length = 512 * ((h.loadedAt Z pa ds).paramAddr - 1) + (h.loadedAt Z pa ds).zeros := by
    simpa only [Header.loadedAt] using hprel
  have hpa' : 2 ≤ (h.loadedAt Z pa ds).paramAddr := by simpa only [Header.loadedAt] using hpa
  obtain ⟨s2, hrp, hs2file⟩ := readParameters_layout (h.loadedAt Z pa ds) s1 file pre (pad ++ writeData frames) nb zp rs
    hp' hpa' hnb hv hs1file
    (by rw [← hfile, ← hsec]; simp only [List.append_assoc, List.cons_append])
    hflen
  let c0 : C3D := { hdr := h.loadedAt Z pa ds, ph := { start := 1, checksum := 0x50, nbBlocks := nb, processor := 84 }, groups := rs.foldl applyRec [], frames := [] }
  have h3 : updateHeader F c0 = .ok c0 := by
    unfold updateHeader
    show (updateHeaderH F (rs.foldl applyRec []) [] (h.loadedAt Z pa ds)).lift _ = _
    rw [hstable]
    rfl
  obtain ⟨s3, hrd⟩ := readData_layout s2 file pre sec frames (h.loadedAt Z pa ds)
    { start := 1, checksum := 0x50, nbBlocks := nb, processor := 84 } (rs.foldl applyRec []) pl al
    hs2file hfile.symm hp' (by omega) hsecl hnb1 hflen hnf hnfs hpl hal hscale hk.np hk.abf hna hshape
  exact load_of_parts F file _ s1 s2 s3 _ _ _ _ h1 hrp h3 hrd

end Ezc3d
