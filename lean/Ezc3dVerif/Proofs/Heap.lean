import Ezc3dVerif.Model.Heap
namespace Ezc3d.Heap

theorem getD_append_lt {α} (l : List α) (x d : α) (a : Nat) (h : a < l.length) : (l ++ [x]).getD a d = l.getD a d := by
  simp [List.getD_eq_getElem?_getD, List.getElem?_append_left h]
theorem getD_append_len {α} (l : List α) (x d : α) : (l ++ [x]).getD l.length d = x := by
  simp [List.getD_eq_getElem?_getD]
theorem getD_set_ne {α} (l : List α) (a b : Nat) (v d : α) (h : a ≠ b) : (l.set a v).getD b d = l.getD b d := by
  simp [List.getD_eq_getElem?_getD, List.getElem?_set, h]
theorem getD_set_eq {α} (l : List α) (a : Nat) (v d : α) (h : a < l.length) : (l.set a v).getD a d = v := by
  simp [List.getD_eq_getElem?_getD, List.getElem?_set, h]

/-- frames whose handles are allocated keep their value when cells are appended -/
theorem deref_grow (h : Heap) (p : List Point) (a : List SubFrame) (f : HFrame)
    (hf : f.pts < h.P.length ∧ f.subs < h.A.length) :
    ({ h with P := h.P ++ [p], A := h.A ++ [a] } : Heap).deref f = h.deref f := by
  simp only [Heap.deref, Heap.derefP, Heap.derefA]
  rw [getD_append_lt _ _ _ _ hf.1, getD_append_lt _ _ _ _ hf.2]

theorem Sep.init : Sep {} := by
  constructor <;> simp

/-- growing the cell stores keeps separation -/
theorem Sep.grow {h : Heap} (s : Sep h) (p : List Point) (a : List SubFrame) :
    Sep { h with P := h.P ++ [p], A := h.A ++ [a] } := by
  refine ⟨s.nodupP, s.nodupA, ?_, ?_, s.apartP, s.apartA⟩
  · intro f hf; have := s.allocS f hf; simp; omega
  · intro f hf; have := s.allocV f hf; simp; omega

theorem view_grow {h : Heap} (s : Sep h) (p : List Point) (a : List SubFrame) :
    ({ h with P := h.P ++ [p], A := h.A ++ [a] } : Heap).view = h.view := by
  unfold Heap.view
  apply List.map_congr_left
  intro f hf
  exact deref_grow h p a f (s.allocS f hf)

/-- a handle pair that is allocated and used by no stored frame may be stored next -/
theorem Sep.push {h : Heap} (s : Sep h) (nf : HFrame)
    (ha : nf.pts < h.P.length ∧ nf.subs < h.A.length)
    (hp : ∀ g ∈ h.stored, nf.pts ≠ g.pts) (hs : ∀ g ∈ h.stored, nf.subs ≠ g.subs)
    (vp : ∀ f ∈ h.vars, f.pts ≠ nf.pts) (vs : ∀ f ∈ h.vars, f.subs ≠ nf.subs) :
    Sep { h with stored := h.stored ++ [nf] } := by
  constructor
  · simp only [List.map_append, List.map_cons, List.map_nil]
    rw [List.nodup_append]
    refine ⟨s.nodupP, by simp, ?_⟩
    intro a ha' b hb
    simp at ha' hb
    obtain ⟨g, hg, rfl⟩ := ha'
    subst hb
    exact fun e => hp g hg e.symm
  · simp only [List.map_append, List.map_cons, List.map_nil]
    rw [List.nodup_append]
    refine ⟨s.nodupA, by simp, ?_⟩
    intro a ha' b hb
    simp at ha' hb
    obtain ⟨g, hg, rfl⟩ := ha'
    subst hb
    exact fun e => hs g hg e.symm
  · intro f hf
    simp at hf
    rcases hf with hf | rfl
    · exact s.allocS f hf
    · exact ha
  · exact s.allocV
  · intro f hf g hg
    simp at hg
    rcases hg with hg | rfl
    · exact s.apartP f hf g hg
    · exact vp f hf
  · intro f hf g hg
    simp at hg
    rcases hg with hg | rfl
    · exact s.apartA f hf g hg
    · exact vs f hf

end Ezc3d.Heap
