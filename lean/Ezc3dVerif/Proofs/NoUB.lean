import Ezc3dVerif.Proofs.Outcome
import Ezc3dVerif.Model.Read
import Ezc3dVerif.Model.Write
/- The model marks as `ub` what C++ leaves undefined. These lemmas show which parts never get there. -/
namespace Ezc3d

def Res.NoUB {α} (r : Res α) : Prop := ∀ k, r ≠ .ub k
def Outcome.NoUB {σ} (o : Outcome σ) : Prop := ∀ k, o ≠ .ub k

theorem Res.noUB_ok {α} (a : α) : (Res.ok a).NoUB := by intro k h; cases h
theorem Res.noUB_throw {α} (e : Exc) : (Res.throw e : Res α).NoUB := by intro k h; cases h
theorem Res.noUB_bind {α β} {r : Res α} {f : α → Res β} (hr : r.NoUB) (hf : ∀ a, (f a).NoUB) : (r.bind f).NoUB := by
  cases r with
  | ok a => simpa using hf a
  | throw e => simpa using Res.noUB_throw e
  | ub k => exact absurd rfl (hr k)
theorem Res.noUB_map {α β} {r : Res α} {f : α → β} (hr : r.NoUB) : (r.map f).NoUB :=
  Res.noUB_bind hr (fun a => Res.noUB_ok _)

theorem atIdx_noUB {α} (l : List α) (i : Nat) : (atIdx l i).NoUB := by
  intro k; unfold atIdx; split <;> simp
theorem nameIdx_noUB {α} (name : α → Bytes) (l : List α) (key : Bytes) : (nameIdx name l key).NoUB := by
  intro k; unfold nameIdx; split <;> simp
theorem byName_noUB {α} (name : α → Bytes) (l : List α) (key : Bytes) : (byName name l key).NoUB :=
  Res.noUB_bind (nameIdx_noUB _ _ _) (fun _ => atIdx_noUB _ _)
theorem getParam_noUB (gs : List Group) (g p : Bytes) : (getParam gs g p).NoUB :=
  Res.noUB_bind (byName_noUB _ _ _) (fun _ => byName_noUB _ _ _)
theorem asInt_noUB (q : Param) : q.asInt.NoUB := by intro k; unfold Param.asInt; split <;> simp
theorem asFloat_noUB (q : Param) : q.asFloat.NoUB := by intro k; unfold Param.asFloat; split <;> simp
theorem asString_noUB (q : Param) : q.asString.NoUB := by intro k; unfold Param.asString; split <;> simp
theorem int0_noUB (gs : List Group) (g p : Bytes) : (int0 gs g p).NoUB :=
  Res.noUB_bind (getParam_noUB _ _ _) (fun q => Res.noUB_bind (asInt_noUB q) (fun _ => atIdx_noUB _ _))
theorem float0_noUB (gs : List Group) (g p : Bytes) : (float0 gs g p).NoUB :=
  Res.noUB_bind (getParam_noUB _ _ _) (fun q => Res.noUB_bind (asFloat_noUB q) (fun _ => atIdx_noUB _ _))
theorem strsOf_noUB (gs : List Group) (g p : Bytes) : (strsOf gs g p).NoUB :=
  Res.noUB_bind (getParam_noUB _ _ _) (fun q => asString_noUB q)
theorem labelsFor_noUB (frames : List Frame) (gs : List Group) (g : Bytes) : (labelsFor frames gs g).NoUB := by
  unfold labelsFor; split
  · exact strsOf_noUB _ _ _
  · exact Res.noUB_ok _
theorem groupIdx_noUB (gs : List Group) (g : Bytes) : (groupIdx gs g).NoUB := nameIdx_noUB _ _ _
theorem gpIdx_noUB (gs : List Group) (g p : Bytes) : (gpIdx gs g p).NoUB :=
  Res.noUB_bind (groupIdx_noUB _ _) (fun _ => Res.noUB_bind (atIdx_noUB _ _) (fun _ =>
    Res.noUB_bind (nameIdx_noUB _ _ _) (fun _ => Res.noUB_ok _)))
theorem addParam_noUB (g : Group) (p : Param) : (g.addParam p).NoUB := by
  intro k; unfold Group.addParam; split
  · simp
  · split <;> simp

theorem Outcome.noUB_ok {σ} (s : σ) : (Outcome.ok s).NoUB := by intro k h; cases h
theorem Outcome.noUB_throw {σ} (e : Exc) (s : σ) : (Outcome.throw e s).NoUB := by intro k h; cases h
theorem Outcome.noUB_andThen {α σ} {r : Res α} {l : σ} {f : α → Outcome σ} (hr : r.NoUB) (hf : ∀ a, (f a).NoUB) :
    (r.andThen l f).NoUB := by
  cases r with
  | ok a => simpa using hf a
  | throw e => simpa using Outcome.noUB_throw e l
  | ub k => exact absurd rfl (hr k)
theorem Outcome.noUB_bind {σ} {o : Outcome σ} {f : σ → Outcome σ} (ho : o.NoUB) (hf : ∀ a, (f a).NoUB) : (o.bind f).NoUB := by
  cases o with
  | ok a => simpa using hf a
  | throw e l => simpa using Outcome.noUB_throw e l
  | ub k => exact absurd rfl (ho k)
theorem Outcome.noUB_lift {α σ} {o : Outcome α} {f : α → σ} (ho : o.NoUB) : (o.lift f).NoUB := by
  intro k h; cases o with
  | ok a => cases h
  | throw e l => cases h
  | ub k' => exact ho k' rfl
theorem Outcome.noUB_ite {σ} (c : Prop) [Decidable c] {a b : Outcome σ} (ha : a.NoUB) (hb : b.NoUB) :
    (if c then a else b).NoUB := by split <;> assumption

end Ezc3d
