import Ezc3dVerif.Proofs.HeaderRT
/-
  Putting the pieces together: `C3D.load` on the bytes `C3D.write` produced.
-/
namespace Ezc3d
open C12 N

theorem readInt1_any (s : InStream) (x : UInt8) (b : Bytes) (hf : s.failed = false) (hr : s.rest = x :: b) :
    s.readInt 1 = (hex2int [x], s.adv b 1) := by
  unfold InStream.readInt
  rw [read_adv' s 1 [x] b rfl hf (by simpa using hr)]

/-- the data section reads back, from the file: seek to the byte before it, then frame by frame -/
theorem readData_file (s2 : InStream) (file H ps : Bytes) (frames : List Frame) (h : Header) (ph : PHeader) (gs : List Group)
    (pl al : List Bytes)
    (hfile : OnFile s2 file) (hfe : file = H ++ ps ++ writeData frames) (hH : H.length = 512)
    (hps : ps.length = 512 * ph.nbBlocks) (hnb : 1 ≤ ph.nbBlocks) (hsmall : file.length + 2 < two31)
    (hpa : h.paramAddr = 2) (hz : h.zeros = 0)
    (hnf : h.nbFrames = frames.length) (hnfs : frames.length ≤ 65536)
    (hpl : (if h.nbPoints > 0 then strsOf gs POINT LABELS else .ok []) = .ok pl)
    (hal : (if h.nbAnalogs > 0 then strsOf gs ANALOG LABELS else .ok []) = .ok al)
    (hscale : h.scale < 0) (hnp : h.nbPoints < 65536) (habf : h.nbAnalogByFrame < 65536) (hna : h.nbAnalogs < 65536)
    (hshape : ∀ f ∈ frames, f.hasShape h.nbPoints h.nbAnalogByFrame h.nbAnalogs) :
    ∃ s', readData s2 h ph gs = .ok (frames.map (relabelFrame pl al), s') := by
  unfold readData
  have hpsl : ps.length ≥ 512 := by omega
  have hfl : file.length = 512 + ps.length + (writeData frames).length := by
    rw [hfe]; simp only [List.length_append, hH]
  have hoff : u64ToI32 (u64 (512 * subU64 h.paramAddr 1 + h.zeros + 512 * ph.nbBlocks + two64 - 1)) = ((512 + ps.length - 1 : Nat) : Int) := by
    rw [hpa, hz]
    have e1 : subU64 2 1 = 1 := by decide
    rw [e1]
    have e2 : u64 (512 * 1 + 0 + 512 * ph.nbBlocks + two64 - 1) = 512 + ps.length - 1 := by
      unfold u64 two64 two31 at *; omega
    rw [e2]
    unfold u64ToI32 two32 two31 at *
    simp only
    rw [Nat.mod_eq_of_lt (by omega), if_pos (by omega)]
  rw [hoff]
  dsimp only
  rw [seekBeg_onFile s2 file hfile (512 + ps.length - 1)]
  -- the byte before the data
  have hlast : ∃ x, ∃ pre : Bytes, ps = pre ++ [x] ∧ pre.length = ps.length - 1 := by
    have hne : ps ≠ [] := by intro h0; rw [h0] at hpsl; simp at hpsl
    exact ⟨ps.getLast hne, ps.dropLast, (List.dropLast_concat_getLast hne).symm, by simp⟩
  obtain ⟨x, pre, hpre, hprel⟩ := hlast
  have hdrop : file.drop (512 + ps.length - 1) = x :: writeData frames := by
    have hk : 512 + ps.length - 1 = (H ++ pre).length := by simp only [List.length_append, hH, hprel]; omega
    have hf2 : file = (H ++ pre) ++ (x :: writeData frames) := by rw [hfe, hpre]; simp
    rw [hk, hf2, List.drop_left]
  generalize hs : ({ s2 with rest := file.drop (512 + ps.length - 1), pos := 512 + ps.length - 1, eof := false } : InStream) = s
  have hsf : s.failed = false := by rw [← hs]; exact hfile.live
  have hsr : s.rest = x :: writeData frames := by rw [← hs]; exact hdrop
  rw [readInt1_any s x (writeData frames) hsf hsr]
  simp only
  rw [hnf, if_neg (by unfold maxFrames; omega), hpl]
  simp only
  rw [hal]
  simp only
  by_cases h0 : frames.length = 0
  · rw [if_pos h0]
    have : frames = [] := List.length_eq_zero_iff.mp h0
    subst this
    exact ⟨_, rfl⟩
  · rw [if_neg h0, if_neg (by omega), if_neg (by unfold maxPoints; omega), if_neg (by unfold maxSubframes; omega),
      if_neg (by unfold maxChannels; omega)]
    have := readData_written h.nbPoints h.nbAnalogByFrame h.nbAnalogs pl al frames (s.adv (writeData frames) 1) []
      hshape (by simpa) (by simp)
    rw [this]
    exact ⟨_, rfl⟩

/-! ### what the loader holds when every group is named -/

theorem readBack_named (gs : List Group) : ∀ (i : Nat) (acc : List Group), (∀ g ∈ gs, g.name ≠ []) → acc.length = i →
    readBack gs i acc = acc ++ gs.map Group.normG := by
  induction gs with
  | nil => intro i acc _ _; simp [readBack]
  | cons g rest ih =>
    intro i acc hn hl
    simp only [readBack, if_neg (hn g (by simp))]
    have : i - acc.length = 0 := by omega
    rw [this]
    simp only [List.replicate_zero, List.append_nil]
    rw [ih (i + 1) (acc ++ [g.normG]) (fun x hx => hn x (by simp [hx])) (by simp; omega)]
    simp

theorem setDSg_ok (v : Int) (h1 : 0 ≤ v) (h2 : v < 256) (g : Group) (h : GroupRecsOK g) : GroupRecsOK (setDSg v g) := by
  unfold setDSg
  split
  · refine ⟨⟨h.head.name_pos, h.head.name_len, h.head.name_nz, h.head.desc_len, h.head.desc_nz⟩, ?_, ?_⟩
    · intro p hp
      simp only [List.mem_map] at hp
      obtain ⟨q, hq, rfl⟩ := hp
      exact setDSp_ok v (by omega) (by omega) q (h.params q hq)
    · have : ((g.params.map (setDSp v)).map fun p => toUpper p.name) = g.params.map fun p => toUpper p.name := by
        rw [List.map_map]; apply List.map_congr_left; intro q _; simp [setDSp_name]
      simp only [this]; exact h.distinct
  · exact h

theorem file_shape (Hb ps data gsb : Bytes) (nb npad : Nat)
    (hps : ps = [low8N 1, 0x50, low8 ((nb : Nat) : Int), 84] ++ gsb ++ List.replicate npad 0) (hnp : 1 ≤ npad) :
    Hb ++ ps ++ data = Hb ++ (low8N 1 :: 0x50 :: low8N nb :: 84 :: (gsb ++ 0 :: (List.replicate (npad - 1) 0 ++ data))) := by
  subst hps
  cases npad with
  | zero => omega
  | succ k => simp [List.replicate_succ, low8N]

/-- the object `C3D.load` returns for the bytes `C3D.write` produced -/
def C3D.reloaded (s : C3D) (psLen : Nat) (pl al : List Bytes) : C3D :=
  { hdr := s.hdr.loaded (psLen / 512 + 2),
    ph := { start := 1, checksum := 0x50, nbBlocks := psLen / 512, processor := 84 },
    groups := (s.groups.map (setDSg (((psLen / 512 + 2 : Nat) : Int) % 256))).map Group.normG,
    frames := s.frames.map (relabelFrame pl al) }

/-- BUILD -> SAVE -> LOAD: for every object whose header, groups and parameters the format can hold, whose
    header is already what `updateHeader` derives from its parameters, and whose frames have the shape the
    header announces, loading the bytes that `write` produced succeeds and returns the same header
    (position words aside), the same groups and parameters (names upper-cased, POINT:DATA_START holding
    the block number) and the same frames bit for bit (names taken from the label parameters). -/
theorem load_write (F : FloatOps) (s : C3D) (b ps : Bytes) (pl al : List Bytes)
    (hps : writeParamSection s.ph s.groups 512 = .ok ps) (hb : s.write = .ok b)
    (hhdr : HdrOK s.hdr) (hstart : s.ph.start = 1)
    (hgn : ∀ g ∈ s.groups, g.name ≠ []) (hgok : ∀ g ∈ s.groups, GroupRecsOK g)
    (hgd : (s.groups.map fun g => g.name).Pairwise (· ≠ ·)) (hglen : s.groups.length ≤ 127)
    (hblocks : ps.length / 512 < 256) (hsmall : b.length + 2 < two31)
    (hstable : updateHeaderH F (s.reloaded ps.length pl al).groups [] (s.reloaded ps.length pl al).hdr = .ok (s.reloaded ps.length pl al).hdr)
    (hnf : s.hdr.nbFrames = s.frames.length) (hnfs : s.frames.length ≤ 65536)
    (hpl : (if s.hdr.nbPoints > 0 then strsOf (s.reloaded ps.length pl al).groups POINT LABELS else .ok []) = .ok pl)
    (hal : (if s.hdr.nbAnalogs > 0 then strsOf (s.reloaded ps.length pl al).groups ANALOG LABELS else .ok []) = .ok al)
    (hscale : s.hdr.scale < 0) (hna : s.hdr.nbAnalogs < 65536)
    (hshape : ∀ f ∈ s.frames, f.hasShape s.hdr.nbPoints s.hdr.nbAnalogByFrame s.hdr.nbAnalogs) :
    C3D.load F b = .ok (s.reloaded ps.length pl al) := by
  -- the file
  obtain ⟨v, npad, hv1, hv2, hnp, hpsb, hmod, hpos, hveq⟩ := writeParamSection_bytes s.ph s.groups ps (fun g hg _ => hgok g hg) hgd hps
  have hbe : b = s.hdr.write ((ps.length / 512 + 2 : Nat) : Int) ++ ps ++ writeData s.frames := by
    unfold C3D.write at hb
    rw [hps] at hb
    simp only [Res.bind_ok] at hb
    have := (Res.ok.inj hb).symm
    rw [this]
    have e : ((512 + ps.length : Nat) : Int) / 512 + 1 = ((ps.length / 512 + 2 : Nat) : Int) := by omega
    rw [e]
  have hHlen : (s.hdr.write ((ps.length / 512 + 2 : Nat) : Int)).length = 512 :=
    C03.header_length s.hdr _ ⟨hhdr.times, hhdr.displen, hhdr.lablen⟩
  subst hveq
  unfold C3D.load
  -- header
  have hopen : OnFile (InStream.open_ b) b := ⟨rfl, rfl, rfl⟩
  rw [Header_read_written s.hdr (ps.length / 512 + 2) (ps ++ writeData s.frames) b (InStream.open_ b) hhdr (by omega) hopen
    (by rw [hbe]; simp)]
  simp only
  -- parameters
  generalize hs1 : (({ InStream.open_ b with rest := b, pos := 0, eof := false } : InStream).adv (ps ++ writeData s.frames) 512) = s1
  have hs1file : OnFile s1 b := by rw [← hs1]; exact ⟨rfl, rfl, rfl⟩
  have hgs'ok : ∀ g ∈ s.groups.map (setDSg (((ps.length / 512 + 2 : Nat) : Int) % 256)), g.name ≠ [] → GroupRecsOK g := by
    intro g hg _
    simp only [List.mem_map] at hg
    obtain ⟨g0, hg0, rfl⟩ := hg
    exact setDSg_ok _ hv1 hv2 g0 (hgok g0 hg0)
  obtain ⟨s2, hrp, hs2file⟩ := readParameters_written (s.hdr.loaded (ps.length / 512 + 2)) s1 b
    (s.hdr.write ((ps.length / 512 + 2 : Nat) : Int)) (List.replicate (npad - 1) 0 ++ writeData s.frames) (ps.length / 512)
    (s.groups.map (setDSg (((ps.length / 512 + 2 : Nat) : Int) % 256)))
    hHlen rfl rfl hblocks (by simpa using hglen) hgs'ok hs1file
    (by
      rw [hstart] at hpsb
      have := file_shape (s.hdr.write ((ps.length / 512 + 2 : Nat) : Int)) ps (writeData s.frames) _ (ps.length / 512) npad hpsb hnp
      rw [← this]; exact hbe)
    hsmall
  rw [hrp]
  simp only
  have hrb : readBack (s.groups.map (setDSg (((ps.length / 512 + 2 : Nat) : Int) % 256))) 0 []
      = (s.groups.map (setDSg (((ps.length / 512 + 2 : Nat) : Int) % 256))).map Group.normG := by
    rw [readBack_named _ 0 [] (by
      intro g hg
      simp only [List.mem_map] at hg
      obtain ⟨g0, hg0, rfl⟩ := hg
      rw [setDSg_name]; exact hgn g0 hg0) rfl]
    simp
  rw [hrb]
  -- the header agrees with the parameters already
  unfold updateHeader
  have hst := hstable
  unfold C3D.reloaded at hst
  simp only at hst
  rw [hst]
  simp only [Outcome.lift]
  -- data
  obtain ⟨s3, hrd⟩ := readData_file s2 b (s.hdr.write ((ps.length / 512 + 2 : Nat) : Int)) ps s.frames
    (s.hdr.loaded (ps.length / 512 + 2)) { start := 1, checksum := 0x50, nbBlocks := ps.length / 512, processor := 84 }
    ((s.groups.map (setDSg (((ps.length / 512 + 2 : Nat) : Int) % 256))).map Group.normG) pl al
    hs2file hbe hHlen (by simp only; omega) (by simp only; omega) hsmall rfl rfl hnf hnfs hpl hal hscale hhdr.np hhdr.abf hna hshape
  rw [hrd]
  rfl

end Ezc3d
