import Ezc3dVerif.Proofs.HeaderRT
/-
  Putting the pieces together: `C3D.load` on the bytes `C3D.write` produced.
-/
namespace Ezc3d
open C12 N

theorem readInt1_any (s : InStream) (x : UInt8) (b : Bytes) (hf : s.failed = false) (hr : s.rest = x :: b) :
    s.readInt 1 = (hex2int [x], s.adv b 1) := by
  unfold InStream.readInt
  rw [read_adv' s 1 [x] b rfl hf (by simpa using hr)]

/-- the data section reads back, from the file: seek to the byte before it, then frame by frame -/
theorem readData_file (s2 : InStream) (file H ps : Bytes) (frames : List Frame) (h : Header) (ph : PHeader) (gs : List Group)
    (pl al : List Bytes)
    (hfile : OnFile s2 file) (hfe : file = H ++ ps ++ writeData frames) (hH : H.length = 512)
    (hps : ps.length = 512 * ph.nbBlocks) (hnb : 1 ≤ ph.nbBlocks) (hsmall : file.length + 2 < two31)
    (hpa : h.paramAddr = 2) (hz : h.zeros = 0)
    (hnf : h.nbFrames = frames.length) (hnfs : frames.length ≤ 65536)
    (hpl : (if h.nbPoints > 0 then strsOf gs POINT LABELS else .ok []) = .ok pl)
    (hal : (if h.nbAnalogs > 0 then strsOf gs ANALOG LABELS else .ok []) = .ok al)
    (hscale : h.scale < 0) (hnp : h.nbPoints < 65536) (habf : h.nbAnalogByFrame < 65536) (hna : h.nbAnalogs < 65536)
    (hshape : ∀ f ∈ frames, f.hasShape h.nbPoints h.nbAnalogByFrame h.nbAnalogs) :
    ∃ s', readData s2 h ph gs = .ok (frames.map (relabelFrame pl al), s') := by
  unfold readData
  have hpsl : ps.length ≥ 512 := by omega
  have hfl : file.length = 512 + ps.length + (writeData frames).length := by
    rw [hfe]; simp only [List.length_append, hH]
  have hoff : u64ToI32 (u64 (512 * subU64 h.paramAddr 1 + h.zeros + 512 * ph.nbBlocks + two64 - 1)) = ((512 + ps.length - 1 : Nat) : Int) := by
    rw [hpa, hz]
    have e1 : subU64 2 1 = 1 := by decide
    rw [e1]
    have e2 : u64 (512 * 1 + 0 + 512 * ph.nbBlocks + two64 - 1) = 512 + ps.length - 1 := by
      unfold u64 two64 two31 at *; omega
    rw [e2]
    unfold u64ToI32 two32 two31 at *
    simp only
    rw [Nat.mod_eq_of_lt (by omega), if_pos (by omega)]
  rw [hoff]
  dsimp only
  rw [seekBeg_onFile s2 file hfile (512 + ps.length - 1)]
  -- the byte before the data
  have hlast : ∃ x, ∃ pre : Bytes, ps = pre ++ [x] ∧ pre.length = ps.length - 1 := by
    have hne : ps ≠ [] := by intro h0; rw [h0] at hpsl; simp at hpsl
    exact ⟨ps.getLast hne, ps.dropLast, (List.dropLast_concat_getLast hne).symm, by simp⟩
  obtain ⟨x, pre, hpre, hprel⟩ := hlast
  have hdrop : file.drop (512 + ps.length - 1) = x :: writeData frames := by
    have hk : 512 + ps.length - 1 = (H ++ pre).length := by simp only [List.length_append, hH, hprel]; omega
    have hf2 : file = (H ++ pre) ++ (x :: writeData frames) := by rw [hfe, hpre]; simp
    rw [hk, hf2, List.drop_left]
  generalize hs : ({ s2 with rest := file.drop (512 + ps.length - 1), pos := 512 + ps.length - 1, eof := false } : InStream) = s
  have hsf : s.failed = false := by rw [← hs]; exact hfile.live
  have hsr : s.rest = x :: writeData frames := by rw [← hs]; exact hdrop
  rw [readInt1_any s x (writeData frames) hsf hsr]
  simp only
  rw [hnf, if_neg (by unfold maxFrames; omega), hpl]
  simp only
  rw [hal]
  simp only
  by_cases h0 : frames.length = 0
  · rw [if_pos h0]
    have : frames = [] := List.length_eq_zero_iff.mp h0
    subst this
    exact ⟨_, rfl⟩
  · rw [if_neg h0, if_neg (by omega), if_neg (by unfold maxPoints; omega), if_neg (by unfold maxSubframes; omega),
      if_neg (by unfold maxChannels; omega)]
    have := readData_written h.nbPoints h.nbAnalogByFrame h.nbAnalogs pl al frames (s.adv (writeData frames) 1) []
      hshape (by simpa) (by simp)
    rw [this]
    exact ⟨_, rfl⟩

end Ezc3d
