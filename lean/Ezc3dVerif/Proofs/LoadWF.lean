import Ezc3dVerif.Properties.C13
import Ezc3dVerif.Proofs.ParamRT
import Ezc3dVerif.Proofs.Progress
/-
  Every parameter of a LOADED object holds as many values as its dimensions announce (`ParamWF`), so saving an object that
  came from a file — any byte string the loader accepts — never indexes a value vector out of range.
-/
namespace Ezc3d
open C13 N

/-- post-condition of a reading step: whatever the stream, a returned value satisfies `P` -/
def SR.Post {α} (m : SR α) (P : α → Prop) : Prop := ∀ s a s', m s = .ok (a, s') → P a

theorem SR.post_pure {α} {P : α → Prop} {a : α} (h : P a) : (SR.pure a).Post P := by
  intro s a' s' hs; cases hs; exact h
theorem SR.post_throw {α} {P : α → Prop} (e : Exc) : (SR.throw e : SR α).Post P := by
  intro s a s' hs; simp [SR.throw, rthrow] at hs
theorem SR.post_bind {α β} {m : SR α} {f : α → SR β} {P : β → Prop} (hf : ∀ a, (f a).Post P) : (SR.bind m f).Post P := by
  intro s b s' hs
  unfold SR.bind at hs
  split at hs
  · exact hf _ _ _ _ hs
  · cases hs
theorem SR.post_lift {α} {P : α → Prop} (r : InStream → α × InStream) (h : ∀ s, P (r s).1) : (SR.lift r).Post P := by
  intro s a s' hs
  simp only [SR.lift] at hs
  have e := Except.ok.inj hs
  have : a = (r s).1 := by rw [e]
  rw [this]; exact h s
theorem SR.post_ite {α} {P : α → Prop} (c : Prop) [Decidable c] {a b : SR α} (ha : c → a.Post P) (hb : ¬ c → b.Post P) :
    (if c then a else b).Post P := by
  split
  · exact ha ‹_›
  · exact hb ‹_›

theorem readMany_length {α} (f : InStream → α × InStream) (n : Nat) (s : InStream) : (readMany f n s).1.length = n := by
  induction n generalizing s with
  | zero => rfl
  | succ k ih => simp only [readMany, List.length_cons, ih]

theorem chunks_length (w n : Nat) (b : Bytes) : (chunks w n b).length = n := by
  induction n generalizing b with
  | zero => rfl
  | succ k ih => simp only [chunks, List.length_cons, ih]

/-- values read for a shape: exactly as many as the shape announces -/
theorem readValues_post (ty : PType) (dims : List Nat) (p0 : Param) (h0 : p0.type = ty) (hd : p0.dims = dims) :
    (readValues ty dims p0).Post fun p1 => p1.type = ty ∧ p1.dims = dims ∧
      (match ty with
       | .char => if dims.length = 1 then p1.strs ≠ [] else p1.strs.length = (dims.drop 1).prod
       | .byte | .int => p1.ints.length = dims.prod
       | .float => p1.floats.length = dims.prod
       | .none => True) := by
  unfold readValues
  cases ty with
  | char =>
    refine SR.post_lift _ fun s => ?_
    simp only
    split
    · rename_i h1; exact ⟨h0, hd, by simp [h1]⟩
    · rename_i h1; refine ⟨h0, hd, ?_⟩; simp only [h1, if_false, List.length_map, chunks_length]
  | byte => refine SR.post_lift _ fun s => ⟨h0, hd, ?_⟩; simp only; exact readMany_length _ _ _
  | int => refine SR.post_lift _ fun s => ⟨h0, hd, ?_⟩; simp only; exact readMany_length _ _ _
  | float => refine SR.post_lift _ fun s => ⟨h0, hd, ?_⟩; simp only; exact readMany_length _ _ _
  | none => exact SR.post_pure ⟨h0, hd, trivial⟩

/-! ### the size check: the element count it returns is 0 only when a counted dimension is 0 -/

/-- a counted dimension is 0 (the first one of a string table is the cell width, not counted) -/
def zeroDim (fil : Bool) (dims : List Nat) (i : Nat) : Bool :=
  (List.zip (List.range' i dims.length) dims).any fun (j, d) => d == 0 && (decide (j > 0) || !fil)

theorem sizeOk_pos (rem : Nat) (fil : Bool) (hrem : rem + 0xFFFF < two64 / 256) : ∀ (dims : List Nat) (i nb nv : Nat),
    (∀ d ∈ dims, d < 256) → nv ≠ 0 → nv ≤ rem + 0xFFFF → zeroDim fil dims i = false → ∀ n, sizeOk rem fil dims i nb nv = some n → n ≠ 0 := by
  intro dims
  induction dims with
  | nil => intro i nb nv _ hnv _ _ n h; simp [sizeOk] at h; rw [← h]; exact hnv
  | cons d t ih =>
    intro i nb nv hd hnv hle hz n h
    simp only [sizeOk] at h
    generalize hnb' : (if nb ≠ 0 then u64 (nb * d) else nb) = nb' at h
    generalize hnv' : (if nv ≠ 0 ∧ (i > 0 ∨ (!fil) = true) then u64 (nv * d) else nv) = nv' at h
    split at h
    · cases h
    · rename_i hchk
      have hz' : zeroDim fil t (i + 1) = false ∧ ¬ (d = 0 ∧ (i > 0 ∨ fil = false)) := by
        unfold zeroDim at hz ⊢
        simp only [List.length_cons, List.range'_succ, List.zip_cons_cons, List.any_cons, Bool.or_eq_false_iff] at hz
        refine ⟨hz.2, ?_⟩
        have h1 := hz.1
        intro ⟨hd0, hc⟩
        rcases hc with hc | hc <;> simp [hd0, hc] at h1
      refine ih (i + 1) nb' nv' (fun x hx => hd x (by simp [hx])) ?_ ?_ hz'.1 n h
      · -- the new element count is not 0
        rw [← hnv']
        split
        · rename_i hc
          have hdlt := hd d (by simp)
          have hd0 : d ≠ 0 := by
            intro hd0; apply hz'.2; refine ⟨hd0, ?_⟩
            rcases hc.2 with h1 | h1
            · exact Or.inl h1
            · right; simpa using h1
          have : nv * d < two64 := by
            have : nv * d < (two64 / 256) * 256 := by
              apply Nat.mul_lt_mul'' (by omega) hdlt
            unfold two64 at *; omega
          unfold u64
          rw [Nat.mod_eq_of_lt this]
          exact Nat.mul_ne_zero hnv hd0
        · exact hnv
      · simp only [not_or, Nat.not_lt, gt_iff_lt] at hchk
        exact hchk.2

theorem zeroDim_prod (dims : List Nat) : ∀ i, zeroDim false dims i = true → dims.prod = 0 := by
  induction dims with
  | nil => intro i h; simp [zeroDim] at h
  | cons d t ih =>
    intro i h
    unfold zeroDim at h
    simp only [List.length_cons, List.range'_succ, List.zip_cons_cons, List.any_cons, Bool.not_false, Bool.or_true, Bool.and_true,
      Bool.or_eq_true, beq_iff_eq] at h
    rcases h with h | h
    · simp [h]
    · have := ih (i + 1) (by unfold zeroDim; simpa using h)
      simp [this]

theorem zeroDim_prod_tail (d : Nat) (t : List Nat) (h : zeroDim true (d :: t) 0 = true) : t.prod = 0 := by
  unfold zeroDim at h
  simp only [List.length_cons, List.range'_succ, List.zip_cons_cons, List.any_cons, Nat.lt_irrefl, decide_false, Bool.not_true,
    Bool.or_false, Bool.and_false, Bool.false_or] at h
  -- every remaining index is positive: the test is just d = 0
  have : ∀ (l : List Nat) (i : Nat), 0 < i → (List.zip (List.range' i l.length) l).any (fun x => x.2 == 0 && decide (x.1 > 0)) = true → l.prod = 0 := by
    intro l
    induction l with
    | nil => intro i _ h; simp at h
    | cons x r ih =>
      intro i hi h
      simp only [List.length_cons, List.range'_succ, List.zip_cons_cons, List.any_cons, Bool.or_eq_true,
        Bool.and_eq_true, beq_iff_eq, decide_eq_true_eq] at h
      rcases h with ⟨h1, _⟩ | h
      · simp [h1]
      · have := ih (i + 1) (by omega) (by simpa using h)
        simp [this]
  exact this t (0 + 1) (by omega) h


/-! ### readers keep the file length; post-conditions along a chain of reading steps -/

theorem read_len (s : InStream) (n : Nat) : (s.read n).2.len = s.len := by
  unfold InStream.read
  split
  · rfl
  · cases takePad n s.rest with
    | mk x rk => obtain ⟨r, k⟩ := rk; simp only; split <;> rfl

theorem readMany_len {α} (f : InStream → α × InStream) (hf : ∀ s, (f s).2.len = s.len) (n : Nat) (s : InStream) :
    (readMany f n s).2.len = s.len := by
  induction n generalizing s with
  | zero => rfl
  | succ k ih => simp only [readMany]; rw [ih, hf]

/-- with a file of length `L`: the step keeps the length and a returned value satisfies `P` -/
def SR.PostL {α} (L : Nat) (m : SR α) (P : α → Prop) : Prop := ∀ s a s', s.len = L → m s = .ok (a, s') → s'.len = L ∧ P a

theorem SR.postL_pure {α} {L : Nat} {P : α → Prop} {a : α} (h : P a) : (SR.pure a).PostL L P := by
  intro s a' s' hl hs
  have e := Except.ok.inj hs
  have e1 : a' = a := (congrArg Prod.fst e).symm
  have e2 : s' = s := (congrArg Prod.snd e).symm
  rw [e1, e2]; exact ⟨hl, h⟩
theorem SR.postL_throw {α} {L : Nat} {P : α → Prop} (e : Exc) : (SR.throw e : SR α).PostL L P := by
  intro s a s' _ hs; simp [SR.throw, rthrow] at hs
theorem SR.postL_get {L : Nat} : SR.get.PostL L (fun a => a.len = L) := by
  intro s a s' hl hs
  have e := Except.ok.inj hs
  have e1 : a = s := (congrArg Prod.fst e).symm
  have e2 : s' = s := (congrArg Prod.snd e).symm
  rw [e1, e2]; exact ⟨hl, hl⟩
theorem SR.postL_lift {α} {L : Nat} {P : α → Prop} (r : InStream → α × InStream) (hl : ∀ s, (r s).2.len = s.len) (h : ∀ s, P (r s).1) :
    (SR.lift r).PostL L P := by
  intro s a s' hL hs
  simp only [SR.lift] at hs
  have e := Except.ok.inj hs
  have e1 : a = (r s).1 := by rw [e]
  have e2 : s' = (r s).2 := by rw [e]
  rw [e1, e2]; exact ⟨by rw [hl, hL], h s⟩
theorem SR.postL_bind {α β} {L : Nat} {m : SR α} {f : α → SR β} {Q : α → Prop} {P : β → Prop}
    (hm : m.PostL L Q) (hf : ∀ a, Q a → (f a).PostL L P) : (SR.bind m f).PostL L P := by
  intro s b s' hl hs
  unfold SR.bind at hs
  split at hs
  · rename_i a s1 h1
    obtain ⟨hl1, hq⟩ := hm s a s1 hl h1
    exact hf a hq s1 b s' hl1 hs
  · cases hs
theorem SR.postL_ite {α} {L : Nat} {P : α → Prop} (c : Prop) [Decidable c] {a b : SR α} (ha : c → a.PostL L P) (hb : ¬ c → b.PostL L P) :
    (if c then a else b).PostL L P := by
  split
  · exact ha ‹_›
  · exact hb ‹_›
theorem SR.postL_mono {α} {L : Nat} {m : SR α} {P Q : α → Prop} (h : m.PostL L P) (hpq : ∀ a, P a → Q a) : m.PostL L Q := by
  intro s a s' hl hs
  obtain ⟨h1, h2⟩ := h s a s' hl hs
  exact ⟨h1, hpq a h2⟩

theorem readString_len (n : Nat) (s : InStream) : (s.readString n).2.len = s.len := read_len s n
theorem readUint_len (n : Nat) (s : InStream) : (s.readUint n).2.len = s.len := read_len s n
theorem readInt_len (n : Nat) (s : InStream) : (s.readInt n).2.len = s.len := read_len s n
theorem readFloat_len (s : InStream) : (s.readFloat).2.len = s.len := read_len s 4

theorem readValues_postL (L : Nat) (ty : PType) (dims : List Nat) (p0 : Param) (h0 : p0.type = ty) (hd : p0.dims = dims) :
    (readValues ty dims p0).PostL L fun p1 => p1.type = ty ∧ p1.dims = dims ∧
      (match ty with
       | .char => if dims.length = 1 then p1.strs ≠ [] else p1.strs.length = (dims.drop 1).prod
       | .byte | .int => p1.ints.length = dims.prod
       | .float => p1.floats.length = dims.prod
       | .none => True) := by
  intro s a s' hl hs
  refine ⟨?_, readValues_post ty dims p0 h0 hd s a s' hs⟩
  unfold readValues at hs
  cases ty with
  | char =>
    simp only [SR.lift] at hs
    have e := Except.ok.inj hs
    have : s' = (s.read dims.prod).2 := by
      split at e <;> exact (congrArg Prod.snd e).symm
    rw [this, read_len, hl]
  | byte =>
    simp only [SR.lift] at hs
    have e := Except.ok.inj hs
    have : s' = (readMany (fun s => s.readInt 1) dims.prod s).2 := (congrArg Prod.snd e).symm
    rw [this, readMany_len _ (readInt_len 1), hl]
  | int =>
    simp only [SR.lift] at hs
    have e := Except.ok.inj hs
    have : s' = (readMany (fun s => s.readInt 2) dims.prod s).2 := (congrArg Prod.snd e).symm
    rw [this, readMany_len _ (readInt_len 2), hl]
  | float =>
    simp only [SR.lift] at hs
    have e := Except.ok.inj hs
    have : s' = (readMany InStream.readFloat dims.prod s).2 := (congrArg Prod.snd e).symm
    rw [this, readMany_len _ readFloat_len, hl]
  | none =>
    have e := Except.ok.inj hs
    have : s' = s := (congrArg Prod.snd e).symm
    rw [this, hl]


/-! ### one parameter record read from any bytes is well-formed -/

theorem readMany_all {α} (f : InStream → α × InStream) (P : α → Prop) (h : ∀ s, P (f s).1) (n : Nat) (s : InStream) :
    ∀ a ∈ (readMany f n s).1, P a := by
  induction n generalizing s with
  | zero => intro a ha; simp [readMany] at ha
  | succ k ih =>
    intro a ha
    simp only [readMany, List.mem_cons] at ha
    rcases ha with rfl | ha
    · exact h s
    · exact ih _ a ha

theorem read_length (s : InStream) (n : Nat) : (s.read n).1.length = n := by
  unfold InStream.read
  split
  · simp
  · cases ht : takePad n s.rest with
    | mk x rk =>
      obtain ⟨r, k⟩ := rk
      have := (takePad_spec n s.rest x r k ht).2.1
      simp only; split <;> exact this

theorem readUint1_lt (s : InStream) : (s.readUint 1).1 < 256 := by
  unfold InStream.readUint
  have hl := read_length s 1
  cases hr : s.read 1 with
  | mk b s' =>
    rw [hr] at hl
    simp only at hl ⊢
    match b, hl with
    | [x], _ => rw [C12.hex2uint_1]; exact UInt8.toNat_lt x

theorem remaining_le (s : InStream) : s.remaining ≤ s.len := by
  unfold InStream.remaining; split <;> omega

theorem zeroDim_enum (fil : Bool) (dims : List Nat) :
    (enum dims).any (fun (i, d) => d == 0 && (decide (i > 0) || !fil)) = zeroDim fil dims 0 := by
  unfold enum zeroDim
  rw [List.range_eq_range']

theorem hasSize_zero (dims : List Nat) (h : dims.prod = 0) : hasSize dims = 0 := by
  unfold hasSize
  split
  · rfl
  · rw [prodU64_eq, h]; rfl

/-- `Parameter::read` on ANY bytes of a file below 2^56 bytes: the parameter it returns holds exactly as many values as its
    dimensions announce — the size check lets the value reader run unless a counted dimension is 0 -/
theorem Param_read_WF (L : Nat) (hL : L + 0xFFFF < two64 / 256) (n : Int) : (Param.read n).PostL L fun r => ParamWF r.1 := by
  unfold Param.read
  refine SR.postL_bind (Q := fun _ => True) (SR.postL_lift _ (readString_len _) fun _ => trivial) fun name _ => ?_
  refine SR.postL_bind (Q := fun _ => True) (SR.postL_lift _ (readUint_len _) fun _ => trivial) fun off _ => ?_
  refine SR.postL_bind SR.postL_get fun s2 _ => ?_
  refine SR.postL_bind (Q := fun _ => True) (SR.postL_lift _ (readInt_len _) fun _ => trivial) fun len _ => ?_
  split
  · exact SR.postL_throw _
  · rename_i ty hty
    refine SR.postL_bind (Q := fun _ => True) (SR.postL_lift _ (readUint_len _) fun _ => trivial) fun nDim _ => ?_
    refine SR.postL_bind (Q := fun dims => dims ≠ [] ∧ ∀ d ∈ dims, d < 256) ?_ fun dims hdims => ?_
    · refine SR.postL_ite _ (fun _ => SR.postL_pure ⟨by simp, by intro d hd; simp at hd; omega⟩) (fun hn => ?_)
      refine SR.postL_lift _ (fun s => readMany_len _ (readUint_len 1) _ _) fun s => ⟨?_, readMany_all _ _ readUint1_lt _ _⟩
      intro hc
      have := readMany_length (fun s => s.readUint 1) nDim s
      rw [hc] at this; simp at this; exact hn this.symm
    · refine SR.postL_bind SR.postL_get fun s5 hs5 => ?_
      simp only
      split
      · exact SR.postL_throw _
      · rename_i nValues hsz
        generalize hfil : (ty == PType.char && decide (dims.length > 1)) = fil at hsz
        rw [zeroDim_enum] at hsz
        -- what the count says about the shape
        have hzero : nValues = 0 → zeroDim fil dims 0 = true := by
          intro h0
          cases hz : zeroDim fil dims 0 with
          | true => rfl
          | false =>
            rw [hz] at hsz
            simp only [Bool.false_eq_true, if_false] at hsz
            have hrem : s5.remaining + 0xFFFF < two64 / 256 := by have := remaining_le s5; omega
            exact absurd h0 (sizeOk_pos s5.remaining fil hrem dims 0 _ 1 hdims.2 (by omega) (by omega) hz nValues hsz)
        generalize hp0 : ({ name := name, locked := decide (n < 0), type := ty, dims := dims } : Param) = p0
        have hp0t : p0.type = ty := by rw [← hp0]
        have hp0d : p0.dims = dims := by rw [← hp0]
        refine SR.postL_bind (Q := fun p1 => ParamWF p1) ?_ fun p1 hp1 => ?_
        · refine SR.postL_ite _ (fun h0 => SR.postL_pure ?_) (fun h0 => ?_)
          · -- no value is read: a counted dimension is 0
            have hz := hzero h0
            unfold ParamWF
            rw [hp0t, hp0d]
            have hi0 : p0.ints = [] := by rw [← hp0]
            have hf0 : p0.floats = [] := by rw [← hp0]
            have hs0 : p0.strs = [] := by rw [← hp0]
            cases ty with
            | char =>
              simp only
              split
              · rename_i h1
                have : fil = false := by rw [← hfil]; simp [h1]
                rw [this] at hz
                rw [hasSize_zero dims (zeroDim_prod dims 0 hz)]; intro hc; omega
              · rename_i h1
                cases dims with
                | nil => exact absurd rfl hdims.1
                | cons d t =>
                  have hlen : t.length ≠ 0 := by intro hc; apply h1; simp [hc]
                  have : fil = true := by rw [← hfil]; simp; omega
                  rw [this] at hz
                  simp only [List.drop_succ_cons, List.drop_zero]
                  rw [zeroDim_prod_tail d t hz]; omega
            | byte =>
              have : fil = false := by rw [← hfil]; rfl
              rw [this] at hz; simp only; rw [zeroDim_prod dims 0 hz]; omega
            | int =>
              have : fil = false := by rw [← hfil]; rfl
              rw [this] at hz; simp only; rw [zeroDim_prod dims 0 hz]; omega
            | float =>
              have : fil = false := by rw [← hfil]; rfl
              rw [this] at hz; simp only; rw [zeroDim_prod dims 0 hz]; omega
            | none => trivial
          · refine SR.postL_mono (readValues_postL L ty dims p0 hp0t hp0d) fun p1 ⟨ht, hd, hv⟩ => ?_
            unfold ParamWF
            rw [ht, hd]
            cases ty with
            | char =>
              simp only at hv ⊢
              split
              · rename_i h1; rw [if_pos h1] at hv; intro _; exact hv
              · rename_i h1; rw [if_neg h1] at hv; omega
            | byte => simp only at hv ⊢; omega
            | int => simp only at hv ⊢; omega
            | float => simp only at hv ⊢; omega
            | none => trivial
        · refine SR.postL_bind (Q := fun _ => True) (SR.postL_lift _ (readUint_len _) fun _ => trivial) fun dl _ => ?_
          refine SR.postL_bind (Q := fun p2 => ParamWF p2) ?_ fun p2 hp2 => SR.postL_pure hp2
          refine SR.postL_ite _ (fun _ => ?_) (fun _ => SR.postL_pure hp1)
          refine SR.postL_lift _ (fun s => readString_len _ _) fun s => ?_
          simpa [ParamWF] using hp1


/-! ### the header reader keeps the file length -/

theorem skipZeros_len (fuel : Nat) : ∀ (s : InStream) (z : Nat) (r : Nat × Nat) (s' : InStream), skipZeros fuel s z = .ok (r, s') → s'.len = s.len := by
  induction fuel with
  | zero => intro s z r s' h; simp [skipZeros, rub] at h
  | succ f ih =>
    intro s z r s' h
    unfold skipZeros at h
    cases hr : s.readUint 1 with
    | mk v s1 =>
      have hl : s1.len = s.len := by have := readUint_len 1 s; rw [hr] at this; exact this
      rw [hr] at h
      simp only at h
      split at h
      · simp [rthrow] at h
      · split at h
        · rw [ih s1 _ r s' h, hl]
        · have e := Except.ok.inj h
          have : s' = s1 := (congrArg Prod.snd e).symm
          rw [this, hl]

theorem Header_read_len (s0 : InStream) (h : Header) (sE : InStream) (hr : Header.read s0 = .ok (h, sE)) : sE.len = s0.len := by
  unfold Header.read at hr
  cases h0 : (s0.seekBeg 0).readUint 1 with
  | mk pa0 s1 =>
  have l1 : s1.len = s0.len := by
    have := readUint_len 1 (s0.seekBeg 0); rw [h0] at this; rw [this]
    unfold InStream.seekBeg; split
    · rfl
    · split <;> rfl
  rw [h0] at hr
  simp only at hr
  split at hr
  · cases hr
  · rename_i pa zeros s2 hfirst
    have l2 : s2.len = s0.len := by
      split at hfirst
      · have e := Except.ok.inj hfirst
        have : s2 = s1 := (congrArg Prod.snd e).symm
        rw [this, l1]
      · rw [skipZeros_len _ _ _ _ _ hfirst, l1]
    cases h3 : s2.readUint 1 with
    | mk ck s3 =>
    have l3 : s3.len = s0.len := by have := readUint_len 1 s2; rw [h3] at this; rw [this, l2]
    rw [h3] at hr
    simp only at hr
    by_cases hck : ck ≠ 0x50
    · rw [if_pos hck] at hr; simp [rthrow] at hr
    rw [if_neg hck] at hr
    cases h4 : s3.readUint 2 with
    | mk np s4 =>
    have l4 : s4.len = s0.len := by have := readUint_len 2 s3; rw [h4] at this; rw [this, l3]
    rw [h4] at hr
    simp only at hr
    cases h5 : s4.readUint 2 with
    | mk nam s5 =>
    have l5 : s5.len = s0.len := by have := readUint_len 2 s4; rw [h5] at this; rw [this, l4]
    rw [h5] at hr
    simp only at hr
    cases h6 : s5.readUint 2 with
    | mk ff s6 =>
    have l6 : s6.len = s0.len := by have := readUint_len 2 s5; rw [h6] at this; rw [this, l5]
    rw [h6] at hr
    simp only at hr
    cases h7 : s6.readUint 2 with
    | mk lf s7 =>
    have l7 : s7.len = s0.len := by have := readUint_len 2 s6; rw [h7] at this; rw [this, l6]
    rw [h7] at hr
    simp only at hr
    cases h8 : s7.readUint 2 with
    | mk gap s8 =>
    have l8 : s8.len = s0.len := by have := readUint_len 2 s7; rw [h8] at this; rw [this, l7]
    rw [h8] at hr
    simp only at hr
    cases h9 : s8.readInt 4 with
    | mk sc s9 =>
    have l9 : s9.len = s0.len := by have := readInt_len 4 s8; rw [h9] at this; rw [this, l8]
    rw [h9] at hr
    simp only at hr
    cases h10 : s9.readUint 2 with
    | mk ds s10 =>
    have l10 : s10.len = s0.len := by have := readUint_len 2 s9; rw [h10] at this; rw [this, l9]
    rw [h10] at hr
    simp only at hr
    cases h11 : s10.readUint 2 with
    | mk abf s11 =>
    have l11 : s11.len = s0.len := by have := readUint_len 2 s10; rw [h11] at this; rw [this, l10]
    rw [h11] at hr
    simp only at hr
    cases h12 : s11.readFloat with
    | mk rate s12 =>
    have l12 : s12.len = s0.len := by have := readFloat_len s11; rw [h12] at this; rw [this, l11]
    rw [h12] at hr
    simp only at hr
    cases h13 : s12.readInt 270 with
    | mk e1 s13 =>
    have l13 : s13.len = s0.len := by have := readInt_len 270 s12; rw [h13] at this; rw [this, l12]
    rw [h13] at hr
    simp only at hr
    cases h14 : s13.readUint 2 with
    | mk klp s14 =>
    have l14 : s14.len = s0.len := by have := readUint_len 2 s13; rw [h14] at this; rw [this, l13]
    rw [h14] at hr
    simp only at hr
    cases h15 : s14.readUint 2 with
    | mk fbk s15 =>
    have l15 : s15.len = s0.len := by have := readUint_len 2 s14; rw [h15] at this; rw [this, l14]
    rw [h15] at hr
    simp only at hr
    cases h16 : s15.readUint 2 with
    | mk fcp s16 =>
    have l16 : s16.len = s0.len := by have := readUint_len 2 s15; rw [h16] at this; rw [this, l15]
    rw [h16] at hr
    simp only at hr
    cases h17 : s16.readUint 2 with
    | mk nev s17 =>
    have l17 : s17.len = s0.len := by have := readUint_len 2 s16; rw [h17] at this; rw [this, l16]
    rw [h17] at hr
    simp only at hr
    cases h18 : s17.readInt 2 with
    | mk e2 s18 =>
    have l18 : s18.len = s0.len := by have := readInt_len 2 s17; rw [h18] at this; rw [this, l17]
    rw [h18] at hr
    simp only at hr
    cases h19 : readMany InStream.readFloat 18 s18 with
    | mk times s19 =>
    have l19 : s19.len = s0.len := by have := readMany_len InStream.readFloat readFloat_len 18 s18; rw [h19] at this; rw [this, l18]
    rw [h19] at hr
    simp only at hr
    cases h20 : readMany (fun s => s.readUint 2) 9 s19 with
    | mk disp s20 =>
    have l20 : s20.len = s0.len := by have := readMany_len (fun s => s.readUint 2) (readUint_len 2) 9 s19; rw [h20] at this; rw [this, l19]
    rw [h20] at hr
    simp only at hr
    cases h21 : s20.readInt 2 with
    | mk e3 s21 =>
    have l21 : s21.len = s0.len := by have := readInt_len 2 s20; rw [h21] at this; rw [this, l20]
    rw [h21] at hr
    simp only at hr
    cases h22 : readMany (fun s => s.readString 4) 18 s21 with
    | mk labels s22 =>
    have l22 : s22.len = s0.len := by have := readMany_len (fun s => s.readString 4) (readString_len 4) 18 s21; rw [h22] at this; rw [this, l21]
    rw [h22] at hr
    simp only at hr
    cases h23 : s22.readInt 44 with
    | mk e4 s23 =>
    have l23 : s23.len = s0.len := by have := readInt_len 44 s22; rw [h23] at this; rw [this, l22]
    rw [h23] at hr
    simp only at hr
    have e := Except.ok.inj hr
    have : sE = s23 := (congrArg Prod.snd e).symm
    rw [this, l23]


/-! ### the record loop and the whole loader -/

theorem Group_read_params (L : Nat) (g : Group) (n : Int) : (g.read n).PostL L fun r => r.1.params = g.params := by
  unfold Group.read
  refine SR.postL_bind (Q := fun _ => True) (SR.postL_lift _ (readString_len _) fun _ => trivial) fun name _ => ?_
  refine SR.postL_bind (Q := fun _ => True) (SR.postL_lift _ (readUint_len _) fun _ => trivial) fun off _ => ?_
  refine SR.postL_bind SR.postL_get fun s2 _ => ?_
  refine SR.postL_bind (Q := fun _ => True) (SR.postL_lift _ (readUint_len _) fun _ => trivial) fun dl _ => ?_
  simp only
  refine SR.postL_bind (Q := fun g2 => g2.params = g.params) ?_ fun g2 hg2 => SR.postL_pure hg2
  refine SR.postL_ite _ (fun _ => ?_) (fun _ => SR.postL_pure rfl)
  exact SR.postL_lift _ (fun s => readString_len _ _) fun s => rfl

theorem WFs_ensure (gs : List Group) (n : Nat) (h : WFs gs) : WFs (ensureGroups gs n) := by
  intro g hg p hp
  unfold ensureGroups at hg
  simp only [List.mem_append, List.mem_replicate] at hg
  rcases hg with hg | ⟨_, rfl⟩
  · exact h g hg p hp
  · simp at hp

theorem readRecords_WF (L : Nat) (hL : L + 0xFFFF < two64 / 256) (fuel : Nat) : ∀ (s : InStream) (next : Int) (gs gs' : List Group) (s' : InStream),
    s.len = L → WFs gs → readRecords fuel s next gs = .ok (gs', s') → WFs gs' := by
  induction fuel with
  | zero => intro s next gs gs' s' _ _ h; simp [readRecords, rub] at h
  | succ f ih =>
    intro s next gs gs' s' hl hw h
    unfold readRecords at h
    split at h
    · have e := Except.ok.inj h; have e1 : gs' = gs := (congrArg Prod.fst e).symm; rw [e1]; exact hw
    · split at h
      · simp [rthrow] at h
      · cases hr : s.readInt 1 with
        | mk n s1 =>
          have l1 : s1.len = L := by have := readInt_len 1 s; rw [hr] at this; rw [this, hl]
          rw [hr] at h
          simp only at h
          split at h
          · have e := Except.ok.inj h; have e1 : gs' = gs := (congrArg Prod.fst e).symm; rw [e1]; exact hw
          · cases hr2 : s1.readInt 1 with
            | mk id s2 =>
              have l2 : s2.len = L := by have := readInt_len 1 s1; rw [hr2] at this; rw [this, l1]
              rw [hr2] at h
              simp only at h
              have hw1 := WFs_ensure gs id.natAbs hw
              split at h
              · split at h
                · simp [rthrow] at h
                · rename_i g hg
                  have hgm : g ∈ ensureGroups gs id.natAbs := List.mem_of_getElem? hg
                  split at h
                  · cases h
                  · rename_i g' nx s3 hgr
                    obtain ⟨l3, hpar⟩ := Group_read_params L g n s2 _ s3 l2 hgr
                    refine ih s3 nx _ gs' s' l3 ?_ h
                    intro x hx q hq
                    rcases mem_set _ _ _ _ hx with hx | rfl
                    · exact hw1 x hx q hq
                    · simp only at hpar; rw [hpar] at hq; exact hw1 g hgm q hq
              · split at h
                · simp [rthrow] at h
                · rename_i g hg
                  have hgm : g ∈ ensureGroups gs id.natAbs := by
                    split at hg
                    · cases hg
                    · exact List.mem_of_getElem? hg
                  split at h
                  · cases h
                  · rename_i p nx s3 hpr
                    obtain ⟨l3, hpw⟩ := Param_read_WF L hL n s2 _ s3 l2 hpr
                    split at h
                    · rename_i g' hadd
                      refine ih s3 nx _ gs' s' l3 ?_ h
                      intro x hx q hq
                      rcases mem_set _ _ _ _ hx with hx | rfl
                      · exact hw1 x hx q hq
                      · unfold Group.addParam at hadd
                        split at hadd
                        · cases hadd
                        · split at hadd
                          · cases hadd
                            simp only at hq
                            rcases mem_set _ _ _ _ hq with hq | rfl
                            · exact hw1 g hgm q hq
                            · exact hpw
                          · cases hadd
                            simp only [List.mem_append, List.mem_cons, List.not_mem_nil, or_false] at hq
                            rcases hq with hq | rfl
                            · exact hw1 g hgm q hq
                            · exact hpw
                    · simp [rthrow] at h
                    · simp [rub] at h

/-- EVERY PARAMETER OF A LOADED OBJECT IS WELL-FORMED, whatever bytes the file holds (files below 2^56 bytes) -/
theorem load_WF (F : FloatOps) (file : Bytes) (c : C3D) (hlen : file.length + 0xFFFF < two64 / 256) (h : C3D.load F file = .ok c) :
    WFs c.groups := by
  unfold C3D.load at h
  split at h
  · cases h
  · cases h
  · rename_i hd s1 hhr
    have l1 : s1.len = file.length := by rw [Header_read_len _ _ _ hhr]; rfl
    split at h
    · cases h
    · cases h
    · rename_i ph gs s2 hrp
      have hgs : WFs gs := by
        unfold readParameters at hrp
        cases hp : readPrologue s1 hd with
        | mk ph' s5 =>
          rw [hp] at hrp
          simp only at hrp
          have l5 : s5.len = file.length := by
            unfold readPrologue at hp
            simp only at hp
            have e2 := congrArg Prod.snd hp
            simp only at e2
            rw [← e2, readUint_len, readUint_len, readUint_len, readUint_len]
            rw [← l1]
            unfold InStream.seekBeg; split
            · rfl
            · split <;> rfl
          split at hrp
          · simp [rthrow] at hrp
          · split at hrp
            · cases hrp
            · rename_i gs0 s6 hrr
              have e := Except.ok.inj hrp
              have : gs = gs0 := by
                have := congrArg (fun x => x.1.2) e
                simp only at this; exact this.symm
              rw [this]
              exact readRecords_WF file.length hlen _ s5 _ [] gs0 s6 l5 (by intro g hg; simp at hg) hrr
      split at h
      · cases h
      · cases h
      · rename_i c1 huh
        have hc1 : c1.groups = gs := by
          obtain ⟨hd', rfl⟩ := updateHeader_ok huh; rfl
        split at h
        · cases h
        · cases h
        · have e := Res.ok.inj h
          rw [← e]
          simp only
          rw [hc1]; exact hgs

end Ezc3d
