import Ezc3dVerif.Proofs.SpecBasics
/-
  The Spec decoder on the value part of a parameter record.
-/
namespace Ezc3d
open C12 N Spec

theorem listAt_bytes (l : List UInt8) : ∀ (pre post : Bytes),
    listAt byteAt (pre ++ (l ++ post)) pre.length 1 l.length = some (l.map UInt8.toNat) := by
  induction l with
  | nil => intro pre post; rfl
  | cons x t ih =>
    intro pre post
    simp only [List.length_cons, listAt, List.map_cons]
    have h0 : byteAt (pre ++ (x :: t ++ post)) pre.length = some x.toNat := by
      have := byteAt_shift pre (x :: t ++ post) 0
      rw [Nat.add_zero] at this; rw [this]; rfl
    rw [h0]
    have h1 := ih (pre ++ [x]) post
    simp only [List.length_append, List.length_cons, List.length_nil, List.append_assoc, List.cons_append, List.nil_append] at h1
    simp only [List.cons_append]
    rw [h1]

theorem listAt_u16 (l : List Int) (hr : ∀ v ∈ l, -32768 ≤ v ∧ v < 32768) : ∀ (pre post : Bytes),
    (listAt u16At (pre ++ ((l.map le16).flatten ++ post)) pre.length 2 l.length).map (fun v => v.map s16) = some l := by
  induction l with
  | nil => intro pre post; rfl
  | cons x t ih =>
    intro pre post
    simp only [List.length_cons, listAt, List.map_cons, List.flatten_cons, List.append_assoc]
    have hx := hr x (by simp)
    have h0 : u16At (pre ++ (le16 x ++ ((t.map le16).flatten ++ post))) pre.length
        = some ((x % 256).toNat + 256 * ((x / 256) % 256).toNat) := by
      have := u16At_shift pre (le16 x ++ ((t.map le16).flatten ++ post)) 0
      rw [Nat.add_zero] at this; rw [this]
      unfold u16At le16
      simp only [List.cons_append, List.nil_append, List.getElem?_cons_zero, List.getElem?_cons_succ]
      rw [ofNat_toNat _ (by omega), ofNat_toNat _ (by omega)]
    rw [h0]
    have h1 := ih (fun v hv => hr v (by simp [hv])) (pre ++ le16 x) post
    simp only [List.length_append, le16_length, List.append_assoc] at h1
    cases hl : listAt u16At (pre ++ (le16 x ++ ((t.map le16).flatten ++ post))) (pre.length + 2) 2 t.length with
    | none => rw [hl] at h1; simp at h1
    | some r =>
      rw [hl] at h1
      simp only [Option.map_some, Option.some.injEq] at h1 ⊢
      rw [List.map_cons, h1]
      congr 1
      unfold s16
      split <;> omega

theorem listAt_u32 (l : List UInt32) : ∀ (pre post : Bytes),
    listAt u32At (pre ++ ((l.map f32le).flatten ++ post)) pre.length 4 l.length = some l := by
  induction l with
  | nil => intro pre post; rfl
  | cons x t ih =>
    intro pre post
    simp only [List.length_cons, listAt, List.map_cons, List.flatten_cons, List.append_assoc]
    have h0 : u32At (pre ++ (f32le x ++ ((t.map f32le).flatten ++ post))) pre.length = some x := by
      have := u32At_shift pre (f32le x ++ ((t.map f32le).flatten ++ post)) 0
      rw [Nat.add_zero] at this; rw [this, u32At_f32le]
    rw [h0]
    have h1 := ih (pre ++ f32le x) post
    simp only [List.length_append, f32le_length, List.append_assoc] at h1
    rw [h1]

theorem trimBlank_eq (s : Bytes) : trimBlank s = cellString s := rfl

theorem cells_cells (w : Nat) (strs : List Bytes) (h : ∀ s ∈ strs, StrOK w s) :
    cells w strs.length ((strs.map (strCell w)).flatten) = strs := by
  induction strs with
  | nil => rfl
  | cons s t ih =>
    have hl := strCell_length w s (h s (by simp)).1
    simp only [List.length_cons, List.map_cons, List.flatten_cons, cells]
    rw [List.take_left' hl, List.drop_left' hl, ih (fun x hx => h x (by simp [hx])), trimBlank_eq, cellString_strCell w s (h s (by simp))]

/-- dimensions as the file stores them: a single 1 is the scalar -/
def specDims (p : Param) : List Nat := if p.dims = [1] then [] else p.dims

def specData (p : Param) : PData :=
  match p.type with
  | .char => .chars p.strs | .byte => .bytes p.ints | .int => .ints p.ints | .float => .floats p.floats | .none => .chars []

theorem specDims_prod (p : Param) : (specDims p).prod = p.dims.prod := by
  unfold specDims; split
  · rename_i h; rw [h]; rfl
  · rfl

theorem map_s8_low8 (l : List Int) (h : ∀ v ∈ l, -128 ≤ v ∧ v < 128) : ((l.map low8).map UInt8.toNat).map s8 = l := by
  induction l with
  | nil => rfl
  | cons x t ih =>
    simp only [List.map_cons]
    rw [s8_low8 x (h x (by simp)).1 (h x (by simp)).2, ih (fun v hv => h v (by simp [hv]))]

/-- THE VALUE PART, as the independent decoder sees it -/
theorem decodeData_valBytes (p : Param) (h : RecOK p) (pre post : Bytes) :
    decodeData (pre ++ (valBytes p ++ post)) pre.length p.type.code (specDims p)
      = some (specData p, pre.length + (valBytes p).length) := by
  have hv := h.values
  unfold ValuesOK at hv
  unfold decodeData
  rw [specDims_prod]
  unfold valBytes specData
  cases ht : p.type <;> simp only [ht, PType.code] at hv ⊢
  · -- char
    simp only [show ((-1 : Int) = -1) from rfl, if_true]
    cases hd : p.dims with
    | nil => exact absurd hd h.dims_ne
    | cons w t =>
      rw [hd] at hv
      simp only [List.length_cons, List.headD_cons, List.prod_cons, List.drop_succ_cons, List.drop_zero] at hv ⊢
      cases t with
      | nil =>
        simp only [List.length_nil, Nat.zero_add, if_true, List.prod_nil, Nat.mul_one] at hv
        by_cases h0 : w = 0
        · simp only [h0, if_true] at hv
          subst h0
          have hsd : specDims p = [0] := by unfold specDims; rw [hd]; simp
          rw [hsd, hv]
          simp only [List.map_nil, List.flatten_nil, List.nil_append, List.length_nil, Nat.add_zero]
          have := slice_at pre [] post
          simp only [List.nil_append, List.length_nil] at this
          rw [this]; simp
        · simp only [h0, if_false] at hv
          obtain ⟨s0, hs0, hok⟩ := hv
          have hl := strCell_length w s0 hok.1
          rw [hs0]
          simp only [List.map_cons, List.map_nil, List.flatten_cons, List.flatten_nil, List.append_nil]
          have hsl := slice_at pre (strCell w s0) post
          rw [hl] at hsl
          by_cases h1 : w = 1
          · subst h1
            have hsd : specDims p = [] := by unfold specDims; rw [hd]; simp
            rw [hsd]
            simp only
            rw [hsl]
            simp [trimBlank_eq, cellString_strCell 1 s0 hok, hl]
          · have hsd : specDims p = [w] := by unfold specDims; rw [hd]; simp [h1]
            rw [hsd]
            simp only
            rw [hsl]
            simp [trimBlank_eq, cellString_strCell w s0 hok, hl, h0]
      | cons d2 t2 =>
        have hne1 : ¬ ((d2 :: t2).length + 1 = 1) := by simp
        simp only [hne1, if_false] at hv
        obtain ⟨hl, hall⟩ := hv
        have hsd : specDims p = w :: d2 :: t2 := by unfold specDims; rw [hd]; simp
        rw [hsd]
        simp only
        have hcl := cells_length w p.strs (fun x hx => (hall x hx).1)
        have hsl := slice_at pre ((p.strs.map (strCell w)).flatten) post
        rw [hcl, hl] at hsl
        simp only [List.prod_cons] at hsl ⊢
        rw [hsl]
        simp only [Option.map_some]
        have hc := cells_cells w p.strs hall
        rw [hl] at hc
        simp only [List.prod_cons] at hc
        rw [hc, hcl, hl]
        simp
  · -- byte
    obtain ⟨hl, hr8⟩ := hv
    simp only [show ¬ ((1 : Int) = -1) from by decide, if_false, if_true]
    have := listAt_bytes (p.ints.map low8) pre post
    rw [List.length_map, hl] at this
    rw [this]
    simp only [Option.map_some, List.length_map]
    rw [map_s8_low8 p.ints hr8, hl]
  · -- int
    obtain ⟨hl, hr16⟩ := hv
    simp only [show ¬ ((2 : Int) = -1) from by decide, show ¬ ((2 : Int) = 1) from by decide, if_false, if_true]
    have := listAt_u16 p.ints hr16 pre post
    rw [hl] at this
    cases hq : listAt u16At (pre ++ ((p.ints.map le16).flatten ++ post)) pre.length 2 p.dims.prod with
    | none => rw [hq] at this; simp at this
    | some r =>
      rw [hq] at this
      simp only [Option.map_some, Option.some.injEq] at this ⊢
      rw [this, C03.flatten_map_len le16 2 (fun _ => rfl), hl]
  · -- float
    simp only [show ¬ ((4 : Int) = -1) from by decide, show ¬ ((4 : Int) = 1) from by decide, show ¬ ((4 : Int) = 2) from by decide, if_false, if_true]
    have := listAt_u32 p.floats pre post
    rw [hv] at this
    rw [this]
    simp only [Option.map_some]
    rw [C03.flatten_map_len f32le 4 (fun _ => rfl), hv]

end Ezc3d
