import Ezc3dVerif.Proofs.Fields
import Ezc3dVerif.Properties.C03
/-
  One parameter record reads back: `Param.read` applied to the bytes `Param.write` produced (generic
  path, i.e. not the blank POINT:DATA_START slot) returns the parameter — name upper-cased, the value
  vector of its type, the other two vectors empty — and stops exactly at the end of the record, where the
  record's own offset says the next record starts.
-/
namespace Ezc3d
open C12 N

/-! ### what the file format can hold -/

/-- a string the blank-padded cell format can hold in a cell of `w` characters -/
def StrOK (w : Nat) (s : Bytes) : Prop := s.length ≤ w ∧ (∀ x ∈ s, x ≠ 0) ∧ rtrim s = s

/-- the values agree with the announced shape and fit their element type -/
def ValuesOK (p : Param) : Prop :=
  match p.type with
  | .byte => p.ints.length = p.dims.prod ∧ ∀ v ∈ p.ints, -128 ≤ v ∧ v < 128
  | .int => p.ints.length = p.dims.prod ∧ ∀ v ∈ p.ints, -32768 ≤ v ∧ v < 32768
  | .float => p.floats.length = p.dims.prod
  | .char =>
    if p.dims.length = 1 then (if p.dims.prod = 0 then p.strs = [] else ∃ s, p.strs = [s] ∧ StrOK (p.dims.headD 0) s)
    else p.strs.length = (p.dims.drop 1).prod ∧ ∀ s ∈ p.strs, StrOK (p.dims.headD 0) s
  | .none => False

/-- number of bytes of one element -/
def PType.size : PType → Nat
  | .char => 1 | .byte => 1 | .int => 2 | .float => 4 | .none => 0

/-- a parameter the record format can hold (capacity limits of C17 included) -/
structure RecOK (p : Param) : Prop where
  name_pos : 1 ≤ p.name.length
  name_len : p.name.length ≤ 127
  name_nz : ∀ x ∈ p.name, x ≠ 0
  desc_len : p.desc.length ≤ 255
  desc_nz : ∀ x ∈ p.desc, x ≠ 0
  dims_ne : p.dims ≠ []
  dims_len : p.dims.length ≤ 255
  dims_small : ∀ d ∈ p.dims, d ≤ 255
  bytes_small : p.type.size * p.dims.prod ≤ 30000
  count_small : (p.dims.drop 1).prod ≤ 30000
  values : ValuesOK p

/-- the parameter as the reader rebuilds it: upper-cased name, only the value vector of its type -/
def Param.norm (p : Param) : Param :=
  { name := toUpper p.name, desc := p.desc, locked := p.locked, type := p.type, dims := p.dims,
    ints := if p.type = .byte ∨ p.type = .int then p.ints else [],
    floats := if p.type = .float then p.floats else [],
    strs := if p.type = .char then p.strs else [] }

/-! ### the size check of `Parameter::read` -/

/-- product of the dimensions that count values (the first one is the string length when `fil`) -/
def countedProd (fil : Bool) : Nat → List Nat → Nat
  | _, [] => 1
  | i, d :: rest => (if i > 0 ∨ fil = false then d else 1) * countedProd fil (i + 1) rest

theorem countedProd_pos (fil : Bool) (dims : List Nat) : ∀ i, (∀ d ∈ dims, 1 ≤ d) → 1 ≤ countedProd fil i dims := by
  induction dims with
  | nil => intro i _; simp [countedProd]
  | cons d t ih =>
    intro i h
    simp only [countedProd]
    have h1 := ih (i + 1) (fun x hx => h x (by simp [hx]))
    have hd := h d (by simp)
    split
    · exact Nat.mul_pos hd h1
    · simpa using h1

theorem u64_small (n : Nat) (h : n < two64) : u64 n = n := by unfold u64; exact Nat.mod_eq_of_lt h

/-- the dimensions that count values: all of them, except the first one of a string table at index 0 -/
def countedDims (fil : Bool) (i : Nat) (dims : List Nat) : List Nat :=
  if i = 0 ∧ fil = true then dims.drop 1 else dims

theorem prod_pos_of_all (l : List Nat) (h : ∀ x ∈ l, 1 ≤ x) : 1 ≤ l.prod := by
  induction l with
  | nil => simp
  | cons a r ihr => simp only [List.prod_cons]; exact Nat.mul_pos (h a (by simp)) (ihr (fun x hx => h x (by simp [hx])))

theorem sizeOk_ok (rem : Nat) (fil : Bool) (hrem : rem + 0xFFFF < two64) : ∀ (dims : List Nat) (i nB nV : Nat),
    (nB = 0 ∨ ∀ d ∈ dims, 1 ≤ d) →
    (nV = 0 ∨ ∀ d ∈ countedDims fil i dims, 1 ≤ d) →
    nB * dims.prod ≤ rem → nV * countedProd fil i dims ≤ rem + 0xFFFF →
    sizeOk rem fil dims i nB nV = some (nV * countedProd fil i dims) := by
  intro dims
  induction dims with
  | nil => intro i nB nV _ _ _ _; simp [sizeOk, countedProd]
  | cons d t ih =>
    intro i nB nV hB hV hb hv
    simp only [List.prod_cons] at hb
    simp only [countedProd] at hv ⊢
    unfold sizeOk
    simp only
    have hVt : nV = 0 ∨ ∀ x ∈ t, 1 ≤ x := by
      cases hV with
      | inl h => exact .inl h
      | inr h =>
        right; intro x hx; apply h x
        unfold countedDims; split
        · simpa using hx
        · simp [hx]
    -- the byte count after this dimension
    have hBle : nB * d ≤ rem := by
      by_cases h0 : nB = 0
      · simp [h0]
      · have hall := hB.resolve_left h0
        have htp : 1 ≤ t.prod := prod_pos_of_all t (fun x hx => hall x (by simp [hx]))
        have : nB * d ≤ nB * (d * t.prod) := by
          apply Nat.mul_le_mul_left; exact Nat.le_mul_of_pos_right d htp
        omega
    have hB' : (if nB ≠ 0 then u64 (nB * d) else nB) = nB * d := by
      by_cases h0 : nB = 0
      · simp [h0]
      · simp only [ne_eq, h0, not_false_eq_true, if_true]
        apply u64_small; unfold two64 at *; omega
    -- the value count after this dimension
    let c := (if i > 0 ∨ fil = false then d else 1)
    have hcdef : c = (if i > 0 ∨ fil = false then d else 1) := rfl
    rw [← hcdef] at hv ⊢
    have hVle : nV * c ≤ rem + 0xFFFF := by
      by_cases h0 : nV = 0
      · simp [h0]
      · have hall := hVt.resolve_left h0
        have hcp := countedProd_pos fil t (i + 1) hall
        have : nV * c ≤ nV * c * countedProd fil (i + 1) t := Nat.le_mul_of_pos_right _ hcp
        rw [Nat.mul_assoc] at this
        omega
    have hV' : (if nV ≠ 0 ∧ (i > 0 ∨ (!fil) = true) then u64 (nV * d) else nV) = nV * c := by
      by_cases h0 : nV = 0
      · simp [h0]
      · by_cases hc : i > 0 ∨ fil = false
        · have hc' : i > 0 ∨ (!fil) = true := by cases hc with | inl h => exact .inl h | inr h => right; simp [h]
          simp only [ne_eq, h0, not_false_eq_true, hc', and_self, if_true]
          have hcd : c = d := by simp [hcdef, hc]
          rw [hcd] at hVle ⊢
          apply u64_small; unfold two64 at *; omega
        · have hc' : ¬ (i > 0 ∨ (!fil) = true) := by
            intro h; apply hc; cases h with | inl h => exact .inl h | inr h => right; simpa using h
          have hcd : c = 1 := by simp [hcdef, hc]
          rw [hcd, Nat.mul_one]
          rw [if_neg]
          intro h; exact hc' h.2
    rw [hB', hV']
    have hno : ¬ (nB * d > rem ∨ nV * c > rem + 0xFFFF) := by omega
    simp only [hno, if_false]
    rw [ih (i + 1) (nB * d) (nV * c)]
    · rw [Nat.mul_assoc]
    · by_cases h0 : nB = 0
      · left; simp [h0]
      · right; exact fun x hx => (hB.resolve_left h0) x (by simp [hx])
    · by_cases h0 : nV = 0
      · left; simp [h0]
      · right; intro x hx
        have : countedDims fil (i + 1) t = t := by unfold countedDims; simp
        rw [this] at hx
        exact (hVt.resolve_left h0) x hx
    · rw [Nat.mul_assoc]; exact hb
    · rw [Nat.mul_assoc]; exact hv

end Ezc3d

namespace Ezc3d
open C12 N

/-! ### string cells -/

theorem filter_noNul (s : Bytes) (h : ∀ x ∈ s, x ≠ 0) : s.filter (· != 0) = s := by
  rw [List.filter_eq_self]
  intro x hx; simpa using h x hx

theorem dropWhile_spaces (k : Nat) (l : Bytes) : (List.replicate k (32 : UInt8) ++ l).dropWhile (· == 32) = l.dropWhile (· == 32) := by
  induction k with
  | zero => simp
  | succ n ih => simp [List.replicate_succ, ih]

theorem rtrim_append_spaces (s : Bytes) (k : Nat) : rtrim (s ++ spaces k) = rtrim s := by
  unfold rtrim spaces
  rw [List.reverse_append, List.reverse_replicate, dropWhile_spaces]

theorem spaces_noNul (k : Nat) : ∀ x ∈ spaces k, x ≠ 0 := by
  intro x hx; unfold spaces at hx; rw [List.mem_replicate] at hx; rw [hx.2]; decide

theorem strCell_length (w : Nat) (s : Bytes) (h : s.length ≤ w) : (strCell w s).length = w := by
  unfold strCell spaces; simp; omega

theorem cellString_strCell (w : Nat) (s : Bytes) (h : StrOK w s) : cellString (strCell w s) = s := by
  obtain ⟨_, hz, ht⟩ := h
  unfold cellString strCell
  rw [filter_noNul _ (by intro x hx; rw [List.mem_append] at hx; cases hx with | inl h => exact hz x h | inr h => exact spaces_noNul _ x h)]
  rw [rtrim_append_spaces, ht]

theorem chunks_cells (w : Nat) (strs : List Bytes) (h : ∀ s ∈ strs, s.length ≤ w) :
    chunks w strs.length ((strs.map (strCell w)).flatten) = strs.map (strCell w) := by
  induction strs with
  | nil => simp [chunks]
  | cons s t ih =>
    have hl := strCell_length w s (h s (by simp))
    simp only [List.length_cons, List.map_cons, List.flatten_cons, chunks]
    rw [List.take_left' hl, List.drop_left' hl, ih (fun x hx => h x (by simp [hx]))]

theorem cells_length (w : Nat) (strs : List Bytes) (h : ∀ s ∈ strs, s.length ≤ w) :
    ((strs.map (strCell w)).flatten).length = w * strs.length := by
  induction strs with
  | nil => simp
  | cons s t ih =>
    simp only [List.map_cons, List.flatten_cons, List.length_append, List.length_cons]
    rw [strCell_length w s (h s (by simp)), ih (fun x hx => h x (by simp [hx])), Nat.mul_succ]; omega

theorem map_cellString_cells (w : Nat) (strs : List Bytes) (h : ∀ s ∈ strs, StrOK w s) :
    (strs.map (strCell w)).map cellString = strs := by
  induction strs with
  | nil => rfl
  | cons s t ih =>
    simp only [List.map_cons]
    rw [cellString_strCell w s (h s (by simp)), ih (fun x hx => h x (by simp [hx]))]

end Ezc3d

namespace Ezc3d
open C12 N

/-! ### the value bytes of a record (generic path) -/

def valBytes (p : Param) : Bytes :=
  match p.type with
  | .byte => p.ints.map low8
  | .int => (p.ints.map le16).flatten
  | .float => (p.floats.map f32le).flatten
  | .char => (p.strs.map (strCell (p.dims.headD 0))).flatten
  | .none => []

theorem prodU64_eq (dims : List Nat) : prodU64 dims = dims.prod % two64 := by
  unfold prodU64
  have : ∀ (l : List Nat) (acc : Nat), l.foldl (fun a d => u64 (a * d)) acc % two64 = (acc * l.prod) % two64 := by
    intro l
    induction l with
    | nil => intro acc; simp
    | cons d t ih =>
      intro acc
      simp only [List.foldl_cons, List.prod_cons]
      rw [ih, u64, Nat.mod_mul_mod, Nat.mul_assoc]
  have h1 := this dims 1
  have h2 : ∀ (l : List Nat) (acc : Nat), acc < two64 → l.foldl (fun a d => u64 (a * d)) acc < two64 := by
    intro l
    induction l with
    | nil => intro acc h; simpa
    | cons d t ih => intro acc _; simp only [List.foldl_cons]; exact ih _ (by unfold u64; exact Nat.mod_lt _ (by decide))
  rw [Nat.mod_eq_of_lt (h2 dims 1 (by decide))] at h1
  simpa using h1

theorem hasSize_small (dims : List Nat) (hne : dims ≠ []) (h : dims.prod ≤ 30000) : hasSize dims = dims.prod := by
  unfold hasSize
  have : dims.length ≠ 0 := by intro h0; exact hne (List.length_eq_zero_iff.mp h0)
  simp only [this, if_false]
  rw [prodU64_eq, Nat.mod_eq_of_lt (by unfold two64; omega)]
  unfold u64ToI32 two32 two31
  simp only
  rw [Nat.mod_eq_of_lt (by omega)]
  split
  · rfl
  · omega

theorem size_pos_of_values (p : Param) (h : ValuesOK p) : 1 ≤ p.type.size := by
  unfold ValuesOK at h
  cases ht : p.type <;> simp only [ht] at h <;> simp [PType.size]

theorem prod_small (p : Param) (h : RecOK p) : p.dims.prod ≤ 30000 := by
  have h1 := size_pos_of_values p h.values
  have h2 := h.bytes_small
  calc p.dims.prod = 1 * p.dims.prod := by simp
    _ ≤ p.type.size * p.dims.prod := Nat.mul_le_mul_right _ h1
    _ ≤ 30000 := h2

theorem take_all {α} (l : List α) (n : Nat) (h : l.length = n) : l.take n = l := by
  rw [← h]; exact List.take_length

theorem cells_empty (l : List Bytes) (hl : ∀ s ∈ l, StrOK 0 s) : (l.map (strCell 0)).flatten = [] := by
  induction l with
  | nil => rfl
  | cons a r ih =>
    have ha := (hl a (by simp)).1
    have : a = [] := List.length_eq_zero_iff.mp (by omega)
    subst this
    simp [strCell, spaces, ih (fun x hx => hl x (by simp [hx]))]

/-- what the generic path writes is `valBytes` -/
theorem writeData_plain (p : Param) (h : RecOK p) : p.writeData false = .ok (valBytes p, none) := by
  have hs := hasSize_small p.dims h.dims_ne (prod_small p h)
  have hv := h.values
  unfold Param.writeData
  rw [hs]
  simp only [Bool.false_eq_true, and_false, if_false]
  unfold ValuesOK at hv
  unfold valBytes
  by_cases h0 : p.dims.prod = 0
  · have hp : ¬ ((p.dims.prod : Int) > 0) := by omega
    rw [if_neg hp]
    cases ht : p.type <;> simp only [ht] at hv ⊢
    · by_cases h1 : p.dims.length = 1
      · simp only [h1, if_true, h0] at hv
        simp [hv]
      · simp only [h1, if_false] at hv
        obtain ⟨hl, hall⟩ := hv
        cases hd : p.dims with
        | nil => exact absurd hd h.dims_ne
        | cons w t =>
          rw [hd] at h0 hl hall
          simp only [List.prod_cons, List.drop_succ_cons, List.drop_zero, List.headD_cons] at h0 hl hall ⊢
          rcases Nat.mul_eq_zero.mp h0 with hw | hc
          · subst hw; rw [cells_empty _ hall]
          · rw [hc] at hl
            have : p.strs = [] := List.length_eq_zero_iff.mp hl
            simp [this]
    · rw [h0] at hv; have : p.ints = [] := List.length_eq_zero_iff.mp hv.1; simp [this]
    · rw [h0] at hv; have : p.ints = [] := List.length_eq_zero_iff.mp hv.1; simp [this]
    · rw [h0] at hv; have : p.floats = [] := List.length_eq_zero_iff.mp hv; simp [this]
  · have hp : (p.dims.prod : Int) > 0 := by omega
    rw [if_pos hp]
    cases ht : p.type <;> simp only [ht] at hv ⊢
    · rw [if_pos trivial]
      by_cases h1 : p.dims.length = 1
      · simp only [h1, if_true, h0, if_false] at hv
        obtain ⟨s, hs1, _⟩ := hv
        rw [if_pos h1, hs1]
        simp
      · simp only [h1, if_false] at hv
        obtain ⟨hl, _⟩ := hv
        rw [if_neg h1]
        unfold Param.writeValues
        simp only [ht]
        rw [if_neg (by omega), take_all _ _ hl]
        simp
    · rw [if_neg (by simp)]
      unfold Param.writeValues
      simp only [ht]
      rw [if_neg (by omega), take_all _ _ hv.1]
      simp
    · rw [if_neg (by simp)]
      unfold Param.writeValues
      simp only [ht]
      rw [if_neg (by omega), take_all _ _ hv.1]
      simp
    · rw [if_neg (by simp)]
      unfold Param.writeValues
      simp only [ht]
      rw [if_neg (by omega), take_all _ _ hv]
      simp

end Ezc3d
