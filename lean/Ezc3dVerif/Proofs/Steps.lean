import Ezc3dVerif.Proofs.Updaters
/- Inversions of the successful column adders / lock toggles, and `Mand` under a lock toggle. -/
namespace Ezc3d
open N

theorem setGroupLock_ok_inv {s s' : C3D} {name : Bytes} {v : Bool} (h : s.setGroupLock name v = .ok s') :
    ∃ gi, groupIdx s.groups name = .ok gi ∧
      s' = { s with groups := s.groups.modify gi fun g => { g with locked := v } } := by
  unfold C3D.setGroupLock at h
  obtain ⟨gi, hgi, h⟩ := Res.andThen_ok_iff.mp h
  cases h
  exact ⟨gi, hgi, rfl⟩

theorem getParam_lock (gs : List Group) (gi : Nat) (v : Bool) (g p : Bytes) :
    getParam (gs.modify gi fun x => { x with locked := v }) g p = getParam gs g p := by
  unfold getParam byName
  rw [nameIdx_modify Group.name gs gi _ g (by intro x; rfl)]
  cases hg : nameIdx Group.name gs g with
  | throw e => rfl
  | ub k => rfl
  | ok j =>
    simp only [Res.bind_ok]
    rw [atIdx_modify]
    by_cases hij : gi = j
    · subst hij
      simp only [if_true]
      cases ha : atIdx gs gi with
      | throw e => rfl
      | ub k => rfl
      | ok grp => simp [Res.map]
    · simp [hij]

theorem Mand_lock {gs : List Group} (hM : Mand gs) (gi : Nat) (v : Bool) :
    Mand (gs.modify gi fun x => { x with locked := v }) := by
  intro s hs
  obtain ⟨q, hq, hk⟩ := hM s hs
  exact ⟨q, by rw [getParam_lock]; exact hq, hk⟩

theorem pointCols_ok_inv {F : FloatOps} {s s' : C3D} {frames : List Frame} (h : s.pointCols F frames = .ok s') :
    ∃ fr, updateParameters F { s with frames := fr } [] [] = .ok s' := by
  unfold C3D.pointCols at h
  split at h; · cases h
  split at h; · cases h
  split at h; · cases h
  obtain ⟨labels, _, h⟩ := Res.andThen_ok_iff.mp h
  split at h; · cases h
  exact ⟨_, h⟩

theorem analogCols_ok_inv {F : FloatOps} {s s' : C3D} {frames : List Frame} (h : s.analogCols F frames = .ok s') :
    ∃ fr, updateParameters F { s with frames := fr } [] [] = .ok s' := by
  unfold C3D.analogCols at h
  split at h; · cases h
  split at h; · cases h
  split at h; · cases h
  split at h; · cases h
  split at h; · cases h
  obtain ⟨labels, _, h⟩ := Res.andThen_ok_iff.mp h
  dsimp only at h
  split at h; · cases h
  exact ⟨_, h⟩

end Ezc3d
