import Ezc3dVerif.Spec.Assemble
import Ezc3dVerif.Proofs.SpecLayout
/-
  The loader's group table (`rs.foldl applyRec []`: replace-or-append loops over interleaved records) IS the declarative
  presentation `Spec.assemble` of the independent decoder's flat record lists.
-/
namespace Ezc3d
open N Spec

/-! ### the declarative presentation equals a replace-or-append fold -/

def putS (acc : List SParam) (p : SParam) : List SParam :=
  match acc.findIdx? (fun x => x.name == p.name) with
  | some k => acc.set k p
  | none => acc ++ [p]

theorem firstOcc_append_one (l : List Bytes) (a : Bytes) :
    firstOcc (l ++ [a]) = if a ∈ l then firstOcc l else firstOcc l ++ [a] := by
  induction l with
  | nil => simp [firstOcc]
  | cons b t ih =>
    simp only [List.cons_append, firstOcc, ih]
    by_cases hab : a = b
    · subst hab
      simp only [List.mem_cons, true_or, if_true]
      split
      · rfl
      · simp [List.filter_append]
    · have hne : (a != b) = true := by simpa using hab
      simp only [List.mem_cons, hab, false_or]
      split
      · rfl
      · simp [List.filter_append, hne]

theorem mem_firstOcc (l : List Bytes) (a : Bytes) : a ∈ firstOcc l ↔ a ∈ l := by
  induction l with
  | nil => simp [firstOcc]
  | cons b t ih =>
    simp only [firstOcc, List.mem_cons, List.mem_filter, ih]
    constructor
    · rintro (h | ⟨h, _⟩)
      · exact Or.inl h
      · exact Or.inr h
    · intro h
      by_cases hab : a = b
      · exact Or.inl hab
      · rcases h with h | h
        · exact absurd h hab
        · exact Or.inr ⟨h, by simpa using hab⟩

theorem firstOcc_nodup (l : List Bytes) : (firstOcc l).Nodup := by
  induction l with
  | nil => simp [firstOcc]
  | cons b t ih =>
    simp only [firstOcc, List.nodup_cons, List.mem_filter]
    refine ⟨?_, ih.filter _⟩
    rintro ⟨_, h⟩
    simp at h

theorem lastNamed_append_one (l : List SParam) (p : SParam) (n : Bytes) :
    lastNamed (l ++ [p]) n = if p.name = n then some p else lastNamed l n := by
  unfold lastNamed
  simp only [List.reverse_append, List.reverse_cons, List.reverse_nil, List.nil_append, List.cons_append, List.find?_cons]
  by_cases h : p.name = n
  · simp [h]
  · have : (p.name == n) = false := by simpa using h
    simp [this, h]

theorem lastNamed_name (l : List SParam) (n : Bytes) (x : SParam) (h : lastNamed l n = some x) : x.name = n := by
  unfold lastNamed at h
  have := List.find?_some h
  simpa using this

theorem lastNamed_isSome (l : List SParam) (n : Bytes) (h : n ∈ l.map (·.name)) : ∃ x, lastNamed l n = some x := by
  unfold lastNamed
  simp only [List.mem_map] at h
  obtain ⟨x, hx, hn⟩ := h
  cases hf : l.reverse.find? (fun p => p.name == n) with
  | some y => exact ⟨y, rfl⟩
  | none =>
    rw [List.find?_eq_none] at hf
    have := hf x (by simpa using hx)
    simp [hn] at this

/-- the declarative list, as a function of the records so far -/
def presented (l : List SParam) : List SParam := (firstOcc (l.map (·.name))).filterMap (lastNamed l)

theorem presented_names (l : List SParam) : (presented l).map (·.name) = firstOcc (l.map (·.name)) := by
  unfold presented
  have : ∀ (ns : List Bytes), (∀ n ∈ ns, n ∈ l.map (·.name)) → (ns.filterMap (lastNamed l)).map (·.name) = ns := by
    intro ns
    induction ns with
    | nil => intro _; rfl
    | cons n t ih =>
      intro h
      obtain ⟨x, hx⟩ := lastNamed_isSome l n (h n (by simp))
      simp only [List.filterMap_cons, hx, List.map_cons, lastNamed_name l n x hx]
      rw [ih (fun m hm => h m (by simp [hm]))]
  exact this _ (fun n hn => (mem_firstOcc _ n).mp hn)

theorem findIdx?_name_eq_idxOf (l : List SParam) (n : Bytes) :
    l.findIdx? (fun x => x.name == n) = (l.map (·.name)).findIdx? (fun m => m == n) := by
  induction l with
  | nil => rfl
  | cons a t ih => simp only [List.map_cons, List.findIdx?_cons, ih]

theorem filterMap_congr_mem {α β} (l : List α) (f g : α → Option β) (h : ∀ a ∈ l, f a = g a) : l.filterMap f = l.filterMap g := by
  induction l with
  | nil => rfl
  | cons a t ih =>
    simp only [List.filterMap_cons, h a (by simp)]
    rw [ih (fun b hb => h b (by simp [hb]))]

/-- replacing, at the position of name `n` in a duplicate-free list of names, what `f` yields there -/
theorem filterMap_set_at (ns : List Bytes) (hnd : ns.Nodup) (f g : Bytes → Option SParam) (n : Bytes) (p : SParam) (k : Nat)
    (hk : ns.findIdx? (fun m => m == n) = some k)
    (hf : ∀ m ∈ ns, ∃ x, f m = some x)
    (hg : ∀ m, g m = if m = n then some p else f m) :
    ns.filterMap g = (ns.filterMap f).set k p := by
  induction ns generalizing k with
  | nil => simp at hk
  | cons a t ih =>
    obtain ⟨x, hx⟩ := hf a (by simp)
    simp only [List.nodup_cons] at hnd
    simp only [List.findIdx?_cons] at hk
    by_cases han : a = n
    · subst han
      simp only [beq_self_eq_true, if_true, Option.some.injEq] at hk
      subst hk
      simp only [List.filterMap_cons, hg a, if_true, hx, List.set_cons_zero]
      congr 1
      apply filterMap_congr_mem
      intro m hm
      rw [hg m, if_neg]
      intro hc; subst hc; exact hnd.1 hm
    · have hb : (a == n) = false := by simpa using han
      simp only [hb] at hk
      cases ht : t.findIdx? (fun m => m == n) with
      | none => simp [ht] at hk
      | some j =>
        simp only [ht, Option.map_some, Option.some.injEq, Bool.false_eq_true, if_false] at hk
        subst hk
        simp only [List.filterMap_cons, hg a, if_neg han, hx, List.set_cons_succ]
        congr 1
        exact ih hnd.2 j ht (fun m hm => hf m (by simp [hm]))

theorem findIdx?_beq_none_of_not_mem (ns : List Bytes) (n : Bytes) (h : n ∉ ns) : ns.findIdx? (fun m => m == n) = none := by
  rw [List.findIdx?_eq_none_iff]
  intro m hm
  simp only [beq_eq_false_iff_ne, ne_eq]
  intro hc; subst hc; exact h hm

theorem findIdx?_beq_some_of_mem (ns : List Bytes) (n : Bytes) (h : n ∈ ns) : ∃ k, ns.findIdx? (fun m => m == n) = some k := by
  cases hf : ns.findIdx? (fun m => m == n) with
  | some k => exact ⟨k, rfl⟩
  | none =>
    rw [List.findIdx?_eq_none_iff] at hf
    have := hf n h
    simp at this

theorem presented_append_one (l : List SParam) (p : SParam) : presented (l ++ [p]) = putS (presented l) p := by
  unfold putS
  rw [findIdx?_name_eq_idxOf, presented_names]
  by_cases hin : p.name ∈ l.map (·.name)
  · obtain ⟨k, hk⟩ := findIdx?_beq_some_of_mem _ _ ((mem_firstOcc _ _).mpr hin)
    rw [hk]
    simp only
    unfold presented
    rw [List.map_append, List.map_cons, List.map_nil, firstOcc_append_one, if_pos hin]
    exact filterMap_set_at _ (firstOcc_nodup _) (lastNamed l) (lastNamed (l ++ [p])) p.name p k hk
      (fun m hm => lastNamed_isSome l m ((mem_firstOcc _ m).mp hm))
      (fun m => by
        rw [lastNamed_append_one]
        by_cases h : p.name = m
        · subst h; simp
        · rw [if_neg h, if_neg (fun hc => h hc.symm)])
  · rw [findIdx?_beq_none_of_not_mem _ _ (fun h => hin ((mem_firstOcc _ _).mp h))]
    simp only
    unfold presented
    rw [List.map_append, List.map_cons, List.map_nil, firstOcc_append_one, if_neg hin, List.filterMap_append]
    congr 1
    · apply filterMap_congr_mem
      intro m hm
      rw [lastNamed_append_one, if_neg]
      intro hc; subst hc; exact hin ((mem_firstOcc _ _).mp hm)
    · simp [lastNamed_append_one]

/-- THE DECLARATIVE PRESENTATION IS WHAT A REPLACE-OR-APPEND LOOP BUILDS -/
theorem foldl_putS_presented (l : List SParam) : l.foldl putS [] = presented l := by
  suffices ∀ (done todo : List SParam), todo.foldl putS (presented done) = presented (done ++ todo) by
    have := this [] l
    simpa [presented, firstOcc] using this
  intro done todo
  induction todo generalizing done with
  | nil => simp
  | cons p t ih =>
    simp only [List.foldl_cons]
    rw [← presented_append_one, ih (done ++ [p])]
    simp

theorem paramsOf_eq_fold (ps : List SParam) (g : Nat) : paramsOf ps g = (ps.filter (fun p => p.gid == g)).foldl putS [] := by
  rw [foldl_putS_presented]; rfl

/-! ### the header of a group -/

def hdrS (old : AGroup) (r : SGroup) : AGroup :=
  { old with name := r.name, locked := r.locked, desc := if r.desc = [] then old.desc else r.desc }

/-- what a fold of `hdrS` from the blank group yields, stated on the list -/
theorem foldl_hdrS (l : List SGroup) :
    l.foldl hdrS {} = (match l.getLast? with
      | none => ({} : AGroup)
      | some h => { name := h.name, locked := h.locked, desc := (((l.filter (fun r => r.desc != [])).getLast?).map (·.desc)).getD [] }) := by
  suffices ∀ (done todo : List SGroup),
      todo.foldl hdrS (match done.getLast? with
        | none => ({} : AGroup)
        | some h => { name := h.name, locked := h.locked, desc := (((done.filter (fun r => r.desc != [])).getLast?).map (·.desc)).getD [] })
      = (match (done ++ todo).getLast? with
        | none => ({} : AGroup)
        | some h => { name := h.name, locked := h.locked, desc := ((((done ++ todo).filter (fun r => r.desc != [])).getLast?).map (·.desc)).getD [] }) by
    simpa using this [] l
  intro done todo
  induction todo generalizing done with
  | nil => simp
  | cons r t ih =>
    simp only [List.foldl_cons]
    have hstep : hdrS (match done.getLast? with
        | none => ({} : AGroup)
        | some h => { name := h.name, locked := h.locked, desc := (((done.filter (fun r => r.desc != [])).getLast?).map (·.desc)).getD [] }) r
      = (match (done ++ [r]).getLast? with
        | none => ({} : AGroup)
        | some h => { name := h.name, locked := h.locked, desc := ((((done ++ [r]).filter (fun r => r.desc != [])).getLast?).map (·.desc)).getD [] }) := by
      cases hgl : done.getLast? with
      | none =>
        have hnil := List.getLast?_eq_none_iff.mp hgl
        subst hnil
        by_cases hd : r.desc = [] <;> simp [hdrS, hd]
      | some h =>
        by_cases hd : r.desc = []
        · have hb : (r.desc != []) = false := by simp [hd]
          simp [hdrS, hd, List.filter_append, List.getLast?_append]
        · have hb : (r.desc != []) = true := by simpa using hd
          simp [hdrS, hd, List.filter_append, List.getLast?_append]
    rw [hstep, ih (done ++ [r])]
    simp

theorem headerOf_eq_fold (gs : List SGroup) (g : Nat) : headerOf gs g = (gs.filter (fun r => r.gid == g)).foldl hdrS {} := by
  rw [foldl_hdrS]; rfl

end Ezc3d

namespace Ezc3d
open N Spec

/-! ### the loader's table, index by index -/

def Rec.idx : Rec → Nat
  | .group i _ => i
  | .param i _ => i

/-- what one record does to the group object at index `i` -/
def recAt (i : Nat) (old : Group) : Rec → Group
  | .group j g => if j = i then { old with name := toUpper g.name, locked := g.locked, desc := if g.desc = [] then old.desc else g.desc } else old
  | .param j p => if j = i then old.putParam p.norm else old

theorem ensureGroups_getD (gs : List Group) (n i : Nat) : (ensureGroups gs n).getD i {} = gs.getD i {} := by
  unfold ensureGroups
  simp only [List.getD_eq_getElem?_getD, List.getElem?_append, List.getElem?_replicate]
  split
  · rfl
  · rename_i h
    rw [List.getElem?_eq_none (by omega)]
    split <;> rfl

theorem modify_getD (l : List Group) (j i : Nat) (f : Group → Group) (hj : j < l.length) :
    (l.modify j f).getD i {} = if j = i then f (l.getD j {}) else l.getD i {} := by
  simp only [List.getD_eq_getElem?_getD, List.getElem?_modify]
  split
  · rename_i h; subst h
    rw [List.getElem?_eq_getElem hj]; rfl
  · simp

theorem applyRec_getD (gs : List Group) (r : Rec) (i : Nat) : (applyRec gs r).getD i {} = recAt i (gs.getD i {}) r := by
  cases r with
  | group j g =>
    simp only [applyRec, recAt]
    rw [modify_getD _ _ _ _ (by have := ensureGroups_length gs (j + 1); omega), ensureGroups_getD, ensureGroups_getD]
    split
    · rename_i h; subst h; rfl
    · rfl
  | param j p =>
    simp only [applyRec, recAt]
    rw [modify_getD _ _ _ _ (by have := ensureGroups_length gs (j + 1); omega), ensureGroups_getD, ensureGroups_getD]
    split
    · rename_i h; subst h; rfl
    · rfl

theorem applyRec_length (gs : List Group) (r : Rec) : (applyRec gs r).length = max gs.length (r.idx + 1) := by
  cases r <;> simp [applyRec, ensureGroups, Rec.idx] <;> omega

theorem foldl_applyRec_getD (rs : List Rec) : ∀ (gs : List Group) (i : Nat),
    (rs.foldl applyRec gs).getD i {} = rs.foldl (recAt i) (gs.getD i {}) := by
  induction rs with
  | nil => intro gs i; rfl
  | cons r t ih => intro gs i; simp only [List.foldl_cons]; rw [ih, applyRec_getD]

theorem foldl_applyRec_length (rs : List Rec) : ∀ (gs : List Group),
    (rs.foldl applyRec gs).length = (rs.map (fun r => r.idx + 1)).foldl max gs.length := by
  induction rs with
  | nil => intro gs; rfl
  | cons r t ih => intro gs; simp only [List.foldl_cons, List.map_cons]; rw [ih, applyRec_length]

/-! ### the view of a group object -/

def viewG (i : Nat) (g : Group) : AGroup :=
  { name := g.name, locked := g.locked, desc := g.desc, params := g.params.map (specParam i) }

/-- stored parameter names are upper case (the loader stores `p.norm`) -/
def UpperG (g : Group) : Prop := ∀ x ∈ g.params, toUpper x.name = x.name

theorem specParam_norm (i : Nat) (p : Param) : specParam i p.norm = specParam i p := by
  unfold specParam Param.norm specDims specData
  simp only [C03.toUpper_idem]
  cases p.type <;> simp

theorem norm_upper (p : Param) : toUpper p.norm.name = p.norm.name := by
  simp only [Param.norm, C03.toUpper_idem]

theorem findIdx?_congr_mem {α} (l : List α) (p q : α → Bool) (h : ∀ a ∈ l, p a = q a) : l.findIdx? p = l.findIdx? q := by
  induction l with
  | nil => rfl
  | cons a t ih =>
    simp only [List.findIdx?_cons, h a (by simp)]
    rw [ih (fun b hb => h b (by simp [hb]))]

theorem putParam_view (i : Nat) (g : Group) (q : Param) (hg : UpperG g) (hq : toUpper q.name = q.name) :
    (g.putParam q).params.map (specParam i) = putS (g.params.map (specParam i)) (specParam i q) := by
  unfold Group.putParam putS
  have hidx : (g.params.map (specParam i)).findIdx? (fun x => x.name == (specParam i q).name)
      = g.params.findIdx? (fun x => x.name == q.name) := by
    rw [List.findIdx?_map]
    apply findIdx?_congr_mem
    intro a ha
    simp only [Function.comp, specParam, hg a ha, hq]
  rw [hidx]
  cases g.params.findIdx? (fun x => x.name == q.name) with
  | some k => simp only [List.map_set]
  | none => simp only [List.map_append, List.map_cons, List.map_nil]

theorem putParam_upper (g : Group) (q : Param) (hg : UpperG g) (hq : toUpper q.name = q.name) : UpperG (g.putParam q) := by
  unfold Group.putParam UpperG
  intro x hx
  split at hx
  · rcases List.mem_or_eq_of_mem_set hx with h | h
    · exact hg x h
    · rw [h]; exact hq
  · simp only [List.mem_append, List.mem_singleton] at hx
    rcases hx with h | h
    · exact hg x h
    · rw [h]; exact hq

theorem recAt_upper (i : Nat) (g : Group) (r : Rec) (hg : UpperG g) : UpperG (recAt i g r) := by
  cases r with
  | group j gr => simp only [recAt]; split <;> exact hg
  | param j p =>
    simp only [recAt]; split
    · exact putParam_upper g p.norm hg (norm_upper p)
    · exact hg

/-- one record, seen on the view -/
def stepV (i : Nat) (v : AGroup) : Rec → AGroup
  | .group j g => if j = i then hdrS v (specGroup j g) else v
  | .param j p => if j = i then { v with params := putS v.params (specParam j p) } else v

theorem recAt_view (i : Nat) (g : Group) (r : Rec) (hg : UpperG g) : viewG i (recAt i g r) = stepV i (viewG i g) r := by
  cases r with
  | group j gr =>
    simp only [recAt, stepV]
    split
    · rfl
    · rfl
  | param j p =>
    simp only [recAt, stepV]
    split
    · rename_i h; subst h
      simp only [viewG]
      rw [putParam_view j g p.norm hg (norm_upper p), specParam_norm]
      simp only [Group.putParam]
      split <;> rfl
    · rfl

theorem foldl_recAt_view (rs : List Rec) : ∀ (i : Nat) (g : Group), UpperG g →
    viewG i (rs.foldl (recAt i) g) = rs.foldl (stepV i) (viewG i g) := by
  induction rs with
  | nil => intro i g _; rfl
  | cons r t ih =>
    intro i g hg
    simp only [List.foldl_cons]
    rw [ih i _ (recAt_upper i g r hg), recAt_view i g r hg]

theorem foldl_hdrS_params (l : List SGroup) : ∀ (v : AGroup) (X Y : List SParam),
    ({ l.foldl hdrS { v with params := X } with params := Y } : AGroup) = { l.foldl hdrS v with params := Y } := by
  induction l with
  | nil => intro v X Y; rfl
  | cons r t ih =>
    intro v X Y
    simp only [List.foldl_cons]
    have : hdrS { v with params := X } r = { hdrS v r with params := X } := rfl
    rw [this, ih]

theorem foldl_hdrS_keeps_params (l : List SGroup) : ∀ (v : AGroup), (l.foldl hdrS v).params = v.params := by
  induction l with
  | nil => intro v; rfl
  | cons r t ih => intro v; simp only [List.foldl_cons]; rw [ih]; rfl

/-- interleaved records act on header and parameters independently -/
theorem foldl_stepV (rs : List Rec) : ∀ (i : Nat) (v : AGroup),
    rs.foldl (stepV i) v
      = { ((specGroupsR rs).filter (fun r => r.gid == i + 1)).foldl hdrS v with
          params := ((specParamsR rs).filter (fun p => p.gid == i + 1)).foldl putS v.params } := by
  induction rs with
  | nil => intro i v; rfl
  | cons r t ih =>
    intro i v
    cases r with
    | group j g =>
      simp only [List.foldl_cons, stepV, specGroupsR, specParamsR, List.filter_cons]
      by_cases hj : j = i
      · subst hj
        have : ((specGroup j g).gid == j + 1) = true := by simp [specGroup]
        simp only [if_true, this, List.foldl_cons]
        rw [ih]; rfl
      · have : ((specGroup j g).gid == i + 1) = false := by simp [specGroup, hj]
        simp only [if_neg hj, this, Bool.false_eq_true, if_false]
        rw [ih]
    | param j p =>
      simp only [List.foldl_cons, stepV, specGroupsR, specParamsR, List.filter_cons]
      by_cases hj : j = i
      · subst hj
        have : ((specParam j p).gid == j + 1) = true := by simp [specParam]
        simp only [if_true, this, List.foldl_cons]
        rw [ih]
        exact foldl_hdrS_params _ v _ _
      · have : ((specParam j p).gid == i + 1) = false := by simp [specParam, hj]
        simp only [if_neg hj, this, Bool.false_eq_true, if_false]
        rw [ih]

/-! ### the number of groups -/

theorem foldl_max_init (l : List Nat) : ∀ a, l.foldl max a = max a (l.foldl max 0) := by
  induction l with
  | nil => intro a; simp
  | cons x t ih =>
    intro a
    simp only [List.foldl_cons]
    rw [ih (max a x), ih (max 0 x)]
    omega

theorem foldl_max_split (rs : List Rec) : ∀ a b,
    (rs.map (fun r => r.idx + 1)).foldl max (max a b)
      = max (((specGroupsR rs).map (·.gid)).foldl max a) (((specParamsR rs).map (·.gid)).foldl max b) := by
  induction rs with
  | nil => intro a b; rfl
  | cons r t ih =>
    intro a b
    cases r with
    | group j g =>
      simp only [List.map_cons, List.foldl_cons, specGroupsR, specParamsR]
      show List.foldl max (max (max a b) (j + 1)) _ = _
      have : max (max a b) (j + 1) = max (max a (j + 1)) b := by omega
      rw [this, ih]; rfl
    | param j p =>
      simp only [List.map_cons, List.foldl_cons, specGroupsR, specParamsR]
      show List.foldl max (max (max a b) (j + 1)) _ = _
      have : max (max a b) (j + 1) = max a (max b (j + 1)) := by omega
      rw [this, ih]; rfl

theorem table_length (rs : List Rec) : (rs.foldl applyRec []).length = maxId (specGroupsR rs) (specParamsR rs) := by
  rw [foldl_applyRec_length]
  unfold maxId
  rw [List.foldl_append]
  have := foldl_max_split rs 0 0
  simp only [List.length_nil, Nat.max_self] at this ⊢
  rw [this, foldl_max_init (List.map (fun x => x.gid) (specParamsR rs)) (List.foldl max 0 (List.map (fun x => x.gid) (specGroupsR rs)))]

/-- THE LOADER'S GROUP TABLE IS THE DECLARATIVE PRESENTATION OF THE DECODER'S FLAT RECORD LISTS -/
theorem table_eq_assemble (rs : List Rec) :
    (rs.foldl applyRec []).mapIdx viewG = Spec.assemble (specGroupsR rs) (specParamsR rs) := by
  apply List.ext_getElem
  · simp only [List.length_mapIdx, Spec.assemble, List.length_map, List.length_range]
    exact table_length rs
  · intro i h1 h2
    simp only [List.getElem_mapIdx, Spec.assemble, List.getElem_map, List.getElem_range]
    have hlt : i < (rs.foldl applyRec []).length := by simpa using h1
    have hget : (rs.foldl applyRec [])[i] = (rs.foldl applyRec []).getD i {} := by
      rw [List.getD_eq_getElem?_getD, List.getElem?_eq_getElem hlt]; rfl
    rw [hget, foldl_applyRec_getD]
    have h0 : ([] : List Group).getD i {} = {} := rfl
    rw [h0, foldl_recAt_view rs i {} (by intro x hx; simp at hx), foldl_stepV, headerOf_eq_fold, paramsOf_eq_fold]
    rfl

end Ezc3d
