import Ezc3dVerif.Proofs.LoadWrite
/-
  The record chain in ANY order: group records and parameter records interleaved arbitrarily, group ids
  with gaps, a parameter before its group's record, two parameters of one group with the same name.
  What the loader builds is a fold of `applyRec` over the records.
-/
namespace Ezc3d
open C12 N

/-- a record of the parameter section: the header of group `i+1`, or a parameter of group `i+1` -/
inductive Rec where
  | group (i : Nat) (g : Group)
  | param (i : Nat) (p : Param)

def Rec.bytes : Rec → Bytes
  | .group i g => low8 g.nameLen :: low8 (-((i : Int) + 1)) :: g.recTail []
  | .param i p => p.recBytes ((i : Int) + 1)

def recsBytes (rs : List Rec) : Bytes := (rs.map Rec.bytes).flatten

def Rec.Valid : Rec → Prop
  | .group i g => i + 1 ≤ 127 ∧ GroupOK g
  | .param i p => i + 1 ≤ 127 ∧ RecOK p

/-- `Group::parameter(p)` for a typed parameter: replace the first one of that name, else append -/
def Group.putParam (g : Group) (q : Param) : Group :=
  match g.params.findIdx? (fun x => x.name == q.name) with
  | some k => { g with params := g.params.set k q }
  | none => { g with params := g.params ++ [q] }

/-- what the loader does with one record -/
def applyRec (gs : List Group) : Rec → List Group
  | .group i g =>
    let gs1 := ensureGroups gs (i + 1)
    gs1.modify i fun old => { old with name := toUpper g.name, locked := g.locked, desc := if g.desc = [] then old.desc else g.desc }
  | .param i p =>
    let gs1 := ensureGroups gs (i + 1)
    gs1.modify i fun old => old.putParam p.norm

theorem ensureGroups_length (gs : List Group) (n : Nat) : n ≤ (ensureGroups gs n).length := by
  unfold ensureGroups; simp; omega

theorem set_eq_modify {α} (l : List α) (i : Nat) (a : α) (f : α → α) (h : l[i]? = some a) : l.set i (f a) = l.modify i f := by
  apply List.ext_getElem?
  intro j
  by_cases hj : j = i
  · subst hj
    have hl : j < l.length := by rcases List.getElem?_eq_some_iff.mp h with ⟨h, _⟩; exact h
    rw [List.getElem?_set_self hl, List.getElem?_modify_eq, h]; rfl
  · rw [List.getElem?_set_ne (Ne.symm hj), List.getElem?_modify_ne f l (Ne.symm hj)]

/-- a group record read onto an EXISTING group object: name and lock replaced, description only when the record has one, parameters kept -/
theorem Group_read_onto (g0 g : Group) (h : GroupOK g) (s : InStream) (b : Bytes)
    (hf : s.failed = false) (hs : s.Sync) (hlen : s.len + 2 < two31) (hr : s.rest = g.recTail b) :
    Group.read g0 g.nameLen s = .ok (({ g0 with name := toUpper g.name, locked := g.locked, desc := if g.desc = [] then g0.desc else g.desc },
      ((s.pos + g.recLen : Nat) : Int)), s.adv b g.recLen) := by
  have hnabs : g.nameLen.natAbs = (toUpper g.name).length := by
    unfold Group.nameLen; rw [C03.toUpper_length]; split <;> omega
  have hlock : decide (g.nameLen < 0) = g.locked := by
    unfold Group.nameLen; have := h.name_pos; cases g.locked <;> simp <;> omega
  unfold Group.recTail at hr
  let t2 := g.desc ++ b
  let t1 := low8N g.desc.length :: t2
  let t0 := le16N g.offN ++ t1
  have hr0 : s.rest = toUpper g.name ++ t0 := hr
  have hoffs : g.offN < 65536 := by unfold Group.offN; have := h.desc_len; omega
  unfold Group.read
  simp only [SR.bind_lift]
  rw [hnabs, readString_adv s (toUpper g.name) t0 (toUpper_nz g.name h.name_nz) hf hr0]
  simp only [SR.bind_lift]
  rw [readUint2_adv (s.adv t0 _) g.offN t1 hoffs (by simpa) rfl]
  simp only [SR.bind_get, SR.bind_lift, adv_adv]
  rw [readUint1_adv (s.adv t1 _) g.desc.length t2 (by have := h.desc_len; omega) (by simpa) rfl]
  simp only [adv_adv]
  have hrl : s.rest.length = (toUpper g.name).length + 2 + 1 + g.desc.length + b.length := by
    rw [hr0]; simp only [t0, t1, t2, List.length_append, List.length_cons, le16N, le16_length]; omega
  have hfinal : nextPos (s.adv t1 ((toUpper g.name).length + 2)).tell g.offN = ((s.pos + g.recLen : Nat) : Int) := by
    rw [tell_live _ (by simpa)]
    simp only [adv_pos]
    have : s.pos + ((toUpper g.name).length + 2) + g.offN < two31 := by
      unfold InStream.Sync at hs; unfold Group.offN; omega
    rw [nextPos_small _ _ (by unfold Group.offN; omega) this]
    unfold Group.recLen Group.offN; rw [C03.toUpper_length]; congr 1; omega
  rw [hfinal, hlock]
  by_cases hd0 : g.desc.length = 0
  · have hde : g.desc = [] := List.length_eq_zero_iff.mp hd0
    simp only [hd0, ne_eq, not_true_eq_false, if_false, SR.bind_pure, SR.pure_apply]
    have hb : t2 = b := by simp [t2, hde]
    rw [hb]
    have hk : (toUpper g.name).length + 2 + 1 = g.recLen := by
      unfold Group.recLen Group.offN; rw [C03.toUpper_length, hd0]
    rw [hk]
    simp [hde]
  · have hdne : g.desc ≠ [] := fun hh => hd0 (by rw [hh]; rfl)
    simp only [hd0, ne_eq, not_false_eq_true, if_true, SR.bind_lift, SR.pure_apply]
    rw [readString_adv _ g.desc b h.desc_nz (by simpa) rfl]
    simp only [adv_adv]
    have hk : (toUpper g.name).length + 2 + 1 + g.desc.length = g.recLen := by
      unfold Group.recLen Group.offN; rw [C03.toUpper_length]; omega
    rw [hk]
    simp [hdne]

theorem Rec.bytes_length_pos (r : Rec) : 1 ≤ r.bytes.length := by
  cases r <;> simp [Rec.bytes, Param.recBytes]

theorem addParam_put (g : Group) (q : Param) (h : q.type ≠ .none) : g.addParam q = .ok (g.putParam q) := by
  unfold Group.addParam Group.putParam
  rw [if_neg h]
  cases g.params.findIdx? (fun x => x.name == q.name) <;> rfl

theorem ensureGroups_get (gs : List Group) (i : Nat) : ∃ g, (ensureGroups gs (i + 1))[i]? = some g := by
  have := ensureGroups_length gs (i + 1)
  exact ⟨(ensureGroups gs (i + 1))[i], by rw [List.getElem?_eq_getElem]⟩

/-- ONE RECORD, whatever the groups seen so far -/
theorem readRecords_rec_step (fuel : Nat) (s : InStream) (gs : List Group) (r : Rec) (b : Bytes)
    (hv : r.Valid) (hso : StreamOK s) (hr : s.rest = r.bytes ++ b) :
    readRecords (fuel + 1) s (s.pos : Int) gs
      = readRecords fuel (s.adv b r.bytes.length) ((s.pos + r.bytes.length : Nat) : Int) (applyRec gs r) := by
  have hpos := hso.pos
  cases r with
  | group i g =>
    obtain ⟨hi, hg⟩ := hv
    obtain ⟨hn1, hn2, hn0⟩ := gnameLen_range g hg
    simp only [Rec.bytes, List.cons_append] at hr
    rw [gRecTail_append] at hr
    rw [readRecords]
    rw [if_neg (by omega), tell_live s hso.live, if_neg (by simp)]
    rw [readInt1_adv s g.nameLen _ hn1 hn2 hso.live hr]
    simp only
    rw [if_neg hn0]
    rw [readInt1_adv (s.adv _ 1) (-((i : Int) + 1)) (g.recTail b) (by omega) (by omega) (by simpa using hso.live) rfl]
    simp only [adv_adv]
    have hnat : (-((i : Int) + 1)).natAbs = i + 1 := by omega
    rw [hnat, if_pos (by omega), Nat.add_sub_cancel]
    obtain ⟨g0, hg0⟩ := ensureGroups_get gs i
    rw [hg0]
    simp only
    have hs2 : (s.adv (g.recTail b) (1 + 1)).Sync := by
      have := adv_sync s [low8 g.nameLen, low8 (-((i : Int) + 1))] (g.recTail b) hso.sync (by simpa using hr)
      simpa using this
    rw [Group_read_onto g0 g hg (s.adv (g.recTail b) (1 + 1)) b (by simpa using hso.live) hs2 (by simpa using hso.small) rfl]
    simp only [adv_adv, adv_pos]
    rw [set_eq_modify _ i g0 (fun old => { old with name := toUpper g.name, locked := g.locked, desc := if g.desc = [] then old.desc else g.desc }) hg0]
    have hl : (Rec.group i g).bytes.length = 2 + g.recLen := by
      simp only [Rec.bytes, List.length_cons, Group.recTail_length]; omega
    rw [hl]
    unfold applyRec
    simp only
    congr 2 <;> omega
  | param i p =>
    obtain ⟨hi, hp⟩ := hv
    obtain ⟨hn1, hn2, hn0⟩ := nameLen_range p hp
    simp only [Rec.bytes, Param.recBytes, List.cons_append] at hr
    rw [recTail_append] at hr
    rw [readRecords]
    rw [if_neg (by omega), tell_live s hso.live, if_neg (by simp)]
    rw [readInt1_adv s p.nameLen _ hn1 hn2 hso.live hr]
    simp only
    rw [if_neg hn0]
    rw [readInt1_adv (s.adv _ 1) ((i : Int) + 1) (p.recTail b) (by omega) (by omega) (by simpa using hso.live) rfl]
    simp only [adv_adv]
    have hnat : ((i : Int) + 1).natAbs = i + 1 := by omega
    rw [hnat, if_neg (by omega)]
    obtain ⟨g0, hg0⟩ := ensureGroups_get gs i
    simp only [if_neg (show ¬ ((i : Int) + 1 = 0) by omega), Nat.add_sub_cancel, hg0]
    have hs2 : (s.adv (p.recTail b) (1 + 1)).Sync := by
      have := adv_sync s [low8 p.nameLen, low8 ((i : Int) + 1)] (p.recTail b) hso.sync (by simpa using hr)
      simpa using this
    rw [Param_read_written p hp (s.adv (p.recTail b) (1 + 1)) b (by simpa using hso.live) hs2 (by simpa using hso.small) rfl]
    simp only
    rw [addParam_put g0 p.norm (by rw [norm_type]; exact type_ne_none p hp.values)]
    simp only [adv_adv, adv_pos]
    rw [set_eq_modify _ i g0 (fun old => old.putParam p.norm) hg0]
    have hl : (Rec.param i p).bytes.length = 2 + p.recLen := by
      simp only [Rec.bytes, Param.recBytes_length]
    rw [hl]
    unfold applyRec
    simp only
    congr 2 <;> omega

/-- ANY SEQUENCE OF RECORDS: the loader's groups are the fold of `applyRec` -/
theorem readRecords_any (rs : List Rec) : ∀ (fuel : Nat) (s : InStream) (gs : List Group) (b : Bytes),
    (∀ r ∈ rs, r.Valid) → StreamOK s → s.rest = recsBytes rs ++ b →
    readRecords (fuel + rs.length) s (s.pos : Int) gs
      = readRecords fuel (s.adv b (recsBytes rs).length) ((s.pos + (recsBytes rs).length : Nat) : Int) (rs.foldl applyRec gs) := by
  induction rs with
  | nil =>
    intro fuel s gs b _ _ hr
    simp only [recsBytes, List.map_nil, List.flatten_nil, List.nil_append, List.length_nil, Nat.add_zero, List.foldl_nil] at hr ⊢
    rw [← hr, adv_zero]
  | cons r t ih =>
    intro fuel s gs b hv hso hr
    simp only [recsBytes, List.map_cons, List.flatten_cons, List.append_assoc] at hr
    have e : fuel + (r :: t).length = (fuel + t.length) + 1 := by simp; omega
    rw [e, readRecords_rec_step (fuel + t.length) s gs r _ (hv r (by simp)) hso hr]
    have hso' := hso.adv r.bytes ((t.map Rec.bytes).flatten ++ b) hr
    have hpos' : ((s.pos + r.bytes.length : Nat) : Int) = ((s.adv ((t.map Rec.bytes).flatten ++ b) r.bytes.length).pos : Int) := by simp
    rw [hpos', ih fuel _ (applyRec gs r) b (fun x hx => hv x (by simp [hx])) hso' rfl]
    simp only [adv_adv, adv_pos, List.foldl_cons, recsBytes, List.map_cons, List.flatten_cons, List.length_append]
    congr 2 <;> omega

end Ezc3d
