import Ezc3dVerif.Proofs.SpecData
/-
  The Spec decoder on the writer's records.
-/
namespace Ezc3d
open C12 N Spec

/-- a parameter as an independent reader of the format sees it -/
def specParam (i : Nat) (p : Param) : SParam :=
  { gid := i + 1, name := toUpper p.name, locked := p.locked, dims := specDims p, data := specData p, desc := p.desc }

def specGroup (i : Nat) (g : Group) : SGroup :=
  { gid := i + 1, name := toUpper g.name, locked := g.locked, desc := g.desc }

theorem byteAt_at (pre : Bytes) (x : UInt8) (post : Bytes) : byteAt (pre ++ (x :: post)) pre.length = some x.toNat := by
  have := byteAt_shift pre (x :: post) 0
  rw [Nat.add_zero] at this; rw [this]; rfl

theorem u16At_at (pre post : Bytes) (n : Nat) (h : n < 65536) : u16At (pre ++ (le16N n ++ post)) pre.length = some n := by
  have := u16At_shift pre (le16N n ++ post) 0
  rw [Nat.add_zero] at this; rw [this, u16At_le16N n h]

theorem low8_nameLen_toNat (n : Nat) (locked : Bool) (h1 : 1 ≤ n) (h2 : n ≤ 127) :
    let v : Int := if locked then -(n : Int) else n
    (low8 v).toNat ≠ 0 ∧ s8 (low8 v).toNat = v := by
  intro v
  have hv1 : -128 ≤ v := by simp only [v]; split <;> omega
  have hv2 : v < 128 := by simp only [v]; split <;> omega
  have hs := s8_low8 v hv1 hv2
  refine ⟨?_, hs⟩
  intro h0
  rw [h0] at hs
  have : s8 0 = 0 := by decide
  rw [this] at hs
  simp only [v] at hs
  split at hs <;> omega

theorem dims_listAt (dims : List Nat) (hs : ∀ d ∈ dims, d ≤ 255) (pre post : Bytes) :
    listAt byteAt (pre ++ (dims.map low8N ++ post)) pre.length 1 dims.length = some dims := by
  have := listAt_bytes (dims.map low8N) pre post
  rw [List.length_map] at this
  rw [this, List.map_map]
  congr 1
  rw [show dims = dims.map id from (List.map_id dims).symm, List.map_map]
  apply List.map_congr_left
  intro d hd
  simp only [Function.comp, id]
  exact low8N_toNat d (by have := hs d (by simpa using hd); omega)

theorem dimBytes_spec (p : Param) (h : RecOK p) (pre post : Bytes) :
    ∃ nd, byteAt (pre ++ (dimBytes p.dims ++ post)) pre.length = some nd ∧
      listAt byteAt (pre ++ (dimBytes p.dims ++ post)) (pre.length + 1) 1 nd = some (specDims p) ∧
      (dimBytes p.dims).length = 1 + nd := by
  unfold dimBytes specDims
  by_cases h1 : p.dims = [1]
  · simp only [h1, if_true, List.cons_append, List.nil_append]
    exact ⟨0, by rw [byteAt_at]; rfl, rfl, rfl⟩
  · simp only [h1, if_false, List.cons_append]
    refine ⟨p.dims.length, ?_, ?_, by simp; omega⟩
    · rw [byteAt_at, low8N_toNat _ (by have := h.dims_len; omega)]
    · have := dims_listAt p.dims h.dims_small (pre ++ [low8N p.dims.length]) post
      simp only [List.length_append, List.length_cons, List.length_nil, List.append_assoc, List.cons_append, List.nil_append] at this
      exact this

theorem code_s8 (t : PType) (h : t ≠ .none) : s8 (low8 t.code).toNat = t.code :=
  s8_low8 t.code (code_range t h).1 (code_range t h).2

/-- ONE PARAMETER RECORD, as the independent decoder walks it -/
theorem decodeRecords_param (fuel : Nat) (pre post : Bytes) (i : Nat) (p : Param) (acc : Records)
    (hi : i + 1 ≤ 127) (hp : RecOK p) :
    decodeRecords (pre ++ (p.recBytes ((i : Int) + 1) ++ post)) (fuel + 1) pre.length acc
      = decodeRecords (pre ++ (p.recBytes ((i : Int) + 1) ++ post)) fuel (pre.length + (p.recBytes ((i : Int) + 1)).length)
          { acc with params := acc.params ++ [specParam i p] } := by
  have hty := type_ne_none p hp.values
  obtain ⟨hnz, hs8⟩ := low8_nameLen_toNat p.name.length p.locked hp.name_pos hp.name_len
  have hnl : p.nameLen = (if p.locked then -(p.name.length : Int) else p.name.length) := rfl
  rw [← hnl] at hnz hs8
  -- the bytes, field by field
  let A2 := toUpper p.name
  let A3 := le16N p.offN
  let A5 := dimBytes p.dims
  let A6 := valBytes p
  let A8 := p.desc
  have hA2 : A2.length = p.name.length := C03.toUpper_length p.name
  have hb : pre ++ (p.recBytes ((i : Int) + 1) ++ post)
      = pre ++ (low8 p.nameLen :: low8 ((i : Int) + 1) :: (A2 ++ (A3 ++ (low8 p.type.code :: (A5 ++ (A6 ++ (low8N p.desc.length :: (A8 ++ post)))))))) := by
    unfold Param.recBytes Param.recTail; simp [A2, A3, A5, A6, A8]
  generalize hbb : pre ++ (p.recBytes ((i : Int) + 1) ++ post) = b at hb ⊢
  have hlenrec : (p.recBytes ((i : Int) + 1)).length = 2 + p.name.length + p.offN := by
    rw [Param.recBytes_length]; unfold Param.recLen; omega
  have hoff : p.offN = 2 + (1 + A5.length) + (A6.length + 1 + A8.length) := rfl
  -- positions
  have f0 : byteAt b pre.length = some (low8 p.nameLen).toNat := by rw [hb, byteAt_at]
  have f1 : byteAt b (pre.length + 1) = some (low8 ((i : Int) + 1)).toNat := by
    rw [hb]
    have := byteAt_at (pre ++ [low8 p.nameLen]) (low8 ((i : Int) + 1)) (A2 ++ (A3 ++ (low8 p.type.code :: (A5 ++ (A6 ++ (low8N p.desc.length :: (A8 ++ post)))))))
    simpa using this
  have f2 : slice b (pre.length + 2) p.name.length = some A2 := by
    rw [hb, ← hA2]
    have := slice_at (pre ++ [low8 p.nameLen, low8 ((i : Int) + 1)]) A2 (A3 ++ (low8 p.type.code :: (A5 ++ (A6 ++ (low8N p.desc.length :: (A8 ++ post))))))
    simpa using this
  have f3 : u16At b (pre.length + 2 + p.name.length) = some p.offN := by
    rw [hb]
    have := u16At_at (pre ++ [low8 p.nameLen, low8 ((i : Int) + 1)] ++ A2) (low8 p.type.code :: (A5 ++ (A6 ++ (low8N p.desc.length :: (A8 ++ post))))) p.offN
      (by have := offN_small p hp; omega)
    have hl : (pre ++ [low8 p.nameLen, low8 ((i : Int) + 1)] ++ A2).length = pre.length + 2 + p.name.length := by simp [hA2]; omega
    rw [hl] at this
    rw [← this]; congr 1; simp [A3]
  have f4 : byteAt b (pre.length + 2 + p.name.length + 2) = some (low8 p.type.code).toNat := by
    rw [hb]
    have := byteAt_at (pre ++ [low8 p.nameLen, low8 ((i : Int) + 1)] ++ A2 ++ A3) (low8 p.type.code) (A5 ++ (A6 ++ (low8N p.desc.length :: (A8 ++ post))))
    have hl : (pre ++ [low8 p.nameLen, low8 ((i : Int) + 1)] ++ A2 ++ A3).length = pre.length + 2 + p.name.length + 2 := by
      simp [hA2, A3, le16N, le16_length]; omega
    rw [hl] at this
    rw [← this]; congr 1; simp
  obtain ⟨nd, g1, g2, g3⟩ := dimBytes_spec p hp (pre ++ [low8 p.nameLen, low8 ((i : Int) + 1)] ++ A2 ++ A3 ++ [low8 p.type.code]) (A6 ++ (low8N p.desc.length :: (A8 ++ post)))
  have hP5 : (pre ++ [low8 p.nameLen, low8 ((i : Int) + 1)] ++ A2 ++ A3 ++ [low8 p.type.code]).length = pre.length + 2 + p.name.length + 2 + 1 := by
    simp [hA2, A3, le16N, le16_length]; omega
  have hb5 : b = (pre ++ [low8 p.nameLen, low8 ((i : Int) + 1)] ++ A2 ++ A3 ++ [low8 p.type.code]) ++ (dimBytes p.dims ++ (A6 ++ (low8N p.desc.length :: (A8 ++ post)))) := by
    rw [hb]; simp [A5]
  rw [← hb5, hP5] at g1 g2
  have hb6 : b = (pre ++ [low8 p.nameLen, low8 ((i : Int) + 1)] ++ A2 ++ A3 ++ [low8 p.type.code] ++ A5) ++ (valBytes p ++ (low8N p.desc.length :: (A8 ++ post))) := by
    rw [hb]; simp [A6]
  have hP6 : (pre ++ [low8 p.nameLen, low8 ((i : Int) + 1)] ++ A2 ++ A3 ++ [low8 p.type.code] ++ A5).length = pre.length + 2 + p.name.length + 2 + 2 + nd := by
    simp [hA2, A3, le16N, le16_length, A5, g3]; omega
  have f6 := decodeData_valBytes p hp (pre ++ [low8 p.nameLen, low8 ((i : Int) + 1)] ++ A2 ++ A3 ++ [low8 p.type.code] ++ A5) (low8N p.desc.length :: (A8 ++ post))
  rw [← hb6, hP6] at f6
  have f7 : byteAt b (pre.length + 2 + p.name.length + 2 + 2 + nd + A6.length) = some p.desc.length := by
    rw [hb]
    have := byteAt_at (pre ++ [low8 p.nameLen, low8 ((i : Int) + 1)] ++ A2 ++ A3 ++ [low8 p.type.code] ++ A5 ++ A6) (low8N p.desc.length) (A8 ++ post)
    rw [low8N_toNat _ (by have := hp.desc_len; omega)] at this
    have hl : (pre ++ [low8 p.nameLen, low8 ((i : Int) + 1)] ++ A2 ++ A3 ++ [low8 p.type.code] ++ A5 ++ A6).length = pre.length + 2 + p.name.length + 2 + 2 + nd + A6.length := by
      simp [hA2, A3, le16N, le16_length, A5, g3]; omega
    rw [hl] at this
    rw [← this]; congr 1; simp
  have f8 : slice b (pre.length + 2 + p.name.length + 2 + 2 + nd + A6.length + 1) p.desc.length = some p.desc := by
    rw [hb]
    have := slice_at (pre ++ [low8 p.nameLen, low8 ((i : Int) + 1)] ++ A2 ++ A3 ++ [low8 p.type.code] ++ A5 ++ A6 ++ [low8N p.desc.length]) A8 post
    have hl : (pre ++ [low8 p.nameLen, low8 ((i : Int) + 1)] ++ A2 ++ A3 ++ [low8 p.type.code] ++ A5 ++ A6 ++ [low8N p.desc.length]).length = pre.length + 2 + p.name.length + 2 + 2 + nd + A6.length + 1 := by
      simp [hA2, A3, le16N, le16_length, A5, g3]; omega
    rw [hl] at this
    rw [← this]; congr 1; simp
  -- walk the record
  rw [decodeRecords, f0]
  obtain ⟨m, hm⟩ : ∃ m, (low8 p.nameLen).toNat = m + 1 := ⟨(low8 p.nameLen).toNat - 1, by omega⟩
  rw [hm]
  simp only
  rw [← hm, hs8]
  have hnabs : p.nameLen.natAbs = p.name.length := by rw [hnl]; split <;> omega
  rw [hnabs, f1, f2, f3]
  simp only
  have hid : s8 (low8 ((i : Int) + 1)).toNat = (i : Int) + 1 := s8_low8 _ (by omega) (by omega)
  rw [hid, if_neg (by omega), f4, g1]
  simp only
  have e5 : pre.length + 2 + p.name.length + 2 + 2 = pre.length + 2 + p.name.length + 2 + 1 + 1 := by omega
  rw [e5, g2]
  simp only
  rw [code_s8 p.type hty]
  have e6 : pre.length + 2 + p.name.length + 2 + 1 + 1 + nd = pre.length + 2 + p.name.length + 2 + 2 + nd := by omega
  rw [e6, f6]
  simp only
  rw [f7]
  simp only
  rw [f8]
  simp only
  have hoffnz : p.offN ≠ 0 := by rw [hoff]; omega
  rw [if_neg hoffnz]
  have hnext : ¬ (pre.length + 2 + p.name.length + p.offN ≠ pre.length + 2 + p.name.length + 2 + 2 + nd + (valBytes p).length + 1 + p.desc.length) := by
    rw [hoff, g3]; simp only [A6, A8]; omega
  rw [if_neg hnext]
  have hlock : decide (p.nameLen < 0) = p.locked := locked_of_nameLen p hp.name_pos
  have hnat : ((i : Int) + 1).natAbs = i + 1 := by omega
  rw [hnat, hlock, hlenrec]
  congr 1
  · omega

/-- ONE GROUP RECORD, as the independent decoder walks it -/
theorem decodeRecords_group (fuel : Nat) (pre post : Bytes) (i : Nat) (g : Group) (acc : Records)
    (hi : i + 1 ≤ 127) (hg : GroupOK g) :
    decodeRecords (pre ++ ((low8 g.nameLen :: low8 (-((i : Int) + 1)) :: g.recTail []) ++ post)) (fuel + 1) pre.length acc
      = decodeRecords (pre ++ ((low8 g.nameLen :: low8 (-((i : Int) + 1)) :: g.recTail []) ++ post)) fuel
          (pre.length + (2 + g.recLen)) { acc with groups := acc.groups ++ [specGroup i g] } := by
  obtain ⟨hnz, hs8⟩ := low8_nameLen_toNat g.name.length g.locked hg.name_pos hg.name_len
  have hnl : g.nameLen = (if g.locked then -(g.name.length : Int) else g.name.length) := rfl
  rw [← hnl] at hnz hs8
  let A2 := toUpper g.name
  let A3 := le16N g.offN
  let A5 := g.desc
  have hA2 : A2.length = g.name.length := C03.toUpper_length g.name
  have hb : pre ++ ((low8 g.nameLen :: low8 (-((i : Int) + 1)) :: g.recTail []) ++ post)
      = pre ++ (low8 g.nameLen :: low8 (-((i : Int) + 1)) :: (A2 ++ (A3 ++ (low8N g.desc.length :: (A5 ++ post))))) := by
    unfold Group.recTail; simp [A2, A3, A5]
  generalize hbb : pre ++ ((low8 g.nameLen :: low8 (-((i : Int) + 1)) :: g.recTail []) ++ post) = b at hb ⊢
  have hoff : g.offN = 3 + g.desc.length := rfl
  have f0 : byteAt b pre.length = some (low8 g.nameLen).toNat := by rw [hb, byteAt_at]
  have f1 : byteAt b (pre.length + 1) = some (low8 (-((i : Int) + 1))).toNat := by
    rw [hb]
    have := byteAt_at (pre ++ [low8 g.nameLen]) (low8 (-((i : Int) + 1))) (A2 ++ (A3 ++ (low8N g.desc.length :: (A5 ++ post))))
    simpa using this
  have f2 : slice b (pre.length + 2) g.name.length = some A2 := by
    rw [hb, ← hA2]
    have := slice_at (pre ++ [low8 g.nameLen, low8 (-((i : Int) + 1))]) A2 (A3 ++ (low8N g.desc.length :: (A5 ++ post)))
    simpa using this
  have f3 : u16At b (pre.length + 2 + g.name.length) = some g.offN := by
    rw [hb]
    have := u16At_at (pre ++ [low8 g.nameLen, low8 (-((i : Int) + 1))] ++ A2) (low8N g.desc.length :: (A5 ++ post)) g.offN
      (by rw [hoff]; have := hg.desc_len; omega)
    have hl : (pre ++ [low8 g.nameLen, low8 (-((i : Int) + 1))] ++ A2).length = pre.length + 2 + g.name.length := by simp [hA2]; omega
    rw [hl] at this
    rw [← this]; congr 1; simp [A3]
  have f4 : byteAt b (pre.length + 2 + g.name.length + 2) = some g.desc.length := by
    rw [hb]
    have := byteAt_at (pre ++ [low8 g.nameLen, low8 (-((i : Int) + 1))] ++ A2 ++ A3) (low8N g.desc.length) (A5 ++ post)
    rw [low8N_toNat _ (by have := hg.desc_len; omega)] at this
    have hl : (pre ++ [low8 g.nameLen, low8 (-((i : Int) + 1))] ++ A2 ++ A3).length = pre.length + 2 + g.name.length + 2 := by
      simp [hA2, A3, le16N, le16_length]; omega
    rw [hl] at this
    rw [← this]; congr 1; simp
  have f5 : slice b (pre.length + 2 + g.name.length + 2 + 1) g.desc.length = some g.desc := by
    rw [hb]
    have := slice_at (pre ++ [low8 g.nameLen, low8 (-((i : Int) + 1))] ++ A2 ++ A3 ++ [low8N g.desc.length]) A5 post
    have hl : (pre ++ [low8 g.nameLen, low8 (-((i : Int) + 1))] ++ A2 ++ A3 ++ [low8N g.desc.length]).length = pre.length + 2 + g.name.length + 2 + 1 := by
      simp [hA2, A3, le16N, le16_length]; omega
    rw [hl] at this
    rw [← this]; congr 1; simp
  rw [decodeRecords, f0]
  obtain ⟨m, hm⟩ : ∃ m, (low8 g.nameLen).toNat = m + 1 := ⟨(low8 g.nameLen).toNat - 1, by omega⟩
  rw [hm]
  simp only
  rw [← hm, hs8]
  have hnabs : g.nameLen.natAbs = g.name.length := by rw [hnl]; split <;> omega
  rw [hnabs, f1, f2, f3]
  simp only
  have hid : s8 (low8 (-((i : Int) + 1))).toNat = -((i : Int) + 1) := s8_low8 _ (by omega) (by omega)
  rw [hid, if_pos (by omega), f4]
  simp only
  rw [f5]
  simp only
  have hoffnz : g.offN ≠ 0 := by rw [hoff]; omega
  rw [if_neg hoffnz]
  have hnext : ¬ (pre.length + 2 + g.name.length + g.offN ≠ pre.length + 2 + g.name.length + 2 + 1 + g.desc.length) := by
    rw [hoff]; omega
  rw [if_neg hnext]
  have hlock : decide (g.nameLen < 0) = g.locked := by
    rw [hnl]; have := hg.name_pos; cases g.locked <;> simp <;> omega
  have hnat : (-((i : Int) + 1)).natAbs = i + 1 := by omega
  rw [hnat, hlock]
  rw [show pre.length + 2 + g.name.length + g.offN = pre.length + (2 + g.recLen) from by unfold Group.recLen; omega]
  rfl

/-! ### the chain -/

def specGroupsOf : List Group → Nat → List SGroup
  | [], _ => []
  | g :: rest, i => (if g.name = [] then [] else [specGroup i g]) ++ specGroupsOf rest (i + 1)

def specParamsOf : List Group → Nat → List SParam
  | [], _ => []
  | g :: rest, i => (if g.name = [] then [] else g.params.map (specParam i)) ++ specParamsOf rest (i + 1)

theorem decodeRecords_paramList (i : Nat) (hi : i + 1 ≤ 127) (ps : List Param) : ∀ (fuel : Nat) (b pre post : Bytes) (acc : Records),
    (∀ p ∈ ps, RecOK p) → b = pre ++ (paramsBytes ((i : Int) + 1) ps ++ post) →
    decodeRecords b (fuel + ps.length) pre.length acc
      = decodeRecords b fuel (pre.length + (paramsBytes ((i : Int) + 1) ps).length)
          { acc with params := acc.params ++ ps.map (specParam i) } := by
  induction ps with
  | nil =>
    intro fuel b pre post acc _ _
    simp [paramsBytes]
  | cons p t ih =>
    intro fuel b pre post acc hok hb
    simp only [paramsBytes, List.map_cons, List.flatten_cons, List.append_assoc] at hb
    have e : fuel + (p :: t).length = (fuel + t.length) + 1 := by simp; omega
    rw [e, hb, decodeRecords_param (fuel + t.length) pre _ i p acc hi (hok p (by simp))]
    have hb2 : pre ++ (p.recBytes ((i : Int) + 1) ++ ((t.map fun p => p.recBytes ((i : Int) + 1)).flatten ++ post))
        = (pre ++ p.recBytes ((i : Int) + 1)) ++ (paramsBytes ((i : Int) + 1) t ++ post) := by simp [paramsBytes]
    have hl : pre.length + (p.recBytes ((i : Int) + 1)).length = (pre ++ p.recBytes ((i : Int) + 1)).length := by simp
    rw [hl, ih fuel _ (pre ++ p.recBytes ((i : Int) + 1)) post _ (fun q hq => hok q (by simp [hq])) hb2]
    simp only [List.length_append, paramsBytes, List.map_cons, List.flatten_cons, List.append_assoc, List.cons_append, List.nil_append]
    rw [Nat.add_assoc]

theorem decodeRecords_groupList (gs : List Group) : ∀ (fuel i : Nat) (b pre post : Bytes) (acc : Records),
    i + gs.length ≤ 127 → (∀ g ∈ gs, g.name ≠ [] → GroupRecsOK g) → b = pre ++ (groupsBytes gs i ++ post) →
    decodeRecords b (fuel + recCount gs) pre.length acc
      = decodeRecords b fuel (pre.length + (groupsBytes gs i).length)
          { acc with groups := acc.groups ++ specGroupsOf gs i, params := acc.params ++ specParamsOf gs i } := by
  induction gs with
  | nil =>
    intro fuel i b pre post acc _ _ _
    simp [recCount, groupsBytes, specGroupsOf, specParamsOf]
  | cons g rest ih =>
    intro fuel i b pre post acc hi hok hb
    simp only [List.length_cons] at hi
    by_cases hn : g.name = []
    · simp only [groupsBytes, hn, if_true, List.nil_append, recCount, Nat.zero_add, specGroupsOf, specParamsOf] at hb ⊢
      exact ih fuel (i + 1) b pre post acc (by omega) (fun x hx => hok x (by simp [hx])) hb
    · have hg := hok g (by simp) hn
      simp only [groupsBytes, hn, if_false, recCount, specGroupsOf, specParamsOf, List.append_assoc] at hb ⊢
      unfold groupBytes at hb
      have e : fuel + (1 + g.params.length + recCount rest) = ((fuel + recCount rest) + g.params.length) + 1 := by omega
      have hb1 : b = pre ++ ((low8 g.nameLen :: low8 (-((i : Int) + 1)) :: g.recTail []) ++ (paramsBytes ((i : Int) + 1) g.params ++ (groupsBytes rest (i + 1) ++ post))) := by
        rw [hb]; simp
      rw [e, hb1, decodeRecords_group _ pre _ i g acc (by omega) hg.head]
      rw [← hb1]
      have hb2 : b = (pre ++ (low8 g.nameLen :: low8 (-((i : Int) + 1)) :: g.recTail [])) ++ (paramsBytes ((i : Int) + 1) g.params ++ (groupsBytes rest (i + 1) ++ post)) := by
        rw [hb1]; simp
      have hl : pre.length + (2 + g.recLen) = (pre ++ (low8 g.nameLen :: low8 (-((i : Int) + 1)) :: g.recTail [])).length := by
        simp [Group.recTail_length]; omega
      rw [hl, decodeRecords_paramList i (by omega) g.params (fuel + recCount rest) b _ _ _ hg.params hb2]
      have hb3 : b = (pre ++ (low8 g.nameLen :: low8 (-((i : Int) + 1)) :: g.recTail []) ++ paramsBytes ((i : Int) + 1) g.params) ++ (groupsBytes rest (i + 1) ++ post) := by
        rw [hb2]; simp
      have hl2 : (pre ++ (low8 g.nameLen :: low8 (-((i : Int) + 1)) :: g.recTail [])).length + (paramsBytes ((i : Int) + 1) g.params).length
          = (pre ++ (low8 g.nameLen :: low8 (-((i : Int) + 1)) :: g.recTail []) ++ paramsBytes ((i : Int) + 1) g.params).length := by simp; omega
      rw [hl2, ih fuel (i + 1) b _ post _ (by omega) (fun x hx => hok x (by simp [hx])) hb3]
      simp only [List.length_append, List.length_cons, groupBytes, List.append_assoc, List.cons_append, List.nil_append]
      rw [show pre.length + ((g.recTail []).length + (paramsBytes ((i : Int) + 1) g.params).length + 1 + 1) + (groupsBytes rest (i + 1)).length
          = pre.length + ((g.recTail []).length + ((paramsBytes ((i : Int) + 1) g.params).length + (groupsBytes rest (i + 1)).length) + 1 + 1) from by omega]

theorem decodeRecords_end (fuel : Nat) (b pre post : Bytes) (acc : Records) (hb : b = pre ++ (0 :: post)) :
    decodeRecords b (fuel + 1) pre.length acc = some { acc with terminated := true, endPos := pre.length + 1 } := by
  rw [decodeRecords, hb, byteAt_at]
  rfl

end Ezc3d
