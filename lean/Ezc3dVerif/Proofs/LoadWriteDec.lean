import Ezc3dVerif.Proofs.LoadWrite
/-
  The hypotheses of `load_write` as one decidable proposition (so that the driver can evaluate them on the
  states the correspondence check visits, and `decide` can exhibit a state inside the theorem's domain).
-/
namespace Ezc3d
open C12 N

instance (w : Nat) (s : Bytes) : Decidable (StrOK w s) := by unfold StrOK; infer_instance

theorem exists_single_iff {α} (l : List α) (P : α → Prop) : (∃ s, l = [s] ∧ P s) ↔ (l.length = 1 ∧ ∀ s ∈ l, P s) := by
  constructor
  · rintro ⟨s, rfl, h⟩; exact ⟨rfl, by intro x hx; simp at hx; subst hx; exact h⟩
  · rintro ⟨hl, h⟩
    match l, hl with
    | [s], _ => exact ⟨s, rfl, h s (by simp)⟩

instance (p : Param) : Decidable (ValuesOK p) := by
  unfold ValuesOK
  cases p.type <;> simp only
  · -- char
    by_cases h1 : p.dims.length = 1
    · simp only [h1, if_true]
      by_cases h0 : p.dims.prod = 0
      · simp only [h0, if_true]; infer_instance
      · simp only [h0, if_false]
        exact decidable_of_iff _ (exists_single_iff p.strs _).symm
    · simp only [h1, if_false]; infer_instance
  · infer_instance
  · infer_instance
  · infer_instance
  · infer_instance

instance (p : Param) : Decidable (RecOK p) :=
  decidable_of_iff (1 ≤ p.name.length ∧ p.name.length ≤ 127 ∧ (∀ x ∈ p.name, x ≠ 0) ∧ p.desc.length ≤ 255 ∧ (∀ x ∈ p.desc, x ≠ 0) ∧
      p.dims ≠ [] ∧ p.dims.length ≤ 255 ∧ (∀ d ∈ p.dims, d ≤ 255) ∧ p.type.size * p.dims.prod ≤ 30000 ∧ (p.dims.drop 1).prod ≤ 30000 ∧ ValuesOK p)
    ⟨fun ⟨a, b, c, d, e, f, g, h, i, j, k⟩ => ⟨a, b, c, d, e, f, g, h, i, j, k⟩,
     fun h => ⟨h.name_pos, h.name_len, h.name_nz, h.desc_len, h.desc_nz, h.dims_ne, h.dims_len, h.dims_small, h.bytes_small, h.count_small, h.values⟩⟩

instance (g : Group) : Decidable (GroupOK g) :=
  decidable_of_iff (1 ≤ g.name.length ∧ g.name.length ≤ 127 ∧ (∀ x ∈ g.name, x ≠ 0) ∧ g.desc.length ≤ 255 ∧ (∀ x ∈ g.desc, x ≠ 0))
    ⟨fun ⟨a, b, c, d, e⟩ => ⟨a, b, c, d, e⟩, fun h => ⟨h.name_pos, h.name_len, h.name_nz, h.desc_len, h.desc_nz⟩⟩

instance (g : Group) : Decidable (GroupRecsOK g) :=
  decidable_of_iff (GroupOK g ∧ (∀ p ∈ g.params, RecOK p) ∧ (g.params.map fun p => toUpper p.name).Pairwise (· ≠ ·))
    ⟨fun ⟨a, b, c⟩ => ⟨a, b, c⟩, fun h => ⟨h.head, h.params, h.distinct⟩⟩

instance (s : Bytes) : Decidable (LabelOK s) := by unfold LabelOK; infer_instance

instance (h : Header) : Decidable (HdrOK h) :=
  decidable_of_iff (h.nbPoints < 65536 ∧ h.nbAnalogsMeas < 65536 ∧ h.firstFrame + 1 < 65536 ∧ u64 (h.lastFrame + 1) < 65536 ∧
      h.lastFrame < two64 ∧ h.maxGap < 65536 ∧ -2147483648 ≤ h.scale ∧ h.scale < 2147483648 ∧ h.nbAnalogByFrame < 65536 ∧
      h.empty1 = 0 ∧ h.empty2 = 0 ∧ h.empty3 = 0 ∧ h.empty4 = 0 ∧ h.keyLabelPresent < 65536 ∧ h.firstBlockKeyLabel < 65536 ∧
      h.fourCharPresent < 65536 ∧ h.nbEvents < 65536 ∧ h.evTimes.length = 18 ∧ h.evDisplay.length = 9 ∧ (∀ d ∈ h.evDisplay, d < 65536) ∧
      h.evLabels.length = 18 ∧ (∀ x ∈ h.evLabels, LabelOK x))
    ⟨fun ⟨a1, a2, a3, a4, a5, a6, a7, a8, a9, a10, a11, a12, a13, a14, a15, a16, a17, a18, a19, a20, a21, a22⟩ =>
        ⟨a1, a2, a3, a4, a5, a6, a7, a8, a9, a10, a11, a12, a13, a14, a15, a16, a17, a18, a19, a20, a21, a22⟩,
     fun k => ⟨k.np, k.nam, k.ff, k.lf, k.lf64, k.gap, k.scale1, k.scale2, k.abf, k.e1, k.e2, k.e3, k.e4, k.klp, k.fbk, k.fcp, k.nev,
        k.times, k.displen, k.disp, k.lablen, k.labels⟩⟩

instance (np nsf nch : Nat) (f : Frame) : Decidable (f.hasShape np nsf nch) := by unfold Frame.hasShape; infer_instance

/-- everything `load_write` asks of the object, given the section it writes and the label lists the loader will find -/
def LoadWriteHyps (F : FloatOps) (s : C3D) (b ps : Bytes) (pl al : List Bytes) : Prop :=
  writeParamSection s.ph s.groups 512 = .ok ps ∧ s.write = .ok b ∧
  HdrOK s.hdr ∧ s.ph.start = 1 ∧
  (∀ g ∈ s.groups, g.name ≠ []) ∧ (∀ g ∈ s.groups, GroupRecsOK g) ∧
  (s.groups.map fun g => g.name).Pairwise (· ≠ ·) ∧ s.groups.length ≤ 127 ∧
  ps.length / 512 < 256 ∧ b.length + 2 < two31 ∧
  updateHeaderH F (s.reloaded ps.length pl al).groups [] (s.reloaded ps.length pl al).hdr = .ok (s.reloaded ps.length pl al).hdr ∧
  s.hdr.nbFrames = s.frames.length ∧ s.frames.length ≤ 65536 ∧
  (if s.hdr.nbPoints > 0 then strsOf (s.reloaded ps.length pl al).groups POINT LABELS else .ok []) = .ok pl ∧
  (if s.hdr.nbAnalogs > 0 then strsOf (s.reloaded ps.length pl al).groups ANALOG LABELS else .ok []) = .ok al ∧
  s.hdr.scale < 0 ∧ s.hdr.nbAnalogs < 65536 ∧
  (∀ f ∈ s.frames, f.hasShape s.hdr.nbPoints s.hdr.nbAnalogByFrame s.hdr.nbAnalogs)

instance (F : FloatOps) (s : C3D) (b ps : Bytes) (pl al : List Bytes) : Decidable (LoadWriteHyps F s b ps pl al) := by
  unfold LoadWriteHyps; infer_instance

theorem load_write_of_hyps (F : FloatOps) (s : C3D) (b ps : Bytes) (pl al : List Bytes) (h : LoadWriteHyps F s b ps pl al) :
    C3D.load F b = .ok (s.reloaded ps.length pl al) := by
  obtain ⟨h1, h2, h3, h4, h5, h6, h7, h8, h9, h10, h11, h12, h13, h14, h15, h16, h17, h18⟩ := h
  exact load_write F s b ps pl al h1 h2 h3 h4 h5 h6 h7 h8 h9 h10 h11 h12 h13 h14 h15 h16 h17 h18

end Ezc3d
