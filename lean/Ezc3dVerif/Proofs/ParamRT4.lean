import Ezc3dVerif.Proofs.ParamRT3
namespace Ezc3d
open C12 N

/-- the value of the record's next-offset field -/
def Param.offN (p : Param) : Nat := 2 + (1 + (dimBytes p.dims).length) + ((valBytes p).length + 1 + p.desc.length)
/-- bytes of a record after its first two (name length, group id) -/
def Param.recLen (p : Param) : Nat := p.name.length + p.offN

def Param.recTail (p : Param) (b : Bytes) : Bytes :=
  toUpper p.name ++ (le16N p.offN ++ (low8 p.type.code :: (dimBytes p.dims ++ (valBytes p ++ (low8N p.desc.length :: (p.desc ++ b))))))

def Param.nameLen (p : Param) : Int := if p.locked then -(p.name.length : Int) else p.name.length

theorem dimBytes_length_le (dims : List Nat) : (dimBytes dims).length ≤ 1 + dims.length := by
  unfold dimBytes; split <;> simp <;> omega

theorem offN_small (p : Param) (h : RecOK p) : p.offN < 32768 := by
  unfold Param.offN
  have h1 := dimBytes_length_le p.dims
  have h2 := valBytes_length p h
  have h3 := h.bytes_small
  have h4 := h.desc_len
  have h5 := h.dims_len
  omega

theorem nextPos_small (tell : Nat) (off : Nat) (h0 : 2 ≤ off) (h : tell + off < two31) :
    nextPos (tell : Int) off = ((tell + off - 2 : Nat) : Int) := by
  unfold nextPos
  rw [if_neg (by omega)]
  unfold intToU64 u64ToI32 two64 two32 two31 at *
  simp only
  have e : ((tell : Int) + (off : Int) - 2) = ((tell + off - 2 : Nat) : Int) := by omega
  rw [e]
  have : (((tell + off - 2 : Nat) : Int) % (18446744073709551616 : Nat)).toNat = tell + off - 2 := by omega
  rw [this]
  rw [Nat.mod_eq_of_lt (by omega)]
  rw [if_pos (by omega)]

theorem locked_of_nameLen (p : Param) (h : 1 ≤ p.name.length) : decide (p.nameLen < 0) = p.locked := by
  unfold Param.nameLen
  cases p.locked <;> simp <;> omega

theorem Param_read_written (p : Param) (h : RecOK p) (s : InStream) (b : Bytes)
    (hf : s.failed = false) (hs : s.Sync) (hlen : s.len + 2 < two31) (hr : s.rest = p.recTail b) :
    Param.read p.nameLen s = .ok ((p.norm, ((s.pos + p.recLen : Nat) : Int)), s.adv b p.recLen) := by
  have hty := type_ne_none p h.values
  have hnabs : p.nameLen.natAbs = (toUpper p.name).length := by
    unfold Param.nameLen; rw [C03.toUpper_length]; split <;> omega
  unfold Param.recTail at hr
  let t4 := p.desc ++ b
  let t3 := valBytes p ++ (low8N p.desc.length :: t4)
  let t2 := dimBytes p.dims ++ t3
  let t1 := low8 p.type.code :: t2
  let t0 := le16N p.offN ++ t1
  have hr0 : s.rest = toUpper p.name ++ t0 := hr
  unfold Param.read
  simp only [SR.bind_lift]
  rw [hnabs, readString_adv s (toUpper p.name) t0 (toUpper_nz p.name h.name_nz) hf hr0]
  simp only [SR.bind_lift]
  rw [readUint2_adv (s.adv t0 _) p.offN t1 (by have := offN_small p h; omega) (by simpa) rfl]
  simp only [SR.bind_get, SR.bind_lift, adv_adv]
  rw [readInt1_adv (s.adv t1 _) p.type.code t2 (code_range p.type hty).1 (code_range p.type hty).2 (by simpa) rfl]
  simp only [ptypeOf_code p.type hty, adv_adv]
  rw [dims_rt p.dims h.dims_ne h.dims_len h.dims_small (s.adv t2 _) t3 (by simpa) rfl]
  simp only [SR.bind_get, adv_adv]
  -- the size check
  have hlen_rest : s.rest.length = (toUpper p.name).length + 2 + 1 + (dimBytes p.dims).length + t3.length := by
    rw [hr0]; simp only [t0, t1, t2, List.length_append, List.length_cons, le16N, le16_length]; omega
  have hrem : (s.adv t3 ((toUpper p.name).length + 2 + 1 + (dimBytes p.dims).length)).remaining = t3.length := by
    unfold InStream.remaining
    simp only [adv_failed, hf, Bool.false_eq_true, if_false, adv_len, adv_pos]
    unfold InStream.Sync at hs; omega
  have hrl : s.rest.length < two31 := by unfold InStream.Sync at hs; omega
  rw [hrem]
  have hfil : (p.type == PType.char && decide (p.dims.length > 1)) = p.fil := rfl
  rw [hfil, code_natAbs p.type hty]
  rw [sizeOk_record p t3.length (by unfold two64; unfold two31 at hrl; omega)
    (by rw [← valBytes_length p h]; simp only [t3, List.length_append]; omega)
    (by have := nValues_small p h; omega)]
  simp only
  -- the values
  rw [SR.bind_of_ok _ _ _ _ _ (values_rt p h { name := toUpper p.name, locked := decide (p.nameLen < 0), type := p.type, dims := p.dims }
    ⟨rfl, rfl, rfl⟩ (s.adv t3 _) (low8N p.desc.length :: t4) (by simpa) rfl)]
  -- the description
  simp only [SR.bind_lift, adv_adv]
  rw [readUint1_adv _ p.desc.length t4 (by have := h.desc_len; omega) (by simpa) rfl]
  simp only [adv_adv]
  have hfinal : nextPos (s.adv t1 ((toUpper p.name).length + 2)).tell p.offN = ((s.pos + p.recLen : Nat) : Int) := by
    rw [tell_live _ (by simpa)]
    simp only [adv_pos]
    have hoff : p.offN = 2 + 1 + (dimBytes p.dims).length + (valBytes p).length + 1 + p.desc.length := by unfold Param.offN; omega
    have ht3 : t3.length = (valBytes p).length + 1 + p.desc.length + b.length := by
      simp only [t3, t4, List.length_append, List.length_cons]; omega
    have : s.pos + ((toUpper p.name).length + 2) + p.offN < two31 := by
      unfold InStream.Sync at hs; omega
    rw [nextPos_small _ _ (by omega) this]
    unfold Param.recLen; rw [C03.toUpper_length]; congr 1; omega
  rw [hfinal]
  by_cases hd0 : p.desc.length = 0
  · have hde : p.desc = [] := List.length_eq_zero_iff.mp hd0
    simp only [hd0, ne_eq, not_true_eq_false, if_false, SR.bind_pure, SR.pure_apply]
    have hpar : ({ name := toUpper p.name, locked := decide (p.nameLen < 0), type := p.type, dims := p.dims, ints := p.norm.ints, floats := p.norm.floats, strs := p.norm.strs } : Param) = p.norm := by
      rw [locked_of_nameLen p h.name_pos]; unfold Param.norm; simp [hde]
    rw [hpar]
    have hb4 : t4 = b := by simp [t4, hde]
    rw [hb4]
    have hk : (toUpper p.name).length + 2 + 1 + (dimBytes p.dims).length + (valBytes p).length + 1 = p.recLen := by
      unfold Param.recLen Param.offN; rw [C03.toUpper_length, hd0]; omega
    rw [hk]
  · simp only [hd0, ne_eq, not_false_eq_true, if_true, SR.bind_lift, SR.pure_apply]
    rw [readString_adv _ p.desc b h.desc_nz (by simpa) rfl]
    simp only [adv_adv]
    have hpar : ({ name := toUpper p.name, desc := p.desc, locked := decide (p.nameLen < 0), type := p.type, dims := p.dims, ints := p.norm.ints, floats := p.norm.floats, strs := p.norm.strs } : Param) = p.norm := by
      rw [locked_of_nameLen p h.name_pos]; unfold Param.norm; simp
    rw [hpar]
    have hk : (toUpper p.name).length + 2 + 1 + (dimBytes p.dims).length + (valBytes p).length + 1 + p.desc.length = p.recLen := by
      unfold Param.recLen Param.offN; rw [C03.toUpper_length]; omega
    rw [hk]

end Ezc3d
