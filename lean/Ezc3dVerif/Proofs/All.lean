import Ezc3dVerif.Model.Api
/-
  `o.All P`: the state an operation leaves — the new state on success, the state the object is in when an
  exception escapes — satisfies `P`. Compositional over the plumbing of the model, so an invariant of the
  whole state machine is proved by walking the definition of each operation once.
-/
namespace Ezc3d

def Outcome.All {σ} (P : σ → Prop) : Outcome σ → Prop
  | .ok s => P s
  | .throw _ l => P l
  | .ub _ => True

theorem Outcome.all_ok {σ} {P : σ → Prop} {s : σ} (h : P s) : (Outcome.ok s).All P := h
theorem Outcome.all_throw {σ} {P : σ → Prop} {e : Exc} {s : σ} (h : P s) : (Outcome.throw e s).All P := h

theorem Outcome.all_andThen {α σ} {P : σ → Prop} {r : Res α} {l : σ} {k : α → Outcome σ}
    (hl : P l) (hk : ∀ a, r = .ok a → (k a).All P) : (r.andThen l k).All P := by
  cases r with
  | ok a => exact hk a rfl
  | throw e => exact hl
  | ub u => trivial

theorem Outcome.all_bind {σ} {P Q : σ → Prop} {o : Outcome σ} {k : σ → Outcome σ}
    (ho : o.All Q) (hQ : ∀ a, Q a → P a) (hk : ∀ a, Q a → (k a).All P) : (o.bind k).All P := by
  cases o with
  | ok a => exact hk a ho
  | throw e l => exact hQ l ho
  | ub u => trivial

theorem Outcome.all_lift {α σ} {P : σ → Prop} {Q : α → Prop} {o : Outcome α} {f : α → σ}
    (ho : o.All Q) (hf : ∀ a, Q a → P (f a)) : (o.lift f).All P := by
  cases o with
  | ok a => exact hf a ho
  | throw e l => exact hf l ho
  | ub u => trivial

theorem Outcome.all_ite {σ} {P : σ → Prop} (c : Prop) [Decidable c] {a b : Outcome σ}
    (ha : c → a.All P) (hb : ¬ c → b.All P) : (if c then a else b).All P := by
  split
  · exact ha ‹_›
  · exact hb ‹_›

theorem Outcome.all_mono {σ} {P Q : σ → Prop} {o : Outcome σ} (h : o.All P) (hPQ : ∀ s, P s → Q s) : o.All Q := by
  cases o with
  | ok a => exact hPQ a h
  | throw e l => exact hPQ l h
  | ub u => trivial

theorem Outcome.all_of_ok {σ} {P : σ → Prop} {o : Outcome σ} {s : σ} (h : o.All P) (ho : o = .ok s) : P s := by
  subst ho; exact h
theorem Outcome.all_of_throw {σ} {P : σ → Prop} {o : Outcome σ} {e : Exc} {l : σ} (h : o.All P) (ho : o = .throw e l) : P l := by
  subst ho; exact h

end Ezc3d

namespace Ezc3d

/-- `o.Ok P`: when the operation completes normally, the new state satisfies `P` (post-condition) -/
def Outcome.Ok {σ} (P : σ → Prop) (o : Outcome σ) : Prop := ∀ s, o = .ok s → P s

theorem Outcome.ok_ok {σ} {P : σ → Prop} {s : σ} (h : P s) : (Outcome.ok s).Ok P := by
  intro s' hs; cases hs; exact h
theorem Outcome.ok_throw {σ} {P : σ → Prop} {e : Exc} {s : σ} : (Outcome.throw e s).Ok P := by
  intro s' hs; cases hs

theorem Outcome.ok_andThen {α σ} {P : σ → Prop} {r : Res α} {l : σ} {k : α → Outcome σ}
    (hk : ∀ a, r = .ok a → (k a).Ok P) : (r.andThen l k).Ok P := by
  cases r with
  | ok a => exact hk a rfl
  | throw e => intro s hs; cases hs
  | ub u => intro s hs; cases hs

theorem Outcome.ok_bind {σ} {P Q : σ → Prop} {o : Outcome σ} {k : σ → Outcome σ}
    (ho : o.Ok Q) (hk : ∀ a, Q a → (k a).Ok P) : (o.bind k).Ok P := by
  cases o with
  | ok a => exact hk a (ho a rfl)
  | throw e l => intro s hs; cases hs
  | ub u => intro s hs; cases hs

theorem Outcome.ok_lift {α σ} {P : σ → Prop} {Q : α → Prop} {o : Outcome α} {f : α → σ}
    (ho : o.Ok Q) (hf : ∀ a, Q a → P (f a)) : (o.lift f).Ok P := by
  cases o with
  | ok a => intro s hs; cases hs; exact hf a (ho a rfl)
  | throw e l => intro s hs; cases hs
  | ub u => intro s hs; cases hs

theorem Outcome.ok_ite {σ} {P : σ → Prop} (c : Prop) [Decidable c] {a b : Outcome σ}
    (ha : c → a.Ok P) (hb : ¬ c → b.Ok P) : (if c then a else b).Ok P := by
  split
  · exact ha ‹_›
  · exact hb ‹_›

end Ezc3d
