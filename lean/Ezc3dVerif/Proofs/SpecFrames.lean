import Ezc3dVerif.Proofs.SpecData
import Ezc3dVerif.Proofs.ReadAppend
/-
  The independent decoder (Spec/Format.lean) on the data section the writer produced: `frames` frames of
  4 words per point followed by sub-frame major analog words.
-/
namespace Ezc3d
open C12 N Spec

def specPoint (p : Point) : SPoint := ⟨p.x, p.y, p.z, p.r⟩
def specFrame (f : Frame) : SFrame := { points := f.pts.map specPoint, analogs := f.subs.map fun sf => sf.map (·.v) }

def pointWords (p : Point) : List UInt32 := [p.x, p.y, p.z, p.r]
def frameWordsP (f : Frame) : List UInt32 := (f.pts.map pointWords).flatten
def frameWordsA (f : Frame) : List UInt32 := (f.subs.map fun sf => sf.map (·.v)).flatten

theorem word_f32le (v : UInt32) :
    UInt32.ofNat ((UInt8.ofNat (v.toNat % 256)).toNat + 256 * (UInt8.ofNat ((v.toNat / 256) % 256)).toNat
      + 65536 * (UInt8.ofNat ((v.toNat / 65536) % 256)).toNat + 16777216 * (UInt8.ofNat ((v.toNat / 16777216) % 256)).toNat) = v := by
  have hv : v.toNat < 4294967296 := UInt32.toNat_lt v
  rw [ofNat_toNat _ (by omega), ofNat_toNat _ (by omega), ofNat_toNat _ (by omega), ofNat_toNat _ (by omega)]
  have : v.toNat % 256 + 256 * (v.toNat / 256 % 256) + 65536 * (v.toNat / 65536 % 256) + 16777216 * (v.toNat / 16777216 % 256) = v.toNat := by omega
  rw [this]; simp

/-- `n` words written little-endian are taken back, and the rest is untouched -/
theorem takeWords_f32 (ws : List UInt32) (rest : Bytes) :
    takeWords ws.length ((ws.map f32le).flatten ++ rest) = some (ws, rest) := by
  induction ws with
  | nil => rfl
  | cons w t ih =>
    simp only [List.length_cons, List.map_cons, List.flatten_cons, List.append_assoc]
    have e : f32le w = [UInt8.ofNat (w.toNat % 256), UInt8.ofNat ((w.toNat / 256) % 256),
      UInt8.ofNat ((w.toNat / 65536) % 256), UInt8.ofNat ((w.toNat / 16777216) % 256)] := rfl
    rw [e]
    simp only [List.cons_append, List.nil_append, takeWords]
    rw [ih]
    simp only [Option.map_some, word_f32le]

theorem pts_bytes_words (pts : List Point) : (pts.map Point.write).flatten = (((pts.map pointWords).flatten).map f32le).flatten := by
  induction pts with
  | nil => rfl
  | cons p t ih =>
    simp only [List.map_cons, List.flatten_cons, List.map_append, List.flatten_append, ih]
    simp [Point.write, pointWords]

theorem subs_bytes_words (subs : List (List Channel)) :
    (subs.map SubFrame.bytes).flatten = (((subs.map fun sf => sf.map (·.v)).flatten).map f32le).flatten := by
  induction subs with
  | nil => rfl
  | cons sf t ih =>
    simp only [List.map_cons, List.flatten_cons, List.map_append, List.flatten_append, ih]
    congr 1
    simp [SubFrame.bytes, List.map_map, Function.comp_def]

theorem toPoints_words (pts : List Point) : toPoints ((pts.map pointWords).flatten) = pts.map specPoint := by
  induction pts with
  | nil => rfl
  | cons p t ih =>
    simp only [List.map_cons, List.flatten_cons, pointWords, List.cons_append, List.nil_append, toPoints, ih]
    rfl

theorem splitEvery_flatten (nch : Nat) (l : List (List UInt32)) (h : ∀ x ∈ l, x.length = nch) :
    splitEvery nch l.length l.flatten = l := by
  induction l with
  | nil => rfl
  | cons x t ih =>
    have hx : x.length = nch := h x (by simp)
    simp only [List.length_cons, List.flatten_cons, splitEvery]
    rw [← hx, List.take_left, List.drop_left, hx, ih (fun y hy => h y (by simp [hy]))]

theorem words_len_P (f : Frame) : (frameWordsP f).length = 4 * f.pts.length := by
  unfold frameWordsP
  induction f.pts with
  | nil => rfl
  | cons p t ih => simp only [List.map_cons, List.flatten_cons, List.length_append, ih, pointWords, List.length_cons, List.length_nil]; omega

theorem words_len_subs (nch : Nat) (subs : List (List Channel)) (h : ∀ sf ∈ subs, sf.length = nch) :
    ((subs.map fun sf => sf.map (·.v)).flatten).length = subs.length * nch := by
  induction subs with
  | nil => simp
  | cons sf t ih =>
    simp only [List.map_cons, List.flatten_cons, List.length_append, List.length_map, List.length_cons]
    rw [ih (fun y hy => h y (by simp [hy])), h sf (by simp)]
    rw [Nat.add_mul]; omega

theorem words_len_A (f : Frame) (nch : Nat) (h : ∀ sf ∈ f.subs, sf.length = nch) : (frameWordsA f).length = f.subs.length * nch :=
  words_len_subs nch f.subs h

/-- one written frame, decoded by the specification's reader -/
theorem decodeFrame_written (np nsf nch : Nat) (f : Frame) (rest : Bytes) (hs : f.hasShape np nsf nch) :
    decodeFrame (f.write ++ rest) np nsf nch = some (specFrame f, rest) := by
  obtain ⟨h1, h2, h3⟩ := hs
  unfold decodeFrame
  rw [Frame.write_eq, pts_bytes_words, subs_bytes_words, List.append_assoc]
  have e1 : 4 * np = (frameWordsP f).length := by rw [words_len_P, h1]
  have e2 : nsf * nch = (frameWordsA f).length := by rw [words_len_A f nch h3, h2]
  rw [e1]
  unfold frameWordsP
  rw [takeWords_f32]
  simp only
  rw [e2]
  unfold frameWordsA
  rw [takeWords_f32]
  simp only
  rw [toPoints_words]
  have : splitEvery nch nsf ((f.subs.map fun sf => sf.map (·.v)).flatten) = f.subs.map fun sf => sf.map (·.v) := by
    have := splitEvery_flatten nch (f.subs.map fun sf => sf.map (·.v)) (by
      intro x hx
      simp only [List.mem_map] at hx
      obtain ⟨sf, hsf, rfl⟩ := hx
      simp [h3 sf hsf])
    simpa [h2] using this
  rw [this]
  rfl

/-- THE DATA SECTION as the independent decoder reads it: every frame, bit for bit, nothing left over -/
theorem decodeFrames_written (np nsf nch : Nat) (frames : List Frame) (rest : Bytes)
    (hs : ∀ f ∈ frames, f.hasShape np nsf nch) :
    decodeFrames np nsf nch frames.length (writeData frames ++ rest) = some (frames.map specFrame, rest) := by
  induction frames with
  | nil => simp [decodeFrames, writeData]
  | cons f t ih =>
    simp only [writeData, List.map_cons, List.flatten_cons, List.append_assoc, List.length_cons, decodeFrames]
    rw [decodeFrame_written np nsf nch f _ (hs f (by simp))]
    simp only
    have := ih (fun g hg => hs g (by simp [hg]))
    simp only [writeData] at this
    rw [this]

end Ezc3d

namespace Ezc3d
open C12 N Spec

/-- frames the header announces to a reader of the format (1-based first/last words) = frames the object counts -/
theorem spec_nframes (h : Header) (n : Nat) (hk : HdrOK h) (hne : ¬ (h.nbPoints = 0 ∧ h.nbAnalogs = 0))
    (hnf : h.nbFrames = n) (hn : n ≤ 65536) :
    (if u64 (h.lastFrame + 1) + 1 ≥ u64 (h.firstFrame + 1) then u64 (h.lastFrame + 1) + 1 - u64 (h.firstFrame + 1) else 0) = n := by
  have hff := hk.ff
  have hlf := hk.lf
  have hl64 := hk.lf64
  unfold Header.nbFrames at hnf
  rw [if_neg hne] at hnf
  unfold u64 subU64 two64 at *
  split <;> omega

theorem countZeros_cons_ne (x : UInt8) (rest : Bytes) (hx : x ≠ 0) : countZeros (x :: rest) = 0 := by
  unfold countZeros
  split
  · rename_i h; injection h with h1 _; exact absurd h1.symm (by simpa using hx.symm)
  · rfl

end Ezc3d
