import Ezc3dVerif.Proofs.Progress
import Ezc3dVerif.Proofs.NoUB
/-
  The loader's readers never evaluate an unchecked access: the only `ub` a reader can return is the
  exhausted-fuel marker of its own two loops (and C16 proves that one never happens).
  `Safe m`: the step `m` returns a value, throws an exception class, or reports exhausted fuel — never another `ub`.
-/
namespace Ezc3d

/-- the only undefined-behaviour marker a result carries is "out of fuel" -/
def RRes.OnlyFuel {α} (r : RRes α) : Prop := ∀ k, r = .error (.inr k) → k = .nonTermination

/-- a reading step that is `OnlyFuel` on every stream; `Clean`: not even that -/
def SR.Clean {α} (m : SR α) : Prop := ∀ s k, m s ≠ .error (.inr k)

theorem SR.clean_pure {α} (a : α) : (SR.pure a).Clean := by intro s k h; cases h
theorem SR.clean_lift {α} (r : InStream → α × InStream) : (SR.lift r).Clean := by intro s k h; cases h
theorem SR.clean_throw {α} (e : Exc) : (SR.throw e : SR α).Clean := by intro s k h; simp [SR.throw, rthrow] at h
theorem SR.clean_get : SR.get.Clean := by intro s k h; cases h
theorem SR.clean_bind {α β} {m : SR α} {f : α → SR β} (hm : m.Clean) (hf : ∀ a, (f a).Clean) : (SR.bind m f).Clean := by
  intro s k h
  unfold SR.bind at h
  split at h
  · exact hf _ _ _ h
  · rename_i e he
    injection h with h1
    rw [h1] at he
    exact hm s k he
theorem SR.clean_ite {α} (c : Prop) [Decidable c] {a b : SR α} (ha : a.Clean) (hb : b.Clean) : (if c then a else b).Clean := by
  split <;> assumption

theorem readValues_clean (ty : PType) (dims : List Nat) (p0 : Param) : (readValues ty dims p0).Clean := by
  unfold readValues
  cases ty <;> first | exact SR.clean_lift _ | exact SR.clean_pure _

/-- `Parameter::read` never indexes out of range, whatever the bytes -/
theorem Param_read_clean (n : Int) : (Param.read n).Clean := by
  unfold Param.read
  refine SR.clean_bind (SR.clean_lift _) fun name => ?_
  refine SR.clean_bind (SR.clean_lift _) fun off => ?_
  refine SR.clean_bind SR.clean_get fun s2 => ?_
  refine SR.clean_bind (SR.clean_lift _) fun len => ?_
  split
  · exact SR.clean_throw _
  · refine SR.clean_bind (SR.clean_lift _) fun nDim => ?_
    refine SR.clean_bind (SR.clean_ite _ (SR.clean_pure _) (SR.clean_lift _)) fun dims => ?_
    refine SR.clean_bind SR.clean_get fun s5 => ?_
    simp only
    split
    · exact SR.clean_throw _
    · refine SR.clean_bind (SR.clean_ite _ (SR.clean_pure _) (readValues_clean _ _ _)) fun p1 => ?_
      refine SR.clean_bind (SR.clean_lift _) fun dl => ?_
      refine SR.clean_bind (SR.clean_ite _ (SR.clean_lift _) (SR.clean_pure _)) fun p2 => ?_
      exact SR.clean_pure _

theorem Group_read_clean (g : Group) (n : Int) : (g.read n).Clean := by
  unfold Group.read
  refine SR.clean_bind (SR.clean_lift _) fun name => ?_
  refine SR.clean_bind (SR.clean_lift _) fun off => ?_
  refine SR.clean_bind SR.clean_get fun s2 => ?_
  refine SR.clean_bind (SR.clean_lift _) fun dl => ?_
  simp only
  refine SR.clean_bind (SR.clean_ite _ (SR.clean_lift _) (SR.clean_pure _)) fun g2 => ?_
  exact SR.clean_pure _

/-- the record loop: whatever the bytes and the fuel, the only `ub` it can return is the exhausted fuel -/
theorem readRecords_onlyFuel (fuel : Nat) : ∀ (s : InStream) (next : Int) (gs : List Group),
    (readRecords fuel s next gs).OnlyFuel := by
  induction fuel with
  | zero => intro s next gs k h; simp [readRecords, rub] at h; exact h.symm
  | succ f ih =>
    intro s next gs k h
    unfold readRecords at h
    split at h
    · cases h
    · split at h
      · simp [rthrow] at h
      · cases hr : s.readInt 1 with
        | mk n s1 =>
          rw [hr] at h
          simp only at h
          split at h
          · cases h
          · cases hr2 : s1.readInt 1 with
            | mk id s2 =>
              rw [hr2] at h
              simp only at h
              split at h
              · split at h
                · simp [rthrow] at h
                · split at h
                  · rename_i e he
                    injection h with h1
                    rw [h1] at he
                    exact absurd he (Group_read_clean _ _ _ _)
                  · exact ih _ _ _ k h
              · split at h
                · simp [rthrow] at h
                · split at h
                  · rename_i e he
                    injection h with h1
                    rw [h1] at he
                    exact absurd he (Param_read_clean _ _ _)
                  · split at h
                    · exact ih _ _ _ k h
                    · simp [rthrow] at h
                    · rename_i k' hk'
                      exact absurd hk' (addParam_noUB _ _ k')

theorem skipZeros_onlyFuel (fuel : Nat) : ∀ (s : InStream) (z : Nat), (skipZeros fuel s z).OnlyFuel := by
  induction fuel with
  | zero => intro s z k h; simp [skipZeros, rub] at h; exact h.symm
  | succ f ih =>
    intro s z k h
    unfold skipZeros at h
    cases hr : s.readUint 1 with
    | mk v s1 =>
      rw [hr] at h
      simp only at h
      split at h
      · simp [rthrow] at h
      · split at h
        · exact ih _ _ k h
        · cases h

theorem Header_read_onlyFuel (s0 : InStream) : (Header.read s0).OnlyFuel := by
  intro k h
  unfold Header.read at h
  cases hr : (s0.seekBeg 0).readUint 1 with
  | mk pa0 s1 =>
    rw [hr] at h
    simp only at h
    split at h
    · rename_i e heq
      injection h with h1
      rw [h1] at heq
      split at heq
      · cases heq
      · exact skipZeros_onlyFuel _ _ _ k heq
    · split at h
      · simp [rthrow] at h
      · cases h

theorem readParameters_onlyFuel (s : InStream) (h : Header) : (readParameters s h).OnlyFuel := by
  intro k hc
  unfold readParameters at hc
  cases hp : readPrologue s h with
  | mk ph s5 =>
    rw [hp] at hc
    simp only at hc
    split at hc
    · simp [rthrow] at hc
    · split at hc
      · rename_i e heq
        injection hc with h1
        rw [h1] at heq
        exact readRecords_onlyFuel _ _ _ _ k heq
      · cases hc

/-- the data reader never returns `ub` at all -/
theorem readData_clean (s0 : InStream) (h : Header) (ph : PHeader) (gs : List Group) (k : UBKind) :
    readData s0 h ph gs ≠ .error (.inr k) := by
  intro hc
  unfold readData at hc
  simp only at hc
  split at hc
  · simp [rthrow] at hc
  · split at hc
    · simp [rthrow] at hc
    · rename_i k' hk'
      split at hk'
      · exact strsOf_noUB _ _ _ k' hk'
      · cases hk'
    · split at hc
      · simp [rthrow] at hc
      · rename_i k' hk'
        split at hk'
        · exact strsOf_noUB _ _ _ k' hk'
        · cases hk'
      · split at hc
        · cases hc
        · split at hc
          · simp [rthrow] at hc
          · split at hc
            · simp [rthrow] at hc
            · split at hc
              · simp [rthrow] at hc
              · split at hc
                · simp [rthrow] at hc
                · cases hc

end Ezc3d
