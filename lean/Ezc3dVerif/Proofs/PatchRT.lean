import Ezc3dVerif.Proofs.RecordsRT
/-
  The writer patches one byte back into what it has written (POINT:DATA_START). The patched bytes are
  the plain records of the same groups with the value of that parameter replaced.
-/
namespace Ezc3d
open C12 N

/-- the parameter `Parameter::write` leaves blank for `Parameters::write` to fill in (inside POINT) -/
def isDS (p : Param) : Prop := p.name = DATA_START ∧ p.type = .int ∧ hasSize p.dims = 1
instance (p : Param) : Decidable (isDS p) := by unfold isDS; infer_instance

def setDSp (v : Int) (p : Param) : Param := if isDS p then { p with ints := [v] } else p

/-- offset of the value inside the record -/
def slotOff (p : Param) : Nat := 2 + p.name.length + 2 + 1 + (dimBytes p.dims).length

theorem isDS_prod (p : Param) (h : RecOK p) (hd : isDS p) : p.dims.prod = 1 := by
  have := hasSize_small p.dims h.dims_ne (prod_small p h)
  rw [hd.2.2] at this; omega

theorem setDSp_ok (v : Int) (h1 : -32768 ≤ v) (h2 : v < 32768) (p : Param) (h : RecOK p) : RecOK (setDSp v p) := by
  unfold setDSp
  split
  · rename_i hd
    refine ⟨h.name_pos, h.name_len, h.name_nz, h.desc_len, h.desc_nz, h.dims_ne, h.dims_len, h.dims_small, h.bytes_small, h.count_small, ?_⟩
    unfold ValuesOK
    simp only [hd.2.1, isDS_prod p h hd, List.length_singleton, List.mem_singleton, true_and]
    intro x hx; subst hx; exact ⟨h1, h2⟩
  · exact h

theorem setDSp_name (v : Int) (p : Param) : (setDSp v p).name = p.name := by unfold setDSp; split <;> rfl

theorem setDSp_not (v : Int) (p : Param) (h : ¬ isDS p) : setDSp v p = p := by unfold setDSp; rw [if_neg h]

theorem writeData_true_not_isDS (p : Param) (h : ¬ isDS p) : p.writeData true = p.writeData false := by
  unfold Param.writeData
  have : ¬ (p.name = DATA_START ∧ p.type = PType.int ∧ hasSize p.dims = 1 ∧ True) := by
    intro hh; exact h ⟨hh.1, hh.2.1, hh.2.2.1⟩
  simp only [this, if_false, Bool.false_eq_true, and_false]

theorem write_true_not_isDS (p : Param) (gid : Int) (hp : RecOK p) (h : ¬ isDS p) :
    p.write gid true = .ok (p.recBytes gid, none) := by
  rw [← Param.write_plain p hp gid]
  unfold Param.write
  rw [writeData_true_not_isDS p h]

theorem le16_byte (v : Int) (h1 : 0 ≤ v) (h2 : v < 256) : le16 v = [low8 v, 0] := by
  unfold le16 low8
  have : (v / 256) % 256 = 0 := by omega
  rw [this]; rfl

/-- the record with the blank value, and where the blank is -/
theorem write_true_isDS (p : Param) (gid : Int) (hp : RecOK p) (h : isDS p) :
    p.write gid true = .ok ((setDSp 0 p).recBytes gid, some (slotOff p)) := by
  have hs : hasSize p.dims > 0 := by rw [h.2.2]; decide
  unfold Param.write Param.writeData
  rw [if_pos hs, if_neg (by rw [h.2.1]; decide), if_pos ⟨h.1, h.2.1, h.2.2, rfl⟩]
  simp only [Res.bind_ok, Option.map_some]
  congr 2
  · unfold Param.recBytes Param.recTail Param.nameLen le16N Param.offN valBytes setDSp
    simp only [if_pos h, h.2.1, List.map_cons, List.map_nil, List.flatten_cons, List.flatten_nil, List.append_nil,
      List.length_append, List.length_cons, List.length_nil, List.append_assoc, List.cons_append, List.nil_append]
    have e : (2 : Int) + ((List.length (dimBytes p.dims) + 1 : Nat) : Int) + ((List.length p.desc + 1 + 1 + 1 : Nat) : Int)
        = ((2 + (1 + List.length (dimBytes p.dims)) + ((le16 0).length + 1 + List.length p.desc) : Nat) : Int) := by
      simp only [le16_length]; push_cast; omega
    rw [e]
    rfl
  · unfold slotOff; simp [C03.toUpper_length]; omega

/-- a record as: everything before the value, the value bytes, the description -/
theorem recBytes_split (p : Param) (gid : Int) :
    p.recBytes gid = (low8 p.nameLen :: low8 gid :: (toUpper p.name ++ (le16N p.offN ++ (low8 p.type.code :: dimBytes p.dims))))
      ++ (valBytes p ++ (low8N p.desc.length :: p.desc)) := by
  unfold Param.recBytes Param.recTail; simp

theorem valBytes_setDSp (v : Int) (h1 : 0 ≤ v) (h2 : v < 256) (p : Param) (h : isDS p) :
    valBytes (setDSp v p) = [low8 v, 0] := by
  unfold valBytes setDSp
  simp only [if_pos h, h.2.1, List.map_cons, List.map_nil, List.flatten_cons, List.flatten_nil, List.append_nil]
  exact le16_byte v h1 h2

theorem setDSp_fields (v : Int) (p : Param) : (setDSp v p).name = p.name ∧ (setDSp v p).type = p.type ∧
    (setDSp v p).dims = p.dims ∧ (setDSp v p).desc = p.desc ∧ (setDSp v p).locked = p.locked := by
  unfold setDSp; split <;> simp

/-- writing the low byte of the block number into the blank gives the record of the parameter holding it -/
theorem recBytes_patch (v : Int) (h1 : 0 ≤ v) (h2 : v < 256) (p : Param) (gid : Int) (h : isDS p) :
    ((setDSp 0 p).recBytes gid).set (slotOff p) (low8 v) = (setDSp v p).recBytes gid := by
  rw [recBytes_split, recBytes_split, valBytes_setDSp 0 (by decide) (by decide) p h, valBytes_setDSp v h1 h2 p h]
  obtain ⟨a1, a2, a3, a4, a5⟩ := setDSp_fields 0 p
  obtain ⟨b1, b2, b3, b4, b5⟩ := setDSp_fields v p
  have hoff : (setDSp 0 p).offN = (setDSp v p).offN := by
    unfold Param.offN
    rw [a3, a4, b3, b4, valBytes_setDSp 0 (by decide) (by decide) p h, valBytes_setDSp v h1 h2 p h]
    simp only [List.length_cons, List.length_nil]
  have hn : (setDSp 0 p).nameLen = (setDSp v p).nameLen := by unfold Param.nameLen; rw [a1, a5, b1, b5]
  rw [a1, a2, a3, a4, b1, b2, b3, b4, hoff, hn]
  have hl : (low8 (setDSp v p).nameLen :: low8 gid :: (toUpper p.name ++ (le16N (setDSp v p).offN ++ (low8 p.type.code :: dimBytes p.dims)))).length = slotOff p := by
    unfold slotOff
    simp only [List.length_cons, List.length_append, C03.toUpper_length, le16N, le16_length]; omega
  rw [List.set_append_right _ _ (by omega), hl]
  simp [low8]

theorem writeParamList_true_plain (gid : Int) (t : List Param) (hok : ∀ p ∈ t, RecOK p) (hnone : ∀ q ∈ t, ¬ isDS q) :
    writeParamList gid true t = .ok (paramsBytes gid t, none) := by
  induction t with
  | nil => rfl
  | cons q r ihr =>
    unfold writeParamList
    rw [write_true_not_isDS q gid (hok q (by simp)) (hnone q (by simp)),
      ihr (fun x hx => hok x (by simp [hx])) (fun x hx => hnone x (by simp [hx]))]
    simp [paramsBytes]

/-- parameters of a group written inside POINT: bytes with the blank, the slot, and the effect of the patch -/
theorem writeParamList_true (gid : Int) (ps : List Param) (hok : ∀ p ∈ ps, RecOK p)
    (hd : (ps.map fun p => p.name).Pairwise (· ≠ ·)) :
    ∃ slot, writeParamList gid true ps = .ok (paramsBytes gid (ps.map (setDSp 0)), slot) ∧
      (∀ o, slot = some o → o < (paramsBytes gid (ps.map (setDSp 0))).length) ∧
      ∀ v : Int, 0 ≤ v → v < 256 →
        (match slot with
         | some o => (paramsBytes gid (ps.map (setDSp 0))).set o (low8 v)
         | none => paramsBytes gid (ps.map (setDSp 0))) = paramsBytes gid (ps.map (setDSp v)) := by
  induction ps with
  | nil => exact ⟨none, rfl, (fun _ h => by cases h), fun _ _ _ => rfl⟩
  | cons p t ih =>
    simp only [List.map_cons, List.pairwise_cons] at hd
    obtain ⟨slot, hw, hbound, hpatch⟩ := ih (fun q hq => hok q (by simp [hq])) hd.2
    have hp := hok p (by simp)
    by_cases hds : isDS p
    · -- no other parameter of the group is named DATA_START
      have hnone : ∀ q ∈ t, ¬ isDS q := by
        intro q hq hq2
        exact hd.1 q.name (List.mem_map.mpr ⟨q, hq, rfl⟩) (by rw [hds.1, hq2.1])
      have hmap : ∀ x, t.map (setDSp x) = t := by
        intro x
        rw [show t.map (setDSp x) = t.map id from List.map_congr_left (fun q hq => setDSp_not x q (hnone q hq)), List.map_id]
      have hwt := writeParamList_true_plain gid t (fun q hq => hok q (by simp [hq])) hnone
      have hlt : slotOff p < ((setDSp 0 p).recBytes gid).length := by
        rw [Param.recBytes_length]; unfold slotOff Param.recLen Param.offN
        obtain ⟨a1, _, a3, _, _⟩ := setDSp_fields 0 p
        rw [a1, a3, valBytes_setDSp 0 (by decide) (by decide) p hds]; simp; omega
      refine ⟨some (slotOff p), ?_, ?_, ?_⟩
      · unfold writeParamList
        rw [write_true_isDS p gid hp hds, hwt]
        simp [paramsBytes, hmap]
      · intro o ho
        cases ho
        simp only [paramsBytes, List.map_cons, List.flatten_cons, List.length_append]; omega
      · intro v h1 h2
        simp only [paramsBytes, List.map_cons, List.flatten_cons, hmap]
        rw [List.set_append_left _ _ hlt, recBytes_patch v h1 h2 p gid hds]
    · refine ⟨slot.map (fun o => (p.recBytes gid).length + o), ?_, ?_, ?_⟩
      · unfold writeParamList
        rw [write_true_not_isDS p gid hp hds, hw]
        simp only [Res.bind_ok, setDSp_not 0 p hds, paramsBytes, List.map_cons, List.flatten_cons]
        cases slot <;> rfl
      · intro o ho
        cases slot with
        | none => cases ho
        | some o' =>
          simp only [Option.map_some, Option.some.injEq] at ho
          have := hbound o' rfl
          simp only [paramsBytes, List.map_cons, List.flatten_cons, List.length_append, setDSp_not 0 p hds] at this ⊢
          omega
      · intro v h1 h2
        have := hpatch v h1 h2
        simp only [paramsBytes, List.map_cons, List.flatten_cons, setDSp_not _ p hds] at this ⊢
        cases slot with
        | none => simp only [Option.map_none] at this ⊢; rw [this]
        | some o =>
          simp only [Option.map_some] at this ⊢
          rw [List.set_append_right _ _ (by omega), Nat.add_sub_cancel_left, this]

/-! ### groups -/

def setDSg (v : Int) (g : Group) : Group := if g.name = POINT then { g with params := g.params.map (setDSp v) } else g

theorem setDSg_name (v : Int) (g : Group) : (setDSg v g).name = g.name := by unfold setDSg; split <;> rfl
theorem setDSg_not (v : Int) (g : Group) (h : g.name ≠ POINT) : setDSg v g = g := by unfold setDSg; rw [if_neg h]

theorem names_distinct_of_upper (ps : List Param) (h : (ps.map fun p => toUpper p.name).Pairwise (· ≠ ·)) :
    (ps.map fun p => p.name).Pairwise (· ≠ ·) := by
  rw [List.pairwise_map] at h ⊢
  exact h.imp (fun hne heq => hne (by rw [heq]))

theorem groupHead_bytes (g : Group) (i : Nat) :
    [low8 (if g.locked then -(g.name.length : Int) else g.name.length), low8 (-((i : Int) + 1))] ++ toUpper g.name
      ++ le16 ((2 : Int) + 1 + g.desc.length) ++ [low8N g.desc.length] ++ g.desc
    = low8 g.nameLen :: low8 (-((i : Int) + 1)) :: g.recTail [] := by
  unfold Group.recTail Group.nameLen le16N Group.offN
  have e : (2 : Int) + 1 + (g.desc.length : Int) = ((3 + g.desc.length : Nat) : Int) := by push_cast; omega
  rw [e]; simp

theorem Group.write_bytes (g : Group) (i : Nat) (hok : GroupRecsOK g) :
    ∃ slot, g.write i = .ok (groupBytes (setDSg 0 g) i, slot) ∧ (g.name ≠ POINT → slot = none) ∧
      (∀ o, slot = some o → o < (groupBytes (setDSg 0 g) i).length) ∧
      ∀ v : Int, 0 ≤ v → v < 256 →
        (match slot with
         | some o => (groupBytes (setDSg 0 g) i).set o (low8 v)
         | none => groupBytes (setDSg 0 g) i) = groupBytes (setDSg v g) i := by
  unfold Group.write
  simp only []
  rw [groupHead_bytes g i]
  by_cases hP : g.name = POINT
  · obtain ⟨slot, hw, hbound, hpatch⟩ := writeParamList_true ((i : Int) + 1) g.params hok.params (names_distinct_of_upper _ hok.distinct)
    have hb : (g.name == POINT) = true := by simp [hP]
    rw [hb, hw]
    refine ⟨slot.map (fun o => (low8 g.nameLen :: low8 (-((i : Int) + 1)) :: g.recTail []).length + o), ?_, fun h => absurd hP h, ?_, ?_⟩
    · simp only [Res.bind_ok]
      unfold groupBytes setDSg
      simp only [if_pos hP]
      rfl
    · intro o ho
      cases slot with
      | none => cases ho
      | some o' =>
        simp only [Option.map_some, Option.some.injEq] at ho
        have := hbound o' rfl
        unfold groupBytes setDSg
        simp only [if_pos hP]
        have ht : ({ g with params := g.params.map (setDSp 0) } : Group).recTail [] = g.recTail [] := rfl
        rw [ht]
        simp only [List.length_cons, List.length_append] at ho ⊢
        omega
    · intro v h1 h2
      have := hpatch v h1 h2
      unfold groupBytes setDSg
      simp only [if_pos hP]
      have hn : ({ g with params := g.params.map (setDSp 0) } : Group).nameLen = g.nameLen := rfl
      have hn' : ({ g with params := g.params.map (setDSp v) } : Group).nameLen = g.nameLen := rfl
      have ht : ({ g with params := g.params.map (setDSp 0) } : Group).recTail [] = g.recTail [] := rfl
      have ht' : ({ g with params := g.params.map (setDSp v) } : Group).recTail [] = g.recTail [] := rfl
      rw [hn, hn', ht, ht']
      cases slot with
      | none => simp only [Option.map_none] at this ⊢; rw [this]
      | some o =>
        simp only [Option.map_some] at this ⊢
        have e : low8 g.nameLen :: low8 (-((i : Int) + 1)) :: g.recTail [] ++ paramsBytes ((i : Int) + 1) (g.params.map (setDSp 0))
            = (low8 g.nameLen :: low8 (-((i : Int) + 1)) :: g.recTail []) ++ paramsBytes ((i : Int) + 1) (g.params.map (setDSp 0)) := by simp
        rw [e, List.set_append_right _ _ (by omega), Nat.add_sub_cancel_left, this]
  · have hb : (g.name == POINT) = false := by simp [hP]
    rw [hb, writeParamList_plain _ _ hok.params]
    refine ⟨none, ?_, fun _ => rfl, (fun _ h => by cases h), ?_⟩
    · simp only [Res.bind_ok, Option.map_none, setDSg_not 0 g hP]; rfl
    · intro v _ _; simp only [setDSg_not _ g hP]

theorem groupsBytes_append_shift (g : Group) (rest : List Group) (i : Nat) :
    groupsBytes (g :: rest) i = (if g.name = [] then [] else groupBytes g i) ++ groupsBytes rest (i + 1) := rfl

/-- groups none of which is named POINT: plain bytes, no slot -/
theorem writeGroupList_plain (gs : List Group) : ∀ i, (∀ g ∈ gs, g.name ≠ [] → GroupRecsOK g) → (∀ g ∈ gs, g.name ≠ POINT) →
    writeGroupList gs i = .ok (groupsBytes gs i, none) := by
  induction gs with
  | nil => intro i _ _; rfl
  | cons g rest ih =>
    intro i hok hnp
    unfold writeGroupList
    rw [ih (i + 1) (fun x hx => hok x (by simp [hx])) (fun x hx => hnp x (by simp [hx]))]
    by_cases hn : g.name = []
    · simp [hn, groupsBytes]
    · obtain ⟨slot, hw, hnone, _, _⟩ := Group.write_bytes g i (hok g (by simp) hn)
      rw [if_neg hn, hw, hnone (hnp g (by simp)), setDSg_not 0 g (hnp g (by simp))]
      simp [groupsBytes, hn]

theorem writeGroupList_bytes (gs : List Group) : ∀ i, (∀ g ∈ gs, g.name ≠ [] → GroupRecsOK g) →
    (gs.map fun g => g.name).Pairwise (· ≠ ·) →
    ∃ slot, writeGroupList gs i = .ok (groupsBytes (gs.map (setDSg 0)) i, slot) ∧
      ∀ v : Int, 0 ≤ v → v < 256 →
        (match slot with
         | some o => (groupsBytes (gs.map (setDSg 0)) i).set o (low8 v)
         | none => groupsBytes (gs.map (setDSg 0)) i) = groupsBytes (gs.map (setDSg v)) i := by
  induction gs with
  | nil => intro i _ _; exact ⟨none, rfl, fun _ _ _ => rfl⟩
  | cons g rest ih =>
    intro i hok hd
    simp only [List.map_cons, List.pairwise_cons] at hd
    have hokr : ∀ x ∈ rest, x.name ≠ [] → GroupRecsOK x := fun x hx => hok x (by simp [hx])
    by_cases hn : g.name = []
    · obtain ⟨slot, hw, hpatch⟩ := ih (i + 1) hokr hd.2
      have hnP : g.name ≠ POINT := by rw [hn]; decide
      refine ⟨slot, ?_, ?_⟩
      · unfold writeGroupList
        rw [if_pos hn, hw]
        simp only [Res.bind_ok, List.map_cons, setDSg_not 0 g hnP, groupsBytes, hn, if_true, List.nil_append, List.length_nil, Nat.zero_add]
        cases slot <;> rfl
      · intro v h1 h2
        have := hpatch v h1 h2
        simp only [List.map_cons, setDSg_not _ g hnP, groupsBytes, hn, if_true, List.nil_append]
        exact this
    · have hg := hok g (by simp) hn
      by_cases hP : g.name = POINT
      · -- no other group is named POINT
        have hnp : ∀ x ∈ rest, x.name ≠ POINT := by
          intro x hx hx2
          exact hd.1 x.name (List.mem_map.mpr ⟨x, hx, rfl⟩) (by rw [hP, hx2])
        have hmap : ∀ x, rest.map (setDSg x) = rest := by
          intro x
          rw [show rest.map (setDSg x) = rest.map id from List.map_congr_left (fun q hq => setDSg_not x q (hnp q hq)), List.map_id]
        obtain ⟨slot, hw, _, hbound, hpatch⟩ := Group.write_bytes g i hg
        refine ⟨slot, ?_, ?_⟩
        · unfold writeGroupList
          rw [if_neg hn, hw, writeGroupList_plain rest (i + 1) hokr hnp]
          simp only [Res.bind_ok, List.map_cons, hmap, groupsBytes, setDSg_name, hn, if_false]
        · intro v h1 h2
          have := hpatch v h1 h2
          simp only [List.map_cons, hmap, groupsBytes, setDSg_name, hn, if_false]
          cases slot with
          | none => simp only at this ⊢; rw [this]
          | some o =>
            simp only at this ⊢
            -- the slot lies inside the group's own bytes
            rw [List.set_append_left _ _ (hbound o rfl), this]
      · obtain ⟨slot, hw, hpatch⟩ := ih (i + 1) hokr hd.2
        obtain ⟨slotg, hwg, hnone, _, _⟩ := Group.write_bytes g i hg
        refine ⟨slot.map (fun o => (groupBytes g i).length + o), ?_, ?_⟩
        · unfold writeGroupList
          rw [if_neg hn, hwg, hnone hP, hw]
          simp only [Res.bind_ok, List.map_cons, setDSg_not 0 g hP, groupsBytes, hn, if_false]
          cases slot <;> rfl
        · intro v h1 h2
          have := hpatch v h1 h2
          simp only [List.map_cons, setDSg_not _ g hP, groupsBytes, hn, if_false]
          cases slot with
          | none => simp only [Option.map_none] at this ⊢; rw [this]
          | some o =>
            simp only [Option.map_some] at this ⊢
            rw [List.set_append_right _ _ (by omega), Nat.add_sub_cancel_left, this]

theorem low8_mod (x : Int) : low8 (x % 256) = low8 x := by
  unfold low8; congr 2; omega

/-- THE WRITTEN SECTION, byte for byte: prologue, the plain records of the groups in which POINT:DATA_START
    holds (the low byte of) the block number, zeros up to the block boundary; the block count is exact -/
theorem writeParamSection_bytes (ph : PHeader) (gs : List Group) (ps : Bytes)
    (hok : ∀ g ∈ gs, g.name ≠ [] → GroupRecsOK g) (hd : (gs.map fun g => g.name).Pairwise (· ≠ ·))
    (h : writeParamSection ph gs 512 = .ok ps) :
    ∃ (v : Int) (npad : Nat), 0 ≤ v ∧ v < 256 ∧ 1 ≤ npad ∧
      ps = [low8N ph.start, 0x50, low8 ((ps.length / 512 : Nat) : Int), 84] ++ groupsBytes (gs.map (setDSg v)) 0 ++ List.replicate npad 0 ∧
      ps.length % 512 = 0 ∧ 0 < ps.length ∧
      v = ((ps.length / 512 + 2 : Nat) : Int) % 256 := by
  obtain ⟨slot, hw, hpatch⟩ := writeGroupList_bytes gs 0 hok hd
  unfold writeParamSection at h
  rw [hw] at h
  simp only [Res.bind_ok] at h
  generalize hgb : groupsBytes (gs.map (setDSg 0)) 0 = gb at h hpatch
  obtain ⟨hp1, hp2, hp3⟩ := C03.padLen_spec (512 + 4 + gb.length)
  generalize hnp : padLen (512 + 4 + gb.length) = npad at h hp1 hp2 hp3
  have hif1 : (512 + 4 + gb.length + npad - 512 - 4) % 512 > 0 := by omega
  have hif2 : ¬ ((512 + 4 + gb.length + npad) % 512 > 0) := by omega
  rw [if_pos hif1, if_neg hif2] at h
  have hnb : ((512 + 4 + gb.length + npad - 512 - 4 : Nat) : Int) / 512 + 1 = (((4 + gb.length + npad) / 512 : Nat) : Int) := by omega
  have hds : ((512 + 4 + gb.length + npad : Nat) : Int) / 512 + 0 + 1 = (((4 + gb.length + npad) / 512 + 2 : Nat) : Int) := by omega
  rw [hnb, hds] at h
  have hpv := hpatch ((((4 + gb.length + npad) / 512 + 2 : Nat) : Int) % 256) (by omega) (by omega)
  rw [low8_mod] at hpv
  have hlen : (groupsBytes (gs.map (setDSg ((((4 + gb.length + npad) / 512 + 2 : Nat) : Int) % 256))) 0).length = gb.length := by
    rw [← hpv]; cases slot <;> simp
  have hps0 := (Res.ok.inj h).symm
  have hps : ps = [low8N ph.start, 0x50, low8 (((4 + gb.length + npad) / 512 : Nat) : Int), 84]
      ++ groupsBytes (gs.map (setDSg ((((4 + gb.length + npad) / 512 + 2 : Nat) : Int) % 256))) 0 ++ List.replicate npad 0 := by
    cases slot with
    | none => simp only at hpv hps0; rw [← hpv]; exact hps0
    | some o => simp only at hpv hps0; rw [← hpv]; exact hps0
  have hpl : ps.length = 4 + gb.length + npad := by
    rw [hps]; simp only [List.length_append, List.length_cons, List.length_nil, List.length_replicate, hlen]
  rw [← hpl] at hps
  exact ⟨_, npad, by omega, by omega, hp1, hps, by omega, by omega, rfl⟩

end Ezc3d
