import Ezc3dVerif.Proofs.ParamRT
namespace Ezc3d
open C12 N

/-- is the first dimension a string length (CHAR with more than one dimension)? -/
def Param.fil (p : Param) : Bool := p.type == .char && decide (p.dims.length > 1)
def Param.nValues (p : Param) : Nat := countedProd p.fil 0 p.dims

theorem countedProd_succ (fil : Bool) (dims : List Nat) : ∀ i, countedProd fil (i + 1) dims = dims.prod := by
  induction dims with
  | nil => intro i; rfl
  | cons d t ih => intro i; simp [countedProd, ih]

theorem countedProd_false (dims : List Nat) : ∀ i, countedProd false i dims = dims.prod := by
  induction dims with
  | nil => intro i; rfl
  | cons d t ih => intro i; simp [countedProd, ih]

theorem p0_eta (p0 : Param) (h : p0.ints = [] ∧ p0.floats = [] ∧ p0.strs = []) :
    { p0 with ints := [], floats := [], strs := [] } = p0 := by
  obtain ⟨h1, h2, h3⟩ := h
  cases p0; simp_all

theorem values_rt (p : Param) (h : RecOK p) (p0 : Param) (hp0 : p0.ints = [] ∧ p0.floats = [] ∧ p0.strs = [])
    (s : InStream) (b : Bytes) (hf : s.failed = false) (hr : s.rest = valBytes p ++ b) :
    (if p.nValues = 0 then SR.pure p0 else readValues p.type p.dims p0) s
      = .ok ({ p0 with ints := p.norm.ints, floats := p.norm.floats, strs := p.norm.strs }, s.adv b (valBytes p).length) := by
  have hv := h.values
  unfold ValuesOK at hv
  unfold Param.nValues Param.fil
  unfold valBytes at hr ⊢
  unfold Param.norm
  cases ht : p.type <;> simp only [ht] at hv hr ⊢
  · -- char
    simp only [show (PType.char == PType.char) = true from rfl, Bool.true_and]
    cases hd : p.dims with
    | nil => exact absurd hd h.dims_ne
    | cons w t =>
      rw [hd] at hv hr
      simp only [List.length_cons, List.headD_cons, List.prod_cons, List.drop_succ_cons, List.drop_zero] at hv hr ⊢
      cases t with
      | nil =>
        -- one dimension: a single string of width w
        simp only [List.length_nil, Nat.zero_add, if_true, List.prod_nil, Nat.mul_one] at hv
        simp only [List.length_nil, Nat.zero_add, Nat.lt_irrefl, decide_false, countedProd, Bool.false_eq_true, or_true, if_true, Nat.mul_one, gt_iff_lt]
        by_cases h0 : w = 0
        · simp only [h0, if_true] at hv
          simp only [h0, if_true, hv, List.map_nil, List.flatten_nil, List.nil_append, List.length_nil] at hr ⊢
          rw [← hr, adv_zero]
          simp [p0_eta p0 hp0]
        · simp only [h0, if_false] at hv
          obtain ⟨s0, hs0, hok⟩ := hv
          simp only [h0, if_false]
          rw [hs0] at hr ⊢
          simp only [List.map_cons, List.map_nil, List.flatten_cons, List.flatten_nil, List.append_nil] at hr ⊢
          unfold readValues
          simp only [SR.lift_apply, List.prod_cons, List.prod_nil, Nat.mul_one, List.length_cons, List.length_nil, Nat.zero_add, if_true]
          have hlen := strCell_length w s0 hok.1
          rw [read_adv' s w (strCell w s0) b hlen hf hr]
          simp [cellString_strCell w s0 hok, hp0.1, hp0.2.1, hlen]
      | cons d2 t2 =>
        have hlen2 : (d2 :: t2).length + 1 > 1 := by simp
        have hcp : countedProd true 0 (w :: d2 :: t2) = d2 * t2.prod := by
          show (if (0 > 0 ∨ true = false) then w else 1) * countedProd true (0 + 1) (d2 :: t2) = _
          rw [countedProd_succ]; simp
        simp only [hlen2, decide_true]
        rw [hcp]
        have hne1 : ¬ ((d2 :: t2).length + 1 = 1) := by simp
        simp only [hne1, if_false] at hv
        obtain ⟨hl, hall⟩ := hv
        by_cases h0 : (d2 :: t2).prod = 0
        · rw [h0] at hl
          have hi : p.strs = [] := List.length_eq_zero_iff.mp hl
          have h0' : d2 * t2.prod = 0 := by simpa using h0
          simp only [hi, List.map_nil, List.flatten_nil, List.nil_append, List.length_nil] at hr ⊢
          rw [if_pos h0', ← hr, adv_zero]
          simp [p0_eta p0 hp0]
        · have h0' : ¬ (d2 * t2.prod = 0) := by simpa using h0
          rw [if_neg h0']
          unfold readValues
          simp only [SR.lift_apply, List.prod_cons, List.length_cons, List.headD_cons, List.drop_succ_cons, List.drop_zero]
          have hle : ∀ x ∈ p.strs, x.length ≤ w := fun x hx => (hall x hx).1
          have hcl := cells_length w p.strs hle
          rw [hl] at hcl
          simp only [List.prod_cons] at hcl
          rw [read_adv' s _ _ b hcl hf hr]
          simp only [hne1, if_false]
          have := chunks_cells w p.strs hle
          rw [hl] at this
          simp only [List.prod_cons] at this
          rw [this, map_cellString_cells w p.strs hall]
          simp [hp0.1, hp0.2.1, hcl]
  · -- byte
    simp only [show (PType.byte == PType.char) = false from rfl, Bool.false_and, countedProd_false]
    obtain ⟨hl, hr8⟩ := hv
    by_cases h0 : p.dims.prod = 0
    · rw [h0] at hl
      have hi : p.ints = [] := List.length_eq_zero_iff.mp hl
      simp only [h0, if_true, hi, List.map_nil, List.nil_append, List.length_nil] at hr ⊢
      rw [← hr, adv_zero]
      simp [p0_eta p0 hp0]
    · simp only [h0, if_false]
      unfold readValues
      simp only [SR.lift_apply]
      rw [← hl, readMany_int1 p.ints s b hr8 hf hr]
      simp [hp0.2.1, hp0.2.2]
  · -- int
    simp only [show (PType.int == PType.char) = false from rfl, Bool.false_and, countedProd_false]
    obtain ⟨hl, hr16⟩ := hv
    by_cases h0 : p.dims.prod = 0
    · rw [h0] at hl
      have hi : p.ints = [] := List.length_eq_zero_iff.mp hl
      simp only [h0, if_true, hi, List.map_nil, List.flatten_nil, List.nil_append, List.length_nil] at hr ⊢
      rw [← hr, adv_zero]
      simp [p0_eta p0 hp0]
    · simp only [h0, if_false]
      unfold readValues
      simp only [SR.lift_apply]
      rw [← hl, readMany_int2 p.ints s b hr16 hf hr]
      have : ((p.ints.map le16).flatten).length = 2 * p.ints.length := C03.flatten_map_len le16 2 (fun _ => rfl) _
      simp [hp0.2.1, hp0.2.2, this]
  · -- float
    simp only [show (PType.float == PType.char) = false from rfl, Bool.false_and, countedProd_false]
    by_cases h0 : p.dims.prod = 0
    · rw [h0] at hv
      have hi : p.floats = [] := List.length_eq_zero_iff.mp hv
      simp only [h0, if_true, hi, List.map_nil, List.flatten_nil, List.nil_append, List.length_nil] at hr ⊢
      rw [← hr, adv_zero]
      simp [p0_eta p0 hp0]
    · simp only [h0, if_false]
      unfold readValues
      simp only [SR.lift_apply]
      rw [← hv, readMany_float p.floats s b hf hr]
      have : ((p.floats.map f32le).flatten).length = 4 * p.floats.length := C03.flatten_map_len f32le 4 (fun _ => rfl) _
      simp [hp0.1, hp0.2.2, this]

/-! ### the initial counts of the size check -/

theorem any_zero_iff (dims : List Nat) : dims.any (· == 0) = true ↔ dims.prod = 0 := by
  induction dims with
  | nil => simp
  | cons d t ih =>
    simp only [List.any_cons, Bool.or_eq_true, beq_iff_eq, List.prod_cons, Nat.mul_eq_zero, ih]

theorem enum_any_zero_iff (fil : Bool) (dims : List Nat) : ∀ i,
    ((List.range' i dims.length).zip dims).any (fun (x : Nat × Nat) => x.2 == 0 && (decide (x.1 > 0) || !fil)) = true
      ↔ countedProd fil i dims = 0 := by
  induction dims with
  | nil => intro i; simp [countedProd]
  | cons d t ih =>
    intro i
    simp only [List.length_cons, List.range'_succ, List.zip_cons_cons, List.any_cons, Bool.or_eq_true, countedProd,
      Nat.mul_eq_zero, ih (i + 1)]
    apply or_congr_left
    cases fil <;> by_cases hi : i > 0 <;> simp [hi]

theorem all_pos_of_prod_ne_zero (l : List Nat) (h : l.prod ≠ 0) : ∀ d ∈ l, 1 ≤ d := by
  induction l with
  | nil => intro d hd; cases hd
  | cons a t ih =>
    simp only [List.prod_cons, ne_eq, Nat.mul_eq_zero, not_or] at h
    intro d hd
    rcases List.mem_cons.mp hd with rfl | hd
    · omega
    · exact ih h.2 d hd

theorem countedProd_eq_prod_countedDims (fil : Bool) (dims : List Nat) :
    countedProd fil 0 dims = (countedDims fil 0 dims).prod := by
  unfold countedDims
  cases dims with
  | nil => cases fil <;> simp [countedProd]
  | cons d t =>
    cases fil
    · simp [countedProd_false]
    · simp [countedProd, countedProd_succ]

/-- the size check passes on a record whose values are in the file, and yields the number of values -/
theorem sizeOk_record (p : Param) (rem : Nat) (hrem : rem + 0xFFFF < two64) (hb : p.type.size * p.dims.prod ≤ rem)
    (hv : p.nValues ≤ 0xFFFF) :
    sizeOk rem p.fil p.dims 0 (if p.dims.any (· == 0) then 0 else p.type.size)
      (if (enum p.dims).any (fun (x : Nat × Nat) => x.2 == 0 && (decide (x.1 > 0) || !p.fil)) then 0 else 1)
      = some p.nValues := by
  have hz1 := any_zero_iff p.dims
  have hz2 := enum_any_zero_iff p.fil p.dims 0
  unfold enum
  rw [List.range_eq_range']
  by_cases h1 : p.dims.prod = 0
  · have a1 : p.dims.any (· == 0) = true := hz1.mpr h1
    rw [a1]; simp only [if_true]
    by_cases h2 : countedProd p.fil 0 p.dims = 0
    · rw [hz2.mpr h2]; simp only [if_true]
      rw [sizeOk_ok rem p.fil hrem p.dims 0 0 0 (.inl rfl) (.inl rfl) (by simp) (by simp)]
      simp [Param.nValues, h2]
    · have a2 : ((List.range' 0 p.dims.length).zip p.dims).any (fun (x : Nat × Nat) => x.2 == 0 && (decide (x.1 > 0) || !p.fil)) = false := by
        cases hh : ((List.range' 0 p.dims.length).zip p.dims).any (fun (x : Nat × Nat) => x.2 == 0 && (decide (x.1 > 0) || !p.fil))
        · rfl
        · exact absurd (hz2.mp hh) h2
      rw [a2]; simp only [Bool.false_eq_true, if_false]
      rw [countedProd_eq_prod_countedDims] at h2
      rw [sizeOk_ok rem p.fil hrem p.dims 0 0 1 (.inl rfl) (.inr (all_pos_of_prod_ne_zero _ h2)) (by simp)
        (by simp only [Nat.one_mul]; unfold Param.nValues at hv; omega)]
      simp [Param.nValues]
  · have a1 : p.dims.any (· == 0) = false := by
      cases hh : p.dims.any (· == 0)
      · rfl
      · exact absurd (hz1.mp hh) h1
    rw [a1]; simp only [Bool.false_eq_true, if_false]
    have hall := all_pos_of_prod_ne_zero p.dims h1
    have h2 : countedProd p.fil 0 p.dims ≠ 0 := by
      have := countedProd_pos p.fil p.dims 0 hall; omega
    have a2 : ((List.range' 0 p.dims.length).zip p.dims).any (fun (x : Nat × Nat) => x.2 == 0 && (decide (x.1 > 0) || !p.fil)) = false := by
      cases hh : ((List.range' 0 p.dims.length).zip p.dims).any (fun (x : Nat × Nat) => x.2 == 0 && (decide (x.1 > 0) || !p.fil))
      · rfl
      · exact absurd (hz2.mp hh) h2
    rw [a2]; simp only [Bool.false_eq_true, if_false]
    rw [sizeOk_ok rem p.fil hrem p.dims 0 p.type.size 1 (.inr hall)
      (.inr (fun d hd => hall d (by unfold countedDims at hd; split at hd; exact List.mem_of_mem_drop hd; exact hd))) hb
      (by simp only [Nat.one_mul]; unfold Param.nValues at hv; omega)]
    simp [Param.nValues]

end Ezc3d
