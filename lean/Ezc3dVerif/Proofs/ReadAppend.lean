import Ezc3dVerif.Model.Read
import Ezc3dVerif.Model.Write
import Ezc3dVerif.Properties.C12
/- Reading back what was appended: the stream delivers exactly the next `n` bytes when they are there. -/
namespace Ezc3d

theorem takePad_append (a b : Bytes) : takePad a.length (a ++ b) = (a, b, a.length) := by
  induction a with
  | nil => simp [takePad]
  | cons x t ih => simp [takePad, ih]

/-- a live stream whose unread suffix starts with `a` delivers `a` and moves past it -/
theorem read_append (s : InStream) (a b : Bytes) (hf : s.failed = false) (hr : s.rest = a ++ b) :
    s.read a.length = (a, { s with rest := b, pos := s.pos + a.length }) := by
  unfold InStream.read
  simp only [hf, Bool.false_eq_true, if_false, hr, takePad_append, if_true]

theorem readFloat_append (s : InStream) (v : UInt32) (b : Bytes) (hf : s.failed = false) (hr : s.rest = f32le v ++ b) :
    s.readFloat = (v, { s with rest := b, pos := s.pos + 4 }) := by
  unfold InStream.readFloat
  have := read_append s (f32le v) b hf hr
  rw [show (f32le v).length = 4 from rfl] at this
  rw [this]
  simp [C12.f32_roundtrip]

end Ezc3d

namespace Ezc3d

/-- the stream after consuming `k` bytes, `b` left -/
def InStream.adv (s : InStream) (b : Bytes) (k : Nat) : InStream := { s with rest := b, pos := s.pos + k }

@[simp] theorem adv_failed (s : InStream) (b k) : (s.adv b k).failed = s.failed := rfl
@[simp] theorem adv_rest (s : InStream) (b k) : (s.adv b k).rest = b := rfl
@[simp] theorem adv_adv (s : InStream) (b c k j) : (s.adv b k).adv c j = s.adv c (k + j) := by
  simp [InStream.adv, Nat.add_assoc]
theorem adv_zero (s : InStream) : s.adv s.rest 0 = s := by simp [InStream.adv]

theorem readFloat_adv (s : InStream) (v : UInt32) (b : Bytes) (hf : s.failed = false) (hr : s.rest = f32le v ++ b) :
    s.readFloat = (v, s.adv b 4) := readFloat_append s v b hf hr

def pointName (labels : List Bytes) (i : Nat) : Bytes :=
  rtrim (match labels[i]? with | some l => l | none => N.unlabeledPoint ++ decimal i)
def channelName (labels : List Bytes) (i : Nat) : Bytes :=
  rtrim (match labels[i]? with | some l => l | none => N.unlabeledAnalog ++ decimal i)

theorem readPoint_written (labels : List Bytes) (i : Nat) (s : InStream) (p : Point) (b : Bytes)
    (hf : s.failed = false) (hr : s.rest = p.write ++ b) :
    readPoint labels i s = ({ p with name := pointName labels i }, s.adv b 16) := by
  unfold Point.write at hr
  simp only [List.append_assoc] at hr
  unfold readPoint
  rw [readFloat_adv s p.x _ hf hr]
  simp only
  rw [readFloat_adv (s.adv _ 4) p.y (f32le p.z ++ (f32le p.r ++ b)) (by simpa) (by simp)]
  simp only
  rw [readFloat_adv _ p.z (f32le p.r ++ b) (by simpa) (by simp)]
  simp only
  rw [readFloat_adv _ p.r b (by simpa) (by simp)]
  simp [pointName]
  cases labels[i]? <;> rfl

theorem readChannel_written (labels : List Bytes) (i : Nat) (s : InStream) (c : Channel) (b : Bytes)
    (hf : s.failed = false) (hr : s.rest = f32le c.v ++ b) :
    readChannel labels i s = ({ c with name := channelName labels i }, s.adv b 4) := by
  unfold readChannel
  rw [readFloat_adv s c.v _ hf hr]
  simp [channelName]
  cases labels[i]? <;> rfl

/-- points relabelled by their position, as the reader names them -/
def relabelPts (labels : List Bytes) : Nat → List Point → List Point
  | _, [] => []
  | i, p :: ps => { p with name := pointName labels i } :: relabelPts labels (i + 1) ps
def relabelChs (labels : List Bytes) : Nat → List Channel → List Channel
  | _, [] => []
  | i, c :: cs => { c with name := channelName labels i } :: relabelChs labels (i + 1) cs

theorem readPoints_written (labels : List Bytes) (pts : List Point) : ∀ (i : Nat) (s : InStream) (b : Bytes),
    s.failed = false → s.rest = (pts.map Point.write).flatten ++ b →
    readIdx (readPoint labels) pts.length i s = (relabelPts labels i pts, s.adv b (16 * pts.length)) := by
  induction pts with
  | nil => intro i s b hf hr; simp at hr; simp [readIdx, relabelPts, ← hr, adv_zero]
  | cons p ps ih =>
    intro i s b hf hr
    simp only [List.map_cons, List.flatten_cons, List.append_assoc] at hr
    simp only [List.length_cons, readIdx]
    rw [readPoint_written labels i s p _ hf hr]
    simp only
    rw [ih (i + 1) (s.adv _ 16) b (by simpa) (by simp)]
    simp [relabelPts]; congr 1; omega

theorem readChannels_written (labels : List Bytes) (cs : List Channel) : ∀ (i : Nat) (s : InStream) (b : Bytes),
    s.failed = false → s.rest = (cs.map fun c => f32le c.v).flatten ++ b →
    readIdx (readChannel labels) cs.length i s = (relabelChs labels i cs, s.adv b (4 * cs.length)) := by
  induction cs with
  | nil => intro i s b hf hr; simp at hr; simp [readIdx, relabelChs, ← hr, adv_zero]
  | cons c cs ih =>
    intro i s b hf hr
    simp only [List.map_cons, List.flatten_cons, List.append_assoc] at hr
    simp only [List.length_cons, readIdx]
    rw [readChannel_written labels i s c _ hf hr]
    simp only
    rw [ih (i + 1) (s.adv _ 4) b (by simpa) (by simp)]
    simp [relabelChs]; congr 1; omega

end Ezc3d

namespace Ezc3d

def SubFrame.bytes (sf : List Channel) : Bytes := (sf.map fun c => f32le c.v).flatten

theorem readSubs_written (al : List Bytes) (nch : Nat) (subs : List (List Channel)) : ∀ (s : InStream) (b : Bytes),
    (∀ sf ∈ subs, sf.length = nch) → s.failed = false → s.rest = (subs.map SubFrame.bytes).flatten ++ b →
    readMany (fun s => readIdx (readChannel al) nch 0 s) subs.length s
      = (subs.map (relabelChs al 0), s.adv b (4 * nch * subs.length)) := by
  induction subs with
  | nil => intro s b _ hf hr; simp at hr; simp [readMany, ← hr, adv_zero]
  | cons sf subs ih =>
    intro s b hu hf hr
    simp only [List.map_cons, List.flatten_cons, List.append_assoc] at hr
    simp only [List.length_cons, readMany]
    have hl : sf.length = nch := hu sf (by simp)
    have := readChannels_written al sf 0 s _ hf hr
    rw [hl] at this
    rw [this]
    simp only
    rw [ih (s.adv _ (4 * nch)) b (fun x hx => hu x (by simp [hx])) (by simpa) (by simp)]
    simp; congr 1; rw [Nat.mul_add]; omega

/-- the frame as the reader rebuilds it: same values, names taken from the label lists by position -/
def relabelFrame (pl al : List Bytes) (f : Frame) : Frame :=
  { pts := relabelPts pl 0 f.pts, subs := f.subs.map (relabelChs al 0) }

/-- a frame of the announced shape -/
def Frame.hasShape (np nsf nch : Nat) (f : Frame) : Prop :=
  f.pts.length = np ∧ f.subs.length = nsf ∧ ∀ sf ∈ f.subs, sf.length = nch

def frameBytes (np nsf nch : Nat) : Nat := 16 * np + 4 * nch * nsf

theorem Frame.write_eq (f : Frame) : f.write = (f.pts.map Point.write).flatten ++ (f.subs.map SubFrame.bytes).flatten := rfl

theorem readFrame_written (np nsf nch : Nat) (pl al : List Bytes) (f : Frame) (s : InStream) (b : Bytes)
    (hs : f.hasShape np nsf nch) (hf : s.failed = false) (hr : s.rest = f.write ++ b) :
    readFrame np nsf nch pl al s = (relabelFrame pl al f, s.adv b (frameBytes np nsf nch)) := by
  obtain ⟨h1, h2, h3⟩ := hs
  rw [Frame.write_eq, List.append_assoc] at hr
  unfold readFrame
  have e1 := readPoints_written pl f.pts 0 s _ hf hr
  rw [h1] at e1
  rw [e1]
  simp only
  have e2 := readSubs_written al nch f.subs (s.adv ((f.subs.map SubFrame.bytes).flatten ++ b) (16 * np)) b h3 (by simpa) (by simp)
  rw [h2] at e2
  rw [e2]
  simp [relabelFrame, frameBytes]

/-- THE DATA SECTION READS BACK: the reader, told the shape every written frame has, returns exactly the
    written frames (values bit for bit, names by position) and stops at the end of the data -/
theorem readData_written (np nsf nch : Nat) (pl al : List Bytes) (frames : List Frame) : ∀ (s : InStream) (b : Bytes),
    (∀ f ∈ frames, f.hasShape np nsf nch) → s.failed = false → s.rest = writeData frames ++ b →
    readMany (readFrame np nsf nch pl al) frames.length s
      = (frames.map (relabelFrame pl al), s.adv b (frameBytes np nsf nch * frames.length)) := by
  induction frames with
  | nil => intro s b _ hf hr; simp [writeData] at hr; simp [readMany, ← hr, adv_zero]
  | cons f fs ih =>
    intro s b hu hf hr
    simp only [writeData, List.map_cons, List.flatten_cons, List.append_assoc] at hr
    simp only [List.length_cons, readMany]
    rw [readFrame_written np nsf nch pl al f s _ (hu f (by simp)) hf hr]
    simp only
    rw [ih (s.adv _ _) b (fun x hx => hu x (by simp [hx])) (by simpa) (by simpa [writeData])]
    simp; congr 1; rw [Nat.mul_add]; omega

/-- relabelling never touches a coordinate, residual or sample -/
theorem relabelPts_values (l : List Bytes) (pts : List Point) : ∀ i,
    (relabelPts l i pts).map (fun p => (p.x, p.y, p.z, p.r)) = pts.map (fun p => (p.x, p.y, p.z, p.r)) := by
  induction pts with
  | nil => intro i; rfl
  | cons p ps ih => intro i; simp [relabelPts, ih]
theorem relabelChs_values (l : List Bytes) (cs : List Channel) : ∀ i,
    (relabelChs l i cs).map (·.v) = cs.map (·.v) := by
  induction cs with
  | nil => intro i; rfl
  | cons c cs ih => intro i; simp [relabelChs, ih]

/-- a point list that already carries the reader's names is returned unchanged -/
theorem relabelPts_id (l : List Bytes) (pts : List Point) : ∀ i,
    (∀ k (h : k < pts.length), pts[k].name = pointName l (i + k)) → relabelPts l i pts = pts := by
  induction pts with
  | nil => intro i _; rfl
  | cons p ps ih =>
    intro i h
    simp only [relabelPts]
    have h0 := h 0 (by simp)
    simp at h0
    rw [← h0, ih (i + 1) (fun k hk => by have := h (k + 1) (by simpa using hk); simpa [Nat.add_assoc, Nat.add_comm 1 k] using this)]
theorem relabelChs_id (l : List Bytes) (cs : List Channel) : ∀ i,
    (∀ k (h : k < cs.length), cs[k].name = channelName l (i + k)) → relabelChs l i cs = cs := by
  induction cs with
  | nil => intro i _; rfl
  | cons c cs ih =>
    intro i h
    simp only [relabelChs]
    have h0 := h 0 (by simp)
    simp at h0
    rw [← h0, ih (i + 1) (fun k hk => by have := h (k + 1) (by simpa using hk); simpa [Nat.add_assoc, Nat.add_comm 1 k] using this)]

end Ezc3d
