/-
  Basic vocabulary shared by the model, the spec and the driver.
  Core Lean only (no Mathlib) so that the driver links as a native executable.
-/
namespace Ezc3d

abbrev Bytes := List UInt8

/-- Most-derived *standard* exception class, decided by the catch ladder of the harness
    (same order as `binding/ezc3d.i`: ios_base::failure before runtime_error, ...). -/
inductive Exc where
  | ios_failure | out_of_range | invalid_argument | length_error | range_error
  | runtime_error | bad_alloc | logic_error | other
  deriving DecidableEq, Repr, Inhabited

def Exc.toString : Exc → String
  | .ios_failure => "ios_failure" | .out_of_range => "out_of_range"
  | .invalid_argument => "invalid_argument" | .length_error => "length_error"
  | .range_error => "range_error" | .runtime_error => "runtime_error"
  | .bad_alloc => "bad_alloc" | .logic_error => "logic_error" | .other => "other"

instance : ToString Exc := ⟨Exc.toString⟩

/-- What C++ leaves undefined and the model refuses to give a value to. -/
inductive UBKind where
  | vecIndex        -- `v[i]` with `i ≥ v.size()` on a std::vector (operator[], not .at)
  | allocMismatch   -- delete of new[]
  | bufOverflow     -- write past a `new char[n]`
  | floatCast       -- float → integer conversion out of range
  | signedOverflow
  | nonTermination  -- not a C++ notion: marks a model loop that ran out of fuel, i.e. a hang of the real loop
  deriving DecidableEq, Repr, Inhabited

def UBKind.toString : UBKind → String
  | .vecIndex => "vecIndex" | .allocMismatch => "allocMismatch" | .bufOverflow => "bufOverflow"
  | .floatCast => "floatCast" | .signedOverflow => "signedOverflow" | .nonTermination => "nonTermination"

/-- Result of a pure look-up: a value, a thrown exception class, or undefined behaviour. -/
inductive Res (α : Type) where
  | ok (a : α)
  | throw (e : Exc)
  | ub (k : UBKind)
  deriving Repr, DecidableEq

instance [Inhabited α] : Inhabited (Res α) := ⟨.ok default⟩

/-- Result of a mutating call on a state `σ`: `throw` carries the state the object is *left in*
    when the exception escapes (this is what lets "a refused call leaves the object unchanged"
    be a statement about the model's control flow rather than a convention). -/
inductive Outcome (σ : Type) where
  | ok (s : σ)
  | throw (e : Exc) (left : σ)
  | ub (k : UBKind)
  deriving Repr, DecidableEq

def Res.isUB : Res α → Bool | .ub _ => true | _ => false
def Outcome.isUB : Outcome σ → Bool | .ub _ => true | _ => false

/-! ### C integer conversions (two's complement, as gcc/clang implement them) -/

def two64 : Nat := 18446744073709551616
def two32 : Nat := 4294967296
def two31 : Nat := 2147483648
def two16 : Nat := 65536

/-- `size_t` arithmetic result. -/
def u64 (n : Nat) : Nat := n % two64

/-- `static_cast<size_t>(int)`. -/
def intToU64 (i : Int) : Nat := (i % (two64 : Int)).toNat

/-- `static_cast<int>(size_t)` (implementation-defined before C++20: modular, as gcc does). -/
def u64ToI32 (n : Nat) : Int :=
  let m := n % two32
  if m < two31 then (m : Int) else (m : Int) - (two32 : Int)

/-- `size_t a - b` (wraps). -/
def subU64 (a b : Nat) : Nat := (a + two64 - b % two64) % two64

def SIZE_MAX : Nat := two64 - 1

/-! ### strings as byte lists -/

def ofAscii (s : String) : Bytes := s.toUTF8.toList

/-- `::toupper` in the C locale. -/
def upperByte (b : UInt8) : UInt8 := if 97 ≤ b ∧ b ≤ 122 then b - 32 else b
def toUpper (s : Bytes) : Bytes := s.map upperByte

/-- `ezc3d::removeTrailingSpaces`: drop every trailing 0x20. -/
def rtrim (s : Bytes) : Bytes := (s.reverse.dropWhile (· == 32)).reverse

/-- `std::string(const char*)`: stops at the first NUL. -/
def cstr (s : Bytes) : Bytes := s.takeWhile (· != 0)

end Ezc3d
