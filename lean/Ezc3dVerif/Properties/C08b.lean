import Ezc3dVerif.Properties.C08
/-
  C08 (continued) — objects that come from a FILE. `Data::Data(c3d&)` sizes `_frames` with blank frames and then, slot by slot,
  `_frames[j].add(points)` and `_frames[j].add(analogs)`: each slot gets its own fresh cells. At the handle level: the frames of
  a loaded object are separated from each other and from every Frame object of the caller, the object stores exactly the
  values read, and `Sep` stays an invariant of every history in which objects are also (re)loaded. (The seeded change "the
  loader reuses / hoists its work frame", found by two independent agents, is exactly a loader whose slots share a cell.)
-/
namespace Ezc3d.Heap

/-- slot `j` gets fresh cells holding the frame read from the file -/
def Heap.fillSlot (h : Heap) (j : Nat) (v : Frame) : Heap :=
  { h with P := h.P ++ [v.pts], A := h.A ++ [v.subs], stored := h.stored.set j { pts := h.P.length, subs := h.A.length } }

def Heap.fillFrom (h : Heap) : Nat → List Frame → Heap
  | _, [] => h
  | j, v :: rest => (h.fillSlot j v).fillFrom (j + 1) rest

/-- `Data::Data(c3d&)` of a NEW object (the caller's Frame objects live on): `_frames.resize(n)`, then every slot filled -/
def Heap.loadFrames (h : Heap) (vs : List Frame) : Heap :=
  (({ h with stored := [] } : Heap).growBy vs.length).fillFrom 0 vs

end Ezc3d.Heap

namespace Ezc3d.C08
open Ezc3d.Heap

theorem dropStored_sep {h : Heap} (s : Sep h) : Sep ({ h with stored := [] } : Heap) := by
  refine ⟨by simp, by simp, ?_, s.allocV, ?_, ?_⟩
  · intro f hf; simp at hf
  · intro f _ g hg; simp at hg
  · intro f _ g hg; simp at hg

theorem fillSlot_sep {h : Heap} (s : Sep h) (j : Nat) (v : Frame) : Sep (h.fillSlot j v) := by
  unfold Heap.fillSlot
  have s1 := s.grow v.pts v.subs
  refine Sep.replace s1 j _ ?_ ?_ ?_ ?_ ?_
  · simp
  · intro k hk; exact (fresh_ne_stored s k hk).1
  · intro k hk; exact (fresh_ne_stored s k hk).2
  · intro k hk; exact (vars_ne_fresh s k hk).1
  · intro k hk; exact (vars_ne_fresh s k hk).2

theorem fillSlot_view {h : Heap} (s : Sep h) (j : Nat) (v : Frame) : (h.fillSlot j v).view = h.view.set j v := by
  unfold Heap.fillSlot
  have hv := view_grow s v.pts v.subs
  have := view_setStored ({ h with P := h.P ++ [v.pts], A := h.A ++ [v.subs] } : Heap) j { pts := h.P.length, subs := h.A.length }
  simp only at this
  rw [this, hv]
  congr 1
  simp only [Heap.deref, Heap.derefP, Heap.derefA]
  rw [getD_append_len, getD_append_len]

theorem fillSlot_length (h : Heap) (j : Nat) (v : Frame) : (h.fillSlot j v).stored.length = h.stored.length := by
  simp [Heap.fillSlot]

theorem fillFrom_sep (vs : List Frame) : ∀ {h : Heap} (j : Nat), Sep h → Sep (h.fillFrom j vs) := by
  induction vs with
  | nil => intro h j s; exact s
  | cons v rest ih => intro h j s; exact ih (j + 1) (fillSlot_sep s j v)

/-- slots `j, j+1, …` take the values `vs`; the others keep theirs -/
theorem fillFrom_view (vs : List Frame) : ∀ {h : Heap} (j : Nat), Sep h → j + vs.length ≤ h.stored.length →
    ∀ i, (h.fillFrom j vs).view[i]? = if j ≤ i ∧ i < j + vs.length then vs[i - j]? else h.view[i]? := by
  induction vs with
  | nil =>
    intro h j s _ i
    simp only [Heap.fillFrom, List.length_nil, Nat.add_zero]
    rw [if_neg (by omega)]
  | cons v rest ih =>
    intro h j s hl i
    simp only [Heap.fillFrom, List.length_cons] at hl ⊢
    rw [ih (j + 1) (fillSlot_sep s j v) (by rw [fillSlot_length]; omega) i, fillSlot_view s j v]
    have hvl : h.view.length = h.stored.length := by simp [Heap.view]
    by_cases h1 : j + 1 ≤ i ∧ i < j + 1 + rest.length
    · rw [if_pos h1, if_pos (by omega)]
      have : i - j = (i - (j + 1)) + 1 := by omega
      rw [this, List.getElem?_cons_succ]
    · rw [if_neg h1]
      by_cases h2 : i = j
      · subst h2
        rw [if_pos (by omega), List.getElem?_set_self (by omega)]
        simp
      · rw [List.getElem?_set_ne (fun e => h2 e.symm), if_neg (by omega)]

/-- THE LOADER KEEPS SEPARATION: every slot of a loaded object owns its cells -/
theorem loadFrames_sep {h : Heap} (s : Sep h) (vs : List Frame) : Sep (h.loadFrames vs) :=
  fillFrom_sep vs 0 (growBy_sep vs.length (dropStored_sep s))

/-- THE LOADED OBJECT STORES THE VALUES READ FROM THE FILE -/
theorem loadFrames_view {h : Heap} (s : Sep h) (vs : List Frame) : (h.loadFrames vs).view = vs := by
  unfold Heap.loadFrames
  have s0 := dropStored_sep s
  have sg := growBy_sep vs.length s0
  have hlen : (({ h with stored := [] } : Heap).growBy vs.length).stored.length = vs.length := by
    rw [growBy_length]; simp
  apply List.ext_getElem?
  intro i
  rw [fillFrom_view vs 0 sg (by rw [hlen]; omega) i]
  by_cases hi : i < vs.length
  · rw [if_pos ⟨by omega, by omega⟩]; simp
  · rw [if_neg (by omega)]
    have hvl : (({ h with stored := [] } : Heap).growBy vs.length).view.length = vs.length := by
      simp only [Heap.view, List.length_map, hlen]
    rw [List.getElem?_eq_none (by omega), List.getElem?_eq_none (by omega)]

/-! ### every history, loads included -/

inductive OpL where
  | op (o : Op)
  | load (vs : List Frame)        -- `c3d c(path)`: a new object built by the loader; the caller's frames live on

def stepL (h : Heap) : OpL → Heap
  | .op o => step h o
  | .load vs => h.loadFrames vs

/-- SEPARATION IN EVERY REACHABLE STATE of every history of caller operations, object operations and loads -/
theorem reach_sepL (ops : List OpL) : Sep (ops.foldl stepL {}) := by
  suffices ∀ h, Sep h → Sep (ops.foldl stepL h) from this {} Sep.init
  induction ops with
  | nil => intro h s; exact s
  | cons o rest ih =>
    intro h s
    refine ih _ ?_
    cases o with
    | op o => exact step_sep s o
    | load vs => exact loadFrames_sep s vs

/-- in particular: after a load, adding one point to the data set adds it exactly once to every frame — the columns are applied to
    separated frames (`pointCols_view` needs `Sep`, which the loader establishes) -/
theorem load_then_pointCols (ops : List OpL) (vs : List Frame) (cols : List (List Point)) (hl : cols.length = vs.length) :
    (((ops.foldl stepL {}).loadFrames vs).pointCols cols).view
      = List.zipWith (fun (f : Frame) ps => { f with pts := f.pts ++ ps }) vs cols := by
  have s := loadFrames_sep (reach_sepL ops) vs
  have hv := loadFrames_view (reach_sepL ops) vs
  have hlen : cols.length = ((ops.foldl stepL {}).loadFrames vs).stored.length := by
    have : ((ops.foldl stepL {}).loadFrames vs).view.length = vs.length := by rw [hv]
    simp only [Heap.view, List.length_map] at this
    rw [this, hl]
  rw [pointCols_view s cols hlen, hv]

/-- non-vacuity: a file with two point-less frames is loaded while the caller holds a frame; a point column then lands once in
    each frame -/
example : ((([OpL.op (.mk { pts := [pt1] }), .load [{}, {}], .op (.pcols [[pt1], [pt1]])] : List OpL).foldl stepL {}).view)
    = [{ pts := [pt1] }, { pts := [pt1] }] := by decide

end Ezc3d.C08
