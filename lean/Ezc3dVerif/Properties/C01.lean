import Ezc3dVerif.Proofs.Resave
/-
  C01 — build -> save -> load returns the same content.

  `load_write` is the end-to-end statement on the model: for EVERY object inside the stated domain (any
  number of groups, parameters of every type and shape, any frames), `C3D.load` applied to the bytes
  `C3D.write` produced returns `C3D.reloaded`. The remaining theorems say what `reloaded` is, clause by
  clause of the property: header counts / frame range / rate unchanged, groups and parameters with names
  upper-cased and type, dimensions, values, description and lock flag unchanged, every point and analog
  sample bit for bit. The domain (`LoadWriteHyps`) is decidable; the driver evaluates it on the states the
  correspondence check visits (`lwcheck`), and the example at the end exhibits a state inside it.
  Outside the domain (names that collide after upper-casing, content beyond the capacity limits of C17, a
  header that disagrees with the parameters, incomplete frames) the property rests on the correspondence
  check and the oracle; those regions contain the recorded findings.
-/
namespace Ezc3d.C01
open N

/-- BUILD -> SAVE -> LOAD on the model, every object of the domain -/
theorem load_write (F : FloatOps) (s : C3D) (b ps : Bytes) (pl al : List Bytes) (h : LoadWriteHyps F s b ps pl al) :
    C3D.load F b = .ok (s.reloaded ps.length pl al) := load_write_of_hyps F s b ps pl al h

/-- header counts, first/last frame, rate, events of the loaded object equal those of the saved one -/
theorem reloaded_header (s : C3D) (n : Nat) (pl al : List Bytes) :
    let h' := (s.reloaded n pl al).hdr
    h'.nbPoints = s.hdr.nbPoints ∧ h'.nbAnalogsMeas = s.hdr.nbAnalogsMeas ∧ h'.nbAnalogByFrame = s.hdr.nbAnalogByFrame ∧
    h'.firstFrame = s.hdr.firstFrame ∧ h'.lastFrame = s.hdr.lastFrame ∧ h'.rate = s.hdr.rate ∧
    h'.nbFrames = s.hdr.nbFrames ∧ h'.nbAnalogs = s.hdr.nbAnalogs ∧ h'.nbEvents = s.hdr.nbEvents ∧
    h'.evTimes = s.hdr.evTimes ∧ h'.evDisplay = s.hdr.evDisplay ∧ h'.evLabels = s.hdr.evLabels :=
  ⟨rfl, rfl, rfl, rfl, rfl, rfl, rfl, rfl, rfl, rfl, rfl, rfl⟩

/-- as many groups, in the same order, each with its name upper-cased, its description and its lock flag -/
theorem reloaded_groups (s : C3D) (n : Nat) (pl al : List Bytes) :
    (s.reloaded n pl al).groups.map (fun g => (g.name, g.desc, g.locked, g.params.length))
      = s.groups.map (fun g => (toUpper g.name, g.desc, g.locked, g.params.length)) := by
  unfold C3D.reloaded
  simp only [List.map_map]
  apply List.map_congr_left
  intro g _
  simp only [Function.comp, setDSg, Group.normG]
  by_cases hp : g.name = POINT <;> simp [hp]

/-- a parameter other than the blank one comes back with its name upper-cased and the same type, dimensions,
    description, lock flag and values -/
theorem reloaded_param (v : Int) (p : Param) (h : ¬ isDS p) :
    let q := (setDSp v p).norm
    q.name = toUpper p.name ∧ q.type = p.type ∧ q.dims = p.dims ∧ q.desc = p.desc ∧ q.locked = p.locked ∧
    (p.type = .int ∨ p.type = .byte → q.ints = p.ints) ∧ (p.type = .float → q.floats = p.floats) ∧ (p.type = .char → q.strs = p.strs) := by
  rw [setDSp_not v p h]
  refine ⟨rfl, rfl, rfl, rfl, rfl, ?_, ?_, ?_⟩
  · intro ht; unfold Param.norm; simp only; rcases ht with ht | ht <;> simp [ht]
  · intro ht; unfold Param.norm; simp [ht]
  · intro ht; unfold Param.norm; simp [ht]

/-- ... and the blank one (POINT:DATA_START) holds the block where the data start, its other fields unchanged -/
theorem reloaded_data_start (v : Int) (p : Param) (h : isDS p) :
    (setDSp v p).norm.ints = [v] ∧ (setDSp v p).norm.type = .int ∧ (setDSp v p).norm.dims = p.dims ∧ (setDSp v p).norm.name = toUpper p.name := by
  unfold setDSp Param.norm
  simp [h, h.2.1]

/-- every point keeps x, y, z and residual bit for bit, every analog sample its value, at the same
    (frame, position) and (frame, sub-frame, channel) -/
theorem reloaded_samples (s : C3D) (n : Nat) (pl al : List Bytes) :
    (s.reloaded n pl al).frames.map (fun f => (f.pts.map (fun p => (p.x, p.y, p.z, p.r)), f.subs.map (fun sf => sf.map (·.v))))
      = s.frames.map (fun f => (f.pts.map (fun p => (p.x, p.y, p.z, p.r)), f.subs.map (fun sf => sf.map (·.v)))) := by
  unfold C3D.reloaded
  simp only [List.map_map]
  apply List.map_congr_left
  intro f _
  simp only [Function.comp, relabelFrame, relabelPts_values, List.map_map]
  congr 1
  apply List.map_congr_left
  intro sf _
  simp only [Function.comp, relabelChs_values]

/-- when the stored names are the ones the loader derives from the label parameters, the frames come back identical -/
theorem reloaded_frames_identical (s : C3D) (n : Nat) (pl al : List Bytes)
    (hp : ∀ f ∈ s.frames, ∀ k (h : k < f.pts.length), f.pts[k].name = pointName pl (0 + k))
    (hc : ∀ f ∈ s.frames, ∀ sf ∈ f.subs, ∀ k (h : k < sf.length), sf[k].name = channelName al (0 + k)) :
    (s.reloaded n pl al).frames = s.frames := by
  unfold C3D.reloaded
  simp only
  rw [show s.frames.map (relabelFrame pl al) = s.frames.map id from List.map_congr_left (fun f hf => by
    unfold relabelFrame
    rw [relabelPts_id pl f.pts 0 (hp f hf)]
    have : f.subs.map (relabelChs al 0) = f.subs.map id := List.map_congr_left (fun sf hsf => relabelChs_id al sf 0 (hc f hf sf hsf))
    rw [this, List.map_id]; rfl), List.map_id]

/-- saving the loaded object again writes the very same bytes (so the loaded object is a fixed point of save -> load) -/
theorem resave_same_bytes (s : C3D) (n : Nat) (pl al : List Bytes) (hstart : s.ph.start = 1)
    (hst : ∀ g ∈ s.groups, GroupNameStable g) : (s.reloaded n pl al).write = s.write :=
  write_reloaded s n pl al hstart hst

theorem second_generation (F : FloatOps) (s : C3D) (b ps : Bytes) (pl al : List Bytes) (h : LoadWriteHyps F s b ps pl al)
    (hst : ∀ g ∈ s.groups, GroupNameStable g) :
    (s.reloaded ps.length pl al).write = .ok b ∧ C3D.load F b = .ok (s.reloaded ps.length pl al) :=
  ⟨by rw [resave_same_bytes s ps.length pl al h.2.2.2.1 hst]; exact h.2.1, load_write F s b ps pl al h⟩

/-! ### a state inside the domain (non-vacuity), checked by the kernel -/

/-- a float model good enough to exhibit a state (no theorem depends on it) -/
def F0 : FloatOps := { rateKey := fun b => b.toNat, truncNat := fun b => b.toNat, ratioNat := fun a b => a.toNat / (b.toNat + 1) }

/-- three groups (one locked, with a description), parameters of type int, float, char (table and single string) and byte
    (2 x 2, value -128), a locked parameter, two frames whose coordinates include -0, a NaN payload and a denormal -/
def s0 : C3D :=
  { hdr := { nbPoints := 1, firstFrame := 0, lastFrame := 1, rate := 0x42C80000 },
    groups :=
      [ { name := POINT, locked := true, desc := [100, 101],
          params := [ { name := USED, locked := true, type := .int, dims := [1], ints := [1] },
                      { name := RATE, type := .float, dims := [1], floats := [0x42C80000] },
                      { name := DATA_START, type := .int, dims := [1], ints := [0] },
                      { name := FRAMES, type := .int, dims := [1], ints := [2] },
                      { name := LABELS, type := .char, dims := [4, 1], strs := [[80, 49]], desc := [108] } ] },
        { name := ANALOG, params := [] },
        { name := [120, 121], params := [ { name := [97], type := .byte, dims := [2, 2], ints := [1, -2, 3, -128] },
                                           { name := [98], type := .char, dims := [3], strs := [[65, 66]] } ] } ],
    frames := [ { pts := [ { name := [80, 49], x := 0x3F800000, y := 0x80000000, z := 0x7FC00001, r := 0xBF800000 } ], subs := [] },
                { pts := [ { name := [80, 49], x := 1, y := 2, z := 3, r := 0 } ], subs := [] } ] }

def s0ps : Bytes := match writeParamSection s0.ph s0.groups 512 with | .ok ps => ps | _ => []
def s0b : Bytes := match s0.write with | .ok b => b | _ => []

set_option maxRecDepth 100000 in
theorem s0_in_domain : LoadWriteHyps F0 s0 s0b s0ps [[80, 49]] [] := by decide +kernel

example : C3D.load F0 s0b = .ok (s0.reloaded s0ps.length [[80, 49]] []) := load_write F0 s0 s0b s0ps _ _ s0_in_domain
example : s0b.length = 1056 ∧ s0ps.length = 512 := by decide +kernel

end Ezc3d.C01
