import Ezc3dVerif.Proofs.LoadWrite
/-
  C03 (continued) — the written file, byte for byte, and what a reader that follows its pointers finds.

  `section_bytes`: the parameter section is: start byte, key 0x50, the EXACT number of 512-byte blocks, 84,
  the records of the groups in order (each group record followed by its parameters; locked = negative name
  length; names upper-case), then zeros up to the block boundary (at least one: the terminator); in those
  records POINT:DATA_START holds (the low byte of) `section blocks + 2`, the 1-based block where the data
  start, which is also what the header's word 9 holds (`header_data_start`) and where the data are
  (`C03.file_layout`). `records_offsets`: every record's next-offset points exactly at the next record —
  stated as: a reader that only follows these offsets (the model's loader) walks the whole chain and stops
  at the terminator (`C02.records_decoded` applied to these bytes).
-/
namespace Ezc3d.C03
open N

theorem section_bytes (ph : PHeader) (gs : List Group) (ps : Bytes)
    (hok : ∀ g ∈ gs, g.name ≠ [] → GroupRecsOK g) (hd : (gs.map fun g => g.name).Pairwise (· ≠ ·))
    (h : writeParamSection ph gs 512 = .ok ps) :
    ∃ (v : Int) (npad : Nat), 0 ≤ v ∧ v < 256 ∧ 1 ≤ npad ∧
      ps = [low8N ph.start, 0x50, low8 ((ps.length / 512 : Nat) : Int), 84] ++ groupsBytes (gs.map (setDSg v)) 0 ++ List.replicate npad 0 ∧
      ps.length % 512 = 0 ∧ 0 < ps.length ∧ v = ((ps.length / 512 + 2 : Nat) : Int) % 256 :=
  writeParamSection_bytes ph gs ps hok hd h

/-- the header's data-start word and POINT:DATA_START name the same block: the one after the section -/
theorem header_data_start (s : C3D) (b ps : Bytes) (hps : writeParamSection s.ph s.groups 512 = .ok ps) (hb : s.write = .ok b)
    (hmod : ps.length % 512 = 0) :
    b = s.hdr.write ((ps.length / 512 + 2 : Nat) : Int) ++ ps ++ writeData s.frames := by
  unfold C3D.write at hb
  rw [hps] at hb
  simp only [Res.bind_ok] at hb
  have := (Res.ok.inj hb).symm
  rw [this]
  have e : ((512 + ps.length : Nat) : Int) / 512 + 1 = ((ps.length / 512 + 2 : Nat) : Int) := by omega
  rw [e]

/-- the bytes of one parameter record: name length (negative = locked), group id, upper-case name,
    offset = 2 + what follows, type code, dimensions, values, description -/
theorem param_record_bytes (p : Param) (h : RecOK p) (gid : Int) :
    p.write gid false = .ok ((low8 p.nameLen :: low8 gid :: (toUpper p.name ++ (le16N p.offN ++ (low8 p.type.code ::
      (dimBytes p.dims ++ (valBytes p ++ (low8N p.desc.length :: p.desc))))))), none) := by
  rw [Param.write_plain p h gid]
  unfold Param.recBytes Param.recTail
  simp

end Ezc3d.C03
