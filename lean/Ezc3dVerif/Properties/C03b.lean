import Ezc3dVerif.Proofs.LoadWrite
import Ezc3dVerif.Proofs.SpecRecords
import Ezc3dVerif.Proofs.SpecHeader
import Ezc3dVerif.Proofs.SpecFrames
import Ezc3dVerif.Properties.C01
/-
  C03 (continued) — the written file, byte for byte, and what a reader that follows its pointers finds.

  `section_bytes`: the parameter section is: start byte, key 0x50, the EXACT number of 512-byte blocks, 84,
  the records of the groups in order (each group record followed by its parameters; locked = negative name
  length; names upper-case), then zeros up to the block boundary (at least one: the terminator); in those
  records POINT:DATA_START holds (the low byte of) `section blocks + 2`, the 1-based block where the data
  start, which is also what the header's word 9 holds (`header_data_start`) and where the data are
  (`C03.file_layout`). `records_offsets`: every record's next-offset points exactly at the next record —
  stated as: a reader that only follows these offsets (the model's loader) walks the whole chain and stops
  at the terminator (`C02.records_decoded` applied to these bytes).
-/
namespace Ezc3d.C03
open N

theorem section_bytes (ph : PHeader) (gs : List Group) (ps : Bytes)
    (hok : ∀ g ∈ gs, g.name ≠ [] → GroupRecsOK g) (hd : (gs.map fun g => g.name).Pairwise (· ≠ ·))
    (h : writeParamSection ph gs 512 = .ok ps) :
    ∃ (v : Int) (npad : Nat), 0 ≤ v ∧ v < 256 ∧ 1 ≤ npad ∧
      ps = [low8N ph.start, 0x50, low8 ((ps.length / 512 : Nat) : Int), 84] ++ groupsBytes (gs.map (setDSg v)) 0 ++ List.replicate npad 0 ∧
      ps.length % 512 = 0 ∧ 0 < ps.length ∧ v = ((ps.length / 512 + 2 : Nat) : Int) % 256 :=
  writeParamSection_bytes ph gs ps hok hd h

/-- the header's data-start word and POINT:DATA_START name the same block: the one after the section -/
theorem header_data_start (s : C3D) (b ps : Bytes) (hps : writeParamSection s.ph s.groups 512 = .ok ps) (hb : s.write = .ok b)
    (hmod : ps.length % 512 = 0) :
    b = s.hdr.write ((ps.length / 512 + 2 : Nat) : Int) ++ ps ++ writeData s.frames := by
  unfold C3D.write at hb
  rw [hps] at hb
  simp only [Res.bind_ok] at hb
  have := (Res.ok.inj hb).symm
  rw [this]
  have e : ((512 + ps.length : Nat) : Int) / 512 + 1 = ((ps.length / 512 + 2 : Nat) : Int) := by omega
  rw [e]

/-- the bytes of one parameter record: name length (negative = locked), group id, upper-case name,
    offset = 2 + what follows, type code, dimensions, values, description -/
theorem param_record_bytes (p : Param) (h : RecOK p) (gid : Int) :
    p.write gid false = .ok ((low8 p.nameLen :: low8 gid :: (toUpper p.name ++ (le16N p.offN ++ (low8 p.type.code ::
      (dimBytes p.dims ++ (valBytes p ++ (low8N p.desc.length :: p.desc))))))), none) := by
  rw [Param.write_plain p h gid]
  unfold Param.recBytes Param.recTail
  simp

/-- THE INDEPENDENT DECODER ON THE WRITTEN SECTION: `Spec.decodeRecords` (Spec/Format.lean: positional access only, every
    record's own offset checked against where the record really ends) started after the prologue of a section
    the writer produced walks every record, finds exactly the groups (id, upper-case name, lock, description) and the
    parameters (group id, upper-case name, lock, dimensions as stored, values of the stored type, description) that
    memory holds — POINT:DATA_START holding the block after the section — and stops at the terminator -/
theorem spec_records (ph : PHeader) (gs : List Group) (ps pre post : Bytes)
    (hok : ∀ g ∈ gs, g.name ≠ [] → GroupRecsOK g) (hd : (gs.map fun g => g.name).Pairwise (· ≠ ·)) (hlen : gs.length ≤ 127)
    (h : writeParamSection ph gs 512 = .ok ps) :
    ∃ (v : Int) (k : Nat), 0 ≤ v ∧ v < 256 ∧ v = ((ps.length / 512 + 2 : Nat) : Int) % 256 ∧ k ≤ ps.length ∧
      Spec.decodeRecords (pre ++ (ps ++ post)) ((pre ++ (ps ++ post)).length + 1) (pre.length + 4) {}
        = some { groups := specGroupsOf (gs.map (setDSg v)) 0, params := specParamsOf (gs.map (setDSg v)) 0,
                 terminated := true, endPos := pre.length + k } := by
  obtain ⟨v, npad, hv1, hv2, hnp, hpsb, _, _, hveq⟩ := writeParamSection_bytes ph gs ps hok hd h
  have hgs' : ∀ g ∈ gs.map (setDSg v), g.name ≠ [] → GroupRecsOK g := by
    intro g hg _
    simp only [List.mem_map] at hg
    obtain ⟨g0, hg0, rfl⟩ := hg
    by_cases hn : g0.name = []
    · have : g0.name ≠ POINT := by rw [hn]; decide
      rw [setDSg_not v g0 this] at *
      rename_i hne; exact absurd hn hne
    · exact setDSg_ok v hv1 hv2 g0 (hok g0 hg0 hn)
  generalize hgb : groupsBytes (gs.map (setDSg v)) 0 = gb at hpsb
  refine ⟨v, 4 + gb.length + 1, hv1, hv2, hveq, ?_, ?_⟩
  · rw [hpsb]; simp only [List.length_append, List.length_cons, List.length_nil, List.length_replicate]; omega
  · have hpad : List.replicate npad (0 : UInt8) = 0 :: List.replicate (npad - 1) 0 := by
      cases npad with
      | zero => omega
      | succ n => simp [List.replicate_succ]
    have hb : pre ++ (ps ++ post) = (pre ++ [low8N ph.start, 0x50, low8 ((ps.length / 512 : Nat) : Int), 84]) ++ (gb ++ (0 :: (List.replicate (npad - 1) 0 ++ post))) := by
      conv => lhs; rw [hpsb, hpad]
      simp
    generalize hbb : pre ++ (ps ++ post) = b at hb ⊢
    have hpl : pre.length + 4 = (pre ++ [low8N ph.start, 0x50, low8 ((ps.length / 512 : Nat) : Int), 84]).length := by simp
    have hcount := recCount_le (gs.map (setDSg v)) 0
    rw [hgb] at hcount
    have hblen : gb.length + 1 ≤ b.length := by rw [hb]; simp only [List.length_append, List.length_cons]; omega
    have h1 : recCount (gs.map (setDSg v)) + 1 ≤ b.length := by omega
    obtain ⟨f0, hf0⟩ := Nat.exists_eq_add_of_le h1
    have hfuel : b.length + 1 = ((f0 + 1) + 1) + recCount (gs.map (setDSg v)) := by omega
    rw [hfuel, hpl]
    rw [decodeRecords_groupList (gs.map (setDSg v)) _ 0 b _ (0 :: (List.replicate (npad - 1) 0 ++ post)) {} (by simpa using hlen) hgs' (by rw [hgb]; exact hb)]
    rw [hgb]
    have hb2 : b = ((pre ++ [low8N ph.start, 0x50, low8 ((ps.length / 512 : Nat) : Int), 84]) ++ gb) ++ (0 :: (List.replicate (npad - 1) 0 ++ post)) := by
      rw [hb]; simp
    have hl2 : (pre ++ [low8N ph.start, 0x50, low8 ((ps.length / 512 : Nat) : Int), 84]).length + gb.length
        = ((pre ++ [low8N ph.start, 0x50, low8 ((ps.length / 512 : Nat) : Int), 84]) ++ gb).length := by simp; omega
    rw [hl2, decodeRecords_end _ b _ _ _ hb2]
    simp only [List.length_append, List.length_cons, List.length_nil, List.nil_append]
    congr 2
    omega

theorem listAt4 (H : Bytes) (a b c d : UInt8) (rest : Bytes) :
    Spec.listAt Spec.byteAt (H ++ (a :: b :: c :: d :: rest)) H.length 1 4 = some [a.toNat, b.toNat, c.toNat, d.toNat] := by
  simp only [Spec.listAt]
  have a0 := byteAt_shift H (a :: b :: c :: d :: rest)
  have h0 := a0 0
  have h1 := a0 1
  have h2 := a0 2
  have h3 := a0 3
  rw [Nat.add_zero] at h0
  rw [h0, h1, show H.length + 1 + 1 = H.length + 2 by omega, h2, show H.length + 2 + 1 = H.length + 3 by omega, h3]
  rfl

/-- what an independent reader of the format must find in the file `write` produced -/
def specContent (s : C3D) (psLen k : Nat) : Spec.Content :=
  let v : Int := ((psLen / 512 + 2 : Nat) : Int) % 256
  { leadingZeros := 0, header := specHeader s.hdr (psLen / 512 + 2),
    prologue := [(low8N s.ph.start).toNat, 0x50, (low8 ((psLen / 512 : Nat) : Int)).toNat, 84],
    groups := specGroupsOf (s.groups.map (setDSg v)) 0, params := specParamsOf (s.groups.map (setDSg v)) 0,
    terminated := true, paramEnd := 512 + k, frames := s.frames.map specFrame, dataBytesLeft := 0 }

/-- SAVED FILES DECODE, WITH AN INDEPENDENT READER THAT FOLLOWS ONLY THE FILE'S OWN POINTERS, TO THE CONTENT HELD IN MEMORY.
    `Spec.decode` (Spec/Format.lean) finds the header at byte 0, goes to the block the header's first byte names, walks the
    record chain by the records' own offsets (each checked against where the record really ends) down to the terminator,
    goes to the block the header's data-start word names and takes `last − first + 1` frames of
    `4 × points + channels × sub-frames` words. On the bytes `write` produced it returns: the header counts of memory
    (first/last frame 1-based), the groups and parameters of memory in order (names upper-case, lock, type, dimensions, values,
    description; POINT:DATA_START = the block after the section), every frame bit for bit, and NOTHING is left after the
    last frame. Domain: content within the format's capacity (`HdrOK`, `GroupRecsOK`), distinct group names, the header
    counting the stored frames, frames of the announced shape, at least one point or channel (without any, the header's
    frame range is the recorded finding). The float-format marker is not consulted (`assumeFloat`): see `float_marker_finding`. -/
theorem spec_decode_write (s : C3D) (b ps : Bytes)
    (hps : writeParamSection s.ph s.groups 512 = .ok ps) (hb : s.write = .ok b)
    (hhdr : HdrOK s.hdr)
    (hgok : ∀ g ∈ s.groups, g.name ≠ [] → GroupRecsOK g)
    (hgd : (s.groups.map fun g => g.name).Pairwise (· ≠ ·)) (hglen : s.groups.length ≤ 127)
    (hblocks : ps.length / 512 + 2 < 65536)
    (hne : ¬ (s.hdr.nbPoints = 0 ∧ s.hdr.nbAnalogs = 0))
    (hnf : s.hdr.nbFrames = s.frames.length) (hnfs : s.frames.length ≤ 65536)
    (hshape : ∀ f ∈ s.frames, f.hasShape s.hdr.nbPoints s.hdr.nbAnalogByFrame s.hdr.nbAnalogs) :
    ∃ k, k ≤ ps.length ∧ Spec.decode b true = some (specContent s ps.length k) := by
  obtain ⟨v, npad, hv1, hv2, hnp, hpsb, hmod, hpos, hveq⟩ := writeParamSection_bytes s.ph s.groups ps hgok hgd hps
  have hbe := header_data_start s b ps hps hb hmod
  generalize hH : s.hdr.write ((ps.length / 512 + 2 : Nat) : Int) = H at hbe
  have hHlen : H.length = 512 := by rw [← hH]; exact header_length s.hdr _ ⟨hhdr.times, hhdr.displen, hhdr.lablen⟩
  obtain ⟨v', k, _, _, hv'eq, hk, hrec⟩ := spec_records s.ph s.groups ps H (writeData s.frames) hgok hgd hglen hps
  have hvv : v' = ((ps.length / 512 + 2 : Nat) : Int) % 256 := hv'eq
  subst hvv
  refine ⟨k, hk, ?_⟩
  have hb2 : b = H ++ (ps ++ writeData s.frames) := by rw [hbe]; simp
  rw [← hb2, hHlen] at hrec
  -- header
  have hbR : b = s.hdr.bytesR (ps.length / 512 + 2) (ps ++ writeData s.frames) := by
    rw [← Header.write_bytesR s.hdr _ _ hhdr, hH, hb2]
  have hdh := decodeHeader_written s.hdr (ps.length / 512 + 2) (ps ++ writeData s.frames) hhdr hblocks
  rw [← hbR] at hdh
  have hz : Spec.countZeros b = 0 := by
    rw [hbR]; unfold Header.bytesR
    exact countZeros_cons_ne _ _ (by decide)
  -- prologue
  have hpro : Spec.listAt Spec.byteAt b 512 1 4 = some [(low8N s.ph.start).toNat, 0x50, (low8 ((ps.length / 512 : Nat) : Int)).toNat, 84] := by
    have e : b = H ++ (low8N s.ph.start :: 0x50 :: low8 ((ps.length / 512 : Nat) : Int) :: 84 ::
        (groupsBytes (s.groups.map (setDSg v)) 0 ++ List.replicate npad 0 ++ writeData s.frames)) := by
      rw [hb2]; conv => lhs; rw [hpsb]
      simp
    rw [e]
    have := listAt4 H (low8N s.ph.start) 0x50 (low8 ((ps.length / 512 : Nat) : Int)) 84
      (groupsBytes (s.groups.map (setDSg v)) 0 ++ List.replicate npad 0 ++ writeData s.frames)
    rw [hHlen] at this
    exact this
  -- data
  have hdrop : b.drop (512 + ps.length) = writeData s.frames := by
    have : 512 + ps.length = (H ++ ps).length := by simp [hHlen]
    rw [this, hbe, List.drop_left]
  have hfr := decodeFrames_written s.hdr.nbPoints s.hdr.nbAnalogByFrame s.hdr.nbAnalogs s.frames [] hshape
  rw [List.append_nil] at hfr
  have hN := spec_nframes s.hdr s.frames.length hhdr hne hnf hnfs
  unfold Spec.decode
  simp only [hz, hdh]
  have e2 : (specHeader s.hdr (ps.length / 512 + 2)).paramBlock = 2 := rfl
  have e3 : (specHeader s.hdr (ps.length / 512 + 2)).dataStart = ps.length / 512 + 2 := rfl
  have e4 : (specHeader s.hdr (ps.length / 512 + 2)).firstFrame = u64 (s.hdr.firstFrame + 1) := rfl
  have e5 : (specHeader s.hdr (ps.length / 512 + 2)).lastFrame = u64 (s.hdr.lastFrame + 1) := rfl
  have e6 : (specHeader s.hdr (ps.length / 512 + 2)).subframes = s.hdr.nbAnalogByFrame := rfl
  have e7 : (specHeader s.hdr (ps.length / 512 + 2)).analogPerFrame = s.hdr.nbAnalogsMeas := rfl
  have e8 : (specHeader s.hdr (ps.length / 512 + 2)).nPoints = s.hdr.nbPoints := rfl
  rw [e2, e3, e4, e5, e6, e7, e8]
  have hp512 : 0 + 512 * (2 - 1) = 512 := by omega
  have hd512 : 0 + 512 * (ps.length / 512 + 2 - 1) = 512 + ps.length := by omega
  rw [hp512, hd512, hpro]
  simp only [if_neg (show ¬ (2 = 0) by omega)]
  rw [hrec]
  simp only [Bool.or_true, not_true_eq_false, if_false, if_neg (show ¬ (ps.length / 512 + 2 = 0) by omega)]
  rw [hN, hdrop]
  have hnch : (if s.hdr.nbAnalogByFrame = 0 then 0 else s.hdr.nbAnalogsMeas / s.hdr.nbAnalogByFrame) = s.hdr.nbAnalogs := rfl
  rw [hnch, hfr]
  rfl

/-- the hypotheses of `spec_decode_write` as one decidable proposition: the driver evaluates it on every saving state of
    the C03 lanes (op `sdcheck`), `decide` exhibits a state inside it -/
def SpecDecodeHyps (s : C3D) (b ps : Bytes) : Prop :=
  writeParamSection s.ph s.groups 512 = .ok ps ∧ s.write = .ok b ∧ HdrOK s.hdr ∧
  (∀ g ∈ s.groups, g.name ≠ [] → GroupRecsOK g) ∧ (s.groups.map fun g => g.name).Pairwise (· ≠ ·) ∧ s.groups.length ≤ 127 ∧
  ps.length / 512 + 2 < 65536 ∧ ¬ (s.hdr.nbPoints = 0 ∧ s.hdr.nbAnalogs = 0) ∧
  s.hdr.nbFrames = s.frames.length ∧ s.frames.length ≤ 65536 ∧
  (∀ f ∈ s.frames, f.hasShape s.hdr.nbPoints s.hdr.nbAnalogByFrame s.hdr.nbAnalogs)

instance (s : C3D) (b ps : Bytes) : Decidable (SpecDecodeHyps s b ps) := by unfold SpecDecodeHyps; infer_instance

theorem spec_decode_of_hyps (s : C3D) (b ps : Bytes) (h : SpecDecodeHyps s b ps) :
    ∃ k, k ≤ ps.length ∧ Spec.decode b true = some (specContent s ps.length k) := by
  obtain ⟨h1, h2, h3, h4, h5, h6, h7, h8, h9, h10, h11⟩ := h
  exact spec_decode_write s b ps h1 h2 h3 h4 h5 h6 h7 h8 h9 h10 h11

set_option maxRecDepth 100000 in
/-- non-vacuity: the state of `C01.s0` (three groups, every parameter type, two frames) is inside the domain -/
theorem s0_in_spec_domain : SpecDecodeHyps C01.s0 C01.s0b C01.s0ps := by decide +kernel

example : ∃ k, k ≤ C01.s0ps.length ∧ Spec.decode C01.s0b true = some (specContent C01.s0 C01.s0ps.length k) :=
  spec_decode_of_hyps _ _ _ s0_in_spec_domain

/-- the recorded finding C03 `float_marker`, as a theorem about the writer: an object built through the API keeps
    scale = −1 as an INTEGER, so words 7–8 are FF FF FF FF, which read as the float the format prescribes is a NaN, not
    a negative number: a reader that tests the marker does not take the data for floating point -/
theorem float_marker_finding : Spec.isNegF (scaleBits C3D.init.hdr.scale) = false := by decide

end Ezc3d.C03
