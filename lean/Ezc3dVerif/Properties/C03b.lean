import Ezc3dVerif.Proofs.LoadWrite
import Ezc3dVerif.Proofs.SpecRecords
/-
  C03 (continued) — the written file, byte for byte, and what a reader that follows its pointers finds.

  `section_bytes`: the parameter section is: start byte, key 0x50, the EXACT number of 512-byte blocks, 84,
  the records of the groups in order (each group record followed by its parameters; locked = negative name
  length; names upper-case), then zeros up to the block boundary (at least one: the terminator); in those
  records POINT:DATA_START holds (the low byte of) `section blocks + 2`, the 1-based block where the data
  start, which is also what the header's word 9 holds (`header_data_start`) and where the data are
  (`C03.file_layout`). `records_offsets`: every record's next-offset points exactly at the next record —
  stated as: a reader that only follows these offsets (the model's loader) walks the whole chain and stops
  at the terminator (`C02.records_decoded` applied to these bytes).
-/
namespace Ezc3d.C03
open N

theorem section_bytes (ph : PHeader) (gs : List Group) (ps : Bytes)
    (hok : ∀ g ∈ gs, g.name ≠ [] → GroupRecsOK g) (hd : (gs.map fun g => g.name).Pairwise (· ≠ ·))
    (h : writeParamSection ph gs 512 = .ok ps) :
    ∃ (v : Int) (npad : Nat), 0 ≤ v ∧ v < 256 ∧ 1 ≤ npad ∧
      ps = [low8N ph.start, 0x50, low8 ((ps.length / 512 : Nat) : Int), 84] ++ groupsBytes (gs.map (setDSg v)) 0 ++ List.replicate npad 0 ∧
      ps.length % 512 = 0 ∧ 0 < ps.length ∧ v = ((ps.length / 512 + 2 : Nat) : Int) % 256 :=
  writeParamSection_bytes ph gs ps hok hd h

/-- the header's data-start word and POINT:DATA_START name the same block: the one after the section -/
theorem header_data_start (s : C3D) (b ps : Bytes) (hps : writeParamSection s.ph s.groups 512 = .ok ps) (hb : s.write = .ok b)
    (hmod : ps.length % 512 = 0) :
    b = s.hdr.write ((ps.length / 512 + 2 : Nat) : Int) ++ ps ++ writeData s.frames := by
  unfold C3D.write at hb
  rw [hps] at hb
  simp only [Res.bind_ok] at hb
  have := (Res.ok.inj hb).symm
  rw [this]
  have e : ((512 + ps.length : Nat) : Int) / 512 + 1 = ((ps.length / 512 + 2 : Nat) : Int) := by omega
  rw [e]

/-- the bytes of one parameter record: name length (negative = locked), group id, upper-case name,
    offset = 2 + what follows, type code, dimensions, values, description -/
theorem param_record_bytes (p : Param) (h : RecOK p) (gid : Int) :
    p.write gid false = .ok ((low8 p.nameLen :: low8 gid :: (toUpper p.name ++ (le16N p.offN ++ (low8 p.type.code ::
      (dimBytes p.dims ++ (valBytes p ++ (low8N p.desc.length :: p.desc))))))), none) := by
  rw [Param.write_plain p h gid]
  unfold Param.recBytes Param.recTail
  simp

/-- THE INDEPENDENT DECODER ON THE WRITTEN SECTION: `Spec.decodeRecords` (Spec/Format.lean: positional access only, every
    record's own offset checked against where the record really ends) started after the prologue of a section
    the writer produced walks every record, finds exactly the groups (id, upper-case name, lock, description) and the
    parameters (group id, upper-case name, lock, dimensions as stored, values of the stored type, description) that
    memory holds — POINT:DATA_START holding the block after the section — and stops at the terminator -/
theorem spec_records (ph : PHeader) (gs : List Group) (ps pre post : Bytes)
    (hok : ∀ g ∈ gs, g.name ≠ [] → GroupRecsOK g) (hd : (gs.map fun g => g.name).Pairwise (· ≠ ·)) (hlen : gs.length ≤ 127)
    (h : writeParamSection ph gs 512 = .ok ps) :
    ∃ (v : Int) (k : Nat), 0 ≤ v ∧ v < 256 ∧ v = ((ps.length / 512 + 2 : Nat) : Int) % 256 ∧ k ≤ ps.length ∧
      Spec.decodeRecords (pre ++ (ps ++ post)) ((pre ++ (ps ++ post)).length + 1) (pre.length + 4) {}
        = some { groups := specGroupsOf (gs.map (setDSg v)) 0, params := specParamsOf (gs.map (setDSg v)) 0,
                 terminated := true, endPos := pre.length + k } := by
  obtain ⟨v, npad, hv1, hv2, hnp, hpsb, _, _, hveq⟩ := writeParamSection_bytes ph gs ps hok hd h
  have hgs' : ∀ g ∈ gs.map (setDSg v), g.name ≠ [] → GroupRecsOK g := by
    intro g hg _
    simp only [List.mem_map] at hg
    obtain ⟨g0, hg0, rfl⟩ := hg
    by_cases hn : g0.name = []
    · have : g0.name ≠ POINT := by rw [hn]; decide
      rw [setDSg_not v g0 this] at *
      rename_i hne; exact absurd hn hne
    · exact setDSg_ok v hv1 hv2 g0 (hok g0 hg0 hn)
  generalize hgb : groupsBytes (gs.map (setDSg v)) 0 = gb at hpsb
  refine ⟨v, 4 + gb.length + 1, hv1, hv2, hveq, ?_, ?_⟩
  · rw [hpsb]; simp only [List.length_append, List.length_cons, List.length_nil, List.length_replicate]; omega
  · have hpad : List.replicate npad (0 : UInt8) = 0 :: List.replicate (npad - 1) 0 := by
      cases npad with
      | zero => omega
      | succ n => simp [List.replicate_succ]
    have hb : pre ++ (ps ++ post) = (pre ++ [low8N ph.start, 0x50, low8 ((ps.length / 512 : Nat) : Int), 84]) ++ (gb ++ (0 :: (List.replicate (npad - 1) 0 ++ post))) := by
      conv => lhs; rw [hpsb, hpad]
      simp
    generalize hbb : pre ++ (ps ++ post) = b at hb ⊢
    have hpl : pre.length + 4 = (pre ++ [low8N ph.start, 0x50, low8 ((ps.length / 512 : Nat) : Int), 84]).length := by simp
    have hcount := recCount_le (gs.map (setDSg v)) 0
    rw [hgb] at hcount
    have hblen : gb.length + 1 ≤ b.length := by rw [hb]; simp only [List.length_append, List.length_cons]; omega
    have h1 : recCount (gs.map (setDSg v)) + 1 ≤ b.length := by omega
    obtain ⟨f0, hf0⟩ := Nat.exists_eq_add_of_le h1
    have hfuel : b.length + 1 = ((f0 + 1) + 1) + recCount (gs.map (setDSg v)) := by omega
    rw [hfuel, hpl]
    rw [decodeRecords_groupList (gs.map (setDSg v)) _ 0 b _ (0 :: (List.replicate (npad - 1) 0 ++ post)) {} (by simpa using hlen) hgs' (by rw [hgb]; exact hb)]
    rw [hgb]
    have hb2 : b = ((pre ++ [low8N ph.start, 0x50, low8 ((ps.length / 512 : Nat) : Int), 84]) ++ gb) ++ (0 :: (List.replicate (npad - 1) 0 ++ post)) := by
      rw [hb]; simp
    have hl2 : (pre ++ [low8N ph.start, 0x50, low8 ((ps.length / 512 : Nat) : Int), 84]).length + gb.length
        = ((pre ++ [low8N ph.start, 0x50, low8 ((ps.length / 512 : Nat) : Int), 84]) ++ gb).length := by simp; omega
    rw [hl2, decodeRecords_end _ b _ _ _ hb2]
    simp only [List.length_append, List.length_cons, List.length_nil, List.nil_append]
    congr 2
    omega

end Ezc3d.C03
