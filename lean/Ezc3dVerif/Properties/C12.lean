import Ezc3dVerif.Model.Codec
/-
  C12 — every integer and float bit pattern is decoded and encoded exactly.
  The code assembles integers by `ret |= byte * (int)pow(0x100, i)` and turns them signed with a
  half-range test; these theorems say that this IS little-endian two's complement (resp. unsigned),
  for every one- and two-byte input (all 2^8 / 2^16 values at once, by the OR-is-add argument, not by
  enumeration), that the writers' "low n bytes" are the inverse, and that floats are transported
  bit for bit.
-/
namespace Ezc3d.C12

theorem wrapU32_small (n : Nat) (h : n < 4294967296) : wrapU32 (n : Int) = n := by
  unfold wrapU32 two32; omega

theorem powTerm_0 : powTerm 0 = 1 := by decide
theorem powTerm_1 : powTerm 1 = 256 := by decide

/-- OR of a byte with a value shifted past it is their sum (the arithmetic behind `ret |= ...`) -/
theorem or_shift (x y : Nat) (hx : x < 256) : x ||| y * 256 = x + y * 256 := by
  have hx8 : x < 2 ^ 8 := by
    have : (2:Nat) ^ 8 = 256 := by decide
    rw [this]; exact hx
  have h := Nat.shiftLeft_add_eq_or_of_lt hx8 y
  have e : y <<< 8 = y * 256 := by
    rw [Nat.shiftLeft_eq]
  rw [e] at h
  rw [Nat.or_comm, ← h]
  exact Nat.add_comm _ _

/-- one byte, unsigned -/
theorem hex2uint_1 (b : UInt8) : hex2uint [b] = b.toNat := by
  have hb : b.toNat < 256 := UInt8.toNat_lt b
  simp only [hex2uint, hex2uintAux, powTerm_0, Int.mul_one, Nat.zero_or]
  exact wrapU32_small _ (by omega)

/-- two bytes, unsigned little endian: all 65536 inputs -/
theorem hex2uint_2 (a b : UInt8) : hex2uint [a, b] = a.toNat + 256 * b.toNat := by
  have ha : a.toNat < 256 := UInt8.toNat_lt a
  have hb : b.toNat < 256 := UInt8.toNat_lt b
  simp only [hex2uint, hex2uintAux, powTerm_0, powTerm_1, Int.mul_one, Nat.zero_or, Nat.zero_add]
  have h1 : wrapU32 (a.toNat : Int) = a.toNat := wrapU32_small _ (by omega)
  have h2 : wrapU32 ((b.toNat : Int) * 256) = b.toNat * 256 := by
    unfold wrapU32 two32; omega
  rw [h1, h2, or_shift _ _ ha]
  omega

/-- one byte, signed: two's complement -/
theorem hex2int_1 (b : UInt8) :
    hex2int [b] = if b.toNat < 128 then (b.toNat : Int) else (b.toNat : Int) - 256 := by
  have hb : b.toNat < 256 := UInt8.toNat_lt b
  unfold hex2int
  rw [hex2uint_1]
  simp only [List.length_singleton, hexMax]
  unfold u64ToI32 two32 two31
  simp only [show (1:Nat) ≠ 0 from by decide, if_false, if_true]
  split <;> split <;> split <;> omega

/-- two bytes, signed: little-endian two's complement, all 65536 inputs -/
theorem hex2int_2 (a b : UInt8) :
    hex2int [a, b] = if a.toNat + 256 * b.toNat < 32768 then ((a.toNat + 256 * b.toNat : Nat) : Int)
                     else ((a.toNat + 256 * b.toNat : Nat) : Int) - 65536 := by
  have ha : a.toNat < 256 := UInt8.toNat_lt a
  have hb : b.toNat < 256 := UInt8.toNat_lt b
  unfold hex2int
  rw [hex2uint_2]
  simp only [List.length_cons, List.length_nil, hexMax]
  unfold u64ToI32 two32 two31
  simp only [show (0 + 1 + 1 : Nat) ≠ 0 from by decide, show (0 + 1 + 1 : Nat) ≠ 1 from by decide, if_false, if_true]
  split <;> split <;> split <;> omega

/-! ### the writers are inverse to the readers -/

theorem ofNat_toNat (n : Nat) (h : n < 256) : (UInt8.ofNat n).toNat = n := by
  simp [UInt8.toNat_ofNat']; omega

/-- an unsigned 16-bit header word / count survives write then read -/
theorem le16N_read (n : Nat) (h : n < 65536) : hex2uint (le16N n) = n := by
  unfold le16N le16
  have h1 : ((n : Int) % 256).toNat = n % 256 := by omega
  have h2 : (((n : Int) / 256) % 256).toNat = n / 256 := by omega
  rw [h1, h2, hex2uint_2, ofNat_toNat _ (by omega), ofNat_toNat _ (by omega)]
  omega

/-- a byte count / dimension / length survives write then read -/
theorem low8N_read (n : Nat) (h : n < 256) : hex2uint [low8N n] = n := by
  unfold low8N low8
  have h1 : ((n : Int) % 256).toNat = n := by omega
  rw [h1, hex2uint_1, ofNat_toNat _ h]

/-- every 16-bit integer value of an integer parameter survives write then read -/
theorem le16_read (v : Int) (h1 : -32768 ≤ v) (h2 : v < 32768) : hex2int (le16 v) = v := by
  unfold le16
  have hlo : (v % 256).toNat < 256 := by omega
  have hhi : ((v / 256) % 256).toNat < 256 := by omega
  rw [hex2int_2, ofNat_toNat _ hlo, ofNat_toNat _ hhi]
  split <;> omega

/-- every 8-bit value of a byte parameter survives write then read -/
theorem low8_read (v : Int) (h1 : -128 ≤ v) (h2 : v < 128) : hex2int [low8 v] = v := by
  unfold low8
  have hlo : (v % 256).toNat < 256 := by omega
  rw [hex2int_1, ofNat_toNat _ hlo]
  split <;> omega

/-- an integer outside the 16-bit range does NOT survive (the capacity limit of C17 is sharp) -/
theorem le16_read_fails : hex2int (le16 32768) ≠ 32768 := by decide

/-- floats: the four bytes written are the four bytes of the pattern, and reading gives it back —
    for every one of the 2^32 patterns (negative zero, denormals, infinities, NaN payloads included) -/
theorem f32_roundtrip (v : UInt32) : f32OfBytes (f32le v) = v := by
  unfold f32OfBytes f32le
  have hv : v.toNat < 4294967296 := UInt32.toNat_lt v
  simp only [List.getD_cons_zero, List.getD_cons_succ]
  rw [ofNat_toNat _ (by omega), ofNat_toNat _ (by omega), ofNat_toNat _ (by omega), ofNat_toNat _ (by omega)]
  have : v.toNat % 256 + 256 * (v.toNat / 256 % 256) + 65536 * (v.toNat / 65536 % 256) + 16777216 * (v.toNat / 16777216 % 256) = v.toNat := by omega
  rw [this]
  simp

theorem f32le_length (v : UInt32) : (f32le v).length = 4 := rfl
theorem le16_length (v : Int) : (le16 v).length = 2 := rfl

/-- non-vacuity / boundary witnesses -/
example : hex2int [0xFF, 0x7F] = 32767 ∧ hex2int [0x00, 0x80] = -32768 ∧ hex2int [0xFF, 0xFF] = -1 := by decide
example : hex2int [0x80] = -128 ∧ hex2uint [0x80] = 128 ∧ hex2uint [0xFF, 0xFF] = 65535 := by decide
example : f32OfBytes (f32le 0x80000000) = 0x80000000 ∧ f32OfBytes (f32le 0x7FC00001) = 0x7FC00001 := by decide

end Ezc3d.C12
