import Ezc3dVerif.Proofs.Updaters
/-
  C10 — a refused call leaves the object unchanged.
  In the model a throwing call returns `Outcome.throw e left`, where `left` is the state the object
  is in when the exception escapes; the theorems say `left = s`.  Hypothesis `Mand s.groups`: the
  mandatory POINT/ANALOG parameters are present with their types (true of every new or loaded-and-
  reconciled object, and preserved by every call below — see `step_preserves_Mand`).
-/
namespace Ezc3d.C10
open N

/-- "if this outcome is a throw, the state left behind is `s`" -/
def Unch (s : C3D) (o : Outcome C3D) : Prop := ∀ e l, o = .throw e l → l = s

theorem unch_throw (s : C3D) (e : Exc) : Unch s (.throw e s) := by
  intro e' l h; cases h; rfl
theorem unch_ok (s x : C3D) : Unch s (.ok x) := by intro e l h; cases h
theorem unch_ub (s : C3D) (k : UBKind) : Unch s (.ub k) := by intro e l h; cases h
theorem unch_andThen {α} (s : C3D) (r : Res α) (k : α → Outcome C3D) (h : ∀ a, Unch s (k a)) :
    Unch s (r.andThen s k) := by
  cases r with
  | ok a => simpa using h a
  | throw e => exact unch_throw s e
  | ub u => exact unch_ub s u
theorem unch_ite (s : C3D) (c : Prop) [Decidable c] (a b : Outcome C3D) (ha : Unch s a) (hb : Unch s b) :
    Unch s (if c then a else b) := by split <;> assumption
theorem unch_of_ok (s : C3D) (o : Outcome C3D) (h : ∃ x, o = .ok x) : Unch s o := by
  obtain ⟨x, rfl⟩ := h; exact unch_ok s x

/-- the updater run after a mutation does not throw when the mandatory parameters are in place, so
    nothing can escape after the point of no return -/
theorem unch_updateParameters (F : FloatOps) (s s1 : C3D) (hM : Mand s1.groups) :
    Unch s (updateParameters F s1 [] []) := by
  apply unch_of_ok
  obtain ⟨g, hd, h, _⟩ := updateParameters_ok_of_Mand F hM [] [] (by simp)
  exact ⟨_, h⟩

/-- refused frame: wrong point count, missing label, zero rate, wrong channel count, points out of
    order, index beyond what a vector can hold — the object is as before -/
theorem frame_refused_unchanged (F : FloatOps) (s : C3D) (f : Frame) (idx : Nat) (hM : Mand s.groups)
    (e : Exc) (l : C3D) (h : s.frame F f idx = .throw e l) : l = s := by
  have : Unch s (s.frame F f idx) := by
    unfold C3D.frame
    apply unch_andThen; intro used
    apply unch_ite; exact unch_throw _ _
    apply unch_andThen; intro labels
    apply unch_ite; exact unch_throw _ _
    apply unch_andThen; intro pz
    apply unch_ite; exact unch_throw _ _
    apply unch_andThen; intro az
    apply unch_ite; exact unch_throw _ _
    apply unch_andThen; intro aused
    apply unch_ite; exact unch_throw _ _
    apply unch_ite; exact unch_throw _ _
    apply unch_andThen; intro fr
    exact unch_updateParameters F s _ hM
  exact this e l h

/-- refused point column(s): wrong number of frames, nothing supplied, a name that already exists
    (in any position), a frame lacking one of the new points -/
theorem pointCols_refused_unchanged (F : FloatOps) (s : C3D) (frames : List Frame) (hM : Mand s.groups)
    (e : Exc) (l : C3D) (h : s.pointCols F frames = .throw e l) : l = s := by
  have : Unch s (s.pointCols F frames) := by
    unfold C3D.pointCols
    apply unch_ite; exact unch_throw _ _
    split
    · exact unch_throw _ _
    · apply unch_ite; exact unch_throw _ _
      apply unch_andThen; intro labels
      split
      · exact unch_throw _ _
      · exact unch_updateParameters F s _ hM
  exact this e l h

/-- refused channel column(s): wrong number of frames or sub-frames, nothing supplied, existing name,
    a (sub-)frame lacking one of the new channels, a stored frame lacking a sub-frame -/
theorem analogCols_refused_unchanged (F : FloatOps) (s : C3D) (frames : List Frame) (hM : Mand s.groups)
    (e : Exc) (l : C3D) (h : s.analogCols F frames = .throw e l) : l = s := by
  have : Unch s (s.analogCols F frames) := by
    unfold C3D.analogCols
    apply unch_ite; exact unch_throw _ _
    split
    · exact unch_throw _ _
    · apply unch_ite; exact unch_throw _ _
      split
      · exact unch_throw _ _
      · apply unch_ite; exact unch_throw _ _
        apply unch_andThen; intro labels
        dsimp only
        split
        · exact unch_throw _ _
        · exact unch_updateParameters F s _ hM
  exact this e l h

/-- declaring a point by name: with data it is a point column; without data the parameters are
    regenerated, which cannot throw -/
theorem point_refused_unchanged (F : FloatOps) (s : C3D) (name : Bytes) (hM : Mand s.groups)
    (e : Exc) (l : C3D) (h : s.point F name = .throw e l) : l = s := by
  unfold C3D.point at h
  split at h
  · exact pointCols_refused_unchanged F s _ hM e l h
  · rename_i hlen
    obtain ⟨g, hd, hok, _⟩ := updateParameters_ok_of_Mand F hM [(Point.setName {} name).name] [] (by intro hc; exact hlen (by omega))
    rw [hok] at h; cases h

theorem analog_refused_unchanged (F : FloatOps) (s : C3D) (name : Bytes) (hM : Mand s.groups)
    (e : Exc) (l : C3D) (h : s.analog F name = .throw e l) : l = s := by
  unfold C3D.analog at h
  split at h
  · exact analogCols_refused_unchanged F s _ hM e l h
  · rename_i hlen
    obtain ⟨g, hd, hok, _⟩ := updateParameters_ok_of_Mand F hM [] [(Channel.setName {} name).name] (by intro hc; exact hlen (by omega))
    rw [hok] at h; cases h

/-- unknown group to lock / unlock -/
theorem setGroupLock_refused_unchanged (s : C3D) (name : Bytes) (v : Bool) (e : Exc) (l : C3D)
    (h : s.setGroupLock name v = .throw e l) : l = s := by
  unfold C3D.setGroupLock at h
  rcases Res.andThen_throw_iff.mp h with ⟨_, rfl⟩ | ⟨_, _, h⟩
  · rfl
  · cases h

/-- unnamed or untyped parameter: refused before anything (even the group) is created.
    A typed, named parameter is stored; the call can then only throw from the header update, and it
    does not when the parameter tree after the edit still has its mandatory parameters. -/
theorem parameter_refused_unchanged (F : FloatOps) (s : C3D) (g : Bytes) (p : Param)
    (hAfter : ∀ gs', insertParam s.groups g p = .ok gs' → Mand gs')
    (e : Exc) (l : C3D) (h : s.parameter F g p = .throw e l) : l = s := by
  unfold C3D.parameter at h
  split at h; · cases h; rfl
  split at h; · cases h; rfl
  rcases Res.andThen_throw_iff.mp h with ⟨_, rfl⟩ | ⟨gs', hgs, h⟩
  · rfl
  · obtain ⟨hd, hok⟩ := updateHeader_ok_of_Mand F (s := { s with groups := gs' }) (hAfter gs' hgs)
    rw [hok] at h; cases h

/-- the excluded region is real: replacing POINT:USED by a float parameter is accepted by the tree
    edit, then the header update throws and the replacement stays (recorded as a known finding) -/
def F0 : FloatOps := { rateKey := fun _ => 0, truncNat := fun _ => 0, ratioNat := fun _ _ => 0 }
theorem parameter_partial_state_witness :
    ∃ e l, C3D.init.parameter F0 POINT { name := USED, type := .float, floats := [0] } = .throw e l ∧ l ≠ C3D.init := by
  refine ⟨.invalid_argument, _, rfl, ?_⟩
  decide

/-- all public mutators at once -/
theorem step_refused_unchanged (F : FloatOps) (s : C3D) (op : Op) (hM : Mand s.groups)
    (hP : ∀ g p, op = .parameter g p → ∀ gs', insertParam s.groups g p = .ok gs' → Mand gs')
    (e : Exc) (l : C3D) (h : step F s op = .throw e l) : l = s := by
  cases op with
  | parameter g p => exact parameter_refused_unchanged F s g p (hP g p rfl) e l h
  | lockGroup g => exact setGroupLock_refused_unchanged s g true e l h
  | unlockGroup g => exact setGroupLock_refused_unchanged s g false e l h
  | frame f idx => exact frame_refused_unchanged F s f idx hM e l h
  | point n => exact point_refused_unchanged F s n hM e l h
  | pointCols fs => exact pointCols_refused_unchanged F s fs hM e l h
  | analog n => exact analog_refused_unchanged F s n hM e l h
  | analogCols fs => exact analogCols_refused_unchanged F s fs hM e l h

end Ezc3d.C10
