import Ezc3dVerif.Properties.C09
import Ezc3dVerif.Proofs.InsertLookup
/-
  C09 (continued) — at the level of the whole object: after a successful `c3d::parameter(group, p)` looking (group, p.name) up
  returns `p`, and EVERY other (group, name) pair resolves to the parameter it resolved to before (or fails as before); frames
  are untouched.
-/
namespace Ezc3d.C09
open N

theorem insertInto_self (gs1 gs' : List Group) (g : Bytes) (p : Param)
    (h : ((groupIdx gs1 g).bind fun gi => (atIdx gs1 gi).bind fun grp => (grp.addParam p).bind fun grp' => .ok (gs1.set gi grp')) = .ok gs') :
    getParam gs' g p.name = .ok p := by
  obtain ⟨gi, hgi, h⟩ := Res.bind_ok_iff.mp h
  obtain ⟨grp, hgrp, h⟩ := Res.bind_ok_iff.mp h
  obtain ⟨grp', hadd, h⟩ := Res.bind_ok_iff.mp h
  cases h
  have hgrp? : gs1[gi]? = some grp := by
    unfold atIdx at hgrp; split at hgrp
    · rename_i a ha; cases hgrp; exact ha
    · cases hgrp
  have hlt : gi < gs1.length := by
    rcases Nat.lt_or_ge gi gs1.length with h1 | h1
    · exact h1
    · rw [List.getElem?_eq_none h1] at hgrp?; cases hgrp?
  obtain ⟨hfound, hname, _, _⟩ := addParam_lookup grp grp' p hadd
  unfold getParam byName nameIdx
  have hpred : (fun a : Group => a.name == g) grp' = (fun a : Group => a.name == g) grp := by simp only [hname]
  rw [findIdx?_set_samepred gs1 gi grp' grp _ hgrp? hpred]
  have : gs1.findIdx? (fun a => a.name == g) = some gi := by
    unfold groupIdx nameIdx at hgi
    split at hgi
    · rename_i i hi; cases hgi; exact hi
    · cases hgi
  rw [this]
  simp only [Res.bind_ok]
  unfold atIdx
  rw [List.getElem?_set_self hlt]
  simp only [Res.bind_ok]
  unfold byName nameIdx atIdx at hfound
  exact hfound

/-- the stored parameter is found under its own (group, name) -/
theorem getParam_insertParam_self (gs gs' : List Group) (g : Bytes) (p : Param) (h : insertParam gs g p = .ok gs') :
    getParam gs' g p.name = .ok p := by
  unfold insertParam at h
  cases hgi : groupIdx gs g with
  | ok a => rw [hgi] at h; exact insertInto_self gs gs' g p h
  | throw e => rw [hgi] at h; exact insertInto_self _ gs' g p h
  | ub k => rw [hgi] at h; exact insertInto_self _ gs' g p h

/-- ADDING A PARAMETER CHANGES EXACTLY WHAT WAS ASKED, seen through the object's look-ups: the parameter is found under its
    name with everything it was given; every other (group, name) look-up gives what it gave before; no frame changes -/
theorem parameter_changes_exactly (F : FloatOps) (s s' : C3D) (g : Bytes) (p : Param) (h : s.parameter F g p = .ok s') :
    getParam s'.groups g p.name = .ok p ∧
    (∀ g1 p1, ¬ (g1 = g ∧ p1 = p.name) → getParam s'.groups g1 p1 = getParam s.groups g1 p1) ∧
    s'.frames = s.frames := by
  unfold C3D.parameter at h
  split at h; · cases h
  split at h; · cases h
  obtain ⟨gs', hins, h⟩ := Res.andThen_ok_iff.mp h
  obtain ⟨hd, rfl⟩ := updateHeader_ok h
  exact ⟨getParam_insertParam_self s.groups gs' g p hins, fun g1 p1 hne => getParam_insertParam_other s.groups gs' g p g1 p1 hins hne, rfl⟩

end Ezc3d.C09
