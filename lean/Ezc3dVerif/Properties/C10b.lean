import Ezc3dVerif.Properties.C10
import Ezc3dVerif.Proofs.Post
/-
  C10 / C07 (continued) — what can make the POINT half of `c3d::updateParameters` refuse. After fix `46ad8c1` the look-ups that
  can throw are those of POINT:FRAMES, POINT:USED and POINT:LABELS (the parameters the library's own guards read); the optional
  text parameters DESCRIPTIONS and UNITS never refuse: an object loaded from a file without them accepts a new point. Stated
  WITHOUT the `Mand` invariant (which would assume the optional parameters present).
-/
namespace Ezc3d.C10
open N

/-- THE POINT UPDATER SUCCEEDS WHENEVER FRAMES, USED AND LABELS ARE IN PLACE — whether or not the group holds DESCRIPTIONS / UNITS -/
theorem updatePointParams_needs_no_optional_text (gs : List Group) (frames : List Frame) (np : List Bytes)
    (gP iF iU iL : Nat) (fr u : Int) (ol : List Bytes)
    (h1 : gpIdx gs POINT FRAMES = .ok (gP, iF)) (h2 : int0 gs POINT FRAMES = .ok fr)
    (h3 : strsOf gs POINT LABELS = .ok ol) (h4 : int0 gs POINT USED = .ok u)
    (h5 : gpIdx gs POINT USED = .ok (gP, iU)) (h6 : gpIdx gs POINT LABELS = .ok (gP, iL)) :
    ∃ g', updatePointParams gs frames np = .ok g' := by
  unfold updatePointParams
  simp only [h1, h2, Res.andThen_ok]
  generalize hg1 : (if frames.length ≠ intToU64 fr then modParam gs gP iF (·.setInts! [u64ToI32 frames.length]) else gs) = g1
  have hO1 : ∀ g p, ¬ (g = POINT ∧ p = FRAMES) → getParam g1 g p = getParam gs g p := by
    intro g p hne; rw [← hg1]; split
    · exact getParam_modParam_ne gs POINT FRAMES gP iF _ (setInts!_name _) h1 g p hne
    · rfl
  have hI1 : ∀ g p, gpIdx g1 g p = gpIdx gs g p := by
    intro g p; rw [← hg1]; split
    · exact gpIdx_modParam _ _ _ _ (setInts!_name _) _ _
    · rfl
  have hL1 : strsOf g1 POINT LABELS = .ok ol := by rw [strsOf_congr (hO1 POINT LABELS (by decide))]; exact h3
  have hU1 : int0 g1 POINT USED = .ok u := by rw [int0_congr (hO1 POINT USED (by decide))]; exact h4
  rw [labelsFor_eq hL1 frames]
  simp only [Res.andThen_ok, hU1, pointNames_lazy]
  split
  · rw [hI1, h5]
    simp only [Res.andThen_ok]
    rw [gpIdx_modParam _ _ _ _ (setInts!_name _), hI1, h6]
    exact ⟨_, rfl⟩
  · exact ⟨_, rfl⟩

/-- non-vacuity: a POINT group holding ONLY the three parameters (no DESCRIPTIONS, no UNITS) takes a first declared point -/
def bare : List Group :=
  [{ name := POINT, params := [{ name := USED, type := .int, dims := [1], ints := [0] }, { name := FRAMES, type := .int, dims := [1], ints := [0] },
                               { name := LABELS, type := .char, dims := [0, 0] }] }]

example : ∃ g', updatePointParams bare [] [[78, 69, 87]] = .ok g' :=
  updatePointParams_needs_no_optional_text bare [] [[78, 69, 87]] 0 1 0 2 0 0 [] (by decide) (by decide) (by decide) (by decide) (by decide) (by decide)

example : (match updatePointParams bare [] [[78, 69, 87]] with | .ok g => strsOf g POINT LABELS | _ => .throw .runtime_error) = .ok [[78, 69, 87]] := by decide

/-! ### the recorded finding `KF-C10-empty-analog-group`, as a witness on the model

  The statement of C10 is FALSE of the unchanged library on objects whose ANALOG group holds no parameter: the negation is
  proved here with a concrete object (and replayed on the library by `corpus/C10/kf-empty-analog-group.script`). The theorems
  `step_refused_unchanged` (under `Mand`, which such an object does not satisfy) stay the part of C10 that holds. -/

def optotrakLike : C3D :=
  { C3D.init with groups :=
      [{ name := POINT, params := [{ name := USED, type := .int, dims := [1], ints := [0] }, { name := FRAMES, type := .int, dims := [1], ints := [0] },
                                   { name := LABELS, type := .char, dims := [0, 0] }] },
       { name := ANALOG, params := [] }] }

/-- `c3d::point("NEW")` is refused (ANALOG:LABELS not found) AFTER the POINT block has rewritten USED and LABELS -/
theorem point_on_empty_analog_group_witness :
    ∃ e l, optotrakLike.point F0 [78, 69, 87] = .throw e l ∧ l ≠ optotrakLike ∧ int0 l.groups POINT USED = .ok 1 := by
  refine ⟨.invalid_argument, _, rfl, ?_, ?_⟩ <;> decide

end Ezc3d.C10
