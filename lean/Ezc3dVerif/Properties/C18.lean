import Ezc3dVerif.Model.Api
/-
  C18 — independent objects can be used from different threads (the part that is logic).
  The model's state is per object and `step` reads nothing else. Hence for two objects operated on by
  two threads, EVERY interleaving of their operation sequences gives each object exactly the outcomes
  and final state of its own sequential run.  The hypothesis "the library has no shared mutable state"
  is what makes the per-object model adequate; the check discharges it on every run by scanning the
  symbols of the objects compiled from the current tree, and ThreadSanitizer runs look for what a
  model cannot show.
-/
namespace Ezc3d.C18

/-- state after an outcome: a refused call leaves the state it left -/
def after (s : C3D) : Outcome C3D → C3D
  | .ok s' => s'
  | .throw _ l => l
  | .ub _ => s

/-- sequential run: outcomes observed and final state -/
def run (F : FloatOps) (s : C3D) : List Op → List (Outcome C3D) × C3D
  | [] => ([], s)
  | op :: rest =>
    let o := step F s op
    let (os, s') := run F (after s o) rest
    (o :: os, s')

/-- a schedule: which thread performs its next operation -/
inductive Who | A | B
  deriving DecidableEq

/-- run a schedule over the pair of objects; a thread whose operations are exhausted does nothing -/
def runSched (F : FloatOps) : C3D → C3D → List Op → List Op → List Who →
    (List (Outcome C3D) × C3D) × (List (Outcome C3D) × C3D)
  | sA, sB, _, _, [] => (([], sA), ([], sB))
  | sA, sB, opsA, opsB, .A :: sched =>
    match opsA with
    | [] => runSched F sA sB [] opsB sched
    | op :: restA =>
      let o := step F sA op
      let ((osA, fA), rB) := runSched F (after sA o) sB restA opsB sched
      ((o :: osA, fA), rB)
  | sA, sB, opsA, opsB, .B :: sched =>
    match opsB with
    | [] => runSched F sA sB opsA [] sched
    | op :: restB =>
      let o := step F sB op
      let (rA, (osB, fB)) := runSched F sA (after sB o) opsA restB sched
      (rA, (o :: osB, fB))

/-- the schedule lets each thread perform all its operations -/
def Complete : List Op → List Op → List Who → Prop
  | [], [], _ => True
  | _ :: _, _, [] => False
  | [], _ :: _, [] => False
  | opsA, opsB, .A :: sched => match opsA with
    | [] => Complete [] opsB sched
    | _ :: restA => Complete restA opsB sched
  | opsA, opsB, .B :: sched => match opsB with
    | [] => Complete opsA [] sched
    | _ :: restB => Complete opsA restB sched

/-- every interleaving: each thread observes exactly the outcomes, and its object ends in exactly the
    state, of its own sequential run -/
theorem interleaving_independent (F : FloatOps) :
    ∀ (sched : List Who) (sA sB : C3D) (opsA opsB : List Op), Complete opsA opsB sched →
      runSched F sA sB opsA opsB sched = (run F sA opsA, run F sB opsB) := by
  intro sched
  induction sched with
  | nil =>
    intro sA sB opsA opsB hc
    cases opsA with
    | nil =>
      cases opsB with
      | nil => simp [runSched, run]
      | cons b t => simp [Complete] at hc
    | cons a t => simp [Complete] at hc
  | cons w sched ih =>
    intro sA sB opsA opsB hc
    cases w with
    | A =>
      cases opsA with
      | nil =>
        have hc' : Complete [] opsB sched := by
          cases opsB <;> simp [Complete] at hc ⊢ <;> exact hc
        simp only [runSched]
        rw [ih sA sB [] opsB hc']
      | cons op restA =>
        have hc' : Complete restA opsB sched := by simpa [Complete] using hc
        simp only [runSched, run]
        rw [ih (after sA (step F sA op)) sB restA opsB hc']
    | B =>
      cases opsB with
      | nil =>
        have hc' : Complete opsA [] sched := by
          cases opsA <;> simp [Complete] at hc ⊢ <;> exact hc
        simp only [runSched]
        rw [ih sA sB opsA [] hc']
      | cons op restB =>
        have hc' : Complete opsA restB sched := by
          cases opsA <;> simp [Complete] at hc ⊢ <;> exact hc
        simp only [runSched, run]
        rw [ih sA (after sB (step F sB op)) opsA restB hc']

/-- in particular two different schedules agree with each other -/
theorem schedules_agree (F : FloatOps) (s1 s2 : List Who) (sA sB : C3D) (opsA opsB : List Op)
    (h1 : Complete opsA opsB s1) (h2 : Complete opsA opsB s2) :
    runSched F sA sB opsA opsB s1 = runSched F sA sB opsA opsB s2 := by
  rw [interleaving_independent F s1 sA sB opsA opsB h1, interleaving_independent F s2 sA sB opsA opsB h2]

/-- non-vacuity: a complete schedule of a 2+1 operation history -/
example : Complete [.point [97], .lockGroup N.POINT] [.analog [98]] [.A, .B, .A] := by simp [Complete]

end Ezc3d.C18
