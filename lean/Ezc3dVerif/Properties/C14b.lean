import Ezc3dVerif.Properties.C14
/-
  C14 (continued) — every byte of a saved file is determined by the OBSERVABLE content of the object. A C++ `Parameter` keeps
  three value vectors side by side (integers, floats, strings); only the one its type selects is observable through the API, the
  other two may hold anything a previous `set` left behind. The writer never looks at them: two objects whose parameters agree
  on name, description, lock flag, type, dimensions and the SELECTED vector produce the same bytes.
-/
namespace Ezc3d.C14
open N

/-- two lists related element by element -/
inductive All2 {α β : Type} (R : α → β → Prop) : List α → List β → Prop
  | nil : All2 R [] []
  | cons {a b l m} : R a b → All2 R l m → All2 R (a :: l) (b :: m)

/-- same observable content -/
def Param.Same (p q : Param) : Prop :=
  p.name = q.name ∧ p.desc = q.desc ∧ p.locked = q.locked ∧ p.type = q.type ∧ p.dims = q.dims ∧
  (match p.type with
   | .char => p.strs = q.strs
   | .byte | .int => p.ints = q.ints
   | .float => p.floats = q.floats
   | .none => True)

theorem writeValues_same (p q : Param) (h : Param.Same p q) (count : Nat) : p.writeValues count = q.writeValues count := by
  obtain ⟨_, _, _, ht, hd, hv⟩ := h
  unfold Param.writeValues
  rw [← ht, ← hd]
  cases hpt : p.type <;> rw [hpt] at hv <;> simp only at hv ⊢ <;> first | rw [hv] | rfl

theorem writeData_same (p q : Param) (h : Param.Same p q) (ip : Bool) : p.writeData ip = q.writeData ip := by
  have hw := writeValues_same p q h
  obtain ⟨hn, _, _, ht, hd, hv⟩ := h
  unfold Param.writeData
  rw [← ht, ← hd, ← hn, hw, hw]
  cases hpt : p.type with
  | char => rw [hpt] at hv; simp only at hv; rw [hv]
  | _ => rfl

/-- ONE RECORD depends on the observable content only -/
theorem Param.write_same (p q : Param) (h : Param.Same p q) (gid : Int) (ip : Bool) : p.write gid ip = q.write gid ip := by
  have hw := writeData_same p q h ip
  obtain ⟨hn, hde, hl, ht, hd, _⟩ := h
  unfold Param.write
  rw [hw, ← hn, ← hde, ← hl, ← ht, ← hd]

def Group.Same (g k : Group) : Prop :=
  g.name = k.name ∧ g.desc = k.desc ∧ g.locked = k.locked ∧ All2 Param.Same g.params k.params

theorem writeParamList_same (gid : Int) (ip : Bool) (ps qs : List Param) (h : All2 Param.Same ps qs) :
    writeParamList gid ip ps = writeParamList gid ip qs := by
  induction h with
  | nil => rfl
  | cons hpq _ ih => simp only [writeParamList, Param.write_same _ _ hpq, ih]

theorem Group.write_same (g k : Group) (h : Group.Same g k) (i : Nat) : g.write i = k.write i := by
  obtain ⟨hn, hd, hl, hp⟩ := h
  unfold Group.write
  rw [writeParamList_same _ _ _ _ hp, ← hn, ← hd, ← hl]

theorem writeGroupList_same (gs ks : List Group) (h : All2 Group.Same gs ks) : ∀ i, writeGroupList gs i = writeGroupList ks i := by
  induction h with
  | nil => intro i; rfl
  | cons hgk _ ih =>
    intro i
    simp only [writeGroupList, Group.write_same _ _ hgk, ih, hgk.1]

/-- EVERY BYTE OF A SAVED FILE IS DETERMINED BY THE OBSERVABLE CONTENT: objects with the same header, prologue start byte and
    frames whose groups and parameters have the same observable content save to the same bytes — whatever the unselected value
    vectors of their parameters hold -/
theorem save_depends_on_observable_content (s t : C3D) (hh : s.hdr = t.hdr) (hp : s.ph.start = t.ph.start) (hf : s.frames = t.frames)
    (hg : All2 Group.Same s.groups t.groups) : s.write = t.write := by
  unfold C3D.write writeParamSection
  rw [writeGroupList_same _ _ hg 0, hh, hp, hf]

/-- non-vacuity: a float parameter that still carries the integers and strings of earlier `set` calls saves like a clean one -/
example : ({ groups := [{ name := POINT, params := [{ name := RATE, type := .float, dims := [1], floats := [0x42C80000], ints := [1, 2, 3], strs := [[65]] }] }] } : C3D).write
    = ({ groups := [{ name := POINT, params := [{ name := RATE, type := .float, dims := [1], floats := [0x42C80000] }] }] } : C3D).write :=
  save_depends_on_observable_content _ _ rfl rfl rfl
    (All2.cons ⟨rfl, rfl, rfl, All2.cons ⟨rfl, rfl, rfl, rfl, rfl, rfl⟩ All2.nil⟩ All2.nil)

end Ezc3d.C14
