import Ezc3dVerif.Proofs.Heap
import Ezc3dVerif.Model.Containers
/-
  C08 — stored data is independent of the caller's objects and of other frames.
  The value model cannot even state this (values do not alias). It is stated here one level down, on
  `Model/Heap.lean`, where a `Frame` is a pair of shared handles as in the C++:
    * `Sep` (no cell shared between two stored frames, or a stored and a caller's frame) holds initially and
      is kept by every operation of the object and of the caller — for every history;
    * under `Sep` the values the object stores (`view`) do not move when the caller edits, copies or reuses
      its frames, an in-place edit of stored frame `i` moves `view[i]` only, and a column operation adds its
      point/channel exactly once to every frame;
    * under `Sep` the heap operations compute exactly what the value model (`dataFrame`, the `zipWith`s of
      `pointCols`/`analogCols`) computes — so the correspondence runs against the value model (with `cmut`,
      `smut`, reused and re-handed frames) are runs against this layer too;
    * without the clone (`frameAppendShared`, the code before fix 05c84b3) `Sep` fails and a caller's edit
      changes what the object stores: concrete witness.
-/
namespace Ezc3d.C08
open Ezc3d.Heap

/-! ### clone -/

theorem clone_sep {h : Heap} (s : Sep h) (src : HFrame) : Sep (h.clone src).1 := s.grow _ _
theorem clone_view {h : Heap} (s : Sep h) (src : HFrame) : (h.clone src).1.view = h.view := view_grow s _ _
theorem clone_stored (h : Heap) (src : HFrame) : (h.clone src).1.stored = h.stored := rfl
theorem clone_vars (h : Heap) (src : HFrame) : (h.clone src).1.vars = h.vars := rfl
/-- the clone denotes the value of its source, whatever the source shares with -/
theorem clone_deref (h : Heap) (src : HFrame) : (h.clone src).1.deref (h.clone src).2 = h.deref src := by
  simp [Heap.clone, Heap.deref, Heap.derefP, Heap.derefA, getD_append_len]

/-! ### the caller's operations keep `Sep` and never move what the object stores -/

theorem callerMk_sep {h : Heap} (s : Sep h) (v : Frame) : Sep (h.callerMk v) := by
  have g := s.grow v.pts v.subs
  refine ⟨g.nodupP, g.nodupA, g.allocS, ?_, ?_, ?_⟩
  · intro f hf
    simp [Heap.callerMk] at hf
    rcases hf with hf | rfl
    · exact g.allocV f hf
    · simp [Heap.callerMk]
  · intro f hf k hk
    simp [Heap.callerMk] at hf hk
    rcases hf with hf | rfl
    · exact s.apartP f hf k hk
    · have := (s.allocS k hk).1; simp; omega
  · intro f hf k hk
    simp [Heap.callerMk] at hf hk
    rcases hf with hf | rfl
    · exact s.apartA f hf k hk
    · have := (s.allocS k hk).2; simp; omega
theorem callerMk_view {h : Heap} (s : Sep h) (v : Frame) : (h.callerMk v).view = h.view := view_grow s _ _

theorem callerCopy_sep {h : Heap} (s : Sep h) (v : Nat) : Sep (h.callerCopy v) := by
  unfold Heap.callerCopy
  cases e : h.vars[v]? with
  | none => exact s
  | some f =>
    have hm : f ∈ h.vars := List.mem_of_getElem? e
    refine ⟨s.nodupP, s.nodupA, s.allocS, ?_, ?_, ?_⟩
    · intro x hx; simp at hx; rcases hx with hx | rfl
      · exact s.allocV x hx
      · exact s.allocV x hm
    · intro x hx; simp at hx; rcases hx with hx | rfl
      · exact s.apartP x hx
      · exact s.apartP x hm
    · intro x hx; simp at hx; rcases hx with hx | rfl
      · exact s.apartA x hx
      · exact s.apartA x hm
theorem callerCopy_view (h : Heap) (v : Nat) : (h.callerCopy v).view = h.view := by
  unfold Heap.callerCopy; cases h.vars[v]? <;> rfl

/-- an in-place change of cell `a` of the point store -/
theorem setP_sep {h : Heap} (s : Sep h) (a : Nat) (x : List Point) : Sep { h with P := h.P.set a x } :=
  ⟨s.nodupP, s.nodupA, by simpa using s.allocS, by simpa using s.allocV, s.apartP, s.apartA⟩
theorem setA_sep {h : Heap} (s : Sep h) (a : Nat) (x : List SubFrame) : Sep { h with A := h.A.set a x } :=
  ⟨s.nodupP, s.nodupA, by simpa using s.allocS, by simpa using s.allocV, s.apartP, s.apartA⟩

theorem callerMutP_sep {h : Heap} (s : Sep h) (v : Nat) (g) : Sep (h.callerMutP v g) := by
  unfold Heap.callerMutP; cases h.vars[v]? with
  | none => exact s
  | some f => exact setP_sep s _ _
theorem callerMutA_sep {h : Heap} (s : Sep h) (v : Nat) (g) : Sep (h.callerMutA v g) := by
  unfold Heap.callerMutA; cases h.vars[v]? with
  | none => exact s
  | some f => exact setA_sep s _ _

/-- THE CALLER CANNOT REACH STORED DATA: whatever the caller does to the points of any of its frame objects
    (including one it has handed over, any number of times), the object stores what it stored -/
theorem callerMutP_view {h : Heap} (s : Sep h) (v : Nat) (g) : (h.callerMutP v g).view = h.view := by
  unfold Heap.callerMutP
  cases e : h.vars[v]? with
  | none => rfl
  | some f =>
    have hm : f ∈ h.vars := List.mem_of_getElem? e
    unfold Heap.view
    apply List.map_congr_left
    intro k hk
    have := s.apartP f hm k hk
    simp only [Heap.deref, Heap.derefP, Heap.derefA]
    rw [getD_set_ne _ _ _ _ _ this]
theorem callerMutA_view {h : Heap} (s : Sep h) (v : Nat) (g) : (h.callerMutA v g).view = h.view := by
  unfold Heap.callerMutA
  cases e : h.vars[v]? with
  | none => rfl
  | some f =>
    have hm : f ∈ h.vars := List.mem_of_getElem? e
    unfold Heap.view
    apply List.map_congr_left
    intro k hk
    have := s.apartA f hm k hk
    simp only [Heap.deref, Heap.derefP, Heap.derefA]
    rw [getD_set_ne _ _ _ _ _ this]

/-! ### appending a frame -/

theorem fresh_ne_stored {h : Heap} (s : Sep h) : ∀ g ∈ h.stored, h.P.length ≠ g.pts ∧ h.A.length ≠ g.subs := by
  intro g hg; have := s.allocS g hg; omega
theorem vars_ne_fresh {h : Heap} (s : Sep h) : ∀ f ∈ h.vars, f.pts ≠ h.P.length ∧ f.subs ≠ h.A.length := by
  intro g hg; have := s.allocV g hg; omega

theorem frameAppend_sep {h : Heap} (s : Sep h) (src : HFrame) : Sep (h.frameAppend src) := by
  unfold Heap.frameAppend
  have g := clone_sep s src
  refine Sep.push g _ ?_ ?_ ?_ ?_ ?_
  · simp [Heap.clone]
  · intro k hk; exact (fresh_ne_stored s k hk).1
  · intro k hk; exact (fresh_ne_stored s k hk).2
  · intro k hk; exact (vars_ne_fresh s k hk).1
  · intro k hk; exact (vars_ne_fresh s k hk).2

/-- the object stores one more frame: the VALUE the handed frame had at the call — exactly the value
    model's `frames ++ [f]` -/
theorem frameAppend_view {h : Heap} (s : Sep h) (src : HFrame) :
    (h.frameAppend src).view = h.view ++ [h.deref src] := by
  have e1 := clone_view s src
  have e2 := clone_deref h src
  unfold Heap.frameAppend
  unfold Heap.view at *
  simp only [List.map_append, List.map_cons, List.map_nil]
  change List.map (h.clone src).1.deref (h.clone src).1.stored ++ [(h.clone src).1.deref (h.clone src).2] = _
  rw [e1, e2]

/-! ### in-place edits of a stored frame reach that frame only -/

theorem storedMutP_sep {h : Heap} (s : Sep h) (i : Nat) (g) : Sep (h.storedMutP i g) := by
  unfold Heap.storedMutP; cases h.stored[i]? with
  | none => exact s
  | some f => exact setP_sep s _ _
theorem storedMutA_sep {h : Heap} (s : Sep h) (i : Nat) (g) : Sep (h.storedMutA i g) := by
  unfold Heap.storedMutA; cases h.stored[i]? with
  | none => exact s
  | some f => exact setA_sep s _ _

theorem nodup_idx {l : List Nat} (hn : l.Nodup) {i j : Nat} (hi : i < l.length) (hj : j < l.length)
    (e : l[i] = l[j]) : i = j :=
  (List.getElem?_inj hi hn).mp (by rw [List.getElem?_eq_getElem hi, List.getElem?_eq_getElem hj, e])

theorem storedMutP_view {h : Heap} (s : Sep h) (i : Nat) (g : List Point → List Point) :
    (h.storedMutP i g).view = h.view.modify i (fun f => { f with pts := g f.pts }) := by
  unfold Heap.storedMutP
  cases e : h.stored[i]? with
  | none =>
    have : h.stored.length ≤ i := by simpa using e
    simp only []
    rw [List.modify_eq_self]
    simpa [Heap.view] using this
  | some f =>
    obtain ⟨hi, ef⟩ := List.getElem?_eq_some_iff.mp e
    apply List.ext_getElem?
    intro j
    simp only [Heap.view, List.getElem?_modify, List.getElem?_map]
    cases ej : h.stored[j]? with
    | none => simp
    | some k =>
      obtain ⟨hj, ek⟩ := List.getElem?_eq_some_iff.mp ej
      simp only [Option.map_some, Heap.deref, Heap.derefP, Heap.derefA]
      by_cases hij : i = j
      · subst hij
        have : k = f := by rw [← ek, ← ef]
        subst this
        have hk := (s.allocS k (List.mem_of_getElem? e)).1
        simp [hk]
      · have hne : f.pts ≠ k.pts := by
          intro e'
          apply hij
          have := nodup_idx s.nodupP (i := i) (j := j) (by simpa using hi) (by simpa using hj) (by simpa [ef, ek] using e')
          exact this
        simp [hij, List.getElem?_set, hne]

theorem storedMutA_view {h : Heap} (s : Sep h) (i : Nat) (g : List SubFrame → List SubFrame) :
    (h.storedMutA i g).view = h.view.modify i (fun f => { f with subs := g f.subs }) := by
  unfold Heap.storedMutA
  cases e : h.stored[i]? with
  | none =>
    have : h.stored.length ≤ i := by simpa using e
    simp only []
    rw [List.modify_eq_self]
    simpa [Heap.view] using this
  | some f =>
    obtain ⟨hi, ef⟩ := List.getElem?_eq_some_iff.mp e
    apply List.ext_getElem?
    intro j
    simp only [Heap.view, List.getElem?_modify, List.getElem?_map]
    cases ej : h.stored[j]? with
    | none => simp
    | some k =>
      obtain ⟨hj, ek⟩ := List.getElem?_eq_some_iff.mp ej
      simp only [Option.map_some, Heap.deref, Heap.derefP, Heap.derefA]
      by_cases hij : i = j
      · subst hij
        have : k = f := by rw [← ek, ← ef]
        subst this
        have hk := (s.allocS k (List.mem_of_getElem? e)).2
        simp [hk]
      · have hne : f.subs ≠ k.subs := by
          intro e'
          apply hij
          have := nodup_idx s.nodupA (i := i) (j := j) (by simpa using hi) (by simpa using hj) (by simpa [ef, ek] using e')
          exact this
        simp [hij, List.getElem?_set, hne]

/-- AN EDIT OF STORED FRAME `i` REACHES FRAME `i` ONLY — in particular two stored frames that came from
    the same caller object can be edited independently -/
theorem storedMut_view {h : Heap} (s : Sep h) (i : Nat) (gp ga) :
    (h.storedMut i gp ga).view = h.view.modify i (fun f => { pts := gp f.pts, subs := ga f.subs }) := by
  unfold Heap.storedMut
  rw [storedMutA_view (storedMutP_sep s i gp), storedMutP_view s]
  apply List.ext_getElem?
  intro j
  simp only [List.getElem?_modify]
  by_cases hij : i = j <;> simp [hij] <;> cases h.view[j]? <;> simp
theorem storedMut_sep {h : Heap} (s : Sep h) (i : Nat) (gp ga) : Sep (h.storedMut i gp ga) :=
  storedMutA_sep (storedMutP_sep s i gp) i ga

theorem storedMut_other {h : Heap} (s : Sep h) (i j : Nat) (gp ga) (hij : i ≠ j) :
    (h.storedMut i gp ga).view[j]? = h.view[j]? := by
  rw [storedMut_view s, List.getElem?_modify]; simp [hij]

/-! ### column operations: every frame gets its edit exactly once -/

abbrev Edit := (List Point → List Point) × (List SubFrame → List SubFrame)
def Edit.ap (g : Edit) (f : Frame) : Frame := { pts := g.1 f.pts, subs := g.2 f.subs }

/-- the column loop on values -/
def applyFrom : Nat → List Edit → List Frame → List Frame
  | _, [], fs => fs
  | k, g :: rest, fs => applyFrom (k + 1) rest (fs.modify k g.ap)

theorem mutEach_sep {h : Heap} (s : Sep h) (gs : List Edit) : ∀ k, Sep (h.mutEach k gs) := by
  induction gs generalizing h with
  | nil => intro k; exact s
  | cons g rest ih => intro k; exact ih (storedMut_sep s k g.1 g.2) (k + 1)

theorem mutEach_view {h : Heap} (s : Sep h) (gs : List Edit) : ∀ k, (h.mutEach k gs).view = applyFrom k gs h.view := by
  induction gs generalizing h with
  | nil => intro k; rfl
  | cons g rest ih =>
    intro k
    simp only [Heap.mutEach, applyFrom]
    rw [ih (storedMut_sep s k g.1 g.2) (k + 1), storedMut_view s]
    rfl

theorem applyFrom_getElem? (gs : List Edit) : ∀ (k : Nat) (fs : List Frame) (j : Nat),
    (applyFrom k gs fs)[j]? =
      match (if j < k then none else gs[j - k]?) with
      | some g => fs[j]?.map g.ap
      | none => fs[j]? := by
  induction gs with
  | nil => intro k fs j; simp [applyFrom]
  | cons g rest ih =>
    intro k fs j
    simp only [applyFrom]
    rw [ih (k + 1) (fs.modify k g.ap) j, List.getElem?_modify]
    by_cases h1 : j < k
    · have : j < k + 1 := by omega
      have hne : k ≠ j := by omega
      simp [h1, this, hne]
    · by_cases h2 : j = k
      · subst h2; simp
      · have h3 : ¬ j < k + 1 := by omega
        have hne : k ≠ j := fun e => h2 e.symm
        have : j - k = (j - (k + 1)) + 1 := by omega
        simp [h1, h3, hne, this]

/-- with one edit per stored frame, the loop is the `zipWith` of the value model: edit `i` is applied to
    frame `i`, once, and to nothing else -/
theorem applyFrom_zip (gs : List Edit) (fs : List Frame) (hl : gs.length = fs.length) :
    applyFrom 0 gs fs = List.zipWith (fun f (g : Edit) => g.ap f) fs gs := by
  apply List.ext_getElem?
  intro j
  rw [applyFrom_getElem?, List.getElem?_zipWith]
  simp only [Nat.not_lt_zero, if_false, Nat.sub_zero]
  cases hg : gs[j]? with
  | none =>
    have : fs[j]? = none := by
      have := List.getElem?_eq_none_iff.mp hg
      exact List.getElem?_eq_none_iff.mpr (by omega)
    simp [this]
  | some g => cases fs[j]? <;> simp

/-- ADDING POINTS: every stored frame gets exactly its new points, appended once — the value model's
    `zipWith (fun st fr => { st with pts := st.pts ++ … })` -/
theorem pointCols_view {h : Heap} (s : Sep h) (cols : List (List Point)) (hl : cols.length = h.stored.length) :
    (h.pointCols cols).view = List.zipWith (fun (f : Frame) ps => { f with pts := f.pts ++ ps }) h.view cols := by
  unfold Heap.pointCols
  rw [mutEach_view s, applyFrom_zip _ _ (by simpa [Heap.view] using hl)]
  rw [List.zipWith_map_right]
  rfl
theorem pointCols_sep {h : Heap} (s : Sep h) (cols) : Sep (h.pointCols cols) := mutEach_sep s _ 0

/-- ADDING CHANNELS: the first `nsf` sub-frames of every stored frame get exactly their new channels, once -/
theorem analogCols_view {h : Heap} (s : Sep h) (nsf : Nat) (cols : List (List (List Channel)))
    (hl : cols.length = h.stored.length) :
    (h.analogCols nsf cols).view = List.zipWith (fun (f : Frame) cs =>
        { f with subs := List.zipWith (· ++ ·) (f.subs.take nsf) cs ++ f.subs.drop nsf }) h.view cols := by
  unfold Heap.analogCols
  rw [mutEach_view s, applyFrom_zip _ _ (by simpa [Heap.view] using hl)]
  rw [List.zipWith_map_right]
  rfl
theorem analogCols_sep {h : Heap} (s : Sep h) (nsf cols) : Sep (h.analogCols nsf cols) := mutEach_sep s _ 0

/-! ### `Data::frame(frame, idx)`: grow with blank frames, then replace slot `idx` by a clone -/

theorem pushBlank_sep {h : Heap} (s : Sep h) : Sep h.pushBlank := by
  have g := s.grow [] []
  refine Sep.push g _ ?_ ?_ ?_ ?_ ?_
  · simp
  · intro k hk; exact (fresh_ne_stored s k hk).1
  · intro k hk; exact (fresh_ne_stored s k hk).2
  · intro k hk; exact (vars_ne_fresh s k hk).1
  · intro k hk; exact (vars_ne_fresh s k hk).2
theorem pushBlank_view {h : Heap} (s : Sep h) : h.pushBlank.view = h.view ++ [({} : Frame)] := by
  have e := view_grow s [] []
  have d : h.pushBlank.deref = ({ h with P := h.P ++ [[]], A := h.A ++ [[]] } : Heap).deref := rfl
  unfold Heap.view at *
  rw [d]
  dsimp only at e
  simp only [Heap.pushBlank, List.map_append, List.map_cons, List.map_nil]
  rw [e]
  simp [Heap.deref, Heap.derefP, Heap.derefA, getD_append_len]
theorem pushBlank_vars (h : Heap) : h.pushBlank.vars = h.vars := rfl

theorem growBy_sep (n : Nat) : ∀ {h : Heap}, Sep h → Sep (h.growBy n) := by
  induction n with
  | zero => intro h s; exact s
  | succ n ih => intro h s; exact ih (pushBlank_sep s)
theorem growBy_view (n : Nat) : ∀ {h : Heap}, Sep h → (h.growBy n).view = h.view ++ List.replicate n ({} : Frame) := by
  induction n with
  | zero => intro h s; simp [Heap.growBy]
  | succ n ih =>
    intro h s
    simp only [Heap.growBy]
    rw [ih (pushBlank_sep s), pushBlank_view s, List.append_assoc]
    rfl
theorem growBy_length (n : Nat) : ∀ (h : Heap), (h.growBy n).stored.length = h.stored.length + n := by
  induction n with
  | zero => intro h; rfl
  | succ n ih => intro h; simp only [Heap.growBy]; rw [ih]; simp [Heap.pushBlank]; omega
theorem growBy_lengths (n : Nat) : ∀ (h : Heap), h.P.length ≤ (h.growBy n).P.length ∧ h.A.length ≤ (h.growBy n).A.length := by
  induction n with
  | zero => intro h; exact ⟨Nat.le_refl _, Nat.le_refl _⟩
  | succ n ih =>
    intro h; simp only [Heap.growBy]; have := ih h.pushBlank
    have e1 : h.pushBlank.P.length = h.P.length + 1 := by simp [Heap.pushBlank]
    have e2 : h.pushBlank.A.length = h.A.length + 1 := by simp [Heap.pushBlank]
    omega
theorem growBy_deref (n : Nat) : ∀ (h : Heap) (f : HFrame), f.pts < h.P.length ∧ f.subs < h.A.length →
    (h.growBy n).deref f = h.deref f := by
  induction n with
  | zero => intro h f _; rfl
  | succ n ih =>
    intro h f hf
    simp only [Heap.growBy]
    rw [ih h.pushBlank f (by simp [Heap.pushBlank]; omega)]
    exact deref_grow h [] [] f hf

theorem nodup_set {l : List Nat} (hn : l.Nodup) (i a : Nat) (ha : a ∉ l) : (l.set i a).Nodup := by
  induction l generalizing i with
  | nil => simp
  | cons b t ih =>
    rw [List.nodup_cons] at hn
    cases i with
    | zero => simp only [List.set_cons_zero, List.nodup_cons]; exact ⟨fun h => ha (by simp [h]), hn.2⟩
    | succ i =>
      simp only [List.set_cons_succ, List.nodup_cons]
      refine ⟨fun h => ?_, ih hn.2 i (fun h => ha (by simp [h]))⟩
      rcases List.mem_or_eq_of_mem_set h with h | h
      · exact hn.1 h
      · exact ha (by simp [h])

/-- replacing the handles of slot `i` by an allocated pair no stored or caller frame uses -/
theorem Sep.replace {h : Heap} (s : Sep h) (i : Nat) (nf : HFrame)
    (ha : nf.pts < h.P.length ∧ nf.subs < h.A.length)
    (hp : ∀ g ∈ h.stored, nf.pts ≠ g.pts) (hs : ∀ g ∈ h.stored, nf.subs ≠ g.subs)
    (vp : ∀ f ∈ h.vars, f.pts ≠ nf.pts) (vs : ∀ f ∈ h.vars, f.subs ≠ nf.subs) :
    Sep { h with stored := h.stored.set i nf } := by
  have mem : ∀ g ∈ h.stored.set i nf, g ∈ h.stored ∨ g = nf := fun g hg => List.mem_or_eq_of_mem_set hg
  constructor
  · simp only [List.map_set]
    exact nodup_set s.nodupP _ _ (by simp; intro g hg e; exact hp g hg e.symm)
  · simp only [List.map_set]
    exact nodup_set s.nodupA _ _ (by simp; intro g hg e; exact hs g hg e.symm)
  · intro f hf; rcases mem f hf with hf | rfl
    · exact s.allocS f hf
    · exact ha
  · exact s.allocV
  · intro f hf g hg; rcases mem g hg with hg | rfl
    · exact s.apartP f hf g hg
    · exact vp f hf
  · intro f hf g hg; rcases mem g hg with hg | rfl
    · exact s.apartA f hf g hg
    · exact vs f hf

theorem frameAt_sep {h : Heap} (s : Sep h) (src : HFrame) (idx : Nat) : Sep (h.frameAt src idx) := by
  unfold Heap.frameAt
  have s1 := clone_sep s src
  have s3 := growBy_sep (idx + 1 - (h.clone src).1.stored.length) s1
  have s4 := clone_sep s3 (h.clone src).2
  refine Sep.replace s4 idx _ ?_ ?_ ?_ ?_ ?_
  · simp [Heap.clone]
  · intro k hk; exact (fresh_ne_stored s3 k hk).1
  · intro k hk; exact (fresh_ne_stored s3 k hk).2
  · intro k hk; exact (vars_ne_fresh s3 k hk).1
  · intro k hk; exact (vars_ne_fresh s3 k hk).2

theorem set_grown {α} (l : List α) (d x : α) (idx : Nat) :
    (l ++ List.replicate (idx + 1 - l.length) d).set idx x = setAt d l idx x := by
  unfold setAt
  by_cases hl : idx < l.length
  · have : idx + 1 - l.length = 0 := by omega
    simp [hl, this]
  · simp only [hl, if_false]
    have e : idx + 1 - l.length = (idx - l.length) + 1 := by omega
    rw [e, List.replicate_succ', ← List.append_assoc, List.set_append_right _ _ (by simp; omega)]
    simp
    have : idx - (l.length + (idx - l.length)) = 0 := by omega
    rw [this]; rfl

theorem view_setStored (H : Heap) (i : Nat) (nf : HFrame) :
    ({ H with stored := H.stored.set i nf } : Heap).view = H.view.set i (H.deref nf) := by
  simp only [Heap.view, List.map_set]; rfl

/-- THE OBJECT STORES THE VALUE: after `frame(f, idx)` the stored frames are the value model's
    `setAt {} frames idx f` for the value `f` had at the call — also when `f` is one of the stored frames
    (fix c5e71d0) and whatever the caller does with `f` afterwards -/
theorem frameAt_view {h : Heap} (s : Sep h) (src : HFrame) (idx : Nat) :
    (h.frameAt src idx).view = setAt {} h.view idx (h.deref src) := by
  have s1 := clone_sep s src
  have s3 := growBy_sep (idx + 1 - (h.clone src).1.stored.length) s1
  have v1 := clone_view s src
  have v3 := growBy_view (idx + 1 - (h.clone src).1.stored.length) s1
  have v4 := clone_view s3 (h.clone src).2
  have d4 := (clone_deref ((h.clone src).1.growBy (idx + 1 - (h.clone src).1.stored.length)) (h.clone src).2).trans
    ((growBy_deref _ (h.clone src).1 (h.clone src).2 (by simp [Heap.clone])).trans (clone_deref h src))
  unfold Heap.frameAt
  dsimp only
  rw [view_setStored, d4, v4, v3, v1]
  have : (h.clone src).1.stored.length = h.view.length := by simp [Heap.clone, Heap.view]
  rw [this]
  exact set_grown _ _ _ _

/-! ### every history -/

/-- what the caller and the object can do, in any order. A frame handed to the object is one of the caller's
    Frame objects (`fromVar`) or one of the object's own stored frames (`c.frame(c.data().frame(k), …)`). -/
inductive Op where
  | mk (v : Frame)                                   -- caller builds a frame
  | copy (v : Nat)                                   -- caller copies a Frame object (handles shared)
  | cmutP (v : Nat) (g : List Point → List Point)    -- caller edits its frame in place
  | cmutA (v : Nat) (g : List SubFrame → List SubFrame)
  | append (fromVar : Bool) (k : Nat)                -- c.frame(f)
  | at_ (fromVar : Bool) (k : Nat) (idx : Nat)       -- c.frame(f, idx)
  | smut (i : Nat) (gp : List Point → List Point) (ga : List SubFrame → List SubFrame)  -- edit through frame_nonConst
  | pcols (cols : List (List Point))                 -- c.point(frames)
  | acols (nsf : Nat) (cols : List (List (List Channel)))  -- c.analog(frames)

def source (h : Heap) (fromVar : Bool) (k : Nat) : Option HFrame := if fromVar then h.vars[k]? else h.stored[k]?

def step (h : Heap) : Op → Heap
  | .mk v => h.callerMk v
  | .copy v => h.callerCopy v
  | .cmutP v g => h.callerMutP v g
  | .cmutA v g => h.callerMutA v g
  | .append fv k => match source h fv k with | some f => h.frameAppend f | none => h
  | .at_ fv k idx => match source h fv k with | some f => h.frameAt f idx | none => h
  | .smut i gp ga => h.storedMut i gp ga
  | .pcols cols => if cols.length = h.stored.length then h.pointCols cols else h
  | .acols nsf cols => if cols.length = h.stored.length then h.analogCols nsf cols else h

theorem frameAppend_vars (h : Heap) (f : HFrame) : (h.frameAppend f).vars = h.vars := rfl

theorem step_sep {h : Heap} (s : Sep h) (op : Op) : Sep (step h op) := by
  cases op with
  | mk v => exact callerMk_sep s v
  | copy v => exact callerCopy_sep s v
  | cmutP v g => exact callerMutP_sep s v g
  | cmutA v g => exact callerMutA_sep s v g
  | append fv k => simp only [step]; cases source h fv k with
    | none => exact s
    | some f => exact frameAppend_sep s f
  | at_ fv k idx => simp only [step]; cases source h fv k with
    | none => exact s
    | some f => exact frameAt_sep s f idx
  | smut i gp ga => exact storedMut_sep s i gp ga
  | pcols cols => simp only [step]; split
                  · exact pointCols_sep s cols
                  · exact s
  | acols nsf cols => simp only [step]; split
                      · exact analogCols_sep s nsf cols
                      · exact s

/-- SEPARATION HOLDS IN EVERY REACHABLE STATE, for every interleaving of caller and object operations -/
theorem reach_sep (ops : List Op) : Sep (ops.foldl step {}) := by
  suffices ∀ h, Sep h → Sep (ops.foldl step h) from this {} Sep.init
  induction ops with
  | nil => intro h s; exact s
  | cons op rest ih => intro h s; exact ih _ (step_sep s op)

def Op.isCaller : Op → Bool
  | .mk _ | .copy _ | .cmutP _ _ | .cmutA _ _ => true
  | _ => false

/-- C08, first sentence, for every history: in any reachable state, nothing the caller does with its own
    frame objects — reused, copied, mutated, already handed over once or many times — changes what the
    object stores -/
theorem caller_invisible (ops : List Op) (op : Op) (hc : op.isCaller = true) :
    (step (ops.foldl step {}) op).view = (ops.foldl step {}).view := by
  have s := reach_sep ops
  cases op with
  | mk v => exact callerMk_view s v
  | copy v => exact callerCopy_view _ v
  | cmutP v g => exact callerMutP_view s v g
  | cmutA v g => exact callerMutA_view s v g
  | _ => simp [Op.isCaller] at hc

/-- C08, "handing over the same frame object several times yields frames that can be edited
    independently": in any reachable state, after handing the same caller frame twice, an edit of the
    second stored copy leaves the first as handed over -/
theorem handover_twice_independent (ops : List Op) (k : Nat) (f : HFrame) (gp ga)
    (hk : (ops.foldl step {}).vars[k]? = some f) :
    let h := ops.foldl step {}
    let h2 := step (step h (.append true k)) (.append true k)
    (h2.storedMut (h.stored.length + 1) gp ga).view[h.stored.length]? = some (h.deref f) := by
  intro h h2
  have s : Sep h := reach_sep ops
  have e1 : step h (.append true k) = h.frameAppend f := by simp [step, source, h, hk]
  have e2 : h2 = (h.frameAppend f).frameAppend f := by
    show step (step h (.append true k)) (.append true k) = _
    rw [e1]; simp only [step, source, if_true, frameAppend_vars]
    rw [show h.vars[k]? = some f from hk]
  have s1 := frameAppend_sep s f
  have s2 := frameAppend_sep s1 f
  rw [e2, storedMut_other s2 _ _ _ _ (by omega), frameAppend_view s1, frameAppend_view s]
  have : h.view.length = h.stored.length := by simp [Heap.view]
  rw [List.getElem?_append_left (by simp; omega), List.getElem?_append_right (by omega)]
  simp [this]

/-! ### the negative: without the clone the property fails (the code before fix 05c84b3) -/

def pt1 : Point := { name := [80], x := 1, y := 2, z := 3, r := 0 }
def shared0 : Heap := (({} : Heap).callerMk { pts := [pt1] }).frameAppendShared { pts := 0, subs := 0 }

/-- a caller's edit after the hand-over changes what the object stores -/
theorem shared_push_breaks : (shared0.callerMutP 0 (fun _ => [])).view ≠ shared0.view := by decide
/-- and the state it produced is exactly one `Sep` excludes -/
theorem shared_push_not_sep : ¬ Sep shared0 := by
  intro s
  exact s.apartP { pts := 0, subs := 0 } (by decide) { pts := 0, subs := 0 } (by decide) rfl

/-- non-vacuity: a reachable state with a re-handed, self-handed and edited frame -/
example : (([.mk { pts := [pt1] }, .append true 0, .append true 0, .at_ false 0 3, .cmutP 0 (fun _ => []),
            .pcols [[pt1], [pt1], [pt1], [pt1]]] : List Op).foldl step {}).view
    = [{ pts := [pt1, pt1] }, { pts := [pt1, pt1] }, { pts := [pt1] }, { pts := [pt1, pt1] }] := by decide

end Ezc3d.C08
