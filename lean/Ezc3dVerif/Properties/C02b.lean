import Ezc3dVerif.Properties.C02
import Ezc3dVerif.Proofs.SpecLayout
/-
  C02 (continued) — BOTH decoders on the same file. `C02.load_layout` says what the library's loader returns for a file of
  any declared layout, described constructively (leading zeros, header, gap, parameter section with records in any order,
  frames). `spec_decode_layout` says what the INDEPENDENT decoder of the C3D specification (Spec/Format.lean: positional
  access, follows only the file's own pointers, checks every record's offset) returns for the very same bytes. Both results are
  the header words, the records and the frames the file was built from: the loader's as an object (records folded into the
  group table by `applyRec`: replace-or-append by name, placeholders for unused ids), the decoder's as the flat record lists.
  `both_decoders_layout` puts the two side by side and proves the header words and every frame equal field by field.
-/
namespace Ezc3d.C02
open N Spec

/-- the independent decoder on a file of any declared layout -/
theorem spec_decode_layout (h : Header) (Z pa ds nb : Nat) (p0 p1 : UInt8) (gap pad : Bytes) (rs : List Rec) (frames : List Frame)
    (hk : HdrOK h) (hds : ds < 65536) (hpa1 : 2 ≤ pa) (hpa2 : pa < 256) (hdsv : ds = pa + nb)
    (hgap : gap.length = 512 * (pa - 2)) (hv : ∀ r ∈ rs, r.Valid)
    (hsec : 4 + (recsBytes rs).length + 1 + pad.length = 512 * nb)
    (hne : ¬ (h.nbPoints = 0 ∧ h.nbAnalogs = 0)) (hnf : h.nbFrames = frames.length) (hnfs : frames.length ≤ 65536)
    (hshape : ∀ f ∈ frames, f.hasShape h.nbPoints h.nbAnalogByFrame h.nbAnalogs) :
    Spec.decode (List.replicate Z 0 ++ h.bytesP pa ds [] ++ gap ++ (p0 :: p1 :: low8N nb :: 84 :: (recsBytes rs ++ 0 :: pad)) ++ writeData frames) true
      = some (layoutContent h Z pa ds nb p0 p1 rs frames) :=
  spec_decode_layout_file h Z pa ds nb p0 p1 gap pad rs frames hk hds hpa1 hpa2 hdsv hgap hv hsec hne hnf hnfs hshape

theorem specPts_relabel (pl : List Bytes) (pts : List Point) : ∀ i, (relabelPts pl i pts).map specPoint = pts.map specPoint := by
  induction pts with
  | nil => intro i; rfl
  | cons p t ih => intro i; simp only [relabelPts, List.map_cons, ih (i + 1)]; rfl

theorem specChs_relabel (al : List Bytes) (cs : List Channel) : ∀ i, (relabelChs al i cs).map (·.v) = cs.map (·.v) := by
  induction cs with
  | nil => intro i; rfl
  | cons c t ih => intro i; simp only [relabelChs, List.map_cons, ih (i + 1)]

/-- naming the points and channels from the label parameters changes no sample -/
theorem specFrame_relabel (pl al : List Bytes) (f : Frame) : specFrame (relabelFrame pl al f) = specFrame f := by
  unfold specFrame relabelFrame
  simp only [specPts_relabel, List.map_map]
  congr 1
  apply List.map_congr_left
  intro sf _
  exact specChs_relabel al sf 0

/-- LOADING A WELL-FORMED FILE YIELDS WHAT AN INDEPENDENT DECODER EXTRACTS FROM THE SAME BYTES: for every file of the declared
    layouts whose header data-start word names the block after the parameter section, (1) the loader returns the object built
    from the file's records, (2) the independent decoder returns the file's records, and (3) the two agree on every header word
    and on every point and analog sample of every frame, bit for bit. -/
theorem both_decoders_layout (F : FloatOps) (h : Header) (Z pa ds nb : Nat) (zp : Bool) (gap pad : Bytes) (rs : List Rec) (frames : List Frame)
    (pl al : List Bytes) (hy : LayoutHyps F h Z pa ds nb gap pad rs frames pl al) (hdsv : ds = pa + nb)
    (hne : ¬ (h.nbPoints = 0 ∧ h.nbAnalogs = 0)) :
    ∃ (obj : C3D) (content : Spec.Content),
      C3D.load F (List.replicate Z 0 ++ h.bytesP pa ds [] ++ gap ++ ((if zp then 0 else low8N 1) :: (if zp then 0 else 0x50) :: low8N nb :: 84 ::
          (recsBytes rs ++ 0 :: pad)) ++ writeData frames) = .ok obj ∧
      Spec.decode (List.replicate Z 0 ++ h.bytesP pa ds [] ++ gap ++ ((if zp then 0 else low8N 1) :: (if zp then 0 else 0x50) :: low8N nb :: 84 ::
          (recsBytes rs ++ 0 :: pad)) ++ writeData frames) true = some content ∧
      obj.groups = rs.foldl applyRec [] ∧ content.groups = specGroupsR rs ∧ content.params = specParamsR rs ∧
      obj.frames.map specFrame = content.frames ∧
      specHeaderP obj.hdr obj.hdr.paramAddr obj.hdr.dataStart = content.header ∧
      content.leadingZeros = obj.hdr.zeros ∧ content.dataBytesLeft = 0 ∧ content.terminated = true := by
  have hl := load_layout F h Z pa ds nb zp gap pad rs frames pl al hy
  obtain ⟨a1, a2, a3, a4, a5, a6, a7, a8, a9, a10, a11, a12, a13, a14, a15, a16, a17, a18⟩ := hy
  have hs := spec_decode_layout h Z pa ds nb (if zp then 0 else low8N 1) (if zp then 0 else 0x50) gap pad rs frames
    a1 a2 a3 a4 hdsv a7 a8 a9 hne a12 a13 a18
  refine ⟨_, _, hl, hs, rfl, rfl, rfl, ?_, rfl, rfl, rfl, rfl⟩
  simp only [layoutContent, List.map_map]
  apply List.map_congr_left
  intro f _
  exact specFrame_relabel pl al f

/-! ### non-vacuity: the unusual-layout example of C02 with the data-start word the format prescribes -/

set_option maxRecDepth 100000 in
theorem layout_example4 : LayoutHyps F1 h1 3 3 4 1 (List.replicate 512 0) pad1 rs1 frames1 [[76, 49]] [] := by decide +kernel

example : ∃ obj content, C3D.load F1 (List.replicate 3 0 ++ h1.bytesP 3 4 [] ++ List.replicate 512 0 ++
      ((if true then 0 else low8N 1) :: (if true then 0 else 0x50) :: low8N 1 :: 84 :: (recsBytes rs1 ++ 0 :: pad1)) ++ writeData frames1) = .ok obj ∧
    Spec.decode (List.replicate 3 0 ++ h1.bytesP 3 4 [] ++ List.replicate 512 0 ++
      ((if true then 0 else low8N 1) :: (if true then 0 else 0x50) :: low8N 1 :: 84 :: (recsBytes rs1 ++ 0 :: pad1)) ++ writeData frames1) true = some content ∧
    obj.frames.map specFrame = content.frames := by
  obtain ⟨obj, content, a, b, _, _, _, c, _⟩ := both_decoders_layout F1 h1 3 3 4 1 true (List.replicate 512 0) pad1 rs1 frames1 [[76, 49]] []
    layout_example4 rfl (by decide)
  exact ⟨obj, content, a, b, c⟩

end Ezc3d.C02
