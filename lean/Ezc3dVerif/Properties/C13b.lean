import Ezc3dVerif.Proofs.LoadWF
import Ezc3dVerif.Properties.C01
/-
  C13 (continued) — objects that come from a file. Every parameter the loader builds, from ANY bytes it accepts, holds as many
  values as its dimensions announce (`load_WF`: the size check of `Parameter::read` lets the value reader run unless a counted
  dimension is 0, and the value reader delivers exactly the announced number). Hence saving a loaded object, or any object
  reached from it through the public API, never indexes a value vector out of range.
-/
namespace Ezc3d.C13
open N

/-- load -> save: the writer never indexes out of range on an object the loader returned -/
theorem loaded_write_noUB (F : FloatOps) (file : Bytes) (c : C3D) (hlen : file.length + 0xFFFF < two64 / 256)
    (h : C3D.load F file = .ok c) : c.write.NoUB :=
  write_noUB c (load_WF F file c hlen h)

/-- load -> any history of public calls -> save -/
theorem loaded_history_write_noUB (F : FloatOps) (file : Bytes) (c : C3D) (ops : List Op) (hlen : file.length + 0xFFFF < two64 / 256)
    (h : C3D.load F file = .ok c) (hp : ParamsWF ops) : (runOps F c ops).write.NoUB :=
  write_noUB _ (reach_WF F ops c (load_WF F file c hlen h) hp)

/-- one parameter record read from any bytes -/
theorem parameter_record_WF (L : Nat) (hL : L + 0xFFFF < two64 / 256) (n : Int) (s s' : InStream) (p : Param) (nx : Int)
    (hl : s.len = L) (h : Param.read n s = .ok ((p, nx), s')) : ParamWF p :=
  (Param_read_WF L hL n s (p, nx) s' hl h).2

/-- non-vacuity: the file of `C01.s0` loads, and the theorem applies to it -/
example : ∃ c, C3D.load C01.F0 C01.s0b = .ok c ∧ c.write.NoUB := by
  have h := C01.load_write C01.F0 C01.s0 C01.s0b C01.s0ps _ _ C01.s0_in_domain
  refine ⟨_, h, loaded_write_noUB C01.F0 C01.s0b _ ?_ h⟩
  have : C01.s0b.length = 1056 := (by decide +kernel : C01.s0b.length = 1056 ∧ C01.s0ps.length = 512).1
  rw [this]; decide

end Ezc3d.C13
