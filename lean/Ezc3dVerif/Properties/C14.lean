import Ezc3dVerif.Properties.C03
/-
  C14 — saving is pure, repeatable and writes only defined bytes (the part that is logic).
  In the model the bytes of a save are a FUNCTION of the object: saving cannot change the object and two
  saves of equal objects are equal by construction. The theorems with content: which fields the bytes do
  NOT depend on (stale header words that the writer recomputes), and that every event-label cell is
  exactly 4 bytes determined by the label (never memory behind a shorter string).
  That the library's bytes ARE this function is what the check establishes on every save (byte-equality
  with the model, two heap/stack fills, two builds, valgrind).
-/
namespace Ezc3d.C14

/-- equal objects give equal files; the saved object is not an output of the function -/
theorem save_deterministic (s1 s2 : C3D) (h : s1 = s2) : s1.write = s2.write := by rw [h]

/-- the bytes do not depend on the in-memory data-start word, the leading-zero count, the parameter
    address or checksum read from a loaded file, nor on the remembered block count: the writer recomputes
    all of them -/
theorem save_ignores_stale_fields (s : C3D) (ds z pa ck nb pck pproc : Nat) :
    ({ s with hdr := { s.hdr with dataStart := ds, zeros := z, paramAddr := pa, checksum := ck },
              ph := { s.ph with nbBlocks := nb, checksum := pck, processor := pproc } } : C3D).write = s.write := by
  unfold C3D.write writeParamSection Header.write
  rfl

/-- an event label cell is exactly 4 bytes: the first four characters of the label, NUL padded -/
theorem label_cell (l : Bytes) : (label4 l).length = 4 ∧ (label4 l).take l.length = l.take 4 ∧
    ∀ i, l.length ≤ i → i < 4 → (label4 l)[i]? = some 0 := by
  refine ⟨C03.label4_length l, ?_, ?_⟩
  · unfold label4
    by_cases h : l.length ≤ 4
    · have : l.take 4 = l := List.take_of_length_le h
      rw [this, List.take_left']
      rfl
    · have h4 : (l.take 4).length = 4 := by simp; omega
      rw [h4]; simp
      rw [List.take_take]; congr 1; omega
  · intro i h1 h2
    unfold label4
    have hl : (l.take 4).length = l.length := by rw [List.length_take]; omega
    rw [List.getElem?_append_right (by omega), hl, List.getElem?_replicate]
    have : i - l.length < 4 - l.length := by omega
    simp [this]

end Ezc3d.C14
