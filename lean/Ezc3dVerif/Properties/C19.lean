import Ezc3dVerif.Model.Read
import Ezc3dVerif.Model.Write
/-
  C19 — results do not depend on optimisation level or library kind (the part that is logic).
  The model is a function of its inputs. A build "corresponds" when, on an input, it returns what the
  model returns; any two corresponding builds therefore agree with each other. The non-trivial content is
  WHERE a conforming compiler would have licence to differ: the places where the code executes arithmetic
  that C++ leaves undefined. `hex2uintArithUB` lists them; the theorems say they are confined to reads of
  4 or more bytes (the header scale word and the reserved runs), never the 1- and 2-byte reads that carry
  every parameter value, count, length and offset.  The check compares six builds and lists the UB sites
  with a UBSan build.
-/
namespace Ezc3d.C19

/-- a build, abstractly: what it returns for an input -/
def Corresponds {ι ο : Type} (build model : ι → ο) (inputs : ι → Prop) : Prop := ∀ x, inputs x → build x = model x

theorem builds_agree {ι ο : Type} (b1 b2 model : ι → ο) (inputs : ι → Prop)
    (h1 : Corresponds b1 model inputs) (h2 : Corresponds b2 model inputs) : ∀ x, inputs x → b1 x = b2 x := by
  intro x hx; rw [h1 x hx, h2 x hx]

/-- no arithmetic UB is executed when decoding 1-, 2- or 3-byte integers -/
theorem short_reads_no_arith_ub (val : Bytes) (h : val.length ≤ 3) : hex2uintArithUB val = false := by
  unfold hex2uintArithUB
  have h1 : ¬ val.length > 4 := by omega
  have h2 : val[3]? = none := by simp; omega
  simp [h1, h2]

/-- a 4-byte read executes signed overflow exactly when the top byte is ≥ 0x80 (every float-format header:
    the scale word of a float file has its sign bit set) -/
theorem four_byte_read_ub_iff (a b c d : UInt8) : hex2uintArithUB [a, b, c, d] = true ↔ d.toNat ≥ 128 := by
  unfold hex2uintArithUB
  simp

/-- reads longer than 4 bytes (the reserved header runs) always execute an out-of-range conversion -/
theorem long_reads_arith_ub (val : Bytes) (h : val.length > 4) : hex2uintArithUB val = true := by
  unfold hex2uintArithUB; simp [h]

/-- zero bytes contribute nothing, whatever the (undefined) conversion of their power of 256 produces:
    the reserved runs of real files, which are zero, decode to 0 on every build -/
theorem zero_bytes_contribute_nothing (n i acc : Nat) : hex2uintAux (List.replicate n 0) i acc = acc := by
  induction n generalizing i acc with
  | zero => rfl
  | succ m ih =>
    rw [List.replicate_succ, hex2uintAux, ih]
    simp [wrapU32]

theorem zero_tail (l : Bytes) (n i acc : Nat) :
    hex2uintAux (l ++ List.replicate n 0) i acc = hex2uintAux l i acc := by
  induction l generalizing i acc with
  | nil => simpa [hex2uintAux] using zero_bytes_contribute_nothing n i acc
  | cons b t ih => simp only [List.cons_append, hex2uintAux]; rw [ih]

end Ezc3d.C19
