import Ezc3dVerif.Proofs.Progress
import Ezc3dVerif.Proofs.NoUB
import Ezc3dVerif.Properties.C13
import Ezc3dVerif.Proofs.LoadTotal
import Ezc3dVerif.Properties.C01
/-
  C16 — damaged files are refused or loaded, never crash or hang (the part that is logic).
  For EVERY byte string: the model's loader never evaluates an unchecked access out of range (`ub`),
  and its two loops - the leading-zero skip and the parameter record chain - terminate: the fuel they are
  given is never exhausted, because every iteration that continues has consumed input. (The cost of the
  data section follows the announced counts: a known finding, see known_findings.json.)
-/
namespace Ezc3d.C16

theorem hex2int_zero : hex2int [0] = 0 := by decide

/-- the record chain: with fuel above the measure of the stream, the loop never runs out of it -/
theorem readRecords_terminates (fuel : Nat) (s : InStream) (next : Int) (gs : List Group) (h : mu s < fuel) :
    readRecords fuel s next gs ≠ .error (.inr .nonTermination) := by
  induction fuel generalizing s next gs with
  | zero => omega
  | succ f ih =>
    unfold readRecords
    split
    · simp
    · split
      · simp [rthrow]
      · rename_i hnext htell
        -- the name-length byte
        cases hr : s.readInt 1 with
        | mk n s1 =>
          simp only
          split
          · simp
          · rename_i hn0
            -- a live stream: otherwise the byte read is 0 and the loop has ended
            have hlive : s.failed = false := by
              cases hf : s.failed with
              | false => rfl
              | true =>
                exfalso
                unfold InStream.readInt at hr
                rw [read_failed s 1 hf] at hr
                simp only [List.replicate] at hr
                injection hr with h1 _
                apply hn0; rw [← h1]; exact hex2int_zero
            have hs1 : s1 = (s.read 1).2 := by
              unfold InStream.readInt at hr; injection hr with _ h2; exact h2.symm
            have hmu1 : mu s1 < mu s := by rw [hs1]; exact mu_read_lt s 1 (Nat.le_refl 1) hlive
            cases hr2 : s1.readInt 1 with
            | mk id s2 =>
              have hs2 : Fwd s1 s2 := by
                have := Fwd_readInt s1 1; rw [hr2] at this; exact this
              simp only
              split
              · -- a group record
                split
                · simp [rthrow]
                · rename_i g _
                  cases hg : g.read n s2 with
                  | error e =>
                    simp only
                    obtain ⟨x, rfl⟩ := throws_Group_read g n s2 e hg
                    simp
                  | ok r =>
                    obtain ⟨⟨g', nx⟩, s3⟩ := r
                    simp only
                    have h3 : Fwd s2 s3 := mono_Group_read g n s2 _ s3 hg
                    have : mu s3 < f := by
                      have := mu_le_of_Fwd (Fwd.trans hs2 h3); omega
                    exact ih s3 nx _ this
              · -- a parameter record
                split
                · simp [rthrow]
                · rename_i g _
                  cases hp : Param.read n s2 with
                  | error e =>
                    simp only
                    obtain ⟨x, rfl⟩ := throws_Param_read n s2 e hp
                    simp
                  | ok r =>
                    obtain ⟨⟨p, nx⟩, s3⟩ := r
                    simp only
                    have h3 : Fwd s2 s3 := mono_Param_read n s2 _ s3 hp
                    have hlt : mu s3 < f := by
                      have := mu_le_of_Fwd (Fwd.trans hs2 h3); omega
                    cases ha : g.addParam p with
                    | ok g' => simp only; exact ih s3 nx _ hlt
                    | throw e => simp [rthrow]
                    | ub k => exact absurd ha (addParam_noUB g p k)

/-- what reading one byte can do to the stream -/
theorem read1_cases (s : InStream) :
    (s.read 1).2.eof = true ∨ (s.failed = true ∧ (s.read 1).2 = s) ∨
    ((s.read 1).2.failed = false ∧ (s.read 1).2.rest.length + 1 = s.rest.length) := by
  cases hf : s.failed with
  | true => right; left; exact ⟨rfl, by rw [read_failed s 1 hf]⟩
  | false =>
    unfold InStream.read
    simp only [hf, Bool.false_eq_true, if_false]
    cases ht : takePad 1 s.rest with
    | mk x rk =>
      obtain ⟨r, k⟩ := rk
      obtain ⟨_, _, h3, _⟩ := takePad_spec 1 s.rest x r k ht
      simp only
      split
      · rename_i hk; right; right; exact ⟨by simp [hf], h3 hk⟩
      · left; rfl

/-- the leading-zero skip: each iteration consumes a byte or ends at the end of the file -/
theorem skipZeros_terminates (fuel : Nat) (s : InStream) (z : Nat) (hf : s.failed = false ∨ s.eof = true)
    (h : s.rest.length < fuel) : skipZeros fuel s z ≠ .error (.inr .nonTermination) := by
  induction fuel generalizing s z with
  | zero => omega
  | succ f ih =>
    unfold skipZeros
    have hs1 : (s.readUint 1).2 = (s.read 1).2 := rfl
    cases hr : s.readUint 1 with
    | mk v s1 =>
      have e1 : s1 = (s.read 1).2 := by rw [← hs1, hr]
      simp only
      split
      · simp [rthrow]
      · rename_i heof
        split
        · rcases read1_cases s with hc | ⟨hfl, hsame⟩ | ⟨hlive, hlen⟩
          · rw [← e1] at hc; exact absurd hc heof
          · rcases hf with h0 | h0
            · rw [hfl] at h0; cases h0
            · rw [← e1] at hsame; rw [hsame] at heof; exact absurd h0 heof
          · rw [← e1] at hlive hlen
            exact ih s1 (z + 1) (Or.inl hlive) (by omega)
        · simp

theorem read_flags (s : InStream) (n : Nat) :
    (s.read n).2.failed = false ∨ (s.read n).2.eof = true ∨ s.failed = true := by
  cases hf : s.failed with
  | true => right; right; rfl
  | false =>
    unfold InStream.read
    simp only [hf, Bool.false_eq_true, if_false]
    cases ht : takePad n s.rest with
    | mk x rk =>
      obtain ⟨r, k⟩ := rk
      simp only
      split
      · left; simp [hf]
      · right; left; rfl

theorem Header_read_terminates (file : Bytes) :
    Header.read (InStream.open_ file) ≠ .error (.inr .nonTermination) := by
  unfold Header.read
  cases hr : ((InStream.open_ file).seekBeg 0).readUint 1 with
  | mk pa0 s1 =>
    simp only
    have hflags : s1.failed = false ∨ s1.eof = true := by
      have e1 : s1 = (((InStream.open_ file).seekBeg 0).read 1).2 := by
        have : (((InStream.open_ file).seekBeg 0).readUint 1).2 = (((InStream.open_ file).seekBeg 0).read 1).2 := rfl
        rw [← this, hr]
      rcases read_flags ((InStream.open_ file).seekBeg 0) 1 with h | h | h
      · left; rw [e1]; exact h
      · right; rw [e1]; exact h
      · simp [InStream.seekBeg, InStream.open_] at h
    have hsz := skipZeros_terminates (s1.rest.length + 1) s1 0 hflags (by omega)
    intro hc
    split at hc
    · rename_i e heq
      have he : e = .inr .nonTermination := by injection hc
      rw [he] at heq
      split at heq
      · cases heq
      · exact hsz heq
    · split at hc
      · simp [rthrow] at hc
      · cases hc

theorem readParameters_terminates (s : InStream) (h : Header) :
    readParameters s h ≠ .error (.inr .nonTermination) := by
  unfold readParameters
  cases hp : readPrologue s h with
  | mk ph s5 =>
    simp only
    intro hc
    split at hc
    · simp [rthrow] at hc
    · split at hc
      · rename_i e heq
        have : e = .inr .nonTermination := by injection hc
        rw [this] at heq
        exact readRecords_terminates _ _ _ _ (by unfold mu; split <;> omega) heq
      · cases hc

/-- loading ANY byte string terminates: neither loop of the loader can spin -/
theorem load_terminates_header_and_parameters (file : Bytes) (h : Header) (s : InStream) :
    Header.read (InStream.open_ file) ≠ .error (.inr .nonTermination) ∧
    readParameters s h ≠ .error (.inr .nonTermination) :=
  ⟨Header_read_terminates file, readParameters_terminates s h⟩

/-- the header reconciliation between the two never evaluates an unchecked access either -/
theorem load_updateHeader_noUB (F : FloatOps) (s : C3D) : (updateHeader F s).NoUB := C13.updateHeader_noUB F s

/-- LOADING ANY BYTE SEQUENCE EITHER RETURNS AN OBJECT OR THROWS A STANDARD EXCEPTION: for every byte string (and every float
    model) the loader - header reader with its leading-zero loop, prologue, record chain with the group and parameter
    readers and the size check, header reconciliation, data reader - never evaluates an unchecked access out of range and
    never runs out of the fuel its loops are given (it terminates). -/
theorem load_total (F : FloatOps) (file : Bytes) : (C3D.load F file).NoUB := by
  intro k h
  unfold C3D.load at h
  split at h
  · cases h
  · rename_i k' hk'
    have := Header_read_onlyFuel _ k' hk'
    subst this
    exact Header_read_terminates file hk'
  · rename_i hd s1 _
    split at h
    · cases h
    · rename_i k' hk'
      have := readParameters_onlyFuel _ _ k' hk'
      subst this
      exact readParameters_terminates _ _ hk'
    · split at h
      · cases h
      · rename_i k' hk'
        exact C13.updateHeader_noUB F _ k' hk'
      · split at h
        · cases h
        · rename_i k' hk'
          exact readData_clean _ _ _ _ k' hk'
        · cases h

/-- the same, as the property words it: an object, or an exception of one of the standard classes -/
theorem load_object_or_exception (F : FloatOps) (file : Bytes) :
    (∃ c, C3D.load F file = .ok c) ∨ (∃ e, C3D.load F file = .throw e) := by
  cases h : C3D.load F file with
  | ok c => exact Or.inl ⟨c, rfl⟩
  | throw e => exact Or.inr ⟨e, rfl⟩
  | ub k => exact absurd h (load_total F file k)

/-- non-vacuity of both branches: the empty file is refused, the file of `C01.s0` is loaded -/
example : C3D.load C01.F0 [] = .throw .ios_failure := by decide +kernel

end Ezc3d.C16
