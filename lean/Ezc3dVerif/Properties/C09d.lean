import Ezc3dVerif.Properties.C09b
/-
  C09 (continued) — `c3d::parameter(group, p)` and the GROUP HEADERS: every group keeps its name, description and lock flag and
  its position; a group that did not exist is appended, blank and unlocked. (The seeded changes "parameter() through a temporary
  group resets lock and description" and "case-insensitive merge overrides the header" are violations of exactly this.)
-/
namespace Ezc3d.C09
open N

def hdr (g : Group) : Bytes × Bytes × Bool := (g.name, g.desc, g.locked)

theorem addParam_hdr (g g' : Group) (p : Param) (h : g.addParam p = .ok g') : hdr g' = hdr g := by
  unfold Group.addParam at h
  split at h
  · cases h
  · split at h <;> (cases h; rfl)

theorem map_set_same {α β} (f : α → β) (l : List α) (i : Nat) (a x : α) (hx : l[i]? = some x) (hf : f a = f x) :
    (l.set i a).map f = l.map f := by
  rw [List.map_set]
  apply List.ext_getElem?
  intro j
  by_cases hj : i = j
  · subst hj
    have hlt : i < l.length := by
      rcases Nat.lt_or_ge i l.length with h | h
      · exact h
      · rw [List.getElem?_eq_none h] at hx; cases hx
    rw [List.getElem?_set_self (by simpa using hlt), List.getElem?_map, hx, hf]; rfl
  · rw [List.getElem?_set_ne hj]

/-- STORING A PARAMETER LEAVES EVERY GROUP HEADER (name, description, lock) IN PLACE; an absent group is appended blank and unlocked -/
theorem insertParam_headers (gs gs' : List Group) (g : Bytes) (p : Param) (h : insertParam gs g p = .ok gs') :
    gs'.map hdr = (match groupIdx gs g with | .ok _ => gs.map hdr | _ => gs.map hdr ++ [(g, [], false)]) := by
  unfold insertParam at h
  cases hgi : groupIdx gs g with
  | ok gi =>
    rw [hgi] at h
    simp only at h
    rw [hgi] at h
    simp only [Res.bind_ok] at h
    obtain ⟨grp, hgrp, h⟩ := Res.bind_ok_iff.mp h
    obtain ⟨grp', hadd, h⟩ := Res.bind_ok_iff.mp h
    cases h
    have hgrp? : gs[gi]? = some grp := by
      unfold atIdx at hgrp; split at hgrp
      · rename_i a ha; cases hgrp; exact ha
      · cases hgrp
    exact map_set_same hdr gs gi grp' grp hgrp? (addParam_hdr grp grp' p hadd)
  | throw e =>
    rw [hgi] at h
    simp only at h
    have hnone : gs.findIdx? (fun a => a.name == g) = none := by
      unfold groupIdx nameIdx at hgi
      split at hgi
      · cases hgi
      · rename_i hn; exact hn
    have hgi1 : groupIdx (gs ++ [({ name := g } : Group)]) g = .ok gs.length := by
      unfold groupIdx nameIdx
      rw [findIdx?_none_append_self gs _ _ hnone (by simp)]
    rw [hgi1] at h
    simp only [Res.bind_ok] at h
    obtain ⟨grp, hgrp, h⟩ := Res.bind_ok_iff.mp h
    obtain ⟨grp', hadd, h⟩ := Res.bind_ok_iff.mp h
    cases h
    have hgrp? : (gs ++ [({ name := g } : Group)])[gs.length]? = some grp := by
      unfold atIdx at hgrp; split at hgrp
      · rename_i a ha; cases hgrp; exact ha
      · cases hgrp
    rw [map_set_same hdr _ gs.length grp' grp hgrp? (addParam_hdr grp grp' p hadd)]
    simp [hdr]
  | ub k => exact absurd hgi (groupIdx_noUB gs g k)

/-- non-vacuity: a locked, described group keeps both when a parameter is stored into it -/
example : (match insertParam [{ name := [71], desc := [100], locked := true }] [71] { name := [80], type := .int, dims := [1], ints := [7] } with
    | .ok gs' => gs'.map hdr | _ => []) = [([71], [100], true)] := by decide

end Ezc3d.C09
