import Ezc3dVerif.Proofs.LoadWrite
/-
  C02 — loading a well-formed file yields exactly what the file encodes (the part that is proved).

  The loader's three readers are shown to DECODE the C3D record formats, for every content the formats can
  hold: `header_decoded` (the 512-byte header record: every 16-bit word, the 32-bit scale word, the rate,
  18 event times / flags / 4-character labels), `parameter_record_decoded` (one parameter record: name and
  lock flag, 0-255 dimensions, values of the four element types, blank-padded string cells, description,
  next-record offset), `group_record_decoded`, `records_decoded` (the whole chain: groups in any id order
  with gaps between ids — the loader holds unnamed placeholders for the ids skipped — each followed by its
  parameters, terminated by a zero byte) and `data_decoded` (frames x (4 x points + channels x sub-frames)
  floats, sub-frame major). These are stated for a parameter section in block 2 without leading zeros and
  records in group-then-its-parameters order; the other declared vendor layouts (leading zeros, zeroed
  prologue, section not in block 2, parameters before their group, shuffled records) rest on the
  correspondence check with the independent Spec decoder as oracle.
-/
namespace Ezc3d.C02
open N

theorem header_decoded (h : Header) (ds : Nat) (rest file : Bytes) (s0 : InStream) (hk : HdrOK h) (hds : ds < 65536)
    (hfile : OnFile s0 file) (hfe : file = h.write (ds : Int) ++ rest) :
    ∃ s', Header.read s0 = .ok (h.loaded ds, s') := ⟨_, Header_read_written h ds rest file s0 hk hds hfile hfe⟩

theorem parameter_record_decoded (p : Param) (h : RecOK p) (s : InStream) (b : Bytes)
    (hf : s.failed = false) (hs : s.Sync) (hlen : s.len + 2 < two31) (hr : s.rest = p.recTail b) :
    Param.read p.nameLen s = .ok ((p.norm, ((s.pos + p.recLen : Nat) : Int)), s.adv b p.recLen) :=
  Param_read_written p h s b hf hs hlen hr

theorem group_record_decoded (g : Group) (h : GroupOK g) (s : InStream) (b : Bytes)
    (hf : s.failed = false) (hs : s.Sync) (hlen : s.len + 2 < two31) (hr : s.rest = g.recTail b) :
    Group.read {} g.nameLen s = .ok ((g.head, ((s.pos + g.recLen : Nat) : Int)), s.adv b g.recLen) :=
  Group_read_written g h s b hf hs hlen hr

theorem records_decoded (hdr : Header) (s0 : InStream) (file H pad : Bytes) (nb : Nat) (gs : List Group)
    (hH : H.length = 512) (hpa : hdr.paramAddr = 2) (hz : hdr.zeros = 0) (hnb : nb < 256)
    (hgs : gs.length ≤ 127) (hok : ∀ g ∈ gs, g.name ≠ [] → GroupRecsOK g)
    (hfile : OnFile s0 file) (hfe : file = H ++ (low8N 1 :: 0x50 :: low8N nb :: 84 :: (groupsBytes gs 0 ++ 0 :: pad)))
    (hsmall : file.length + 2 < two31) :
    ∃ s', readParameters s0 hdr = .ok (({ start := 1, checksum := 0x50, nbBlocks := nb, processor := 84 }, readBack gs 0 []), s') := by
  obtain ⟨s', h, _⟩ := readParameters_written hdr s0 file H pad nb gs hH hpa hz hnb hgs hok hfile hfe hsmall
  exact ⟨s', h⟩

theorem data_decoded (np nsf nch : Nat) (pl al : List Bytes) (frames : List Frame) (s : InStream) (b : Bytes)
    (hshape : ∀ f ∈ frames, f.hasShape np nsf nch) (hf : s.failed = false) (hr : s.rest = writeData frames ++ b) :
    readMany (readFrame np nsf nch pl al) frames.length s
      = (frames.map (relabelFrame pl al), s.adv b (frameBytes np nsf nch * frames.length)) :=
  readData_written np nsf nch pl al frames s b hshape hf hr

/-- sparse group ids: a group whose id skips two numbers leaves two unnamed placeholders before it -/
example (g : Group) (h : g.name ≠ []) : readBack [{}, {}, g] 0 [] = [{}, {}, g.normG] := by
  simp [readBack, h]

end Ezc3d.C02
