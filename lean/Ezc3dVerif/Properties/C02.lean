import Ezc3dVerif.Proofs.Layout
import Ezc3dVerif.Proofs.LoadWriteDec
/-
  C02 — loading a well-formed file yields exactly what the file encodes (the part that is proved).

  The loader's three readers are shown to DECODE the C3D record formats, for every content the formats can
  hold: `header_decoded` (the 512-byte header record: every 16-bit word, the 32-bit scale word, the rate,
  18 event times / flags / 4-character labels), `parameter_record_decoded` (one parameter record: name and
  lock flag, 0-255 dimensions, values of the four element types, blank-padded string cells, description,
  next-record offset), `group_record_decoded`, `records_decoded` (the whole chain: groups in any id order
  with gaps between ids — the loader holds unnamed placeholders for the ids skipped — each followed by its
  parameters, terminated by a zero byte) and `data_decoded` (frames x (4 x points + channels x sub-frames)
  floats, sub-frame major).

  `load_layout` puts them together for the declared vendor layouts: ANY number of zero bytes before the
  header, the parameter section in ANY block from 2 to 255, a plain or a ZEROED prologue, group and parameter
  records in ANY order (a parameter before its group, ids with gaps, a repeated name), labels fewer or more
  than the points in use (names come from `relabelFrame`), an EMPTY ANALOG group (hypothesis on
  `updateHeaderH`, which reads it): the loaded object holds the header fields, the groups the records
  describe (`applyRec` folded over them, in file order) and every point and analog sample bit for bit.
  The example at the end is a file with 3 leading zeros, parameters in block 3, zeroed prologue, a parameter
  record before its group record and a gap in the ids. Hypotheses: the field ranges of the format, a header
  that agrees with the parameters (else `updateHeader` rewrites it: covered by the correspondence check), frames
  of the announced shape. The independent Spec decoder (Spec/Format.lean) remains the oracle of the check; it
  is not related to these theorems by a proof.
-/
namespace Ezc3d.C02
open N

theorem header_decoded (h : Header) (ds : Nat) (rest file : Bytes) (s0 : InStream) (hk : HdrOK h) (hds : ds < 65536)
    (hfile : OnFile s0 file) (hfe : file = h.write (ds : Int) ++ rest) :
    ∃ s', Header.read s0 = .ok (h.loaded ds, s') := ⟨_, Header_read_written h ds rest file s0 hk hds hfile hfe⟩

theorem parameter_record_decoded (p : Param) (h : RecOK p) (s : InStream) (b : Bytes)
    (hf : s.failed = false) (hs : s.Sync) (hlen : s.len + 2 < two31) (hr : s.rest = p.recTail b) :
    Param.read p.nameLen s = .ok ((p.norm, ((s.pos + p.recLen : Nat) : Int)), s.adv b p.recLen) :=
  Param_read_written p h s b hf hs hlen hr

theorem group_record_decoded (g : Group) (h : GroupOK g) (s : InStream) (b : Bytes)
    (hf : s.failed = false) (hs : s.Sync) (hlen : s.len + 2 < two31) (hr : s.rest = g.recTail b) :
    Group.read {} g.nameLen s = .ok ((g.head, ((s.pos + g.recLen : Nat) : Int)), s.adv b g.recLen) :=
  Group_read_written g h s b hf hs hlen hr

theorem records_decoded (hdr : Header) (s0 : InStream) (file H pad : Bytes) (nb : Nat) (gs : List Group)
    (hH : H.length = 512) (hpa : hdr.paramAddr = 2) (hz : hdr.zeros = 0) (hnb : nb < 256)
    (hgs : gs.length ≤ 127) (hok : ∀ g ∈ gs, g.name ≠ [] → GroupRecsOK g)
    (hfile : OnFile s0 file) (hfe : file = H ++ (low8N 1 :: 0x50 :: low8N nb :: 84 :: (groupsBytes gs 0 ++ 0 :: pad)))
    (hsmall : file.length + 2 < two31) :
    ∃ s', readParameters s0 hdr = .ok (({ start := 1, checksum := 0x50, nbBlocks := nb, processor := 84 }, readBack gs 0 []), s') := by
  obtain ⟨s', h, _⟩ := readParameters_written hdr s0 file H pad nb gs hH hpa hz hnb hgs hok hfile hfe hsmall
  exact ⟨s', h⟩

theorem data_decoded (np nsf nch : Nat) (pl al : List Bytes) (frames : List Frame) (s : InStream) (b : Bytes)
    (hshape : ∀ f ∈ frames, f.hasShape np nsf nch) (hf : s.failed = false) (hr : s.rest = writeData frames ++ b) :
    readMany (readFrame np nsf nch pl al) frames.length s
      = (frames.map (relabelFrame pl al), s.adv b (frameBytes np nsf nch * frames.length)) :=
  readData_written np nsf nch pl al frames s b hshape hf hr

/-- sparse group ids: a group whose id skips two numbers leaves two unnamed placeholders before it -/
example (g : Group) (h : g.name ≠ []) : readBack [{}, {}, g] 0 [] = [{}, {}, g.normG] := by
  simp [readBack, h]

/-- a parameter section anywhere in the file, plain or zeroed prologue, records in any order -/
theorem records_any_order (hdr : Header) (s0 : InStream) (file pre pad : Bytes) (nb : Nat) (zp : Bool) (rs : List Rec)
    (hpre : pre.length = 512 * (hdr.paramAddr - 1) + hdr.zeros) (hpa : 2 ≤ hdr.paramAddr) (hnb : nb < 256)
    (hv : ∀ r ∈ rs, r.Valid) (hfile : OnFile s0 file)
    (hfe : file = pre ++ ((if zp then 0 else low8N 1) :: (if zp then 0 else 0x50) :: low8N nb :: 84 :: (recsBytes rs ++ 0 :: pad)))
    (hsmall : file.length + 2 < two31) :
    ∃ s', readParameters s0 hdr = .ok (({ start := 1, checksum := 0x50, nbBlocks := nb, processor := 84 }, rs.foldl applyRec []), s') := by
  obtain ⟨s', h, _⟩ := readParameters_layout hdr s0 file pre pad nb zp rs hpre hpa hnb hv hfile hfe hsmall
  exact ⟨s', h⟩

/-- the header behind any number of zero bytes, announcing any parameter block -/
theorem header_any_offset (h : Header) (Z pa ds : Nat) (rest file : Bytes) (s0 : InStream) (hk : HdrOK h) (hds : ds < 65536)
    (hpa1 : 1 ≤ pa) (hpa2 : pa < 256) (hfile : OnFile s0 file) (hfe : file = List.replicate Z 0 ++ h.bytesP pa ds rest) :
    ∃ s', Header.read s0 = .ok (h.loadedAt Z pa ds, s') := ⟨_, Header_read_layout h Z pa ds rest file s0 hk hds hpa1 hpa2 hfile hfe⟩

instance (r : Rec) : Decidable r.Valid := by cases r <;> (unfold Rec.Valid; infer_instance)

/-- the hypotheses of `load_layout` as one decidable proposition -/
def LayoutHyps (F : FloatOps) (h : Header) (Z pa ds nb : Nat) (gap pad : Bytes) (rs : List Rec) (frames : List Frame) (pl al : List Bytes) : Prop :=
  HdrOK h ∧ ds < 65536 ∧ 2 ≤ pa ∧ pa < 256 ∧ 1 ≤ nb ∧ nb < 256 ∧ gap.length = 512 * (pa - 2) ∧ (∀ r ∈ rs, r.Valid) ∧
  4 + (recsBytes rs).length + 1 + pad.length = 512 * nb ∧
  Z + 512 + gap.length + 512 * nb + (writeData frames).length + 2 < two31 ∧
  updateHeaderH F (rs.foldl applyRec []) [] (h.loadedAt Z pa ds) = .ok (h.loadedAt Z pa ds) ∧
  h.nbFrames = frames.length ∧ frames.length ≤ 65536 ∧
  (if h.nbPoints > 0 then strsOf (rs.foldl applyRec []) POINT LABELS else .ok []) = .ok pl ∧
  (if h.nbAnalogs > 0 then strsOf (rs.foldl applyRec []) ANALOG LABELS else .ok []) = .ok al ∧
  h.scale < 0 ∧ h.nbAnalogs < 65536 ∧ (∀ f ∈ frames, f.hasShape h.nbPoints h.nbAnalogByFrame h.nbAnalogs)

instance (F : FloatOps) (h : Header) (Z pa ds nb : Nat) (gap pad : Bytes) (rs : List Rec) (frames : List Frame) (pl al : List Bytes) :
    Decidable (LayoutHyps F h Z pa ds nb gap pad rs frames pl al) := by unfold LayoutHyps; infer_instance

/-- A WELL-FORMED FILE OF ANY DECLARED LAYOUT LOADS TO WHAT IT ENCODES -/
theorem load_layout (F : FloatOps) (h : Header) (Z pa ds nb : Nat) (zp : Bool) (gap pad : Bytes) (rs : List Rec) (frames : List Frame)
    (pl al : List Bytes) (hy : LayoutHyps F h Z pa ds nb gap pad rs frames pl al) :
    C3D.load F (List.replicate Z 0 ++ h.bytesP pa ds [] ++ gap ++ ((if zp then 0 else low8N 1) :: (if zp then 0 else 0x50) :: low8N nb :: 84 ::
        (recsBytes rs ++ 0 :: pad)) ++ writeData frames)
      = .ok { hdr := h.loadedAt Z pa ds, ph := { start := 1, checksum := 0x50, nbBlocks := nb, processor := 84 },
              groups := rs.foldl applyRec [], frames := frames.map (relabelFrame pl al) } := by
  obtain ⟨a1, a2, a3, a4, a5, a6, a7, a8, a9, a10, a11, a12, a13, a14, a15, a16, a17, a18⟩ := hy
  exact Ezc3d.load_layout F h Z pa ds nb zp gap pad rs frames pl al a1 a2 a3 a4 a5 a6 a7 a8 a9 a10 a11 a12 a13 a14 a15 a16 a17 a18

/-! ### a file of an unusual layout inside the domain (kernel-checked) -/

def F1 : FloatOps := { rateKey := fun b => b.toNat, truncNat := fun b => b.toNat, ratioNat := fun a b => a.toNat / (b.toNat + 1) }

def h1 : Header := { nbPoints := 2, firstFrame := 9, lastFrame := 9, rate := 0x42C80000, scale := -1 }

/-- POINT has id 4 (ids 1-3 unused), its LABELS parameter comes BEFORE its group record, there is one label for two points,
    ANALOG (id 2) is an empty group, a locked byte parameter closes the chain -/
def rs1 : List Rec :=
  [ .param 3 { name := LABELS, type := .char, dims := [3, 1], strs := [[76, 49]] },
    .group 3 { name := POINT, desc := [112] },
    .param 3 { name := USED, type := .int, dims := [1], ints := [2] },
    .group 1 { name := ANALOG, locked := true },
    .param 3 { name := RATE, type := .float, dims := [1], floats := [0x42C80000] },
    .param 3 { name := FRAMES, type := .int, dims := [1], ints := [1] },
    .param 3 { name := [98], locked := true, type := .byte, dims := [2], ints := [-1, 127], desc := [100, 100] } ]

def frames1 : List Frame :=
  [ { pts := [ { name := [76, 49], x := 0x3F800000, y := 0x80000000, z := 0x7F800001, r := 0 },
               { name := [117, 110, 108, 97, 98, 101, 108, 101, 100, 95, 112, 111, 105, 110, 116, 95, 49], x := 1, y := 2, z := 3, r := 0xBF800000 } ], subs := [] } ]

def pad1 : Bytes := List.replicate (512 - 4 - (recsBytes rs1).length - 1) 0

set_option maxRecDepth 100000 in
theorem layout_example : LayoutHyps F1 h1 3 3 5 1 (List.replicate 512 0) pad1 rs1 frames1 [[76, 49]] [] := by decide +kernel

end Ezc3d.C02
