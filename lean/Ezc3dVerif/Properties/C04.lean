import Ezc3dVerif.Properties.C01
/-
  C04 — load -> save -> load preserves a file's content; the second save is byte-identical.

  Proved on the model, for every object `s'` that `load` returned for the bytes of a `write` (that is what a
  re-saved file is, from the second generation on): `write s'` gives exactly those bytes again
  (`resave_byte_identical`), hence loading them gives `s'` again (`generations_stable`). The first
  generation (an arbitrary vendor file: leading zeros, other block addresses, records in any order, 1-D
  strings, sparse ids) rests on the correspondence check with content comparison as oracle.
-/
namespace Ezc3d.C04

theorem resave_byte_identical (s : C3D) (n : Nat) (pl al : List Bytes) (hstart : s.ph.start = 1)
    (hst : ∀ g ∈ s.groups, GroupNameStable g) : (s.reloaded n pl al).write = s.write :=
  write_reloaded s n pl al hstart hst

theorem generations_stable (F : FloatOps) (s : C3D) (b ps : Bytes) (pl al : List Bytes) (h : LoadWriteHyps F s b ps pl al)
    (hst : ∀ g ∈ s.groups, GroupNameStable g) :
    ∃ s', C3D.load F b = .ok s' ∧ s'.write = .ok b :=
  ⟨_, (C01.second_generation F s b ps pl al h hst).2, (C01.second_generation F s b ps pl al h hst).1⟩

/-- the name condition holds for every name that is already upper-case (what a file holds) -/
theorem nameStable_of_upper (p : Param) (h : toUpper p.name = p.name) : NameStable p := by
  unfold NameStable; rw [h]

example : ∀ g ∈ C01.s0.groups, GroupNameStable g := by decide +kernel

end Ezc3d.C04
