import Ezc3dVerif.Proofs.Frames
/-
  C09 — parameter and group edits change exactly what was asked.
  `Parameter::set`: accepted exactly when the element count equals the product of the dimensions
  (empty data only with an empty or zero-sized shape), else range_error and the parameter untouched;
  `Group::parameter` / `c3d::parameter`: replace in place or append, nothing else moves.
-/
namespace Ezc3d.C09

/-- the overflow-free loop of isDimensionConsistent computes "n = acc · ∏ dims" when no dimension is 0 -/
theorem prodMatches_iff (n : Nat) (dims : List Nat) (acc : Nat) (hacc : 0 < acc) (hpos : ∀ d ∈ dims, 0 < d) :
    prodMatches n dims acc = true ↔ n = acc * dims.prod := by
  induction dims generalizing acc with
  | nil => simp [prodMatches]
  | cons d rest ih =>
    have hd : 0 < d := hpos d (by simp)
    have hrest : ∀ x ∈ rest, 0 < x := fun x hx => hpos x (by simp [hx])
    have hprod : 0 < rest.prod := by
      clear ih
      induction rest with
      | nil => simp
      | cons a t iht =>
        simp only [List.prod_cons]
        exact Nat.mul_pos (hrest a (by simp)) (iht (fun x hx => hpos x (by simp at hx ⊢; rcases hx with h | h <;> simp [h])) (fun x hx => hrest x (by simp [hx])))
    unfold prodMatches
    by_cases hgt : acc > n / d
    · simp only [hgt, if_true]
      constructor
      · intro h; cases h
      · intro h
        exfalso
        have h1 : n < acc * d := (Nat.div_lt_iff_lt_mul hd).mp hgt
        have h2 : acc * d ≤ acc * d * rest.prod := Nat.le_mul_of_pos_right _ hprod
        simp only [List.prod_cons] at h
        rw [← Nat.mul_assoc] at h
        omega
    · simp only [hgt, if_false]
      rw [ih (acc * d) (Nat.mul_pos hacc hd) hrest]
      simp only [List.prod_cons, Nat.mul_assoc]

theorem prod_zero_of_mem (l : List Nat) (h : 0 ∈ l) : l.prod = 0 := by
  induction l with
  | nil => cases h
  | cons a t ih =>
    simp only [List.prod_cons]
    simp at h
    rcases h with h | h
    · rw [← h]; simp
    · rw [ih h]; simp

/-- `Parameter::set(data, dims)` is accepted exactly when the element count equals the product of
    the dimensions; empty data exactly with an empty or zero-sized shape. No overflow caveat. -/
theorem dimConsistent_iff (n : Nat) (dims : List Nat) :
    dimConsistent n dims = true ↔
      (n = 0 ∧ (dims = [] ∨ 0 ∈ dims)) ∨ (n ≠ 0 ∧ n = dims.prod) := by
  unfold dimConsistent
  by_cases hn : n = 0
  · subst hn
    simp only [if_true]
    constructor
    · intro h
      left; refine ⟨trivial, ?_⟩
      simp at h
      exact h
    · intro h
      rcases h with ⟨_, h⟩ | ⟨h, _⟩
      · rcases h with h | h
        · simp [h]
        · simp [h]
      · exact absurd rfl h
  · simp only [hn, if_false]
    by_cases hz : dims.contains 0 = true
    · simp only [hz, if_true]
      constructor
      · intro h; cases h
      · intro h
        rcases h with ⟨h, _⟩ | ⟨_, h⟩
        · exact absurd h (by simp)
        · exfalso
          have : 0 ∈ dims := by simpa using hz
          have hp : dims.prod = 0 := prod_zero_of_mem dims this
          omega
    · simp only [hz]
      have hpos : ∀ d ∈ dims, 0 < d := by
        intro d hd
        have : ¬ (0 ∈ dims) := by simpa using hz
        rcases Nat.eq_zero_or_pos d with h0 | h0
        · subst h0; exact absurd hd this
        · exact h0
      simp only [Bool.false_eq_true, if_false]
      rw [prodMatches_iff n dims 1 (by decide) hpos]
      constructor
      · intro h; right; exact ⟨hn, by omega⟩
      · intro h
        rcases h with ⟨h, _⟩ | ⟨_, h⟩
        · exact absurd h (by simp)
        · omega

/-- integers: accepted iff consistent, then the parameter holds exactly the given type, values and
    (effective) dimensions; name, description and lock state are untouched -/
theorem setInts_ok_iff (p : Param) (data : List Int) (dims : List Nat) :
    (∃ p', p.setInts data dims = .ok p') ↔ dimConsistent data.length (effDims data.length dims) = true := by
  unfold Param.setInts; split <;> simp_all

theorem setInts_ok (p p' : Param) (data : List Int) (dims : List Nat) (h : p.setInts data dims = .ok p') :
    p'.type = .int ∧ p'.ints = data ∧ p'.dims = effDims data.length dims ∧
    p'.name = p.name ∧ p'.desc = p.desc ∧ p'.locked = p.locked := by
  unfold Param.setInts at h; split at h <;> simp_all
  cases h; simp

theorem setInts_refused (p : Param) (data : List Int) (dims : List Nat)
    (h : dimConsistent data.length (effDims data.length dims) = false) :
    p.setInts data dims = .throw .range_error := by
  unfold Param.setInts; simp [h]

theorem setFloats_ok_iff (p : Param) (data : List UInt32) (dims : List Nat) :
    (∃ p', p.setFloats data dims = .ok p') ↔ dimConsistent data.length (effDims data.length dims) = true := by
  unfold Param.setFloats; split <;> simp_all

theorem setFloats_refused (p : Param) (data : List UInt32) (dims : List Nat)
    (h : dimConsistent data.length (effDims data.length dims) = false) :
    p.setFloats data dims = .throw .range_error := by
  unfold Param.setFloats; simp [h]

theorem setStrs_ok_iff (p : Param) (data : List Bytes) (dims : List Nat) :
    (∃ p', p.setStrs data dims = .ok p') ↔ dimConsistent data.length (effDims data.length dims) = true := by
  unfold Param.setStrs; split <;> simp_all

/-- string values gain a leading dimension equal to the longest string -/
theorem setStrs_ok (p p' : Param) (data : List Bytes) (dims : List Nat) (h : p.setStrs data dims = .ok p') :
    p'.type = .char ∧ p'.strs = data ∧ p'.dims = maxLen data :: effDims data.length dims := by
  unfold Param.setStrs at h; split at h <;> simp_all
  cases h; simp

theorem maxLen_ge (data : List Bytes) : ∀ s ∈ data, s.length ≤ maxLen data := by
  unfold maxLen
  have key : ∀ (l : List Bytes) (m : Nat),
      m ≤ l.foldl (fun m s => if s.length > m then s.length else m) m ∧
      ∀ s ∈ l, s.length ≤ l.foldl (fun m s => if s.length > m then s.length else m) m := by
    intro l
    induction l with
    | nil => intro m; simp
    | cons a t ih =>
      intro m
      simp only [List.foldl_cons]
      obtain ⟨h1, h2⟩ := ih (if a.length > m then a.length else m)
      constructor
      · have : m ≤ (if a.length > m then a.length else m) := by split <;> omega
        omega
      · intro s hs
        simp at hs
        rcases hs with rfl | hs
        · have : s.length ≤ (if s.length > m then s.length else m) := by split <;> omega
          omega
        · exact h2 s hs
  exact (key data 0).2

/-- `Group::parameter(p)`: an untyped parameter is refused -/
theorem addParam_untyped (g : Group) (p : Param) (h : p.type = .none) : g.addParam p = .throw .runtime_error := by
  simp [Group.addParam, h]

/-- … a parameter with a new name is appended, every existing parameter keeps its position -/
theorem addParam_append (g : Group) (p : Param) (ht : p.type ≠ .none) (hn : ∀ q ∈ g.params, q.name ≠ p.name) :
    g.addParam p = .ok { g with params := g.params ++ [p] } := by
  unfold Group.addParam
  have : g.params.findIdx? (fun q => q.name == p.name) = none := by
    rw [List.findIdx?_eq_none_iff]; intro q hq; simpa using hn q hq
  simp [ht, this]

/-- … a parameter whose name exists replaces the FIRST parameter of that name in place -/
theorem addParam_replace (g : Group) (p : Param) (ht : p.type ≠ .none) (i : Nat) (hi : i < g.params.length)
    (hname : g.params[i].name = p.name) (hfirst : ∀ j (hj : j < i), (g.params[j]'(by omega)).name ≠ p.name) :
    g.addParam p = .ok { g with params := g.params.set i p } := by
  unfold Group.addParam
  have : g.params.findIdx? (fun q => q.name == p.name) = some i := by
    rw [List.findIdx?_eq_some_iff_getElem]
    refine ⟨hi, by simpa using hname, ?_⟩
    intro j hj; simpa using hfirst j hj
  simp [ht, this]

/-- in both cases: afterwards looking the name up returns the given parameter, and the group's name,
    description and lock are unchanged -/
theorem addParam_lookup (g g' : Group) (p : Param) (h : g.addParam p = .ok g') :
    byName Param.name g'.params p.name = .ok p ∧ g'.name = g.name ∧ g'.desc = g.desc ∧ g'.locked = g.locked := by
  unfold Group.addParam at h
  split at h; · cases h
  split at h
  · rename_i i hi
    cases h
    rw [List.findIdx?_eq_some_iff_getElem] at hi
    obtain ⟨hlt, hp, hbefore⟩ := hi
    refine ⟨?_, rfl, rfl, rfl⟩
    unfold byName nameIdx
    have : (g.params.set i p).findIdx? (fun a => a.name == p.name) = some i := by
      rw [List.findIdx?_eq_some_iff_getElem]
      refine ⟨by simpa using hlt, by simp, ?_⟩
      intro j hj
      have := hbefore j hj
      rw [List.getElem_set_ne (by omega)]
      exact this
    simp [this, atIdx, hlt]
  · rename_i hnone
    cases h
    refine ⟨?_, rfl, rfl, rfl⟩
    rw [List.findIdx?_eq_none_iff] at hnone
    unfold byName nameIdx
    have : (g.params ++ [p]).findIdx? (fun a => a.name == p.name) = some g.params.length := by
      rw [List.findIdx?_eq_some_iff_getElem]
      refine ⟨by simp, by simp, ?_⟩
      intro j hj
      rw [List.getElem_append_left hj]
      have := hnone _ (List.getElem_mem hj)
      simp [this]
    simp [this, atIdx]

/-- every other parameter is unchanged and keeps its position -/
theorem addParam_others (g g' : Group) (p : Param) (h : g.addParam p = .ok g') (j : Nat) (hj : j < g.params.length)
    (hne : g.params[j].name ≠ p.name) : g'.params[j]? = some g.params[j] := by
  unfold Group.addParam at h
  split at h; · cases h
  split at h
  · rename_i i hi
    cases h
    rw [List.findIdx?_eq_some_iff_getElem] at hi
    obtain ⟨hlt, hp, _⟩ := hi
    have hij : i ≠ j := by
      intro e; subst e; apply hne; simpa using hp
    simp [hij, hj]
  · cases h
    simp [List.getElem?_append_left hj, hj]

/-- locking or unlocking a group changes only that flag -/
theorem setGroupLock_ok (s s' : C3D) (name : Bytes) (v : Bool) (h : s.setGroupLock name v = .ok s') :
    ∃ gi, groupIdx s.groups name = .ok gi ∧
      s' = { s with groups := s.groups.modify gi fun g => { g with locked := v } } := by
  unfold C3D.setGroupLock at h
  obtain ⟨gi, hgi, h⟩ := Res.andThen_ok_iff.mp h
  cases h
  exact ⟨gi, hgi, rfl⟩

theorem setGroupLock_unknown (s : C3D) (name : Bytes) (v : Bool) (h : ∀ g ∈ s.groups, g.name ≠ name) :
    s.setGroupLock name v = .throw .invalid_argument s := by
  unfold C3D.setGroupLock groupIdx nameIdx
  have : s.groups.findIdx? (fun a => a.name == name) = none := by
    rw [List.findIdx?_eq_none_iff]; intro g hg; simpa using h g hg
  simp [this]

/-- non-vacuity and sharpness -/
example : dimConsistent 6 [2, 3] = true ∧ dimConsistent 6 [2, 2] = false ∧ dimConsistent 0 [3, 0] = true
    ∧ dimConsistent 0 [] = true ∧ dimConsistent 0 [2] = false := by decide
/-- the shapes whose product wraps to 0 in 32 or 64 bits are refused for empty data -/
example : dimConsistent 0 [128, 128, 128, 128, 128] = false ∧ dimConsistent 0 [4294967296, 4294967296] = false := by decide

end Ezc3d.C09
