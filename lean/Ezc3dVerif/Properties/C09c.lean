import Ezc3dVerif.Model.Standalone
import Ezc3dVerif.Properties.C09
/-
  C09 (continued) — `Parameters::group(const Group&)`, the "group merge on duplicate group insertion" of the parameter classes
  used on their own: a group whose name no stored group carries is appended and nothing else changes; otherwise its parameters
  are stored one by one (replace in place or append) into the LAST stored group of that name, the list of groups keeps its
  length, every other group is untouched, and the merged-into group keeps its name, description and lock flag.
-/
namespace Ezc3d.C09

theorem lastIdxAux_none (name : Bytes) : ∀ (gs : List Group) (i : Nat), lastIdxAux name gs i none = none → ∀ g ∈ gs, g.name ≠ name := by
  intro gs
  induction gs with
  | nil => intro i _ g hg; simp at hg
  | cons a t ih =>
    intro i h g hg
    simp only [lastIdxAux] at h
    by_cases ha : (a.name == name) = true
    · rw [if_pos ha] at h
      -- once found, the result cannot become none again
      have : ∀ (l : List Group) (j : Nat) (k : Nat), lastIdxAux name l j (some k) ≠ none := by
        intro l
        induction l with
        | nil => intro j k hc; simp [lastIdxAux] at hc
        | cons b r ihr => intro j k; simp only [lastIdxAux]; split <;> exact ihr _ _
      exact absurd h (this t (i + 1) i)
    · rw [if_neg ha] at h
      simp only [List.mem_cons] at hg
      rcases hg with rfl | hg
      · intro hc; apply ha; simp [hc]
      · exact ih (i + 1) h g hg

/-- a group of a new name is appended; every stored group keeps its place and content -/
theorem addGroup_new (gs : List Group) (g : Group) (h : ∀ x ∈ gs, x.name ≠ g.name) : Parameters.addGroup gs g = .ok (gs ++ [g]) := by
  unfold Parameters.addGroup lastGroupIdx
  have : ∀ (l : List Group) (i : Nat), (∀ x ∈ l, x.name ≠ g.name) → lastIdxAux g.name l i none = none := by
    intro l
    induction l with
    | nil => intro i _; rfl
    | cons a t ih =>
      intro i hl
      simp only [lastIdxAux]
      have : (a.name == g.name) = false := by simpa using hl a (by simp)
      rw [this]
      exact ih (i + 1) (fun x hx => hl x (by simp [hx]))
  rw [this gs 0 h]

/-- merging keeps the number of groups and touches only group `i`, whose name, description and lock flag stay -/
theorem mergeParams_frame (i : Nat) (ps : List Param) : ∀ (gs gs' : List Group), mergeParams gs i ps = .ok gs' →
    gs'.length = gs.length ∧ (∀ j, j ≠ i → gs'[j]? = gs[j]?) ∧
    (∀ g g', gs[i]? = some g → gs'[i]? = some g' → g'.name = g.name ∧ g'.desc = g.desc ∧ g'.locked = g.locked) := by
  induction ps with
  | nil =>
    intro gs gs' h
    simp only [mergeParams] at h; cases h
    exact ⟨rfl, fun _ _ => rfl, fun g g' h1 h2 => by rw [h1] at h2; cases h2; exact ⟨rfl, rfl, rfl⟩⟩
  | cons p rest ih =>
    intro gs gs' h
    simp only [mergeParams] at h
    split at h
    · cases h
    · rename_i grp hgrp
      split at h
      · rename_i grp' hadd
        obtain ⟨h1, h2, h3⟩ := ih _ gs' h
        obtain ⟨_, hn, hd, hl⟩ := addParam_lookup grp grp' p hadd
        have hlt : i < gs.length := by
          rcases Nat.lt_or_ge i gs.length with hh | hh
          · exact hh
          · rw [List.getElem?_eq_none hh] at hgrp; cases hgrp
        refine ⟨by rw [h1]; simp, ?_, ?_⟩
        · intro j hj; rw [h2 j hj, List.getElem?_set_ne (fun e => hj e.symm)]
        · intro g g' hg hg'
          rw [hgrp] at hg; cases hg
          obtain ⟨a, b, c⟩ := h3 grp' g' (by rw [List.getElem?_set_self hlt]) hg'
          exact ⟨by rw [a, hn], by rw [b, hd], by rw [c, hl]⟩
      · cases h
      · cases h

/-- a group whose parameters are all typed (every group built through `Group::parameter` is) merges without exception -/
theorem mergeParams_ok (i : Nat) (ps : List Param) (ht : ∀ p ∈ ps, p.type ≠ .none) : ∀ (gs : List Group), i < gs.length →
    ∃ gs', mergeParams gs i ps = .ok gs' := by
  induction ps with
  | nil => intro gs _; exact ⟨gs, rfl⟩
  | cons p rest ih =>
    intro gs hi
    simp only [mergeParams]
    have : gs[i]? = some gs[i] := by simp [hi]
    rw [this]
    simp only
    have hty := ht p (by simp)
    have hadd : ∃ grp', gs[i].addParam p = .ok grp' := by
      unfold Group.addParam
      rw [if_neg hty]
      split
      · exact ⟨_, rfl⟩
      · exact ⟨_, rfl⟩
    obtain ⟨grp', hg'⟩ := hadd
    rw [hg']
    simp only
    exact ih (fun q hq => ht q (by simp [hq])) _ (by rw [List.length_set]; exact hi)

/-- non-vacuity: merging {A: [x := int 1]} into [A: [x := int 0, y], B] replaces x in place and keeps y and B -/
example : Parameters.addGroup
      [{ name := [65], params := [{ name := [120], type := .int, dims := [1], ints := [0] }, { name := [121], type := .int, dims := [1], ints := [5] }] }, { name := [66] }]
      { name := [65], params := [{ name := [120], type := .int, dims := [1], ints := [1] }] }
    = .ok [{ name := [65], params := [{ name := [120], type := .int, dims := [1], ints := [1] }, { name := [121], type := .int, dims := [1], ints := [5] }] }, { name := [66] }] := by
  decide

end Ezc3d.C09
