import Ezc3dVerif.Properties.C02b
import Ezc3dVerif.Proofs.Assemble
/-
  C02 (continued) — the loaded GROUP TABLE as a function of the independent decoder's output alone. `both_decoders_layout`
  states the loader's table as `rs.foldl applyRec []` (the model's own replace-or-append loops over the file's records) and the
  decoder's output as the flat record lists. Here the gap is closed: `Spec.assemble` (Spec/Assemble.lean) presents the flat
  lists declaratively — header of a group id = its last group record, parameters = one per name in order of first
  appearance, each with the content of the last record of that name — and the loader's table, viewed group by group, IS that
  presentation of what the decoder returned for the same bytes: records in any order, ids with gaps, a parameter before its
  group's record, repeated names.
-/
namespace Ezc3d.C02
open N Spec

/-- looking a name up in the presented parameters of a group finds the LAST record of that name and id -/
theorem find?_filterMap_named (ns : List Bytes) (f : Bytes → Option SParam) (hf : ∀ m x, f m = some x → x.name = m) (n : Bytes) :
    (ns.filterMap f).find? (fun x => x.name == n) = if n ∈ ns then f n else none := by
  induction ns with
  | nil => rfl
  | cons a t ih =>
    simp only [List.filterMap_cons]
    cases hfa : f a with
    | none =>
      simp only [ih, List.mem_cons]
      by_cases han : n = a
      · subst han; simp [hfa]
      · simp [han]
    | some x =>
      have hx := hf a x hfa
      simp only [List.find?_cons, hx, List.mem_cons]
      by_cases han : a = n
      · subst han; simp [hfa]
      · have : (a == n) = false := by simpa using han
        simp only [this, ih]
        have : ¬ n = a := fun h => han h.symm
        simp [this]

theorem paramsOf_lookup (ps : List SParam) (g : Nat) (n : Bytes) :
    (paramsOf ps g).find? (fun x => x.name == n) = lastNamed (ps.filter (fun p => p.gid == g)) n := by
  unfold paramsOf
  simp only
  rw [find?_filterMap_named _ _ (fun m x h => lastNamed_name _ m x h) n]
  split
  · rfl
  · rename_i h
    rw [mem_firstOcc] at h
    unfold lastNamed
    symm
    rw [List.find?_eq_none]
    intro x hx hc
    apply h
    simp only [List.mem_reverse] at hx
    simp only [beq_iff_eq] at hc
    exact List.mem_map.mpr ⟨x, hx, hc⟩

/-- no name is presented twice -/
theorem paramsOf_nodup (ps : List SParam) (g : Nat) : ((paramsOf ps g).map (·.name)).Nodup := by
  have := presented_names (ps.filter (fun p => p.gid == g))
  unfold presented at this
  unfold paramsOf
  simp only
  rw [this]
  exact firstOcc_nodup _

/-- the table has one entry per id from 1 to the largest id any record carries … -/
theorem assemble_length (gs : List SGroup) (ps : List SParam) : (Spec.assemble gs ps).length = maxId gs ps := by
  simp [Spec.assemble]

/-- … and an id that NO record carries is presented as a blank, unlocked, parameter-less placeholder -/
theorem assemble_placeholder (gs : List SGroup) (ps : List SParam) (i : Nat) (hi : i < maxId gs ps)
    (hg : ∀ r ∈ gs, r.gid ≠ i + 1) (hp : ∀ q ∈ ps, q.gid ≠ i + 1) :
    (Spec.assemble gs ps)[i]? = some {} := by
  unfold Spec.assemble
  rw [List.getElem?_map, List.getElem?_range hi]
  have h1 : gs.filter (fun r => r.gid == i + 1) = [] := by
    rw [List.filter_eq_nil_iff]; intro r hr; simpa using hg r hr
  have h2 : ps.filter (fun q => q.gid == i + 1) = [] := by
    rw [List.filter_eq_nil_iff]; intro q hq; simpa using hp q hq
  simp only [Option.map_some, headerOf, paramsOf, h1, h2, List.getLast?_nil, List.map_nil, firstOcc, List.filterMap_nil]

/-! ### look-ups by name in the loaded table -/

theorem findIdx?_mapIdx_indep {α β} (l : List α) : ∀ (f : Nat → α → β) (p : β → Bool) (q : α → Bool), (∀ i x, p (f i x) = q x) →
    (l.mapIdx f).findIdx? p = l.findIdx? q := by
  induction l with
  | nil => intro f p q _; rfl
  | cons a t ih =>
    intro f p q h
    rw [List.mapIdx_cons]
    simp only [List.findIdx?_cons, h 0 a]
    rw [ih (fun i => f (i + 1)) p q (fun i x => h (i + 1) x)]

theorem byName_eq_find {α} (name : α → Bytes) (l : List α) (key : Bytes) :
    byName name l key = (match l.find? (fun a => name a == key) with | some a => .ok a | none => .throw .invalid_argument) := by
  unfold byName nameIdx
  induction l with
  | nil => rfl
  | cons a t ih =>
    simp only [List.findIdx?_cons, List.find?_cons]
    by_cases h : (name a == key) = true
    · simp [h, atIdx]
    · have hf : (name a == key) = false := by simpa using h
      simp only [hf, Bool.false_eq_true, if_false]
      cases hi : t.findIdx? (fun a => name a == key) with
      | none =>
        rw [hi] at ih
        simp only [Option.map_none]
        exact ih
      | some k =>
        rw [hi] at ih
        simp only [Option.map_some, Res.bind_ok] at ih ⊢
        unfold atIdx at ih ⊢
        rw [List.getElem?_cons_succ]
        exact ih

theorem find?_congr_mem {α} (l : List α) (p q : α → Bool) (h : ∀ a ∈ l, p a = q a) : l.find? p = l.find? q := by
  induction l with
  | nil => rfl
  | cons a t ih =>
    simp only [List.find?_cons, h a (by simp)]
    rw [ih (fun b hb => h b (by simp [hb]))]

theorem foldl_recAt_upper (rs : List Rec) : ∀ (i : Nat) (g : Group), UpperG g → UpperG (rs.foldl (recAt i) g) := by
  induction rs with
  | nil => intro i g h; exact h
  | cons r t ih => intro i g h; exact ih i _ (recAt_upper i g r h)

/-- A LOOK-UP BY (group name, parameter name) IN THE LOADED TABLE FINDS WHAT `Spec.lookup` FINDS IN THE FILE'S RECORDS: the first
    group (lowest id) carrying the group name, and in it the LAST record of the parameter name; it throws exactly when the
    records hold no such pair; it is never undefined -/
theorem table_lookup (rs : List Rec) (g p : Bytes) :
    (match getParam (rs.foldl applyRec []) g p with
     | .ok q => ∃ i, Spec.lookup (specGroupsR rs) (specParamsR rs) g p = some (specParam i q)
     | .throw _ => Spec.lookup (specGroupsR rs) (specParamsR rs) g p = none
     | .ub _ => False) := by
  have hT := table_eq_assemble rs
  have hidx : (Spec.assemble (specGroupsR rs) (specParamsR rs)).findIdx? (fun a => a.name == g)
      = (rs.foldl applyRec []).findIdx? (fun x => x.name == g) := by
    rw [← hT]
    exact findIdx?_mapIdx_indep _ viewG _ _ (fun i x => rfl)
  unfold Spec.lookup getParam byName nameIdx
  rw [hidx]
  cases hi : (rs.foldl applyRec []).findIdx? (fun x => x.name == g) with
  | none => simp only [Res.bind]
  | some i =>
    have hlt : i < (rs.foldl applyRec []).length := by
      rw [List.findIdx?_eq_some_iff_getElem] at hi
      exact hi.1
    simp only [Res.bind_ok]
    unfold atIdx
    rw [List.getElem?_eq_getElem hlt]
    simp only [Res.bind_ok]
    have hget : (rs.foldl applyRec [])[i] = rs.foldl (recAt i) {} := by
      have : (rs.foldl applyRec [])[i] = (rs.foldl applyRec []).getD i {} := by
        rw [List.getD_eq_getElem?_getD, List.getElem?_eq_getElem hlt]; rfl
      rw [this, foldl_applyRec_getD]; rfl
    have hup : UpperG (rs.foldl applyRec [])[i] := by
      rw [hget]; exact foldl_recAt_upper rs i {} (by intro x hx; simp at hx)
    have hpar : (rs.foldl applyRec [])[i].params.map (specParam i) = paramsOf (specParamsR rs) (i + 1) := by
      have h1 : ((rs.foldl applyRec []).mapIdx viewG)[i]? = (Spec.assemble (specGroupsR rs) (specParamsR rs))[i]? := by rw [hT]
      rw [List.getElem?_mapIdx, List.getElem?_eq_getElem hlt] at h1
      unfold Spec.assemble at h1
      have hlt2 : i < maxId (specGroupsR rs) (specParamsR rs) := by rw [← table_length]; exact hlt
      rw [List.getElem?_map, List.getElem?_range hlt2] at h1
      simp only [Option.map_some, Option.some.injEq] at h1
      have := congrArg AGroup.params h1
      simpa [viewG] using this
    have hb := byName_eq_find Param.name (rs.foldl applyRec [])[i].params p
    unfold byName nameIdx atIdx at hb
    rw [hb]
    have hfind : ((rs.foldl applyRec [])[i].params.find? (fun a => a.name == p)).map (specParam i)
        = lastNamed ((specParamsR rs).filter (fun q => q.gid == i + 1)) p := by
      rw [← paramsOf_lookup, ← hpar, List.find?_map]
      congr 1
      apply find?_congr_mem
      intro x hx
      simp only [Function.comp, specParam, hup x hx]
    cases hf : (rs.foldl applyRec [])[i].params.find? (fun a => a.name == p) with
    | none =>
      rw [hf] at hfind
      simp only [Option.map_none] at hfind
      simp only
      exact hfind.symm
    | some q =>
      rw [hf] at hfind
      simp only [Option.map_some] at hfind
      exact ⟨i, hfind.symm⟩

/-- THE LOADED GROUP TABLE IS THE PRESENTATION OF WHAT THE INDEPENDENT DECODER EXTRACTS FROM THE SAME BYTES -/
theorem loaded_table_is_assembled (F : FloatOps) (h : Header) (Z pa ds nb : Nat) (zp : Bool) (gap pad : Bytes) (rs : List Rec) (frames : List Frame)
    (pl al : List Bytes) (hy : LayoutHyps F h Z pa ds nb gap pad rs frames pl al) (hdsv : ds = pa + nb)
    (hne : ¬ (h.nbPoints = 0 ∧ h.nbAnalogs = 0)) :
    ∃ (obj : C3D) (content : Spec.Content),
      C3D.load F (List.replicate Z 0 ++ h.bytesP pa ds [] ++ gap ++ ((if zp then 0 else low8N 1) :: (if zp then 0 else 0x50) :: low8N nb :: 84 ::
          (recsBytes rs ++ 0 :: pad)) ++ writeData frames) = .ok obj ∧
      Spec.decode (List.replicate Z 0 ++ h.bytesP pa ds [] ++ gap ++ ((if zp then 0 else low8N 1) :: (if zp then 0 else 0x50) :: low8N nb :: 84 ::
          (recsBytes rs ++ 0 :: pad)) ++ writeData frames) true = some content ∧
      obj.groups.mapIdx viewG = Spec.assemble content.groups content.params ∧
      obj.frames.map specFrame = content.frames ∧
      specHeaderP obj.hdr obj.hdr.paramAddr obj.hdr.dataStart = content.header := by
  obtain ⟨obj, content, a, b, c, d, e, f, g, _⟩ := both_decoders_layout F h Z pa ds nb zp gap pad rs frames pl al hy hdsv hne
  refine ⟨obj, content, a, b, ?_, f, g⟩
  rw [c, d, e]
  exact table_eq_assemble rs

/-- … and every look-up by names in the loaded object returns what `Spec.lookup` finds in the decoder's output for the same bytes -/
theorem loaded_lookup (F : FloatOps) (h : Header) (Z pa ds nb : Nat) (zp : Bool) (gap pad : Bytes) (rs : List Rec) (frames : List Frame)
    (pl al : List Bytes) (hy : LayoutHyps F h Z pa ds nb gap pad rs frames pl al) (hdsv : ds = pa + nb)
    (hne : ¬ (h.nbPoints = 0 ∧ h.nbAnalogs = 0)) (g p : Bytes) :
    ∃ (obj : C3D) (content : Spec.Content),
      C3D.load F (List.replicate Z 0 ++ h.bytesP pa ds [] ++ gap ++ ((if zp then 0 else low8N 1) :: (if zp then 0 else 0x50) :: low8N nb :: 84 ::
          (recsBytes rs ++ 0 :: pad)) ++ writeData frames) = .ok obj ∧
      Spec.decode (List.replicate Z 0 ++ h.bytesP pa ds [] ++ gap ++ ((if zp then 0 else low8N 1) :: (if zp then 0 else 0x50) :: low8N nb :: 84 ::
          (recsBytes rs ++ 0 :: pad)) ++ writeData frames) true = some content ∧
      (match getParam obj.groups g p with
       | .ok q => ∃ i, Spec.lookup content.groups content.params g p = some (specParam i q)
       | .throw _ => Spec.lookup content.groups content.params g p = none
       | .ub _ => False) := by
  obtain ⟨obj, content, a, b, c, d, e, _⟩ := both_decoders_layout F h Z pa ds nb zp gap pad rs frames pl al hy hdsv hne
  refine ⟨obj, content, a, b, ?_⟩
  rw [c, d, e]
  exact table_lookup rs g p

/-! ### non-vacuity -/

example :
    Spec.lookup
      [{ gid := 3, name := [65], locked := false, desc := [100] }, { gid := 1, name := [65], locked := true, desc := [] }]
      [{ gid := 1, name := [88], locked := false, dims := [], data := .ints [1], desc := [] },
       { gid := 3, name := [88], locked := false, dims := [], data := .ints [2], desc := [] },
       { gid := 1, name := [88], locked := true, dims := [], data := .ints [4], desc := [] }] [65] [88]
    = some { gid := 1, name := [88], locked := true, dims := [], data := .ints [4], desc := [] } := by decide

/-- records out of order, an id gap, a repeated name, a parameter ahead of its group's record, a group record without
    description after one with: the presentation a reader expects -/
example :
    Spec.assemble
      [{ gid := 3, name := [66], locked := false, desc := [100] }, { gid := 1, name := [65], locked := true, desc := [] },
       { gid := 3, name := [67], locked := false, desc := [] }]
      [{ gid := 1, name := [88], locked := false, dims := [], data := .ints [1], desc := [] },
       { gid := 3, name := [89], locked := false, dims := [], data := .ints [2], desc := [] },
       { gid := 1, name := [90], locked := false, dims := [], data := .ints [3], desc := [] },
       { gid := 1, name := [88], locked := true, dims := [], data := .ints [4], desc := [] }]
    = [{ name := [65], locked := true, desc := [],
         params := [{ gid := 1, name := [88], locked := true, dims := [], data := .ints [4], desc := [] },
                    { gid := 1, name := [90], locked := false, dims := [], data := .ints [3], desc := [] }] },
       {},
       { name := [67], locked := false, desc := [100],
         params := [{ gid := 3, name := [89], locked := false, dims := [], data := .ints [2], desc := [] }] }] := by decide

example : ∃ obj content, C3D.load F1 (List.replicate 3 0 ++ h1.bytesP 3 4 [] ++ List.replicate 512 0 ++
      ((if true then 0 else low8N 1) :: (if true then 0 else 0x50) :: low8N 1 :: 84 :: (recsBytes rs1 ++ 0 :: pad1)) ++ writeData frames1) = .ok obj ∧
    Spec.decode (List.replicate 3 0 ++ h1.bytesP 3 4 [] ++ List.replicate 512 0 ++
      ((if true then 0 else low8N 1) :: (if true then 0 else 0x50) :: low8N 1 :: 84 :: (recsBytes rs1 ++ 0 :: pad1)) ++ writeData frames1) true = some content ∧
    obj.groups.mapIdx viewG = Spec.assemble content.groups content.params := by
  obtain ⟨obj, content, a, b, c, _⟩ := loaded_table_is_assembled F1 h1 3 3 4 1 true (List.replicate 512 0) pad1 rs1 frames1 [[76, 49]] []
    layout_example4 rfl (by decide)
  exact ⟨obj, content, a, b, c⟩

end Ezc3d.C02
