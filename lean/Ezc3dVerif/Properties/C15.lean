import Ezc3dVerif.Model.SaveIO
/-
  C15 — a save that did not reach the disk is reported (the part that is logic).
  `C3D.saveTo` models c3d::write against a destination that cannot be opened, or that stops accepting
  bytes after `budget` bytes. The theorems: saving returns normally EXACTLY when the destination took
  every byte the save hands to the operating system, and otherwise throws the I/O failure class - for
  every object and every budget. The check ties this to the library by interposing write(2)/writev(2)
  at every budget k; delayed write-back errors after close() are outside the model.
-/
namespace Ezc3d.C15

theorem unopenable_throws (s : C3D) : s.saveTo .unopenable = .throw .ios_failure := rfl

/-- normal return iff complete content accepted -/
theorem saveTo_ok_iff (s : C3D) (budget : Nat) :
    s.saveTo (.accepts budget) = .ok true ↔ ∃ file, s.write = .ok file ∧ writeCallBytes s file ≤ budget := by
  unfold C3D.saveTo
  cases hw : s.write with
  | ok file =>
    simp only [Res.bind_ok]
    constructor
    · intro h; split at h
      · exact ⟨file, rfl, by assumption⟩
      · cases h
    · rintro ⟨f, hf, hle⟩; cases hf; simp [hle]
  | throw e => simp
  | ub k => simp

/-- a fault at any offset before the end is reported as an I/O failure -/
theorem saveTo_fault_throws (s : C3D) (budget : Nat) (file : Bytes) (hw : s.write = .ok file)
    (hk : budget < writeCallBytes s file) : s.saveTo (.accepts budget) = .throw .ios_failure := by
  unfold C3D.saveTo
  simp only [hw, Res.bind_ok]
  have : ¬ writeCallBytes s file ≤ budget := by omega
  simp [this]

/-- saving never reports success with `false`, and never any other exception class than the I/O failure
    (on objects the writer can serialise) -/
theorem saveTo_outcomes (s : C3D) (sink : Sink) (file : Bytes) (hw : s.write = .ok file) :
    s.saveTo sink = .ok true ∨ s.saveTo sink = .throw .ios_failure := by
  cases sink with
  | unopenable => right; rfl
  | accepts b =>
    unfold C3D.saveTo
    simp only [hw, Res.bind_ok]
    split
    · left; rfl
    · right; rfl

/-- more room never turns a successful save into a failure -/
theorem saveTo_mono (s : C3D) (b1 b2 : Nat) (h : b1 ≤ b2) (hok : s.saveTo (.accepts b1) = .ok true) :
    s.saveTo (.accepts b2) = .ok true := by
  obtain ⟨file, hw, hle⟩ := (saveTo_ok_iff s b1).mp hok
  exact (saveTo_ok_iff s b2).mpr ⟨file, hw, by omega⟩

/-- the bytes handed to the OS are at least the file itself (the back-patches come on top) -/
theorem writeCallBytes_ge (s : C3D) (file : Bytes) : file.length ≤ writeCallBytes s file := by
  unfold writeCallBytes; omega

/-- so a destination that cannot even hold the file always makes the save throw -/
theorem saveTo_short_throws (s : C3D) (budget : Nat) (file : Bytes) (hw : s.write = .ok file)
    (hk : budget < file.length) : s.saveTo (.accepts budget) = .throw .ios_failure :=
  saveTo_fault_throws s budget file hw (by have := writeCallBytes_ge s file; omega)

end Ezc3d.C15
