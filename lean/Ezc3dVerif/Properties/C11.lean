import Ezc3dVerif.Model.Api
/-
  C11 — look-ups return the right element or throw the documented error.
  Statements only (helper lemmas live in Proofs/); every theorem is for all container sizes, all
  indices (any Nat, hence every size_t value), all names.
-/
namespace Ezc3d.C11

/-- positional access: the element at that position … -/
theorem atIdx_ok {α} (l : List α) (i : Nat) (h : i < l.length) : atIdx l i = .ok l[i] := by
  simp [atIdx, h]

/-- … or out_of_range for any position at or beyond the size -/
theorem atIdx_out_of_range {α} (l : List α) (i : Nat) (h : l.length ≤ i) :
    atIdx l i = .throw .out_of_range := by
  have : l[i]? = none := by simp [h]
  simp [atIdx, this]

theorem atIdx_ok_iff {α} (l : List α) (i : Nat) : (∃ a, atIdx l i = .ok a) ↔ i < l.length := by
  constructor
  · intro ⟨a, h⟩
    by_cases hi : i < l.length
    · exact hi
    · rw [atIdx_out_of_range l i (by omega)] at h; cases h
  · intro h; exact ⟨_, atIdx_ok l i h⟩

/-- positional access never evaluates to undefined behaviour -/
theorem atIdx_no_ub {α} (l : List α) (i : Nat) (k : UBKind) : atIdx l i ≠ .ub k := by
  unfold atIdx; split <;> simp

/-- by-name search returns the FIRST element whose name equals the key, byte for byte -/
theorem nameIdx_ok {α} (name : α → Bytes) (l : List α) (key : Bytes) (i : Nat)
    (h : nameIdx name l key = .ok i) :
    ∃ hi : i < l.length, name l[i] = key ∧ ∀ j (hj : j < i), name (l[j]'(by omega)) ≠ key := by
  unfold nameIdx at h
  split at h
  · rename_i j hj
    cases h
    rw [List.findIdx?_eq_some_iff_getElem] at hj
    obtain ⟨hi, hp, hlt⟩ := hj
    refine ⟨hi, by simpa using hp, ?_⟩
    intro j' hj'
    have := hlt j' hj'
    simpa using this
  · cases h

/-- … or invalid_argument when no element has that name -/
theorem nameIdx_missing {α} (name : α → Bytes) (l : List α) (key : Bytes)
    (h : ∀ a ∈ l, name a ≠ key) : nameIdx name l key = .throw .invalid_argument := by
  unfold nameIdx
  have : l.findIdx? (fun a => name a == key) = none := by
    rw [List.findIdx?_eq_none_iff]
    intro a ha; simpa using h a ha
  simp [this]

theorem nameIdx_present {α} (name : α → Bytes) (l : List α) (key : Bytes)
    (h : ∃ a ∈ l, name a = key) : ∃ i, nameIdx name l key = .ok i := by
  unfold nameIdx
  cases hf : l.findIdx? (fun a => name a == key) with
  | some i => exact ⟨i, rfl⟩
  | none =>
    rw [List.findIdx?_eq_none_iff] at hf
    obtain ⟨a, ha, hk⟩ := h
    have := hf a ha
    simp [hk] at this

/-- name look-up and positional look-up of the same element return the same data -/
theorem byName_eq_atIdx {α} (name : α → Bytes) (l : List α) (key : Bytes) (i : Nat)
    (h : nameIdx name l key = .ok i) : byName name l key = atIdx l i := by
  simp [byName, h]

theorem byName_no_ub {α} (name : α → Bytes) (l : List α) (key : Bytes) (k : UBKind) :
    byName name l key ≠ .ub k := by
  unfold byName nameIdx
  split
  · simp only [Res.bind_ok]; exact atIdx_no_ub _ _ _
  · simp

/-- reading a parameter's values as its own type succeeds, as any other type it throws
    invalid_argument -/
theorem asInt_iff (p : Param) : (∃ v, p.asInt = .ok v) ↔ p.type = .int := by
  unfold Param.asInt; split <;> simp_all
theorem asInt_wrong (p : Param) (h : p.type ≠ .int) : p.asInt = .throw .invalid_argument := by
  simp [Param.asInt, h]
theorem asByte_iff (p : Param) : (∃ v, p.asByte = .ok v) ↔ p.type = .byte := by
  unfold Param.asByte; split <;> simp_all
theorem asByte_wrong (p : Param) (h : p.type ≠ .byte) : p.asByte = .throw .invalid_argument := by
  simp [Param.asByte, h]
theorem asFloat_iff (p : Param) : (∃ v, p.asFloat = .ok v) ↔ p.type = .float := by
  unfold Param.asFloat; split <;> simp_all
theorem asFloat_wrong (p : Param) (h : p.type ≠ .float) : p.asFloat = .throw .invalid_argument := by
  simp [Param.asFloat, h]
theorem asString_iff (p : Param) : (∃ v, p.asString = .ok v) ↔ p.type = .char := by
  unfold Param.asString; split <;> simp_all
theorem asString_wrong (p : Param) (h : p.type ≠ .char) : p.asString = .throw .invalid_argument := by
  simp [Param.asString, h]

/-! trailing-space trimming: a point or channel named with trailing spaces is stored and found under
    the trimmed name -/

theorem rtrim_append_spaces (n : Bytes) (k : Nat) : rtrim (n ++ List.replicate k 32) = rtrim n := by
  unfold rtrim
  congr 1
  rw [List.reverse_append, List.reverse_replicate]
  induction k with
  | zero => simp
  | succ k ih => simp [List.replicate_succ, ih]

theorem rtrim_id (n : Bytes) (h : n.getLast? ≠ some 32) : rtrim n = n := by
  unfold rtrim
  cases hr : n.reverse with
  | nil => simp_all
  | cons a t =>
    have ha : n.getLast? = some a := by
      have := congrArg List.head? hr; simpa [List.head?_reverse] using this
    have : a ≠ 32 := by intro h32; apply h; rw [ha, h32]
    have hne : (a == 32) = false := by simpa using this
    simp only [List.dropWhile_cons, hne]
    have : n = (a :: t).reverse := by rw [← hr, List.reverse_reverse]
    simpa using this.symm

theorem point_named_padded (p : Point) (n : Bytes) (k : Nat) (h : n.getLast? ≠ some 32) :
    (p.setName (n ++ List.replicate k 32)).name = n := by
  simp [Point.setName, rtrim_append_spaces, rtrim_id n h]

theorem channel_named_padded (c : Channel) (n : Bytes) (k : Nat) (h : n.getLast? ≠ some 32) :
    (c.setName (n ++ List.replicate k 32)).name = n := by
  simp [Channel.setName, rtrim_append_spaces, rtrim_id n h]

/-- a point stored under a padded name is found under the trimmed name -/
theorem padded_point_found (pts : List Point) (p : Point) (n : Bytes) (k : Nat)
    (h : n.getLast? ≠ some 32) (hn : ∀ q ∈ pts, q.name ≠ n) :
    nameIdx Point.name (pts ++ [p.setName (n ++ List.replicate k 32)]) n = .ok pts.length := by
  unfold nameIdx
  have hp := point_named_padded p n k h
  have : (pts ++ [p.setName (n ++ List.replicate k 32)]).findIdx? (fun a => a.name == n) = some pts.length := by
    rw [List.findIdx?_eq_some_iff_getElem]
    refine ⟨by simp, ?_, ?_⟩
    · simp [hp]
    · intro j hj
      have hj' : j < pts.length := hj
      rw [List.getElem_append_left hj']
      have := hn pts[j] (List.getElem_mem hj')
      simpa using this
  simp [this]

/-- non-vacuity: a concrete container where look-ups hit, miss and are case sensitive -/
example : nameIdx Point.name [{ name := [97] }, { name := [98] }, { name := [98], x := 1 }] [98] = .ok 1 := by decide
example : nameIdx Point.name [{ name := [97] }, { name := [98] }] [66] = .throw .invalid_argument := by decide
example : atIdx [1, 2, 3] 18446744073709551615 = (.throw .out_of_range : Res Nat) := by decide

end Ezc3d.C11
