import Ezc3dVerif.Proofs.Steps
/-
  C05 — header, POINT/ANALOG parameters and stored data always agree.
  Every public mutator ends with `updateHeader` (directly, or through `updateParameters`). These theorems
  say what a completed `updateHeader` establishes between the header and the parameters, for every
  parameter tree, every stored data and every previous header; and that the mandatory parameters stay in
  place along every history (`Mand` is an invariant of `step`).
-/
namespace Ezc3d.C05
open N

theorem subFromRates_keeps (F : FloatOps) (gs : List Group) (r : UInt32) (h h' : Header)
    (hs : subFromRates F gs r h = .ok h') :
    h'.nbPoints = h.nbPoints ∧ h'.rate = h.rate ∧ h'.firstFrame = h.firstFrame ∧ h'.lastFrame = h.lastFrame := by
  unfold subFromRates at hs
  obtain ⟨ga, _, hs⟩ := Res.andThen_ok_iff.mp hs
  split at hs
  · split at hs
    · cases hs; split <;> simp [Header.setNbAnalogByFrame, Header.setNbAnalogs]
    · obtain ⟨ar, _, hs⟩ := Res.andThen_ok_iff.mp hs
      cases hs; split <;> simp [Header.setNbAnalogByFrame, Header.setNbAnalogs]
  · cases hs; simp

/-- after `updateHeader`: header point count = POINT:USED, and the header rate agrees with POINT:RATE to
    the precision the library compares at (1e-4 Hz, `rateKey`) -/
theorem updateHeader_points_rate (F : FloatOps) (gs : List Group) (frames : List Frame) (h h' : Header)
    (used : Int) (rate : UInt32) (hu : int0 gs POINT USED = .ok used) (hr : float0 gs POINT RATE = .ok rate)
    (hok : updateHeaderH F gs frames h = .ok h') :
    h'.nbPoints = intToU64 used ∧ F.rateKey h'.rate = F.rateKey rate := by
  unfold updateHeaderH at hok
  simp only [hr, hu, Res.andThen_ok] at hok
  obtain ⟨h3, hsub, hok⟩ := Outcome.bind_ok_iff.mp hok
  obtain ⟨ga, _, hok⟩ := Res.andThen_ok_iff.mp hok
  obtain ⟨h4, h4e, hok⟩ := Outcome.bind_ok_iff.mp hok
  obtain ⟨fr, _, hok⟩ := Res.andThen_ok_iff.mp hok
  -- the header after the first two steps
  generalize hh1 : (if F.rateKey rate ≠ F.rateKey h.rate then { h with rate := rate } else h) = h1 at hsub
  generalize hh2 : (if intToU64 used ≠ h1.nbPoints then { h1 with nbPoints := intToU64 used } else h1) = h2 at hsub
  have e1 : F.rateKey h1.rate = F.rateKey rate := by
    rw [← hh1]; split
    · rfl
    · rename_i hne; simp at hne; exact hne.symm
  have e2 : h2.nbPoints = intToU64 used ∧ h2.rate = h1.rate := by
    rw [← hh2]; split
    · exact ⟨rfl, rfl⟩
    · rename_i hne; simp at hne; exact ⟨hne.symm, rfl⟩
  -- sub-frame step keeps both
  have e3 : h3.nbPoints = h2.nbPoints ∧ h3.rate = h2.rate := by
    cases frames with
    | nil => obtain ⟨a, b, _, _⟩ := subFromRates_keeps F gs rate h2 h3 hsub; exact ⟨a, b⟩
    | cons f0 t =>
      simp only at hsub
      split at hsub
      · cases hsub; split <;> simp [Header.setNbAnalogByFrame, Header.setNbAnalogs]
      · obtain ⟨a, b, _, _⟩ := subFromRates_keeps F gs rate h2 h3 hsub; exact ⟨a, b⟩
  have e4 : h4.nbPoints = h3.nbPoints ∧ h4.rate = h3.rate := by
    split at h4e
    · obtain ⟨au, _, h4e⟩ := Res.andThen_ok_iff.mp h4e
      cases h4e; split <;> simp [Header.setNbAnalogs]
    · cases h4e; simp [Header.setNbAnalogs]
  have e5 : h'.nbPoints = h4.nbPoints ∧ h'.rate = h4.rate := by
    split at hok <;> cases hok <;> simp
  refine ⟨by rw [e5.1, e4.1, e3.1, e2.1], by rw [e5.2, e4.2, e3.2, e2.2, e1]⟩

/-- the mandatory parameters stay in place along every history: every successful public call preserves
    `Mand` (for `parameter`, provided the edit itself keeps them - replacing POINT:USED by a string is the
    excluded case, a known finding of C10) -/
theorem step_preserves_Mand (F : FloatOps) (s s' : C3D) (op : Op) (hM : Mand s.groups)
    (hP : ∀ g p, op = .parameter g p → ∀ gs', insertParam s.groups g p = .ok gs' → Mand gs')
    (h : step F s op = .ok s') : Mand s'.groups := by
  have upd : ∀ (s1 : C3D) (np na : List Bytes), Mand s1.groups → ∀ s2, updateParameters F s1 np na = .ok s2 → Mand s2.groups := by
    intro s1 np na hM1 s2 h2
    by_cases hg : s1.frames.length ≠ 0 ∧ (np.length > 0 ∨ na.length > 0)
    · unfold updateParameters at h2
      rcases hg with ⟨a, b | b⟩
      · rw [if_pos ⟨a, b⟩] at h2; cases h2
      · split at h2
        · cases h2
        · rw [if_pos ⟨a, b⟩] at h2; cases h2
    · obtain ⟨g, hd, hok, hMg⟩ := updateParameters_ok_of_Mand F hM1 np na hg
      rw [hok] at h2; cases h2; exact hMg
  cases op with
  | parameter g p =>
    have h' : s.parameter F g p = .ok s' := h
    unfold C3D.parameter at h'
    split at h'; · cases h'
    split at h'; · cases h'
    obtain ⟨gs', hgs, h'⟩ := Res.andThen_ok_iff.mp h'
    obtain ⟨hd, rfl⟩ := updateHeader_ok h'
    exact hP g p rfl gs' hgs
  | lockGroup g =>
    obtain ⟨gi, _, rfl⟩ := setGroupLock_ok_inv (show s.setGroupLock g true = .ok s' from h)
    exact Mand_lock hM gi true
  | unlockGroup g =>
    obtain ⟨gi, _, rfl⟩ := setGroupLock_ok_inv (show s.setGroupLock g false = .ok s' from h)
    exact Mand_lock hM gi false
  | frame f idx =>
    obtain ⟨fr, _, h2⟩ := frame_ok_inv (show s.frame F f idx = .ok s' from h)
    exact upd { s with frames := fr } [] [] hM _ h2
  | point n =>
    have h' : s.point F n = .ok s' := h
    unfold C3D.point at h'
    split at h'
    · obtain ⟨fr, h2⟩ := pointCols_ok_inv h'; exact upd { s with frames := fr } [] [] hM _ h2
    · exact upd _ _ _ hM _ h'
  | pointCols fs =>
    obtain ⟨fr, h2⟩ := pointCols_ok_inv (show s.pointCols F fs = .ok s' from h); exact upd { s with frames := fr } [] [] hM _ h2
  | analog n =>
    have h' : s.analog F n = .ok s' := h
    unfold C3D.analog at h'
    split at h'
    · obtain ⟨fr, h2⟩ := analogCols_ok_inv h'; exact upd { s with frames := fr } [] [] hM _ h2
    · exact upd _ _ _ hM _ h'
  | analogCols fs =>
    obtain ⟨fr, h2⟩ := analogCols_ok_inv (show s.analogCols F fs = .ok s' from h); exact upd { s with frames := fr } [] [] hM _ h2


/-- a new object has its mandatory parameters (base case of the invariant; also shows the hypotheses of
    C10 / C07 are satisfiable) -/
theorem init_Mand : Mand C3D.init.groups := by
  intro s hs
  unfold slots at hs
  simp only [List.mem_cons, List.mem_nil_iff, or_false] at hs
  rcases hs with rfl | rfl | rfl | rfl | rfl | rfl | rfl | rfl | rfl | rfl | rfl | rfl | rfl
  all_goals first
    | exact ⟨_, rfl, ⟨rfl, by decide⟩⟩
    | exact ⟨_, rfl, rfl⟩
    | exact ⟨_, rfl, trivial⟩

/-- histories of calls that keep the mandatory parameters: the invariant holds in every state reached -/
def runOk (F : FloatOps) (s : C3D) : List Op → C3D
  | [] => s
  | op :: rest => match step F s op with
    | .ok s' => runOk F s' rest
    | .throw _ _ => runOk F s rest          -- a refused call leaves the object unchanged (C10)
    | .ub _ => s

def EditsOk (F : FloatOps) : C3D → List Op → Prop
  | _, [] => True
  | s, op :: rest =>
    (∀ g p, op = .parameter g p → ∀ gs', insertParam s.groups g p = .ok gs' → Mand gs') ∧
    (match step F s op with
     | .ok s' => EditsOk F s' rest
     | .throw _ _ => EditsOk F s rest
     | .ub _ => True)

theorem reach_Mand (F : FloatOps) (ops : List Op) (s : C3D) (hM : Mand s.groups) (hE : EditsOk F s ops) :
    Mand (runOk F s ops).groups := by
  induction ops generalizing s with
  | nil => exact hM
  | cons op rest ih =>
    unfold runOk
    obtain ⟨hP, hrest⟩ := hE
    cases hs : step F s op with
    | ok s' =>
      simp only [hs] at hrest ⊢
      exact ih s' (step_preserves_Mand F s s' op hM hP hs) hrest
    | throw e l =>
      simp only [hs] at hrest ⊢
      exact ih s hM hrest
    | ub k => simp only; exact hM

end Ezc3d.C05
