import Ezc3dVerif.Proofs.Steps
import Ezc3dVerif.Proofs.Post
/-
  C05 — header, POINT/ANALOG parameters and stored data always agree.
  Every public mutator ends with `updateHeader` (directly, or through `updateParameters`). These theorems
  say what a completed `updateHeader` establishes between the header and the parameters, for every
  parameter tree, every stored data and every previous header; and that the mandatory parameters stay in
  place along every history (`Mand` is an invariant of `step`).
-/
namespace Ezc3d.C05
open N

theorem subFromRates_keeps (F : FloatOps) (gs : List Group) (r : UInt32) (h h' : Header)
    (hs : subFromRates F gs r h = .ok h') :
    h'.nbPoints = h.nbPoints ∧ h'.rate = h.rate ∧ h'.firstFrame = h.firstFrame ∧ h'.lastFrame = h.lastFrame := by
  unfold subFromRates at hs
  obtain ⟨ga, _, hs⟩ := Res.andThen_ok_iff.mp hs
  split at hs
  · split at hs
    · cases hs; split <;> simp [Header.setNbAnalogByFrame, Header.setNbAnalogs]
    · obtain ⟨ar, _, hs⟩ := Res.andThen_ok_iff.mp hs
      cases hs; split <;> simp [Header.setNbAnalogByFrame, Header.setNbAnalogs]
  · cases hs; simp

/-- after `updateHeader`: header point count = POINT:USED, and the header rate agrees with POINT:RATE to
    the precision the library compares at (1e-4 Hz, `rateKey`) -/
theorem updateHeader_points_rate (F : FloatOps) (gs : List Group) (frames : List Frame) (h h' : Header)
    (used : Int) (rate : UInt32) (hu : int0 gs POINT USED = .ok used) (hr : float0 gs POINT RATE = .ok rate)
    (hok : updateHeaderH F gs frames h = .ok h') :
    h'.nbPoints = intToU64 used ∧ F.rateKey h'.rate = F.rateKey rate := by
  unfold updateHeaderH at hok
  simp only [hr, hu, Res.andThen_ok] at hok
  obtain ⟨h3, hsub, hok⟩ := Outcome.bind_ok_iff.mp hok
  obtain ⟨ga, _, hok⟩ := Res.andThen_ok_iff.mp hok
  obtain ⟨h4, h4e, hok⟩ := Outcome.bind_ok_iff.mp hok
  obtain ⟨fr, _, hok⟩ := Res.andThen_ok_iff.mp hok
  -- the header after the first two steps
  generalize hh1 : (if F.rateKey rate ≠ F.rateKey h.rate then { h with rate := rate } else h) = h1 at hsub
  generalize hh2 : (if intToU64 used ≠ h1.nbPoints then { h1 with nbPoints := intToU64 used } else h1) = h2 at hsub
  have e1 : F.rateKey h1.rate = F.rateKey rate := by
    rw [← hh1]; split
    · rfl
    · rename_i hne; simp at hne; exact hne.symm
  have e2 : h2.nbPoints = intToU64 used ∧ h2.rate = h1.rate := by
    rw [← hh2]; split
    · exact ⟨rfl, rfl⟩
    · rename_i hne; simp at hne; exact ⟨hne.symm, rfl⟩
  -- sub-frame step keeps both
  have e3 : h3.nbPoints = h2.nbPoints ∧ h3.rate = h2.rate := by
    cases frames with
    | nil => obtain ⟨a, b, _, _⟩ := subFromRates_keeps F gs rate h2 h3 hsub; exact ⟨a, b⟩
    | cons f0 t =>
      simp only at hsub
      split at hsub
      · cases hsub; split <;> simp [Header.setNbAnalogByFrame, Header.setNbAnalogs]
      · obtain ⟨a, b, _, _⟩ := subFromRates_keeps F gs rate h2 h3 hsub; exact ⟨a, b⟩
  have e4 : h4.nbPoints = h3.nbPoints ∧ h4.rate = h3.rate := by
    split at h4e
    · obtain ⟨au, _, h4e⟩ := Res.andThen_ok_iff.mp h4e
      cases h4e; split <;> simp [Header.setNbAnalogs]
    · cases h4e; simp [Header.setNbAnalogs]
  have e5 : h'.nbPoints = h4.nbPoints ∧ h'.rate = h4.rate := by
    split at hok <;> cases hok <;> simp
  refine ⟨by rw [e5.1, e4.1, e3.1, e2.1], by rw [e5.2, e4.2, e3.2, e2.2, e1]⟩

/-- the mandatory parameters stay in place along every history: every successful public call preserves
    `Mand` (for `parameter`, provided the edit itself keeps them - replacing POINT:USED by a string is the
    excluded case, a known finding of C10) -/
theorem step_preserves_Mand (F : FloatOps) (s s' : C3D) (op : Op) (hM : Mand s.groups)
    (hP : ∀ g p, op = .parameter g p → ∀ gs', insertParam s.groups g p = .ok gs' → Mand gs')
    (h : step F s op = .ok s') : Mand s'.groups := by
  have upd : ∀ (s1 : C3D) (np na : List Bytes), Mand s1.groups → ∀ s2, updateParameters F s1 np na = .ok s2 → Mand s2.groups := by
    intro s1 np na hM1 s2 h2
    by_cases hg : s1.frames.length ≠ 0 ∧ (np.length > 0 ∨ na.length > 0)
    · unfold updateParameters at h2
      rcases hg with ⟨a, b | b⟩
      · rw [if_pos ⟨a, b⟩] at h2; cases h2
      · split at h2
        · cases h2
        · rw [if_pos ⟨a, b⟩] at h2; cases h2
    · obtain ⟨g, hd, hok, hMg⟩ := updateParameters_ok_of_Mand F hM1 np na hg
      rw [hok] at h2; cases h2; exact hMg
  cases op with
  | parameter g p =>
    have h' : s.parameter F g p = .ok s' := h
    unfold C3D.parameter at h'
    split at h'; · cases h'
    split at h'; · cases h'
    obtain ⟨gs', hgs, h'⟩ := Res.andThen_ok_iff.mp h'
    obtain ⟨hd, rfl⟩ := updateHeader_ok h'
    exact hP g p rfl gs' hgs
  | lockGroup g =>
    obtain ⟨gi, _, rfl⟩ := setGroupLock_ok_inv (show s.setGroupLock g true = .ok s' from h)
    exact Mand_lock hM gi true
  | unlockGroup g =>
    obtain ⟨gi, _, rfl⟩ := setGroupLock_ok_inv (show s.setGroupLock g false = .ok s' from h)
    exact Mand_lock hM gi false
  | frame f idx =>
    obtain ⟨fr, _, h2⟩ := frame_ok_inv (show s.frame F f idx = .ok s' from h)
    exact upd { s with frames := fr } [] [] hM _ h2
  | point n =>
    have h' : s.point F n = .ok s' := h
    unfold C3D.point at h'
    split at h'
    · obtain ⟨fr, h2⟩ := pointCols_ok_inv h'; exact upd { s with frames := fr } [] [] hM _ h2
    · exact upd _ _ _ hM _ h'
  | pointCols fs =>
    obtain ⟨fr, h2⟩ := pointCols_ok_inv (show s.pointCols F fs = .ok s' from h); exact upd { s with frames := fr } [] [] hM _ h2
  | analog n =>
    have h' : s.analog F n = .ok s' := h
    unfold C3D.analog at h'
    split at h'
    · obtain ⟨fr, h2⟩ := analogCols_ok_inv h'; exact upd { s with frames := fr } [] [] hM _ h2
    · exact upd _ _ _ hM _ h'
  | analogCols fs =>
    obtain ⟨fr, h2⟩ := analogCols_ok_inv (show s.analogCols F fs = .ok s' from h); exact upd { s with frames := fr } [] [] hM _ h2


/-- a new object has its mandatory parameters (base case of the invariant; also shows the hypotheses of
    C10 / C07 are satisfiable) -/
theorem init_Mand : Mand C3D.init.groups := by
  intro s hs
  unfold slots at hs
  simp only [List.mem_cons, List.mem_nil_iff, or_false] at hs
  rcases hs with rfl | rfl | rfl | rfl | rfl | rfl | rfl | rfl | rfl | rfl | rfl | rfl | rfl
  all_goals first
    | exact ⟨_, rfl, ⟨rfl, by decide⟩⟩
    | exact ⟨_, rfl, rfl⟩
    | exact ⟨_, rfl, trivial⟩

/-- histories of calls that keep the mandatory parameters: the invariant holds in every state reached -/
def runOk (F : FloatOps) (s : C3D) : List Op → C3D
  | [] => s
  | op :: rest => match step F s op with
    | .ok s' => runOk F s' rest
    | .throw _ _ => runOk F s rest          -- a refused call leaves the object unchanged (C10)
    | .ub _ => s

def EditsOk (F : FloatOps) : C3D → List Op → Prop
  | _, [] => True
  | s, op :: rest =>
    (∀ g p, op = .parameter g p → ∀ gs', insertParam s.groups g p = .ok gs' → Mand gs') ∧
    (match step F s op with
     | .ok s' => EditsOk F s' rest
     | .throw _ _ => EditsOk F s rest
     | .ub _ => True)

theorem reach_Mand (F : FloatOps) (ops : List Op) (s : C3D) (hM : Mand s.groups) (hE : EditsOk F s ops) :
    Mand (runOk F s ops).groups := by
  induction ops generalizing s with
  | nil => exact hM
  | cons op rest ih =>
    unfold runOk
    obtain ⟨hP, hrest⟩ := hE
    cases hs : step F s op with
    | ok s' =>
      simp only [hs] at hrest ⊢
      exact ih s' (step_preserves_Mand F s s' op hM hP hs) hrest
    | throw e l =>
      simp only [hs] at hrest ⊢
      exact ih s hM hrest
    | ub k => simp only; exact hM

/-! ### the three views agree after every successful data mutator -/

/-- THE AGREEMENT OF C05, with the first stored frame as the witness of the data:
    header ⟷ parameters (`HP`: point count, rate, channel count, samples per frame, frame count, sub-frame count),
    exact analog words (`HdrInv`), and parameters ⟷ data (POINT:FRAMES = stored frames, POINT:USED = points of the first
    frame, ANALOG:USED = channels of its first sub-frame) -/
structure Agree (F : FloatOps) (s : C3D) : Prop where
  hp : HP F s.groups s.frames s.hdr
  exact : HdrInv s.hdr
  nframes : ∃ fr, int0 s.groups POINT FRAMES = .ok fr ∧ intToU64 fr = s.frames.length
  used : ∀ f0 t, s.frames = f0 :: t → ∃ u, int0 s.groups POINT USED = .ok u ∧ intToU64 u = f0.pts.length
  aused : ∀ f0 t sf0 r, s.frames = f0 :: t → f0.subs = sf0 :: r → ∃ u, int0 s.groups ANALOG USED = .ok u ∧ intToU64 u = sf0.length

/-- sizes within the range of the library's `int` conversions (2^31 frames, points, channels; 2^32 sub-frames) -/
structure Small (frames : List Frame) (ol oa np na : List Bytes) : Prop where
  nfr : frames.length < two31
  npt : nPointNames frames ol np < two31
  nch : nChannelNames frames oa na < two31
  nsub : ∀ f0 t, frames = f0 :: t → f0.subs.length < two32

theorem agree_of_updateParameters (F : FloatOps) (s s' : C3D) (np na ol oa : List Bytes)
    (hol : strsOf s.groups POINT LABELS = .ok ol) (hoa : strsOf s.groups ANALOG LABELS = .ok oa)
    (hi : HdrInv s.hdr) (hF : ∀ a b, F.ratioNat a b < two32) (hs : Small s.frames ol oa np na)
    (h : updateParameters F s np na = .ok s') : Agree F s' := by
  obtain ⟨hfr, hp, hinv, hnf, hu, hau⟩ := updateParameters_post F s s' np na ol oa hol hoa hi hF hs.nfr hs.npt hs.nch hs.nsub h
  refine ⟨hp, hinv, by rw [hfr]; exact hnf, ?_, ?_⟩
  · intro f0 t hft
    rw [hfr] at hft
    obtain ⟨u, h1, h2⟩ := hu
    exact ⟨u, h1, by rw [h2]; simp [nPointNames, pointNames, hft]⟩
  · intro f0 t sf0 r hft hsf
    rw [hfr] at hft
    obtain ⟨u, h1, h2⟩ := hau
    exact ⟨u, h1, by rw [h2]; simp [nChannelNames, channelNames, hft, hsf]⟩

/-- AFTER EVERY SUCCESSFUL FRAME / POINT / CHANNEL MUTATOR — append, replace or extend a frame, declare a point or a
    channel, add a point or channel column — from ANY state whose mandatory parameters are in place and whose header has
    exact analog words (every reachable state: `init_Mand`, `reach_Mand`, `Agree.exact`), the three views agree. This is an
    intermediate-state statement: it holds after each call of a history, whatever the order of the calls. -/
theorem mutator_agree (F : FloatOps) (s s' : C3D) (op : Op) (hM : Mand s.groups) (hi : HdrInv s.hdr)
    (hF : ∀ a b, F.ratioNat a b < two32)
    (hop : ∀ g p, op ≠ .parameter g p) (hl : ∀ g, op ≠ .lockGroup g) (hu : ∀ g, op ≠ .unlockGroup g)
    (hs : ∀ ol oa np na, strsOf s.groups POINT LABELS = .ok ol → strsOf s.groups ANALOG LABELS = .ok oa →
            (np = [] ∨ ∃ n, op = .point n ∧ np = [rtrim n]) → (na = [] ∨ ∃ n, op = .analog n ∧ na = [rtrim n]) → Small s'.frames ol oa np na)
    (h : step F s op = .ok s') : Agree F s' := by
  obtain ⟨ol, hol⟩ := hM.strs POINT LABELS mem_slots_PL
  obtain ⟨oa, hoa⟩ := hM.strs ANALOG LABELS mem_slots_AL
  cases op with
  | parameter g p => exact absurd rfl (hop g p)
  | lockGroup g => exact absurd rfl (hl g)
  | unlockGroup g => exact absurd rfl (hu g)
  | frame f idx =>
    obtain ⟨fr, _, hup⟩ := frame_ok_inv h
    have hfr := updateParameters_frames hup
    exact agree_of_updateParameters F ({ s with frames := fr } : C3D) s' [] [] ol oa hol hoa hi hF (by rw [← hfr]; exact hs ol oa [] [] hol hoa (Or.inl rfl) (Or.inl rfl)) hup
  | pointCols fs =>
    obtain ⟨fr, hup⟩ := pointCols_ok_inv h
    have hfr := updateParameters_frames hup
    exact agree_of_updateParameters F ({ s with frames := fr } : C3D) s' [] [] ol oa hol hoa hi hF (by rw [← hfr]; exact hs ol oa [] [] hol hoa (Or.inl rfl) (Or.inl rfl)) hup
  | analogCols fs =>
    obtain ⟨fr, hup⟩ := analogCols_ok_inv h
    have hfr := updateParameters_frames hup
    exact agree_of_updateParameters F ({ s with frames := fr } : C3D) s' [] [] ol oa hol hoa hi hF (by rw [← hfr]; exact hs ol oa [] [] hol hoa (Or.inl rfl) (Or.inl rfl)) hup
  | point n =>
    simp only [step, C3D.point] at h
    split at h
    · obtain ⟨fr, hup⟩ := pointCols_ok_inv h
      have hfr := updateParameters_frames hup
      exact agree_of_updateParameters F ({ s with frames := fr } : C3D) s' [] [] ol oa hol hoa hi hF (by rw [← hfr]; exact hs ol oa [] [] hol hoa (Or.inl rfl) (Or.inl rfl)) hup
    · have hfr := updateParameters_frames h
      exact agree_of_updateParameters F s s' [rtrim n] [] ol oa hol hoa hi hF
        (by rw [← hfr]; exact hs ol oa [rtrim n] [] hol hoa (Or.inr ⟨n, rfl, rfl⟩) (Or.inl rfl)) h
  | analog n =>
    simp only [step, C3D.analog] at h
    split at h
    · obtain ⟨fr, hup⟩ := analogCols_ok_inv h
      have hfr := updateParameters_frames hup
      exact agree_of_updateParameters F ({ s with frames := fr } : C3D) s' [] [] ol oa hol hoa hi hF (by rw [← hfr]; exact hs ol oa [] [] hol hoa (Or.inl rfl) (Or.inl rfl)) hup
    · have hfr := updateParameters_frames h
      exact agree_of_updateParameters F s s' [] [rtrim n] ol oa hol hoa hi hF
        (by rw [← hfr]; exact hs ol oa [] [rtrim n] hol hoa (Or.inl rfl) (Or.inr ⟨n, rfl, rfl⟩)) h

/-- the agreement, spelled out on a state that stores data: the words of the property -/
theorem agree_counts (F : FloatOps) (s : C3D) (h : Agree F s) (f0 : Frame) (t : List Frame) (hft : s.frames = f0 :: t) :
    (∃ u, int0 s.groups POINT USED = .ok u ∧ s.hdr.nbPoints = intToU64 u ∧ intToU64 u = f0.pts.length) ∧
    (∃ fr, int0 s.groups POINT FRAMES = .ok fr ∧ intToU64 fr = s.frames.length ∧
        (¬ (s.hdr.nbPoints = 0 ∧ s.hdr.nbAnalogs = 0) → s.hdr.nbFrames = s.frames.length)) ∧
    (∀ sf0 r, f0.subs = sf0 :: r →
        s.hdr.nbAnalogByFrame = f0.subs.length ∧
        ∃ au, int0 s.groups ANALOG USED = .ok au ∧ s.hdr.nbAnalogs = intToU64 au ∧ intToU64 au = sf0.length ∧
          s.hdr.nbAnalogsMeas = sf0.length * f0.subs.length) ∧
    (∃ r, float0 s.groups POINT RATE = .ok r ∧ F.rateKey s.hdr.rate = F.rateKey r) := by
  refine ⟨?_, ?_, ?_, h.hp.rate⟩
  · obtain ⟨u, h1, h2⟩ := h.used f0 t hft
    obtain ⟨u', h1', h2'⟩ := h.hp.points
    rw [h1] at h1'; cases h1'
    exact ⟨u, h1, h2', h2⟩
  · obtain ⟨fr, h1, h2⟩ := h.nframes
    refine ⟨fr, h1, h2, fun hne => ?_⟩
    obtain ⟨fr', h1', h2'⟩ := h.hp.nframes hne
    rw [h1] at h1'; cases h1'
    rw [h2', h2]
  · intro sf0 r hsf
    have hne : f0.subs.length ≠ 0 := by rw [hsf]; simp
    have habf := h.hp.subs f0 t hft hne
    refine ⟨habf, ?_⟩
    obtain ⟨au, h1, h2, h3⟩ := h.hp.analogs (by rw [habf]; exact hne)
    obtain ⟨au', h1', h2'⟩ := h.aused f0 t sf0 r hft hsf
    rw [h1] at h1'; cases h1'
    exact ⟨au, h1, h2, h2', by rw [h3, h2', habf]⟩

/-- base case: a new object agrees (no data; header and parameters all zero) and its analog words are exact -/
theorem init_HdrInv : HdrInv C3D.init.hdr := ⟨by decide, by decide, by decide⟩

/-- non-vacuity: the hypotheses of `mutator_agree` hold for a new object and a float model, the call `point "P"` succeeds
    on it, and the resulting state agrees -/
def F1 : FloatOps := { rateKey := fun b => b.toNat, truncNat := fun b => b.toNat, ratioNat := fun a b => a.toNat / (b.toNat + 1) }

theorem F1_ratio (a b : UInt32) : F1.ratioNat a b < two32 := by
  have h1 : a.toNat / (b.toNat + 1) ≤ a.toNat := Nat.div_le_self _ _
  have h2 : a.toNat < 4294967296 := UInt32.toNat_lt a
  show a.toNat / (b.toNat + 1) < two32
  unfold two32; omega

def okNoFrames : Outcome C3D → Bool
  | .ok s' => s'.frames.isEmpty
  | _ => false
theorem init_point_ok : okNoFrames (step F1 C3D.init (.point [80])) = true := by decide +kernel
theorem init_point_frames : (match step F1 C3D.init (.point [80]) with | .ok s' => s'.frames = [] | _ => False) := by
  have := init_point_ok
  cases hs : step F1 C3D.init (.point [80]) with
  | ok s' => rw [hs] at this; simpa [okNoFrames] using this
  | throw e l => rw [hs] at this; simp [okNoFrames] at this
  | ub k => rw [hs] at this; simp [okNoFrames] at this

example : ∃ s', step F1 C3D.init (.point [80]) = .ok s' := by
  have := init_point_frames
  split at this
  · exact ⟨_, ‹_›⟩
  · exact absurd this id

example (s' : C3D) (h : step F1 C3D.init (.point [80]) = .ok s') : Agree F1 s' := by
  have hfr : s'.frames = [] := by
    have := init_point_frames
    rw [h] at this; exact this
  refine mutator_agree F1 C3D.init s' (.point [80]) init_Mand init_HdrInv F1_ratio (by intro g p hc; cases hc) (by intro g hc; cases hc)
    (by intro g hc; cases hc) ?_ h
  intro ol oa np na hol hoa hnp hna
  have e1 : strsOf C3D.init.groups POINT LABELS = .ok [] := by decide
  have e2 : strsOf C3D.init.groups ANALOG LABELS = .ok [] := by decide
  rw [e1] at hol; cases hol
  rw [e2] at hoa; cases hoa
  rw [hfr]
  refine ⟨by decide, ?_, ?_, by intro f0 t hc; cases hc⟩
  · rcases hnp with rfl | ⟨n, _, rfl⟩
    · decide
    · show 1 < two31; decide
  · rcases hna with rfl | ⟨n, _, rfl⟩
    · decide
    · show 1 < two31; decide

end Ezc3d.C05
